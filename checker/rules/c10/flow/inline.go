package flow

// Helper inlining: a rule that anchors a mechanism in function F must give the
// same verdict when part of F's body is moved into a small same-package
// helper. Inliner.Fn returns a view of F whose body is a deep copy in which
// calls of non-anchor helpers are replaced by the helper's statements:
//
//   - parameters (and the receiver) are substituted by the argument when the
//     argument is a plain variable/constant and the helper never assigns the
//     parameter, otherwise bound by `p := arg`;
//   - `x := h()` with a helper that ends in its only `return local` aliases x
//     to that local; otherwise every `return e` becomes `x = e; goto end`;
//   - `v, err := h(); if err != nil { A }`: a helper return whose error is
//     provably non-nil jumps straight into A, one whose error is the literal
//     nil jumps behind the test (the correlation between the two results that
//     a path-insensitive CFG would otherwise lose);
//   - `return h()` keeps the helper's returns; a call statement drops them.
//
// Every copied node gets the type information of its original (types.Info is
// extended, never changed), so the typed matchers work on the copy unchanged.

import (
	"fmt"
	"go/ast"
	"go/token"
	"go/types"
	"os"
	"reflect"

	"rscheck/cfgq"
	"rscheck/core"
)

// Inliner produces inlined views of functions.
type Inliner struct {
	Prog        *core.Program
	Keep        func(*types.Func) bool // functions that are never inlined (the anchors of the rule set)
	MaxDepth    int
	memo        map[*ast.FuncDecl]*core.Fn
	nlabel      int
	threaded    map[ast.Stmt]bool // tests already re-threaded (rethread.go)
	scratchLits []*ast.FuncLit
	scratch     []*ast.FuncDecl // declarations analysed while a view was built (kept alive: graph caches are keyed by address)
}

// NewInliner creates an inliner; keep names the functions that stay calls.
func NewInliner(p *core.Program, keep func(*types.Func) bool) *Inliner {
	in := &Inliner{Prog: p, Keep: keep, MaxDepth: 2, memo: map[*ast.FuncDecl]*core.Fn{}, threaded: map[ast.Stmt]bool{}}
	// The views this inliner hands out (copied declarations, function literals) are used as keys of
	// per-Program caches that identify a body by its address (cfgq.Of / cfgq.OfLit). They must therefore
	// live as long as the Program: were they collected, a later allocation could reuse an address and be
	// served the cached graph of a different function. Pin the inliner to the Program.
	if p != nil && p.Shared != nil {
		pinned, _ := p.Shared["flow.inliners"].([]*Inliner)
		p.Shared["flow.inliners"] = append(pinned, in)
	}
	return in
}

// Fn returns fn with an inlined copy of its body (memoised; nil stays nil).
func (in *Inliner) Fn(fn *core.Fn) *core.Fn {
	if fn == nil || fn.Decl == nil || fn.Decl.Body == nil {
		return fn
	}
	if v, ok := in.memo[fn.Decl]; ok {
		return v
	}
	cl := &cloner{in: in, info: fn.Pkg.TypesInfo, pkg: fn.Pkg.Types, subst: map[types.Object]ast.Expr{}, stack: []*types.Func{fn.Obj}, outer: fn.Decl.Body, root: fn.Decl.Body}
	body := cl.node(fn.Decl.Body).(*ast.BlockStmt)
	rethread(in, fn.Pkg.TypesInfo, body)
	decl := *fn.Decl
	decl.Body = body
	if os.Getenv("RS_NO_UNDEFER") == "" {
		undefer(fn.Pkg.TypesInfo, fn.Pkg.Types, &decl)
	}
	if os.Getenv("RS_NO_PROPAGATE") == "" {
		constFields(fn.Pkg.TypesInfo, fn.Pkg.Syntax, &decl)
		propagate(in, fn, &decl)
	}
	out := &core.Fn{Obj: fn.Obj, Decl: &decl, Pkg: fn.Pkg}
	in.memo[fn.Decl] = out
	return out
}

func (in *Inliner) label(prefix string) string {
	in.nlabel++
	return fmt.Sprintf("_inl_%s%d", prefix, in.nlabel)
}

// retPolicy says what a return statement of the helper being copied becomes.
type retPolicy struct {
	tail    bool       // `return h()`: keep returns
	lhs     []ast.Expr // targets (already copied); nil for a call statement
	define  bool
	end     string         // label behind the inlined statements
	thread  *threader      // jump threading into the statement that follows the call (nil = none)
	named   []types.Object // named results of the helper
	orig    *core.Fn       // the helper (for error classification on original nodes)
	origRet map[*ast.ReturnStmt]*ast.ReturnStmt
	after   func() []ast.Stmt // the caller's `return ..` that follows the call, copied behind every return site (nil: none)
}

type cloner struct {
	in     *Inliner
	info   *types.Info
	pkg    *types.Package
	subst  map[types.Object]ast.Expr
	stack  []*types.Func
	ret    *retPolicy // nil: returns are copied unchanged
	inLit  int
	outer  ast.Node                      // body of the function (or helper) being copied (for single-assignment tests)
	root   ast.Node                      // body of the function in which closure variables are looked up
	lits   []*ast.FuncLit                // closures being inlined (recursion guard)
	deref  map[types.Object]ast.Expr     // pointer local -> the variable it points to (`out := &b`): *out reads as b
	next2  ast.Stmt                      // the statement behind the one that follows a call being inlined, when it is a test too
	used2  bool                          // ... and it was consumed (threaded into) as well
	spread map[types.Object][]ast.Expr   // variadic parameter that is only forwarded (`f(x, rest...)`) -> the extra arguments of this call
	funcs  map[types.Object]*ast.FuncLit // function-typed parameter -> the literal the call passes for it (only ever called)
}

var (
	objectPtr = reflect.TypeOf((*ast.Object)(nil))
	scopePtr  = reflect.TypeOf((*ast.Scope)(nil))
	stmtSlice = reflect.TypeOf([]ast.Stmt(nil))
)

func (cl *cloner) node(n ast.Node) ast.Node {
	if n == nil || reflect.ValueOf(n).IsNil() {
		return n
	}
	return cl.val(reflect.ValueOf(n)).Interface().(ast.Node)
}

func (cl *cloner) expr(e ast.Expr) ast.Expr {
	if e == nil {
		return nil
	}
	if call, ok := e.(*ast.CallExpr); ok {
		if m := cl.macro(call); m != nil {
			return m
		}
	}
	if id, ok := e.(*ast.Ident); ok {
		return cl.ident(id) // an expression position: the identifier may stand for any substituted expression
	}
	return cl.node(e).(ast.Expr)
}

func (cl *cloner) val(v reflect.Value) reflect.Value {
	switch v.Kind() {
	case reflect.Interface:
		if v.IsNil() {
			return v
		}
		out := reflect.New(v.Type()).Elem()
		if id, ok := v.Interface().(*ast.Ident); ok && id != nil {
			out.Set(reflect.ValueOf(cl.ident(id))) // an expression position: may be substituted by any simple expression
			return out
		}
		if call, ok := v.Interface().(*ast.CallExpr); ok && v.Type() == exprType {
			if m := cl.macro(call); m != nil {
				out.Set(reflect.ValueOf(m))
				return out
			}
		}
		out.Set(cl.val(v.Elem()))
		return out
	case reflect.Ptr:
		if v.IsNil() {
			return v
		}
		if v.Type() == objectPtr || v.Type() == scopePtr {
			return reflect.Zero(v.Type())
		}
		if id, ok := v.Interface().(*ast.Ident); ok {
			if c, isID := cl.ident(id).(*ast.Ident); isID {
				return reflect.ValueOf(c)
			}
			c := &ast.Ident{NamePos: id.NamePos, Name: id.Name} // a name position: never substituted
			cl.register(id, c)
			return reflect.ValueOf(c)
		}
		if _, ok := v.Interface().(*ast.FuncLit); ok {
			cl.inLit++
			defer func() { cl.inLit-- }()
		}
		if call, ok := v.Interface().(*ast.CallExpr); ok && call.Ellipsis.IsValid() && len(call.Args) > 0 {
			if id, isID := ast.Unparen(call.Args[len(call.Args)-1]).(*ast.Ident); isID {
				if extra, has := cl.spread[cl.info.Uses[id]]; has {
					c := &ast.CallExpr{Fun: cl.expr(call.Fun), Lparen: call.Lparen, Rparen: call.Rparen}
					for _, a := range call.Args[:len(call.Args)-1] {
						c.Args = append(c.Args, cl.expr(a))
					}
					for _, a := range extra {
						c.Args = append(c.Args, cl.retarget(a, id.Pos()))
					}
					cl.register(call, c)
					return reflect.ValueOf(c)
				}
			}
		}
		if sel, ok := v.Interface().(*ast.SelectorExpr); ok {
			if id, isID := ast.Unparen(sel.X).(*ast.Ident); isID {
				if tgt, has := cl.deref[cl.info.Uses[id]]; has {
					c := &ast.SelectorExpr{X: cl.retarget(cl.expr(tgt), id.Pos()), Sel: cl.ident(sel.Sel).(*ast.Ident)}
					cl.register(sel, c)
					return reflect.ValueOf(c)
				}
			}
		}
		if st, ok := v.Interface().(*ast.StarExpr); ok {
			if id, isID := ast.Unparen(st.X).(*ast.Ident); isID {
				if tgt, has := cl.deref[cl.info.Uses[id]]; has {
					return reflect.ValueOf(cl.retarget(cl.expr(tgt), st.Pos()))
				}
			}
		}
		nw := reflect.New(v.Type().Elem())
		for i := 0; i < v.Elem().NumField(); i++ {
			f := v.Elem().Field(i)
			if f.Type() == stmtSlice {
				nw.Elem().Field(i).Set(reflect.ValueOf(cl.stmts(f.Interface().([]ast.Stmt))))
				continue
			}
			nw.Elem().Field(i).Set(cl.val(f))
		}
		cl.register(v.Interface(), nw.Interface())
		return nw
	case reflect.Slice:
		if v.IsNil() {
			return v
		}
		out := reflect.MakeSlice(v.Type(), v.Len(), v.Len())
		for i := 0; i < v.Len(); i++ {
			out.Index(i).Set(cl.val(v.Index(i)))
		}
		return out
	}
	return v
}

// register copies the type information of orig to its copy.
func (cl *cloner) register(orig, cp interface{}) {
	if oe, ok := orig.(ast.Expr); ok {
		if tv, ok := cl.info.Types[oe]; ok {
			cl.info.Types[cp.(ast.Expr)] = tv
		}
	}
	switch o := orig.(type) {
	case *ast.Ident:
		c := cp.(*ast.Ident)
		if u, ok := cl.info.Uses[o]; ok {
			cl.info.Uses[c] = u
		}
		if d, ok := cl.info.Defs[o]; ok {
			cl.info.Defs[c] = d
		}
	case *ast.SelectorExpr:
		if s, ok := cl.info.Selections[o]; ok {
			cl.info.Selections[cp.(*ast.SelectorExpr)] = s
		}
	}
}

// ident copies an identifier, or the expression substituted for the variable it uses.
func (cl *cloner) ident(id *ast.Ident) ast.Expr {
	if obj := cl.info.Uses[id]; obj != nil {
		if rep, ok := cl.subst[obj]; ok {
			return cl.retarget(rep, id.Pos())
		}
	}
	c := &ast.Ident{NamePos: id.NamePos, Name: id.Name}
	cl.register(id, c)
	return c
}

// retarget copies a simple expression (identifier, package-qualified name,
// literal) giving it the position of the use it replaces.
func (cl *cloner) retarget(e ast.Expr, pos token.Pos) ast.Expr {
	switch x := e.(type) {
	case *ast.Ident:
		c := &ast.Ident{NamePos: pos, Name: x.Name}
		cl.register(x, c)
		return c
	case *ast.BasicLit:
		c := &ast.BasicLit{ValuePos: pos, Kind: x.Kind, Value: x.Value}
		cl.register(x, c)
		return c
	case *ast.SelectorExpr:
		c := &ast.SelectorExpr{X: cl.retarget(x.X, pos), Sel: cl.retarget(x.Sel, pos).(*ast.Ident)}
		cl.register(x, c)
		return c
	case *ast.UnaryExpr:
		c := &ast.UnaryExpr{OpPos: pos, Op: x.Op, X: cl.retarget(x.X, pos)}
		cl.register(x, c)
		return c
	case *ast.ParenExpr:
		return cl.retarget(x.X, pos)
	case *ast.BinaryExpr:
		c := &ast.ParenExpr{Lparen: pos, X: &ast.BinaryExpr{X: cl.retarget(x.X, pos), OpPos: pos, Op: x.Op, Y: cl.retarget(x.Y, pos)}, Rparen: pos}
		cl.register(x, c.X)
		cl.register(x, c)
		return c
	case *ast.CallExpr:
		if len(x.Args) == 1 {
			c := &ast.CallExpr{Fun: cl.retarget(x.Fun, pos), Lparen: pos, Args: []ast.Expr{cl.retarget(x.Args[0], pos)}, Rparen: pos}
			cl.register(x, c)
			return c
		}
	case *ast.IndexExpr:
		c := &ast.IndexExpr{X: cl.retarget(x.X, pos), Lbrack: pos, Index: cl.retarget(x.Index, pos), Rbrack: pos}
		cl.register(x, c)
		return c
	case *ast.ArrayType, *ast.StarExpr, *ast.MapType, *ast.InterfaceType:
		return x // a type expression inside a conversion
	}
	return e
}

// simple reports whether an (already copied) argument may be substituted for the parameter.
func (cl *cloner) simple(e ast.Expr) bool {
	switch x := ast.Unparen(e).(type) {
	case *ast.Ident:
		return x.Name != "_"
	case *ast.BasicLit:
		return true
	case *ast.SelectorExpr: // only package-qualified names: a field may change while the helper runs
		if id, ok := x.X.(*ast.Ident); ok {
			_, isPkg := cl.info.Uses[id].(*types.PkgName)
			return isPkg
		}
	case *ast.UnaryExpr:
		if tv, ok := cl.info.Types[e]; ok && tv.Value != nil {
			return cl.simple(x.X)
		}
		if x.Op == token.SUB || x.Op == token.ADD || x.Op == token.NOT {
			return cl.simple(x.X)
		}
	case *ast.BinaryExpr: // pure arithmetic / comparison over plain operands: no effect, no order to preserve
		switch x.Op {
		case token.QUO, token.REM, token.SHL, token.SHR, token.LAND, token.LOR:
			return false // may panic / short-circuits
		}
		return cl.simple(x.X) && cl.simple(x.Y)
	case *ast.CallExpr:
		if tv, ok := cl.info.Types[x.Fun]; ok && tv.IsType() && len(x.Args) == 1 {
			return cl.simple(x.Args[0]) // a conversion
		}
		if IsBuiltin(cl.info, x, "len") && len(x.Args) == 1 {
			return cl.simple(x.Args[0])
		}
	}
	return false
}

// ---------------------------------------------------------------------------
// statement lists

func (cl *cloner) stmts(list []ast.Stmt) []ast.Stmt {
	if list == nil {
		return nil
	}
	out := make([]ast.Stmt, 0, len(list))
	for i := 0; i < len(list); i++ {
		s := list[i]
		if cl.copyProp(s, list[i+1:]) {
			continue
		}
		var next ast.Stmt
		if i+1 < len(list) {
			switch list[i+1].(type) {
			case *ast.IfStmt, *ast.SwitchStmt, *ast.ReturnStmt:
				next = list[i+1]
			}
		}
		cl.next2 = nil
		if next != nil && i+2 < len(list) {
			switch list[i+2].(type) {
			case *ast.IfStmt, *ast.SwitchStmt:
				cl.next2 = list[i+2]
			}
		}
		ss, used := cl.stmt(s, next)
		used2 := cl.used2
		cl.next2, cl.used2 = nil, false
		if ss != nil {
			out = append(out, ss...)
			if used {
				i++
				if used2 {
					i++
				}
			}
			continue
		}
		out = append(out, cl.node(s).(ast.Stmt))
	}
	return out
}

// copyProp recognises a local that merely carries another value: `x := y` /
// `var x T = y` with y a plain variable or constant, x never assigned again
// and y not assigned in the rest of x's scope. Such a local is dropped from the
// view and its uses read y. This undoes the parameter copies that helper
// expansion leaves behind (`var a0 = br; ...; src := a0`) and makes "value
// carried in a local" transparent to rules that identify objects.
func (cl *cloner) copyProp(s ast.Stmt, rest []ast.Stmt) bool {
	var ids []*ast.Ident
	var rhss []ast.Expr
	limit := 1
	switch x := s.(type) {
	case *ast.AssignStmt:
		if x.Tok == token.DEFINE && len(x.Lhs) == len(x.Rhs) {
			for i := range x.Lhs {
				id, _ := x.Lhs[i].(*ast.Ident)
				ids, rhss = append(ids, id), append(rhss, x.Rhs[i])
			}
		}
	case *ast.DeclStmt:
		if gd, ok := x.Decl.(*ast.GenDecl); ok && gd.Tok == token.VAR && len(gd.Specs) == 1 {
			if vs, ok := gd.Specs[0].(*ast.ValueSpec); ok && len(vs.Names) == 1 && len(vs.Values) == 1 {
				ids, rhss, limit = []*ast.Ident{vs.Names[0]}, []ast.Expr{vs.Values[0]}, 0
			}
		}
	}
	if len(ids) == 0 {
		return false
	}
	// every position must be a plain copy, otherwise the statement stays as it is
	type bindg struct {
		obj types.Object
		src ast.Expr
		ptr bool
	}
	var binds []bindg
	for i, id := range ids {
		if id == nil || rhss[i] == nil {
			return false
		}
		if id.Name == "_" {
			if _, isID := ast.Unparen(rhss[i]).(*ast.Ident); !isID {
				return false
			}
			continue
		}
		obj := cl.info.Defs[id]
		if obj == nil || Assignments(cl.info, cl.outer, obj) != limit {
			return false
		}
		src := ast.Unparen(rhss[i])
		if sid, ok := src.(*ast.Ident); ok {
			if tgt, has := cl.deref[cl.info.Uses[sid]]; has && len(ids) == 1 {
				return cl.pointerCopy(obj, tgt) // a copy of a pointer to a local
			}
			if rep, has := cl.subst[cl.info.Uses[sid]]; has {
				src = rep // a chain of copies
			}
		}
		// `out := &b` with out only ever dereferenced: *out is b
		if u, ok := src.(*ast.UnaryExpr); ok && u.Op == token.AND && len(ids) == 1 {
			if tid, ok := ast.Unparen(u.X).(*ast.Ident); ok {
				if _, isVar := cl.info.Uses[tid].(*types.Var); isVar {
					return cl.pointerCopy(obj, tid)
				}
			}
		}
		switch ast.Unparen(src).(type) {
		case *ast.Ident, *ast.BasicLit, *ast.SelectorExpr:
		default:
			return false // only plain names are propagated: a computed value keeps its own variable
		}
		if _, isFunc := cl.info.TypeOf(src).Underlying().(*types.Signature); isFunc {
			// a function or method value bound to a local that is only ever called (`read := r.Read;
			// read(b)`, `copyChunk := utils.Iocopy`): the calls are calls of that function. A method value
			// fixes its receiver when it is bound, so the receiver must be a variable that does not change.
			if !onlyCalled(cl.info, cl.outer, obj) {
				return false
			}
			switch x := src.(type) {
			case *ast.Ident:
				if _, isFn := cl.info.Uses[x].(*types.Func); !isFn {
					return false
				}
			case *ast.SelectorExpr:
				if !cl.simple(src) {
					sl := cl.info.Selections[x]
					rid, isID := ast.Unparen(x.X).(*ast.Ident)
					if sl == nil || sl.Kind() != types.MethodVal || !isID {
						return false
					}
					rv, isVar := cl.info.Uses[rid].(*types.Var)
					if !isVar || rv.IsField() {
						return false
					}
					for _, r := range rest {
						if Assignments(cl.info, r, rv) > 0 {
							return false
						}
					}
				} else if _, isFn := cl.info.Uses[x.Sel].(*types.Func); !isFn {
					return false
				}
			default:
				return false
			}
			binds = append(binds, bindg{obj: obj, src: src})
			continue
		}
		if !cl.simple(src) {
			return false
		}
		if sid, ok := src.(*ast.Ident); ok {
			if v, isVar := cl.info.Uses[sid].(*types.Var); isVar {
				for _, r := range rest {
					if Assignments(cl.info, r, v) > 0 {
						return false // the source changes while the copy is alive
					}
				}
			}
		}
		binds = append(binds, bindg{obj: obj, src: src})
	}
	for _, b := range binds {
		cl.subst[b.obj] = b.src
	}
	return true
}

// pointerCopy registers obj as a pointer to the variable tgt when every use of
// obj is a dereference, so that `*obj` can be read as tgt.
func (cl *cloner) pointerCopy(obj types.Object, tgt ast.Expr) bool {
	onlyDeref := true
	core.InspectAll(cl.outer, func(m ast.Node) bool {
		if id, ok := m.(*ast.Ident); ok && cl.info.Uses[id] == obj {
			path := core.PathTo(cl.outer, id)
			if k := len(path); k < 2 {
				onlyDeref = false
			} else if sel, isSel := path[k-2].(*ast.SelectorExpr); isSel && sel.X == ast.Expr(id) {
				// p.f / p.M(): Go dereferences the pointer itself, so it reads the same on the variable
			} else if st, isStar := path[k-2].(*ast.StarExpr); !isStar || st.X != ast.Expr(id) {
				// a further plain copy `p := obj` is fine, it is resolved in turn
				as, isAs := path[k-2].(*ast.AssignStmt)
				vs, isVs := path[k-2].(*ast.ValueSpec)
				if !(isAs && as.Tok == token.DEFINE && len(as.Rhs) == 1 && as.Rhs[0] == ast.Expr(id)) && !(isVs && len(vs.Values) == 1 && vs.Values[0] == ast.Expr(id)) {
					onlyDeref = false
				}
			}
		}
		return true
	})
	if !onlyDeref {
		return false
	}
	if cl.deref == nil {
		cl.deref = map[types.Object]ast.Expr{}
	}
	cl.deref[obj] = tgt
	return true
}

// stmt handles the statements that get special treatment; nil means "copy as is".
// usedNext reports that the following if statement was consumed as well.
func (cl *cloner) stmt(s ast.Stmt, next ast.Stmt) (out []ast.Stmt, usedNext bool) {
	switch x := s.(type) {
	case *ast.ReturnStmt:
		var tail *ast.CallExpr
		var th *core.Fn
		if len(x.Results) == 1 {
			if call, ok := ast.Unparen(x.Results[0]).(*ast.CallExpr); ok {
				tail, th = call, cl.inlinable(call)
			}
		}
		if cl.ret != nil && cl.inLit == 0 && !cl.ret.tail {
			// a return of the helper being inlined
			if th != nil && cl.ret.lhs != nil {
				// `return h2()` inside the helper: h2's returns feed the same targets
				fw := *cl.ret
				outerEnd := cl.ret.end
				ss := cl.inline(tail, th, &fw, nil)
				return append(ss, &ast.BranchStmt{TokPos: x.Pos(), Tok: token.GOTO, Label: ast.NewIdent(outerEnd)}), false
			}
			return cl.rewriteReturn(x), false
		}
		if th != nil {
			return cl.inline(tail, th, &retPolicy{tail: true}, nil), false
		}
	case *ast.LabeledStmt:
		if inner, used := cl.stmt(x.Stmt, next); inner != nil {
			if len(inner) == 0 {
				inner = []ast.Stmt{&ast.EmptyStmt{Semicolon: x.Stmt.Pos(), Implicit: true}}
			}
			lab := &ast.LabeledStmt{Label: ast.NewIdent(x.Label.Name), Colon: x.Colon, Stmt: inner[0]}
			return append([]ast.Stmt{lab}, inner[1:]...), used
		}
	case *ast.ExprStmt:
		if call, ok := ast.Unparen(x.X).(*ast.CallExpr); ok {
			if h := cl.inlinable(call); h != nil {
				return cl.inline(call, h, &retPolicy{}, nil), false
			}
		}
	case *ast.AssignStmt:
		if cl.dropClosureDef(x) {
			return []ast.Stmt{}, false
		}
		// `_ = v` only silences the compiler
		blank := x.Tok == token.ASSIGN && len(x.Lhs) == len(x.Rhs)
		for i := range x.Lhs {
			id, isID := x.Lhs[i].(*ast.Ident)
			_, rhsID := ast.Unparen(x.Rhs[min(i, len(x.Rhs)-1)]).(*ast.Ident)
			blank = blank && isID && id.Name == "_" && rhsID
		}
		if blank {
			return []ast.Stmt{}, false
		}
		if call, h := cl.callAssign(x); h != nil {
			return cl.inlineAssign(x, call, h, next)
		}
	case *ast.SwitchStmt:
		// `switch h(args) { case k: }`: the tag is computed first, then tested
		if call, ok := ast.Unparen(x.Tag).(*ast.CallExpr); ok && x.Init == nil {
			if h := cl.inlinable(call); h != nil {
				if t := cl.info.TypeOf(call); t != nil {
					if _, isTuple := t.(*types.Tuple); !isTuple {
						v := types.NewVar(call.Pos(), cl.pkg, "_tag", t)
						def := &ast.Ident{NamePos: call.Pos(), Name: "_tag"}
						use := &ast.Ident{NamePos: call.Pos(), Name: "_tag"}
						cl.info.Defs[def], cl.info.Uses[use] = v, v
						cl.info.Types[use] = types.TypeAndValue{Type: t}
						as := &ast.AssignStmt{Lhs: []ast.Expr{def}, TokPos: call.Pos(), Tok: token.DEFINE, Rhs: []ast.Expr{call}}
						sw := *x
						sw.Tag = use
						ss, used := cl.inlineAssign(as, call, h, &sw)
						if !used {
							ss = append(ss, cl.node(&sw).(ast.Stmt))
						}
						return []ast.Stmt{&ast.BlockStmt{Lbrace: x.Pos(), List: ss, Rbrace: x.End()}}, false
					}
				}
			}
		}
	case *ast.ForStmt:
		// `for !attempt() {..}` with attempt a helper or a known closure: the call is made a statement of its own
		// at the head of the body (`for { ok := attempt(); if ok { break }; .. }`), where it can be expanded
		if x.Init == nil && x.Post == nil && x.Cond != nil && cl.inLit == 0 {
			cond, neg := ast.Unparen(x.Cond), false
			if u, isNot := cond.(*ast.UnaryExpr); isNot && u.Op == token.NOT {
				cond, neg = ast.Unparen(u.X), true
			}
			if call, isCall := cond.(*ast.CallExpr); isCall && cl.inlinable(call) != nil {
				if t := cl.info.TypeOf(call); t != nil && types.Identical(t.Underlying(), types.Typ[types.Bool]) {
					v := types.NewVar(call.Pos(), cl.pkg, "_cond", t)
					def := &ast.Ident{NamePos: call.Pos(), Name: "_cond"}
					use := &ast.Ident{NamePos: call.Pos(), Name: "_cond"}
					cl.info.Defs[def], cl.info.Uses[use] = v, v
					cl.info.Types[use] = types.TypeAndValue{Type: t}
					as := &ast.AssignStmt{Lhs: []ast.Expr{def}, TokPos: call.Pos(), Tok: token.DEFINE, Rhs: []ast.Expr{call}}
					var test ast.Expr = use
					if !neg {
						test = &ast.UnaryExpr{OpPos: call.Pos(), Op: token.NOT, X: use}
						cl.info.Types[test] = types.TypeAndValue{Type: t}
					}
					leave := &ast.IfStmt{If: call.Pos(), Cond: test, Body: &ast.BlockStmt{Lbrace: call.Pos(), List: []ast.Stmt{&ast.BranchStmt{TokPos: call.Pos(), Tok: token.BREAK}}, Rbrace: call.End()}}
					loop := &ast.ForStmt{For: x.For, Body: &ast.BlockStmt{Lbrace: x.Body.Lbrace, List: append([]ast.Stmt{as, leave}, x.Body.List...), Rbrace: x.Body.Rbrace}}
					return []ast.Stmt{cl.node(loop).(ast.Stmt)}, false
				}
			}
		}
	case *ast.IfStmt:
		if ss := cl.tableSwitch(x); ss != nil {
			return ss, false
		}
		if as, ok := x.Init.(*ast.AssignStmt); ok {
			if call, h := cl.callAssign(as); h != nil {
				bare := *x
				bare.Init = nil
				ss, used := cl.inlineAssign(as, call, h, &bare)
				if !used {
					ss = append(ss, cl.node(&bare).(ast.Stmt))
				}
				return []ast.Stmt{&ast.BlockStmt{Lbrace: x.Pos(), List: ss, Rbrace: x.End()}}, false
			}
		}
	}
	return nil, false
}

// tableSwitch rewrites a lookup in a constant table of closures
//
//	if h, ok := table[key]; ok { ..h().. } else { E }
//
// (table a local bound once to a map literal with constant keys and function
// literals as values, never written; h only called) into the switch it stands
// for: `switch key { case k1: ..lit1().. ; case k2: ..lit2().. ; default: E }`,
// with the calls of h expanded like any closure call.
func (cl *cloner) tableSwitch(x *ast.IfStmt) []ast.Stmt {
	as, ok := x.Init.(*ast.AssignStmt)
	if !ok || as.Tok != token.DEFINE || len(as.Lhs) != 2 || len(as.Rhs) != 1 || cl.inLit > 0 {
		return nil
	}
	ix, ok := ast.Unparen(as.Rhs[0]).(*ast.IndexExpr)
	if !ok {
		return nil
	}
	hid, _ := as.Lhs[0].(*ast.Ident)
	okid, _ := as.Lhs[1].(*ast.Ident)
	cid, _ := ast.Unparen(x.Cond).(*ast.Ident)
	if hid == nil || okid == nil || cid == nil || cl.info.Uses[cid] == nil || cl.info.Uses[cid] != cl.info.Defs[okid] {
		return nil
	}
	hobj, okobj := cl.info.Defs[hid], cl.info.Defs[okid]
	tid, isID := ast.Unparen(ix.X).(*ast.Ident)
	if !isID || hobj == nil {
		return nil
	}
	tv, isVar := cl.info.Uses[tid].(*types.Var)
	if !isVar || tv.IsField() || Assignments(cl.info, cl.root, tv) != 1 {
		return nil
	}
	lit, isLit := ast.Unparen(ValueOf(cl.info, cl.root, tid)).(*ast.CompositeLit)
	if !isLit {
		return nil
	}
	if _, isMap := cl.info.TypeOf(lit).Underlying().(*types.Map); !isMap {
		return nil
	}
	// the table is only ever indexed for reading
	bad := false
	core.InspectAll(cl.root, func(n ast.Node) bool {
		switch m := n.(type) {
		case *ast.AssignStmt:
			for _, l := range m.Lhs {
				if lx, ok := ast.Unparen(l).(*ast.IndexExpr); ok && IsObj(cl.info, tv)(lx.X) {
					bad = true
				}
			}
		case *ast.CallExpr:
			for _, a := range m.Args {
				if IsObj(cl.info, tv)(a) {
					bad = true
				}
			}
		case *ast.UnaryExpr:
			if m.Op == token.AND && IsObj(cl.info, tv)(m.X) {
				bad = true
			}
		case *ast.RangeStmt:
			if IsObj(cl.info, tv)(m.X) {
				bad = true
			}
		}
		return !bad
	})
	if bad {
		return nil
	}
	var keys []ast.Expr
	var vals []*ast.FuncLit
	for _, el := range lit.Elts {
		kv, keyed := el.(*ast.KeyValueExpr)
		if !keyed {
			return nil
		}
		if tvk, has := cl.info.Types[kv.Key]; !has || tvk.Value == nil {
			return nil
		}
		fl, isFn := ast.Unparen(kv.Value).(*ast.FuncLit)
		if !isFn {
			return nil
		}
		keys, vals = append(keys, kv.Key), append(vals, fl)
	}
	if len(keys) == 0 {
		return nil
	}
	// h is only called, and only in the then-branch; ok is only the condition; no labels to duplicate
	if !onlyCalled(cl.info, x.Body, hobj) {
		return nil
	}
	clean := true
	core.InspectAll(x.Body, func(n ast.Node) bool {
		switch m := n.(type) {
		case *ast.LabeledStmt:
			clean = false
		case *ast.Ident:
			if cl.info.Uses[m] == okobj {
				clean = false
			}
		}
		return clean
	})
	if x.Else != nil {
		core.InspectAll(x.Else, func(n ast.Node) bool {
			if id, ok := n.(*ast.Ident); ok && (cl.info.Uses[id] == okobj || cl.info.Uses[id] == hobj) {
				clean = false
			}
			return clean
		})
	}
	// an unlabelled break in the branch would leave the new switch instead of the loop around the if
	var breaks func(n ast.Node) bool
	breaks = func(n ast.Node) bool {
		found := false
		ast.Inspect(n, func(m ast.Node) bool {
			switch y := m.(type) {
			case *ast.ForStmt, *ast.RangeStmt, *ast.SwitchStmt, *ast.TypeSwitchStmt, *ast.SelectStmt, *ast.FuncLit:
				return m == n // a break below these belongs to them
			case *ast.BranchStmt:
				if y.Tok == token.BREAK && y.Label == nil {
					found = true
				}
			}
			return !found
		})
		return found
	}
	if breaks(x.Body) || x.Else != nil && breaks(x.Else) {
		clean = false
	}
	if !clean {
		return nil
	}
	if cl.funcs == nil {
		cl.funcs = map[types.Object]*ast.FuncLit{}
	}
	sw := &ast.SwitchStmt{Switch: x.Pos(), Tag: cl.expr(ix.Index), Body: &ast.BlockStmt{Lbrace: x.Body.Lbrace, Rbrace: x.End()}}
	prev, had := cl.funcs[hobj]
	for i, k := range keys {
		cl.funcs[hobj] = vals[i]
		sw.Body.List = append(sw.Body.List, &ast.CaseClause{Case: k.Pos(), List: []ast.Expr{cl.expr(k)}, Colon: k.End(), Body: cl.stmts(x.Body.List)})
	}
	if had {
		cl.funcs[hobj] = prev
	} else {
		delete(cl.funcs, hobj)
	}
	var rest []ast.Stmt
	switch e := x.Else.(type) {
	case *ast.BlockStmt:
		rest = cl.stmts(e.List)
	case nil:
	default:
		rest = cl.stmts([]ast.Stmt{e})
	}
	sw.Body.List = append(sw.Body.List, &ast.CaseClause{Case: x.End(), Colon: x.End(), Body: rest})
	return []ast.Stmt{sw}
}

func (cl *cloner) callAssign(as *ast.AssignStmt) (*ast.CallExpr, *core.Fn) {
	if len(as.Rhs) != 1 || as.Tok != token.DEFINE && as.Tok != token.ASSIGN {
		return nil, nil
	}
	call, ok := ast.Unparen(as.Rhs[0]).(*ast.CallExpr)
	if !ok {
		return nil, nil
	}
	for _, l := range as.Lhs {
		if _, isID := ast.Unparen(l).(*ast.Ident); !isID {
			if _, isSel := ast.Unparen(l).(*ast.SelectorExpr); !isSel {
				return nil, nil
			}
		}
	}
	return call, cl.inlinable(call)
}

// inlinable resolves the helper a call would be replaced by, or nil.
func (cl *cloner) inlinable(call *ast.CallExpr) *core.Fn {
	if h := cl.closure(call); h != nil {
		return h
	}
	f := core.CalleeFunc(cl.info, call)
	if f == nil || f.Pkg() != cl.pkg || len(cl.stack) > cl.in.MaxDepth || cl.in.Keep != nil && cl.in.Keep(f) {
		return nil
	}
	for _, s := range cl.stack {
		if s == f {
			return nil
		}
	}
	sig := f.Type().(*types.Signature)
	if sig.TypeParams() != nil || sig.RecvTypeParams() != nil || call.Ellipsis.IsValid() {
		return nil
	}
	if sig.Variadic() {
		// a variadic helper that only forwards its rest parameter (`g(x, rest...)`): the extra arguments
		// are spliced into those calls
		if len(call.Args) < sig.Params().Len()-1 {
			return nil
		}
		hh := cl.in.Prog.FnOf(f)
		if hh == nil || hh.Decl.Body == nil || !forwardsOnly(cl.info, hh.Decl, sig.Params().At(sig.Params().Len()-1)) {
			return nil
		}
	} else if len(call.Args) != sig.Params().Len() {
		return nil
	}
	if sel, ok := ast.Unparen(call.Fun).(*ast.SelectorExpr); ok && sig.Recv() != nil {
		if s, ok := cl.info.Selections[sel]; !ok || s.Kind() != types.MethodVal || len(s.Index()) != 1 {
			return nil // promoted through embedding, or a method expression
		}
	}
	h := cl.in.Prog.FnOf(f)
	if h == nil || h.Decl.Body == nil {
		return nil
	}
	bad := false
	core.Inspect(h.Decl.Body, func(m ast.Node) bool {
		switch m.(type) {
		case *ast.DeferStmt:
			bad = true
		}
		return !bad
	})
	if bad {
		return nil
	}
	return h
}

// forwardsOnly: every mention of the variadic parameter rest in decl's body is the spread last argument
// of a call (`g(a, rest...)`).
func forwardsOnly(info *types.Info, decl *ast.FuncDecl, rest *types.Var) bool {
	ok, n := true, 0
	fwd := map[*ast.Ident]bool{}
	core.InspectAll(decl.Body, func(m ast.Node) bool {
		if call, isCall := m.(*ast.CallExpr); isCall && call.Ellipsis.IsValid() && len(call.Args) > 0 {
			if id, isID := ast.Unparen(call.Args[len(call.Args)-1]).(*ast.Ident); isID && info.Uses[id] == types.Object(rest) {
				fwd[id] = true
				n++
			}
		}
		return true
	})
	core.InspectAll(decl.Body, func(m ast.Node) bool {
		if id, isID := m.(*ast.Ident); isID && info.Uses[id] == types.Object(rest) && !fwd[id] {
			ok = false
		}
		return ok
	})
	return ok && n > 0
}

// onlyCalled: every mention of obj below root is the callee of a call.
func onlyCalled(info *types.Info, root ast.Node, obj types.Object) bool {
	ok, calls := true, 0
	callee := map[*ast.Ident]bool{}
	core.InspectAll(root, func(m ast.Node) bool {
		if call, isCall := m.(*ast.CallExpr); isCall {
			if id, isID := ast.Unparen(call.Fun).(*ast.Ident); isID && info.Uses[id] == obj {
				callee[id] = true
				calls++
			}
		}
		if id, isID := m.(*ast.Ident); isID && info.Uses[id] == obj && !callee[id] {
			ok = false
		}
		return true
	})
	return ok && calls > 0
}

// macro: a call, in an expression position, of a same-package helper whose
// body is a single `return <expression>` (a predicate such as
// `func endsWithCRLF(b []byte, n int) bool { return n >= 0 && b[n] == '\r' }`,
// an accessor such as `func (s *copier) copied() int64 { return s.n.Get() }`)
// with plain arguments reads as that expression over the arguments: it is
// evaluated once, where the call was, and plain arguments have no effects
// whose order or number could change.
func (cl *cloner) macro(call *ast.CallExpr) ast.Expr {
	if cl.in == nil || cl.in.Prog == nil || cl.pkg == nil {
		return nil
	}
	if _, isID := ast.Unparen(call.Fun).(*ast.Ident); !isID {
		if _, isSel := ast.Unparen(call.Fun).(*ast.SelectorExpr); !isSel {
			return nil
		}
	}
	f := core.CalleeFunc(cl.info, call)
	if f == nil || f.Pkg() != cl.pkg {
		return nil
	}
	h := cl.inlinable(call)
	if h == nil || h.Obj == nil || len(h.Decl.Body.List) != 1 {
		return nil
	}
	ret, ok := h.Decl.Body.List[0].(*ast.ReturnStmt)
	if !ok || len(ret.Results) != 1 {
		return nil
	}
	pureExpr := true
	core.InspectAll(ret.Results[0], func(m ast.Node) bool {
		switch x := m.(type) {
		case *ast.FuncLit, *ast.CompositeLit:
			pureExpr = false
		case *ast.UnaryExpr:
			if x.Op == token.AND || x.Op == token.ARROW {
				pureExpr = false
			}
		}
		return pureExpr
	})
	if !pureExpr {
		return nil
	}
	child := &cloner{in: cl.in, info: cl.info, pkg: cl.pkg, subst: map[types.Object]ast.Expr{}, stack: append(append([]*types.Func{}, cl.stack...), h.Obj), outer: h.Decl.Body, root: h.Decl.Body, lits: cl.lits}
	bind := func(name *ast.Ident, arg ast.Expr) bool {
		a := cl.expr(arg)
		if name == nil || name.Name == "_" {
			return cl.simple(a)
		}
		obj := cl.info.Defs[name]
		if obj == nil || !cl.simple(a) {
			return false
		}
		child.subst[obj] = ast.Unparen(a)
		return true
	}
	if h.Decl.Recv != nil && len(h.Decl.Recv.List) == 1 {
		sel, ok := ast.Unparen(call.Fun).(*ast.SelectorExpr)
		if !ok {
			return nil
		}
		var name *ast.Ident
		if len(h.Decl.Recv.List[0].Names) == 1 {
			name = h.Decl.Recv.List[0].Names[0]
		}
		if !bind(name, sel.X) {
			return nil
		}
	}
	child.spread = map[types.Object][]ast.Expr{}
	for o, e := range cl.spread {
		child.spread[o] = e
	}
	k := 0
	for _, fl := range h.Decl.Type.Params.List {
		if _, variadic := fl.Type.(*ast.Ellipsis); variadic {
			if len(fl.Names) != 1 {
				return nil
			}
			var extra []ast.Expr
			for _, a := range call.Args[k:] {
				ca := cl.expr(a)
				if !cl.simple(ca) {
					return nil
				}
				extra = append(extra, ca)
			}
			if obj := cl.info.Defs[fl.Names[0]]; obj != nil {
				child.spread[obj] = extra
			}
			k = len(call.Args)
			continue
		}
		if len(fl.Names) == 0 {
			if !bind(nil, call.Args[k]) {
				return nil
			}
			k++
		}
		for _, n := range fl.Names {
			if !bind(n, call.Args[k]) {
				return nil
			}
			k++
		}
	}
	out := &ast.ParenExpr{Lparen: call.Pos(), X: child.expr(ret.Results[0]), Rparen: call.End()}
	if tv, ok := cl.info.Types[call]; ok {
		cl.info.Types[out] = tv
	}
	return out
}

// closure resolves a call of a function literal bound once to a local
// (`step := func(..) {..}; step(..)`) to a pseudo helper made of the literal.
func (cl *cloner) closure(call *ast.CallExpr) *core.Fn {
	id, ok := ast.Unparen(call.Fun).(*ast.Ident)
	if !ok || len(cl.stack)+len(cl.lits) > cl.in.MaxDepth || call.Ellipsis.IsValid() {
		return nil
	}
	v, isVar := cl.info.Uses[id].(*types.Var)
	if !isVar || v.IsField() {
		return nil
	}
	lit, isLit := ast.Unparen(ValueOf(cl.info, cl.root, id)).(*ast.FuncLit)
	if passed, has := cl.funcs[v]; has {
		lit, isLit = passed, true
	}
	if !isLit {
		return nil
	}
	for _, l := range cl.lits {
		if l == lit {
			return nil
		}
	}
	n := 0
	for _, f := range lit.Type.Params.List {
		if _, variadic := f.Type.(*ast.Ellipsis); variadic {
			return nil
		}
		n += max(len(f.Names), 1)
	}
	bad := n != len(call.Args)
	core.Inspect(lit.Body, func(m ast.Node) bool {
		if _, isDefer := m.(*ast.DeferStmt); isDefer {
			bad = true
		}
		return !bad
	})
	if bad {
		return nil
	}
	return &core.Fn{Decl: &ast.FuncDecl{Name: id, Type: lit.Type, Body: lit.Body}}
}

// dropClosureDef: `f := func(..){..}` can be omitted from the view when every use of f is a call that gets inlined.
func (cl *cloner) dropClosureDef(as *ast.AssignStmt) bool {
	if as.Tok != token.DEFINE || len(as.Lhs) != 1 || len(as.Rhs) != 1 {
		return false
	}
	id, ok := as.Lhs[0].(*ast.Ident)
	if _, isLit := ast.Unparen(as.Rhs[0]).(*ast.FuncLit); !ok || !isLit {
		return false
	}
	obj := cl.info.Defs[id]
	if obj == nil || Assignments(cl.info, cl.root, obj) != 1 {
		return false
	}
	all, uses := true, 0
	core.InspectAll(cl.root, func(m ast.Node) bool {
		use, isID := m.(*ast.Ident)
		if !isID || cl.info.Uses[use] != obj {
			return true
		}
		uses++
		path := core.PathTo(cl.root, use)
		ok := false
		if k := len(path); k >= 3 {
			if call, isCall := path[k-2].(*ast.CallExpr); isCall && ast.Unparen(call.Fun) == ast.Expr(use) && cl.closure(call) != nil {
				switch st := path[k-3].(type) {
				case *ast.ExprStmt:
					ok = true
				case *ast.AssignStmt:
					ok = len(st.Rhs) == 1 && (st.Tok == token.DEFINE || st.Tok == token.ASSIGN)
				case *ast.ReturnStmt:
					ok = len(st.Results) == 1
				}
			}
		}
		all = all && ok
		return true
	})
	return all && uses > 0
}

// inlineAssign handles `lhs := h(args)`, possibly followed by `if err != nil { A }`.
func (cl *cloner) inlineAssign(as *ast.AssignStmt, call *ast.CallExpr, h *core.Fn, next ast.Stmt) ([]ast.Stmt, bool) {
	next2 := cl.next2
	cl.next2 = nil
	pol := &retPolicy{define: as.Tok == token.DEFINE}
	for _, l := range as.Lhs {
		pol.lhs = append(pol.lhs, cl.expr(l))
	}
	// alias: x := h() where h has a single return of its own locals (or a bare return of named results):
	// x simply is that local from then on
	if pol.define {
		if rets := returnsOf(h.Decl.Body); len(rets) == 1 {
			var res []ast.Expr
			res = append(res, rets[0].Results...)
			if len(res) == 0 && h.Decl.Type.Results != nil {
				for _, f := range h.Decl.Type.Results.List {
					for _, n := range f.Names {
						res = append(res, n)
					}
				}
			}
			ok := len(res) == len(as.Lhs) && len(res) > 0
			for i := 0; ok && i < len(res); i++ {
				lid, _ := ast.Unparen(as.Lhs[i]).(*ast.Ident)
				ro := core.ObjOf(cl.info, res[i])
				if lid == nil || ro == nil {
					ok = false
					break
				}
				lo := cl.info.Defs[lid]
				isLocal := DefinedIn(cl.info, h.Decl.Body, ro) || DefinedIn(cl.info, h.Decl.Type, ro) && h.Decl.Type.Results != nil && DefinedIn(cl.info, h.Decl.Type.Results, ro)
				if lid.Name != "_" && (lo == nil || Assignments(cl.info, cl.outer, lo) != 1) || !isLocal {
					ok = false
				}
			}
			if ok {
				pol.lhs = nil
				out := cl.inline(call, h, pol, nil)
				for i, r := range res {
					if lid := ast.Unparen(as.Lhs[i]).(*ast.Ident); lid.Name != "_" {
						id := ast.Unparen(r).(*ast.Ident)
						use := &ast.Ident{NamePos: id.NamePos, Name: id.Name}
						cl.info.Uses[use] = core.ObjOf(cl.info, id)
						cl.info.Types[use] = types.TypeAndValue{Type: core.ObjOf(cl.info, id).Type()}
						cl.subst[cl.info.Defs[lid]] = use
					}
				}
				return out, false
			}
		}
	}
	// `x := h(..); return f(x)`: the caller's return is copied behind every return site of the helper, so
	// that each way the helper ends reaches a return of its own (what it yields is then read per site)
	if ret, isRet := next.(*ast.ReturnStmt); isRet && ret != nil {
		if len(returnsOf(h.Decl.Body)) < 2 || cl.inLit > 0 {
			return cl.inline(call, h, pol, nil), false
		}
		pol.after = func() []ast.Stmt {
			if ss, _ := cl.stmt(ret, nil); ss != nil {
				return ss
			}
			return []ast.Stmt{cl.node(ret).(ast.Stmt)}
		}
		return cl.inline(call, h, pol, nil), true
	}
	// jump threading into the statement that tests the results
	var nextOK bool
	switch n := next.(type) {
	case *ast.IfStmt:
		nextOK = n != nil && n.Init == nil
	case *ast.SwitchStmt:
		nextOK = n != nil && n.Init == nil
	}
	if !nextOK {
		return cl.inline(call, h, pol, nil), false
	}
	th := &threader{cl: cl, orig: next, copy: cl.node(next).(ast.Stmt), after: cl.in.label("after"), labels: map[*ast.Stmt]string{}}
	// a second test right behind the first (`if err != nil {..}; switch res.kind {..}`): a return whose
	// values decide the first test to "go on" is threaded into the second one as well
	switch n := next2.(type) {
	case *ast.IfStmt:
		if n.Init != nil {
			next2 = nil
		}
	case *ast.SwitchStmt:
		if n.Init != nil {
			next2 = nil
		}
	default:
		next2 = nil
	}
	if next2 != nil {
		th.chain = &threader{cl: cl, orig: next2, copy: cl.node(next2).(ast.Stmt), after: cl.in.label("after"), labels: map[*ast.Stmt]string{}}
	}
	pol.thread = th
	out := cl.inline(call, h, pol, nil)
	out = append(out, th.copy)
	if th.used {
		out = append(out, &ast.LabeledStmt{Label: ast.NewIdent(th.after), Colon: next.End(), Stmt: &ast.EmptyStmt{Semicolon: next.End(), Implicit: true}})
	}
	if th.chain != nil {
		out = append(out, th.chain.copy)
		if th.chain.used {
			out = append(out, &ast.LabeledStmt{Label: ast.NewIdent(th.chain.after), Colon: next2.End(), Stmt: &ast.EmptyStmt{Semicolon: next2.End(), Implicit: true}})
		}
		cl.used2 = true
	}
	return out, true
}

func returnsOf(body *ast.BlockStmt) []*ast.ReturnStmt {
	var out []*ast.ReturnStmt
	core.Inspect(body, func(m ast.Node) bool {
		if r, ok := m.(*ast.ReturnStmt); ok {
			out = append(out, r)
		}
		return true
	})
	return out
}

// inline copies the body of h with its parameters bound to the call's arguments.
func (cl *cloner) inline(call *ast.CallExpr, h *core.Fn, pol *retPolicy, afterLast func(*ast.ReturnStmt)) []ast.Stmt {
	child := &cloner{in: cl.in, info: cl.info, pkg: cl.pkg, subst: map[types.Object]ast.Expr{}, stack: append(append([]*types.Func{}, cl.stack...), h.Obj), outer: h.Decl.Body, root: h.Decl.Body, lits: cl.lits}
	if h.Obj == nil {
		// a closure shares the scope of the function it is defined in: aliases stay valid, closure
		// variables are still looked up in that function
		for o, e := range cl.subst {
			child.subst[o] = e
		}
		child.root = cl.root
		child.outer = cl.outer
		if lit, ok := ast.Unparen(ValueOf(cl.info, cl.root, h.Decl.Name)).(*ast.FuncLit); ok {
			child.lits = append(append([]*ast.FuncLit{}, cl.lits...), lit)
		}
	}
	child.funcs = map[types.Object]*ast.FuncLit{}
	for o, l := range cl.funcs {
		child.funcs[o] = l
	}
	var pre []ast.Stmt
	bind := func(name *ast.Ident, orig ast.Expr) {
		if name != nil && name.Name != "_" {
			obj := cl.info.Defs[name]
			// an argument that is itself a call of a helper (`parse(read(r))`): the inner call runs first, as
			// a statement of its own that binds the parameter, where it is expanded like any other call
			if inner, isCall := ast.Unparen(orig).(*ast.CallExpr); isCall && obj != nil && cl.inlinable(inner) != nil {
				id := &ast.Ident{NamePos: orig.Pos(), Name: name.Name}
				cl.info.Defs[id] = obj
				as := &ast.AssignStmt{Lhs: []ast.Expr{id}, TokPos: orig.Pos(), Tok: token.DEFINE, Rhs: []ast.Expr{orig}}
				if ss, _ := cl.stmt(as, nil); ss != nil {
					pre = append(pre, ss...)
					return
				}
			}
			// a closure bound once to a local of the caller and handed on by name, for a parameter that
			// the helper only ever calls
			if aid, isID := ast.Unparen(orig).(*ast.Ident); isID && obj != nil && onlyCalled(cl.info, h.Decl.Body, obj) {
				if lit, isLit := ast.Unparen(ValueOf(cl.info, cl.root, aid)).(*ast.FuncLit); isLit {
					child.funcs[obj] = lit
					return
				}
				if av, isVar := cl.info.Uses[aid].(*types.Var); isVar {
					if lit, has := cl.funcs[av]; has {
						child.funcs[obj] = lit
						return
					}
				}
			}
		}
		arg := cl.expr(orig)
		if name == nil || name.Name == "_" {
			if _, isCall := ast.Unparen(arg).(*ast.CallExpr); isCall {
				pre = append(pre, &ast.ExprStmt{X: arg})
			}
			return
		}
		obj := cl.info.Defs[name]
		// a function literal passed for a parameter that the helper only ever calls: the calls are the literal's body
		if lit, isLit := ast.Unparen(arg).(*ast.FuncLit); isLit && obj != nil && onlyCalled(cl.info, h.Decl.Body, obj) {
			child.funcs[obj] = lit
			return
		}
		if obj != nil && cl.simple(arg) && Assignments(cl.info, h.Decl.Body, obj) == 0 {
			child.subst[obj] = ast.Unparen(arg)
			return
		}
		// an out-parameter: `h(&x)` with the parameter only dereferenced in h
		if u, ok := ast.Unparen(arg).(*ast.UnaryExpr); ok && u.Op == token.AND && obj != nil && Assignments(cl.info, h.Decl.Body, obj) == 0 {
			if tid, ok := ast.Unparen(u.X).(*ast.Ident); ok {
				if _, isVar := core.ObjOf(cl.info, tid).(*types.Var); isVar && child.pointerCopy(obj, tid) {
					return
				}
			}
		}
		id := &ast.Ident{NamePos: arg.Pos(), Name: name.Name}
		cl.info.Defs[id] = obj
		pre = append(pre, &ast.AssignStmt{Lhs: []ast.Expr{id}, TokPos: arg.Pos(), Tok: token.DEFINE, Rhs: []ast.Expr{arg}})
	}
	if h.Decl.Recv != nil && len(h.Decl.Recv.List) == 1 {
		if sel, ok := ast.Unparen(call.Fun).(*ast.SelectorExpr); ok {
			var name *ast.Ident
			if len(h.Decl.Recv.List[0].Names) == 1 {
				name = h.Decl.Recv.List[0].Names[0]
			}
			bind(name, sel.X)
		}
	}
	child.spread = map[types.Object][]ast.Expr{}
	for o, e := range cl.spread {
		child.spread[o] = e
	}
	k := 0
	for _, f := range h.Decl.Type.Params.List {
		if _, variadic := f.Type.(*ast.Ellipsis); variadic && len(f.Names) == 1 {
			// the rest parameter of a forwarding helper: its arguments travel on to the calls it spreads into
			var extra []ast.Expr
			for _, a := range call.Args[k:] {
				ca := cl.expr(a)
				if !cl.simple(ca) {
					// keep the evaluation where it was: bind to a local first
					nm := fmt.Sprintf("%s_%d", f.Names[0].Name, len(extra))
					t := cl.info.TypeOf(a)
					if t == nil {
						extra = append(extra, ca)
						continue
					}
					v := types.NewVar(a.Pos(), cl.pkg, nm, t)
					def := &ast.Ident{NamePos: a.Pos(), Name: nm}
					use := &ast.Ident{NamePos: a.Pos(), Name: nm}
					cl.info.Defs[def], cl.info.Uses[use] = v, v
					cl.info.Types[use] = types.TypeAndValue{Type: t}
					pre = append(pre, &ast.AssignStmt{Lhs: []ast.Expr{def}, TokPos: a.Pos(), Tok: token.DEFINE, Rhs: []ast.Expr{ca}})
					ca = use
				}
				extra = append(extra, ca)
			}
			if obj := cl.info.Defs[f.Names[0]]; obj != nil {
				child.spread[obj] = extra
			}
			k = len(call.Args)
			continue
		}
		if len(f.Names) == 0 {
			bind(nil, call.Args[k])
			k++
		}
		for _, n := range f.Names {
			bind(n, call.Args[k])
			k++
		}
	}
	if !pol.tail {
		pol.end = cl.in.label("end")
		pol.orig = h
		if h.Decl.Type.Results != nil {
			for _, f := range h.Decl.Type.Results.List {
				for _, n := range f.Names {
					pol.named = append(pol.named, cl.info.Defs[n])
				}
			}
		}
		child.ret = pol
	} else {
		child.ret = &retPolicy{tail: true}
	}
	body := child.stmts(h.Decl.Body.List)
	if afterLast != nil {
		// the trailing `return locals` was dropped by rewriteReturn (lhs == nil); alias instead
		afterLast(h.Decl.Body.List[len(h.Decl.Body.List)-1].(*ast.ReturnStmt))
	}
	out := append(pre, body...)
	if !pol.tail {
		out = append(out, &ast.LabeledStmt{Label: ast.NewIdent(pol.end), Colon: call.End(), Stmt: &ast.EmptyStmt{Semicolon: call.End(), Implicit: true}})
	}
	return []ast.Stmt{&ast.BlockStmt{Lbrace: call.Pos(), List: out, Rbrace: call.End()}}
}

// rewriteReturn turns a return of the helper into assignments to the caller's targets and a jump.
func (cl *cloner) rewriteReturn(ret *ast.ReturnStmt) []ast.Stmt {
	p := cl.ret
	var results []ast.Expr
	for _, r := range ret.Results {
		results = append(results, cl.expr(r))
	}
	if len(ret.Results) == 0 {
		for _, o := range p.named {
			id := &ast.Ident{NamePos: ret.Pos(), Name: o.Name()}
			cl.info.Uses[id] = o
			cl.info.Types[id] = types.TypeAndValue{Type: o.Type()}
			results = append(results, id)
		}
	}
	jump := func(label string) ast.Stmt {
		return &ast.BranchStmt{TokPos: ret.Pos(), Tok: token.GOTO, Label: ast.NewIdent(label)}
	}
	var out []ast.Stmt
	target := p.end
	if p.lhs == nil {
		// call statement (results dropped, calls among them still happen) or aliased trailing return
		for _, r := range results {
			if _, isCall := ast.Unparen(r).(*ast.CallExpr); isCall {
				out = append(out, &ast.ExprStmt{X: r})
			}
		}
		return append(out, jump(target))
	}
	lhs := make([]ast.Expr, len(p.lhs))
	for i, l := range p.lhs {
		lhs[i] = cl.fresh(l, ret.Pos(), p.define)
	}
	tok := token.ASSIGN
	if p.define {
		tok = token.DEFINE
	}
	if len(results) == len(lhs) || len(results) == 1 {
		out = append(out, &ast.AssignStmt{Lhs: lhs, TokPos: ret.Pos(), Tok: tok, Rhs: results})
	}
	if p.thread != nil && len(ret.Results) == len(p.lhs) && len(ret.Results) > 0 {
		env := kenv{}
		for i, l := range p.lhs {
			o := Obj(cl.info, l)
			if o == nil {
				continue
			}
			r := ret.Results[i]
			resultKnowledge(cl.info, p.orig.Decl.Body, ret, o, r, env)
			if cl.boundNonNil(r) {
				env[o] = known{kind: 2}
			}
		}
		if l := p.thread.target(env); l != "" {
			target = l
		}
	}
	if p.after != nil {
		return append(out, p.after()...)
	}
	return append(out, jump(target))
}

// fresh copies an assignment target (identifier or selector) at position pos.
func (cl *cloner) fresh(l ast.Expr, pos token.Pos, define bool) ast.Expr {
	id, ok := ast.Unparen(l).(*ast.Ident)
	if !ok {
		return l
	}
	c := &ast.Ident{NamePos: pos, Name: id.Name}
	obj := core.ObjOf(cl.info, id)
	if obj != nil {
		if define {
			cl.info.Defs[c] = obj
		} else {
			cl.info.Uses[c] = obj
		}
		cl.info.Types[c] = types.TypeAndValue{Type: obj.Type()}
	}
	return c
}

// DefinedIn reports whether obj is declared by an identifier below root
// (`:=`, var, range, or a parameter binding introduced by the inliner).
func DefinedIn(info *types.Info, root ast.Node, obj types.Object) bool {
	found := false
	core.InspectAll(root, func(m ast.Node) bool {
		if id, ok := m.(*ast.Ident); ok && info.Defs[id] == obj {
			found = true
		}
		return !found
	})
	return found
}

// PointOf locates the cfg node that contains n by tree identity (positions
// are meaningless once helper bodies have been copied into a function).
func PointOf(g *cfgq.Graph, n ast.Node) (cfgq.Point, bool) {
	for _, b := range g.CFG.Blocks {
		for i, m := range b.Nodes {
			hit := false
			core.Inspect(m, func(x ast.Node) bool {
				if x == n {
					hit = true
				}
				return !hit
			})
			if hit {
				return cfgq.Point{B: b, I: i}, true
			}
		}
	}
	return cfgq.Point{}, false
}

// Contains reports whether n lies below root (nested literals included).
func Contains(root, n ast.Node) bool {
	hit := false
	core.InspectAll(root, func(x ast.Node) bool {
		if x == n {
			hit = true
		}
		return !hit
	})
	return hit
}

// ReachingDef returns the expression assigned to obj by the only assignment
// whose value can reach `at` (nil when several, or a non 1:1 one, can).
func ReachingDef(g *cfgq.Graph, obj types.Object, at cfgq.Point) ast.Expr {
	e, _ := ReachingDefAt(g, obj, at)
	return e
}

// ChaseDef follows a local through its unique reaching definitions (copies of
// copies) as far as they are unique, and returns the expression finally assigned.
func ChaseDef(g *cfgq.Graph, e ast.Expr, at cfgq.Point) ast.Expr {
	for i := 0; i < 5; i++ {
		// a field of a struct local built by a composite literal
		if sel, ok := ast.Unparen(e).(*ast.SelectorExpr); ok {
			if so := Obj(g.Info, sel.X); so != nil {
				if d, p := ReachingDefAt(g, so, at); d != nil {
					lit := ast.Unparen(d)
					if u, isAddr := lit.(*ast.UnaryExpr); isAddr && u.Op == token.AND {
						lit = ast.Unparen(u.X)
					}
					if cl, isLit := lit.(*ast.CompositeLit); isLit {
						found := false
						stt, _ := g.Info.TypeOf(cl).Underlying().(*types.Struct)
						for i, el := range cl.Elts {
							if kv, keyed := el.(*ast.KeyValueExpr); keyed {
								if id, ok := kv.Key.(*ast.Ident); ok && id.Name == sel.Sel.Name {
									e, at, found = ast.Unparen(kv.Value), p, true
								}
							} else if stt != nil && i < stt.NumFields() && stt.Field(i).Name() == sel.Sel.Name {
								e, at, found = ast.Unparen(el), p, true
							}
						}
						if found {
							continue
						}
					} else if _, isID := lit.(*ast.Ident); isID {
						e, at = &ast.SelectorExpr{X: lit, Sel: sel.Sel}, p
						continue
					}
				}
			}
			return e
		}
		o := Obj(g.Info, e)
		if o == nil {
			return e
		}
		d, p := ReachingDefAt(g, o, at)
		if d == nil {
			return e
		}
		e, at = ast.Unparen(d), p
	}
	return e
}

// ReachingDefAt is ReachingDef that also returns where the definition is.
func ReachingDefAt(g *cfgq.Graph, obj types.Object, at cfgq.Point) (ast.Expr, cfgq.Point) {
	info := g.Info
	isDef := func(n ast.Node) bool {
		switch s := n.(type) {
		case *ast.AssignStmt:
			for _, l := range s.Lhs {
				if IsObj(info, obj)(l) {
					return true
				}
			}
		case *ast.IncDecStmt:
			return IsObj(info, obj)(s.X)
		case *ast.RangeStmt:
			return s.Key != nil && IsObj(info, obj)(s.Key) || s.Value != nil && IsObj(info, obj)(s.Value)
		}
		return false
	}
	target := at.Node()
	var rhs ast.Expr
	var where cfgq.Point
	n := 0
	for _, p := range g.Points(isDef) {
		if g.Path(cfgq.Query{From: p, After: true, Avoid: isDef, Target: func(m ast.Node) bool { return m == target }}) == nil {
			continue
		}
		n++
		as, ok := p.Node().(*ast.AssignStmt)
		if !ok || len(as.Lhs) != len(as.Rhs) || as.Tok != token.DEFINE && as.Tok != token.ASSIGN {
			return nil, cfgq.Point{}
		}
		for i, l := range as.Lhs {
			if IsObj(info, obj)(l) {
				rhs, where = as.Rhs[i], p
			}
		}
	}
	// a path from the entry that meets no assignment leaves the initial value
	if n != 1 || g.Path(cfgq.Query{From: g.Entry(), Avoid: isDef, Target: func(m ast.Node) bool { return m == target }}) != nil && !isDef(g.Entry().Node()) {
		return nil, cfgq.Point{}
	}
	return rhs, where
}

// boundNonNil: r (a result expression of the helper being inlined) is an error
// constructor applied to a parameter that this call binds to a package-level
// sentinel error, e.g. errors.Trace(errBadLen) with errBadLen := ErrBadRespBytesLen.
func (cl *cloner) boundNonNil(r ast.Expr) bool {
	sentinel := func(e ast.Expr) bool {
		rep, ok := cl.subst[Obj(cl.info, e)]
		if !ok {
			return false
		}
		v, isVar := core.ObjOf(cl.info, rep).(*types.Var)
		return isVar && v.Pkg() != nil && v.Parent() == v.Pkg().Scope() && cfgIsError(v.Type())
	}
	r = ast.Unparen(r)
	if sentinel(r) {
		return true
	}
	if call, ok := r.(*ast.CallExpr); ok && len(call.Args) >= 1 {
		if f := core.CalleeFunc(cl.info, call); f != nil {
			switch f.Name() {
			case "Trace", "WithStack", "Wrap", "Wrapf":
				return cl.boundNonNil(call.Args[0])
			}
		}
	}
	return false
}

func cfgIsError(t types.Type) bool {
	return types.Identical(t, types.Universe.Lookup("error").Type())
}
