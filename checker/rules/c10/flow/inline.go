package flow

// Helper inlining: a rule that anchors a mechanism in function F must give the
// same verdict when part of F's body is moved into a small same-package
// helper. Inliner.Fn returns a view of F whose body is a deep copy in which
// calls of non-anchor helpers are replaced by the helper's statements:
//
//   - parameters (and the receiver) are substituted by the argument when the
//     argument is a plain variable/constant and the helper never assigns the
//     parameter, otherwise bound by `p := arg`;
//   - `x := h()` with a helper that ends in its only `return local` aliases x
//     to that local; otherwise every `return e` becomes `x = e; goto end`;
//   - `v, err := h(); if err != nil { A }`: a helper return whose error is
//     provably non-nil jumps straight into A, one whose error is the literal
//     nil jumps behind the test (the correlation between the two results that
//     a path-insensitive CFG would otherwise lose);
//   - `return h()` keeps the helper's returns; a call statement drops them.
//
// Every copied node gets the type information of its original (types.Info is
// extended, never changed), so the typed matchers work on the copy unchanged.

import (
	"fmt"
	"go/ast"
	"go/token"
	"go/types"
	"reflect"

	"rscheck/cfgq"
	"rscheck/core"
)

// Inliner produces inlined views of functions.
type Inliner struct {
	Prog     *core.Program
	Keep     func(*types.Func) bool // functions that are never inlined (the anchors of the rule set)
	MaxDepth int
	memo     map[*ast.FuncDecl]*core.Fn
	nlabel   int
}

// NewInliner creates an inliner; keep names the functions that stay calls.
func NewInliner(p *core.Program, keep func(*types.Func) bool) *Inliner {
	return &Inliner{Prog: p, Keep: keep, MaxDepth: 2, memo: map[*ast.FuncDecl]*core.Fn{}}
}

// Fn returns fn with an inlined copy of its body (memoised; nil stays nil).
func (in *Inliner) Fn(fn *core.Fn) *core.Fn {
	if fn == nil || fn.Decl == nil || fn.Decl.Body == nil {
		return fn
	}
	if v, ok := in.memo[fn.Decl]; ok {
		return v
	}
	cl := &cloner{in: in, info: fn.Pkg.TypesInfo, pkg: fn.Pkg.Types, subst: map[types.Object]ast.Expr{}, stack: []*types.Func{fn.Obj}, outer: fn.Decl.Body, root: fn.Decl.Body}
	body := cl.node(fn.Decl.Body).(*ast.BlockStmt)
	decl := *fn.Decl
	decl.Body = body
	out := &core.Fn{Obj: fn.Obj, Decl: &decl, Pkg: fn.Pkg}
	in.memo[fn.Decl] = out
	return out
}

func (in *Inliner) label(prefix string) string {
	in.nlabel++
	return fmt.Sprintf("_inl_%s%d", prefix, in.nlabel)
}

// retPolicy says what a return statement of the helper being copied becomes.
type retPolicy struct {
	tail    bool       // `return h()`: keep returns
	lhs     []ast.Expr // targets (already copied); nil for a call statement
	define  bool
	end     string         // label behind the inlined statements
	lErr    string         // label inside the caller's `if err != nil` body ("" = none)
	lOk     string         // label behind the caller's test
	named   []types.Object // named results of the helper
	orig    *core.Fn       // the helper (for error classification on original nodes)
	origRet map[*ast.ReturnStmt]*ast.ReturnStmt
}

type cloner struct {
	in    *Inliner
	info  *types.Info
	pkg   *types.Package
	subst map[types.Object]ast.Expr
	stack []*types.Func
	ret   *retPolicy // nil: returns are copied unchanged
	inLit int
	outer ast.Node       // body of the function (or helper) being copied (for single-assignment tests)
	root  ast.Node       // body of the function in which closure variables are looked up
	lits  []*ast.FuncLit // closures being inlined (recursion guard)
}

var (
	objectPtr = reflect.TypeOf((*ast.Object)(nil))
	scopePtr  = reflect.TypeOf((*ast.Scope)(nil))
	stmtSlice = reflect.TypeOf([]ast.Stmt(nil))
)

func (cl *cloner) node(n ast.Node) ast.Node {
	if n == nil || reflect.ValueOf(n).IsNil() {
		return n
	}
	return cl.val(reflect.ValueOf(n)).Interface().(ast.Node)
}

func (cl *cloner) expr(e ast.Expr) ast.Expr {
	if e == nil {
		return nil
	}
	return cl.node(e).(ast.Expr)
}

func (cl *cloner) val(v reflect.Value) reflect.Value {
	switch v.Kind() {
	case reflect.Interface:
		if v.IsNil() {
			return v
		}
		out := reflect.New(v.Type()).Elem()
		if id, ok := v.Interface().(*ast.Ident); ok && id != nil {
			out.Set(reflect.ValueOf(cl.ident(id))) // an expression position: may be substituted by any simple expression
			return out
		}
		out.Set(cl.val(v.Elem()))
		return out
	case reflect.Ptr:
		if v.IsNil() {
			return v
		}
		if v.Type() == objectPtr || v.Type() == scopePtr {
			return reflect.Zero(v.Type())
		}
		if id, ok := v.Interface().(*ast.Ident); ok {
			if c, isID := cl.ident(id).(*ast.Ident); isID {
				return reflect.ValueOf(c)
			}
			c := &ast.Ident{NamePos: id.NamePos, Name: id.Name} // a name position: never substituted
			cl.register(id, c)
			return reflect.ValueOf(c)
		}
		if _, ok := v.Interface().(*ast.FuncLit); ok {
			cl.inLit++
			defer func() { cl.inLit-- }()
		}
		nw := reflect.New(v.Type().Elem())
		for i := 0; i < v.Elem().NumField(); i++ {
			f := v.Elem().Field(i)
			if f.Type() == stmtSlice {
				nw.Elem().Field(i).Set(reflect.ValueOf(cl.stmts(f.Interface().([]ast.Stmt))))
				continue
			}
			nw.Elem().Field(i).Set(cl.val(f))
		}
		cl.register(v.Interface(), nw.Interface())
		return nw
	case reflect.Slice:
		if v.IsNil() {
			return v
		}
		out := reflect.MakeSlice(v.Type(), v.Len(), v.Len())
		for i := 0; i < v.Len(); i++ {
			out.Index(i).Set(cl.val(v.Index(i)))
		}
		return out
	}
	return v
}

// register copies the type information of orig to its copy.
func (cl *cloner) register(orig, cp interface{}) {
	if oe, ok := orig.(ast.Expr); ok {
		if tv, ok := cl.info.Types[oe]; ok {
			cl.info.Types[cp.(ast.Expr)] = tv
		}
	}
	switch o := orig.(type) {
	case *ast.Ident:
		c := cp.(*ast.Ident)
		if u, ok := cl.info.Uses[o]; ok {
			cl.info.Uses[c] = u
		}
		if d, ok := cl.info.Defs[o]; ok {
			cl.info.Defs[c] = d
		}
	case *ast.SelectorExpr:
		if s, ok := cl.info.Selections[o]; ok {
			cl.info.Selections[cp.(*ast.SelectorExpr)] = s
		}
	}
}

// ident copies an identifier, or the expression substituted for the variable it uses.
func (cl *cloner) ident(id *ast.Ident) ast.Expr {
	if obj := cl.info.Uses[id]; obj != nil {
		if rep, ok := cl.subst[obj]; ok {
			return cl.retarget(rep, id.Pos())
		}
	}
	c := &ast.Ident{NamePos: id.NamePos, Name: id.Name}
	cl.register(id, c)
	return c
}

// retarget copies a simple expression (identifier, package-qualified name,
// literal) giving it the position of the use it replaces.
func (cl *cloner) retarget(e ast.Expr, pos token.Pos) ast.Expr {
	switch x := e.(type) {
	case *ast.Ident:
		c := &ast.Ident{NamePos: pos, Name: x.Name}
		cl.register(x, c)
		return c
	case *ast.BasicLit:
		c := &ast.BasicLit{ValuePos: pos, Kind: x.Kind, Value: x.Value}
		cl.register(x, c)
		return c
	case *ast.SelectorExpr:
		c := &ast.SelectorExpr{X: cl.retarget(x.X, pos), Sel: cl.retarget(x.Sel, pos).(*ast.Ident)}
		cl.register(x, c)
		return c
	case *ast.UnaryExpr:
		c := &ast.UnaryExpr{OpPos: pos, Op: x.Op, X: cl.retarget(x.X, pos)}
		cl.register(x, c)
		return c
	case *ast.ParenExpr:
		return cl.retarget(x.X, pos)
	}
	return e
}

// simple reports whether an (already copied) argument may be substituted for the parameter.
func (cl *cloner) simple(e ast.Expr) bool {
	switch x := ast.Unparen(e).(type) {
	case *ast.Ident:
		return x.Name != "_"
	case *ast.BasicLit:
		return true
	case *ast.SelectorExpr: // only package-qualified names: a field may change while the helper runs
		if id, ok := x.X.(*ast.Ident); ok {
			_, isPkg := cl.info.Uses[id].(*types.PkgName)
			return isPkg
		}
	case *ast.UnaryExpr:
		if tv, ok := cl.info.Types[e]; ok && tv.Value != nil {
			return cl.simple(x.X)
		}
	}
	return false
}

// ---------------------------------------------------------------------------
// statement lists

func (cl *cloner) stmts(list []ast.Stmt) []ast.Stmt {
	if list == nil {
		return nil
	}
	out := make([]ast.Stmt, 0, len(list))
	for i := 0; i < len(list); i++ {
		s := list[i]
		var next *ast.IfStmt
		if i+1 < len(list) {
			next, _ = list[i+1].(*ast.IfStmt)
		}
		if ss, used := cl.stmt(s, next); ss != nil {
			out = append(out, ss...)
			if used {
				i++
			}
			continue
		}
		out = append(out, cl.node(s).(ast.Stmt))
	}
	return out
}

// stmt handles the statements that get special treatment; nil means "copy as is".
// usedNext reports that the following if statement was consumed as well.
func (cl *cloner) stmt(s ast.Stmt, next *ast.IfStmt) (out []ast.Stmt, usedNext bool) {
	switch x := s.(type) {
	case *ast.ReturnStmt:
		var tail *ast.CallExpr
		var th *core.Fn
		if len(x.Results) == 1 {
			if call, ok := ast.Unparen(x.Results[0]).(*ast.CallExpr); ok {
				tail, th = call, cl.inlinable(call)
			}
		}
		if cl.ret != nil && cl.inLit == 0 && !cl.ret.tail {
			// a return of the helper being inlined
			if th != nil && cl.ret.lhs != nil {
				// `return h2()` inside the helper: h2's returns feed the same targets
				fw := *cl.ret
				outerEnd := cl.ret.end
				ss := cl.inline(tail, th, &fw, nil)
				return append(ss, &ast.BranchStmt{TokPos: x.Pos(), Tok: token.GOTO, Label: ast.NewIdent(outerEnd)}), false
			}
			return cl.rewriteReturn(x), false
		}
		if th != nil {
			return cl.inline(tail, th, &retPolicy{tail: true}, nil), false
		}
	case *ast.LabeledStmt:
		if inner, used := cl.stmt(x.Stmt, next); inner != nil {
			if len(inner) == 0 {
				inner = []ast.Stmt{&ast.EmptyStmt{Semicolon: x.Stmt.Pos(), Implicit: true}}
			}
			lab := &ast.LabeledStmt{Label: ast.NewIdent(x.Label.Name), Colon: x.Colon, Stmt: inner[0]}
			return append([]ast.Stmt{lab}, inner[1:]...), used
		}
	case *ast.ExprStmt:
		if call, ok := ast.Unparen(x.X).(*ast.CallExpr); ok {
			if h := cl.inlinable(call); h != nil {
				return cl.inline(call, h, &retPolicy{}, nil), false
			}
		}
	case *ast.AssignStmt:
		if cl.dropClosureDef(x) {
			return []ast.Stmt{}, false
		}
		if call, h := cl.callAssign(x); h != nil {
			return cl.inlineAssign(x, call, h, next)
		}
	case *ast.IfStmt:
		if as, ok := x.Init.(*ast.AssignStmt); ok {
			if call, h := cl.callAssign(as); h != nil {
				bare := *x
				bare.Init = nil
				ss, used := cl.inlineAssign(as, call, h, &bare)
				if !used {
					ss = append(ss, cl.node(&bare).(ast.Stmt))
				}
				return []ast.Stmt{&ast.BlockStmt{Lbrace: x.Pos(), List: ss, Rbrace: x.End()}}, false
			}
		}
	}
	return nil, false
}

func (cl *cloner) callAssign(as *ast.AssignStmt) (*ast.CallExpr, *core.Fn) {
	if len(as.Rhs) != 1 || as.Tok != token.DEFINE && as.Tok != token.ASSIGN {
		return nil, nil
	}
	call, ok := ast.Unparen(as.Rhs[0]).(*ast.CallExpr)
	if !ok {
		return nil, nil
	}
	for _, l := range as.Lhs {
		if _, isID := ast.Unparen(l).(*ast.Ident); !isID {
			if _, isSel := ast.Unparen(l).(*ast.SelectorExpr); !isSel {
				return nil, nil
			}
		}
	}
	return call, cl.inlinable(call)
}

// inlinable resolves the helper a call would be replaced by, or nil.
func (cl *cloner) inlinable(call *ast.CallExpr) *core.Fn {
	if h := cl.closure(call); h != nil {
		return h
	}
	f := core.CalleeFunc(cl.info, call)
	if f == nil || f.Pkg() != cl.pkg || len(cl.stack) > cl.in.MaxDepth || cl.in.Keep != nil && cl.in.Keep(f) {
		return nil
	}
	for _, s := range cl.stack {
		if s == f {
			return nil
		}
	}
	sig := f.Type().(*types.Signature)
	if sig.Variadic() || sig.TypeParams() != nil || sig.RecvTypeParams() != nil || call.Ellipsis.IsValid() || len(call.Args) != sig.Params().Len() {
		return nil
	}
	if sel, ok := ast.Unparen(call.Fun).(*ast.SelectorExpr); ok && sig.Recv() != nil {
		if s, ok := cl.info.Selections[sel]; !ok || s.Kind() != types.MethodVal || len(s.Index()) != 1 {
			return nil // promoted through embedding, or a method expression
		}
	}
	h := cl.in.Prog.FnOf(f)
	if h == nil || h.Decl.Body == nil {
		return nil
	}
	bad := false
	core.Inspect(h.Decl.Body, func(m ast.Node) bool {
		switch m.(type) {
		case *ast.DeferStmt:
			bad = true
		}
		return !bad
	})
	if bad {
		return nil
	}
	return h
}

// closure resolves a call of a function literal bound once to a local
// (`step := func(..) {..}; step(..)`) to a pseudo helper made of the literal.
func (cl *cloner) closure(call *ast.CallExpr) *core.Fn {
	id, ok := ast.Unparen(call.Fun).(*ast.Ident)
	if !ok || len(cl.stack)+len(cl.lits) > cl.in.MaxDepth || call.Ellipsis.IsValid() {
		return nil
	}
	v, isVar := cl.info.Uses[id].(*types.Var)
	if !isVar || v.IsField() {
		return nil
	}
	lit, isLit := ast.Unparen(ValueOf(cl.info, cl.root, id)).(*ast.FuncLit)
	if !isLit {
		return nil
	}
	for _, l := range cl.lits {
		if l == lit {
			return nil
		}
	}
	n := 0
	for _, f := range lit.Type.Params.List {
		if _, variadic := f.Type.(*ast.Ellipsis); variadic {
			return nil
		}
		n += max(len(f.Names), 1)
	}
	bad := n != len(call.Args)
	core.Inspect(lit.Body, func(m ast.Node) bool {
		if _, isDefer := m.(*ast.DeferStmt); isDefer {
			bad = true
		}
		return !bad
	})
	if bad {
		return nil
	}
	return &core.Fn{Decl: &ast.FuncDecl{Name: id, Type: lit.Type, Body: lit.Body}}
}

// dropClosureDef: `f := func(..){..}` can be omitted from the view when every use of f is a call that gets inlined.
func (cl *cloner) dropClosureDef(as *ast.AssignStmt) bool {
	if as.Tok != token.DEFINE || len(as.Lhs) != 1 || len(as.Rhs) != 1 {
		return false
	}
	id, ok := as.Lhs[0].(*ast.Ident)
	if _, isLit := ast.Unparen(as.Rhs[0]).(*ast.FuncLit); !ok || !isLit {
		return false
	}
	obj := cl.info.Defs[id]
	if obj == nil || Assignments(cl.info, cl.root, obj) != 1 {
		return false
	}
	all, uses := true, 0
	core.InspectAll(cl.root, func(m ast.Node) bool {
		use, isID := m.(*ast.Ident)
		if !isID || cl.info.Uses[use] != obj {
			return true
		}
		uses++
		path := core.PathTo(cl.root, use)
		ok := false
		if k := len(path); k >= 3 {
			if call, isCall := path[k-2].(*ast.CallExpr); isCall && ast.Unparen(call.Fun) == ast.Expr(use) && cl.closure(call) != nil {
				switch st := path[k-3].(type) {
				case *ast.ExprStmt:
					ok = true
				case *ast.AssignStmt:
					ok = len(st.Rhs) == 1 && (st.Tok == token.DEFINE || st.Tok == token.ASSIGN)
				case *ast.ReturnStmt:
					ok = len(st.Results) == 1
				}
			}
		}
		all = all && ok
		return true
	})
	return all && uses > 0
}

// inlineAssign handles `lhs := h(args)`, possibly followed by `if err != nil { A }`.
func (cl *cloner) inlineAssign(as *ast.AssignStmt, call *ast.CallExpr, h *core.Fn, next *ast.IfStmt) ([]ast.Stmt, bool) {
	pol := &retPolicy{define: as.Tok == token.DEFINE}
	for _, l := range as.Lhs {
		pol.lhs = append(pol.lhs, cl.expr(l))
	}
	// alias: x := h() where h ends in its only `return <locals>`
	if pol.define {
		if rets := returnsOf(h.Decl.Body); len(rets) == 1 && len(h.Decl.Body.List) > 0 && h.Decl.Body.List[len(h.Decl.Body.List)-1] == ast.Stmt(rets[0]) && len(rets[0].Results) == len(as.Lhs) {
			ok := true
			for i, res := range rets[0].Results {
				lid, _ := ast.Unparen(as.Lhs[i]).(*ast.Ident)
				lo := cl.info.Defs[lid]
				ro := Obj(cl.info, res)
				if lid == nil || lid.Name != "_" && (lo == nil || Assignments(cl.info, cl.outer, lo) != 1) || ro == nil || !DefinedIn(cl.info, h.Decl.Body, ro) {
					ok = false
				}
			}
			if ok {
				pol.lhs = nil
				out := cl.inline(call, h, pol, func(ret *ast.ReturnStmt) {
					for i, res := range ret.Results {
						if lid := ast.Unparen(as.Lhs[i]).(*ast.Ident); lid.Name != "_" {
							cl.subst[cl.info.Defs[lid]] = ast.Unparen(res)
						}
					}
				})
				return out, false
			}
		}
	}
	// error correlation with the following test
	var test *ast.IfStmt
	if next != nil && next.Init == nil && len(as.Lhs) >= 1 {
		if eo := Obj(cl.info, as.Lhs[len(as.Lhs)-1]); eo != nil && cfgq.IsErrorType(eo.Type()) {
			if fs := cfgq.Facts(next.Cond, true); len(fs) == 1 {
				if isNil, ok := NilCmp(cl.info, fs[0], IsObj(cl.info, eo)); ok && !isNil {
					if _, elseIf := next.Else.(*ast.IfStmt); !elseIf && len(next.Body.List) > 0 {
						test = next
					}
				}
			}
		}
	}
	if test == nil {
		return cl.inline(call, h, pol, nil), false
	}
	pol.lErr, pol.lOk = cl.in.label("err"), cl.in.label("ok")
	out := cl.inline(call, h, pol, nil)
	ifc := cl.node(test).(*ast.IfStmt)
	ifc.Body.List[0] = &ast.LabeledStmt{Label: ast.NewIdent(pol.lErr), Colon: ifc.Body.List[0].Pos(), Stmt: ifc.Body.List[0]}
	okLabel := &ast.LabeledStmt{Label: ast.NewIdent(pol.lOk), Colon: test.End(), Stmt: &ast.EmptyStmt{Semicolon: test.End(), Implicit: true}}
	if eb, ok := ifc.Else.(*ast.BlockStmt); ok && len(eb.List) > 0 {
		eb.List[0] = &ast.LabeledStmt{Label: ast.NewIdent(pol.lOk), Colon: eb.List[0].Pos(), Stmt: eb.List[0]}
		return append(out, ifc), true
	}
	return append(out, ifc, okLabel), true
}

func returnsOf(body *ast.BlockStmt) []*ast.ReturnStmt {
	var out []*ast.ReturnStmt
	core.Inspect(body, func(m ast.Node) bool {
		if r, ok := m.(*ast.ReturnStmt); ok {
			out = append(out, r)
		}
		return true
	})
	return out
}

// inline copies the body of h with its parameters bound to the call's arguments.
func (cl *cloner) inline(call *ast.CallExpr, h *core.Fn, pol *retPolicy, afterLast func(*ast.ReturnStmt)) []ast.Stmt {
	child := &cloner{in: cl.in, info: cl.info, pkg: cl.pkg, subst: map[types.Object]ast.Expr{}, stack: append(append([]*types.Func{}, cl.stack...), h.Obj), outer: h.Decl.Body, root: h.Decl.Body, lits: cl.lits}
	if h.Obj == nil {
		// a closure shares the scope of the function it is defined in: aliases stay valid, closure
		// variables are still looked up in that function
		for o, e := range cl.subst {
			child.subst[o] = e
		}
		child.root = cl.root
		child.outer = cl.outer
		if lit, ok := ast.Unparen(ValueOf(cl.info, cl.root, h.Decl.Name)).(*ast.FuncLit); ok {
			child.lits = append(append([]*ast.FuncLit{}, cl.lits...), lit)
		}
	}
	var pre []ast.Stmt
	bind := func(name *ast.Ident, arg ast.Expr) {
		if name == nil || name.Name == "_" {
			if _, isCall := ast.Unparen(arg).(*ast.CallExpr); isCall {
				pre = append(pre, &ast.ExprStmt{X: arg})
			}
			return
		}
		obj := cl.info.Defs[name]
		if obj != nil && cl.simple(arg) && Assignments(cl.info, h.Decl.Body, obj) == 0 {
			child.subst[obj] = ast.Unparen(arg)
			return
		}
		id := &ast.Ident{NamePos: arg.Pos(), Name: name.Name}
		cl.info.Defs[id] = obj
		pre = append(pre, &ast.AssignStmt{Lhs: []ast.Expr{id}, TokPos: arg.Pos(), Tok: token.DEFINE, Rhs: []ast.Expr{arg}})
	}
	if h.Decl.Recv != nil && len(h.Decl.Recv.List) == 1 {
		if sel, ok := ast.Unparen(call.Fun).(*ast.SelectorExpr); ok {
			var name *ast.Ident
			if len(h.Decl.Recv.List[0].Names) == 1 {
				name = h.Decl.Recv.List[0].Names[0]
			}
			bind(name, cl.expr(sel.X))
		}
	}
	k := 0
	for _, f := range h.Decl.Type.Params.List {
		if len(f.Names) == 0 {
			bind(nil, cl.expr(call.Args[k]))
			k++
		}
		for _, n := range f.Names {
			bind(n, cl.expr(call.Args[k]))
			k++
		}
	}
	if !pol.tail {
		pol.end = cl.in.label("end")
		pol.orig = h
		if h.Decl.Type.Results != nil {
			for _, f := range h.Decl.Type.Results.List {
				for _, n := range f.Names {
					pol.named = append(pol.named, cl.info.Defs[n])
				}
			}
		}
		child.ret = pol
	} else {
		child.ret = &retPolicy{tail: true}
	}
	body := child.stmts(h.Decl.Body.List)
	if afterLast != nil {
		// the trailing `return locals` was dropped by rewriteReturn (lhs == nil); alias instead
		afterLast(h.Decl.Body.List[len(h.Decl.Body.List)-1].(*ast.ReturnStmt))
	}
	out := append(pre, body...)
	if !pol.tail {
		out = append(out, &ast.LabeledStmt{Label: ast.NewIdent(pol.end), Colon: call.End(), Stmt: &ast.EmptyStmt{Semicolon: call.End(), Implicit: true}})
	}
	return []ast.Stmt{&ast.BlockStmt{Lbrace: call.Pos(), List: out, Rbrace: call.End()}}
}

// rewriteReturn turns a return of the helper into assignments to the caller's targets and a jump.
func (cl *cloner) rewriteReturn(ret *ast.ReturnStmt) []ast.Stmt {
	p := cl.ret
	var results []ast.Expr
	for _, r := range ret.Results {
		results = append(results, cl.expr(r))
	}
	if len(ret.Results) == 0 {
		for _, o := range p.named {
			id := &ast.Ident{NamePos: ret.Pos(), Name: o.Name()}
			cl.info.Uses[id] = o
			cl.info.Types[id] = types.TypeAndValue{Type: o.Type()}
			results = append(results, id)
		}
	}
	jump := func(label string) ast.Stmt {
		return &ast.BranchStmt{TokPos: ret.Pos(), Tok: token.GOTO, Label: ast.NewIdent(label)}
	}
	var out []ast.Stmt
	target := p.end
	if p.lhs == nil {
		// call statement (results dropped, calls among them still happen) or aliased trailing return
		for _, r := range results {
			if _, isCall := ast.Unparen(r).(*ast.CallExpr); isCall {
				out = append(out, &ast.ExprStmt{X: r})
			}
		}
		return append(out, jump(target))
	}
	lhs := make([]ast.Expr, len(p.lhs))
	for i, l := range p.lhs {
		lhs[i] = cl.fresh(l, ret.Pos(), p.define)
	}
	tok := token.ASSIGN
	if p.define {
		tok = token.DEFINE
	}
	if len(results) == len(lhs) || len(results) == 1 {
		out = append(out, &ast.AssignStmt{Lhs: lhs, TokPos: ret.Pos(), Tok: tok, Rhs: results})
	}
	if p.lErr != "" && len(ret.Results) == len(lhs) && len(ret.Results) > 0 {
		last := ret.Results[len(ret.Results)-1]
		switch {
		case core.IsNil(cl.info, last):
			target = p.lOk
		case nonNilErr(cl.info, p.orig.Decl.Body, ret, last):
			target = p.lErr
		}
	}
	return append(out, jump(target))
}

// fresh copies an assignment target (identifier or selector) at position pos.
func (cl *cloner) fresh(l ast.Expr, pos token.Pos, define bool) ast.Expr {
	id, ok := ast.Unparen(l).(*ast.Ident)
	if !ok {
		return l
	}
	c := &ast.Ident{NamePos: pos, Name: id.Name}
	obj := core.ObjOf(cl.info, id)
	if obj != nil {
		if define {
			cl.info.Defs[c] = obj
		} else {
			cl.info.Uses[c] = obj
		}
		cl.info.Types[c] = types.TypeAndValue{Type: obj.Type()}
	}
	return c
}

// DefinedIn reports whether obj is declared by an identifier below root
// (`:=`, var, range, or a parameter binding introduced by the inliner).
func DefinedIn(info *types.Info, root ast.Node, obj types.Object) bool {
	found := false
	core.InspectAll(root, func(m ast.Node) bool {
		if id, ok := m.(*ast.Ident); ok && info.Defs[id] == obj {
			found = true
		}
		return !found
	})
	return found
}

// PointOf locates the cfg node that contains n by tree identity (positions
// are meaningless once helper bodies have been copied into a function).
func PointOf(g *cfgq.Graph, n ast.Node) (cfgq.Point, bool) {
	for _, b := range g.CFG.Blocks {
		for i, m := range b.Nodes {
			hit := false
			core.Inspect(m, func(x ast.Node) bool {
				if x == n {
					hit = true
				}
				return !hit
			})
			if hit {
				return cfgq.Point{B: b, I: i}, true
			}
		}
	}
	return cfgq.Point{}, false
}

// Contains reports whether n lies below root (nested literals included).
func Contains(root, n ast.Node) bool {
	hit := false
	core.InspectAll(root, func(x ast.Node) bool {
		if x == n {
			hit = true
		}
		return !hit
	})
	return hit
}

// ReachingDef returns the expression assigned to obj by the only assignment
// whose value can reach `at` (nil when several, or a non 1:1 one, can).
func ReachingDef(g *cfgq.Graph, obj types.Object, at cfgq.Point) ast.Expr {
	info := g.Info
	isDef := func(n ast.Node) bool {
		switch s := n.(type) {
		case *ast.AssignStmt:
			for _, l := range s.Lhs {
				if IsObj(info, obj)(l) {
					return true
				}
			}
		case *ast.IncDecStmt:
			return IsObj(info, obj)(s.X)
		case *ast.RangeStmt:
			return s.Key != nil && IsObj(info, obj)(s.Key) || s.Value != nil && IsObj(info, obj)(s.Value)
		}
		return false
	}
	target := at.Node()
	var rhs ast.Expr
	n := 0
	for _, p := range g.Points(isDef) {
		if g.Path(cfgq.Query{From: p, After: true, Avoid: isDef, Target: func(m ast.Node) bool { return m == target }}) == nil {
			continue
		}
		n++
		as, ok := p.Node().(*ast.AssignStmt)
		if !ok || len(as.Lhs) != len(as.Rhs) || as.Tok != token.DEFINE && as.Tok != token.ASSIGN {
			return nil
		}
		for i, l := range as.Lhs {
			if IsObj(info, obj)(l) {
				rhs = as.Rhs[i]
			}
		}
	}
	// a path from the entry that meets no assignment leaves the initial value
	if n != 1 || g.Path(cfgq.Query{From: g.Entry(), Avoid: isDef, Target: func(m ast.Node) bool { return m == target }}) != nil && !isDef(g.Entry().Node()) {
		return nil
	}
	return rhs
}
