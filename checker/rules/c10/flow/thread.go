package flow

import (
	"go/ast"
	"go/token"
	"go/types"
	"sync"

	"rscheck/core"
)

// Jump threading for inlined helpers: when a helper returns constants (nil or
// a provably non-nil error, true/false, an integer constant such as an enum
// value) and the caller immediately tests the results - `if err != nil`,
// `if err != nil || isNil`, `switch kind { case k: }`, a tagless switch - the
// outcome of that test is known at each return site. The return is turned into
// a jump to the arm it selects, which keeps, in a path-insensitive graph, the
// correlation between what the helper found out and what the caller does.

// known is the abstract value of a variable at a return site.
type known struct {
	kind int // 1 nil, 2 non-nil, 3 bool, 4 int
	b    bool
	k    int64
}

type kenv map[types.Object]known

// fieldKey names field f of struct variable o in a kenv (a pseudo object per pair).
type fieldVar struct {
	types.Object
	field string
}

var (
	fieldVars   = map[types.Object]map[string]*fieldVar{}
	fieldVarsMu sync.Mutex
)

func fieldOf(o types.Object, f string) types.Object {
	fieldVarsMu.Lock()
	defer fieldVarsMu.Unlock()
	m := fieldVars[o]
	if m == nil {
		m = map[string]*fieldVar{}
		fieldVars[o] = m
	}
	if m[f] == nil {
		m[f] = &fieldVar{o, f}
	}
	return m[f]
}

// envObj: the kenv key an expression denotes: a variable, or a field of a struct variable.
func envObj(info *types.Info, e ast.Expr) types.Object {
	e = ast.Unparen(e)
	if sel, ok := e.(*ast.SelectorExpr); ok {
		if o := Obj(info, sel.X); o != nil {
			if _, isVar := o.(*types.Var); isVar {
				return fieldOf(o, sel.Sel.Name)
			}
		}
		return nil
	}
	return Obj(info, e)
}

// evalCond evaluates a boolean expression under env; ok is false when undecided.
func evalCond(info *types.Info, e ast.Expr, env kenv) (val, ok bool) {
	e = ast.Unparen(e)
	switch x := e.(type) {
	case *ast.UnaryExpr:
		if x.Op == token.NOT {
			v, k := evalCond(info, x.X, env)
			return !v, k
		}
	case *ast.BinaryExpr:
		switch x.Op {
		case token.LAND:
			a, ka := evalCond(info, x.X, env)
			b, kb := evalCond(info, x.Y, env)
			if ka && !a || kb && !b {
				return false, true
			}
			return true, ka && kb
		case token.LOR:
			a, ka := evalCond(info, x.X, env)
			b, kb := evalCond(info, x.Y, env)
			if ka && a || kb && b {
				return true, true
			}
			return false, ka && kb
		case token.EQL, token.NEQ, token.LSS, token.LEQ, token.GTR, token.GEQ:
			for _, p := range [][2]ast.Expr{{x.X, x.Y}, {x.Y, x.X}} {
				v, has := env[envObj(info, p[0])]
				if !has {
					continue
				}
				op := x.Op
				if p[0] != x.X {
					op = mirror[op]
				}
				if core.IsNil(info, p[1]) && (v.kind == 1 || v.kind == 2) && (op == token.EQL || op == token.NEQ) {
					return (v.kind == 1) == (op == token.EQL), true
				}
				if c, isC := core.IntConst(info, p[1]); isC && v.kind == 4 {
					switch op {
					case token.EQL:
						return v.k == c, true
					case token.NEQ:
						return v.k != c, true
					case token.LSS:
						return v.k < c, true
					case token.LEQ:
						return v.k <= c, true
					case token.GTR:
						return v.k > c, true
					case token.GEQ:
						return v.k >= c, true
					}
				}
				if tv, isC := info.Types[p[1]]; isC && tv.Value != nil && v.kind == 3 && (op == token.EQL || op == token.NEQ) {
					return (tv.Value.String() == "true") == v.b == (op == token.EQL), true
				}
			}
		}
	case *ast.SelectorExpr:
		if v, has := env[envObj(info, x)]; has && v.kind == 3 {
			return v.b, true
		}
	case *ast.Ident:
		if v, has := env[Obj(info, x)]; has && v.kind == 3 {
			return v.b, true
		}
		if tv, isC := info.Types[x]; isC && tv.Value != nil {
			return tv.Value.String() == "true", true
		}
	}
	return false, false
}

// threader owns the copy of the statement that follows an inlined call and
// hands out jump targets inside it.
type threader struct {
	cl     *cloner
	orig   ast.Stmt // *ast.IfStmt or *ast.SwitchStmt (type information)
	copy   ast.Stmt
	after  string
	used   bool // the after label is referenced
	labels map[*ast.Stmt]string
	chain  *threader // the test that follows this one (nil: none)
	env    kenv      // the knowledge of the return being threaded (set by target)
}

// afterLabel: control continues behind the test - at the test that follows,
// or, when the knowledge decides that one too, inside it.
func (t *threader) afterLabel() string {
	if t.chain != nil && t.env != nil {
		if l := t.chain.target(t.env); l != "" {
			return l
		}
	}
	t.used = true
	return t.after
}

// into returns a label on the first statement of list (an empty arm continues behind the statement).
func (t *threader) into(list []ast.Stmt) string {
	if len(list) == 0 {
		return t.afterLabel()
	}
	if l, ok := t.labels[&list[0]]; ok {
		return l
	}
	l := t.cl.in.label("arm")
	list[0] = &ast.LabeledStmt{Label: ast.NewIdent(l), Colon: list[0].Pos(), Stmt: list[0]}
	t.labels[&list[0]] = l
	return l
}

// target decides where a return with the given knowledge continues ("" = at the test itself).
func (t *threader) target(env kenv) string {
	info := t.cl.info
	t.env = env
	defer func() { t.env = nil }()
	switch o := t.orig.(type) {
	case *ast.IfStmt:
		c := t.copy.(*ast.IfStmt)
		v, ok := evalCond(info, o.Cond, env)
		if !ok {
			return ""
		}
		if v {
			return t.into(c.Body.List)
		}
		switch e := c.Else.(type) {
		case nil:
			return t.afterLabel()
		case *ast.BlockStmt:
			return t.into(e.List)
		}
	case *ast.SwitchStmt:
		c := t.copy.(*ast.SwitchStmt)
		deflt := -1
		for i, s := range o.Body.List {
			cc := s.(*ast.CaseClause)
			if cc.List == nil {
				deflt = i
				continue
			}
			for _, lab := range cc.List {
				var v, ok bool
				if o.Tag == nil {
					v, ok = evalCond(info, lab, env)
				} else {
					v, ok = evalCond(info, &ast.BinaryExpr{X: o.Tag, Op: token.EQL, Y: lab}, env)
				}
				if !ok {
					return ""
				}
				if v {
					return t.into(c.Body.List[i].(*ast.CaseClause).Body)
				}
			}
		}
		if deflt >= 0 {
			return t.into(c.Body.List[deflt].(*ast.CaseClause).Body)
		}
		return t.afterLabel()
	}
	return ""
}
