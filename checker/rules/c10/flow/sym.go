package flow

// A small path-sensitive walker. The cfgq path queries are path-insensitive:
// they cannot tell that `return nil, err` is an error exit on one path and a
// nil-value exit on another, or that the second of two type switches over the
// same operand takes the arm the first one took. Sym walks every path of one
// (inlined) body and carries, per path,
//
//   - what each local holds: nil / non-nil, true / false, an integer constant,
//     or an opaque token naming the call result (or parameter) it was copied
//     from - so "the decoded length" is a token and every variable it was
//     copied into is a holder of it;
//   - an integer interval per token, refined by comparisons with constants;
//   - the dynamic type known for an interface variable inside type-switch arms;
//   - rule-defined marks (e.g. "the tag byte already written on this path").
//
// Branch conditions that are decided by this knowledge prune the other edge.

import (
	"fmt"
	"go/ast"
	"go/token"
	"go/types"
	"math"
	"sort"
	"strings"

	"golang.org/x/tools/go/cfg"

	"rscheck/cfgq"
	"rscheck/core"
	"rscheck/lin"
)

// SKind is the kind of an abstract value.
type SKind int

const (
	SUnknown SKind = iota
	SNil
	SNonNil
	SBool
	SInt
)

// SVal is an abstract value. Tok, when set, names where the value comes from
// (a call result, a parameter, an allocation): copies share the token.
type SVal struct {
	Kind SKind
	B    bool
	K    int64
	Tok  string
	Src  ast.Node // the expression that produced the token
	Deps []string // tokens of the values an arithmetic result was computed from
	// Pred: the value is the outcome of this condition (`null := n == -1`), evaluated when the variables it
	// reads held what Snap records; learning the value later says the condition held / did not hold then
	Pred ast.Expr
	Snap map[types.Object]string
}

// SState is the knowledge on one path.
type SState struct {
	Env   map[types.Object]SVal
	Iv    map[string]Interval // per token
	Type  map[string]string   // known dynamic type of the value named by a token (type-switch arm), as types.TypeString
	Not   map[string][]string // excluded dynamic types
	Marks map[string]SVal
	// comma-ok type assertions: ok variable -> (token of the asserted value, asserted type)
	Asserts map[types.Object][2]string
	// what a function literal entered by the walk returned, per call expression (fmt %p)
	Rets map[string][]SVal
}

func newState() *SState {
	return &SState{Env: map[types.Object]SVal{}, Iv: map[string]Interval{}, Type: map[string]string{}, Not: map[string][]string{}, Marks: map[string]SVal{}, Asserts: map[types.Object][2]string{}, Rets: map[string][]SVal{}}
}

func (s *SState) clone() *SState {
	c := newState()
	for k, v := range s.Env {
		c.Env[k] = v
	}
	for k, v := range s.Iv {
		c.Iv[k] = v
	}
	for k, v := range s.Type {
		c.Type[k] = v
	}
	for k, v := range s.Not {
		c.Not[k] = append([]string(nil), v...)
	}
	for k, v := range s.Marks {
		c.Marks[k] = v
	}
	for k, v := range s.Asserts {
		c.Asserts[k] = v
	}
	for k, v := range s.Rets {
		c.Rets[k] = v
	}
	return c
}

func (s *SState) key() string {
	var parts []string
	for o, v := range s.Env {
		if fv, ok := o.(*fieldVar); ok {
			parts = append(parts, fmt.Sprintf("e%p.%s=%d/%v/%d/%s", fv.Object, fv.field, v.Kind, v.B, v.K, v.Tok))
			continue
		}
		parts = append(parts, fmt.Sprintf("e%p=%d/%v/%d/%s", o, v.Kind, v.B, v.K, v.Tok))
	}
	for t, iv := range s.Iv {
		parts = append(parts, fmt.Sprintf("i%s=%d:%d", t, iv.Lo, iv.Hi))
	}
	for o, t := range s.Type {
		parts = append(parts, fmt.Sprintf("t%s=%s", o, t))
	}
	for o, t := range s.Not {
		parts = append(parts, fmt.Sprintf("n%s=%s", o, strings.Join(t, ",")))
	}
	for k, v := range s.Marks {
		parts = append(parts, fmt.Sprintf("m%s=%d/%d/%s", k, v.Kind, v.K, v.Tok))
	}
	for k, v := range s.Asserts {
		parts = append(parts, fmt.Sprintf("a%p=%s/%s", k, v[0], v[1]))
	}
	for k, vs := range s.Rets {
		p := "r" + k
		for _, v := range vs {
			p += fmt.Sprintf("=%d/%v/%d/%s", v.Kind, v.B, v.K, v.Tok)
		}
		parts = append(parts, p)
	}
	sort.Strings(parts)
	return strings.Join(parts, ";")
}

// ident: what identifies the value for "has this variable changed since".
func (v SVal) ident() string {
	if v.Tok != "" {
		return "t" + v.Tok
	}
	return fmt.Sprintf("k%d/%v/%d", v.Kind, v.B, v.K)
}

// IntervalOf returns the interval known for a token.
func (s *SState) IntervalOf(tok string) Interval {
	if iv, ok := s.Iv[tok]; ok {
		return iv
	}
	return Interval{math.MinInt64, math.MaxInt64}
}

// Sym is one walk.
type Sym struct {
	G         *cfgq.Graph
	Visit     func(n ast.Node, st *SState) (stop bool) // called before the node's effect is applied
	Prune     func(st *SState) bool                    // called after an edge's facts were applied; true drops the path
	Exit      func(b *cfg.Block, st *SState)           // called at blocks without successors
	Unlearned func(e ast.Expr, st *SState)             // a branch atom that neither decided nor refined anything
	// OnFact is called for every atom (and implied fact) assumed on the edge a path takes, with the state after it
	OnFact   func(f cfgq.Fact, st *SState)
	Overflow bool
	// UnknownCalls counts calls through function-typed locals whose target the path does not know
	UnknownCalls int
	tables       map[*types.Var]tableInfo
	private      map[*types.Var]bool
	root         *cfgq.Graph // the graph Run started on (G follows the walk into function literals)
	tsw          map[*ast.CaseClause]*ast.TypeSwitchStmt
	escaped      map[types.Object]bool // struct locals whose address is taken: their fields are not tracked
}

// fieldKey returns the Env key of `x.f` when x is a struct-valued local whose
// address is never taken (so that only assignments that name it change it).
func (w *Sym) fieldKey(e ast.Expr) (types.Object, bool) {
	sel, ok := ast.Unparen(e).(*ast.SelectorExpr)
	if !ok {
		return nil, false
	}
	info := w.G.Info
	id, ok := ast.Unparen(sel.X).(*ast.Ident)
	if !ok {
		return nil, false
	}
	base, isVar := core.ObjOf(info, id).(*types.Var)
	if !isVar || base.IsField() || base.Pkg() == nil || base.Parent() == base.Pkg().Scope() {
		return nil, false
	}
	if _, isStruct := base.Type().Underlying().(*types.Struct); !isStruct {
		// a pointer to a struct built here (`p := &T{..}`), defined once and only ever used as p.f: the
		// pointer never leaves the function, its target is a local in all but name
		if !w.privatePointer(base) {
			return nil, false
		}
	}
	if s := info.Selections[sel]; s == nil || s.Kind() != types.FieldVal || len(s.Index()) != 1 {
		return nil, false
	}
	if w.escaped == nil {
		w.escaped = map[types.Object]bool{}
		core.InspectAll(w.body(), func(n ast.Node) bool {
			switch x := n.(type) {
			case *ast.UnaryExpr:
				if x.Op == token.AND {
					root := ast.Unparen(x.X)
					for {
						if s, ok := root.(*ast.SelectorExpr); ok {
							root = ast.Unparen(s.X)
							continue
						}
						if ix, ok := root.(*ast.IndexExpr); ok {
							root = ast.Unparen(ix.X)
							continue
						}
						break
					}
					if o := Obj(info, root); o != nil {
						w.escaped[o] = true
					}
				}
			case *ast.SelectorExpr:
				// a method with a pointer receiver called on (or bound from) an addressable variable
				if s := info.Selections[x]; s != nil && s.Kind() == types.MethodVal {
					if f, ok := s.Obj().(*types.Func); ok {
						if sig, ok := f.Type().(*types.Signature); ok && sig.Recv() != nil {
							if _, ptr := sig.Recv().Type().(*types.Pointer); ptr {
								if o := Obj(info, x.X); o != nil {
									w.escaped[o] = true
								}
							}
						}
					}
				}
			}
			return true
		})
	}
	if w.escaped[base] {
		return nil, false
	}
	return fieldOf(base, sel.Sel.Name), true
}

// privatePointer: v is a pointer local with the single definition `v := &T{..}` (or new(T)) whose every
// other mention is the base of a field selector.
func (w *Sym) privatePointer(v *types.Var) bool {
	if r, done := w.private[v]; done {
		return r
	}
	if w.private == nil {
		w.private = map[*types.Var]bool{}
	}
	info := w.G.Info
	pt, isPtr := v.Type().Underlying().(*types.Pointer)
	ok := isPtr
	if isPtr {
		_, isStruct := pt.Elem().Underlying().(*types.Struct)
		ok = isStruct
	}
	defs := 0
	if ok {
		fieldBase := map[*ast.Ident]bool{}
		core.InspectAll(w.body(), func(n ast.Node) bool {
			switch x := n.(type) {
			case *ast.SelectorExpr:
				if id, isID := ast.Unparen(x.X).(*ast.Ident); isID && core.ObjOf(info, id) == types.Object(v) {
					if sl := info.Selections[x]; sl != nil && sl.Kind() == types.FieldVal {
						fieldBase[id] = true
					}
				}
			case *ast.AssignStmt:
				for i, l := range x.Lhs {
					if id, isID := ast.Unparen(l).(*ast.Ident); isID && core.ObjOf(info, id) == types.Object(v) {
						fieldBase[id] = true
						defs++
						if len(x.Lhs) != len(x.Rhs) {
							ok = false
							continue
						}
						r := ast.Unparen(x.Rhs[i])
						u, isAddr := r.(*ast.UnaryExpr)
						_, isNew := r.(*ast.CallExpr)
						if isAddr && u.Op == token.AND {
							if _, isLit := ast.Unparen(u.X).(*ast.CompositeLit); !isLit {
								ok = false
							}
						} else if !(isNew && IsBuiltin(info, r.(*ast.CallExpr), "new")) {
							ok = false
						}
					}
				}
			}
			return true
		})
		core.InspectAll(w.body(), func(n ast.Node) bool {
			if id, isID := n.(*ast.Ident); isID && info.Uses[id] == types.Object(v) && !fieldBase[id] {
				ok = false
			}
			return ok
		})
	}
	w.private[v] = ok && defs == 1
	return w.private[v]
}

// setStruct records what assigning v (the value of rhs) to the struct local o says about its fields.
func (w *Sym) setStruct(o types.Object, rhs ast.Expr, st *SState) {
	st.dropFields(o)
	stt, isStruct := o.Type().Underlying().(*types.Struct)
	if pt, isPtr := o.Type().Underlying().(*types.Pointer); isPtr && rhs != nil {
		// p := &T{..}
		if u, isAddr := ast.Unparen(rhs).(*ast.UnaryExpr); isAddr && u.Op == token.AND {
			stt, isStruct = pt.Elem().Underlying().(*types.Struct)
			rhs = u.X
		} else if call, isCall := ast.Unparen(rhs).(*ast.CallExpr); isCall && IsBuiltin(w.G.Info, call, "new") {
			stt, isStruct = pt.Elem().Underlying().(*types.Struct)
			rhs = &ast.CompositeLit{}
		}
	}
	if !isStruct || rhs == nil {
		return
	}
	if w.escaped != nil && w.escaped[o] {
		return
	}
	switch x := ast.Unparen(rhs).(type) {
	case *ast.CompositeLit:
		given := map[string]bool{}
		for i, el := range x.Elts {
			if kv, ok := el.(*ast.KeyValueExpr); ok {
				if k, ok := kv.Key.(*ast.Ident); ok {
					st.Env[fieldOf(o, k.Name)] = w.Eval(kv.Value, st)
					given[k.Name] = true
				}
			} else if i < stt.NumFields() {
				st.Env[fieldOf(o, stt.Field(i).Name())] = w.Eval(el, st)
				given[stt.Field(i).Name()] = true
			}
		}
		for i := 0; i < stt.NumFields(); i++ {
			if f := stt.Field(i); !given[f.Name()] {
				if z := zeroOf(f.Type()); z.Kind != SUnknown {
					st.Env[fieldOf(o, f.Name())] = z
				}
			}
		}
	case *ast.Ident:
		if from := core.ObjOf(w.G.Info, x); from != nil && from != o {
			for i := 0; i < stt.NumFields(); i++ {
				if v, ok := st.Env[fieldOf(from, stt.Field(i).Name())]; ok {
					st.Env[fieldOf(o, stt.Field(i).Name())] = v
				}
			}
		}
	}
}

func (s *SState) dropFields(o types.Object) {
	for k := range s.Env {
		if fv, ok := k.(*fieldVar); ok && fv.Object == o {
			delete(s.Env, k)
		}
	}
}

// Eval evaluates an expression under st.
func (w *Sym) Eval(e ast.Expr, st *SState) SVal {
	info := w.G.Info
	e = ast.Unparen(e)
	if core.IsNil(info, e) {
		return SVal{Kind: SNil}
	}
	if tv, ok := info.Types[e]; ok && tv.Value != nil {
		if k, isInt := core.IntConst(info, e); isInt {
			return SVal{Kind: SInt, K: k}
		}
		if s := tv.Value.String(); s == "true" || s == "false" {
			return SVal{Kind: SBool, B: s == "true"}
		}
	}
	switch x := e.(type) {
	case *ast.Ident:
		o := core.ObjOf(info, x)
		if o == nil {
			return SVal{}
		}
		if v, ok := st.Env[o]; ok {
			return v
		}
		if vr, isVar := o.(*types.Var); isVar && vr.Pkg() != nil && vr.Parent() == vr.Pkg().Scope() && cfgIsError(vr.Type()) {
			return SVal{Kind: SNonNil, Tok: fmt.Sprintf("var%p", o), Src: x}
		}
		return SVal{Tok: fmt.Sprintf("var%p", o), Src: x}
	case *ast.CallExpr:
		if rs, has := st.Rets[fmt.Sprintf("%p", x)]; has && len(rs) >= 1 {
			return rs[0]
		}
		if tv, ok := info.Types[x.Fun]; ok && tv.IsType() && len(x.Args) == 1 {
			if b, isBasic := tv.Type.Underlying().(*types.Basic); isBasic && b.Info()&types.IsInteger != 0 {
				return w.Eval(x.Args[0], st)
			}
			return SVal{Tok: fmt.Sprintf("expr%p", x), Src: x}
		}
		if IsBuiltin(info, x, "append") && len(x.Args) >= 1 {
			// appending keeps a non-nil slice non-nil (and, for this analysis, the same allocation)
			if b := w.Eval(x.Args[0], st); b.Kind == SNonNil {
				return b
			}
			if len(x.Args) >= 2 {
				return SVal{Kind: SNonNil, Tok: fmt.Sprintf("append%p", x), Src: x}
			}
		}
		if IsBuiltin(info, x, "make") || IsBuiltin(info, x, "new") {
			return SVal{Kind: SNonNil, Tok: fmt.Sprintf("make%p", x), Src: x}
		}
		if f := core.CalleeFunc(info, x); f != nil && f.Pkg() != nil {
			p := f.Pkg().Path()
			if p == "errors" || p == "fmt" || strings.HasSuffix(p, "/errors") {
				switch f.Name() {
				case "New", "Errorf":
					return SVal{Kind: SNonNil}
				case "Trace", "WithStack", "Wrap", "Wrapf":
					if len(x.Args) > 0 {
						if v := w.Eval(x.Args[0], st); v.Kind == SNil || v.Kind == SNonNil {
							return SVal{Kind: v.Kind}
						}
					}
				}
			}
		}
		return SVal{Tok: fmt.Sprintf("call%p#0", x), Src: x}
	case *ast.UnaryExpr:
		if x.Op == token.AND {
			return SVal{Kind: SNonNil, Tok: fmt.Sprintf("addr%p", x), Src: x}
		}
	case *ast.StarExpr:
		// `*new(T)`: the zero value of T, as the normalisation stages spell it
		if call, ok := ast.Unparen(x.X).(*ast.CallExpr); ok && IsBuiltin(info, call, "new") && len(call.Args) == 1 {
			if t := info.TypeOf(call.Args[0]); t != nil {
				if z := zeroOf(t); z.Kind != SUnknown {
					return z
				}
			}
		}
	case *ast.BinaryExpr:
		switch x.Op {
		case token.EQL, token.NEQ, token.LSS, token.LEQ, token.GTR, token.GEQ, token.LAND, token.LOR:
			if v, known := w.factTruth(x, st); known {
				return SVal{Kind: SBool, B: v}
			}
			out := SVal{Tok: fmt.Sprintf("expr%p", e), Src: e, Pred: x, Snap: map[types.Object]string{}}
			core.Inspect(x, func(m ast.Node) bool {
				if id, ok := m.(*ast.Ident); ok {
					if o, isVar := core.ObjOf(info, id).(*types.Var); isVar && !o.IsField() {
						out.Snap[o] = w.Eval(id, st).ident()
					}
				}
				return true
			})
			return out
		case token.ADD, token.SUB, token.MUL, token.QUO, token.REM, token.SHL, token.SHR, token.AND, token.OR, token.XOR:
			out := SVal{Tok: fmt.Sprintf("expr%p", e), Src: e}
			for _, o := range []ast.Expr{x.X, x.Y} {
				v := w.Eval(o, st)
				if v.Tok != "" {
					out.Deps = append(out.Deps, v.Tok)
				}
				out.Deps = append(out.Deps, v.Deps...)
			}
			return out
		}
	case *ast.CompositeLit, *ast.FuncLit:
		return SVal{Kind: SNonNil, Tok: fmt.Sprintf("lit%p", e), Src: e}
	case *ast.IndexExpr:
		if val, found, decided := w.lookup(x, st); decided {
			if found {
				return w.Eval(val, st)
			}
			if t := info.TypeOf(x); t != nil {
				if z := zeroOf(t); z.Kind != SUnknown {
					return z
				}
			}
		}
	case *ast.SelectorExpr:
		if k, ok := w.fieldKey(x); ok {
			if v, has := st.Env[k]; has {
				return v
			}
			// a field of a struct value that came as a whole (a call result): named after that value, so copies agree
			if b := w.Eval(x.X, st); b.Tok != "" {
				return SVal{Tok: b.Tok + "." + x.Sel.Name, Src: x}
			}
		}
	case *ast.SliceExpr:
		if b := w.Eval(x.X, st); b.Kind == SNonNil {
			return SVal{Kind: SNonNil, Tok: b.Tok, Src: b.Src}
		}
	}
	return SVal{Tok: fmt.Sprintf("expr%p", e), Src: e}
}

// Holds reports whether e mentions a variable that currently holds token tok.
func (w *Sym) Holds(e ast.Node, st *SState, tok string) bool {
	hit := false
	check := func(v SVal, ok bool) {
		if !ok {
			return
		}
		if v.Tok == tok {
			hit = true
		}
		for _, d := range v.Deps {
			if d == tok {
				hit = true
			}
		}
		for _, was := range v.Snap { // a boolean computed from the value
			if was == "t"+tok {
				hit = true
			}
		}
	}
	core.InspectAll(e, func(m ast.Node) bool {
		if hit {
			return false
		}
		switch x := m.(type) {
		case *ast.Ident:
			if o := core.ObjOf(w.G.Info, x); o != nil {
				v, ok := st.Env[o]
				check(v, ok)
			}
		case *ast.SelectorExpr:
			if k, isField := w.fieldKey(x); isField {
				v, ok := st.Env[k]
				check(v, ok)
			}
		}
		return !hit
	})
	return hit
}

func zeroOf(t types.Type) SVal {
	switch u := t.Underlying().(type) {
	case *types.Basic:
		if u.Info()&types.IsBoolean != 0 {
			return SVal{Kind: SBool}
		}
		if u.Info()&types.IsInteger != 0 {
			return SVal{Kind: SInt}
		}
	case *types.Pointer, *types.Slice, *types.Map, *types.Chan, *types.Interface, *types.Signature:
		return SVal{Kind: SNil}
	}
	return SVal{}
}

// apply updates st for the effect of node n.
func (w *Sym) apply(n ast.Node, st *SState) {
	info := w.G.Info
	var rhsOf ast.Expr // the expression assigned, when the assignment is one-to-one
	set := func(l ast.Expr, v SVal) {
		if id, ok := ast.Unparen(l).(*ast.Ident); ok && id.Name != "_" {
			if o := core.ObjOf(info, id); o != nil {
				st.Env[o] = v
				if _, isStruct := o.Type().Underlying().(*types.Struct); isStruct {
					w.setStruct(o, rhsOf, st)
				} else if pv, isVar := o.(*types.Var); isVar && w.privatePointer(pv) {
					w.setStruct(o, rhsOf, st)
				}
			}
			return
		}
		if k, ok := w.fieldKey(l); ok {
			st.Env[k] = v
		}
	}
	switch s := n.(type) {
	case *ast.AssignStmt:
		switch {
		case s.Tok != token.ASSIGN && s.Tok != token.DEFINE:
			for _, l := range s.Lhs {
				set(l, SVal{Tok: fmt.Sprintf("upd%p", s), Src: s})
			}
		case len(s.Lhs) == len(s.Rhs):
			vals := make([]SVal, len(s.Rhs))
			for i, r := range s.Rhs {
				vals[i] = w.Eval(r, st)
			}
			for i, l := range s.Lhs {
				rhsOf = s.Rhs[i]
				set(l, vals[i])
			}
			rhsOf = nil
		default:
			if ta, ok := ast.Unparen(s.Rhs[0]).(*ast.TypeAssertExpr); ok && len(s.Lhs) == 2 && ta.Type != nil {
				if okID, isID := ast.Unparen(s.Lhs[1]).(*ast.Ident); isID && okID.Name != "_" {
					if o := core.ObjOf(info, okID); o != nil {
						if tok := w.Eval(ta.X, st).Tok; tok != "" {
							st.Asserts[o] = [2]string{tok, types.TypeString(info.TypeOf(ta.Type), nil)}
						}
					}
				}
			}
			if ix, ok := ast.Unparen(s.Rhs[0]).(*ast.IndexExpr); ok && len(s.Lhs) == 2 {
				if _, found, decided := w.lookup(ix, st); decided {
					set(s.Lhs[0], w.Eval(ix, st))
					set(s.Lhs[1], SVal{Kind: SBool, B: found})
					break
				}
			}
			for i, l := range s.Lhs {
				v := SVal{Tok: fmt.Sprintf("expr%p#%d", s.Rhs[0], i), Src: s.Rhs[0]}
				if call, ok := ast.Unparen(s.Rhs[0]).(*ast.CallExpr); ok {
					v = SVal{Tok: fmt.Sprintf("call%p#%d", call, i), Src: call}
					if rs, has := st.Rets[fmt.Sprintf("%p", call)]; has && i < len(rs) {
						v = rs[i]
					}
				}
				set(l, v)
			}
		}
	case *ast.IncDecStmt:
		set(s.X, SVal{Tok: fmt.Sprintf("upd%p", s), Src: s})
	case *ast.ValueSpec: // go/cfg lists each var spec of a declaration statement as its own node
		w.apply(&ast.DeclStmt{Decl: &ast.GenDecl{Tok: token.VAR, Specs: []ast.Spec{s}}}, st)
	case *ast.DeclStmt:
		if gd, ok := s.Decl.(*ast.GenDecl); ok {
			for _, sp := range gd.Specs {
				vs, ok := sp.(*ast.ValueSpec)
				if !ok {
					continue
				}
				for i, nm := range vs.Names {
					o := info.Defs[nm]
					if o == nil {
						continue
					}
					switch {
					case len(vs.Values) == len(vs.Names):
						st.Env[o] = w.Eval(vs.Values[i], st)
						if _, isStruct := o.Type().Underlying().(*types.Struct); isStruct && len(vs.Names) == 1 {
							w.setStruct(o, vs.Values[i], st)
						}
					case len(vs.Values) == 0:
						st.Env[o] = zeroOf(o.Type())
						if _, isStruct := o.Type().Underlying().(*types.Struct); isStruct {
							w.setStruct(o, &ast.CompositeLit{}, st)
						}
					default:
						st.Env[o] = SVal{Tok: fmt.Sprintf("decl%p#%d", vs, i), Src: vs}
					}
				}
			}
		}
	case *ast.RangeStmt:
		for _, l := range []ast.Expr{s.Key, s.Value} {
			if l != nil {
				set(l, SVal{Tok: fmt.Sprintf("range%p", l), Src: s})
			}
		}
	}
}

// linCmp normalises an integer comparison that involves exactly one variable
// (with coefficient +-1) to "value-of-variable op k": `n+1 < 0`, `0 > n+1` and
// `n < -1` are the same statement about n. v is what the variable holds.
func (w *Sym) linCmp(e ast.Expr, val bool, st *SState) (v SVal, op token.Token, k int64, ok bool) {
	info := w.G.Info
	cmp, isCmp := lin.CmpOf(info, e, val)
	if !isCmp || len(cmp.F.Coef) != 1 {
		return SVal{}, 0, 0, false
	}
	var key string
	var c int64
	for a, cc := range cmp.F.Coef {
		key, c = a, cc
	}
	if c != 1 && c != -1 {
		return SVal{}, 0, 0, false
	}
	var id *ast.Ident
	core.InspectAll(e, func(m ast.Node) bool {
		if x, isID := m.(*ast.Ident); isID && id == nil && lin.Key(info, x) == key {
			if _, isVar := core.ObjOf(info, x).(*types.Var); isVar {
				id = x
			}
		}
		return id == nil
	})
	if id == nil {
		return SVal{}, 0, 0, false
	}
	v = w.Eval(id, st)
	C := cmp.F.Const
	if c == 1 { // x + C op 0
		return v, cmp.Op, -C, true
	}
	// -x + C op 0
	switch cmp.Op {
	case token.EQL, token.NEQ:
		return v, cmp.Op, C, true
	case token.LSS:
		return v, token.GTR, C, true
	case token.LEQ:
		return v, token.GEQ, C, true
	}
	return SVal{}, 0, 0, false
}

func decide(lo, hi int64, op token.Token, c int64) (val, known bool) {
	switch op {
	case token.EQL:
		if lo == hi && lo == c {
			return true, true
		}
		if c < lo || c > hi {
			return false, true
		}
	case token.NEQ:
		if lo == hi && lo == c {
			return false, true
		}
		if c < lo || c > hi {
			return true, true
		}
	case token.LSS:
		if hi < c {
			return true, true
		}
		if lo >= c {
			return false, true
		}
	case token.LEQ:
		if hi <= c {
			return true, true
		}
		if lo > c {
			return false, true
		}
	case token.GTR:
		if lo > c {
			return true, true
		}
		if hi <= c {
			return false, true
		}
	case token.GEQ:
		if lo >= c {
			return true, true
		}
		if hi < c {
			return false, true
		}
	}
	return false, false
}

// factTruth evaluates a fact's expression under st (known == false: undecided).
func (w *Sym) factTruth(e ast.Expr, st *SState) (val, known bool) {
	info := w.G.Info
	e = ast.Unparen(e)
	switch x := e.(type) {
	case *ast.UnaryExpr:
		if x.Op == token.NOT {
			v, k := w.factTruth(x.X, st)
			return !v, k
		}
	case *ast.BinaryExpr:
		switch x.Op {
		case token.LAND:
			a, ka := w.factTruth(x.X, st)
			b, kb := w.factTruth(x.Y, st)
			if ka && !a || kb && !b {
				return false, true
			}
			return true, ka && kb
		case token.LOR:
			a, ka := w.factTruth(x.X, st)
			b, kb := w.factTruth(x.Y, st)
			if ka && a || kb && b {
				return true, true
			}
			return false, ka && kb
		case token.EQL, token.NEQ, token.LSS, token.LEQ, token.GTR, token.GEQ:
			if v, op, k, ok := w.linCmp(x, true, st); ok {
				switch {
				case v.Kind == SInt:
					return decide(v.K, v.K, op, k)
				case v.Tok != "":
					iv := st.IntervalOf(v.Tok)
					return decide(iv.Lo, iv.Hi, op, k)
				}
			}
			l, r := w.Eval(x.X, st), w.Eval(x.Y, st)
			op := x.Op
			if (r.Kind == SUnknown || r.Kind == SNonNil) && (l.Kind == SInt || l.Kind == SNil || l.Kind == SBool) {
				l, r, op = r, l, mirror[op]
			}
			switch {
			case r.Kind == SNil && (op == token.EQL || op == token.NEQ):
				if l.Kind == SNil || l.Kind == SNonNil {
					return (l.Kind == SNil) == (op == token.EQL), true
				}
			case r.Kind == SBool && l.Kind == SBool && (op == token.EQL || op == token.NEQ):
				return (l.B == r.B) == (op == token.EQL), true
			case r.Kind == SInt:
				lo, hi := int64(math.MinInt64), int64(math.MaxInt64)
				if l.Kind == SInt {
					lo, hi = l.K, l.K
				} else if l.Tok != "" {
					iv := st.IntervalOf(l.Tok)
					lo, hi = iv.Lo, iv.Hi
				} else {
					return false, false
				}
				c := r.K
				switch op {
				case token.EQL:
					if lo == hi && lo == c {
						return true, true
					}
					if c < lo || c > hi {
						return false, true
					}
				case token.NEQ:
					if lo == hi && lo == c {
						return false, true
					}
					if c < lo || c > hi {
						return true, true
					}
				case token.LSS:
					if hi < c {
						return true, true
					}
					if lo >= c {
						return false, true
					}
				case token.LEQ:
					if hi <= c {
						return true, true
					}
					if lo > c {
						return false, true
					}
				case token.GTR:
					if lo > c {
						return true, true
					}
					if hi <= c {
						return false, true
					}
				case token.GEQ:
					if lo >= c {
						return true, true
					}
					if hi < c {
						return false, true
					}
				}
			}
		}
	case *ast.Ident:
		if v := w.Eval(x, st); v.Kind == SBool {
			return v.B, true
		}
		if a, has := st.Asserts[core.ObjOf(info, x)]; has {
			if t, known := st.Type[a[0]]; known {
				return t == a[1], true
			}
			for _, n := range st.Not[a[0]] {
				if n == a[1] {
					return false, true
				}
			}
		}
	}
	return false, false
}

// assume refines st by "e is val"; it returns the resulting states (several
// when an interval is split by !=, none when the assumption is contradictory).
func (w *Sym) assume(e ast.Expr, val bool, st *SState) []*SState {
	if v, known := w.factTruth(e, st); known {
		if v != val {
			return nil
		}
		return []*SState{st}
	}
	info := w.G.Info
	e = ast.Unparen(e)
	setVar := func(x ast.Expr, v SVal) {
		if k, ok := w.fieldKey(x); ok {
			old := w.Eval(x, st)
			if v.Tok == "" {
				v.Tok, v.Src = old.Tok, old.Src
			}
			st.Env[k] = v
			if old.Tok != "" {
				for h, hv := range st.Env {
					if hv.Tok == old.Tok && h != k {
						st.Env[h] = v
					}
				}
			}
			return
		}
		if id, ok := ast.Unparen(x).(*ast.Ident); ok {
			if o := core.ObjOf(info, id); o != nil {
				old := st.Env[o]
				if v.Tok == "" {
					v.Tok, v.Src = old.Tok, old.Src
				}
				st.Env[o] = v
				// every holder of the same token learns the same thing
				if old.Tok != "" {
					for h, hv := range st.Env {
						if hv.Tok == old.Tok && h != o {
							nv := v
							st.Env[h] = nv
						}
					}
				}
			}
		}
	}
	switch x := e.(type) {
	case *ast.Ident:
		if a, has := st.Asserts[core.ObjOf(info, x)]; has {
			if val {
				st.Type[a[0]] = a[1]
			} else {
				st.Not[a[0]] = append(st.Not[a[0]], a[1])
			}
		}
		held := w.Eval(x, st)
		setVar(x, SVal{Kind: SBool, B: val})
		if held.Pred != nil {
			// the boolean was computed from a condition over variables that still hold what they held then
			same := true
			for o, was := range held.Snap {
				oid := ast.NewIdent(o.Name())
				info.Uses[oid] = o
				if w.Eval(oid, st).ident() != was {
					same = false
				}
			}
			if same {
				return w.assumeCond(held.Pred, val, st)
			}
			if w.Unlearned != nil {
				w.Unlearned(e, st) // what the boolean says about values that have changed since cannot be used
			}
		}
		return []*SState{st}
	case *ast.BinaryExpr:
		op := x.Op
		if !val {
			n, ok := negate[op]
			if !ok {
				return []*SState{st}
			}
			op = n
		}
		if v, lop, k, ok := w.linCmp(x, val, st); ok && v.Kind != SInt && v.Tok != "" {
			var out []*SState
			for _, iv := range refine(st.IntervalOf(v.Tok), lop, k) {
				c := st.clone()
				c.Iv[v.Tok] = iv
				out = append(out, c)
			}
			return out
		}
		l, r := w.Eval(x.X, st), w.Eval(x.Y, st)
		lx, rx := x.X, x.Y
		if r.Kind == SUnknown && (l.Kind == SInt || l.Kind == SNil) || r.Kind == SNonNil && l.Kind == SNil {
			l, r, lx, rx, op = r, l, rx, lx, mirror[op]
		}
		_ = rx
		switch {
		case r.Kind == SNil && (op == token.EQL || op == token.NEQ):
			k := SNonNil
			if op == token.EQL {
				k = SNil
			}
			setVar(lx, SVal{Kind: k})
		case r.Kind == SInt && l.Tok != "" && l.Kind != SInt:
			var out []*SState
			for _, iv := range refine(st.IntervalOf(l.Tok), op, r.K) {
				c := st.clone()
				c.Iv[l.Tok] = iv
				out = append(out, c)
			}
			return out
		default:
			if w.Unlearned != nil {
				w.Unlearned(e, st)
			}
		}
		return []*SState{st}
	}
	if w.Unlearned != nil {
		w.Unlearned(e, st)
	}
	return []*SState{st}
}

// assumeCond refines st by "the branch condition e is val", following the
// boolean structure of e: the states returned cover every way e can be val.
func (w *Sym) assumeCond(e ast.Expr, val bool, st *SState) []*SState {
	e = ast.Unparen(e)
	chain := func(first []*SState, y ast.Expr, yv bool) []*SState {
		var out []*SState
		for _, s := range first {
			out = append(out, w.assumeCond(y, yv, s)...)
		}
		return out
	}
	switch x := e.(type) {
	case *ast.UnaryExpr:
		if x.Op == token.NOT {
			return w.assumeCond(x.X, !val, st)
		}
	case *ast.BinaryExpr:
		if x.Op == token.LAND || x.Op == token.LOR {
			// `a && b` holds / `a || b` fails: both atoms are decided; otherwise the first decides, or the second does after it
			if (x.Op == token.LAND) == val {
				return chain(w.assumeCond(x.X, val, st), x.Y, val)
			}
			out := w.assumeCond(x.X, val, st.clone())
			return append(out, chain(w.assumeCond(x.X, !val, st.clone()), x.Y, val)...)
		}
	}
	out := w.assume(e, val, st)
	if w.OnFact != nil {
		for _, s := range out {
			w.OnFact(cfgq.Fact{Expr: e, Val: val}, s)
		}
	}
	return out
}

func (w *Sym) typeSwitchOf(cc *ast.CaseClause) *ast.TypeSwitchStmt {
	if w.tsw == nil {
		w.tsw = map[*ast.CaseClause]*ast.TypeSwitchStmt{}
		ast.Inspect(w.body(), func(n ast.Node) bool {
			if ts, ok := n.(*ast.TypeSwitchStmt); ok {
				for _, c := range ts.Body.List {
					w.tsw[c.(*ast.CaseClause)] = ts
				}
			}
			return true
		})
	}
	return w.tsw[cc]
}

// TypeSwitchOperand returns the expression whose dynamic type ts switches on.
func TypeSwitchOperand(ts *ast.TypeSwitchStmt) ast.Expr {
	var ta *ast.TypeAssertExpr
	switch a := ts.Assign.(type) {
	case *ast.AssignStmt:
		if len(a.Rhs) == 1 {
			ta, _ = ast.Unparen(a.Rhs[0]).(*ast.TypeAssertExpr)
		}
	case *ast.ExprStmt:
		ta, _ = ast.Unparen(a.X).(*ast.TypeAssertExpr)
	}
	if ta == nil {
		return nil
	}
	return ta.X
}

// typeEdge applies what a type-switch edge says; false = infeasible.
func (w *Sym) typeEdge(b *cfg.Block, succ int, st *SState) bool {
	if len(b.Succs) != 2 || b.Succs[0].Kind != cfg.KindSwitchCaseBody {
		return true
	}
	cc, _ := b.Succs[0].Stmt.(*ast.CaseClause)
	ts := w.typeSwitchOf(cc)
	if ts == nil || len(cc.List) != 1 {
		return true
	}
	opx := TypeSwitchOperand(ts)
	t := w.G.Info.TypeOf(cc.List[0])
	if opx == nil || t == nil {
		return true
	}
	// the value switched on is named by its token, so that copies of it (a helper's parameter) share what is learnt
	op := w.Eval(opx, st).Tok
	if op == "" {
		return true
	}
	name := types.TypeString(t, nil)
	if succ == 0 {
		if k, ok := st.Type[op]; ok && k != name {
			return false
		}
		for _, n := range st.Not[op] {
			if n == name {
				return false
			}
		}
		st.Type[op] = name
		return true
	}
	if k, ok := st.Type[op]; ok && k == name {
		return false
	}
	st.Not[op] = append(st.Not[op], name)
	return true
}

// body: the body of the function the walk started in.
func (w *Sym) body() *ast.BlockStmt {
	if w.root != nil {
		return w.root.Body
	}
	return w.G.Body
}

// tableOf: ix indexes a table - a local bound once to a map (or slice/array)
// literal with integer constant keys that is never written afterwards.
func (w *Sym) tableOf(ix *ast.IndexExpr) (keys []ast.Expr, vals []ast.Expr, ok bool) {
	info := w.G.Info
	id, isID := ast.Unparen(ix.X).(*ast.Ident)
	if !isID {
		return nil, nil, false
	}
	tv, isVar := core.ObjOf(info, id).(*types.Var)
	if !isVar || tv.IsField() {
		return nil, nil, false
	}
	if c, done := w.tables[tv]; done {
		return c.keys, c.vals, c.ok
	}
	if w.tables == nil {
		w.tables = map[*types.Var]tableInfo{}
	}
	res := tableInfo{}
	defer func() { w.tables[tv] = res }()
	lit, isLit := ast.Unparen(ValueOf(info, w.body(), id)).(*ast.CompositeLit)
	if !isLit || Assignments(info, w.body(), tv) != 1 {
		return nil, nil, false
	}
	switch info.TypeOf(lit).Underlying().(type) {
	case *types.Map:
	default:
		return nil, nil, false
	}
	written := false
	core.InspectAll(w.body(), func(n ast.Node) bool {
		switch x := n.(type) {
		case *ast.AssignStmt:
			for _, l := range x.Lhs {
				if lx, ok := ast.Unparen(l).(*ast.IndexExpr); ok && IsObj(info, tv)(lx.X) {
					written = true
				}
			}
		case *ast.CallExpr:
			for _, a := range x.Args {
				if IsObj(info, tv)(a) {
					written = true // delete(tbl, k), or handed to other code
				}
			}
		case *ast.UnaryExpr:
			if x.Op == token.AND && IsObj(info, tv)(x.X) {
				written = true
			}
		}
		return !written
	})
	if written {
		return nil, nil, false
	}
	for _, el := range lit.Elts {
		kv, keyed := el.(*ast.KeyValueExpr)
		if !keyed {
			return nil, nil, false
		}
		if _, isC := core.IntConst(info, kv.Key); !isC {
			return nil, nil, false
		}
		res.keys, res.vals = append(res.keys, kv.Key), append(res.vals, kv.Value)
	}
	res.ok = len(res.keys) > 0
	return res.keys, res.vals, res.ok
}

type tableInfo struct {
	keys, vals []ast.Expr
	ok         bool
}

// lookup evaluates a table lookup whose key is decided on this path.
func (w *Sym) lookup(ix *ast.IndexExpr, st *SState) (val ast.Expr, found, decided bool) {
	keys, vals, ok := w.tableOf(ix)
	if !ok {
		return nil, false, false
	}
	none := true
	for i, k := range keys {
		t, known := w.factTruth(&ast.BinaryExpr{X: ix.Index, Op: token.EQL, Y: k}, st)
		if known && t {
			return vals[i], true, true
		}
		if !known {
			none = false
		}
	}
	return nil, false, none
}

// forkLookup: node n looks a key up in a table and the path does not decide
// which entry it finds: one state per entry (the key refined to it) and one
// for "no entry".
func (w *Sym) forkLookup(n ast.Node, st *SState) []*SState {
	var ix *ast.IndexExpr
	core.Inspect(n, func(m ast.Node) bool {
		if x, ok := m.(*ast.IndexExpr); ok && ix == nil {
			if _, _, isTab := w.tableOf(x); isTab {
				if _, _, decided := w.lookup(x, st); !decided {
					ix = x
				}
			}
		}
		return ix == nil
	})
	if ix == nil {
		return nil
	}
	keys, _, _ := w.tableOf(ix)
	var out []*SState
	rest := []*SState{st.clone()}
	for _, k := range keys {
		eq := &ast.BinaryExpr{X: ix.Index, Op: token.EQL, Y: k}
		out = append(out, w.assume(eq, true, st.clone())...)
		var next []*SState
		for _, r := range rest {
			next = append(next, w.assume(eq, false, r)...)
		}
		rest = next
	}
	// progress is required: every state handed back must decide the lookup
	all := append(out, rest...)
	for _, s := range all {
		if _, _, decided := w.lookup(ix, s); !decided {
			return nil
		}
	}
	return all
}

// litCall: node n calls, through a local, a function literal that the state
// knows (`body := func() error {..}` assigned on this path; `body()`).
func (w *Sym) litCall(n ast.Node, st *SState) (*ast.FuncLit, *ast.CallExpr) {
	var lit *ast.FuncLit
	var at *ast.CallExpr
	many := false
	for _, call := range cfgq.ExecCalls(n) {
		// the callee: a function-typed local, or a function-typed field of a struct local
		var held SVal
		switch f := ast.Unparen(call.Fun).(type) {
		case *ast.Ident:
			v, isVar := core.ObjOf(w.G.Info, f).(*types.Var)
			if !isVar {
				continue
			}
			if _, isFunc := v.Type().Underlying().(*types.Signature); !isFunc {
				continue
			}
			held = st.Env[v]
		case *ast.SelectorExpr:
			k, isField := w.fieldKey(f)
			if !isField {
				if sl := w.G.Info.Selections[f]; sl != nil && sl.Kind() == types.FieldVal {
					if _, isFunc := sl.Type().Underlying().(*types.Signature); isFunc {
						w.UnknownCalls++ // a function held in a field the walk does not track
					}
				}
				continue
			}
			if _, isFunc := w.G.Info.TypeOf(f).Underlying().(*types.Signature); !isFunc {
				continue
			}
			held = st.Env[k]
		default:
			continue
		}
		l, isLit := held.Src.(*ast.FuncLit)
		if !isLit || !strings.HasPrefix(held.Tok, "lit") {
			w.UnknownCalls++
			continue
		}
		if lit != nil {
			many = true
		}
		lit, at = l, call
	}
	if many {
		w.UnknownCalls++
		return nil, nil
	}
	return lit, at
}

// Run walks all paths from the entry of the graph. A call, through a local,
// of a function literal known on the path (a closure chosen in a switch arm and
// called behind it; a step of a table) is entered: the literal's body is
// walked with the path's state and the walk resumes behind the call. Returns
// inside such a literal are presented to Visit as expression statements (their
// calls are executed, but they do not leave the function under analysis).
func (w *Sym) Run(init *SState) {
	if init == nil {
		init = newState()
	}
	seen := map[string]bool{}
	steps := 0
	top := w.G
	w.root = top
	defer func() { w.G = top }()
	// lcall: the call through which the literal being walked was entered (nil at the top)
	var walkIn func(g *cfgq.Graph, ctx string, lcall *ast.CallExpr, b *cfg.Block, from int, entered bool, st *SState, done func(*SState))
	var lcallOf = map[string]*ast.CallExpr{}
	var walk func(g *cfgq.Graph, ctx string, b *cfg.Block, from int, entered bool, st *SState, done func(*SState))
	walk = func(g *cfgq.Graph, ctx string, b *cfg.Block, from int, entered bool, st *SState, done func(*SState)) {
		walkIn(g, ctx, lcallOf[ctx], b, from, entered, st, done)
	}
	walkIn = func(g *cfgq.Graph, ctx string, lcall *ast.CallExpr, b *cfg.Block, from int, entered bool, st *SState, done func(*SState)) {
		w.G = g
		if from == 0 {
			k := fmt.Sprintf("%s|%d|%s", ctx, b.Index, st.key())
			if seen[k] {
				return
			}
			seen[k] = true
		}
		if steps++; steps > 20000 {
			w.Overflow = true
			return
		}
		for i := from; i < len(b.Nodes); i++ {
			n := b.Nodes[i]
			if !(entered && i == from) {
				if forks := w.forkLookup(n, st); len(forks) > 0 {
					for _, s := range forks {
						walk(g, ctx, b, i, false, s, done)
						w.G = g
					}
					return
				}
			}
			if !(entered && i == from) && strings.Count(ctx, ">") < 2 {
				if lit, call := w.litCall(n, st); lit != nil {
					lg := GraphOfLit(g.Prog, g.Info, lit)
					if lg != nil && g.Prog != nil && len(lg.CFG.Blocks) > 0 {
						// bind the parameters, walk the body, resume at this node
						k := 0
						for _, f := range lit.Type.Params.List {
							for _, nm := range f.Names {
								if o := g.Info.Defs[nm]; o != nil && k < len(call.Args) {
									st.Env[o] = w.Eval(call.Args[k], st)
								}
								k++
							}
							if len(f.Names) == 0 {
								k++
							}
						}
						bb, ii := b, i
						lcallOf[ctx+fmt.Sprintf("%p>", call)] = call
						delete(st.Rets, fmt.Sprintf("%p", call))
						walk(lg, ctx+fmt.Sprintf("%p>", call), lg.CFG.Blocks[0], 0, false, st, func(s2 *SState) {
							walk(g, ctx, bb, ii, true, s2, done)
						})
						w.G = g
						return
					}
				}
			}
			vn := n
			if done != nil {
				if ret, isRet := n.(*ast.ReturnStmt); isRet {
					// a return of the literal: its results are evaluated, the function under analysis goes on
					stop := false
					var vals []SVal
					for _, r := range ret.Results {
						if w.Visit != nil && w.Visit(&ast.ExprStmt{X: r}, st) {
							stop = true
						}
						vals = append(vals, w.Eval(r, st))
					}
					if stop {
						return
					}
					if lcall != nil {
						st.Rets[fmt.Sprintf("%p", lcall)] = vals
					}
					vn = nil
				}
			}
			if vn != nil {
				if w.Visit != nil && w.Visit(vn, st) {
					return
				}
				w.apply(vn, st)
			}
		}
		if len(b.Succs) == 0 {
			if done != nil {
				if cfgq.NormalExit(b, g.Exit(b)) {
					done(st)
					w.G = g
				}
				return
			}
			if w.Exit != nil {
				w.Exit(b, st)
			}
			return
		}
		for si, t := range b.Succs {
			states := []*SState{st.clone()}
			if !w.typeEdge(b, si, states[0]) {
				continue
			}
			if c := cfgq.CondOf(b); c != nil && len(b.Succs) == 2 {
				facts := EdgeFacts(g, b, si)
				if b.Succs[0].Kind != cfg.KindSwitchCaseBody {
					// the condition itself, structurally (go/cfg keeps `a || b` in one block): a disjunction
					// that holds forks into "a" and "!a, b"; what the atoms imply beyond themselves follows
					states = w.assumeCond(c, si == 0, states[0])
					facts = facts[len(cfgq.Facts(c, si == 0)):]
				}
				for _, f := range facts {
					var next []*SState
					for _, s := range states {
						for _, r := range w.assume(f.Expr, f.Val, s) {
							if w.OnFact != nil {
								w.OnFact(f, r)
							}
							next = append(next, r)
						}
					}
					states = next
				}
				// the whole condition, when decided, decides the edge
				kept := states[:0]
				for _, s := range states {
					if b.Succs[0].Kind != cfg.KindSwitchCaseBody {
						if v, known := w.factTruth(c, s); known && v != (si == 0) {
							continue
						}
					}
					kept = append(kept, s)
				}
				states = kept
			}
			for _, s := range states {
				if w.Prune != nil && w.Prune(s) {
					continue
				}
				walk(g, ctx, t, 0, false, s, done)
				w.G = g
			}
		}
	}
	walk(top, "", top.CFG.Blocks[0], 0, false, init, nil)
}

// Results returns the values a return statement yields on this path; a single
// call of a function literal that the walk entered stands for what it returned.
func (w *Sym) Results(ret *ast.ReturnStmt, st *SState) []SVal {
	if len(ret.Results) == 1 {
		if call, ok := ast.Unparen(ret.Results[0]).(*ast.CallExpr); ok {
			if rs, has := st.Rets[fmt.Sprintf("%p", call)]; has {
				return rs
			}
		}
	}
	out := make([]SVal, len(ret.Results))
	for i, r := range ret.Results {
		out[i] = w.Eval(r, st)
	}
	return out
}

// NewState returns an empty state (for callers that seed parameters).
func NewState() *SState { return newState() }
