package flow

import (
	"go/ast"
	"go/token"
	"go/types"

	"golang.org/x/tools/go/cfg"

	"rscheck/cfgq"
	"rscheck/core"
	"rscheck/lin"
)

// Verdict of a guard query.
type Verdict int

const (
	Holds    Verdict = iota // every path to the site establishes the wanted fact
	Violated                // some path reaches the site through tests that are all understood and none of which establishes it
	Unknown                 // every unguarded path crosses a test on the tracked values that is not understood
)

// EdgeTest classifies a fact met on the edge that leaves block b.
type EdgeTest func(b *cfg.Block, f cfgq.Fact) bool

// Guard decides whether target is reachable only through edges that establish
// a fact accepted by want. A VIOLATION must be provable: the witness path may
// only cross tests that the rule understands (and that do not establish the
// fact). If every unguarded path crosses a test accepted by opaque - one that
// involves the tracked values in a form the rule cannot interpret - the
// answer is Unknown.
func Guard(g *cfgq.Graph, target cfgq.Point, want func(cfgq.Fact) bool, opaque EdgeTest) (Verdict, []string) {
	if ok, _ := OnlyVia(g, target, want); ok {
		return Holds, nil
	}
	tn := target.Node()
	w := g.Path(cfgq.Query{From: g.Entry(), Target: func(n ast.Node) bool { return n == tn },
		AvoidEdge: func(b *cfg.Block, s int) bool {
			for _, f := range EdgeFacts(g, b, s) {
				if want(f) || opaque != nil && opaque(b, f) {
					return true
				}
			}
			return false
		}})
	if w != nil {
		return Violated, w
	}
	return Unknown, nil
}

// Opaque builds the opacity test of a guard: a fact is opaque when the rule
// does not understand it and it involves one of the tracked objects - directly,
// or through a local whose definition reaching the test is computed from a
// tracked object by code the rule cannot see into (`err := d.check(b)`,
// a function value), or because it tests a boolean local that is assigned in
// several places (a flag). Results of library calls (`_, err := io.ReadFull(r, b)`)
// say nothing about the content the rule tracks and are not opaque.
func Opaque(g *cfgq.Graph, understood func(cfgq.Fact) bool, objs ...types.Object) EdgeTest {
	info := g.Info
	direct := func(n ast.Node) bool {
		for _, o := range objs {
			if o != nil && core.Mentions(info, n, o) {
				return true
			}
		}
		return false
	}
	// derived: rhs computes something from a tracked object through module code
	derived := func(rhs ast.Expr) bool {
		if !direct(rhs) {
			return false
		}
		lib, calls := true, 0
		core.InspectAll(rhs, func(m ast.Node) bool {
			if c, isCall := m.(*ast.CallExpr); isCall {
				if tv, isConv := info.Types[c.Fun]; !isConv || !tv.IsType() {
					calls++
				}
			}
			if _, isLit := m.(*ast.FuncLit); isLit {
				lib = false // a closure over the tracked value: what it tests is not visible here
			}
			call, ok := m.(*ast.CallExpr)
			if !ok {
				return true
			}
			if tv, isConv := info.Types[call.Fun]; isConv && tv.IsType() {
				return true
			}
			switch o := core.Callee(info, call).(type) {
			case *types.Builtin:
			case *types.Func:
				if o.Pkg() != nil && (o.Pkg().Path() == core.Module || len(o.Pkg().Path()) > len(core.Module) && o.Pkg().Path()[:len(core.Module)+1] == core.Module+"/") {
					lib = false
				}
			default:
				lib = false
			}
			return true
		})
		// a view of the tracked value (a slice, an element, a conversion of it) carries its content
		view := false
		if calls == 0 {
			e := ast.Unparen(rhs)
			for {
				if c, ok := e.(*ast.CallExpr); ok && len(c.Args) == 1 {
					if tv, isConv := info.Types[c.Fun]; isConv && tv.IsType() {
						e = ast.Unparen(c.Args[0])
						continue
					}
				}
				break
			}
			switch e.(type) {
			case *ast.SliceExpr, *ast.IndexExpr, *ast.Ident, *ast.StarExpr:
				view = true
			}
		}
		return !lib || view
	}
	return func(b *cfg.Block, f cfgq.Fact) bool {
		if understood != nil && understood(f) {
			return false
		}
		if direct(f.Expr) {
			return true
		}
		hit := false
		core.InspectAll(f.Expr, func(m ast.Node) bool {
			id, ok := m.(*ast.Ident)
			if !ok || hit {
				return !hit
			}
			v, isVar := info.Uses[id].(*types.Var)
			if !isVar || v.IsField() || v.Pkg() == nil || v.Parent() == v.Pkg().Scope() {
				return true
			}
			defs := reachingDefs(g, v, b)
			for _, rhs := range defs {
				if derived(rhs) {
					hit = true
				}
			}
			if bt, ok := v.Type().Underlying().(*types.Basic); ok && bt.Info()&types.IsBoolean != 0 && len(defs) > 1 {
				hit = true // a flag
			}
			return !hit
		})
		return hit
	}
}

// reachingDefs lists the right-hand sides of the assignments to v whose value
// can reach the condition that ends block b.
func reachingDefs(g *cfgq.Graph, v types.Object, b *cfg.Block) []ast.Expr {
	if len(b.Nodes) == 0 {
		return nil
	}
	info := g.Info
	cond := b.Nodes[len(b.Nodes)-1]
	isDef := func(n ast.Node) bool {
		as, ok := n.(*ast.AssignStmt)
		if !ok {
			return false
		}
		for _, l := range as.Lhs {
			if IsObj(info, v)(l) {
				return true
			}
		}
		return false
	}
	var out []ast.Expr
	for _, p := range g.Points(isDef) {
		if g.Path(cfgq.Query{From: p, After: true, Avoid: isDef, Target: func(m ast.Node) bool { return m == cond }}) == nil {
			continue
		}
		as := p.Node().(*ast.AssignStmt)
		for i, l := range as.Lhs {
			if IsObj(info, v)(l) {
				if len(as.Lhs) == len(as.Rhs) {
					out = append(out, as.Rhs[i])
				} else {
					out = append(out, as.Rhs[0])
				}
			}
		}
	}
	return out
}

// LinIs reports that fact f says "x op k" over the integers for the linear
// form x, whatever the spelling (operands swapped, constant moved across,
// `<` against `<=`, locals standing for their definitions).
func LinIs(info *types.Info, f cfgq.Fact, x lin.Form, op token.Token, k int64) bool {
	c, ok := lin.CmpOf(info, f.Expr, f.Val)
	if !ok {
		return false
	}
	w := lin.Form{Coef: x.Coef, Const: x.Const - k}
	switch op {
	case token.EQL, token.NEQ, token.LSS, token.LEQ:
		return c.Is(w, op)
	case token.GTR:
		return c.Is(w.Neg(), token.LSS)
	case token.GEQ:
		return c.Is(w.Neg(), token.LEQ)
	}
	return false
}

// LinAbout reports that f is an integer comparison between the form x (up to
// sign) and a constant: the rule understands it even when it is not the
// comparison it is looking for.
func LinAbout(info *types.Info, f cfgq.Fact, x lin.Form) bool {
	c, ok := lin.CmpOf(info, f.Expr, f.Val)
	if !ok || len(c.F.Coef) == 0 {
		return false
	}
	plain := lin.Form{Coef: c.F.Coef}
	return plain.Equal(lin.Form{Coef: x.Coef}) || plain.Equal(lin.Form{Coef: x.Coef}.Neg())
}

// Bound extracts from f a constant bound on the single-atom form x: x >= lo
// (isLower) or x <= hi. ok is false when f is not such a bound.
func Bound(info *types.Info, f cfgq.Fact, x lin.Form) (k int64, isLower, ok bool) {
	c, cok := lin.CmpOf(info, f.Expr, f.Val)
	if !cok || len(c.F.Coef) == 0 {
		return 0, false, false
	}
	// c: F op 0 with op in {<, <=, ==, !=}
	plain := lin.Form{Coef: c.F.Coef}
	xs := lin.Form{Coef: x.Coef}
	switch {
	case plain.Equal(xs): // x + (cF - cx) op 0  =>  x op cx - cF ... in terms of the form x (including its constant)
		d := x.Const - c.F.Const // F = x - d
		switch c.Op {
		case token.LSS:
			return d - 1, false, true
		case token.LEQ:
			return d, false, true
		}
	case plain.Equal(xs.Neg()): // F = -x + d'  with d' = c.F.Const + x.Const ; -x + d' op 0 => x >= d' (<=) or x > d' (<)
		d := c.F.Const + x.Const
		switch c.Op {
		case token.LSS:
			return d + 1, true, true
		case token.LEQ:
			return d, true, true
		}
	}
	return 0, false, false
}
