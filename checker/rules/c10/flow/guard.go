package flow

import (
	"go/ast"
	"go/token"
	"go/types"

	"rscheck/cfgq"
	"rscheck/core"
	"rscheck/lin"
)

// Verdict of a guard query.
type Verdict int

const (
	Holds    Verdict = iota // every path to the site establishes the wanted fact
	Violated                // some path reaches the site through tests that are all understood and none of which establishes it
	Unknown                 // every unguarded path crosses a test on the tracked values that is not understood
)

// Guard decides whether target is reachable only through edges that establish
// a fact accepted by want. A VIOLATION must be provable: the witness path may
// only cross tests that the rule understands (and that do not establish the
// fact). If every unguarded path crosses a test accepted by opaque - one that
// involves the tracked values in a form the rule cannot interpret - the
// answer is Unknown.
func Guard(g *cfgq.Graph, target cfgq.Point, want, opaque func(cfgq.Fact) bool) (Verdict, []string) {
	if ok, _ := OnlyVia(g, target, want); ok {
		return Holds, nil
	}
	tn := target.Node()
	w := g.Path(cfgq.Query{From: g.Entry(), Target: func(n ast.Node) bool { return n == tn },
		AvoidEdge: Establishes(g, func(f cfgq.Fact) bool { return want(f) || opaque(f) })})
	if w != nil {
		return Violated, w
	}
	return Unknown, nil
}

// Opaque builds the opacity test of a guard: a fact is opaque when the rule
// does not understand it and it involves one of the tracked objects - directly,
// through a local one of whose definitions mentions a tracked object
// (`err := check(b)`, `valid := b[n] == x`), or because it tests a boolean /
// error local that is assigned in several places (a flag).
func Opaque(g *cfgq.Graph, understood func(cfgq.Fact) bool, objs ...types.Object) func(cfgq.Fact) bool {
	info := g.Info
	direct := func(n ast.Node) bool {
		for _, o := range objs {
			if o != nil && core.Mentions(info, n, o) {
				return true
			}
		}
		return false
	}
	return func(f cfgq.Fact) bool {
		if understood != nil && understood(f) {
			return false
		}
		if direct(f.Expr) {
			return true
		}
		hit := false
		core.InspectAll(f.Expr, func(m ast.Node) bool {
			id, ok := m.(*ast.Ident)
			if !ok || hit {
				return !hit
			}
			v, isVar := info.Uses[id].(*types.Var)
			if !isVar || v.IsField() || v.Pkg() == nil || v.Parent() == v.Pkg().Scope() {
				return true
			}
			defs, n := 0, 0
			core.InspectAll(g.Body, func(x ast.Node) bool {
				as, ok := x.(*ast.AssignStmt)
				if !ok {
					return true
				}
				for i, l := range as.Lhs {
					if !IsObj(info, v)(l) {
						continue
					}
					n++
					rhs := as.Rhs[0]
					if len(as.Lhs) == len(as.Rhs) {
						rhs = as.Rhs[i]
					}
					if direct(rhs) {
						defs++
					}
				}
				return true
			})
			if defs > 0 {
				hit = true // defined from a tracked value
			}
			if n > 1 {
				if b, ok := v.Type().Underlying().(*types.Basic); ok && b.Info()&types.IsBoolean != 0 {
					hit = true // a flag
				}
			}
			return !hit
		})
		return hit
	}
}

// LinIs reports that fact f says "x op k" over the integers for the linear
// form x, whatever the spelling (operands swapped, constant moved across,
// `<` against `<=`, locals standing for their definitions).
func LinIs(info *types.Info, f cfgq.Fact, x lin.Form, op token.Token, k int64) bool {
	c, ok := lin.CmpOf(info, f.Expr, f.Val)
	if !ok {
		return false
	}
	w := lin.Form{Coef: x.Coef, Const: x.Const - k}
	switch op {
	case token.EQL, token.NEQ, token.LSS, token.LEQ:
		return c.Is(w, op)
	case token.GTR:
		return c.Is(w.Neg(), token.LSS)
	case token.GEQ:
		return c.Is(w.Neg(), token.LEQ)
	}
	return false
}

// LinAbout reports that f is an integer comparison between the form x (up to
// sign) and a constant: the rule understands it even when it is not the
// comparison it is looking for.
func LinAbout(info *types.Info, f cfgq.Fact, x lin.Form) bool {
	c, ok := lin.CmpOf(info, f.Expr, f.Val)
	if !ok || len(c.F.Coef) == 0 {
		return false
	}
	plain := lin.Form{Coef: c.F.Coef}
	return plain.Equal(lin.Form{Coef: x.Coef}) || plain.Equal(lin.Form{Coef: x.Coef}.Neg())
}

// Bound extracts from f a constant bound on the single-atom form x: x >= lo
// (isLower) or x <= hi. ok is false when f is not such a bound.
func Bound(info *types.Info, f cfgq.Fact, x lin.Form) (k int64, isLower, ok bool) {
	c, cok := lin.CmpOf(info, f.Expr, f.Val)
	if !cok || len(c.F.Coef) == 0 {
		return 0, false, false
	}
	// c: F op 0 with op in {<, <=, ==, !=}
	plain := lin.Form{Coef: c.F.Coef}
	xs := lin.Form{Coef: x.Coef}
	switch {
	case plain.Equal(xs): // x + (cF - cx) op 0  =>  x op cx - cF ... in terms of the form x (including its constant)
		d := x.Const - c.F.Const // F = x - d
		switch c.Op {
		case token.LSS:
			return d - 1, false, true
		case token.LEQ:
			return d, false, true
		}
	case plain.Equal(xs.Neg()): // F = -x + d'  with d' = c.F.Const + x.Const ; -x + d' op 0 => x >= d' (<=) or x > d' (<)
		d := c.F.Const + x.Const
		switch c.Op {
		case token.LSS:
			return d + 1, true, true
		case token.LEQ:
			return d, true, true
		}
	}
	return 0, false, false
}
