package flow

import (
	"go/ast"
	"go/token"
	"go/types"

	"rscheck/core"
)

// Re-threading of expanded helpers. The loader (core.inlineNewHelpers) expands
// calls of functions that are new relative to the baseline into
//
//	var r0 T0; var r1 T1
//	{ <argument copies>; L: for { <body, `return e0, e1` => `r0, r1 = e0, e1; break L`>; break L } }
//	x, y := r0, r1        (or `return r0, r1`, or a test of r0)
//
// which is faithful but hides, from a path-insensitive graph, which return of
// the helper leads to which arm of the caller's test. This pass works on the
// structure alone (result variables declared without a value, assigned only
// inside the block that follows, each time right before leaving its one-shot
// loop, and read right after the block):
//
//   - a result variable assigned once, from a local of the block, IS that local;
//     so is the variable it is then copied into (`header := r0`);
//   - `return r0, r1` after the block: every `r0, r1 = e0, e1; break L` becomes
//     `return e0, e1` again;
//   - results that are then tested (`x, err := r0, r1; if err != nil {..}`,
//     a switch over the result): at each assignment site the constants being
//     assigned decide the test, and the `break` becomes a jump into that arm.
func rethread(in *Inliner, info *types.Info, body *ast.BlockStmt) {
	aliasSingleAssign(info, body)
	for changed, guard := true, 0; changed && guard < 8; guard++ {
		changed = false
		ast.Inspect(body, func(n ast.Node) bool {
			var list *[]ast.Stmt
			switch x := n.(type) {
			case *ast.BlockStmt:
				list = &x.List
			case *ast.CaseClause:
				list = &x.Body
			case *ast.CommClause:
				list = &x.Body
			}
			if list != nil && !changed {
				changed = rethreadList(in, info, body, list)
			}
			return !changed
		})
	}
}

// oneShot returns the label of the `L: for { ...; break L }` inside block b.
func oneShot(b *ast.BlockStmt) string {
	for _, s := range b.List {
		if ls, ok := s.(*ast.LabeledStmt); ok {
			if fs, ok := ls.Stmt.(*ast.ForStmt); ok && fs.Cond == nil && fs.Init == nil && fs.Post == nil {
				return ls.Label.Name
			}
		}
	}
	return ""
}

type resultSite struct {
	list *[]ast.Stmt
	i    int // index of the assignment; the break follows at i+1
	as   *ast.AssignStmt
}

func rethreadList(in *Inliner, info *types.Info, body *ast.BlockStmt, list *[]ast.Stmt) bool {
	l := *list
	for j, s := range l {
		blk, ok := s.(*ast.BlockStmt)
		if !ok || j+1 >= len(l) {
			continue
		}
		label := oneShot(blk)
		if label == "" {
			continue
		}
		// result variables: declared without a value before the block, assigned only inside it
		temps := map[types.Object]bool{}
		for _, d := range l[:j] {
			ds, ok := d.(*ast.DeclStmt)
			if !ok {
				continue
			}
			gd, _ := ds.Decl.(*ast.GenDecl)
			if gd == nil || gd.Tok != token.VAR {
				continue
			}
			for _, sp := range gd.Specs {
				if vs, ok := sp.(*ast.ValueSpec); ok && len(vs.Values) == 0 {
					for _, nm := range vs.Names {
						if o := info.Defs[nm]; o != nil && Assignments(info, body, o) == Assignments(info, blk, o) && Assignments(info, blk, o) > 0 {
							temps[o] = true
						}
					}
				}
			}
		}
		if len(temps) == 0 {
			continue
		}
		// the sites `r.. = e..; break L`
		var sites []resultSite
		clean := true
		var scan func(lst *[]ast.Stmt)
		visit := func(n ast.Node) bool {
			switch x := n.(type) {
			case *ast.FuncLit:
				return false
			case *ast.BlockStmt:
				scan(&x.List)
			case *ast.CaseClause:
				scan(&x.Body)
			case *ast.CommClause:
				scan(&x.Body)
			}
			return true
		}
		scan = func(lst *[]ast.Stmt) {
			for i, st := range *lst {
				as, ok := st.(*ast.AssignStmt)
				if !ok {
					continue
				}
				hit := false
				for _, lh := range as.Lhs {
					if temps[Obj(info, lh)] {
						hit = true
					}
				}
				if !hit {
					continue
				}
				br, _ := next(*lst, i).(*ast.BranchStmt)
				if as.Tok != token.ASSIGN || len(as.Lhs) != len(as.Rhs) && len(as.Rhs) != 1 || br == nil || br.Tok != token.BREAK || br.Label == nil || br.Label.Name != label {
					clean = false
					continue
				}
				sites = append(sites, resultSite{lst, i, as})
			}
		}
		ast.Inspect(blk, visit)
		if !clean || len(sites) == 0 {
			continue
		}
		after := l[j+1]
		// (1) a single site assigning locals of the block: the results are those locals
		if len(sites) == 1 && len(sites[0].as.Lhs) == len(sites[0].as.Rhs) {
			all := true
			for _, r := range sites[0].as.Rhs {
				if o := Obj(info, r); o == nil || !DefinedIn(info, blk, o) {
					all = false
				}
			}
			if all {
				for k, lh := range sites[0].as.Lhs {
					renameUses(info, body, Obj(info, lh), sites[0].as.Rhs[k].(*ast.Ident))
				}
				(*sites[0].list)[sites[0].i] = &ast.EmptyStmt{Semicolon: sites[0].as.Pos(), Implicit: true}
				// x := r0 is now x := local: x is that local as well when it is assigned nowhere else
				if c, ok := after.(*ast.AssignStmt); ok && c.Tok == token.DEFINE && len(c.Lhs) == len(c.Rhs) {
					whole := true
					for k := range c.Lhs {
						lo, ro := Obj(info, c.Lhs[k]), Obj(info, c.Rhs[k])
						if id, isID := c.Lhs[k].(*ast.Ident); !isID || id.Name != "_" && (lo == nil || ro == nil || Assignments(info, body, lo) != 1) {
							whole = false
						}
					}
					if whole {
						for k := range c.Lhs {
							if id := c.Lhs[k].(*ast.Ident); id.Name != "_" {
								renameUses(info, body, info.Defs[id], c.Rhs[k].(*ast.Ident))
							}
						}
						l[j+1] = &ast.EmptyStmt{Semicolon: c.Pos(), Implicit: true}
					}
				}
				return true
			}
		}
		// (2) `return r0, r1` after the block
		if ret, ok := after.(*ast.ReturnStmt); ok && len(ret.Results) > 0 {
			order, okAll := tempOrder(info, ret.Results, temps)
			if okAll && sameTargets(info, sites, order) {
				for _, st := range sites {
					(*st.list)[st.i] = &ast.ReturnStmt{Return: st.as.Pos(), Results: st.as.Rhs}
				}
				return true
			}
		}
		// (3) results copied (or not) and then tested
		var copyStmt *ast.AssignStmt
		var test ast.Stmt
		var vars []types.Object // the variables the test sees, in result order
		var order []types.Object
		if c, ok := after.(*ast.AssignStmt); ok && len(c.Lhs) == len(c.Rhs) && (c.Tok == token.DEFINE || c.Tok == token.ASSIGN) {
			if ord, okAll := tempOrder(info, c.Rhs, temps); okAll && j+2 < len(l) {
				copyStmt, order, test = c, ord, l[j+2]
				for _, lh := range c.Lhs {
					vars = append(vars, Obj(info, lh))
				}
			}
		} else {
			test = after
			for o := range temps {
				order = append(order, o)
			}
			if len(order) == 1 {
				vars = order
			}
		}
		switch t := test.(type) {
		case *ast.IfStmt:
			if t.Init != nil {
				test = nil
			}
		case *ast.SwitchStmt:
			if t.Init != nil {
				test = nil
			}
		default:
			test = nil
		}
		if test == nil || len(vars) != len(order) || !sameTargets(info, sites, order) {
			continue
		}
		if _, done := in.threaded[test]; done {
			continue
		}
		in.threaded[test] = true
		cl := &cloner{in: in, info: info}
		th := &threader{cl: cl, orig: test, copy: test, after: in.label("after"), labels: map[*ast.Stmt]string{}}
		progress := false
		for _, st := range sites {
			if len(st.as.Lhs) != len(st.as.Rhs) {
				continue // `r0, r1 = f()`: nothing is known about the values
			}
			env := kenv{}
			for k, r := range st.as.Rhs {
				o := vars[k]
				if o == nil {
					continue
				}
				resultKnowledge(info, body, st.as, o, r, env)
			}
			target := th.target(env)
			if target == "" {
				continue
			}
			progress = true
			repl := []ast.Stmt{st.as}
			if copyStmt != nil {
				cp := *copyStmt
				cp.Tok = token.ASSIGN
				repl = append(repl, &cp)
			}
			repl = append(repl, &ast.BranchStmt{TokPos: st.as.Pos(), Tok: token.GOTO, Label: ast.NewIdent(target)})
			(*st.list)[st.i] = &ast.BlockStmt{Lbrace: st.as.Pos(), List: repl, Rbrace: st.as.End()}
		}
		if th.used {
			at := j + 2
			if copyStmt != nil {
				at = j + 3
			}
			nl := append([]ast.Stmt{}, l[:at]...)
			nl = append(nl, &ast.LabeledStmt{Label: ast.NewIdent(th.after), Colon: test.End(), Stmt: &ast.EmptyStmt{Semicolon: test.End(), Implicit: true}})
			nl = append(nl, l[at:]...)
			*list = nl
		}
		if progress {
			return true
		}
	}
	return false
}

func next(l []ast.Stmt, i int) ast.Stmt {
	if i+1 < len(l) {
		return l[i+1]
	}
	return nil
}

// tempOrder maps expressions that are all result variables to their objects.
func tempOrder(info *types.Info, es []ast.Expr, temps map[types.Object]bool) ([]types.Object, bool) {
	var out []types.Object
	for _, e := range es {
		o := Obj(info, e)
		if o == nil || !temps[o] {
			return nil, false
		}
		out = append(out, o)
	}
	return out, true
}

// sameTargets: every site assigns exactly the result variables, in this order.
func sameTargets(info *types.Info, sites []resultSite, order []types.Object) bool {
	for _, st := range sites {
		if len(st.as.Lhs) != len(order) {
			return false
		}
		for k, lh := range st.as.Lhs {
			if Obj(info, lh) != order[k] {
				return false
			}
		}
	}
	return true
}

// renameUses makes every identifier that denotes from denote the object of to.
func renameUses(info *types.Info, root ast.Node, from types.Object, to *ast.Ident) {
	if from == nil {
		return
	}
	target := core.ObjOf(info, to)
	ast.Inspect(root, func(n ast.Node) bool {
		if id, ok := n.(*ast.Ident); ok && (info.Uses[id] == from || info.Defs[id] == from) && id != to {
			id.Name = to.Name
			delete(info.Defs, id)
			info.Uses[id] = target
		}
		return true
	})
}

// classify: what is statically known about the value of expression r assigned at statement at.
func classify(info *types.Info, body ast.Node, at ast.Node, r ast.Expr) (known, bool) {
	switch {
	case core.IsNil(info, r):
		return known{kind: 1}, true
	case nonNilErr(info, body, at, r):
		return known{kind: 2}, true
	}
	if tv, ok := info.Types[r]; ok && tv.Value != nil {
		if kk, isInt := core.IntConst(info, r); isInt {
			return known{kind: 4, k: kk}, true
		}
		if sv := tv.Value.String(); sv == "true" || sv == "false" {
			return known{kind: 3, b: sv == "true"}, true
		}
	}
	return known{}, false
}

// resultKnowledge records in env what is statically known about the value r
// that a return site gives to variable o - for a struct value, about each field.
func resultKnowledge(info *types.Info, body ast.Node, at ast.Node, o types.Object, r ast.Expr, env kenv) {
	if kv, ok := classify(info, body, at, r); ok {
		env[o] = kv
	}
	lit := ast.Unparen(r)
	if u, isAddr := lit.(*ast.UnaryExpr); isAddr && u.Op == token.AND {
		lit = ast.Unparen(u.X)
	}
	cl, isLit := lit.(*ast.CompositeLit)
	if !isLit {
		return
	}
	stt, isStruct := info.TypeOf(cl).Underlying().(*types.Struct)
	if !isStruct {
		return
	}
	given := map[string]ast.Expr{}
	for i, el := range cl.Elts {
		if kv, keyed := el.(*ast.KeyValueExpr); keyed {
			if id, ok := kv.Key.(*ast.Ident); ok {
				given[id.Name] = kv.Value
			}
		} else if i < stt.NumFields() {
			given[stt.Field(i).Name()] = el
		}
	}
	for i := 0; i < stt.NumFields(); i++ {
		f := stt.Field(i)
		if e, has := given[f.Name()]; has {
			if kv, ok := classify(info, body, at, e); ok {
				env[fieldOf(o, f.Name())] = kv
			}
			continue
		}
		switch u := f.Type().Underlying().(type) {
		case *types.Basic:
			if u.Info()&types.IsBoolean != 0 {
				env[fieldOf(o, f.Name())] = known{kind: 3}
			} else if u.Info()&types.IsInteger != 0 {
				env[fieldOf(o, f.Name())] = known{kind: 4}
			}
		case *types.Pointer, *types.Slice, *types.Map, *types.Chan, *types.Interface, *types.Signature:
			env[fieldOf(o, f.Name())] = known{kind: 1}
		}
	}
}

// aliasSingleAssign: a variable declared without a value and assigned exactly
// once, from a local that is itself defined exactly once (`var b []byte; ...;
// b = buf`), is that local from there on; its uses are renamed and the
// assignment dropped. This is what an out-parameter or a result variable of an
// expanded helper looks like in the caller.
func aliasSingleAssign(info *types.Info, body *ast.BlockStmt) {
	declared := map[types.Object]bool{}
	ast.Inspect(body, func(n ast.Node) bool {
		if vs, ok := n.(*ast.ValueSpec); ok && len(vs.Values) == 0 {
			for _, nm := range vs.Names {
				if o := info.Defs[nm]; o != nil {
					declared[o] = true
				}
			}
		}
		return true
	})
	var visit func(list *[]ast.Stmt)
	visit = func(list *[]ast.Stmt) {
		for i, s := range *list {
			as, ok := s.(*ast.AssignStmt)
			if !ok || as.Tok != token.ASSIGN || len(as.Lhs) != 1 || len(as.Rhs) != 1 {
				continue
			}
			x, y := Obj(info, as.Lhs[0]), Obj(info, as.Rhs[0])
			yid, isID := ast.Unparen(as.Rhs[0]).(*ast.Ident)
			if x == nil || y == nil || !isID || !declared[x] || Assignments(info, body, x) != 1 || Assignments(info, body, y) != 1 || !DefinedIn(info, body, y) {
				continue
			}
			renameUses(info, body, x, yid)
			(*list)[i] = &ast.EmptyStmt{Semicolon: as.Pos(), Implicit: true}
		}
	}
	ast.Inspect(body, func(n ast.Node) bool {
		switch x := n.(type) {
		case *ast.FuncLit:
			return false
		case *ast.BlockStmt:
			visit(&x.List)
		case *ast.CaseClause:
			visit(&x.Body)
		case *ast.CommClause:
			visit(&x.Body)
		}
		return true
	})
}
