// Package flow holds the path helpers shared by the C10 and C05 rule sets:
// branch facts that also understand switch statements, comparison atoms
// normalised against a tracked expression, an interval walk over the CFG,
// error-exit classification and ordered-sequence checks.
package flow

import (
	"fmt"
	"go/ast"
	"go/token"
	"go/types"
	"math"
	"sort"
	"strings"

	"golang.org/x/tools/go/cfg"

	"rscheck/cfgq"
	"rscheck/core"
)

// ---------------------------------------------------------------------------
// edge facts (if / for conditions, tagless and tagged switch cases)

// EdgeFacts returns the atoms known to hold when block b is left through
// successor succ. Unlike cfgq.EdgeEstablishes it understands switch
// statements: `switch { case c: }` contributes c, `switch t { case k: }`
// contributes the synthetic comparison t == k, so that an if-chain and the
// equivalent switch give the same verdict.
func EdgeFacts(g *cfgq.Graph, b *cfg.Block, succ int) []cfgq.Fact {
	c := cfgq.CondOf(b)
	if c == nil {
		return nil
	}
	val := succ == 0
	if b.Succs[0].Kind == cfg.KindSwitchCaseBody {
		cc, _ := b.Succs[0].Stmt.(*ast.CaseClause)
		sw := enclosingSwitch(g.Body, cc)
		if sw == nil {
			return nil
		}
		if sw.Tag == nil {
			return cfgq.Facts(c, val)
		}
		return []cfgq.Fact{{Expr: &ast.BinaryExpr{X: sw.Tag, Op: token.EQL, Y: c}, Val: val}}
	}
	fs := expandFacts(g, cfgq.Facts(c, val))
	if g.Prog != nil {
		// cfgq adds the facts implied by the result of a same-package predicate helper
		base := len(cfgq.Facts(c, val))
		if all := g.EdgeFacts(b, succ); len(all) > base {
			fs = append(fs, all[base:]...)
		}
	}
	return fs
}

// expandFacts adds what a fact implies through one level of indirection: a
// boolean local with a single definition stands for that definition
// (`valid := a && b; if !valid {..}`), and the result of a same-package
// predicate helper implies the facts that hold on all of its paths with that
// result (cfgq.EdgeFacts).
func expandFacts(g *cfgq.Graph, fs []cfgq.Fact) []cfgq.Fact {
	out := fs
	for depth := 0; depth < 2; depth++ {
		var more []cfgq.Fact
		for _, f := range fs {
			switch x := ast.Unparen(f.Expr).(type) {
			case *ast.Ident:
				if d := ValueOf(g.Info, g.Body, x); d != ast.Expr(x) {
					more = append(more, cfgq.Facts(d, f.Val)...)
				}
			case *ast.CallExpr:
				// a parameterless predicate closure bound to a local: `bad := func() bool { return c }; if bad() {..}`
				if id, ok := ast.Unparen(x.Fun).(*ast.Ident); ok && len(x.Args) == 0 {
					if lit, ok := ast.Unparen(ValueOf(g.Info, g.Body, id)).(*ast.FuncLit); ok && len(lit.Body.List) == 1 {
						if ret, ok := lit.Body.List[0].(*ast.ReturnStmt); ok && len(ret.Results) == 1 {
							more = append(more, cfgq.Facts(ret.Results[0], f.Val)...)
						}
					}
				}
			}
		}
		if len(more) == 0 {
			break
		}
		out = append(out, more...)
		fs = more
	}
	return out
}

// Establishes builds an AvoidEdge function: the edge implies a fact accepted by match.
func Establishes(g *cfgq.Graph, match func(cfgq.Fact) bool) func(*cfg.Block, int) bool {
	return func(b *cfg.Block, s int) bool {
		for _, f := range EdgeFacts(g, b, s) {
			if match(f) {
				return true
			}
		}
		return false
	}
}

// OnlyVia reports whether every path from the entry to target leaves some
// branch through an edge that establishes a fact accepted by match.
func OnlyVia(g *cfgq.Graph, target cfgq.Point, match func(cfgq.Fact) bool) (bool, []string) {
	tn := target.Node()
	w := g.Path(cfgq.Query{From: g.Entry(), Target: func(n ast.Node) bool { return n == tn }, AvoidEdge: Establishes(g, match)})
	return w == nil, w
}

// ---------------------------------------------------------------------------
// comparison atoms

var negate = map[token.Token]token.Token{token.EQL: token.NEQ, token.NEQ: token.EQL, token.LSS: token.GEQ, token.GEQ: token.LSS, token.GTR: token.LEQ, token.LEQ: token.GTR}
var mirror = map[token.Token]token.Token{token.EQL: token.EQL, token.NEQ: token.NEQ, token.LSS: token.GTR, token.GTR: token.LSS, token.LEQ: token.GEQ, token.GEQ: token.LEQ}

// Rel normalises a fact that compares two expressions: the returned operator
// already includes the fact's polarity (`!(a < b)` is reported as a >= b).
func Rel(f cfgq.Fact) (x, y ast.Expr, op token.Token, ok bool) {
	be, isBin := ast.Unparen(f.Expr).(*ast.BinaryExpr)
	if !isBin {
		return nil, nil, 0, false
	}
	if _, cmp := negate[be.Op]; !cmp {
		return nil, nil, 0, false
	}
	op = be.Op
	if !f.Val {
		op = negate[op]
	}
	return ast.Unparen(be.X), ast.Unparen(be.Y), op, true
}

// Cmp reports that fact f relates an expression accepted by isX to an integer
// constant: "X op k" with X on the left and the polarity applied.
func Cmp(info *types.Info, f cfgq.Fact, isX func(ast.Expr) bool) (op token.Token, k int64, ok bool) {
	x, y, op, ok := Rel(f)
	if !ok {
		return 0, 0, false
	}
	if kv, isC := core.IntConst(info, y); isC && isX(x) {
		return op, kv, true
	}
	if kv, isC := core.IntConst(info, x); isC && isX(y) {
		return mirror[op], kv, true
	}
	return 0, 0, false
}

// CmpIs reports that f establishes exactly "X op k".
func CmpIs(info *types.Info, f cfgq.Fact, isX func(ast.Expr) bool, op token.Token, k int64) bool {
	o, kv, ok := Cmp(info, f, isX)
	if !ok {
		return false
	}
	if o == op && kv == k {
		return true
	}
	// integer equivalences: X >= k  <=>  X > k-1 ; X <= k <=> X < k+1
	switch {
	case op == token.GEQ && o == token.GTR:
		return kv == k-1
	case op == token.GTR && o == token.GEQ:
		return kv == k+1
	case op == token.LEQ && o == token.LSS:
		return kv == k+1
	case op == token.LSS && o == token.LEQ:
		return kv == k-1
	}
	return false
}

// NilCmp reports that f establishes X == nil (isNil true) or X != nil.
func NilCmp(info *types.Info, f cfgq.Fact, isX func(ast.Expr) bool) (isNil, ok bool) {
	x, y, op, ok := Rel(f)
	if !ok || op != token.EQL && op != token.NEQ {
		return false, false
	}
	if core.IsNil(info, y) && isX(x) || core.IsNil(info, x) && isX(y) {
		return op == token.EQL, true
	}
	return false, false
}

// StrCmp reports that f relates (==/!=) an expression accepted by isX to a
// string constant; eq tells whether equality is established.
func StrCmp(info *types.Info, f cfgq.Fact, isX func(ast.Expr) bool) (s string, eq, ok bool) {
	x, y, op, ok := Rel(f)
	if !ok || op != token.EQL && op != token.NEQ {
		return "", false, false
	}
	if v, isC := core.StringConst(info, y); isC && isX(x) {
		return v, op == token.EQL, true
	}
	if v, isC := core.StringConst(info, x); isC && isX(y) {
		return v, op == token.EQL, true
	}
	return "", false, false
}

// IsObj builds an expression predicate: the expression is an identifier denoting obj.
func IsObj(info *types.Info, obj types.Object) func(ast.Expr) bool {
	return func(e ast.Expr) bool {
		id, ok := ast.Unparen(e).(*ast.Ident)
		return ok && obj != nil && core.ObjOf(info, id) == obj
	}
}

// Obj returns the object a bound metavariable denotes (nil unless an identifier).
func Obj(info *types.Info, n ast.Node) types.Object {
	e, ok := n.(ast.Expr)
	if !ok {
		return nil
	}
	if id, ok := ast.Unparen(e).(*ast.Ident); ok {
		return core.ObjOf(info, id)
	}
	return nil
}

// Assignments counts the statements that assign to obj below root
// (definitions included, nested literals included).
func Assignments(info *types.Info, root ast.Node, obj types.Object) int {
	n := 0
	core.InspectAll(root, func(m ast.Node) bool {
		switch s := m.(type) {
		case *ast.AssignStmt:
			for _, l := range s.Lhs {
				if IsObj(info, obj)(l) {
					n++
				}
			}
		case *ast.IncDecStmt:
			if IsObj(info, obj)(s.X) {
				n++
			}
		case *ast.RangeStmt:
			if s.Key != nil && IsObj(info, obj)(s.Key) || s.Value != nil && IsObj(info, obj)(s.Value) {
				n++
			}
		case *ast.UnaryExpr:
			if s.Op == token.AND && IsObj(info, obj)(s.X) {
				n++ // address taken: may be written elsewhere
			}
		}
		return true
	})
	return n
}

// ---------------------------------------------------------------------------
// error exits

// ErrReturn reports whether ret provably returns a non-nil error: its last
// result is built by an error constructor (errors.New/Errorf, fmt.Errorf,
// errors.Trace of a provably non-nil error), is a package-level error
// variable, or is a variable tested `!= nil` by an enclosing if. A tail call
// such as `return e.encodeInt(-1)` is NOT an error exit.
func ErrReturn(info *types.Info, body ast.Node, ret *ast.ReturnStmt) bool {
	if len(ret.Results) == 0 {
		return false
	}
	return nonNilErr(info, body, ret, ret.Results[len(ret.Results)-1])
}

func nonNilErr(info *types.Info, body ast.Node, ret ast.Node, e ast.Expr) bool {
	e = ast.Unparen(e)
	tv, ok := info.Types[e]
	if !ok || !cfgq.IsErrorType(tv.Type) {
		return false
	}
	switch x := e.(type) {
	case *ast.CallExpr:
		f := core.CalleeFunc(info, x)
		if f == nil || f.Pkg() == nil {
			return false
		}
		p := f.Pkg().Path()
		if p != "errors" && p != "fmt" && !strings.HasSuffix(p, "/errors") {
			return false
		}
		switch f.Name() {
		case "New", "Errorf":
			return true
		case "Trace", "WithStack", "Wrap", "Wrapf":
			return len(x.Args) > 0 && nonNilErr(info, body, ret, x.Args[0])
		}
		return false
	case *ast.Ident, *ast.SelectorExpr:
		if v, ok := core.ObjOf(info, x).(*types.Var); ok && v.Pkg() != nil && v.Parent() == v.Pkg().Scope() {
			return true // package-level sentinel error
		}
		// a local with a single definition stands for that definition (`e := errors.Trace(ErrX); ..; return nil, e`)
		if id, isID := x.(*ast.Ident); isID {
			if d := ValueOf(info, body, id); d != ast.Expr(id) && nonNilErr(info, body, ret, d) {
				return true
			}
		}
		return guardedNonNil(info, body, ret, x)
	}
	return false
}

// guardedNonNil: ret lies in the then-arm of an if whose condition implies e != nil.
func guardedNonNil(info *types.Info, body ast.Node, ret ast.Node, e ast.Expr) bool {
	path := core.PathTo(body, ret)
	for i := len(path) - 1; i > 0; i-- {
		ifs, ok := path[i-1].(*ast.IfStmt)
		if !ok {
			continue
		}
		val := true
		if path[i] == ast.Node(ifs.Else) {
			val = false
		} else if path[i] != ast.Node(ifs.Body) {
			continue
		}
		for _, f := range cfgq.Facts(ifs.Cond, val) {
			if isNil, ok := NilCmp(info, f, func(x ast.Expr) bool { return core.SameRef(info, x, e) }); ok && !isNil {
				return true
			}
		}
	}
	return false
}

// OkExit accepts the exits of a body that are not provable error returns:
// returns for which ErrReturn is false and falling off the end.
func OkExit(g *cfgq.Graph) func(b *cfg.Block, k cfgq.ExitKind) bool {
	return func(b *cfg.Block, k cfgq.ExitKind) bool {
		switch k {
		case cfgq.ExitFall:
			return true
		case cfgq.ExitRet:
			return !ErrReturn(g.Info, g.Body, b.Nodes[len(b.Nodes)-1].(*ast.ReturnStmt))
		}
		return false
	}
}

// ErrEdge builds an AvoidEdge function that cuts the edges on which some
// error-typed expression is known to be non-nil.
func ErrEdge(g *cfgq.Graph) func(*cfg.Block, int) bool {
	return Establishes(g, func(f cfgq.Fact) bool {
		isNil, ok := NilCmp(g.Info, f, func(x ast.Expr) bool {
			tv, ok := g.Info.Types[x]
			return ok && cfgq.IsErrorType(tv.Type)
		})
		return ok && !isNil
	})
}

// ---------------------------------------------------------------------------
// interval walk

// Interval is a closed integer interval; math.MinInt64/MaxInt64 stand for -inf/+inf.
type Interval struct{ Lo, Hi int64 }

func (iv Interval) String() string {
	lo, hi := fmt.Sprint(iv.Lo), fmt.Sprint(iv.Hi)
	if iv.Lo == math.MinInt64 {
		lo = "-inf"
	}
	if iv.Hi == math.MaxInt64 {
		hi = "+inf"
	}
	return "[" + lo + "," + hi + "]"
}

// Outcomes walks every path from `from` (exclusive) and tracks the values the
// tracked integer expression may have, refined by the comparisons with
// constants met on the way. classify labels the nodes at which a path ends
// (allocation, nil result, error ...); "" continues. The result maps each
// label to the normalised union of intervals that reach it. imprecise is set
// when a branch mentions the tracked value in a form that is not understood.
// Edges accepted by cut (error edges of earlier calls) are not followed.
func Outcomes(g *cfgq.Graph, from cfgq.Point, isX func(ast.Expr) bool, mentions func(ast.Node) bool, classify func(n ast.Node) string, cut func(*cfg.Block, int) bool) (out map[string][]Interval, imprecise bool) {
	raw := map[string][]Interval{}
	type key struct {
		b      *cfg.Block
		lo, hi int64
	}
	seen := map[key]bool{}
	var walk func(b *cfg.Block, i int, iv Interval)
	walk = func(b *cfg.Block, i int, iv Interval) {
		for ; i < len(b.Nodes); i++ {
			if l := classify(b.Nodes[i]); l != "" {
				raw[l] = append(raw[l], iv)
				return
			}
		}
		if len(b.Succs) == 0 {
			if g.Exit(b) == cfgq.ExitFall {
				raw["fall"] = append(raw["fall"], iv)
			}
			return
		}
		for si, t := range b.Succs {
			if cut != nil && cut(b, si) {
				continue
			}
			ivs := []Interval{iv}
			for _, f := range EdgeFacts(g, b, si) {
				op, k, ok := Cmp(g.Info, f, isX)
				if !ok {
					if mentions(f.Expr) {
						imprecise = true
					}
					continue
				}
				var next []Interval
				for _, v := range ivs {
					next = append(next, refine(v, op, k)...)
				}
				ivs = next
			}
			for _, v := range ivs {
				k := key{t, v.Lo, v.Hi}
				if v.Lo > v.Hi || seen[k] {
					continue
				}
				seen[k] = true
				walk(t, 0, v)
			}
		}
	}
	walk(from.B, from.I+1, Interval{math.MinInt64, math.MaxInt64})
	out = map[string][]Interval{}
	for l, ivs := range raw {
		out[l] = Union(ivs)
	}
	return out, imprecise
}

func refine(v Interval, op token.Token, k int64) []Interval {
	switch op {
	case token.LSS:
		if k == math.MinInt64 {
			return nil
		}
		v.Hi = min(v.Hi, k-1)
	case token.LEQ:
		v.Hi = min(v.Hi, k)
	case token.GTR:
		if k == math.MaxInt64 {
			return nil
		}
		v.Lo = max(v.Lo, k+1)
	case token.GEQ:
		v.Lo = max(v.Lo, k)
	case token.EQL:
		v.Lo, v.Hi = max(v.Lo, k), min(v.Hi, k)
	case token.NEQ:
		if k < v.Lo || k > v.Hi {
			return []Interval{v}
		}
		var out []Interval
		if k > v.Lo {
			out = append(out, Interval{v.Lo, k - 1})
		}
		if k < v.Hi {
			out = append(out, Interval{k + 1, v.Hi})
		}
		return out
	}
	if v.Lo > v.Hi {
		return nil
	}
	return []Interval{v}
}

// Union sorts and merges overlapping or adjacent intervals.
func Union(ivs []Interval) []Interval {
	sort.Slice(ivs, func(i, j int) bool { return ivs[i].Lo < ivs[j].Lo })
	var out []Interval
	for _, v := range ivs {
		if n := len(out); n > 0 && (out[n-1].Hi == math.MaxInt64 || v.Lo <= out[n-1].Hi+1) {
			out[n-1].Hi = max(out[n-1].Hi, v.Hi)
			continue
		}
		out = append(out, v)
	}
	return out
}

// SameSet compares a normalised union with an expected one.
func SameSet(a, b []Interval) bool {
	if len(a) != len(b) {
		return false
	}
	for i := range a {
		if a[i] != b[i] {
			return false
		}
	}
	return true
}

// SetString renders a union.
func SetString(a []Interval) string {
	if len(a) == 0 {
		return "{}"
	}
	var s []string
	for _, v := range a {
		s = append(s, v.String())
	}
	return strings.Join(s, "u")
}

// ---------------------------------------------------------------------------
// ordered sequences

// Step is one element of an expected emission/consumption sequence.
type Step struct {
	Name string
	Is   func(n ast.Node) bool // cfg-node predicate
}

// Sequence checks that the steps occur exactly once each among the live nodes
// of g, each dominated by its predecessor, and that every path from a step to
// a non-error exit passes the next step. It returns "" when the order holds,
// otherwise a description; undecided is set when a step cannot be located
// uniquely (the construct is not the recognised idiom).
func Sequence(g *cfgq.Graph, steps []Step) (problem string, witness []string, undecided bool) {
	return SequenceCut(g, steps, nil)
}

// SequenceCut is Sequence with exempt edges: paths through an edge accepted by
// cut (say, the one on which the value to write was found to be nil) need not
// perform the remaining steps.
func SequenceCut(g *cfgq.Graph, steps []Step, cut func(*cfg.Block, int) bool) (problem string, witness []string, undecided bool) {
	pts := make([]cfgq.Point, len(steps))
	for i, s := range steps {
		ps := g.Points(s.Is)
		if len(ps) != 1 {
			return fmt.Sprintf("step %q found %d times, expected exactly once", s.Name, len(ps)), nil, true
		}
		pts[i] = ps[0]
	}
	for i := 1; i < len(steps); i++ {
		if ok, w := g.Dominated(pts[i], steps[i-1].Is); !ok {
			return fmt.Sprintf("%q can be reached without %q before it", steps[i].Name, steps[i-1].Name), w, false
		}
		errEdge := ErrEdge(g)
		w := g.Path(cfgq.Query{From: pts[i-1], After: true, Avoid: steps[i].Is, TargetExit: OkExit(g), AvoidEdge: func(b *cfg.Block, s int) bool {
			return errEdge(b, s) || cut != nil && cut(b, s)
		}})
		if w != nil {
			return fmt.Sprintf("after %q a successful exit is reachable without %q", steps[i-1].Name, steps[i].Name), w, false
		}
	}
	return "", nil, false
}

// CallOn builds a cfg-node predicate: the node executes a call accepted by match.
func CallOn(g *cfgq.Graph, match func(call *ast.CallExpr) bool) func(ast.Node) bool {
	return func(n ast.Node) bool {
		if _, isDefer := n.(*ast.DeferStmt); isDefer {
			return false
		}
		for _, c := range cfgq.ExecCalls(n) {
			if match(c) {
				return true
			}
		}
		return false
	}
}

// FindCalls returns the calls below root (nested literals excluded) accepted by match.
func FindCalls(root ast.Node, match func(call *ast.CallExpr) bool) []*ast.CallExpr {
	var out []*ast.CallExpr
	core.Inspect(root, func(n ast.Node) bool {
		if c, ok := n.(*ast.CallExpr); ok && match(c) {
			out = append(out, c)
		}
		return true
	})
	return out
}

// IsBuiltin reports whether call invokes the builtin `name`.
func IsBuiltin(info *types.Info, call *ast.CallExpr, name string) bool {
	b, ok := core.Callee(info, call).(*types.Builtin)
	return ok && b.Name() == name
}

// MethodOn reports whether call is <recvExpr>.<name>(...) with recvExpr accepted by isRecv.
func MethodOn(call *ast.CallExpr, name string, isRecv func(ast.Expr) bool) bool {
	sel, ok := ast.Unparen(call.Fun).(*ast.SelectorExpr)
	return ok && sel.Sel.Name == name && isRecv(sel.X)
}

// ---------------------------------------------------------------------------
// single-definition locals

// Resolve replaces an identifier that names a local variable with exactly one
// 1:1 definition in body by the defining expression (repeatedly, depth <= 3),
// provided the variables that expression mentions are never re-assigned
// themselves; anything else is returned unchanged. It makes the rules
// indifferent to "extract expression into a local".
func Resolve(info *types.Info, body ast.Node, e ast.Expr) ast.Expr {
	return resolve(info, body, e, true)
}

// ValueOf is Resolve without the stability requirement: it answers "which
// expression produced the value stored in this single-definition local",
// e.g. to recognise the result of a call that was first bound to a variable.
func ValueOf(info *types.Info, body ast.Node, e ast.Expr) ast.Expr {
	return resolve(info, body, e, false)
}

func resolve(info *types.Info, body ast.Node, e ast.Expr, needStable bool) ast.Expr {
	for depth := 0; depth < 3; depth++ {
		id, ok := ast.Unparen(e).(*ast.Ident)
		if !ok {
			return e
		}
		obj, _ := core.ObjOf(info, id).(*types.Var)
		if obj == nil || obj.IsField() || !DefinedIn(info, body, obj) || Assignments(info, body, obj) != 1 {
			return e
		}
		var rhs ast.Expr
		core.InspectAll(body, func(m ast.Node) bool {
			switch s := m.(type) {
			case *ast.AssignStmt:
				if len(s.Lhs) == len(s.Rhs) {
					for i, l := range s.Lhs {
						if IsObj(info, obj)(l) && (s.Tok == token.DEFINE || s.Tok == token.ASSIGN) {
							rhs = s.Rhs[i]
						}
					}
				}
			case *ast.ValueSpec:
				if len(s.Names) == len(s.Values) {
					for i, n := range s.Names {
						if info.Defs[n] == types.Object(obj) {
							rhs = s.Values[i]
						}
					}
				}
			}
			return true
		})
		if rhs == nil || needStable && !stable(info, body, rhs) {
			return e
		}
		e = rhs
	}
	return e
}

// stable: every variable mentioned by e is assigned at most at its definition.
func stable(info *types.Info, body ast.Node, e ast.Expr) bool {
	ok := true
	core.InspectAll(e, func(m ast.Node) bool {
		id, isID := m.(*ast.Ident)
		if !isID {
			return true
		}
		v, isVar := info.Uses[id].(*types.Var)
		if !isVar || v.IsField() || v.Pkg() == nil || v.Parent() == v.Pkg().Scope() {
			return true
		}
		limit := 0
		if DefinedIn(info, body, v) {
			limit = 1
		}
		if Assignments(info, body, v) > limit {
			ok = false
		}
		return ok
	})
	return ok
}

func enclosingSwitch(root ast.Node, cc *ast.CaseClause) *ast.SwitchStmt {
	if cc == nil {
		return nil
	}
	var out *ast.SwitchStmt
	ast.Inspect(root, func(n ast.Node) bool {
		if sw, ok := n.(*ast.SwitchStmt); ok && out == nil {
			for _, s := range sw.Body.List {
				if s == ast.Stmt(cc) {
					out = sw
				}
			}
		}
		return out == nil
	})
	return out
}

// ExpectAll records the instance counts confirmed on the pinned tree (in a
// fixed order). A rule that produced fewer obligations than expected is
// UNDECIDED twice: as instances/<rule> (core.Ctx.Expect), and under the rule
// itself. The second record matters when the driver merges the views of the
// normalisation pipeline: it adopts "this obligation does not arise on the
// equivalent program, where the rule leaves nothing open" - which must not
// happen when the rule is merely incomplete there because a recognition step
// reported under another rule failed (a VIOLATION found on one view would be
// dropped in favour of a view that never got as far as asking the question).
func ExpectAll(c *core.Ctx, want map[string]int) {
	rules := make([]string, 0, len(want))
	for r := range want {
		rules = append(rules, r)
	}
	sort.Strings(rules)
	for _, r := range rules {
		n := 0
		for _, o := range c.Obs {
			if o.Rule == r {
				n++
			}
		}
		c.Expect(r, want[r])
		if n < want[r] {
			c.Undecidedf(r, "instances", token.NoPos, "rule %s produced %d obligations on this view of the tree, %d on the pinned tree: obligations of the rule have not arisen here", r, n, want[r])
		}
	}
}

// GraphOf is cfgq.Of with an identity check. cfgq caches graphs per Program
// under the ADDRESS of the declaration; the views of an Inliner are pinned to
// the Program for that reason (NewInliner). Should a cached graph nevertheless
// belong to another body - a declaration that was collected and whose address
// was reused - it is not used: a graph of the wrong function silently answers
// every path query with "no such path".
func GraphOf(p *core.Program, fn *core.Fn) *cfgq.Graph {
	g := cfgq.Of(p, fn)
	if g != nil && g.Body != fn.Decl.Body {
		g = cfgq.New(p.Fset, fn.Pkg.TypesInfo, fn.Decl.Body, cfgq.NR(p))
		g.Prog = p
	}
	return g
}

// GraphOfLit is cfgq.OfLit with the same identity check.
func GraphOfLit(p *core.Program, info *types.Info, lit *ast.FuncLit) *cfgq.Graph {
	g := cfgq.OfLit(p, info, lit)
	if g != nil && g.Body != lit.Body {
		g = cfgq.New(p.Fset, info, lit.Body, cfgq.NR(p))
		g.Prog = p
	}
	return g
}
