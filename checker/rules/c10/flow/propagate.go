package flow

import (
	"fmt"
	"go/ast"
	"go/constant"
	"go/token"
	"go/types"
	"reflect"

	"rscheck/cfgq"
	"rscheck/core"
)

// Flow-sensitive copy propagation on an inlined view.
//
// A helper with several returns that is expanded in place assigns the caller's
// variables once per return site (`b, n, err = line, -1, err` on the error
// path, `b, n, err = line, len(line)-2, nil` on the other); so does a function
// that fills named results or a variable declared ahead of an if/else. Rules
// that identify a value by the variable that carries it (the line buffer, the
// index of its CR) then see two variables where the original had one, and a
// variable with several definitions. Where exactly ONE plain assignment
// `v = e` can arrive at a read of v - and e is a pure expression over
// variables that cannot have changed in between - the read is replaced by e.
// Single-assignment locals are left alone: they are already transparent
// (Resolve).

// propagate rewrites decl.Body in place: the body itself, then every function
// literal in it (each on its own graph, for the variables it declares).
func propagate(in *Inliner, fn *core.Fn, decl *ast.FuncDecl) {
	if in.Prog == nil || decl.Body == nil {
		return
	}
	var force map[types.Object]bool
	for round := 0; round < 3; round++ {
		force = propagateIn(in, fn, decl.Body, decl.Type.Results, token.NoPos, token.NoPos, force, func() *cfgq.Graph {
			scratch := *decl
			in.scratch = append(in.scratch, &scratch)
			return GraphOf(in.Prog, &core.Fn{Obj: fn.Obj, Decl: &scratch, Pkg: fn.Pkg})
		})
		if len(force) == 0 {
			break
		}
	}
	var lits func(n ast.Node, depth int)
	lits = func(n ast.Node, depth int) {
		if depth > 3 {
			return
		}
		for _, lit := range core.FuncLits(n) {
			lit := lit
			var force map[types.Object]bool
			for round := 0; round < 3; round++ {
				force = propagateIn(in, fn, lit.Body, lit.Type.Results, lit.Pos(), lit.End(), force, func() *cfgq.Graph {
					// a private copy of the literal node: graphs are cached by address, and the rewrite changes the body
					scratch := *lit
					in.scratchLits = append(in.scratchLits, &scratch)
					return GraphOfLit(in.Prog, fn.Pkg.TypesInfo, &scratch)
				})
				if len(force) == 0 {
					break
				}
			}
			lits(lit.Body, depth+1)
		}
	}
	lits(decl.Body, 0)
}

// propagateIn rewrites one body. lo..hi, when valid, is the extent of the function literal the body
// belongs to: only variables declared in there are its own.
// force names single-assignment locals that must be treated like the others: their definition was
// rewritten by an earlier round, so engines that remember a local's ORIGINAL definition (pat's transparent
// locals) would read them wrongly - they are resolved away. The result names the locals whose definitions
// this round rewrote.
func propagateIn(in *Inliner, fn *core.Fn, body *ast.BlockStmt, results *ast.FieldList, lo, hi token.Pos, force map[types.Object]bool, mkGraph func() *cfgq.Graph) map[types.Object]bool {
	if body == nil {
		return nil
	}
	info := fn.Pkg.TypesInfo
	// variables that may be written behind the analysis' back: address taken, or assigned inside a closure
	unsafe := map[types.Object]bool{}
	assigned := map[types.Object]int{}
	declared := map[types.Object]bool{} // declared without a value (var x T, named results)
	lhsIdents := map[*ast.Ident]bool{}
	partWritten := map[types.Object]bool{} // a field or an element is assigned on its own
	handedOut := map[types.Object]bool{}   // passed to a call, or copied: its elements may change elsewhere
	copyDef := map[types.Object]bool{}     // defined as a plain copy of another local (`x, y := a, b`)
	inLit := 0
	var lits []*ast.FuncLit
	// captured: o is assigned inside a function literal that does not declare it
	captured := func(o types.Object) bool {
		if inLit == 0 {
			return false
		}
		l := lits[len(lits)-1]
		return !(l.Pos() <= o.Pos() && o.Pos() < l.End())
	}
	markLHS := func(e ast.Expr) {
		core.InspectAll(e, func(n ast.Node) bool {
			if id, ok := n.(*ast.Ident); ok {
				lhsIdents[id] = true
			}
			return true
		})
	}
	var scan func(n ast.Node) bool
	scan = func(n ast.Node) bool {
		switch x := n.(type) {
		case *ast.FuncLit:
			inLit++
			lits = append(lits, x)
			ast.Inspect(x.Body, scan)
			lits = lits[:len(lits)-1]
			inLit--
			return false
		case *ast.UnaryExpr:
			if x.Op == token.AND {
				root := ast.Unparen(x.X)
				for {
					if s, ok := root.(*ast.SelectorExpr); ok {
						root = ast.Unparen(s.X)
						continue
					}
					if ix, ok := root.(*ast.IndexExpr); ok {
						root = ast.Unparen(ix.X)
						continue
					}
					break
				}
				if o := Obj(info, root); o != nil {
					unsafe[o] = true
				}
			}
		case *ast.AssignStmt:
			if len(x.Lhs) == len(x.Rhs) && (x.Tok == token.ASSIGN || x.Tok == token.DEFINE) {
				for i, l := range x.Lhs {
					if src, isID := ast.Unparen(x.Rhs[i]).(*ast.Ident); isID {
						if sv, isVar := core.ObjOf(info, src).(*types.Var); isVar && !sv.IsField() && sv.Pkg() != nil && sv.Parent() != sv.Pkg().Scope() {
							if o := Obj(info, l); o != nil {
								copyDef[o] = true
							}
						}
					}
				}
			}
			for _, l := range x.Lhs {
				markLHS(l)
				switch lx := ast.Unparen(l).(type) {
				case *ast.SelectorExpr:
					if o := Obj(info, lx.X); o != nil {
						partWritten[o] = true
					}
				case *ast.IndexExpr:
					if o := Obj(info, lx.X); o != nil {
						partWritten[o] = true
					}
				}
				if o := Obj(info, l); o != nil {
					assigned[o]++
					if captured(o) {
						unsafe[o] = true
					}
				}
			}
		case *ast.CallExpr:
			if tv, isConv := info.Types[x.Fun]; isConv && tv.IsType() {
				break
			}
			if IsBuiltin(info, x, "len") || IsBuiltin(info, x, "cap") {
				break
			}
			for _, a := range x.Args {
				if o := Obj(info, a); o != nil {
					handedOut[o] = true
				}
			}
		case *ast.IncDecStmt:
			markLHS(x.X)
			if o := Obj(info, x.X); o != nil {
				assigned[o]++
				if captured(o) {
					unsafe[o] = true
				}
			}
		case *ast.RangeStmt:
			for _, l := range []ast.Expr{x.Key, x.Value} {
				if l != nil {
					markLHS(l)
					if o := Obj(info, l); o != nil {
						assigned[o] += 2 // one definition per iteration
						if captured(o) {
							unsafe[o] = true
						}
					}
				}
			}
		case *ast.ValueSpec:
			for _, nm := range x.Names {
				if o := info.Defs[nm]; o != nil && len(x.Values) == 0 {
					declared[o] = true
				}
			}
		case *ast.SelectorExpr:
			// a method with a pointer receiver called on an addressable variable takes its address
			if s := info.Selections[x]; s != nil && s.Kind() == types.MethodVal {
				if sig, ok := s.Obj().Type().(*types.Signature); ok && sig.Recv() != nil {
					if _, ptr := sig.Recv().Type().(*types.Pointer); ptr {
						if o := Obj(info, x.X); o != nil {
							if _, isPtr := o.Type().Underlying().(*types.Pointer); !isPtr {
								unsafe[o] = true
							}
						}
					}
				}
			}
		}
		return true
	}
	ast.Inspect(body, scan)
	if results != nil {
		for _, f := range results.List {
			for _, nm := range f.Names {
				if o := info.Defs[nm]; o != nil {
					declared[o] = true
				}
			}
		}
	}
	own := map[types.Object]bool{}
	if lo.IsValid() {
		core.InspectAll(body, func(n ast.Node) bool {
			if id, ok := n.(*ast.Ident); ok {
				if o := info.Defs[id]; o != nil {
					own[o] = true
				}
			}
			return true
		})
	}
	local := func(o types.Object) bool {
		v, ok := o.(*types.Var)
		if !ok || v.IsField() || v.Pkg() == nil || v.Parent() == v.Pkg().Scope() {
			return false
		}
		_ = hi
		// a literal's own variables: declared by an identifier of its body (expanded helpers bring variables
		// whose declaration positions lie elsewhere)
		return !lo.IsValid() || own[o]
	}
	candidate := func(o types.Object) bool {
		return local(o) && !unsafe[o] && (assigned[o] >= 2 || declared[o] && assigned[o] >= 1 || copyDef[o] || force[o])
	}
	any := false
	for o := range assigned {
		if candidate(o) {
			any = true
		}
		if _, isStruct := o.Type().Underlying().(*types.Struct); isStruct && local(o) {
			any = true // fields of a struct local built by a literal are resolved too
		}
	}
	if !any {
		return nil
	}
	g := mkGraph()
	if g == nil || g.CFG == nil {
		return nil
	}
	defsOf := map[types.Object][]cfgq.Point{}
	isDefOf := func(o types.Object) func(ast.Node) bool {
		return func(n ast.Node) bool {
			switch s := n.(type) {
			case *ast.AssignStmt:
				for _, l := range s.Lhs {
					if IsObj(info, o)(l) {
						return true
					}
				}
			case *ast.IncDecStmt:
				return IsObj(info, o)(s.X)
			case *ast.RangeStmt:
				return s.Key != nil && IsObj(info, o)(s.Key) || s.Value != nil && IsObj(info, o)(s.Value)
			}
			return false
		}
	}
	// reaching: the definitions of o whose value can arrive at `at` (entry: so can the initial value)
	type reach struct {
		defs  []cfgq.Point
		entry bool
	}
	reaching := func(o types.Object, at cfgq.Point) reach {
		isDef := isDefOf(o)
		pts, ok := defsOf[o]
		if !ok {
			pts = g.Points(isDef)
			defsOf[o] = pts
		}
		target := at.Node()
		hit := func(m ast.Node) bool { return m == target }
		var r reach
		for _, p := range pts {
			if g.Path(cfgq.Query{From: p, After: true, Avoid: isDef, Target: hit}) != nil {
				r.defs = append(r.defs, p)
			}
		}
		if isDef(g.Entry().Node()) {
			return r
		}
		if g.Entry().Node() == target || g.Path(cfgq.Query{From: g.Entry(), Avoid: isDef, Target: hit}) != nil {
			r.entry = true
		}
		return r
	}
	same := func(a, b reach) bool {
		if a.entry != b.entry || len(a.defs) != len(b.defs) {
			return false
		}
		for i := range a.defs {
			if a.defs[i].Node() != b.defs[i].Node() {
				return false
			}
		}
		return true
	}
	// pure: an expression without effects whose value depends only on the variables collected in vars
	readsMemory := false // set by pure: the expression reads a field through a variable (x.f)
	var pure func(e ast.Expr, vars *[]types.Object, size *int) bool
	pure = func(e ast.Expr, vars *[]types.Object, size *int) bool {
		if *size++; *size > 12 {
			return false
		}
		if tv, ok := info.Types[e]; ok && tv.Value != nil {
			return true
		}
		switch x := e.(type) {
		case *ast.ParenExpr:
			return pure(x.X, vars, size)
		case *ast.BasicLit:
			return true
		case *ast.Ident:
			switch o := core.ObjOf(info, x).(type) {
			case *types.Const, *types.Nil:
				return true
			case *types.Var:
				if !local(o) || unsafe[o] {
					return false
				}
				*vars = append(*vars, o)
				return true
			}
		case *ast.SelectorExpr:
			// a field read through a local (`d.offset`): the same value later only if nothing in between can
			// write memory (checked by the caller: no call, no assignment through a selector, index or pointer)
			base, isID := ast.Unparen(x.X).(*ast.Ident)
			if sl := info.Selections[x]; !isID || sl == nil || sl.Kind() != types.FieldVal {
				return false
			}
			o, isVar := core.ObjOf(info, base).(*types.Var)
			if !isVar || !local(o) || unsafe[o] {
				return false
			}
			*vars = append(*vars, o)
			readsMemory = true
			return true
		case *ast.IndexExpr:
			// an element of a slice of strings / a string that is only ever indexed in this function
			base, isID := ast.Unparen(x.X).(*ast.Ident)
			if !isID {
				return false
			}
			o, isVar := core.ObjOf(info, base).(*types.Var)
			if !isVar || !local(o) || unsafe[o] || partWritten[o] || handedOut[o] {
				return false
			}
			switch t := o.Type().Underlying().(type) {
			case *types.Slice:
				if b, ok := t.Elem().Underlying().(*types.Basic); !ok || b.Info()&(types.IsString|types.IsNumeric|types.IsBoolean) == 0 {
					return false
				}
			case *types.Basic:
				if t.Info()&types.IsString == 0 {
					return false
				}
			default:
				return false
			}
			*vars = append(*vars, o)
			return pure(x.Index, vars, size)
		case *ast.UnaryExpr:
			return (x.Op == token.SUB || x.Op == token.ADD || x.Op == token.NOT) && pure(x.X, vars, size)
		case *ast.BinaryExpr:
			switch x.Op {
			case token.ADD, token.SUB, token.MUL:
				return pure(x.X, vars, size) && pure(x.Y, vars, size)
			}
		case *ast.CallExpr:
			if len(x.Args) != 1 {
				return false
			}
			if tv, ok := info.Types[x.Fun]; ok && tv.IsType() {
				if b, isBasic := tv.Type.Underlying().(*types.Basic); isBasic && b.Info()&types.IsNumeric != 0 {
					return pure(x.Args[0], vars, size)
				}
				return false
			}
			if IsBuiltin(info, x, "len") || IsBuiltin(info, x, "cap") {
				_, isID := ast.Unparen(x.Args[0]).(*ast.Ident)
				return isID && pure(x.Args[0], vars, size)
			}
		}
		return false
	}
	type edit struct {
		use ast.Expr
		src ast.Expr
		obj types.Object
	}
	// all or nothing per variable: when some read of v sees several definitions (a genuine merge, such as
	// `limit := len(p); if max < limit { limit = max }; use(limit)`), v is a variable in its own right
	// and every read of it stays - rules that follow the variable keep finding it
	blocked := map[types.Object]bool{}
	var edits []edit
	// quiet: no node that can run between def and at calls anything or writes through a selector, an
	// index or a pointer
	quiet := func(def, at cfgq.Point) bool {
		dn, an := def.Node(), at.Node()
		writes := func(n ast.Node) bool {
			w := false
			core.Inspect(n, func(m ast.Node) bool {
				switch x := m.(type) {
				case *ast.CallExpr:
					if tv, isConv := info.Types[x.Fun]; !(isConv && tv.IsType()) && !IsBuiltin(info, x, "len") && !IsBuiltin(info, x, "cap") {
						w = true
					}
				case *ast.AssignStmt:
					for _, l := range x.Lhs {
						if _, plain := ast.Unparen(l).(*ast.Ident); !plain {
							w = true
						}
					}
				case *ast.IncDecStmt:
					if _, plain := ast.Unparen(x.X).(*ast.Ident); !plain {
						w = true
					}
				case *ast.SendStmt, *ast.GoStmt, *ast.DeferStmt:
					w = true
				case *ast.UnaryExpr:
					if x.Op == token.ARROW {
						w = true
					}
				}
				return !w
			})
			return w
		}
		// the definition and the use themselves: other operands evaluated with them must not write either
		if writes(dn) || writes(an) {
			return false
		}
		for _, b := range g.CFG.Blocks {
			for i, m := range b.Nodes {
				if m == dn || m == an || !writes(m) {
					continue
				}
				mp := cfgq.Point{B: b, I: i}
				if g.Path(cfgq.Query{From: def, After: true, Target: func(n ast.Node) bool { return n == m }}) != nil &&
					g.Path(cfgq.Query{From: mp, After: true, Target: func(n ast.Node) bool { return n == an }}) != nil {
					return false
				}
			}
		}
		return true
	}
	// stable: src is pure and reads the same values at the definition `def` and at the use `at`
	stable := func(src ast.Expr, self types.Object, def, at cfgq.Point) bool {
		var vars []types.Object
		size := 0
		readsMemory = false
		if !pure(src, &vars, &size) {
			return false
		}
		if readsMemory && !quiet(def, at) {
			return false
		}
		for _, w := range vars {
			if w == self {
				return false
			}
			// in a parallel assignment the right-hand sides are read before any target is written
			if !same(reaching(w, def), reaching(w, at)) {
				return false
			}
		}
		return true
	}
	// uniqueDef: the one plain assignment of o that can arrive at `at`, and the expression it assigns
	uniqueDef := func(o types.Object, at cfgq.Point) (ast.Expr, cfgq.Point, bool) {
		r := reaching(o, at)
		if r.entry || len(r.defs) != 1 {
			return nil, cfgq.Point{}, false
		}
		as, isAs := r.defs[0].Node().(*ast.AssignStmt)
		if !isAs || len(as.Lhs) != len(as.Rhs) || as.Tok != token.ASSIGN && as.Tok != token.DEFINE {
			return nil, cfgq.Point{}, false
		}
		if r.defs[0].Node() == at.Node() {
			return nil, cfgq.Point{}, false // `v = v + 1` round a loop
		}
		for i, l := range as.Lhs {
			if IsObj(info, o)(l) {
				return as.Rhs[i], r.defs[0], true
			}
		}
		return nil, cfgq.Point{}, false
	}
	// dead: no value of o arrives at `at` at all (the read sits in code no path reaches)
	dead := func(o types.Object, at cfgq.Point) bool {
		r := reaching(o, at)
		return !r.entry && len(r.defs) == 0
	}
	skip := map[*ast.Ident]bool{}
	var visit func(n ast.Node) bool
	visit = func(n ast.Node) bool {
		switch x := n.(type) {
		case *ast.FuncLit:
			return false
		case *ast.SelectorExpr:
			// a field of a struct local whose one arriving definition is a composite literal naming the field
			base, isID := ast.Unparen(x.X).(*ast.Ident)
			if !isID || lhsIdents[base] {
				return true
			}
			o := info.Uses[base]
			if o == nil || !local(o) || unsafe[o] || partWritten[o] {
				return true
			}
			if _, isStruct := o.Type().Underlying().(*types.Struct); !isStruct {
				return true
			}
			if sl := info.Selections[x]; sl == nil || sl.Kind() != types.FieldVal || len(sl.Index()) != 1 {
				return true
			}
			skip[base] = true
			at, found := PointOf(g, x)
			if !found {
				return true
			}
			if dead(o, at) {
				return true
			}
			// fields are resolved read by read: a result struct built at several return sites has, per site,
			// fields that are plain values and fields that are not
			fo := types.Object(&fieldVar{o, fmt.Sprintf("%s@%p", x.Sel.Name, x)})
			src, def, ok := uniqueDef(o, at)
			if !ok {
				blocked[fo] = true
				return true
			}
			lit, isLit := ast.Unparen(src).(*ast.CompositeLit)
			stt, isStruct := o.Type().Underlying().(*types.Struct)
			if !isLit || !isStruct {
				blocked[fo] = true
				return true
			}
			done := false
			for i, el := range lit.Elts {
				var val ast.Expr
				if kv, keyed := el.(*ast.KeyValueExpr); keyed {
					if k, isKey := kv.Key.(*ast.Ident); isKey && k.Name == x.Sel.Name {
						val = kv.Value
					}
				} else if i < stt.NumFields() && stt.Field(i).Name() == x.Sel.Name {
					val = el
				}
				if val != nil && stable(val, o, def, at) {
					edits = append(edits, edit{x, val, fo})
					done = true
				}
			}
			if !done {
				// a field the literal does not mention holds its zero value
				mentioned := false
				for i, el := range lit.Elts {
					if kv, keyed := el.(*ast.KeyValueExpr); keyed {
						if k, isKey := kv.Key.(*ast.Ident); isKey && k.Name == x.Sel.Name {
							mentioned = true
						}
					} else if i < stt.NumFields() && stt.Field(i).Name() == x.Sel.Name {
						mentioned = true
					}
				}
				if z := zeroExpr(info, info.TypeOf(x), x.Pos()); !mentioned && z != nil {
					edits = append(edits, edit{x, z, fo})
					done = true
				}
			}
			if !done {
				blocked[fo] = true
			}
			return true
		case *ast.Ident:
			if lhsIdents[x] || skip[x] {
				return true
			}
			o := info.Uses[x]
			if o == nil || !candidate(o) {
				return true
			}
			at, found := PointOf(g, x)
			if !found {
				return true
			}
			if dead(o, at) {
				return true
			}
			if src, def, ok := uniqueDef(o, at); ok && stable(src, o, def, at) {
				edits = append(edits, edit{x, src, o})
			} else {
				blocked[o] = true
			}
		}
		return true
	}
	ast.Inspect(body, visit)
	if len(edits) == 0 {
		return nil
	}
	cl := &cloner{in: in, info: info, pkg: fn.Pkg.Types, subst: map[types.Object]ast.Expr{}}
	repl := map[ast.Expr]ast.Expr{}
	for _, e := range edits {
		if !blocked[e.obj] {
			repl[e.use] = e.src
		}
	}
	if len(repl) == 0 {
		return nil
	}
	// single-assignment locals whose definition is about to change
	dirty := map[types.Object]bool{}
	touched := func(e ast.Expr) bool {
		hit := false
		core.InspectAll(e, func(n ast.Node) bool {
			if x, ok := n.(ast.Expr); ok {
				if _, has := repl[x]; has {
					hit = true
				}
			}
			return !hit
		})
		return hit
	}
	core.InspectAll(body, func(n ast.Node) bool {
		switch x := n.(type) {
		case *ast.FuncLit:
			return false
		case *ast.AssignStmt:
			if x.Tok == token.DEFINE && len(x.Lhs) == len(x.Rhs) {
				for i, l := range x.Lhs {
					if o := Obj(info, l); o != nil && assigned[o] == 1 && touched(x.Rhs[i]) {
						dirty[o] = true
					}
				}
			}
		case *ast.ValueSpec:
			if len(x.Names) == len(x.Values) {
				for i, nm := range x.Names {
					if o := info.Defs[nm]; o != nil && assigned[o] == 0 && touched(x.Values[i]) {
						dirty[o] = true
					}
				}
			}
		}
		return true
	})
	replaceExprs(body, func(use ast.Expr) ast.Expr {
		src, ok := repl[use]
		if !ok {
			return nil
		}
		c := cl.retarget(ast.Unparen(src), use.Pos())
		if c == ast.Unparen(src) {
			return nil // not a shape retarget copies: leave the read as it is
		}
		return c
	})
	return dirty
}

// zeroExpr builds the zero value of a basic, pointer-like or interface type as a typed expression.
func zeroExpr(info *types.Info, t types.Type, pos token.Pos) ast.Expr {
	if t == nil {
		return nil
	}
	switch u := t.Underlying().(type) {
	case *types.Basic:
		var lit *ast.BasicLit
		switch {
		case u.Info()&types.IsString != 0:
			lit = &ast.BasicLit{ValuePos: pos, Kind: token.STRING, Value: `""`}
			info.Types[lit] = types.TypeAndValue{Type: t, Value: constant.MakeString("")}
		case u.Info()&types.IsInteger != 0:
			lit = &ast.BasicLit{ValuePos: pos, Kind: token.INT, Value: "0"}
			info.Types[lit] = types.TypeAndValue{Type: t, Value: constant.MakeInt64(0)}
		case u.Info()&types.IsBoolean != 0:
			id := &ast.Ident{NamePos: pos, Name: "false"}
			info.Uses[id] = types.Universe.Lookup("false")
			info.Types[id] = types.TypeAndValue{Type: t, Value: constant.MakeBool(false)}
			return id
		default:
			return nil
		}
		return lit
	case *types.Pointer, *types.Slice, *types.Map, *types.Chan, *types.Interface, *types.Signature:
		id := &ast.Ident{NamePos: pos, Name: "nil"}
		info.Uses[id] = types.Universe.Lookup("nil")
		info.Types[id] = types.TypeAndValue{Type: t}
		return id
	}
	return nil
}

var exprType = reflect.TypeOf((*ast.Expr)(nil)).Elem()

// replaceExprs replaces, below root, every identifier or selector in an
// expression position for which f returns a replacement.
func replaceExprs(root ast.Node, f func(ast.Expr) ast.Expr) {
	var walk func(v reflect.Value)
	walk = func(v reflect.Value) {
		switch v.Kind() {
		case reflect.Interface:
			if v.IsNil() {
				return
			}
			if v.Type() == exprType && v.CanSet() {
				switch x := v.Interface().(type) {
				case *ast.Ident, *ast.SelectorExpr:
					if r := f(x.(ast.Expr)); r != nil {
						v.Set(reflect.ValueOf(r))
						return
					}
				}
			}
			walk(v.Elem())
		case reflect.Ptr:
			if v.IsNil() || v.Type() == objectPtr || v.Type() == scopePtr {
				return
			}
			if v.Elem().Kind() == reflect.Struct {
				for i := 0; i < v.Elem().NumField(); i++ {
					walk(v.Elem().Field(i))
				}
			}
		case reflect.Slice:
			for i := 0; i < v.Len(); i++ {
				walk(v.Index(i))
			}
		}
	}
	walk(reflect.ValueOf(root))
}
