package flow

import (
	"go/ast"
	"go/token"
	"go/types"
	"reflect"

	"rscheck/core"
)

// constFields rewrites, in an inlined view, the reads of fields that are
// constants of the function: v is a local defined exactly once by a composite
// literal (`v := T{..}`) or its address (`v := &T{..}`), never reassigned and
// only ever mentioned as the base of a field selector (so nothing else can
// reach the struct); field f is never assigned and its address is never taken
// (no pointer-receiver method is called on it); the literal gives f a constant
// or a variable that is itself never assigned (a parameter). Then `v.f` IS that
// value wherever it is read, function literals included - a goroutine that
// copies through `sc.reader` copies through the reader handed in.
func constFields(info *types.Info, files []*ast.File, decl *ast.FuncDecl) {
	body := decl.Body
	if body == nil {
		return
	}
	type cand struct {
		lit *ast.CompositeLit
		stt *types.Struct
		n   int
	}
	cands := map[types.Object]*cand{}
	assigns := map[types.Object]int{}
	base := map[*ast.Ident]bool{}
	written := map[types.Object]map[string]bool{} // v -> fields written or whose address is taken
	mark := func(v types.Object, f string) {
		if written[v] == nil {
			written[v] = map[string]bool{}
		}
		written[v][f] = true
	}
	fieldOfSel := func(e ast.Expr) (types.Object, string, *ast.Ident) {
		sel, ok := ast.Unparen(e).(*ast.SelectorExpr)
		if !ok {
			return nil, "", nil
		}
		id, ok := ast.Unparen(sel.X).(*ast.Ident)
		if !ok {
			return nil, "", nil
		}
		if sl := info.Selections[sel]; sl == nil || sl.Kind() != types.FieldVal || len(sl.Index()) != 1 {
			return nil, "", nil
		}
		return core.ObjOf(info, id), sel.Sel.Name, id
	}
	var rootOf func(e ast.Expr) ast.Expr
	rootOf = func(e ast.Expr) ast.Expr {
		for {
			switch x := ast.Unparen(e).(type) {
			case *ast.IndexExpr:
				e = x.X
				continue
			case *ast.SliceExpr:
				e = x.X
				continue
			case *ast.SelectorExpr:
				if o, _, _ := fieldOfSel(x); o != nil {
					return x
				}
				e = x.X
				continue
			}
			return ast.Unparen(e)
		}
	}
	core.InspectAll(body, func(n ast.Node) bool {
		switch x := n.(type) {
		case *ast.AssignStmt:
			for i, l := range x.Lhs {
				if id, ok := ast.Unparen(l).(*ast.Ident); ok {
					o := core.ObjOf(info, id)
					if o == nil {
						continue
					}
					assigns[o]++
					base[id] = true
					if len(x.Lhs) != len(x.Rhs) {
						continue
					}
					r := ast.Unparen(x.Rhs[i])
					if u, isAddr := r.(*ast.UnaryExpr); isAddr && u.Op == token.AND {
						r = ast.Unparen(u.X)
					}
					if lit, isLit := r.(*ast.CompositeLit); isLit {
						t := info.TypeOf(lit)
						if t == nil {
							continue
						}
						if stt, isStruct := t.Underlying().(*types.Struct); isStruct {
							cands[o] = &cand{lit: lit, stt: stt}
						}
					}
					continue
				}
				if o, f, _ := fieldOfSel(rootOf(l)); o != nil {
					mark(o, f)
				}
			}
		case *ast.IncDecStmt:
			if o, f, _ := fieldOfSel(rootOf(x.X)); o != nil {
				mark(o, f)
			}
		case *ast.UnaryExpr:
			if x.Op == token.AND {
				if o, f, _ := fieldOfSel(rootOf(x.X)); o != nil {
					mark(o, f)
				}
			}
		case *ast.SelectorExpr:
			if o, _, id := fieldOfSel(x); o != nil {
				base[id] = true
			}
			// a pointer-receiver method called on (or bound from) a field takes the field's address
			if sl := info.Selections[x]; sl != nil && sl.Kind() == types.MethodVal {
				if sig, ok := sl.Obj().Type().(*types.Signature); ok && sig.Recv() != nil {
					if _, ptr := sig.Recv().Type().(*types.Pointer); ptr {
						if o, f, _ := fieldOfSel(rootOf(x.X)); o != nil {
							if _, isPtrField := info.TypeOf(x.X).Underlying().(*types.Pointer); !isPtrField {
								mark(o, f)
							}
						}
					}
				}
			}
		case *ast.RangeStmt:
			for _, l := range []ast.Expr{x.Key, x.Value} {
				if l == nil {
					continue
				}
				if o := Obj(info, l); o != nil {
					assigns[o] += 2
				}
				if o, f, _ := fieldOfSel(rootOf(l)); o != nil {
					mark(o, f)
				}
			}
		}
		return true
	})
	if len(cands) == 0 {
		return
	}
	// every other mention of a candidate disqualifies it
	core.InspectAll(body, func(n ast.Node) bool {
		if id, ok := n.(*ast.Ident); ok && !base[id] {
			if o := info.Uses[id]; o != nil && cands[o] != nil {
				delete(cands, o)
			}
		}
		return true
	})
	// frozen: a struct field that no code of the package ever assigns (it is set by composite literals only)
	frozen := map[types.Object]bool{}
	frozenField := func(f types.Object) bool {
		if r, done := frozen[f]; done {
			return r
		}
		ok := f != nil && len(files) > 0
		for _, file := range files {
			if !ok {
				break
			}
			ast.Inspect(file, func(n ast.Node) bool {
				check := func(l ast.Expr) {
					for {
						switch x := ast.Unparen(l).(type) {
						case *ast.IndexExpr:
							l = x.X
							continue
						case *ast.SliceExpr:
							l = x.X
							continue
						case *ast.SelectorExpr:
							if info.Uses[x.Sel] == f {
								ok = false
							}
						case *ast.StarExpr:
							// *p = T{..} replaces every field of the struct the field belongs to
							if pt, isPtr := info.TypeOf(x.X).(*types.Pointer); isPtr {
								if st, isStruct := pt.Elem().Underlying().(*types.Struct); isStruct {
									for i := 0; i < st.NumFields(); i++ {
										if st.Field(i) == f {
											ok = false
										}
									}
								}
							}
						}
						return
					}
				}
				switch x := n.(type) {
				case *ast.AssignStmt:
					for _, l := range x.Lhs {
						check(l)
					}
				case *ast.IncDecStmt:
					check(x.X)
				case *ast.UnaryExpr:
					if x.Op == token.AND {
						if sel, isSel := ast.Unparen(x.X).(*ast.SelectorExpr); isSel && info.Uses[sel.Sel] == f {
							// the address of the field itself: whoever holds it may write the field
							if _, basic := f.Type().Underlying().(*types.Basic); !basic {
								ok = false
							}
						}
					}
				}
				return ok
			})
		}
		frozen[f] = ok
		return ok
	}
	neverAssigned := func(e ast.Expr) bool {
		id, ok := ast.Unparen(e).(*ast.Ident)
		if !ok {
			return false
		}
		o, isVar := core.ObjOf(info, id).(*types.Var)
		return isVar && !o.IsField() && o.Pkg() != nil && o.Parent() != o.Pkg().Scope() && assigns[o] == 0 && cands[o] == nil
	}
	var constant func(e ast.Expr) bool
	constant = func(e ast.Expr) bool {
		e = ast.Unparen(e)
		if tv, ok := info.Types[e]; ok && tv.Value != nil {
			return true
		}
		switch x := e.(type) {
		case *ast.SelectorExpr:
			// p.f with p never assigned and f never assigned anywhere in the package (`d.r`)
			if sl := info.Selections[x]; sl != nil && sl.Kind() == types.FieldVal && len(sl.Index()) == 1 {
				return neverAssigned(x.X) && frozenField(sl.Obj())
			}
			return false
		case *ast.UnaryExpr:
			// &p.f with p never assigned: the address of a field does not change
			if x.Op == token.AND {
				if sel, ok := ast.Unparen(x.X).(*ast.SelectorExpr); ok {
					if sl := info.Selections[sel]; sl != nil && sl.Kind() == types.FieldVal && len(sl.Index()) == 1 {
						return neverAssigned(sel.X)
					}
				}
				// &v: the address of a local variable is the same wherever it is written
				if id, ok := ast.Unparen(x.X).(*ast.Ident); ok {
					if o, isVar := core.ObjOf(info, id).(*types.Var); isVar && !o.IsField() && o.Pkg() != nil && o.Parent() != o.Pkg().Scope() {
						return true
					}
				}
			}
			return false
		}
		id, ok := e.(*ast.Ident)
		if !ok {
			return false
		}
		switch core.ObjOf(info, id).(type) {
		case *types.Nil, *types.Const:
			return true
		case *types.Var:
			return neverAssigned(id)
		}
		return false
	}
	value := func(c *cand, f string) ast.Expr {
		for i, el := range c.lit.Elts {
			if kv, keyed := el.(*ast.KeyValueExpr); keyed {
				if k, isKey := kv.Key.(*ast.Ident); isKey && k.Name == f {
					return kv.Value
				}
			} else if i < c.stt.NumFields() && c.stt.Field(i).Name() == f {
				return el
			}
		}
		return nil
	}
	cl := &cloner{info: info, subst: map[types.Object]ast.Expr{}}
	replaceExprs(body, func(use ast.Expr) ast.Expr {
		sel, ok := use.(*ast.SelectorExpr)
		if !ok {
			return nil
		}
		o, f, _ := fieldOfSel(sel)
		c := cands[o]
		if c == nil || assigns[o] != 1 || written[o][f] {
			return nil
		}
		v := value(c, f)
		if v == nil || !constant(v) {
			return nil
		}
		r := cl.retarget(ast.Unparen(v), sel.Pos())
		if r == ast.Unparen(v) {
			return nil
		}
		return r
	})
	simplifyDerefs(info, body)
	// a candidate that is no longer mentioned and whose literal only holds constants: its definition is dead
	mentions := map[types.Object]int{}
	core.InspectAll(body, func(n ast.Node) bool {
		if id, ok := n.(*ast.Ident); ok {
			if o := info.Uses[id]; o != nil && cands[o] != nil {
				mentions[o]++
			}
		}
		return true
	})
	dead := func(s ast.Stmt) bool {
		as, ok := s.(*ast.AssignStmt)
		if !ok || as.Tok != token.DEFINE || len(as.Lhs) != 1 || len(as.Rhs) != 1 {
			return false
		}
		o := Obj(info, as.Lhs[0])
		c := cands[o]
		if c == nil || assigns[o] != 1 || mentions[o] != 0 {
			return false
		}
		for _, el := range c.lit.Elts {
			v := el
			if kv, keyed := el.(*ast.KeyValueExpr); keyed {
				v = kv.Value
			}
			if !constant(v) {
				return false
			}
		}
		return true
	}
	var prune func(list []ast.Stmt)
	prune = func(list []ast.Stmt) {
		for i, st := range list {
			if dead(st) {
				list[i] = &ast.EmptyStmt{Semicolon: st.Pos(), Implicit: true}
			}
		}
	}
	core.InspectAll(body, func(n ast.Node) bool {
		switch x := n.(type) {
		case *ast.BlockStmt:
			prune(x.List)
		case *ast.CaseClause:
			prune(x.Body)
		case *ast.CommClause:
			prune(x.Body)
		}
		return true
	})
}

// simplifyDerefs replaces `*&x` (and `*(&x)`) by x wherever it stands as an expression.
func simplifyDerefs(info *types.Info, root ast.Node) {
	var walk func(v reflect.Value)
	walk = func(v reflect.Value) {
		switch v.Kind() {
		case reflect.Interface:
			if v.IsNil() {
				return
			}
			if v.Type() == exprType && v.CanSet() {
				if st, ok := v.Interface().(*ast.StarExpr); ok {
					if u, isAddr := ast.Unparen(st.X).(*ast.UnaryExpr); isAddr && u.Op == token.AND {
						v.Set(reflect.ValueOf(u.X))
						walk(v)
						return
					}
				}
			}
			walk(v.Elem())
		case reflect.Ptr:
			if v.IsNil() || v.Type() == objectPtr || v.Type() == scopePtr {
				return
			}
			if v.Elem().Kind() == reflect.Struct {
				for i := 0; i < v.Elem().NumField(); i++ {
					walk(v.Elem().Field(i))
				}
			}
		case reflect.Slice:
			for i := 0; i < v.Len(); i++ {
				walk(v.Index(i))
			}
		}
	}
	walk(reflect.ValueOf(root))
}
