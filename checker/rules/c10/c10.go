// Package c10 decides the structural clauses of property C10 (RESP codec).
package c10

import (
	"fmt"
	"go/ast"
	"go/printer"
	"go/token"
	"go/types"
	"os"
	"regexp"
	"sort"
	"strings"

	"golang.org/x/tools/go/cfg"
	"golang.org/x/tools/go/packages"

	"rscheck/cfgq"
	"rscheck/core"
	"rscheck/driver"
	"rscheck/lin"
	"rscheck/pat"
	"rscheck/rules/c10/flow"
)

const pkg = "pkg/redis"

var Def = driver.PropDef{
	ID: "C10",
	Explanation: "Structural necessary conditions of the RESP codec in pkg/redis, checked on every path (unexported non-anchor helpers of the package are looked through: their bodies are inlined, up to two levels, with parameters bound to the arguments): " +
		"R1 byte accounting (per function, on every successful path the updates of Decoder.offset balance the bytes consumed from Decoder.r: ReadByte/UnreadByte <-> +-1, ReadBytes / io.ReadFull <-> len(buffer); offset starts at 0; MustDecodeOpt reports it); " +
		"R2 type-tag bijection (the five respType constants are + - : $ *; decoder case K builds &T{} and calls T's body decoder iff the encoder's case *T emits K before T's body encoder; inline commands only at depth 0; nested elements are decoded at depth+1); " +
		"R3 length domain (interval walk over the comparisons of the decoded length with constants: allocation only for n >= 0, nil exactly for n = -1, error for n <= -2); " +
		"R4 terminator checks (bulk buffer holds payload + 2 bytes and a value is returned only after CR and LF were seen; text lines end at LF, are at least 2 long and end in CR; integers go through ParseInt(.,10,64) whose error is returned); " +
		"R5 nil vs empty (-1 yields the literal nil, n >= 0 yields the freshly made buffer; the encoder emits -1 iff the value == nil); " +
		"R6 writer grammar (type byte first; text = bytes CRLF; bulk = len CRLF bytes CRLF; array = len CRLF then every element once, in order); " +
		"R7 integer table bias (table index bias in itos equals the bias used to fill the table, lookup guarded by 0 <= n < len(table), FormatInt base 10 otherwise).",
	NotDecided: "value round-trip through strconv for every integer, equality of decoded and encoded trees for every input (follows from R2/R5/R6 with strconv trusted), behaviour of bufio on partial reads, the tokenisation of inline command lines beyond their CR LF check.",
	Trusted:    []string{"go/parser, go/types, go/cfg (x/tools v0.29.0)", "bufio.Reader/Writer, io.ReadFull, strconv semantics"},
	Run:        Run,
}

type rs struct {
	c    *core.Ctx
	pk   *packages.Package
	info *types.Info
	inl  *flow.Inliner // helper calls inlined, the anchors of the rule set kept as calls
	flat *flow.Inliner // R6 only: the line/terminator writers are inlined into their callers as well
	cur  ast.Node      // body of the function under analysis (for resolving locals)
	// allocation found by the length-domain walk per decoder: the make statement and the variable that holds the decoded length in its size
	allocs  map[string]allocSite
	callers map[*types.Func][]*types.Func // direct callers per function of the package (absorbed)
	plain   map[*types.Func]bool          // functions the inliner expands (no defer, not variadic)
}

type allocSite struct {
	node   ast.Node      // the statement that allocates
	call   *ast.CallExpr // the make call
	size   ast.Expr      // its length (or capacity) argument, which depends on the decoded length
	holder ast.Expr      // a variable (or struct field) that holds the decoded length at that point
	buf    *ast.Ident    // the variable the buffer is assigned to
}

// anchors are the functions the rules reason about by name; everything else in
// the package that is unexported counts as a helper and is looked through.
var anchors = map[string]bool{"decodeResp": true, "decodeType": true, "decodeText": true, "decodeInt": true, "decodeBulkBytes": true, "decodeArray": true,
	"decodeSingleLineBulkBytesArray": true, "encodeResp": true, "encodeType": true, "encodeString": true, "encodeText": true, "encodeInt": true,
	"encodeBulkBytes": true, "encodeArray": true, "itos": true}

var flatKeep = map[string]bool{"encodeResp": true, "encodeType": true, "encodeInt": true, "itos": true}

func Run(c *core.Ctx) {
	pk := c.Pkg(pkg)
	if pk == nil {
		c.Undecidedf("anchor", pkg, token.NoPos, "package not loaded")
		return
	}
	r := &rs{c: c, pk: pk, info: pk.TypesInfo, allocs: map[string]allocSite{}}
	r.inl = flow.NewInliner(c.Program, func(f *types.Func) bool { return f.Exported() || anchors[f.Name()] })
	r.flat = flow.NewInliner(c.Program, func(f *types.Func) bool { return f.Exported() || flatKeep[f.Name()] })
	r.r1()
	r.r2()
	r.lengthDomain("decodeBulkBytes")
	r.lengthDomain("decodeArray")
	r.r4()
	r.r5enc("encodeBulkBytes")
	r.r5enc("encodeArray")
	r.r6()
	r.r7()
	r.extra()
	// instance counts confirmed on the pinned tree: fewer is UNDECIDED, never a vacuous pass
	flow.ExpectAll(c, map[string]int{"R1.account": 5, "R1.init": 2, "R1.report": 1, "R2.depth": 4, "R2.tags": 15, "R3.length": 6, "R4.term": 13, "R5.nil": 8, "R6.grammar": 10, "R7.bias": 5})
}

// ---- small helpers

func (r *rs) isField(e ast.Expr, typ, field string) bool {
	return core.IsFieldNamed(r.info, e, typ, field)
}

func (r *rs) method(recv, name string) *core.Fn {
	fn := r.inl.Fn(r.c.Func(pkg, recv, name))
	if fn != nil && os.Getenv("RS_DUMP") == name {
		printer.Fprint(os.Stderr, r.c.Fset, fn.Decl.Body)
		fmt.Fprintln(os.Stderr)
	}
	return fn
}

// guard records a three-valued guard obligation: VIOLATION only when a path
// reaches the site through tests that are all understood; tests on the tracked
// values in an unknown form make it UNDECIDED.
func (r *rs) guard(rule, key string, pos token.Pos, g *cfgq.Graph, p cfgq.Point, want func(cfgq.Fact) bool, opaque flow.EdgeTest, detail string) {
	switch v, w := flow.Guard(g, p, want, opaque); v {
	case flow.Holds:
		r.c.Check(rule, key, pos, true, detail)
	case flow.Violated:
		r.c.Check(rule, key, pos, false, detail, w...)
	default:
		r.c.Undecidedf(rule, key, pos, "the site is guarded by a test on the tracked value whose form is not understood; required: %s", detail)
	}
}

// flatMethod is method with the text/terminator writers inlined too (R6).
func (r *rs) flatMethod(recv, name string) *core.Fn { return r.flat.Fn(r.c.Func(pkg, recv, name)) }

func param(info *types.Info, fn *core.Fn, i int) types.Object {
	k := 0
	for _, f := range fn.Decl.Type.Params.List {
		for _, id := range f.Names {
			if k == i {
				return info.Defs[id]
			}
			k++
		}
	}
	return nil
}

// decls lists the production functions of the package as inlined views.
func (r *rs) decls() []*ast.FuncDecl {
	var out []*ast.FuncDecl
	for _, f := range r.pk.Syntax {
		if core.IsTestFile(r.c.Fset, f) {
			continue
		}
		for _, d := range f.Decls {
			if fd, ok := d.(*ast.FuncDecl); ok && fd.Body != nil {
				obj, _ := r.info.Defs[fd.Name].(*types.Func)
				if r.absorbed(obj) {
					continue // a helper whose calls are expanded in the views of its callers: judged there
				}
				out = append(out, r.inl.Fn(&core.Fn{Obj: obj, Decl: fd, Pkg: r.pk}).Decl)
			}
		}
	}
	return out
}

// absorbed: f is a helper (neither exported nor one of the rule set's anchors)
// that some other function of the package calls directly: the inliner expands
// it there, and looking at it once more on its own would judge a fragment.
func (r *rs) absorbed(f *types.Func) bool {
	return r.nesting(f, 0) > 0
}

// nesting: 0 for a function that is looked at on its own, otherwise how many
// expansions deep f ends up below such a function (the inliner stops at 2).
func (r *rs) nesting(f *types.Func, guard int) int {
	if f == nil || f.Exported() || anchors[f.Name()] || f.Name() == "init" || guard > 4 {
		return 0
	}
	if r.callers == nil {
		r.callers = map[*types.Func][]*types.Func{}
		r.plain = map[*types.Func]bool{}
		for _, file := range r.pk.Syntax {
			if core.IsTestFile(r.c.Fset, file) {
				continue
			}
			for _, d := range file.Decls {
				fd, ok := d.(*ast.FuncDecl)
				if !ok || fd.Body == nil {
					continue
				}
				self, _ := r.info.Defs[fd.Name].(*types.Func)
				plain := true
				core.InspectAll(fd.Body, func(m ast.Node) bool {
					switch x := m.(type) {
					case *ast.DeferStmt:
						plain = false
					case *ast.CallExpr:
						if g := core.CalleeFunc(r.info, x); g != nil && g != self && g.Pkg() == r.pk.Types {
							r.callers[g] = append(r.callers[g], self)
						}
					}
					return true
				})
				if sig, ok := self.Type().(*types.Signature); ok && sig.Variadic() {
					plain = false
				}
				r.plain[self] = plain
			}
		}
	}
	// a helper the inliner does not expand (defer, variadic), or one nobody calls, stands on its own
	if !r.plain[f] || len(r.callers[f]) == 0 {
		return 0
	}
	deepest := 0
	for _, c := range r.callers[f] {
		if d := r.nesting(c, guard+1); d > deepest {
			deepest = d
		}
	}
	if deepest+1 > 2 {
		return 0
	}
	return deepest + 1
}

func (r *rs) graph(fd *ast.FuncDecl) *cfgq.Graph {
	return flow.GraphOf(r.c.Program, &core.Fn{Decl: fd, Pkg: r.pk})
}

// unconv strips type conversions: int64(len(b)) -> len(b).
func unconv(info *types.Info, e ast.Expr) ast.Expr {
	for {
		e = ast.Unparen(e)
		call, ok := e.(*ast.CallExpr)
		if !ok || len(call.Args) != 1 {
			return e
		}
		if tv, ok := info.Types[call.Fun]; !ok || !tv.IsType() {
			return e
		}
		e = call.Args[0]
	}
}

// lenOf: e is len(<ident>) possibly converted; returns the ident's object.
func lenOf(info *types.Info, body ast.Node, e ast.Expr) types.Object {
	e = unconv(info, flow.Resolve(info, body, unconv(info, e)))
	call, ok := e.(*ast.CallExpr)
	if !ok || len(call.Args) != 1 || !flow.IsBuiltin(info, call, "len") {
		return nil
	}
	return flow.Obj(info, call.Args[0])
}

func isConst(info *types.Info, e ast.Expr, k int64) bool {
	v, ok := core.IntConst(info, e)
	return ok && v == k
}

// ---------------------------------------------------------------------------
// R1 byte accounting (engine E8): per-function balance of counter updates
// against consumption, propagated along every CFG path.

type event struct {
	terms map[string]int // change of (counted - consumed): "byte" for constants, atoms of the linear form otherwise
	desc  string
}

type acct struct {
	r        *rs
	fd       *ast.FuncDecl
	handled  map[ast.Node]bool
	bad      []string
	bases    map[types.Object]bool
	consume  int
	unread   int
	counters int
	keys     map[types.Object]bool
	lens     map[string]types.Object // lin key of len(v) -> v, for the slice variables of the function
}

func (a *acct) base(sel ast.Expr) {
	if s, ok := ast.Unparen(sel).(*ast.SelectorExpr); ok {
		if o := flow.Obj(a.r.info, s.X); o != nil {
			a.bases[o] = true
			return
		}
	}
	a.bad = append(a.bad, "Decoder field reached through an expression that is not a plain variable: "+a.r.c.Src(sel))
}

var addrRE = regexp.MustCompile(`@0x[0-9a-f]+`)

func pretty(k string) string { return addrRE.ReplaceAllString(k, "") }

// lenAtom is the key package lin gives to len(o).
func (a *acct) lenAtom(o types.Object) string {
	id := ast.NewIdent(o.Name())
	a.r.info.Uses[id] = o
	ln := ast.NewIdent("len")
	a.r.info.Uses[ln] = types.Universe.Lookup("len")
	return lin.Key(a.r.info, &ast.CallExpr{Fun: ln, Args: []ast.Expr{id}})
}

// terms turns a linear form into balance terms; the length of a buffer made
// once with a size whose variables do not change stands for that size, so
// `len(b)` and `n + 2` are the same amount for b := make([]byte, n+2).
func (a *acct) terms(f lin.Form, sign int) map[string]int {
	info := a.r.info
	if a.lens == nil {
		a.lens = map[string]types.Object{}
		core.InspectAll(a.fd.Body, func(m ast.Node) bool {
			if id, ok := m.(*ast.Ident); ok {
				if v, isVar := core.ObjOf(info, id).(*types.Var); isVar && !v.IsField() {
					switch v.Type().Underlying().(type) {
					case *types.Slice:
						a.lens[a.lenAtom(v)] = v
					}
				}
			}
			return true
		})
	}
	out := map[string]int{}
	if f.Const != 0 {
		out["byte"] += sign * int(f.Const)
	}
	for k, c := range f.Coef {
		if o, isLen := a.lens[k]; isLen {
			id := ast.NewIdent(o.Name())
			info.Uses[id] = o
			if mk, ok := ast.Unparen(flow.Resolve(info, a.fd.Body, id)).(*ast.CallExpr); ok && flow.IsBuiltin(info, mk, "make") && len(mk.Args) >= 2 {
				for k2, c2 := range a.terms(lin.Of(info, mk.Args[1]), sign*int(c)) {
					out[k2] += c2
				}
				continue
			}
			a.keys[o] = true
		}
		out[pretty(k)] += sign * int(c)
	}
	return out
}

func (a *acct) lenTerms(o types.Object, sign int) map[string]int {
	return a.terms(lin.Form{Coef: map[string]int64{a.lenAtom(o): 1}}, sign)
}

// events lists, in source order, the accounting events of one cfg node.
func (a *acct) events(n ast.Node) []event {
	r, info := a.r, a.r.info
	isR := func(e ast.Expr) bool { return r.isField(e, "Decoder", "r") }
	isOff := func(e ast.Expr) bool { return r.isField(e, "Decoder", "offset") }
	var evs []event
	unit := func(d int) map[string]int { return map[string]int{"byte": d} }
	amount := func(e ast.Expr, sign int, src ast.Node) {
		f := lin.Of(info, e)
		bad := false
		for k := range f.Coef {
			if strings.HasPrefix(k, "<") { // an expression lin could not key
				bad = true
			}
		}
		if bad {
			a.bad = append(a.bad, "offset changed by an amount that is not a linear combination of constants, variables and buffer lengths: "+r.c.Src(src))
			return
		}
		evs = append(evs, event{a.terms(f, sign), r.c.Src(src)})
		a.counters++
	}
	core.Inspect(n, func(m ast.Node) bool {
		switch s := m.(type) {
		case *ast.IncDecStmt:
			if isOff(s.X) {
				a.base(s.X)
				a.handled[ast.Unparen(s.X)] = true
				d := 1
				if s.Tok == token.DEC {
					d = -1
				}
				evs = append(evs, event{unit(d), r.c.Src(s)})
				a.counters++
			}
		case *ast.AssignStmt:
			for _, l := range s.Lhs {
				if !isOff(l) {
					continue
				}
				a.base(l)
				a.handled[ast.Unparen(l)] = true
				if len(s.Lhs) != 1 || len(s.Rhs) != 1 {
					a.bad = append(a.bad, "offset written in a multi-assignment: "+r.c.Src(s))
					continue
				}
				switch s.Tok {
				case token.ADD_ASSIGN:
					amount(s.Rhs[0], 1, s)
				case token.SUB_ASSIGN:
					amount(s.Rhs[0], -1, s)
				case token.ASSIGN:
					be, ok := ast.Unparen(s.Rhs[0]).(*ast.BinaryExpr)
					switch {
					case ok && (be.Op == token.ADD || be.Op == token.SUB) && pat.Same(info, be.X, l):
						a.handled[ast.Unparen(be.X)] = true
						amount(be.Y, map[bool]int{true: 1, false: -1}[be.Op == token.ADD], s)
					case ok && be.Op == token.ADD && pat.Same(info, be.Y, l):
						a.handled[ast.Unparen(be.Y)] = true
						amount(be.X, 1, s)
					default:
						a.bad = append(a.bad, "offset overwritten: "+r.c.Src(s))
					}
				default:
					a.bad = append(a.bad, "unrecognised offset update: "+r.c.Src(s))
				}
			}
			// b, err := d.r.ReadBytes(delim)
			if len(s.Rhs) == 1 {
				if call, ok := ast.Unparen(s.Rhs[0]).(*ast.CallExpr); ok && flow.MethodOn(call, "ReadBytes", isR) && len(s.Lhs) == 2 {
					if o := flow.Obj(info, s.Lhs[0]); o != nil {
						a.handled[call] = true
						evs = append(evs, event{a.lenTerms(o, -1), r.c.Src(call)})
						a.consume++
					}
				}
			}
		case *ast.CallExpr:
			sel, _ := ast.Unparen(s.Fun).(*ast.SelectorExpr)
			switch {
			case sel != nil && isR(sel.X):
				a.base(sel.X)
				a.handled[ast.Unparen(sel.X)] = true
				switch sel.Sel.Name {
				case "ReadByte":
					evs = append(evs, event{unit(-1), r.c.Src(s)})
					a.consume++
				case "UnreadByte":
					evs = append(evs, event{unit(+1), r.c.Src(s)})
					a.unread++
				case "ReadBytes":
					if !a.handled[s] {
						a.bad = append(a.bad, "result of ReadBytes is not bound to a variable: "+r.c.Src(s))
					}
				case "Peek", "Buffered", "Size":
					// non-consuming
				default:
					a.bad = append(a.bad, "unrecognised consumption from Decoder.r: "+r.c.Src(s))
				}
			case r.isReadFull(s) && isR(s.Args[0]):
				a.base(s.Args[0])
				a.handled[ast.Unparen(s.Args[0])] = true
				if o := flow.Obj(info, s.Args[1]); o != nil {
					evs = append(evs, event{a.lenTerms(o, -1), r.c.Src(s)})
					a.consume++
				} else {
					a.bad = append(a.bad, "io.ReadFull into an expression that is not a plain buffer variable: "+r.c.Src(s))
				}
			}
		case *ast.SelectorExpr:
			if isR(s) && !a.handled[s] {
				a.bad = append(a.bad, "Decoder.r escapes the recognised read calls: "+r.c.Src(s))
			}
		}
		return true
	})
	return evs
}

// isReadFull: a call that fills its whole buffer or fails - io.ReadFull(r, b),
// or io.ReadAtLeast(r, b, len(b)), which is how the library defines ReadFull.
func (r *rs) isReadFull(call *ast.CallExpr) bool {
	info := r.info
	f := core.CalleeFunc(info, call)
	if core.IsFunc(f, "io", "", "ReadFull") && len(call.Args) == 2 {
		return true
	}
	if core.IsFunc(f, "io", "", "ReadAtLeast") && len(call.Args) == 3 {
		if ln, ok := ast.Unparen(call.Args[2]).(*ast.CallExpr); ok && flow.IsBuiltin(info, ln, "len") && len(ln.Args) == 1 {
			return flow.Obj(info, call.Args[1]) != nil && pat.Same(info, ln.Args[0], call.Args[1])
		}
	}
	return false
}

func canon(bal map[string]int) string {
	var ks []string
	for k, v := range bal {
		if v != 0 {
			ks = append(ks, fmt.Sprintf("%s:%+d", k, v))
		}
	}
	sort.Strings(ks)
	return strings.Join(ks, " ")
}

func (r *rs) r1() {
	c, info := r.c, r.info
	consume, unread, funcs := 0, 0, 0
	for _, fd := range r.decls() {
		touches := false
		core.InspectAll(fd.Body, func(m ast.Node) bool {
			if e, ok := m.(ast.Expr); ok && (r.isField(e, "Decoder", "r") || r.isField(e, "Decoder", "offset")) {
				touches = true
			}
			return !touches
		})
		if !touches {
			continue
		}
		name := fd.Name.Name
		a := &acct{r: r, fd: fd, handled: map[ast.Node]bool{}, bases: map[types.Object]bool{}, keys: map[types.Object]bool{}}
		for _, fl := range core.FuncLits(fd.Body) {
			if core.MentionsField(info, fl, "Decoder", "r") || core.MentionsField(info, fl, "Decoder", "offset") {
				a.bad = append(a.bad, "Decoder state used inside a function literal")
			}
		}
		g := r.graph(fd)
		evOf := map[ast.Node][]event{}
		for _, b := range g.CFG.Blocks {
			for _, n := range b.Nodes {
				evOf[n] = a.events(n)
			}
		}
		if a.consume+a.unread+a.counters == 0 && len(a.bad) == 0 {
			continue // only reads offset / passes the reader along at construction
		}
		for o := range a.keys {
			if flow.Assignments(info, fd.Body, o) != 1 {
				a.bad = append(a.bad, fmt.Sprintf("buffer %s is re-assigned, its length is not a stable amount", o.Name()))
			}
		}
		if len(a.bases) > 1 {
			a.bad = append(a.bad, "more than one Decoder value is manipulated")
		}
		if len(a.bad) > 0 {
			c.Undecidedf("R1.account", "balance/"+name, fd.Pos(), "%s", strings.Join(a.bad, "; "))
			continue
		}
		funcs++
		consume += a.consume
		unread += a.unread
		// propagate balances
		type state struct {
			b     *cfg.Block
			bal   map[string]int
			trail []string
		}
		seen := map[string]bool{}
		work := []state{{g.CFG.Blocks[0], map[string]int{}, nil}}
		var failure []string
		failBal := ""
		overflow := false
		okExit := flow.OkExit(g)
		errEdge := flow.ErrEdge(g)
		for len(work) > 0 && failure == nil {
			s := work[0]
			work = work[1:]
			bal := map[string]int{}
			for k, v := range s.bal {
				bal[k] = v
			}
			trail := append([]string(nil), s.trail...)
			for _, n := range s.b.Nodes {
				for _, e := range evOf[n] {
					for k, d := range e.terms {
						bal[k] += d
					}
					trail = append(trail, fmt.Sprintf("L%d: %s  => counted-consumed: %s", c.Fset.Position(n.Pos()).Line, e.desc, orZero(canon(bal))))
				}
			}
			big := false
			for _, v := range bal {
				if v > 3 || v < -3 {
					big = true
				}
			}
			if big {
				overflow = true
				continue
			}
			if len(s.b.Succs) == 0 {
				if k := g.Exit(s.b); okExit(s.b, k) && canon(bal) != "" {
					failBal = canon(bal)
					failure = trail
					if k == cfgq.ExitRet {
						failure = append(failure, "returns through "+c.Src(s.b.Nodes[len(s.b.Nodes)-1]))
					}
				}
				continue
			}
			for si, t := range s.b.Succs {
				if errEdge(s.b, si) {
					continue // an error was just found non-nil: not a successful path, whatever the exit looks like
				}
				key := fmt.Sprintf("%d|%s", t.Index, canon(bal))
				if !seen[key] {
					seen[key] = true
					work = append(work, state{t, bal, trail})
				}
			}
		}
		// a residue over two or more different quantities (say len(b) against n) may still be zero at run
		// time: only a constant residue, or one over a single quantity, is a provable difference
		atoms := 0
		for _, part := range strings.Fields(failBal) {
			if !strings.HasPrefix(part, "byte:") {
				atoms++
			}
		}
		switch {
		case failure != nil && atoms >= 2:
			c.Undecidedf("R1.account", "balance/"+name, fd.Pos(), "the offset is advanced by an amount (%s) that cannot be related to the bytes consumed", failBal)
		case failure != nil:
			c.Check("R1.account", "balance/"+name, fd.Pos(), false,
				fmt.Sprintf("on a successful path through %s the offset and the bytes taken from the reader differ (counted-consumed = %s): the position reported by MustDecodeOpt is no longer the number of bytes consumed, so replication offsets derived from it are wrong", name, failBal), failure...)
		case overflow:
			c.Undecidedf("R1.account", "balance/"+name, fd.Pos(), "balance grows without bound on a looping path; not decided")
		default:
			c.Okf("R1.account", "balance/"+name, fd.Pos(), "%d consuming, %d un-consuming, %d counter updates balance on every successful path", a.consume, a.unread, a.counters)
		}
	}
	// The position lives in ONE Decoder. A function that gets a Decoder BY VALUE (value receiver, value
	// parameter) works on a copy: the copy shares the *bufio.Reader, so the bytes it reads are really
	// consumed, but what it adds to its offset is thrown away when it returns. Any update of the offset
	// field - or consumption from the reader - through such a copy breaks the balance for the caller.
	byValue := 0
	for _, file := range r.pk.Syntax {
		if core.IsTestFile(c.Fset, file) {
			continue
		}
		for _, d := range file.Decls {
			fd, ok := d.(*ast.FuncDecl)
			if !ok || fd.Body == nil {
				continue
			}
			var copies []types.Object
			fields := []*ast.FieldList{fd.Recv, fd.Type.Params}
			for _, fl := range fields {
				if fl == nil {
					continue
				}
				for _, f := range fl.List {
					t := info.TypeOf(f.Type)
					if t == nil || core.NamedTypeName(t) != "Decoder" {
						continue
					}
					if _, isPtr := t.(*types.Pointer); isPtr {
						continue
					}
					if _, isStruct := t.Underlying().(*types.Struct); !isStruct {
						continue
					}
					for _, nm := range f.Names {
						if o := info.Defs[nm]; o != nil {
							copies = append(copies, o)
						}
					}
				}
			}
			if len(copies) == 0 {
				continue
			}
			// a function that hands the copy back (returns a Decoder) may be a legitimate "with" helper
			returnsIt := false
			if fd.Type.Results != nil {
				for _, f := range fd.Type.Results.List {
					if core.NamedTypeName(info.TypeOf(f.Type)) == "Decoder" {
						returnsIt = true
					}
				}
			}
			onCopy := func(e ast.Expr, field string) bool {
				sel, ok := ast.Unparen(e).(*ast.SelectorExpr)
				if !ok || sel.Sel.Name != field {
					return false
				}
				for _, o := range copies {
					if flow.IsObj(info, o)(sel.X) {
						return true
					}
				}
				return false
			}
			var lost, consumed ast.Node
			core.InspectAll(fd.Body, func(m ast.Node) bool {
				switch x := m.(type) {
				case *ast.AssignStmt:
					for _, l := range x.Lhs {
						if onCopy(l, "offset") {
							lost = x
						}
					}
				case *ast.IncDecStmt:
					if onCopy(x.X, "offset") {
						lost = x
					}
				case *ast.CallExpr:
					if fs, ok := ast.Unparen(x.Fun).(*ast.SelectorExpr); ok && onCopy(fs.X, "r") {
						switch fs.Sel.Name {
						case "Peek", "Buffered", "Size":
						default:
							consumed = x
						}
					}
					for _, a := range x.Args {
						if onCopy(a, "r") {
							consumed = x
						}
					}
				}
				return true
			})
			if lost == nil && consumed == nil {
				continue
			}
			byValue++
			at := lost
			if at == nil {
				at = consumed
			}
			key := "by-value/" + fd.Name.Name
			if returnsIt {
				c.Undecidedf("R1.account", key, at.Pos(), "%s works on a Decoder passed by value and returns a Decoder: whether the caller keeps the returned copy is not followed", fd.Name.Name)
				continue
			}
			if lost == nil {
				// reading through the copy is real consumption; who counts it is not visible here
				c.Undecidedf("R1.account", key, at.Pos(), "%s consumes bytes through a Decoder passed by value (%s): the position cannot be advanced from here", fd.Name.Name, c.Src(at))
				continue
			}
			what := "updates the offset of"
			c.Failf("R1.account", key, at.Pos(), "%s %s a Decoder it received BY VALUE (%s): the copy shares the reader, so the bytes are consumed, but the position it counts is discarded with the copy when the function returns - the caller's offset no longer equals the bytes consumed, and every replication offset derived from it lags behind", fd.Name.Name, what, c.Src(at))
		}
	}
	if byValue == 0 {
		c.Okf("R1.account", "by-value", token.NoPos, "no function updates the offset of, or reads through, a Decoder passed by value")
	}
	if consume < 4 || unread < 1 || funcs < 5 {
		c.Undecidedf("instances", "R1.account", token.NoPos, "found %d consuming and %d un-consuming sites in %d functions; 4, 1 and 5 were confirmed by hand", consume, unread, funcs)
	}
	// offset starts at 0: every place that makes a Decoder - a composite literal, or a call of a function
	// of the package that returns one it has just built (a constructor; the call is then a site of its own)
	lits := 0
	type ctorInfo struct {
		verdict string // "zero", "bad", "param", "unknown"
		param   int    // for "param": the index of the parameter the offset is taken from
		k       int64  // for "bad"
		obj     *types.Func
	}
	ctors := map[*types.Func]*ctorInfo{}
	for _, fd := range r.decls() {
		self, _ := info.Defs[fd.Name].(*types.Func)
		core.InspectAll(fd.Body, func(m ast.Node) bool {
			cl, ok := m.(*ast.CompositeLit)
			if !ok || core.NamedTypeName(info.TypeOf(cl)) != "Decoder" {
				return true
			}
			st, _ := info.TypeOf(cl).Underlying().(*types.Struct)
			var v ast.Expr
			for i, el := range cl.Elts {
				if kv, ok := el.(*ast.KeyValueExpr); ok {
					if id, ok := kv.Key.(*ast.Ident); ok && id.Name == "offset" {
						v = kv.Value
					}
				} else if st != nil && i < st.NumFields() && st.Field(i).Name() == "offset" {
					v = el
				}
			}
			lits++
			key := "init/" + fd.Name.Name
			ci := &ctorInfo{verdict: "unknown", obj: self}
			if v == nil {
				ci.verdict = "zero"
				c.Okf("R1.init", key, cl.Pos(), "offset left at its zero value")
			} else if k, ok := core.IntConst(info, v); ok {
				ci.verdict, ci.k = "zero", k
				if k != 0 {
					ci.verdict = "bad"
				}
				c.Check("R1.init", key, cl.Pos(), k == 0, fmt.Sprintf("a new Decoder must start at offset 0 (found %d): every reported position would be shifted by that amount", k))
			} else {
				// the offset handed in by the caller: judged where the constructor is called
				isParam := false
				if fd.Type.Params != nil {
					idx := 0
					for _, f := range fd.Type.Params.List {
						for _, nm := range f.Names {
							if flow.IsObj(info, info.Defs[nm])(unconv(info, v)) {
								ci.verdict, ci.param, isParam = "param", idx, true
							}
							idx++
						}
					}
				}
				if isParam {
					c.Okf("R1.init", key, cl.Pos(), "the initial offset is the constructor's parameter: checked at its calls")
				} else {
					c.Undecidedf("R1.init", key, cl.Pos(), "initial offset %s is not a constant", c.Src(v))
				}
			}
			// a function that returns Decoders it builds is a constructor
			if self != nil {
				if sig, ok := self.Type().(*types.Signature); ok && sig.Results().Len() >= 1 && core.NamedTypeName(sig.Results().At(0).Type()) == "Decoder" {
					ctors[self] = ci
				}
			}
			return true
		})
	}
	for _, fd := range r.decls() {
		self, _ := info.Defs[fd.Name].(*types.Func)
		n := 0
		for _, call := range flow.FindCalls(fd.Body, func(call *ast.CallExpr) bool {
			f := core.CalleeFunc(info, call)
			return f != nil && ctors[f] != nil && f != self
		}) {
			ci := ctors[core.CalleeFunc(info, call)]
			lits++
			n++
			key := "init/" + fd.Name.Name
			if n > 1 {
				key = fmt.Sprintf("%s#%d", key, n)
			}
			switch ci.verdict {
			case "zero":
				c.Okf("R1.init", key, call.Pos(), "built by %s, whose Decoder starts at offset 0", ci.obj.Name())
			case "bad":
				c.Failf("R1.init", key, call.Pos(), "built by %s, whose Decoder starts at offset %d, not 0: every reported position would be shifted by that amount", ci.obj.Name(), ci.k)
			case "param":
				if ci.param < len(call.Args) {
					if k, ok := core.IntConst(info, call.Args[ci.param]); ok {
						c.Check("R1.init", key, call.Pos(), k == 0, fmt.Sprintf("a new Decoder must start at offset 0 (%s is called with %d): every reported position would be shifted by that amount", ci.obj.Name(), k))
						continue
					}
				}
				c.Undecidedf("R1.init", key, call.Pos(), "the initial offset handed to %s is not a constant", ci.obj.Name())
			default:
				c.Undecidedf("R1.init", key, call.Pos(), "built by %s, whose initial offset is not decided", ci.obj.Name())
			}
		}
	}
	if lits < 2 {
		c.Undecidedf("instances", "R1.init", token.NoPos, "only %d Decoder construction sites found, 2 confirmed by hand", lits)
	}
	// MustDecodeOpt reports the decoder's own offset
	if fn := r.inl.Fn(c.Func(pkg, "", "MustDecodeOpt")); fn != nil {
		_, b := pat.Stmt("_resp, _err = _d.decodeResp(0)").Find(info, fn.Decl.Body, nil)
		var ret ast.Node
		if b != nil {
			ret, _ = pat.Stmt("return _resp, _d.offset").Find(info, fn.Decl.Body, b)
		}
		if ret != nil {
			c.Okf("R1.report", "MustDecodeOpt", fn.Decl.Pos(), "returns the value decoded at depth 0 together with the same decoder's offset")
		} else {
			c.Undecidedf("R1.report", "MustDecodeOpt", fn.Decl.Pos(), "cannot find `resp, err := d.decodeResp(0) ... return resp, d.offset`")
		}
	}
}

func orZero(s string) string {
	if s == "" {
		return "0"
	}
	return s
}
