// Package c10 decides the structural clauses of property C10 (RESP codec).
package c10

import (
	"fmt"
	"go/ast"
	"go/constant"
	"go/token"
	"go/types"
	"math"
	"sort"
	"strings"

	"golang.org/x/tools/go/cfg"
	"golang.org/x/tools/go/packages"

	"rscheck/cfgq"
	"rscheck/core"
	"rscheck/driver"
	"rscheck/pat"
	"rscheck/rules/c10/flow"
)

const pkg = "pkg/redis"

var Def = driver.PropDef{
	ID: "C10",
	Explanation: "Structural necessary conditions of the RESP codec in pkg/redis, checked on every path: " +
		"R1 byte accounting (per function, on every successful path the updates of Decoder.offset balance the bytes consumed from Decoder.r: ReadByte/UnreadByte <-> +-1, ReadBytes / io.ReadFull <-> len(buffer); offset starts at 0; MustDecodeOpt reports it); " +
		"R2 type-tag bijection (the five respType constants are + - : $ *; decoder case K builds &T{} and calls T's body decoder iff the encoder's case *T emits K before T's body encoder; inline commands only at depth 0; nested elements are decoded at depth+1); " +
		"R3 length domain (interval walk over the comparisons of the decoded length with constants: allocation only for n >= 0, nil exactly for n = -1, error for n <= -2); " +
		"R4 terminator checks (bulk buffer holds payload + 2 bytes and a value is returned only after CR and LF were seen; text lines end at LF, are at least 2 long and end in CR; integers go through ParseInt(.,10,64) whose error is returned); " +
		"R5 nil vs empty (-1 yields the literal nil, n >= 0 yields the freshly made buffer; the encoder emits -1 iff the value == nil); " +
		"R6 writer grammar (type byte first; text = bytes CRLF; bulk = len CRLF bytes CRLF; array = len CRLF then every element once, in order); " +
		"R7 integer table bias (table index bias in itos equals the bias used to fill the table, lookup guarded by 0 <= n < len(table), FormatInt base 10 otherwise).",
	NotDecided: "value round-trip through strconv for every integer, equality of decoded and encoded trees for every input (follows from R2/R5/R6 with strconv trusted), behaviour of bufio on partial reads, the tokenisation of inline command lines beyond their CR LF check.",
	Trusted:    []string{"go/parser, go/types, go/cfg (x/tools v0.29.0)", "bufio.Reader/Writer, io.ReadFull, strconv semantics"},
	Run:        Run,
}

type rs struct {
	c    *core.Ctx
	pk   *packages.Package
	info *types.Info
}

func Run(c *core.Ctx) {
	pk := c.Pkg(pkg)
	if pk == nil {
		c.Undecidedf("anchor", pkg, token.NoPos, "package not loaded")
		return
	}
	r := &rs{c, pk, pk.TypesInfo}
	r.r1()
	r.r2()
	r.lengthDomain("decodeBulkBytes", "ErrBadRespBytesLen")
	r.lengthDomain("decodeArray", "ErrBadRespArrayLen")
	r.r4()
	r.r5enc("encodeBulkBytes")
	r.r5enc("encodeArray")
	r.r6()
	r.r7()
}

// ---- small helpers

func (r *rs) isField(e ast.Expr, typ, field string) bool { return core.IsFieldNamed(r.info, e, typ, field) }

func (r *rs) method(recv, name string) *core.Fn { return r.c.Func(pkg, recv, name) }

func param(info *types.Info, fn *core.Fn, i int) types.Object {
	k := 0
	for _, f := range fn.Decl.Type.Params.List {
		for _, id := range f.Names {
			if k == i {
				return info.Defs[id]
			}
			k++
		}
	}
	return nil
}

func (r *rs) decls() []*ast.FuncDecl {
	var out []*ast.FuncDecl
	for _, f := range r.pk.Syntax {
		for _, d := range f.Decls {
			if fd, ok := d.(*ast.FuncDecl); ok && fd.Body != nil {
				out = append(out, fd)
			}
		}
	}
	return out
}

func (r *rs) graph(fd *ast.FuncDecl) *cfgq.Graph {
	return cfgq.Of(r.c.Program, &core.Fn{Decl: fd, Pkg: r.pk})
}

// unconv strips type conversions: int64(len(b)) -> len(b).
func unconv(info *types.Info, e ast.Expr) ast.Expr {
	for {
		e = ast.Unparen(e)
		call, ok := e.(*ast.CallExpr)
		if !ok || len(call.Args) != 1 {
			return e
		}
		if tv, ok := info.Types[call.Fun]; !ok || !tv.IsType() {
			return e
		}
		e = call.Args[0]
	}
}

// lenOf: e is len(<ident>) possibly converted; returns the ident's object.
func lenOf(info *types.Info, body ast.Node, e ast.Expr) types.Object {
	e = unconv(info, flow.Resolve(info, body, unconv(info, e)))
	call, ok := e.(*ast.CallExpr)
	if !ok || len(call.Args) != 1 || !flow.IsBuiltin(info, call, "len") {
		return nil
	}
	return flow.Obj(info, call.Args[0])
}

func isConst(info *types.Info, e ast.Expr, k int64) bool {
	v, ok := core.IntConst(info, e)
	return ok && v == k
}

// ---------------------------------------------------------------------------
// R1 byte accounting (engine E8): per-function balance of counter updates
// against consumption, propagated along every CFG path.

type event struct {
	key  string // "1" for single bytes, "len(<var>)" for a whole buffer
	d    int    // change of (counted - consumed)
	desc string
}

type acct struct {
	r        *rs
	fd       *ast.FuncDecl
	handled  map[ast.Node]bool
	bad      []string
	bases    map[types.Object]bool
	consume  int
	unread   int
	counters int
	keys     map[types.Object]bool
}

func (a *acct) base(sel ast.Expr) {
	if s, ok := ast.Unparen(sel).(*ast.SelectorExpr); ok {
		if o := flow.Obj(a.r.info, s.X); o != nil {
			a.bases[o] = true
			return
		}
	}
	a.bad = append(a.bad, "Decoder field reached through an expression that is not a plain variable: "+a.r.c.Src(sel))
}

func (a *acct) lenKey(o types.Object) string {
	a.keys[o] = true
	return "len(" + o.Name() + ")"
}

// events lists, in source order, the accounting events of one cfg node.
func (a *acct) events(n ast.Node) []event {
	r, info := a.r, a.r.info
	isR := func(e ast.Expr) bool { return r.isField(e, "Decoder", "r") }
	isOff := func(e ast.Expr) bool { return r.isField(e, "Decoder", "offset") }
	var evs []event
	amount := func(e ast.Expr, sign int, src ast.Node) {
		if k, ok := core.IntConst(info, unconv(info, e)); ok {
			evs = append(evs, event{"byte", sign * int(k), r.c.Src(src)})
			a.counters++
		} else if o := lenOf(info, a.fd.Body, e); o != nil {
			evs = append(evs, event{a.lenKey(o), sign, r.c.Src(src)})
			a.counters++
		} else {
			a.bad = append(a.bad, "offset changed by an amount that is neither a constant nor len(buffer): "+r.c.Src(src))
		}
	}
	core.Inspect(n, func(m ast.Node) bool {
		switch s := m.(type) {
		case *ast.IncDecStmt:
			if isOff(s.X) {
				a.base(s.X)
				a.handled[ast.Unparen(s.X)] = true
				d := 1
				if s.Tok == token.DEC {
					d = -1
				}
				evs = append(evs, event{"byte", d, r.c.Src(s)})
				a.counters++
			}
		case *ast.AssignStmt:
			for _, l := range s.Lhs {
				if !isOff(l) {
					continue
				}
				a.base(l)
				a.handled[ast.Unparen(l)] = true
				if len(s.Lhs) != 1 || len(s.Rhs) != 1 {
					a.bad = append(a.bad, "offset written in a multi-assignment: "+r.c.Src(s))
					continue
				}
				switch s.Tok {
				case token.ADD_ASSIGN:
					amount(s.Rhs[0], 1, s)
				case token.SUB_ASSIGN:
					amount(s.Rhs[0], -1, s)
				case token.ASSIGN:
					be, ok := ast.Unparen(s.Rhs[0]).(*ast.BinaryExpr)
					switch {
					case ok && (be.Op == token.ADD || be.Op == token.SUB) && pat.Same(info, be.X, l):
						a.handled[ast.Unparen(be.X)] = true
						amount(be.Y, map[bool]int{true: 1, false: -1}[be.Op == token.ADD], s)
					case ok && be.Op == token.ADD && pat.Same(info, be.Y, l):
						a.handled[ast.Unparen(be.Y)] = true
						amount(be.X, 1, s)
					default:
						a.bad = append(a.bad, "offset overwritten: "+r.c.Src(s))
					}
				default:
					a.bad = append(a.bad, "unrecognised offset update: "+r.c.Src(s))
				}
			}
			// b, err := d.r.ReadBytes(delim)
			if len(s.Rhs) == 1 {
				if call, ok := ast.Unparen(s.Rhs[0]).(*ast.CallExpr); ok && flow.MethodOn(call, "ReadBytes", isR) && len(s.Lhs) == 2 {
					if o := flow.Obj(info, s.Lhs[0]); o != nil {
						a.handled[call] = true
						evs = append(evs, event{a.lenKey(o), -1, r.c.Src(call)})
						a.consume++
					}
				}
			}
		case *ast.CallExpr:
			sel, _ := ast.Unparen(s.Fun).(*ast.SelectorExpr)
			switch {
			case sel != nil && isR(sel.X):
				a.base(sel.X)
				a.handled[ast.Unparen(sel.X)] = true
				switch sel.Sel.Name {
				case "ReadByte":
					evs = append(evs, event{"byte", -1, r.c.Src(s)})
					a.consume++
				case "UnreadByte":
					evs = append(evs, event{"byte", +1, r.c.Src(s)})
					a.unread++
				case "ReadBytes":
					if !a.handled[s] {
						a.bad = append(a.bad, "result of ReadBytes is not bound to a variable: "+r.c.Src(s))
					}
				case "Peek", "Buffered", "Size":
					// non-consuming
				default:
					a.bad = append(a.bad, "unrecognised consumption from Decoder.r: "+r.c.Src(s))
				}
			case core.IsFunc(core.CalleeFunc(info, s), "io", "", "ReadFull") && len(s.Args) == 2 && isR(s.Args[0]):
				a.base(s.Args[0])
				a.handled[ast.Unparen(s.Args[0])] = true
				if o := flow.Obj(info, s.Args[1]); o != nil {
					evs = append(evs, event{a.lenKey(o), -1, r.c.Src(s)})
					a.consume++
				} else {
					a.bad = append(a.bad, "io.ReadFull into an expression that is not a plain buffer variable: "+r.c.Src(s))
				}
			}
		case *ast.SelectorExpr:
			if isR(s) && !a.handled[s] {
				a.bad = append(a.bad, "Decoder.r escapes the recognised read calls: "+r.c.Src(s))
			}
		}
		return true
	})
	return evs
}

func canon(bal map[string]int) string {
	var ks []string
	for k, v := range bal {
		if v != 0 {
			ks = append(ks, fmt.Sprintf("%s:%+d", k, v))
		}
	}
	sort.Strings(ks)
	return strings.Join(ks, " ")
}

func (r *rs) r1() {
	c, info := r.c, r.info
	consume, unread, funcs := 0, 0, 0
	for _, fd := range r.decls() {
		touches := false
		core.InspectAll(fd.Body, func(m ast.Node) bool {
			if e, ok := m.(ast.Expr); ok && (r.isField(e, "Decoder", "r") || r.isField(e, "Decoder", "offset")) {
				touches = true
			}
			return !touches
		})
		if !touches {
			continue
		}
		name := fd.Name.Name
		a := &acct{r: r, fd: fd, handled: map[ast.Node]bool{}, bases: map[types.Object]bool{}, keys: map[types.Object]bool{}}
		for _, fl := range core.FuncLits(fd.Body) {
			if core.MentionsField(info, fl, "Decoder", "r") || core.MentionsField(info, fl, "Decoder", "offset") {
				a.bad = append(a.bad, "Decoder state used inside a function literal")
			}
		}
		g := r.graph(fd)
		evOf := map[ast.Node][]event{}
		for _, b := range g.CFG.Blocks {
			for _, n := range b.Nodes {
				evOf[n] = a.events(n)
			}
		}
		if a.consume+a.unread+a.counters == 0 && len(a.bad) == 0 {
			continue // only reads offset / passes the reader along at construction
		}
		for o := range a.keys {
			if flow.Assignments(info, fd.Body, o) != 1 {
				a.bad = append(a.bad, fmt.Sprintf("buffer %s is re-assigned, its length is not a stable amount", o.Name()))
			}
		}
		if len(a.bases) > 1 {
			a.bad = append(a.bad, "more than one Decoder value is manipulated")
		}
		if len(a.bad) > 0 {
			c.Undecidedf("R1.account", "balance/"+name, fd.Pos(), "%s", strings.Join(a.bad, "; "))
			continue
		}
		funcs++
		consume += a.consume
		unread += a.unread
		// propagate balances
		type state struct {
			b     *cfg.Block
			bal   map[string]int
			trail []string
		}
		seen := map[string]bool{}
		work := []state{{g.CFG.Blocks[0], map[string]int{}, nil}}
		var failure []string
		failBal := ""
		overflow := false
		okExit := flow.OkExit(g)
		for len(work) > 0 && failure == nil {
			s := work[0]
			work = work[1:]
			bal := map[string]int{}
			for k, v := range s.bal {
				bal[k] = v
			}
			trail := append([]string(nil), s.trail...)
			for _, n := range s.b.Nodes {
				for _, e := range evOf[n] {
					bal[e.key] += e.d
					trail = append(trail, fmt.Sprintf("L%d: %s  => counted-consumed: %s", c.Fset.Position(n.Pos()).Line, e.desc, orZero(canon(bal))))
				}
			}
			big := false
			for _, v := range bal {
				if v > 3 || v < -3 {
					big = true
				}
			}
			if big {
				overflow = true
				continue
			}
			if len(s.b.Succs) == 0 {
				if k := g.Exit(s.b); okExit(s.b, k) && canon(bal) != "" {
					failBal = canon(bal)
					failure = trail
					if k == cfgq.ExitRet {
						failure = append(failure, "returns through "+c.Src(s.b.Nodes[len(s.b.Nodes)-1]))
					}
				}
				continue
			}
			for _, t := range s.b.Succs {
				key := fmt.Sprintf("%d|%s", t.Index, canon(bal))
				if !seen[key] {
					seen[key] = true
					work = append(work, state{t, bal, trail})
				}
			}
		}
		switch {
		case failure != nil:
			c.Check("R1.account", "balance/"+name, fd.Pos(), false,
				fmt.Sprintf("on a successful path through %s the offset and the bytes taken from the reader differ (counted-consumed = %s): the position reported by MustDecodeOpt is no longer the number of bytes consumed, so replication offsets derived from it are wrong", name, failBal), failure...)
		case overflow:
			c.Undecidedf("R1.account", "balance/"+name, fd.Pos(), "balance grows without bound on a looping path; not decided")
		default:
			c.Okf("R1.account", "balance/"+name, fd.Pos(), "%d consuming, %d un-consuming, %d counter updates balance on every successful path", a.consume, a.unread, a.counters)
		}
	}
	if consume < 4 || unread < 1 || funcs < 5 {
		c.Undecidedf("instances", "R1.account", token.NoPos, "found %d consuming and %d un-consuming sites in %d functions; 4, 1 and 5 were confirmed by hand", consume, unread, funcs)
	}
	// offset starts at 0
	lits := 0
	for _, fd := range r.decls() {
		core.InspectAll(fd.Body, func(m ast.Node) bool {
			cl, ok := m.(*ast.CompositeLit)
			if !ok || core.NamedTypeName(info.TypeOf(cl)) != "Decoder" {
				return true
			}
			st, _ := info.TypeOf(cl).Underlying().(*types.Struct)
			var v ast.Expr
			for i, el := range cl.Elts {
				if kv, ok := el.(*ast.KeyValueExpr); ok {
					if id, ok := kv.Key.(*ast.Ident); ok && id.Name == "offset" {
						v = kv.Value
					}
				} else if st != nil && i < st.NumFields() && st.Field(i).Name() == "offset" {
					v = el
				}
			}
			lits++
			key := "init/" + fd.Name.Name
			if v == nil {
				c.Okf("R1.init", key, cl.Pos(), "offset left at its zero value")
			} else if k, ok := core.IntConst(info, v); ok {
				c.Check("R1.init", key, cl.Pos(), k == 0, fmt.Sprintf("a new Decoder must start at offset 0 (found %d): every reported position would be shifted by that amount", k))
			} else {
				c.Undecidedf("R1.init", key, cl.Pos(), "initial offset %s is not a constant", c.Src(v))
			}
			return true
		})
	}
	if lits < 2 {
		c.Undecidedf("instances", "R1.init", token.NoPos, "only %d Decoder literals found, 2 confirmed by hand", lits)
	}
	// MustDecodeOpt reports the decoder's own offset
	if fn := c.Func(pkg, "", "MustDecodeOpt"); fn != nil {
		_, b := pat.Stmt("_resp, _err = _d.decodeResp(0)").Find(info, fn.Decl.Body, nil)
		var ret ast.Node
		if b != nil {
			ret, _ = pat.Stmt("return _resp, _d.offset").Find(info, fn.Decl.Body, b)
		}
		if ret != nil {
			c.Okf("R1.report", "MustDecodeOpt", fn.Decl.Pos(), "returns the value decoded at depth 0 together with the same decoder's offset")
		} else {
			c.Undecidedf("R1.report", "MustDecodeOpt", fn.Decl.Pos(), "cannot find `resp, err := d.decodeResp(0) ... return resp, d.offset`")
		}
	}
}

func orZero(s string) string {
	if s == "" {
		return "0"
	}
	return s
}

// ---------------------------------------------------------------------------
// R2 type-tag bijection

type tagRef struct {
	tag      byte
	typ      string
	dec, enc string
}

var tagTable = []tagRef{
	{'+', "String", "decodeText", "encodeText"},
	{'-', "Error", "decodeText", "encodeText"},
	{':', "Int", "decodeInt", "encodeInt"},
	{'$', "BulkBytes", "decodeBulkBytes", "encodeBulkBytes"},
	{'*', "Array", "decodeArray", "encodeArray"},
}

// builtType: the named struct type T of the first &T{...} under n.
func (r *rs) builtType(n ast.Node) string {
	out := ""
	core.Inspect(n, func(m ast.Node) bool {
		if u, ok := m.(*ast.UnaryExpr); ok && u.Op == token.AND && out == "" {
			if cl, ok := ast.Unparen(u.X).(*ast.CompositeLit); ok {
				out = core.NamedTypeName(r.info.TypeOf(cl))
			}
		}
		return out == ""
	})
	return out
}

func (r *rs) r2() {
	c, info := r.c, r.info
	// the constants
	scope := r.pk.Types.Scope()
	have := map[int64]string{}
	for _, n := range scope.Names() {
		if k, ok := scope.Lookup(n).(*types.Const); ok && core.NamedTypeName(k.Type()) == "respType" {
			if v, exact := constant.Int64Val(constant.ToInt(k.Val())); exact {
				have[v] = n
			}
		}
	}
	if len(have) == 0 {
		c.Undecidedf("R2.tags", "constants", token.NoPos, "no constants of type respType found")
		return
	}
	for _, t := range tagTable {
		_, ok := have[int64(t.tag)]
		c.Check("R2.tags", fmt.Sprintf("const/%s", t.typ), token.NoPos, ok,
			fmt.Sprintf("a respType constant must have the value %q, the RESP marker of %s; without it that RESP type is neither recognised nor produced", t.tag, t.typ))
	}
	decodeResp, encodeResp := r.method("Decoder", "decodeResp"), r.method("encoder", "encodeResp")
	encodeType, inline, decodeArray := r.method("encoder", "encodeType"), r.method("Decoder", "decodeSingleLineBulkBytesArray"), r.method("Decoder", "decodeArray")
	decM, encM := map[string]*core.Fn{}, map[string]*core.Fn{}
	okAnch := decodeResp != nil && encodeResp != nil && encodeType != nil && inline != nil && decodeArray != nil
	for _, t := range tagTable {
		if decM[t.dec] == nil {
			decM[t.dec] = r.method("Decoder", t.dec)
		}
		if encM[t.enc] == nil {
			encM[t.enc] = r.method("encoder", t.enc)
		}
		if decM[t.dec] == nil || encM[t.enc] == nil || scope.Lookup(t.typ) == nil {
			okAnch = false
		}
	}
	if !okAnch {
		return
	}
	// decoder: switch over the value returned by decodeType
	_, b := pat.Stmt("_t, _err = _d.decodeType()").Find(info, decodeResp.Decl.Body, nil)
	var sw *ast.SwitchStmt
	if b != nil {
		core.Inspect(decodeResp.Decl.Body, func(m ast.Node) bool {
			if s, ok := m.(*ast.SwitchStmt); ok && sw == nil && s.Tag != nil && pat.Same(info, s.Tag, b["_t"]) {
				sw = s
			}
			return true
		})
	}
	if sw == nil {
		c.Undecidedf("R2.tags", "decode/switch", decodeResp.Decl.Pos(), "cannot find the switch over the result of decodeType in decodeResp")
		return
	}
	type arm struct {
		typ    string
		callee *types.Func
		pos    token.Pos
	}
	dec := map[int64]arm{}
	var deflt *ast.CaseClause
	for _, s := range sw.Body.List {
		cc := s.(*ast.CaseClause)
		if cc.List == nil {
			deflt = cc
			continue
		}
		a := arm{typ: r.builtType(cc), pos: cc.Pos()}
		for _, call := range flow.FindCalls(cc, func(call *ast.CallExpr) bool { return true }) {
			if f := core.CalleeFunc(info, call); f != nil && a.callee == nil && core.NamedTypeName(recvOf(f)) == "Decoder" {
				a.callee = f
			}
		}
		for _, e := range cc.List {
			if v, ok := core.IntConst(info, e); ok {
				dec[v] = a
			} else {
				c.Undecidedf("R2.tags", "decode/case", e.Pos(), "case label %s is not a constant", c.Src(e))
			}
		}
	}
	// encoder: type switch
	var tsw *ast.TypeSwitchStmt
	core.Inspect(encodeResp.Decl.Body, func(m ast.Node) bool {
		if s, ok := m.(*ast.TypeSwitchStmt); ok && tsw == nil {
			tsw = s
		}
		return true
	})
	if tsw == nil {
		c.Undecidedf("R2.tags", "encode/switch", encodeResp.Decl.Pos(), "cannot find the type switch in encodeResp")
		return
	}
	ge := cfgq.Of(c.Program, encodeResp)
	type earm struct {
		tag     int64
		callee  *types.Func
		ordered bool
		pos     token.Pos
	}
	enc := map[string]earm{}
	for _, s := range tsw.Body.List {
		cc := s.(*ast.CaseClause)
		if len(cc.List) != 1 {
			continue
		}
		tn := core.NamedTypeName(info.TypeOf(cc.List[0]))
		a := earm{tag: -1, pos: cc.Pos()}
		var tagCall, bodyCall *ast.CallExpr
		for _, call := range flow.FindCalls(cc, func(call *ast.CallExpr) bool { return true }) {
			f := core.CalleeFunc(info, call)
			if f == nil || core.NamedTypeName(recvOf(f)) != "encoder" {
				continue
			}
			if f == encodeType.Obj && len(call.Args) == 1 && tagCall == nil {
				if v, ok := core.IntConst(info, call.Args[0]); ok {
					a.tag, tagCall = v, call
				}
			} else if bodyCall == nil {
				a.callee, bodyCall = f, call
			}
		}
		if tagCall != nil && bodyCall != nil {
			if p, ok := ge.Find(bodyCall); ok {
				a.ordered, _ = ge.Dominated(p, flow.CallOn(ge, func(call *ast.CallExpr) bool { return call == tagCall }))
			}
			// the payload is the matched value's field
			if len(bodyCall.Args) != 1 || pat.Expr("_x.Value").Match(info, bodyCall.Args[0], nil) == nil {
				a.callee = nil
			}
		}
		enc[tn] = a
	}
	for _, t := range tagTable {
		d, okd := dec[int64(t.tag)]
		c.Check("R2.tags", "decode/"+t.typ, d.pos, okd && d.typ == t.typ && d.callee == decM[t.dec].Obj,
			fmt.Sprintf("tag %q must build &%s{} and fill it through %s (found: type %q, decoder %v): otherwise a value encoded as %s comes back as something else", t.tag, t.typ, t.dec, d.typ, fname(d.callee), t.typ))
		e, oke := enc[t.typ]
		c.Check("R2.tags", "encode/"+t.typ, e.pos, oke && e.tag == int64(t.tag) && e.callee == encM[t.enc].Obj && e.ordered,
			fmt.Sprintf("*%s must be written as tag %q followed by %s(x.Value) (found: tag %q, encoder %v, tag-first=%v): otherwise the decoder reads the value back as another type", t.typ, t.tag, t.enc, rune(e.tag), fname(e.callee), e.ordered))
	}
	// inline commands only at depth 0, and only for an unknown tag
	gd := cfgq.Of(c.Program, decodeResp)
	depth := param(info, decodeResp, 0)
	calls := flow.FindCalls(decodeResp.Decl.Body, func(call *ast.CallExpr) bool { return core.CalleeFunc(info, call) == inline.Obj })
	if len(calls) != 1 || depth == nil {
		c.Undecidedf("R2.depth", "inline-fallback", decodeResp.Decl.Pos(), "expected exactly one call of decodeSingleLineBulkBytesArray in decodeResp, found %d", len(calls))
	} else {
		inDefault := deflt != nil && deflt.Pos() <= calls[0].Pos() && calls[0].End() <= deflt.End()
		p, found := gd.Find(calls[0])
		if !inDefault || !found {
			c.Undecidedf("R2.depth", "inline-fallback", calls[0].Pos(), "the inline-command fallback is not in the default arm of the tag switch")
		} else {
			ok, w := flow.OnlyVia(gd, p, func(f cfgq.Fact) bool { return flow.CmpIs(info, f, flow.IsObj(info, depth), token.EQL, 0) || flow.CmpIs(info, f, flow.IsObj(info, depth), token.LEQ, 0) })
			c.Check("R2.depth", "inline-fallback", calls[0].Pos(), ok,
				"the inline-command parser must be reachable only at depth 0: an unknown type byte inside an array has to yield an error, not a value", w...)
		}
	}
	// recursion passes depth+k, entry points pass 0
	dparam := param(info, decodeArray, 0)
	entries := 0
	for _, fd := range r.decls() {
		for _, call := range flow.FindCalls(fd.Body, func(call *ast.CallExpr) bool { return core.CalleeFunc(info, call) == decodeResp.Obj }) {
			if len(call.Args) != 1 {
				continue
			}
			arg := ast.Unparen(call.Args[0])
			if fd == decodeArray.Decl {
				key := "nested-depth/" + fd.Name.Name
				if b := pat.Expr("_depth + _k").Match(info, arg, pat.Binds{"_depth": decodeArray.Decl.Type.Params.List[0].Names[0]}); b != nil && dparam != nil {
					k, isC := core.IntConst(info, b["_k"].(ast.Expr))
					if !isC {
						c.Undecidedf("R2.depth", key, call.Pos(), "depth increment %s is not a constant", c.Src(b["_k"]))
					} else {
						c.Check("R2.depth", key, call.Pos(), k >= 1, "array elements must be decoded at a depth greater than their array's, or inline commands would be accepted inside arrays")
					}
				} else if flow.IsObj(info, dparam)(arg) || isConst(info, arg, 0) {
					c.Failf("R2.depth", key, call.Pos(), "array elements are decoded at depth %s: at top level that is depth 0, so an unknown type byte inside an array is parsed as an inline command instead of yielding an error", c.Src(arg))
				} else if k, ok := core.IntConst(info, arg); ok && k > 0 {
					c.Okf("R2.depth", key, call.Pos(), "constant non-zero depth")
				} else {
					c.Undecidedf("R2.depth", key, call.Pos(), "depth argument %s not recognised", c.Src(arg))
				}
				continue
			}
			entries++
			if isConst(info, arg, 0) {
				c.Okf("R2.depth", "entry/"+fd.Name.Name, call.Pos(), "top-level decode starts at depth 0")
			} else {
				c.Undecidedf("R2.depth", "entry/"+fd.Name.Name, call.Pos(), "top-level decode starts at depth %s", c.Src(arg))
			}
		}
	}
	if entries < 2 {
		c.Undecidedf("instances", "R2.depth", token.NoPos, "only %d top-level calls of decodeResp found, 2 confirmed by hand", entries)
	}
	c.Expect("R2.depth", 4)
}

func recvOf(f *types.Func) types.Type {
	if sig, _ := f.Type().(*types.Signature); sig != nil && sig.Recv() != nil {
		return sig.Recv().Type()
	}
	return nil
}

func fname(f *types.Func) string {
	if f == nil {
		return "<none>"
	}
	return f.Name()
}

// ---------------------------------------------------------------------------
// R3 length domain + R5 (decoder side)

func (r *rs) lengthDomain(name, _ string) {
	c, info := r.c, r.info
	fn := r.method("Decoder", name)
	if fn == nil {
		return
	}
	g := cfgq.Of(c.Program, fn)
	as, b := pat.Stmt("_n, _err = _d.decodeInt()").Find(info, fn.Decl.Body, nil)
	if as == nil {
		c.Undecidedf("R3.length", name+"/length", fn.Decl.Pos(), "cannot find `n, err := d.decodeInt()`")
		return
	}
	n := flow.Obj(info, b["_n"])
	from, ok := g.Find(as)
	if n == nil || !ok || flow.Assignments(info, fn.Decl.Body, n) != 1 {
		c.Undecidedf("R3.length", name+"/length", as.Pos(), "the decoded length is not a single-assignment variable")
		return
	}
	isN := flow.IsObj(info, n)
	mentions := func(m ast.Node) bool { return core.Mentions(info, m, n) }
	var allocNode ast.Node
	classify := func(m ast.Node) string {
		if ret, ok := m.(*ast.ReturnStmt); ok {
			switch {
			case flow.ErrReturn(info, fn.Decl.Body, ret):
				return "error"
			case len(ret.Results) == 2 && core.IsNil(info, ret.Results[0]) && core.IsNil(info, ret.Results[1]):
				return "nil"
			}
			return "other"
		}
		hit := false
		for _, call := range cfgq.ExecCalls(m) {
			if flow.IsBuiltin(info, call, "make") && len(call.Args) >= 2 && mentions(call.Args[1]) {
				hit = true
			}
		}
		if hit {
			allocNode = m
			return "alloc"
		}
		return ""
	}
	errEdge := flow.ErrEdge(g)
	out, imprecise := flow.Outcomes(g, from, isN, mentions, classify, errEdge)
	if imprecise {
		c.Undecidedf("R3.length", name+"/length", as.Pos(), "the length is tested in a form other than a comparison with a constant")
		return
	}
	inf, ninf := int64(math.MaxInt64), int64(math.MinInt64)
	overlap := func(set []flow.Interval, lo, hi int64) *flow.Interval {
		for _, v := range set {
			if v.Lo <= hi && v.Hi >= lo {
				x := flow.Interval{Lo: max(v.Lo, lo), Hi: min(v.Hi, hi)}
				return &x
			}
		}
		return nil
	}
	neg := overlap(out["alloc"], ninf, -1)
	c.Check("R3.length", name+"/alloc", as.Pos(), neg == nil && len(out["alloc"]) > 0,
		fmt.Sprintf("the buffer allocation must be reached only for n >= 0 (reached for %s): a negative length is malformed input and has to yield an error (or nil for -1), not an allocation/index panic or an empty value", flow.SetString(out["alloc"])))
	c.Check("R3.length", name+"/nil", as.Pos(), flow.SameSet(out["nil"], []flow.Interval{{Lo: -1, Hi: -1}}),
		fmt.Sprintf("`return nil, nil` must be reached exactly for n = -1 (reached for %s): otherwise the nil bulk/array is rejected, or a malformed length below -1 yields a value", flow.SetString(out["nil"])))
	bad := overlap(out["error"], -1, math.MaxInt32)
	miss := !flow.SameSet(flow.Union(append(append([]flow.Interval{}, out["error"]...), flow.Interval{Lo: -1, Hi: inf})), []flow.Interval{{Lo: ninf, Hi: inf}})
	c.Check("R3.length", name+"/error", as.Pos(), bad == nil && !miss,
		fmt.Sprintf("the length error must be returned for every n <= -2 and for no n in [-1, 2^31) (returned for %s)", flow.SetString(out["error"])))
	if o := out["other"]; len(o) > 0 {
		if overlap(o, -1, -1) != nil {
			c.Failf("R5.nil", name+"/minus-one", as.Pos(), "for n = -1 a value other than the literal nil is returned: nil and empty are no longer distinguished after a round trip")
		} else {
			c.Undecidedf("R3.length", name+"/other", as.Pos(), "an unrecognised successful return is reached for n in %s before the allocation", flow.SetString(o))
		}
	} else {
		c.Okf("R5.nil", name+"/minus-one", as.Pos(), "the only successful return before the allocation yields the literal nil")
	}
	if len(out["fall"]) > 0 {
		c.Undecidedf("R3.length", name+"/fall", as.Pos(), "control falls off the function")
	}
	// R5: n >= 0 returns the freshly made buffer
	if allocNode == nil {
		return
	}
	ap, _ := g.Find(allocNode)
	var valuePat *pat.Pattern
	var ab pat.Binds
	if name == "decodeBulkBytes" {
		_, ab = pat.Stmt("_b = make([]byte, _n + _k)").Find(info, allocNode, pat.Binds{"_n": b["_n"]})
		valuePat = pat.Stmt("return _b[:_n], nil")
	} else {
		_, ab = pat.Stmt("_b = make([]Resp, _n)").Find(info, allocNode, pat.Binds{"_n": b["_n"]})
		valuePat = pat.Stmt("return _b, nil")
	}
	if ab == nil {
		c.Undecidedf("R5.nil", name+"/fresh-buffer", allocNode.Pos(), "allocation %s not of the recognised form", c.Src(allocNode))
		return
	}
	nret := 0
	for _, p := range g.Points(func(m ast.Node) bool { _, ok := m.(*ast.ReturnStmt); return ok }) {
		ret := p.Node().(*ast.ReturnStmt)
		if flow.ErrReturn(info, fn.Decl.Body, ret) || g.Path(cfgq.Query{From: ap, After: true, Target: func(m ast.Node) bool { return m == ast.Node(ret) }, AvoidEdge: errEdge}) == nil {
			continue
		}
		nret++
		switch {
		case valuePat.Match(info, ret, ab) != nil:
			c.Okf("R5.nil", name+"/fresh-buffer", ret.Pos(), "n >= 0 returns the buffer made for it (never nil)")
		case len(ret.Results) > 0 && core.IsNil(info, ret.Results[0]):
			c.Failf("R5.nil", name+"/fresh-buffer", ret.Pos(), "after the allocation (n >= 0) the literal nil is returned without an error: an empty value decodes as nil")
		default:
			// `return nil, err` with err possibly nil and similar
			c.Undecidedf("R5.nil", name+"/fresh-buffer", ret.Pos(), "successful return %s after the allocation is not the recognised value", c.Src(ret))
		}
	}
	if nret == 0 {
		c.Undecidedf("R5.nil", name+"/fresh-buffer", allocNode.Pos(), "no successful return after the allocation")
	}
	if name == "decodeArray" {
		r.arrayLoop(fn, g, ab)
	}
}

// arrayLoop: every element slot is filled exactly once by a nested decode (R6 reader side).
func (r *rs) arrayLoop(fn *core.Fn, g *cfgq.Graph, ab pat.Binds) {
	c, info := r.c, r.info
	var loop ast.Stmt
	core.Inspect(fn.Decl.Body, func(m ast.Node) bool {
		switch s := m.(type) {
		case *ast.ForStmt:
			b := pat.Stmt("_i = 0").Match(info, s.Init, ab)
			if b != nil && s.Cond != nil && s.Post != nil && pat.Expr("_i < len(_b)").Match(info, s.Cond, b) != nil && pat.Stmt("_i++").Match(info, s.Post, b) != nil {
				if n, _ := pat.Stmt("_b[_i], _e = _d.decodeResp(_x)").Find(info, s.Body, b); n != nil {
					loop = s
				}
			}
		case *ast.RangeStmt:
			if pat.Same(info, s.X, ab["_b"]) && s.Key != nil {
				if n, _ := pat.Stmt("_b[_i], _e = _d.decodeResp(_x)").Find(info, s.Body, pat.Binds{"_b": ab["_b"], "_i": s.Key}); n != nil {
					loop = s
				}
			}
		}
		return true
	})
	if loop == nil {
		c.Undecidedf("R6.grammar", "decodeArray/elements", fn.Decl.Pos(), "cannot find the loop that decodes one element into each slot of the made array")
		return
	}
	c.Okf("R6.grammar", "decodeArray/elements", loop.Pos(), "each of the n slots is filled by one nested decode, in index order")
}

// ---------------------------------------------------------------------------
// R4 terminator checks

func (r *rs) r4() {
	c, info := r.c, r.info
	// bulk body
	if fn := r.method("Decoder", "decodeBulkBytes"); fn != nil {
		g := cfgq.Of(c.Program, fn)
		_, b := pat.Stmt("_n, _err = _d.decodeInt()").Find(info, fn.Decl.Body, nil)
		var mk ast.Node
		if b != nil {
			mk, b = pat.Stmt("_b = make([]byte, _n + _k)").Find(info, fn.Decl.Body, pat.Binds{"_n": b["_n"]})
		}
		if mk == nil {
			c.Undecidedf("R4.term", "decodeBulkBytes/buffer", fn.Decl.Pos(), "cannot find `b := make([]byte, n+k)`")
		} else {
			k, isC := core.IntConst(info, b["_k"].(ast.Expr))
			if !isC {
				c.Undecidedf("R4.term", "decodeBulkBytes/buffer", mk.Pos(), "buffer slack %s is not a constant", c.Src(b["_k"]))
			} else {
				c.Check("R4.term", "decodeBulkBytes/buffer", mk.Pos(), k == 2, fmt.Sprintf("the bulk buffer must hold the payload plus exactly the 2 terminator bytes (found n+%d): otherwise the CR LF are not consumed with the value, or bytes of the next value are swallowed", k))
			}
			bobj := flow.Obj(info, b["_b"])
			rf := flow.FindCalls(fn.Decl.Body, func(call *ast.CallExpr) bool {
				return core.IsFunc(core.CalleeFunc(info, call), "io", "", "ReadFull") && len(call.Args) == 2 && r.isField(call.Args[0], "Decoder", "r") && flow.IsObj(info, bobj)(call.Args[1])
			})
			rets := g.Points(func(m ast.Node) bool { return pat.Stmt("return _b[:_n], nil").Match(info, m, b) != nil })
			if len(rf) != 1 || len(rets) == 0 || bobj == nil {
				c.Undecidedf("R4.term", "decodeBulkBytes/crlf", mk.Pos(), "cannot find io.ReadFull(d.r, b) and `return b[:n], nil`")
			} else {
				for _, p := range rets {
					for _, t := range []struct {
						pat  string
						ch   int64
						name string
					}{{"_b[_n]", '\r', "cr"}, {"_b[_n + 1]", '\n', "lf"}} {
						isX := func(e ast.Expr) bool { return pat.Expr(t.pat).Match(info, e, b) != nil }
						ok, w := flow.OnlyVia(g, p, func(f cfgq.Fact) bool { return flow.CmpIs(info, f, isX, token.EQL, t.ch) })
						c.Check("R4.term", "decodeBulkBytes/"+t.name, p.Node().Pos(), ok,
							fmt.Sprintf("the bulk value may be returned only after byte %s was found to be %q: a bulk not followed by CR LF is malformed and must yield an error", strings.ReplaceAll(t.pat, "_", ""), rune(t.ch)), w...)
					}
				}
				// no other successful return after the read
				rp, _ := g.Find(rf[0])
				w := g.Path(cfgq.Query{From: rp, After: true, AvoidEdge: flow.ErrEdge(g), Target: func(m ast.Node) bool {
					ret, ok := m.(*ast.ReturnStmt)
					return ok && !flow.ErrReturn(info, fn.Decl.Body, ret) && pat.Stmt("return _b[:_n], nil").Match(info, ret, b) == nil
				}})
				c.Check("R4.term", "decodeBulkBytes/only-value", rf[0].Pos(), w == nil, "after the body was read every return is either the checked value b[:n] or an error", w...)
			}
		}
	}
	// text lines
	r.line("decodeText", true)
	r.line("decodeSingleLineBulkBytesArray", false)
	// integers
	if fn := r.method("Decoder", "decodeInt"); fn != nil {
		g := cfgq.Of(c.Program, fn)
		_, b := pat.Stmt("_b, _err = _d.decodeText()").Find(info, fn.Decl.Body, nil)
		var as ast.Node
		if b != nil {
			as, b = pat.Stmt("_v, _e = strconv.ParseInt(string(_b), _base, _bits)").Find(info, fn.Decl.Body, b)
		}
		if as == nil {
			c.Undecidedf("R4.term", "decodeInt/parse", fn.Decl.Pos(), "cannot find `v, e := strconv.ParseInt(string(b), base, bits)` over the text line")
		} else {
			base, ok1 := core.IntConst(info, b["_base"].(ast.Expr))
			bits, ok2 := core.IntConst(info, b["_bits"].(ast.Expr))
			if !ok1 || !ok2 {
				c.Undecidedf("R4.term", "decodeInt/parse", as.Pos(), "base/bit size are not constants")
			} else {
				c.Check("R4.term", "decodeInt/parse", as.Pos(), base == 10 && bits == 64, fmt.Sprintf("numeric fields are decimal 64-bit integers (found base %d, %d bits): otherwise valid integers are rejected or mis-read", base, bits))
			}
			eobj := flow.Obj(info, b["_e"])
			n := 0
			for _, p := range g.Points(func(m ast.Node) bool {
				ret, ok := m.(*ast.ReturnStmt)
				return ok && !flow.ErrReturn(info, fn.Decl.Body, ret) && core.Mentions(info, ret, flow.Obj(info, b["_v"]))
			}) {
				n++
				ok, w := flow.OnlyVia(g, p, func(f cfgq.Fact) bool {
					isNil, ok := flow.NilCmp(info, f, flow.IsObj(info, eobj))
					return ok && isNil
				})
				c.Check("R4.term", "decodeInt/error-returned", p.Node().Pos(), ok, "the parsed number may be returned only when ParseInt reported no error: a non-numeric length or integer must yield an error", w...)
			}
			if n == 0 {
				c.Undecidedf("R4.term", "decodeInt/error-returned", as.Pos(), "no return of the parsed value found")
			}
		}
	}
	c.Expect("R4.term", 11)
}

// line checks a function that reads one LF-terminated line from Decoder.r.
func (r *rs) line(name string, returnsPrefix bool) {
	c, info := r.c, r.info
	fn := r.method("Decoder", name)
	if fn == nil {
		return
	}
	g := cfgq.Of(c.Program, fn)
	as, b := pat.Stmt("_b, _err = _d.r.ReadBytes(_delim)").Find(info, fn.Decl.Body, nil)
	if as == nil {
		c.Undecidedf("R4.term", name+"/line", fn.Decl.Pos(), "cannot find `b, err := d.r.ReadBytes(delim)`")
		return
	}
	if d, ok := core.IntConst(info, b["_delim"].(ast.Expr)); !ok {
		c.Undecidedf("R4.term", name+"/delimiter", as.Pos(), "delimiter is not a constant")
	} else {
		c.Check("R4.term", name+"/delimiter", as.Pos(), d == '\n', fmt.Sprintf("a line ends at LF (found delimiter %q): any other delimiter leaves the terminator in the stream or swallows the next value", rune(d)))
	}
	nd, nb := pat.Stmt("_n = len(_b) - _k").Find(info, fn.Decl.Body, b)
	if nd == nil || !isConst(info, nb["_k"].(ast.Expr), 2) {
		c.Undecidedf("R4.term", name+"/crlf", as.Pos(), "cannot find `n := len(b) - 2`")
		return
	}
	nobj := flow.Obj(info, nb["_n"])
	ap, _ := g.Find(as)
	isCR := func(e ast.Expr) bool { return pat.Expr("_b[_n]").Match(info, e, nb) != nil }
	k := 0
	for _, p := range g.Points(func(m ast.Node) bool {
		ret, ok := m.(*ast.ReturnStmt)
		return ok && !flow.ErrReturn(info, fn.Decl.Body, ret)
	}) {
		ret := p.Node()
		if g.Path(cfgq.Query{From: ap, After: true, AvoidEdge: flow.ErrEdge(g), Target: func(m ast.Node) bool { return m == ret }}) == nil {
			continue
		}
		k++
		ok1, w1 := flow.OnlyVia(g, p, func(f cfgq.Fact) bool { return flow.CmpIs(info, f, flow.IsObj(info, nobj), token.GEQ, 0) })
		c.Check("R4.term", name+"/min-length", ret.Pos(), ok1, "a value may be returned only when the line has at least 2 bytes (n >= 0): the 1-byte line \"\\n\" must yield an error, not an index panic", w1...)
		ok2, w2 := flow.OnlyVia(g, p, func(f cfgq.Fact) bool { return flow.CmpIs(info, f, isCR, token.EQL, '\r') })
		c.Check("R4.term", name+"/cr", ret.Pos(), ok2, "a value may be returned only when the byte before the LF is CR: a line without CR LF is malformed and must yield an error", w2...)
		if returnsPrefix {
			c.Check("R4.term", name+"/payload", ret.Pos(), pat.Stmt("return _b[:_n], nil").Match(info, ret, nb) != nil, "the text value is the line without its 2 terminator bytes (b[:n])")
		}
	}
	if k == 0 {
		c.Undecidedf("R4.term", name+"/crlf", as.Pos(), "no successful return after the line was read")
	}
}

// ---------------------------------------------------------------------------
// R5 encoder side: -1 iff nil

func (r *rs) r5enc(name string) {
	c, info := r.c, r.info
	fn, encodeInt := r.method("encoder", name), r.method("encoder", "encodeInt")
	if fn == nil || encodeInt == nil {
		return
	}
	g := cfgq.Of(c.Program, fn)
	v := param(info, fn, 0)
	isV := flow.IsObj(info, v)
	nilFact := func(want bool) func(cfgq.Fact) bool {
		return func(f cfgq.Fact) bool {
			isNil, ok := flow.NilCmp(info, f, isV)
			return ok && isNil == want
		}
	}
	minus, length := 0, 0
	for _, call := range flow.FindCalls(fn.Decl.Body, func(call *ast.CallExpr) bool { return core.CalleeFunc(info, call) == encodeInt.Obj && len(call.Args) == 1 }) {
		p, ok := g.Find(call)
		if !ok {
			continue
		}
		arg := call.Args[0]
		switch {
		case isConst(info, arg, -1):
			minus++
			ok, w := flow.OnlyVia(g, p, nilFact(true))
			c.Check("R5.nil", name+"/minus-one-iff-nil", call.Pos(), ok, "length -1 may be written only when the value == nil: a non-nil empty value must be written with length 0 or it decodes as nil", w...)
		case lenOf(info, fn.Decl.Body, arg) == v && v != nil:
			length++
			ok, w := flow.OnlyVia(g, p, nilFact(false))
			c.Check("R5.nil", name+"/length-iff-non-nil", call.Pos(), ok, "len(value) may be written only when the value != nil: a nil value must be written as -1 or it decodes as empty", w...)
		default:
			c.Undecidedf("R5.nil", name+"/length", call.Pos(), "length argument %s not recognised", c.Src(arg))
		}
	}
	if minus != 1 || length != 1 {
		c.Undecidedf("R5.nil", name+"/arms", fn.Decl.Pos(), "expected one encodeInt(-1) and one encodeInt(len(v)), found %d and %d", minus, length)
	}
}

// ---------------------------------------------------------------------------
// R6 writer grammar

func (r *rs) r6() {
	c, info := r.c, r.info
	isW := func(e ast.Expr) bool { return r.isField(e, "encoder", "w") }
	wcall := func(name string, arg func(ast.Expr) bool) func(*ast.CallExpr) bool {
		return func(call *ast.CallExpr) bool {
			return flow.MethodOn(call, name, isW) && len(call.Args) == 1 && arg(call.Args[0])
		}
	}
	isStrConst := func(e ast.Expr) bool { _, ok := core.StringConst(info, e); return ok }
	// checks the constant terminator emitted by fn and returns the step locating it
	crlf := func(fn *core.Fn, g *cfgq.Graph) flow.Step {
		for _, call := range flow.FindCalls(fn.Decl.Body, wcall("WriteString", isStrConst)) {
			s, _ := core.StringConst(info, call.Args[0])
			c.Check("R6.grammar", fn.Decl.Name.Name+"/terminator", call.Pos(), s == "\r\n", fmt.Sprintf("the terminator written is %q, RESP requires CR LF: the decoder rejects (or mis-frames) what the encoder produced", s))
		}
		return flow.Step{Name: "write CRLF", Is: flow.CallOn(g, wcall("WriteString", isStrConst))}
	}
	seq := func(fn *core.Fn, g *cfgq.Graph, wcalls int, steps ...flow.Step) {
		name := fn.Decl.Name.Name
		if n := len(flow.FindCalls(fn.Decl.Body, func(call *ast.CallExpr) bool {
			sel, ok := ast.Unparen(call.Fun).(*ast.SelectorExpr)
			return ok && isW(sel.X)
		})); n != wcalls {
			c.Undecidedf("R6.grammar", name+"/sequence", fn.Decl.Pos(), "%d writes on the buffered writer, %d expected", n, wcalls)
			return
		}
		problem, w, und := flow.Sequence(g, steps)
		if und {
			c.Undecidedf("R6.grammar", name+"/sequence", fn.Decl.Pos(), "%s", problem)
			return
		}
		var names []string
		for _, s := range steps {
			names = append(names, s.Name)
		}
		c.Check("R6.grammar", name+"/sequence", fn.Decl.Pos(), problem == "", fmt.Sprintf("%s must emit %s in this order on every successful path (%s): the decoder expects exactly this framing", name, strings.Join(names, ", "), problem), w...)
	}
	if fn := r.method("encoder", "encodeType"); fn != nil {
		t := param(info, fn, 0)
		calls := flow.FindCalls(fn.Decl.Body, wcall("WriteByte", func(e ast.Expr) bool { return flow.IsObj(info, t)(unconv(info, e)) }))
		if len(calls) == 1 {
			c.Okf("R6.grammar", "encodeType/sequence", fn.Decl.Pos(), "writes the tag byte it is given")
		} else {
			c.Undecidedf("R6.grammar", "encodeType/sequence", fn.Decl.Pos(), "cannot find w.WriteByte(byte(t))")
		}
	}
	for _, tc := range []struct{ name, method string }{{"encodeText", "Write"}, {"encodeString", "WriteString"}} {
		if fn := r.method("encoder", tc.name); fn != nil {
			g := cfgq.Of(c.Program, fn)
			p := param(info, fn, 0)
			seq(fn, g, 2, flow.Step{Name: "write payload", Is: flow.CallOn(g, wcall(tc.method, flow.IsObj(info, p)))}, crlf(fn, g))
		}
	}
	encodeString, itos := r.method("encoder", "encodeString"), c.Func(pkg, "", "itos")
	if fn := r.method("encoder", "encodeInt"); fn != nil && encodeString != nil && itos != nil {
		n, _ := pat.Expr("_e.encodeString(itos(_v))").Find(info, fn.Decl.Body, pat.Binds{"_v": fn.Decl.Type.Params.List[0].Names[0]})
		if n != nil {
			c.Okf("R6.grammar", "encodeInt/sequence", fn.Decl.Pos(), "an integer is its decimal rendering followed by CRLF")
		} else {
			c.Undecidedf("R6.grammar", "encodeInt/sequence", fn.Decl.Pos(), "cannot find e.encodeString(itos(v))")
		}
	}
	encodeInt, encodeResp := r.method("encoder", "encodeInt"), r.method("encoder", "encodeResp")
	if encodeInt == nil || encodeResp == nil {
		return
	}
	lenStep := func(g *cfgq.Graph, v types.Object) flow.Step {
		return flow.Step{Name: "write len(value) line", Is: flow.CallOn(g, func(call *ast.CallExpr) bool {
			return core.CalleeFunc(info, call) == encodeInt.Obj && len(call.Args) == 1 && lenOf(info, g.Body, call.Args[0]) == v
		})}
	}
	if fn := r.method("encoder", "encodeBulkBytes"); fn != nil {
		g := cfgq.Of(c.Program, fn)
		p := param(info, fn, 0)
		seq(fn, g, 2, lenStep(g, p), flow.Step{Name: "write payload", Is: flow.CallOn(g, wcall("Write", flow.IsObj(info, p)))}, crlf(fn, g))
	}
	if fn := r.method("encoder", "encodeArray"); fn != nil {
		g := cfgq.Of(c.Program, fn)
		p := param(info, fn, 0)
		ab := pat.Binds{"_a": fn.Decl.Type.Params.List[0].Names[0]}
		var elem *ast.CallExpr
		core.Inspect(fn.Decl.Body, func(m ast.Node) bool {
			switch s := m.(type) {
			case *ast.ForStmt:
				b := pat.Stmt("_i = 0").Match(info, s.Init, ab)
				if b != nil && s.Cond != nil && s.Post != nil && pat.Expr("_i < len(_a)").Match(info, s.Cond, b) != nil && pat.Stmt("_i++").Match(info, s.Post, b) != nil {
					if n, _ := pat.Expr("_e.encodeResp(_a[_i])").Find(info, s.Body, b); n != nil {
						elem = n.(*ast.CallExpr)
					}
				}
			case *ast.RangeStmt:
				if pat.Same(info, s.X, ab["_a"]) && s.Value != nil {
					if n, _ := pat.Expr("_e.encodeResp(_x)").Find(info, s.Body, pat.Binds{"_x": s.Value}); n != nil {
						elem = n.(*ast.CallExpr)
					}
				}
			}
			return true
		})
		nresp := len(flow.FindCalls(fn.Decl.Body, func(call *ast.CallExpr) bool { return core.CalleeFunc(info, call) == encodeResp.Obj }))
		if elem == nil || nresp != 1 {
			c.Undecidedf("R6.grammar", "encodeArray/sequence", fn.Decl.Pos(), "cannot find the loop that encodes every element of the array once, in index order")
		} else {
			// the loop may run zero times, so only the order is required: count line first
			ls := lenStep(g, p)
			ep, _ := g.Find(elem)
			ok, w := g.Dominated(ep, ls.Is)
			if len(g.Points(ls.Is)) != 1 {
				c.Undecidedf("R6.grammar", "encodeArray/sequence", fn.Decl.Pos(), "cannot find the single encodeInt(len(a)) call")
			} else {
				c.Check("R6.grammar", "encodeArray/sequence", fn.Decl.Pos(), ok, "the element count line must be written before the first element: the decoder reads the count first", w...)
			}
		}
	}
	c.Expect("R6.grammar", 10)
}

// ---------------------------------------------------------------------------
// R7 integer table bias

func (r *rs) r7() {
	c, info := r.c, r.info
	fn := c.Func(pkg, "", "itos")
	if fn == nil {
		return
	}
	g := cfgq.Of(c.Program, fn)
	i := param(info, fn, 0)
	ib := pat.Binds{"_i": fn.Decl.Type.Params.List[0].Names[0]}
	ret, b := pat.Stmt("return _tab[_n]").Find(info, fn.Decl.Body, ib)
	var def ast.Node
	if ret != nil {
		def, b = pat.Stmt("_n = _i + _k").Find(info, fn.Decl.Body, b)
	}
	if def == nil || i == nil {
		c.Undecidedf("R7.bias", "itos/lookup", fn.Decl.Pos(), "cannot find `n := i + k ... return table[n]`")
		return
	}
	tab := flow.Obj(info, b["_tab"])
	k2, okk := core.IntConst(info, b["_k"].(ast.Expr))
	nobj := flow.Obj(info, b["_n"])
	if tab == nil || !okk || nobj == nil || flow.Assignments(info, fn.Decl.Body, nobj) != 1 {
		c.Undecidedf("R7.bias", "itos/lookup", def.Pos(), "table, bias or index variable not recognised")
		return
	}
	rp, _ := g.Find(ret)
	ok1, w1 := flow.OnlyVia(g, rp, func(f cfgq.Fact) bool { return flow.CmpIs(info, f, flow.IsObj(info, nobj), token.GEQ, 0) })
	c.Check("R7.bias", "itos/lower-guard", ret.Pos(), ok1, "the table lookup must be guarded by n >= 0: integers below the table's range would index out of range", w1...)
	ok2, w2 := flow.OnlyVia(g, rp, func(f cfgq.Fact) bool {
		x, y, op, ok := flow.Rel(f)
		if !ok {
			return false
		}
		if op == token.GTR {
			x, y, op = y, x, token.LSS
		}
		return op == token.LSS && flow.IsObj(info, nobj)(x) && lenOf(info, fn.Decl.Body, y) == tab
	})
	c.Check("R7.bias", "itos/upper-guard", ret.Pos(), ok2, "the table lookup must be guarded by n < len(table): integers above the table's range would index out of range", w2...)
	// fallback
	fb, _ := pat.Stmt("return strconv.FormatInt(_i, _base)").Find(info, fn.Decl.Body, ib)
	if fb == nil {
		c.Undecidedf("R7.bias", "itos/fallback", fn.Decl.Pos(), "cannot find `return strconv.FormatInt(i, 10)`")
	} else {
		c.Check("R7.bias", "itos/fallback", fb.Pos(), isConst(info, fb.(*ast.ReturnStmt).Results[0].(*ast.CallExpr).Args[1], 10), "integers outside the table are rendered in base 10")
	}
	// the fill site
	fills := 0
	for _, fd := range r.decls() {
		core.Inspect(fd.Body, func(m ast.Node) bool {
			fs, ok := m.(*ast.ForStmt)
			if !ok || fs.Init == nil || fs.Cond == nil || fs.Post == nil {
				return true
			}
			jb := pat.Stmt("_j = 0").Match(info, fs.Init, nil)
			if jb == nil {
				return true
			}
			var fill ast.Node
			var fb pat.Binds
			for _, p := range []string{"_t[_j] = strconv.Itoa(_j - _k)", "_t[_j] = strconv.FormatInt(int64(_j - _k), 10)", "_t[_j] = strconv.FormatInt(int64(_j) - _k, 10)"} {
				if fill == nil {
					fill, fb = pat.Stmt(p).Find(info, fs.Body, jb)
				}
			}
			if fill == nil || flow.Obj(info, fb["_t"]) != tab {
				return true
			}
			fills++
			k1, isC := core.IntConst(info, fb["_k"].(ast.Expr))
			if !isC {
				c.Undecidedf("R7.bias", "fill/bias", fill.Pos(), "fill bias is not a constant")
				return true
			}
			c.Check("R7.bias", "fill/bias", fill.Pos(), k1 == k2, fmt.Sprintf("slot j holds the rendering of j-%d but itos looks v up at v+%d: every table hit renders v%+d instead of v", k1, k2, k2-k1))
			full := pat.Expr("_j < len(_t)").Match(info, fs.Cond, fb) != nil && pat.Stmt("_j++").Match(info, fs.Post, fb) != nil
			if full {
				c.Okf("R7.bias", "fill/complete", fs.Pos(), "every slot of the table is filled")
			} else {
				c.Undecidedf("R7.bias", "fill/complete", fs.Pos(), "fill loop bounds not recognised")
			}
			return true
		})
	}
	if fills != 1 {
		c.Undecidedf("R7.bias", "fill/site", fn.Decl.Pos(), "expected exactly one loop filling the table, found %d", fills)
	}
}
