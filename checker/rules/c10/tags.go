// R2: type-tag bijection and depth discipline.
package c10

import (
	"fmt"
	"go/ast"
	"go/constant"
	"go/token"
	"go/types"

	"rscheck/cfgq"
	"rscheck/core"
	"rscheck/lin"
	"rscheck/pat"
	"rscheck/rules/c10/flow"
)

// ---------------------------------------------------------------------------
// R2 type-tag bijection

type tagRef struct {
	tag      byte
	typ      string
	dec, enc string
}

var tagTable = []tagRef{
	{'+', "String", "decodeText", "encodeText"},
	{'-', "Error", "decodeText", "encodeText"},
	{':', "Int", "decodeInt", "encodeInt"},
	{'$', "BulkBytes", "decodeBulkBytes", "encodeBulkBytes"},
	{'*', "Array", "decodeArray", "encodeArray"},
}

// builtType: the named struct type T of the first &T{...} under n.
func (r *rs) builtType(n ast.Node) string {
	out := ""
	core.Inspect(n, func(m ast.Node) bool {
		if u, ok := m.(*ast.UnaryExpr); ok && u.Op == token.AND && out == "" {
			if cl, ok := ast.Unparen(u.X).(*ast.CompositeLit); ok {
				out = core.NamedTypeName(r.info.TypeOf(cl))
			}
		}
		return out == ""
	})
	return out
}

func (r *rs) r2() {
	c, info := r.c, r.info
	// the constants
	scope := r.pk.Types.Scope()
	have := map[int64]string{}
	for _, n := range scope.Names() {
		if k, ok := scope.Lookup(n).(*types.Const); ok && core.NamedTypeName(k.Type()) == "respType" {
			if v, exact := constant.Int64Val(constant.ToInt(k.Val())); exact {
				have[v] = n
			}
		}
	}
	if len(have) == 0 {
		c.Undecidedf("R2.tags", "constants", token.NoPos, "no constants of type respType found")
		return
	}
	for _, t := range tagTable {
		_, ok := have[int64(t.tag)]
		c.Check("R2.tags", fmt.Sprintf("const/%s", t.typ), token.NoPos, ok,
			fmt.Sprintf("a respType constant must have the value %q, the RESP marker of %s; without it that RESP type is neither recognised nor produced", t.tag, t.typ))
	}
	decodeResp, encodeResp := r.method("Decoder", "decodeResp"), r.method("encoder", "encodeResp")
	encodeType, inline, decodeArray := r.method("encoder", "encodeType"), r.method("Decoder", "decodeSingleLineBulkBytesArray"), r.method("Decoder", "decodeArray")
	decM, encM := map[string]*core.Fn{}, map[string]*core.Fn{}
	okAnch := decodeResp != nil && encodeResp != nil && encodeType != nil && inline != nil && decodeArray != nil
	for _, t := range tagTable {
		if decM[t.dec] == nil {
			decM[t.dec] = r.method("Decoder", t.dec)
		}
		if encM[t.enc] == nil {
			encM[t.enc] = r.method("encoder", t.enc)
		}
		if decM[t.dec] == nil || encM[t.enc] == nil || scope.Lookup(t.typ) == nil {
			okAnch = false
		}
	}
	if !okAnch {
		return
	}
	// decoder: switch over the value returned by decodeType
	_, b := pat.Stmt("_t, _err = _d.decodeType()").Find(info, decodeResp.Decl.Body, nil)
	var sw *ast.SwitchStmt
	if b != nil {
		core.Inspect(decodeResp.Decl.Body, func(m ast.Node) bool {
			if s, ok := m.(*ast.SwitchStmt); ok && sw == nil && s.Tag != nil && pat.Same(info, s.Tag, b["_t"]) {
				sw = s
			}
			return true
		})
	}
	if sw == nil {
		c.Undecidedf("R2.tags", "decode/switch", decodeResp.Decl.Pos(), "cannot find the switch over the result of decodeType in decodeResp")
		return
	}
	type arm struct {
		typ    string
		callee *types.Func
		pos    token.Pos
	}
	dec := map[int64]arm{}
	var deflt *ast.CaseClause
	for _, s := range sw.Body.List {
		cc := s.(*ast.CaseClause)
		if cc.List == nil {
			deflt = cc
			continue
		}
		a := arm{typ: r.builtType(cc), pos: cc.Pos()}
		for _, call := range flow.FindCalls(cc, func(call *ast.CallExpr) bool { return true }) {
			if f := core.CalleeFunc(info, call); f != nil && a.callee == nil && core.NamedTypeName(recvOf(f)) == "Decoder" {
				a.callee = f
			}
		}
		for _, e := range cc.List {
			if v, ok := core.IntConst(info, e); ok {
				dec[v] = a
			} else {
				c.Undecidedf("R2.tags", "decode/case", e.Pos(), "case label %s is not a constant", c.Src(e))
			}
		}
	}
	// encoder: type switch
	var tsw *ast.TypeSwitchStmt
	core.Inspect(encodeResp.Decl.Body, func(m ast.Node) bool {
		if s, ok := m.(*ast.TypeSwitchStmt); ok && tsw == nil {
			tsw = s
		}
		return true
	})
	if tsw == nil {
		c.Undecidedf("R2.tags", "encode/switch", encodeResp.Decl.Pos(), "cannot find the type switch in encodeResp")
		return
	}
	ge := cfgq.Of(c.Program, encodeResp)
	type earm struct {
		tag     int64
		callee  *types.Func
		ordered bool
		pos     token.Pos
	}
	enc := map[string]earm{}
	for _, s := range tsw.Body.List {
		cc := s.(*ast.CaseClause)
		if len(cc.List) != 1 {
			continue
		}
		tn := core.NamedTypeName(info.TypeOf(cc.List[0]))
		a := earm{tag: -1, pos: cc.Pos()}
		var tagCall, bodyCall *ast.CallExpr
		for _, call := range flow.FindCalls(cc, func(call *ast.CallExpr) bool { return true }) {
			f := core.CalleeFunc(info, call)
			if f == nil || core.NamedTypeName(recvOf(f)) != "encoder" {
				continue
			}
			if f == encodeType.Obj && len(call.Args) == 1 && tagCall == nil {
				if v, ok := core.IntConst(info, call.Args[0]); ok {
					a.tag, tagCall = v, call
				}
			} else if bodyCall == nil {
				a.callee, bodyCall = f, call
			}
		}
		if tagCall != nil && bodyCall != nil {
			if p, ok := flow.PointOf(ge, bodyCall); ok {
				a.ordered, _ = ge.Dominated(p, flow.CallOn(ge, func(call *ast.CallExpr) bool { return call == tagCall }))
			}
			// the payload is the matched value's field
			if len(bodyCall.Args) != 1 || pat.Expr("_x.Value").Match(info, bodyCall.Args[0], nil) == nil {
				a.callee = nil
			}
		}
		enc[tn] = a
	}
	knownDec, knownEnc := map[*types.Func]bool{}, map[*types.Func]bool{}
	for _, t := range tagTable {
		knownDec[decM[t.dec].Obj], knownEnc[encM[t.enc].Obj] = true, true
	}
	for _, t := range tagTable {
		d, okd := dec[int64(t.tag)]
		if okd && (d.typ == "" || !knownDec[d.callee]) {
			c.Undecidedf("R2.tags", "decode/"+t.typ, d.pos, "the arm for tag %q builds %q through %v: not one of the recognised body decoders", t.tag, d.typ, fname(d.callee))
		} else {
			c.Check("R2.tags", "decode/"+t.typ, d.pos, okd && d.typ == t.typ && d.callee == decM[t.dec].Obj,
				fmt.Sprintf("tag %q must build &%s{} and fill it through %s (found: type %q, decoder %v): otherwise a value encoded as %s comes back as something else", t.tag, t.typ, t.dec, d.typ, fname(d.callee), t.typ))
		}
		e, oke := enc[t.typ]
		if oke && (e.tag < 0 || !knownEnc[e.callee]) {
			c.Undecidedf("R2.tags", "encode/"+t.typ, e.pos, "the arm for *%s (tag %d, encoder %v) is not of the recognised form encodeType(K); encode<T>(x.Value)", t.typ, e.tag, fname(e.callee))
		} else {
			c.Check("R2.tags", "encode/"+t.typ, e.pos, oke && e.tag == int64(t.tag) && e.callee == encM[t.enc].Obj && e.ordered,
				fmt.Sprintf("*%s must be written as tag %q followed by %s(x.Value) (found: tag %q, encoder %v, tag-first=%v): otherwise the decoder reads the value back as another type", t.typ, t.tag, t.enc, rune(e.tag), fname(e.callee), e.ordered))
		}
	}
	// inline commands only at depth 0, and only for an unknown tag
	gd := cfgq.Of(c.Program, decodeResp)
	depth := param(info, decodeResp, 0)
	calls := flow.FindCalls(decodeResp.Decl.Body, func(call *ast.CallExpr) bool { return core.CalleeFunc(info, call) == inline.Obj })
	if len(calls) != 1 || depth == nil {
		c.Undecidedf("R2.depth", "inline-fallback", decodeResp.Decl.Pos(), "expected exactly one call of decodeSingleLineBulkBytesArray in decodeResp, found %d", len(calls))
	} else {
		inDefault := deflt != nil && flow.Contains(deflt, calls[0])
		p, found := flow.PointOf(gd, calls[0])
		if !inDefault || !found {
			c.Undecidedf("R2.depth", "inline-fallback", calls[0].Pos(), "the inline-command fallback is not in the default arm of the tag switch")
		} else {
			// depth is never negative (0 at the entry points, +k below), so depth <= 0 and depth < 1 say the same
			did := ast.NewIdent(depth.Name())
			info.Uses[did] = depth
			dform := lin.Of(info, did)
			r.guard("R2.depth", "inline-fallback", calls[0].Pos(), gd, p,
				func(f cfgq.Fact) bool {
					return flow.LinIs(info, f, dform, token.EQL, 0) || flow.LinIs(info, f, dform, token.LEQ, 0)
				},
				flow.Opaque(gd, func(f cfgq.Fact) bool { return flow.LinAbout(info, f, dform) }, depth),
				"the inline-command parser must be reachable only at depth 0: an unknown type byte inside an array has to yield an error, not a value")
		}
	}
	// recursion passes depth+k, entry points pass 0
	dparam := param(info, decodeArray, 0)
	entries := 0
	for _, fd := range r.decls() {
		for _, call := range flow.FindCalls(fd.Body, func(call *ast.CallExpr) bool { return core.CalleeFunc(info, call) == decodeResp.Obj }) {
			if len(call.Args) != 1 {
				continue
			}
			arg := ast.Unparen(call.Args[0])
			if fd == decodeArray.Decl {
				key := "nested-depth/" + fd.Name.Name
				if b := pat.Expr("_depth + _k").Match(info, arg, pat.Binds{"_depth": decodeArray.Decl.Type.Params.List[0].Names[0]}); b != nil && dparam != nil {
					k, isC := core.IntConst(info, b["_k"].(ast.Expr))
					if !isC {
						c.Undecidedf("R2.depth", key, call.Pos(), "depth increment %s is not a constant", c.Src(b["_k"]))
					} else {
						c.Check("R2.depth", key, call.Pos(), k >= 1, "array elements must be decoded at a depth greater than their array's, or inline commands would be accepted inside arrays")
					}
				} else if flow.IsObj(info, dparam)(arg) || isConst(info, arg, 0) {
					c.Failf("R2.depth", key, call.Pos(), "array elements are decoded at depth %s: at top level that is depth 0, so an unknown type byte inside an array is parsed as an inline command instead of yielding an error", c.Src(arg))
				} else if k, ok := core.IntConst(info, arg); ok && k > 0 {
					c.Okf("R2.depth", key, call.Pos(), "constant non-zero depth")
				} else {
					c.Undecidedf("R2.depth", key, call.Pos(), "depth argument %s not recognised", c.Src(arg))
				}
				continue
			}
			entries++
			if isConst(info, arg, 0) {
				c.Okf("R2.depth", "entry/"+fd.Name.Name, call.Pos(), "top-level decode starts at depth 0")
			} else {
				c.Undecidedf("R2.depth", "entry/"+fd.Name.Name, call.Pos(), "top-level decode starts at depth %s", c.Src(arg))
			}
		}
	}
	if entries < 2 {
		c.Undecidedf("instances", "R2.depth", token.NoPos, "only %d top-level calls of decodeResp found, 2 confirmed by hand", entries)
	}
}

func recvOf(f *types.Func) types.Type {
	if sig, _ := f.Type().(*types.Signature); sig != nil && sig.Recv() != nil {
		return sig.Recv().Type()
	}
	return nil
}

func fname(f *types.Func) string {
	if f == nil {
		return "<none>"
	}
	return f.Name()
}
