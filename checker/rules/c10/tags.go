// R2: type-tag bijection and depth discipline.
package c10

import (
	"fmt"
	"go/ast"
	"go/constant"
	"go/token"
	"go/types"

	"rscheck/cfgq"
	"rscheck/core"
	"rscheck/pat"
	"rscheck/rules/c10/flow"
)

// ---------------------------------------------------------------------------
// R2 type-tag bijection

type tagRef struct {
	tag      byte
	typ      string
	dec, enc string
}

var tagTable = []tagRef{
	{'+', "String", "decodeText", "encodeText"},
	{'-', "Error", "decodeText", "encodeText"},
	{':', "Int", "decodeInt", "encodeInt"},
	{'$', "BulkBytes", "decodeBulkBytes", "encodeBulkBytes"},
	{'*', "Array", "decodeArray", "encodeArray"},
}

// builtType: the named struct type T of the first &T{...} under n.
func (r *rs) builtType(n ast.Node) string {
	out := ""
	core.Inspect(n, func(m ast.Node) bool {
		if u, ok := m.(*ast.UnaryExpr); ok && u.Op == token.AND && out == "" {
			if cl, ok := ast.Unparen(u.X).(*ast.CompositeLit); ok {
				out = core.NamedTypeName(r.info.TypeOf(cl))
			}
		}
		return out == ""
	})
	return out
}

func (r *rs) r2() {
	c, info := r.c, r.info
	// the constants
	scope := r.pk.Types.Scope()
	have := map[int64]string{}
	for _, n := range scope.Names() {
		if k, ok := scope.Lookup(n).(*types.Const); ok && core.NamedTypeName(k.Type()) == "respType" {
			if v, exact := constant.Int64Val(constant.ToInt(k.Val())); exact {
				have[v] = n
			}
		}
	}
	if len(have) == 0 {
		c.Undecidedf("R2.tags", "constants", token.NoPos, "no constants of type respType found")
		return
	}
	for _, t := range tagTable {
		_, ok := have[int64(t.tag)]
		c.Check("R2.tags", fmt.Sprintf("const/%s", t.typ), token.NoPos, ok,
			fmt.Sprintf("a respType constant must have the value %q, the RESP marker of %s; without it that RESP type is neither recognised nor produced", t.tag, t.typ))
	}
	decodeResp, encodeResp := r.method("Decoder", "decodeResp"), r.method("encoder", "encodeResp")
	encodeType, inline, decodeArray := r.method("encoder", "encodeType"), r.method("Decoder", "decodeSingleLineBulkBytesArray"), r.method("Decoder", "decodeArray")
	decM, encM := map[string]*core.Fn{}, map[string]*core.Fn{}
	okAnch := decodeResp != nil && encodeResp != nil && encodeType != nil && inline != nil && decodeArray != nil
	for _, t := range tagTable {
		if decM[t.dec] == nil {
			decM[t.dec] = r.method("Decoder", t.dec)
		}
		if encM[t.enc] == nil {
			encM[t.enc] = r.method("encoder", t.enc)
		}
		if decM[t.dec] == nil || encM[t.enc] == nil || scope.Lookup(t.typ) == nil {
			okAnch = false
		}
	}
	if !okAnch {
		return
	}
	// decoder: walk every path of decodeResp. The tag is the value returned by decodeType; per path the
	// walker knows which constant it was found equal to (switch, if-chain, any order), which body decoder
	// was called, and which &T{} the value returned was built from.
	decodeType := r.method("Decoder", "decodeType")
	if decodeType == nil {
		return
	}
	tcalls := flow.FindCalls(decodeResp.Decl.Body, func(call *ast.CallExpr) bool { return core.CalleeFunc(info, call) == decodeType.Obj })
	if len(tcalls) != 1 {
		c.Undecidedf("R2.tags", "decode/switch", decodeResp.Decl.Pos(), "expected one call of decodeType in decodeResp, found %d", len(tcalls))
		return
	}
	tagTok := fmt.Sprintf("call%p#0", tcalls[0])
	type arm struct {
		typ    string
		callee *types.Func
		pos    token.Pos
	}
	dec := map[int64][]arm{}
	gd := flow.GraphOf(c.Program, decodeResp)
	depth := param(info, decodeResp, 0)
	var fallback struct {
		n, deep, opaque, knownTag int
		pos                       token.Pos
	}
	dw := &flow.Sym{G: gd}
	dw.Unlearned = func(e ast.Expr, st *flow.SState) {
		if depth != nil && core.Mentions(info, e, depth) {
			st.Marks["opaque-depth"] = flow.SVal{Kind: flow.SBool, B: true}
		}
	}
	decByName := map[string]*types.Func{}
	dw.Visit = func(m ast.Node, st *flow.SState) bool {
		for _, call := range cfgq.ExecCalls(m) {
			f := core.CalleeFunc(info, call)
			if f == nil || core.NamedTypeName(recvOf(f)) != "Decoder" || f == decodeType.Obj {
				continue
			}
			if f == inline.Obj {
				fallback.n++
				fallback.pos = call.Pos()
				iv := st.IntervalOf(tagTok)
				for _, t := range tagTable {
					if iv.Lo <= int64(t.tag) && int64(t.tag) <= iv.Hi {
						fallback.knownTag++
					}
				}
				if depth != nil {
					did := ast.NewIdent(depth.Name())
					info.Uses[did] = depth
					dv := dw.Eval(did, st)
					if div := st.IntervalOf(dv.Tok); !(dv.Kind == flow.SInt && dv.K == 0) && !(dv.Tok != "" && div.Hi <= 0) {
						if st.Marks["opaque-depth"].B {
							fallback.opaque++
						} else {
							fallback.deep++
						}
					}
				}
				continue
			}
			decByName[f.Name()] = f
			st.Marks["dec"] = flow.SVal{Tok: f.Name()}
		}
		ret, ok := m.(*ast.ReturnStmt)
		if !ok {
			return false
		}
		iv := st.IntervalOf(tagTok)
		mk, called := st.Marks["dec"]
		if res := dw.Results(ret, st); len(res) == 2 && iv.Lo == iv.Hi && called {
			a := arm{callee: decByName[mk.Tok], pos: ret.Pos()}
			if src, ok := res[0].Src.(ast.Expr); ok && src != nil {
				lit := ast.Unparen(src)
				if u, isAddr := lit.(*ast.UnaryExpr); isAddr {
					lit = ast.Unparen(u.X)
				}
				if cl, isLit := lit.(*ast.CompositeLit); isLit {
					a.typ = core.NamedTypeName(info.TypeOf(cl))
				}
			}
			dec[iv.Lo] = append(dec[iv.Lo], a)
		}
		return true
	}
	dw.Run(nil)
	knownDec, knownEnc := map[*types.Func]bool{}, map[*types.Func]bool{}
	for _, t := range tagTable {
		knownDec[decM[t.dec].Obj], knownEnc[encM[t.enc].Obj] = true, true
	}
	// encoder: walk every path of encodeResp (helpers inlined). Per path the walker knows the dynamic
	// type of the value (type-switch arms, also across two switches over the same operand), the constant
	// passed to encodeType so far, and which body encoder is then called on the value's field.
	ge := flow.GraphOf(c.Program, encodeResp)
	type earm struct {
		tag     int64 // -1: no tag written before the payload, -2: a tag that is not a constant
		callee  *types.Func
		ordered bool
		pos     token.Pos
	}
	enc := map[string][]earm{}
	vague := 0 // payload calls whose value type could not be determined
	ew := &flow.Sym{G: ge}
	ew.Visit = func(m ast.Node, st *flow.SState) bool {
		for _, call := range cfgq.ExecCalls(m) {
			f := core.CalleeFunc(info, call)
			if f == nil || core.NamedTypeName(recvOf(f)) != "encoder" {
				for _, arg := range call.Args {
					if sel, ok := ast.Unparen(arg).(*ast.SelectorExpr); ok && sel.Sel.Name == "Value" && scope.Lookup(core.NamedTypeName(info.TypeOf(sel.X))) != nil {
						vague++ // the payload goes somewhere the rule does not know
					}
				}
				continue
			}
			if f == encodeType.Obj && len(call.Args) == 1 {
				if v := ew.Eval(call.Args[0], st); v.Kind == flow.SInt {
					st.Marks["tag"] = v
				} else {
					st.Marks["tag"] = flow.SVal{Tok: "non-constant"}
				}
				continue
			}
			// a call that is handed the value's payload field
			tn := ""
			for _, arg := range call.Args {
				if sel, ok := ast.Unparen(arg).(*ast.SelectorExpr); ok && sel.Sel.Name == "Value" {
					tn = core.NamedTypeName(info.TypeOf(sel.X))
				}
			}
			if tn == "" {
				if knownEnc[f] {
					vague++ // a body encoder called on something else than x.Value
				}
				continue
			}
			if !knownEnc[f] || len(call.Args) != 1 || scope.Lookup(tn) == nil {
				vague++
				continue
			}
			a := earm{tag: -1, callee: f, pos: call.Pos()}
			if mk, has := st.Marks["tag"]; has {
				a.tag, a.ordered = -2, true
				if mk.Kind == flow.SInt {
					a.tag = mk.K
				}
			}
			enc[tn] = append(enc[tn], a)
		}
		return false
	}
	ew.Run(nil)
	for _, t := range tagTable {
		darms := dec[int64(t.tag)]
		switch {
		case len(darms) == 0 && (dw.Overflow || dw.UnknownCalls > 0):
			c.Undecidedf("R2.tags", "decode/"+t.typ, decodeResp.Decl.Pos(), "cannot enumerate the paths of decodeResp")
		case len(darms) == 0:
			c.Check("R2.tags", "decode/"+t.typ, decodeResp.Decl.Pos(), false, fmt.Sprintf("no path of decodeResp decodes tag %q into &%s{} through %s: otherwise a value encoded as %s comes back as something else", t.tag, t.typ, t.dec, t.typ))
		default:
			good, vagueArm := true, false
			var d arm
			for _, a := range darms {
				d = a
				if a.typ == "" || !knownDec[a.callee] {
					vagueArm = true
				}
				if a.typ != t.typ || a.callee != decM[t.dec].Obj {
					good = false
					break
				}
			}
			if !good && vagueArm {
				c.Undecidedf("R2.tags", "decode/"+t.typ, d.pos, "the arm for tag %q builds %q through %v: not one of the recognised body decoders", t.tag, d.typ, fname(d.callee))
			} else {
				c.Check("R2.tags", "decode/"+t.typ, d.pos, good,
					fmt.Sprintf("tag %q must build &%s{} and fill it through %s (found: type %q, decoder %v): otherwise a value encoded as %s comes back as something else", t.tag, t.typ, t.dec, d.typ, fname(d.callee), t.typ))
			}
		}
		arms := enc[t.typ]
		switch {
		case len(arms) == 0 && (vague > 0 || ew.Overflow || ew.UnknownCalls > 0):
			c.Undecidedf("R2.tags", "encode/"+t.typ, encodeResp.Decl.Pos(), "cannot find how *%s is written: %d payload calls could not be attributed to a value type", t.typ, vague)
		case len(arms) == 0:
			c.Check("R2.tags", "encode/"+t.typ, encodeResp.Decl.Pos(), false, fmt.Sprintf("no path of encodeResp writes a *%s as tag %q followed by %s(x.Value)", t.typ, t.tag, t.enc))
		default:
			good, unknown := true, false
			var e earm
			for _, a := range arms {
				e = a
				if a.tag == -2 {
					unknown = true
				}
				if a.tag != int64(t.tag) || a.callee != encM[t.enc].Obj || !a.ordered {
					good = false
					break
				}
			}
			if !good && unknown {
				c.Undecidedf("R2.tags", "encode/"+t.typ, e.pos, "the tag written for *%s is not a constant on some path", t.typ)
			} else {
				c.Check("R2.tags", "encode/"+t.typ, e.pos, good,
					fmt.Sprintf("*%s must be written as tag %q followed by %s(x.Value) (found: tag %q, encoder %v, tag-first=%v): otherwise the decoder reads the value back as another type", t.typ, t.tag, t.enc, rune(e.tag), fname(e.callee), e.ordered))
			}
		}
	}
	// inline commands only at depth 0 (and only for a byte that is none of the five tags)
	detail := "the inline-command parser must be reachable only at depth 0: an unknown type byte inside an array has to yield an error, not a value"
	switch {
	case fallback.n == 0 || depth == nil:
		c.Undecidedf("R2.depth", "inline-fallback", decodeResp.Decl.Pos(), "no path of decodeResp reaches decodeSingleLineBulkBytesArray")
	case fallback.deep > 0:
		c.Check("R2.depth", "inline-fallback", fallback.pos, false, detail)
	case fallback.opaque > 0 || dw.Overflow:
		c.Undecidedf("R2.depth", "inline-fallback", fallback.pos, "the depth is tested in a form that is not understood; required: %s", detail)
	case fallback.knownTag > 0:
		c.Undecidedf("R2.depth", "inline-fallback", fallback.pos, "the inline-command fallback is reachable for one of the five type bytes")
	default:
		c.Check("R2.depth", "inline-fallback", fallback.pos, true, detail)
	}
	// recursion passes depth+k, entry points pass 0
	dparam := param(info, decodeArray, 0)
	entries := 0
	for _, fd := range r.decls() {
		for _, call := range flow.FindCalls(fd.Body, func(call *ast.CallExpr) bool { return core.CalleeFunc(info, call) == decodeResp.Obj }) {
			if len(call.Args) != 1 {
				continue
			}
			arg := ast.Unparen(call.Args[0])
			if fd == decodeArray.Decl {
				key := "nested-depth/" + fd.Name.Name
				if b := pat.Expr("_depth + _k").Match(info, arg, pat.Binds{"_depth": decodeArray.Decl.Type.Params.List[0].Names[0]}); b != nil && dparam != nil {
					k, isC := core.IntConst(info, b["_k"].(ast.Expr))
					if !isC {
						c.Undecidedf("R2.depth", key, call.Pos(), "depth increment %s is not a constant", c.Src(b["_k"]))
					} else {
						c.Check("R2.depth", key, call.Pos(), k >= 1, "array elements must be decoded at a depth greater than their array's, or inline commands would be accepted inside arrays")
					}
				} else if flow.IsObj(info, dparam)(arg) || isConst(info, arg, 0) {
					c.Failf("R2.depth", key, call.Pos(), "array elements are decoded at depth %s: at top level that is depth 0, so an unknown type byte inside an array is parsed as an inline command instead of yielding an error", c.Src(arg))
				} else if k, ok := core.IntConst(info, arg); ok && k > 0 {
					c.Okf("R2.depth", key, call.Pos(), "constant non-zero depth")
				} else {
					c.Undecidedf("R2.depth", key, call.Pos(), "depth argument %s not recognised", c.Src(arg))
				}
				continue
			}
			entries++
			if isConst(info, arg, 0) {
				c.Okf("R2.depth", "entry/"+fd.Name.Name, call.Pos(), "top-level decode starts at depth 0")
			} else {
				c.Undecidedf("R2.depth", "entry/"+fd.Name.Name, call.Pos(), "top-level decode starts at depth %s", c.Src(arg))
			}
		}
	}
	if entries < 2 {
		c.Undecidedf("instances", "R2.depth", token.NoPos, "only %d top-level calls of decodeResp found, 2 confirmed by hand", entries)
	}
}

func recvOf(f *types.Func) types.Type {
	if sig, _ := f.Type().(*types.Signature); sig != nil && sig.Recv() != nil {
		return sig.Recv().Type()
	}
	return nil
}

func fname(f *types.Func) string {
	if f == nil {
		return "<none>"
	}
	return f.Name()
}
