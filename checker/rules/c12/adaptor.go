package c12

import (
	"fmt"
	"go/ast"
	"go/token"
	"go/types"
	"regexp"
	"strings"

	"rscheck/cfgq"
	"rscheck/core"
	"rscheck/flow"
)

// structField returns field `name` of the struct type `typ` of pkg/rdb.
func structField(c *core.Ctx, typ, name string) *types.Var {
	pk := c.Pkg(rdbPkg)
	tn, _ := pk.Types.Scope().Lookup(typ).(*types.TypeName)
	if tn == nil {
		return nil
	}
	st, _ := tn.Type().Underlying().(*types.Struct)
	if st == nil {
		return nil
	}
	for i := 0; i < st.NumFields(); i++ {
		if st.Field(i).Name() == name {
			return st.Field(i)
		}
	}
	return nil
}

// opaqueRegion: the region reachable from fn holds constructs through which a
// field could be written without a visible store (function literals, the
// address of the field): "no store found" is then not "no store".
func opaqueRegion(r *roler, field *types.Var) bool {
	hit := false
	seen := map[*ast.BlockStmt]bool{}
	var scan func(body *ast.BlockStmt, info *types.Info)
	scan = func(body *ast.BlockStmt, info *types.Info) {
		if seen[body] {
			return
		}
		seen[body] = true
		ast.Inspect(body, func(n ast.Node) bool {
			switch x := n.(type) {
			case *ast.FuncLit:
				hit = true
			case *ast.UnaryExpr:
				if x.Op == token.AND && core.FieldOf(info, x.X) == field {
					hit = true
				}
			}
			return !hit
		})
	}
	scan(r.root.Decl.Body, r.root.Pkg.TypesInfo)
	r.e.Walk(r.g, r.root.Decl.Body, func(s flow.Site, n ast.Node) { scan(s.G.Body, s.G.Info) })
	return hit
}

// storeRule: among the stores to d.obj reachable from callback fn (helpers
// included) there is one whose value has role `want`; a store of the same
// family (prefix) with a fully known, different role is a violation.
func storeRule(c *core.Ctx, slot *adaptorSlot, fn *core.Fn, key string, params []string, family *regexp.Regexp, want []string, why string) {
	if slot == nil || slot.obj == nil {
		c.Undecidedf("R3.wiring", key, fn.Decl.Pos(), "cannot tell in which field the adaptor keeps the decoded object (see adaptor/DecodeDump)")
		return
	}
	obj := slot.obj
	// the rules are written for `d.obj`; the object may live deeper (`d.slot.obj`)
	for i := range want {
		want[i] = strings.ReplaceAll(want[i], "d.obj", "d"+slot.path)
	}
	holder := "d" + slot.path[:strings.LastIndex(slot.path, ".")]
	r := newRoler(c, fn, outsideRdb)
	r.nameParams("d", params...)
	stores := r.e.Stores(r.g, fn.Decl.Body, func(v *types.Var) bool { return v == obj })
	isWant := func(s string) bool {
		for _, w := range want {
			if s == w {
				return true
			}
		}
		return false
	}
	var good, wrong, unknown []string
	for _, st := range stores {
		if !st.Plain() {
			unknown = append(unknown, "op-assignment")
			continue
		}
		switch base := strings.TrimPrefix(strings.TrimPrefix(r.role(st.Site, st.LHS.X), "*"), "&"); {
		case base == holder:
		case unknownRole(base):
			unknown = append(unknown, "a store to the obj of "+base)
			continue
		default:
			continue // the obj of another adaptor object
		}
		role := r.role(st.Site, st.RHS)
		switch {
		case isWant(role):
			good = append(good, role)
		case unknownRole(role):
			unknown = append(unknown, role)
		case family.MatchString(role):
			wrong = append(wrong, role)
		default:
			unknown = append(unknown, role)
		}
	}
	switch {
	case len(wrong) > 0:
		c.Failf("R3.wiring", key, fn.Decl.Pos(), "%s; the adaptor stores `%s`, expected `%s`", why, strings.Join(wrong, "`, `"), strings.Join(want, "` or `"))
	case len(good) > 0:
		c.Okf("R3.wiring", key, fn.Decl.Pos(), "%s (`%s`)", why, good[0])
	case len(unknown) > 0 || opaqueRegion(r, obj):
		c.Undecidedf("R3.wiring", key, fn.Decl.Pos(), "cannot tell what %s stores in the adaptor's object: %s", fn.Name(), strings.Join(unknown, ", "))
	default:
		c.Failf("R3.wiring", key, fn.Decl.Pos(), "%s; no store to the adaptor's object is reachable from %s (helpers included): the element is dropped", why, fn.Name())
	}
}

// adaptorRules checks pkg/rdb/decoder.go: each callback stores its parameters
// in the fields of the same meaning.
var (
	appendFamily = regexp.MustCompile(`^append\(`)
	// a value of one of the adaptor's Go types: conversion, literal, make
	valueFamily = regexp.MustCompile(`^(&?[A-Z][A-Za-z]*(\(.*\)|\{.*\})|make\([A-Z][A-Za-z]*,.*\))$`)
)

// adaptorSlot: the field in which the adaptor keeps the decoded object - found
// as the field (path) of the adaptor that DecodeDump returns, not by its name.
type adaptorSlot struct {
	obj  *types.Var
	path string // ".obj", ".slot.obj", ...
}

func adaptorRules(c *core.Ctx) {
	var slot *adaptorSlot
	if fn := c.Func(rdbPkg, "", "DecodeDump"); fn != nil {
		slot = decodeDumpRule(c, fn)
	}
	if slot == nil {
		if v := structField(c, "decoder", "obj"); v != nil {
			slot = &adaptorSlot{obj: v, path: ".obj"}
		}
	}
	if fn := c.Func(rdbPkg, "decoder", "Hset"); fn != nil {
		storeRule(c, slot, fn, "adaptor/Hset", []string{"key", "field", "value"}, appendFamily,
			[]string{"append(d.obj.(Hash),&HashElement{Field:field,Value:value})"},
			"Hset(key, field, value) appends HashElement{Field: field, Value: value} (order preserved)")
	}
	if fn := c.Func(rdbPkg, "decoder", "Zadd"); fn != nil {
		storeRule(c, slot, fn, "adaptor/Zadd", []string{"key", "score", "member"}, appendFamily,
			[]string{"append(d.obj.(ZSet),&ZSetElement{Member:member,Score:score})"},
			"Zadd(key, score, member) appends ZSetElement{Member: member, Score: score}")
	}
	for _, m := range []struct{ name, typ, p string }{{"Rpush", "List", "value"}, {"Sadd", "Set", "member"}} {
		if fn := c.Func(rdbPkg, "decoder", m.name); fn != nil {
			storeRule(c, slot, fn, "adaptor/"+m.name, []string{"key", m.p}, appendFamily,
				[]string{"append(d.obj.(" + m.typ + ")," + m.p + ")"},
				m.name+"(key, x) appends x to the "+m.typ+" in call order")
		}
	}
	if fn := c.Func(rdbPkg, "decoder", "Set"); fn != nil {
		storeRule(c, slot, fn, "adaptor/Set", []string{"key", "value", "expiry"}, valueFamily, []string{"String(value)"}, "Set(key, value, expiry) yields String(value)")
	}
	for _, m := range []struct{ name, typ string }{{"StartHash", "Hash"}, {"StartSet", "Set"}, {"StartList", "List"}, {"StartZSet", "ZSet"}} {
		if fn := c.Func(rdbPkg, "decoder", m.name); fn != nil {
			storeRule(c, slot, fn, "adaptor/"+m.name, []string{"key"}, valueFamily,
				[]string{m.typ + "(nil)", m.typ + "{}", "make(" + m.typ + ",=0)"}, m.name+" initialises an empty "+m.typ)
		}
	}
}

// successfulReturns lists the return statements of the root that are not
// provably error exits.
func successfulReturns(r *roler) []cfgq.Point {
	var out []cfgq.Point
	for _, rp := range r.g.Points(func(n ast.Node) bool { _, ok := n.(*ast.ReturnStmt); return ok }) {
		if cfgq.ClassifyReturn(r.g.Info, r.g.Body, rp.Node().(*ast.ReturnStmt)) != cfgq.RetErr {
			out = append(out, rp)
		}
	}
	return out
}

// resultExpr is the expression of result #i at a return statement (the named
// result for a bare return).
func resultExpr(fn *core.Fn, ret *ast.ReturnStmt, i int) ast.Expr {
	nres := fn.Obj.Type().(*types.Signature).Results().Len()
	switch {
	case len(ret.Results) == nres && i < nres:
		return ret.Results[i]
	case len(ret.Results) == 0 && fn.Decl.Type.Results != nil:
		k := 0
		for _, fl := range fn.Decl.Type.Results.List {
			for _, nm := range fl.Names {
				if k == i {
					return nm
				}
				k++
			}
		}
	}
	return nil
}

func decodeDumpRule(c *core.Ctx, fn *core.Fn) *adaptorSlot {
	const rule, key = "R3.wiring", "adaptor/DecodeDump"
	const why = "DecodeDump decodes the payload it was given into a fresh adaptor and returns that adaptor's object"
	r := newRoler(c, fn, outsideRdb)
	r.allocID = true
	r.nameParams("", "p")
	calls := r.e.Calls(r.g, fn.Decl.Body, func(f *types.Func) bool {
		return f.Name() == "DecodeDump" && f.Pkg() != nil && f.Pkg().Path() == core.Module+"/"+cupPkg
	})
	if len(calls) != 1 || len(calls[0].Call.Args) != 5 {
		c.Undecidedf(rule, key, fn.Decl.Pos(), "expected one call of the cupcake DecodeDump reachable from DecodeDump, found %d", len(calls))
		return nil
	}
	dc := calls[0]
	var wrong, unknown []string
	for i, want := range []string{"p", "=0", "nil", "=0"} {
		got := r.role(dc.Site, dc.Call.Args[i])
		switch {
		case got == want:
		case unknownRole(got) || i == 0 && !strings.HasPrefix(got, "p") || i > 0 && got != "nil" && !strings.HasPrefix(got, "="):
			unknown = append(unknown, fmt.Sprintf("argument %d: %s", i, got))
		default:
			wrong = append(wrong, fmt.Sprintf("argument %d of the decoder call is %s, expected %s", i, got, want))
		}
	}
	ad := strings.TrimPrefix(r.role(dc.Site, dc.Call.Args[4]), "&")
	switch {
	case unknownRole(ad):
		unknown = append(unknown, "adaptor: "+ad)
	case strings.HasPrefix(ad, "var@"):
		// a local whose address is passed: it must start as the zero adaptor
		if !zeroDeclared(r, dc.Call.Args[4]) {
			unknown = append(unknown, "adaptor variable is not declared as a zero value")
		}
	case freshAllocRe.MatchString(ad):
	default:
		unknown = append(unknown, "adaptor: "+ad)
	}
	var slot *adaptorSlot
	rets := successfulReturns(r)
	if len(rets) == 0 {
		unknown = append(unknown, "no successful return")
	}
	for _, rp := range rets {
		ret := rp.Node().(*ast.ReturnStmt)
		s := flow.Site{G: r.g, At: rp}
		for i, f := range []string{"object", "error"} {
			x := resultExpr(fn, ret, i)
			if x == nil {
				unknown = append(unknown, "return form")
				continue
			}
			got := strings.TrimPrefix(r.role(s, x), "&")
			// a field (path) of the adaptor handed to the decoder: interface-typed for the
			// object, error-typed for the error
			var fv *types.Var
			if strings.HasPrefix(got, ad+".") && fieldPathRe.MatchString(got[len(ad):]) {
				fv = fieldByPath(r.g.Info.TypeOf(dc.Call.Args[4]), got[len(ad):])
			}
			switch {
			case fv != nil && i == 0 && isEmptyInterface(fv.Type()):
				if slot == nil {
					slot = &adaptorSlot{obj: fv, path: got[len(ad):]}
				} else if slot.obj != fv {
					wrong = append(wrong, "different returns yield different fields of the adaptor")
				}
			case fv != nil && i == 1 && cfgq.IsErrorType(fv.Type()):
			case i == 0 && got == "nil" && cfgq.ClassifyReturn(r.g.Info, r.g.Body, ret) != cfgq.RetNilErr:
				// (nil, err) with an error that may be nil only syntactically
			case unknownRole(got) || !(fv != nil || identityPathRe.MatchString(got) || got == "nil" || strings.HasPrefix(got, "=")):
				unknown = append(unknown, "result "+f+": "+got)
			default:
				wrong = append(wrong, fmt.Sprintf("result %d is %s, expected the %s field of the adaptor %s that was handed to the decoder", i, got, f, ad))
			}
		}
	}
	switch {
	case len(wrong) > 0:
		c.Failf(rule, key, fn.Decl.Pos(), "%s; %s", why, strings.Join(wrong, "; "))
	case len(unknown) > 0:
		c.Undecidedf(rule, key, fn.Decl.Pos(), "cannot follow the adaptor object of DecodeDump: %s", strings.Join(unknown, "; "))
	default:
		c.Okf(rule, key, fn.Decl.Pos(), "%s", why)
		return slot
	}
	return nil
}

var (
	freshAllocRe   = regexp.MustCompile(`^([A-Za-z_]\w*\{\}|new\([A-Za-z_]\w*\))@[0-9]+$`)
	fieldPathRe    = regexp.MustCompile(`^(\.[A-Za-z_]\w*)+$`)
	identityPathRe = regexp.MustCompile(`^([A-Za-z_]\w*\{[^?]*\}|new\([A-Za-z_]\w*\)|var)@[0-9]+(\.[A-Za-z_]\w*)+$`)
)

func isEmptyInterface(t types.Type) bool {
	it, ok := t.Underlying().(*types.Interface)
	return ok && it.NumMethods() == 0
}

// fieldByPath follows `.a.b` from (a pointer to) a struct type to the field.
func fieldByPath(t types.Type, path string) *types.Var {
	var fv *types.Var
	for _, name := range strings.Split(strings.TrimPrefix(path, "."), ".") {
		if t == nil {
			return nil
		}
		if p, ok := t.Underlying().(*types.Pointer); ok {
			t = p.Elem()
		}
		st, ok := t.Underlying().(*types.Struct)
		if !ok {
			return nil
		}
		fv = nil
		for i := 0; i < st.NumFields(); i++ {
			if st.Field(i).Name() == name {
				fv = st.Field(i)
			}
		}
		if fv == nil {
			return nil
		}
		t = fv.Type()
	}
	return fv
}

// zeroDeclared: x is `&v` (or v) with v declared by `var v T` or `v := T{}`.
func zeroDeclared(r *roler, x ast.Expr) bool {
	x = ast.Unparen(x)
	if u, ok := x.(*ast.UnaryExpr); ok && u.Op == token.AND {
		x = ast.Unparen(u.X)
	}
	id, ok := x.(*ast.Ident)
	if !ok {
		return false
	}
	info := r.g.Info
	obj := core.ObjOf(info, id)
	okDecl := false
	writes := 0
	core.Inspect(r.g.Body, func(n ast.Node) bool {
		switch v := n.(type) {
		case *ast.ValueSpec:
			for i, nm := range v.Names {
				if info.Defs[nm] == obj {
					writes++
					if len(v.Values) == 0 {
						okDecl = true
					} else if i < len(v.Values) {
						if cl, isLit := ast.Unparen(v.Values[i]).(*ast.CompositeLit); isLit && len(cl.Elts) == 0 {
							okDecl = true
						}
					}
				}
			}
		case *ast.AssignStmt:
			for i, l := range v.Lhs {
				if lid, isId := ast.Unparen(l).(*ast.Ident); isId && core.ObjOf(info, lid) == obj {
					writes++
					if v.Tok == token.DEFINE && len(v.Lhs) == len(v.Rhs) {
						if cl, isLit := ast.Unparen(v.Rhs[i]).(*ast.CompositeLit); isLit && len(cl.Elts) == 0 {
							okDecl = true
						}
					}
				}
			}
		}
		return true
	})
	return okDecl && writes == 1
}

// converterRules checks R5: ObjEntry()/BinEntry() copy every field other than
// Value one-to-one (composite literal, or a fresh object filled field by field).
func converterRules(c *core.Ctx) {
	pk := c.Pkg(rdbPkg)
	for _, m := range []struct{ recv, name, target string }{{"BinEntry", "ObjEntry", "ObjEntry"}, {"ObjEntry", "BinEntry", "BinEntry"}} {
		fn := c.Func(rdbPkg, m.recv, m.name)
		if fn == nil {
			continue
		}
		srcT, _ := pk.Types.Scope().Lookup(m.recv).Type().Underlying().(*types.Struct)
		dstT, _ := pk.Types.Scope().Lookup(m.target).Type().Underlying().(*types.Struct)
		if srcT == nil || dstT == nil {
			c.Undecidedf("R5.convert", m.recv+"."+m.name, fn.Decl.Pos(), "entry types not found")
			continue
		}
		r := newRoler(c, fn, outsideRdb)
		r.allocID = true // the object under construction is followed by identity into helpers that fill it
		r.nameParams("e")
		var results []map[string]string
		known := true
		for _, rp := range successfulReturns(r) {
			ret := rp.Node().(*ast.ReturnStmt)
			x := resultExpr(fn, ret, 0)
			if x == nil {
				known = false
				continue
			}
			s := flow.Site{G: r.g, At: rp}
			if r.role(s, x) == "nil" {
				continue
			}
			fs, ok := fieldRoles(r, s, x, dstT, 0)
			if !ok {
				known = false
				continue
			}
			results = append(results, fs)
		}
		if len(results) == 0 || !known {
			c.Undecidedf("R5.convert", m.recv+"."+m.name, fn.Decl.Pos(), "cannot find how the %s returned by %s is built", m.target, m.name)
			continue
		}
		for i := 0; i < dstT.NumFields(); i++ {
			f := dstT.Field(i).Name()
			if f == "Value" {
				continue
			}
			hasSrc := false
			for j := 0; j < srcT.NumFields(); j++ {
				hasSrc = hasSrc || srcT.Field(j).Name() == f
			}
			if !hasSrc {
				continue
			}
			okCopy, unknown, got := true, false, ""
			for _, fs := range results {
				v, set := fs[f]
				got = v
				switch {
				case !set:
					okCopy = false
					got = "<not set>"
				case v == "e."+f:
				case unknownRole(v) || !convShapeRe.MatchString(v):
					unknown = true // not a copy of a field / a constant: cannot be judged
				default:
					okCopy = false
				}
			}
			key := m.recv + "." + m.name + "/" + f
			detail := fmt.Sprintf("%s() copies %s unchanged (database, key, type, expiry and chunk bookkeeping survive the conversion); it is %s", m.name, f, got)
			switch {
			case !okCopy:
				c.Failf("R5.convert", key, fn.Decl.Pos(), "%s", detail)
			case unknown:
				c.Undecidedf("R5.convert", key, fn.Decl.Pos(), "cannot tell what %s is set to: %s", f, got)
			default:
				c.Okf("R5.convert", key, fn.Decl.Pos(), "%s", detail)
			}
		}
	}
}

var convShapeRe = regexp.MustCompile(`^(e\.[A-Za-z]+|=.*|nil|lin\([^?]*e\.[A-Za-z]+[^?]*\))$`)

// fieldRoles returns field -> role for the struct value x stands for: a
// composite literal (possibly behind & and locals) plus later `v.F = ...`
// stores when it is held in a variable.
func fieldRoles(r *roler, s flow.Site, x ast.Expr, st *types.Struct, d int) (map[string]string, bool) {
	if d > 8 {
		return nil, false
	}
	x = ast.Unparen(x)
	if u, ok := x.(*ast.UnaryExpr); ok && u.Op == token.AND {
		x = ast.Unparen(u.X)
	}
	switch v := x.(type) {
	case *ast.CompositeLit:
		out := map[string]string{}
		for i, el := range v.Elts {
			if kv, ok := el.(*ast.KeyValueExpr); ok {
				if id, ok := kv.Key.(*ast.Ident); ok {
					out[id.Name] = r.role(s, kv.Value)
				}
			} else if i < st.NumFields() {
				out[st.Field(i).Name()] = r.role(s, el)
			}
		}
		return out, true
	case *ast.CallExpr:
		if b, ok := core.Callee(s.G.Info, v).(*types.Builtin); ok && b.Name() == "new" {
			return map[string]string{}, true
		}
		// built by a helper: what its (single) successful return builds
		if rets, ok := r.e.Follow(s, v, 0); ok && len(rets) == 1 && rets[0].Expr != nil {
			return fieldRoles(r, rets[0].Site, rets[0].Expr, st, d+1)
		}
	case *ast.Ident:
		step := r.e.Step(s, v)
		if !step.Local || step.Entry {
			return nil, false
		}
		var out map[string]string
		switch {
		case step.Unsafe:
			// a value variable filled field by field and returned by address
			if !zeroDeclared(r, v) {
				return nil, false
			}
			out = map[string]string{}
		case len(step.Defs) == 1 && step.Defs[0].RHS != nil:
			var ok bool
			out, ok = fieldRoles(r, step.Defs[0].Site, step.Defs[0].RHS, st, d+1)
			if !ok {
				return nil, false
			}
		case len(step.Defs) == 1 && step.Defs[0].Zero:
			out = map[string]string{}
		default:
			return nil, false
		}
		obj := step.Obj
		for _, sto := range r.e.Stores(s.G, s.G.Body, func(fv *types.Var) bool {
			for i := 0; i < st.NumFields(); i++ {
				if st.Field(i) == fv {
					return true
				}
			}
			return false
		}) {
			if sto.G != s.G {
				// a helper that fills the object through a pointer parameter: the same object
				// iff the base of the store resolves to the same allocation
				self := r.role(s, v)
				if unknownRole(self) || !strings.Contains(self, "@") || strings.TrimPrefix(r.role(sto.Site, sto.LHS.X), "*") != self {
					continue
				}
			} else if base, ok := ast.Unparen(sto.LHS.X).(*ast.Ident); !ok || core.ObjOf(s.G.Info, base) != obj {
				continue
			}
			if !sto.Plain() {
				out[sto.Field.Name()] = "?op-assignment"
				continue
			}
			if _, had := out[sto.Field.Name()]; had {
				out[sto.Field.Name()] = "?set-more-than-once"
			} else {
				out[sto.Field.Name()] = r.role(sto.Site, sto.RHS)
			}
		}
		return out, true
	}
	return nil, false
}
