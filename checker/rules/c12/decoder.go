package c12

import (
	"fmt"
	"go/ast"
	"go/token"
	"go/types"
	"regexp"
	"sort"
	"strconv"
	"strings"

	"rscheck/cfgq"
	"rscheck/core"
	"rscheck/flow"
	"rscheck/grammar"
)

func outsideCup(f *types.Func) bool {
	return f.Pkg() == nil || f.Pkg().Path() != core.Module+"/"+cupPkg
}

func paramObjs(fn *core.Fn) []types.Object {
	var out []types.Object
	for _, fl := range fn.Decl.Type.Params.List {
		for _, nm := range fl.Names {
			out = append(out, fn.Pkg.TypesInfo.Defs[nm])
		}
	}
	return out
}

func decoderRules(c *core.Ctx) {
	if ro := c.Func(cupPkg, "decode", "readObject"); ro != nil {
		readObjectRules(c, ro)
	}
	if dec := c.Func(cupPkg, "decode", "decode"); dec != nil {
		decodeLoopRules(c, dec)
		intBufRule(c, dec)
	}
	if rf := c.Func(cupPkg, "decode", "readFloat64"); rf != nil {
		floatTextRule(c, rf)
	}
}

// floatTextRule: the text form of a double (the score of a plain sorted set)
// becomes a float64 in exactly one way per length byte: 253 -> NaN, 254 -> +Inf,
// 255 -> -Inf, anything else -> strconv.ParseFloat(<the bytes read>, 64). Every
// origin of the value returned on a successful path is followed (locals,
// helpers); an origin that is another conversion of the text - an integer
// parse, Atoi, a 32-bit float parse - cannot represent -0, fractions or the
// full precision and is a violation; an origin that cannot be named is
// UNDECIDED.
func floatTextRule(c *core.Ctx, fn *core.Fn) {
	const rule, key = "R3.wiring", "decoder/float-text"
	const why = "a text-encoded double is NaN/+Inf/-Inf for the length bytes 253/254/255 and strconv.ParseFloat(text, 64) otherwise, on every successful path"
	r := newRoler(c, fn, outsideCup)
	r.nameParams("d")
	caseAt := func(s flow.Site) int64 {
		for _, k := range []int64{253, 254, 255} {
			k := k
			if r.e.Under(s, func(f cfgq.Fact) bool {
				be, ok := ast.Unparen(flow.Positive(f)).(*ast.BinaryExpr)
				if !ok || be.Op != token.EQL {
					return false
				}
				for _, y := range []ast.Expr{be.X, be.Y} {
					if v, isC := core.IntConst(s.G.Info, y); isC && v == k {
						return true
					}
				}
				return false
			}) {
				return k
			}
		}
		return 0
	}
	special := map[int64]string{253: "math.NaN()", 254: "math.Inf(+)", 255: "math.Inf(-)"}
	var wrong, unknown []string
	seen := map[int64]bool{}
	n := 0
	for _, rp := range successfulReturns(r) {
		ret := rp.Node().(*ast.ReturnStmt)
		x := resultExpr(fn, ret, 0)
		if x == nil {
			// `return f()` forwarding a tuple, a bare return ...
			if len(ret.Results) == 1 {
				if call, ok := ast.Unparen(ret.Results[0]).(*ast.CallExpr); ok {
					s := flow.Site{G: r.g, At: rp}
					k := caseAt(s)
					for _, ro := range splitTop(r.callRole(s, call, 0, 0)) {
						n++
						judgeFloatOrigin(ro, k, special, seen, &wrong, &unknown)
					}
					continue
				}
			}
			unknown = append(unknown, "return form")
			continue
		}
		// the value may be carried in a local: each origin is judged where it is computed
		for _, o := range originSites(r, flow.Site{G: r.g, At: rp}, x, 0) {
			k := caseAt(o.site)
			for _, ro := range splitTop(o.role) {
				n++
				judgeFloatOrigin(ro, k, special, seen, &wrong, &unknown)
			}
		}
	}
	for _, k := range []int64{0, 253, 254, 255} {
		if !seen[k] && len(wrong) == 0 && len(unknown) == 0 {
			unknown = append(unknown, fmt.Sprintf("no successful return found for case %d", k))
		}
	}
	switch {
	case len(wrong) > 0:
		c.Failf(rule, key, fn.Decl.Pos(), "%s; %s", why, strings.Join(wrong, "; "))
	case len(unknown) > 0 || n == 0:
		c.Undecidedf(rule, key, fn.Decl.Pos(), "cannot name every origin of the value readFloat64 returns: %s", strings.Join(unknown, "; "))
	default:
		c.Okf(rule, key, fn.Decl.Pos(), "%s", why)
	}
}

// originSite is one origin of a value with the site at which it is computed
// (the right-hand side of the definition that reaches the use).
type originSite struct {
	role string
	site flow.Site
}

// originSites follows x through plain local definitions and parameter binding
// and returns each origin's role together with the site of its computation, so
// that a rule can ask which branch facts hold THERE.
func originSites(r *roler, s flow.Site, x ast.Expr, depth int) []originSite {
	x = ast.Unparen(x)
	id, ok := x.(*ast.Ident)
	if !ok || depth > 8 {
		return []originSite{{r.role(s, x), s}}
	}
	st := r.e.Step(s, id)
	if !st.Local || st.Unsafe {
		return []originSite{{r.role(s, x), s}}
	}
	var out []originSite
	if st.Entry {
		if st.Bound {
			out = append(out, originSites(r, st.ArgSite, st.Arg, depth+1)...)
		} else {
			out = append(out, originSite{r.role(s, id), s})
		}
	}
	for _, def := range st.Defs {
		switch {
		case def.Zero:
			out = append(out, originSite{zeroRole(st.Obj.Type()), def.Site})
		case def.RHS != nil:
			out = append(out, originSites(r, def.Site, def.RHS, depth+1)...)
		case def.Call != nil:
			out = append(out, originSite{r.callRole(def.Site, def.Call, def.Idx, 0), def.Site})
		default:
			out = append(out, originSite{"?" + id.Name, def.Site})
		}
	}
	return out
}

var (
	parseFloat64Re = regexp.MustCompile(`^strconv\.ParseFloat\(make\(\[\]byte,[^?]*\),=64\)$`)
	otherParseRe   = regexp.MustCompile(`^(strconv\.(ParseFloat|ParseInt|ParseUint|Atoi)\(|math\.(NaN|Inf)\(|=)`)
)

var infRe = regexp.MustCompile(`^math\.Inf\(=(-?)[0-9]+\)$`)

func judgeFloatOrigin(ro string, k int64, special map[int64]string, seen map[int64]bool, wrong, unknown *[]string) {
	// math.Inf(sign): only the sign of the argument matters (>= 0: +Inf, < 0: -Inf)
	if m := infRe.FindStringSubmatch(ro); m != nil {
		if m[1] == "-" {
			ro = "math.Inf(-)"
		} else {
			ro = "math.Inf(+)"
		}
	}
	switch {
	case k != 0 && ro == special[k], k == 0 && parseFloat64Re.MatchString(ro):
		seen[k] = true
	case unknownRole(ro) || !otherParseRe.MatchString(ro):
		*unknown = append(*unknown, fmt.Sprintf("case %d: %s", k, ro))
	default:
		if k == 0 {
			*wrong = append(*wrong, fmt.Sprintf("for an ordinary length byte the value is `%s`, not strconv.ParseFloat(text, 64): -0, fractions or precision are lost for the scores that take this path", ro))
		} else {
			*wrong = append(*wrong, fmt.Sprintf("for length byte %d the value is `%s`, expected `%s`", k, ro, special[k]))
		}
	}
}

// readObjectRules: R2 per value type. The type parameter is given each value
// in turn (grammar.Assume): switch, if-chain, tagless switch, a dispatch moved
// into a helper that receives the type, nested tests of the type inside a
// clause are all decided by constant folding, and what remains is the read
// term of that type.
func readObjectRules(c *core.Ctx, ro *core.Fn) {
	ps := paramObjs(ro)
	if len(ps) != 3 || ps[1] == nil {
		c.Undecidedf("R2.grammar", "readObject/params", ro.Decl.Pos(), "expected readObject(key, typ, expiry)")
		return
	}
	rr := newRoler(c, ro, outsideCup)
	for v, want := range readRef {
		spec := decodeSpec()
		delete(spec.Prims, "(*"+cupName+".decode).readObject")
		spec.StrictLits = true
		spec.ImplicitDefault = true
		spec.ResolveCallee = func(info *types.Info, call *ast.CallExpr, stack []*ast.CallExpr) *types.Func {
			// a callback or reader held in a struct field / handed around: its single possible target
			if s, found := rr.siteFor(call, stack); found {
				if cands, ok := rr.funcCandsExpr(s, call.Fun); ok && len(cands) == 1 {
					return cands[0].f
				}
			}
			return nil
		}
		ex := grammar.New(c, spec)
		ex.Assume(ps[1], v)
		got := ex.FuncTerm(ro)
		key := fmt.Sprintf("readObject/%d-%s", v, typeNames[v])
		same, ok, gl := sameLang(got, want)
		switch {
		case len(ex.Undecided) > 0:
			c.Undecidedf("R2.grammar", key, ro.Decl.Pos(), "%s", strings.Join(ex.Undecided, "; "))
		case !ok:
			c.Undecidedf("R2.grammar", key, ro.Decl.Pos(), "the read term `%s` is outside what can be expanded to paths", got)
		case gl == "":
			c.Failf("R2.grammar", key, ro.Decl.Pos(), "the decoder reads nothing for value type %d (%s) - no case for it: payloads the tool's own parser produces cannot be decoded", v, typeNames[v])
		case !same && extraPathsOnly(got, want):
			c.Undecidedf("R2.grammar", key, ro.Decl.Pos(), "readObject(%s) consumes `%s`: besides the expected path there are others under conditions that cannot be evaluated", typeNames[v], gl)
		case !same && strings.Contains(gl, "Star{") && looseLangEqual(got, want):
			// same reads, but a loop whose form is not recognised as "runs the count that was read"
			c.Undecidedf("R2.grammar", key, ro.Decl.Pos(), "readObject(%s) consumes `%s`: the loop is not in a form that ties it to the count read (`%s`)", typeNames[v], gl, want)
		default:
			c.Check("R2.grammar", key, ro.Decl.Pos(), same, fmt.Sprintf("readObject(%s) consumes `%s`, the format (and the tool's writer) has `%s`", typeNames[v], gl, want))
		}
	}
	wiring(c, ro, ps)
}

func looseLangEqual(got, want string) bool {
	same, ok, _ := sameLang(looseLoops(got), looseLoops(want))
	return ok && same
}

// ---- R3: which item read becomes which event argument

var payloadEvents = map[string]bool{"Set": true, "Rpush": true, "Sadd": true, "Hset": true, "Zadd": true}

// numbering of the reads of one extraction: every dynamic instance of a read
// call (call expression + chain of helper calls) gets a number in the order in
// which the extraction meets it.
type readIDs struct {
	ids    map[string]int
	frozen bool
}

func (n *readIDs) get(key string) (int, bool) {
	if id, ok := n.ids[key]; ok {
		return id, true
	}
	if n.frozen {
		return 0, false
	}
	n.ids[key] = len(n.ids) + 1
	return n.ids[key], true
}

var idRe = regexp.MustCompile(`#[0-9]+`)

// renumber renames #n in order of first appearance.
func renumber(s string) string {
	m := map[string]string{}
	return idRe.ReplaceAllStringFunc(s, func(x string) string {
		if v, ok := m[x]; ok {
			return v
		}
		m[x] = "#" + strconv.Itoa(len(m)+1)
		return m[x]
	})
}

func isDecodeRead(f *types.Func) (string, bool) {
	if f.Pkg() == nil || f.Pkg().Path() != core.Module+"/"+cupPkg {
		return "", false
	}
	sig, _ := f.Type().(*types.Signature)
	if sig != nil && sig.Recv() != nil {
		if core.NamedTypeName(sig.Recv().Type()) != "decode" {
			return "", false
		}
		switch f.Name() {
		case "readString":
			return "Str", true
		case "readFloat64":
			return "FloatStr", true
		case "readDouble64":
			return "Fix8", true
		}
		return "", false
	}
	switch f.Name() {
	case "readZiplistEntry":
		return "ZE", true
	case "readZipmapItem":
		return "ZI", true
	}
	return "", false
}

// wiringTerm extracts readObject for value type v with the payload reads
// numbered and every payload event rendered with the roles of its arguments:
// `Len Star{Str#1 Str#2 Hset(key,#1,#2)}`.
func wiringTerm(c *core.Ctx, ro *core.Fn, ps []types.Object, v int64) (string, []string) {
	r := newRoler(c, ro, func(f *types.Func) bool {
		if outsideCup(f) {
			return true
		}
		_, isRead := isDecodeRead(f)
		return isRead
	})
	r.nameParams("d", "key", "typ", "expiry")
	ids := &readIDs{ids: map[string]int{}}
	r.leafCall = func(s flow.Site, call *ast.CallExpr, f *types.Func, idx int, d int) (string, bool) {
		if _, ok := isDecodeRead(f); !ok {
			return "", false
		}
		if idx != 0 {
			return "?read-result-" + strconv.Itoa(idx), true
		}
		id, ok := ids.get(siteKey(call, s.Up))
		if !ok {
			return "#unvisited", true
		}
		return "#" + strconv.Itoa(id), true
	}
	dropUnvisited := func(role string) string {
		// an origin that this value type never executes (decided by the type) is not an origin here
		parts := strings.Split(role, "|")
		var keep []string
		for _, p := range parts {
			if !strings.Contains(p, "#unvisited") {
				keep = append(keep, p)
			}
		}
		if len(keep) == 0 {
			return "?no-origin-on-this-path"
		}
		return strings.Join(keep, "|")
	}
	mk := func() *grammar.Spec {
		spec := decodeSpec()
		delete(spec.Prims, "(*"+cupName+".decode).readObject")
		spec.StrictLits = true
		spec.ImplicitDefault = true
		spec.ResolveCallee = func(info *types.Info, call *ast.CallExpr, stack []*ast.CallExpr) *types.Func {
			// a callback held in a struct field / handed around: its single possible target
			s, found := r.siteFor(call, stack)
			if !found {
				return nil
			}
			if cands, ok := r.funcCandsExpr(s, call.Fun); ok && len(cands) == 1 {
				return cands[0].f
			}
			return nil
		}
		spec.ClassifyCtx = func(info *types.Info, call *ast.CallExpr, f *types.Func, stack []*ast.CallExpr) (string, bool) {
			if tok, ok := isDecodeRead(f); ok {
				s, found := r.siteFor(call, stack)
				if !found {
					return tok + "#?no-site", true
				}
				id, _ := ids.get(siteKey(call, s.Up))
				out := tok
				if tok == "ZE" || tok == "ZI" {
					// which blob the entry is cut from
					from := "?"
					if len(call.Args) >= 1 {
						src := idRe.FindAllString(dropUnvisited(r.role(s, call.Args[0])), -1)
						sort.Strings(src)
						if len(src) > 0 {
							from = strings.Join(src, ",")
						}
					}
					out += "[" + from + "]"
					if tok == "ZI" && len(call.Args) == 2 {
						out += "(" + r.role(s, call.Args[1]) + ")"
					}
				}
				return out + "#" + strconv.Itoa(id), true
			}
			sig, _ := f.Type().(*types.Signature)
			if sig == nil || sig.Recv() == nil || !payloadEvents[f.Name()] {
				return "", false
			}
			if _, isIface := sig.Recv().Type().Underlying().(*types.Interface); !isIface || core.NamedTypeName(sig.Recv().Type()) != "Decoder" {
				return "", false
			}
			if !ids.frozen {
				return f.Name() + "(...)", true
			}
			s, found := r.siteFor(call, stack)
			if !found {
				return f.Name() + "(?no-site)", true
			}
			var as []string
			for _, a := range call.Args {
				as = append(as, dropUnvisited(r.role(s, a)))
			}
			return f.Name() + "(" + strings.Join(as, ",") + ")", true
		}
		return spec
	}
	// pass 1 numbers the reads this value type executes, pass 2 renders the events
	var term string
	var und []string
	for pass := 0; pass < 2; pass++ {
		ex := grammar.New(c, mk())
		ex.Assume(ps[1], v)
		term = ex.FuncTerm(ro)
		und = ex.Undecided
		ids.frozen = true
	}
	return renumber(looseLoops(term)), und
}

func wiring(c *core.Ctx, ro *core.Fn, ps []types.Object) {
	type ev struct {
		typ  int64
		want string
		why  string
	}
	evs := []ev{
		{0, "Str#1 Set(key,#1,expiry)", "Set(key, value, expiry) carries the string read"},
		{1, "Len Star{Str#1 Rpush(key,#1)}", "Rpush(key, value) carries each element in read order"},
		{2, "Len Star{Str#1 Sadd(key,#1)}", "Sadd(key, member) carries each member"},
		{3, "Len Star{Str#1 FloatStr#2 Zadd(key,#2,#1)}", "the member is read first, the score second, and the event is Zadd(key, score, member)"},
		{5, "Len Star{Str#1 Fix8#2 Zadd(key,#2,#1)}", "the member is read first, the score second, and the event is Zadd(key, score, member)"},
		{4, "Len Star{Str#1 Str#2 Hset(key,#1,#2)}", "Hset(key, field, value): the first string read is the field"},
		{13, "Str#1 Star{ZE[#1]#2 ZE[#1]#3 Hset(key,#2,#3)}", "Hset(key, field, value): the first ziplist entry is the field"},
		{9, "Str#1 Star{ZI[#1](=false)#2 ZI[#1](=true)#3 Hset(key,#2,#3)}", "Hset(key, field, value): the zipmap key item (no free byte) is the field, the value item carries the free byte"},
		{10, "Str#1 Star{ZE[#1]#2 Rpush(key,#2)}", "Rpush(key, value) carries each ziplist entry in order"},
		{14, "Len Star{Str#1 Star{ZE[#1]#2 Rpush(key,#2)}}", "Rpush(key, value) carries each entry of each quicklist node in order"},
		{12, "Str#1 Star{ZE[#1]#2 ZE[#1]#3 Zadd(key,strconv.ParseFloat(#3,=64),#2)}", "the member is read first, the score second, and the event is Zadd(key, score, member)"},
	}
	for _, e := range evs {
		key := fmt.Sprintf("decoder/%d-%s", e.typ, typeNames[e.typ])
		got, und := wiringTerm(c, ro, ps, e.typ)
		same, ok, gl := sameLang(got, e.want)
		switch {
		case len(und) > 0:
			c.Undecidedf("R3.wiring", key, ro.Decl.Pos(), "%s", strings.Join(und, "; "))
		case !ok || unknownRole(gl):
			c.Undecidedf("R3.wiring", key, ro.Decl.Pos(), "cannot tell which item read becomes which event argument: `%s`", got)
		case !same && extraPathsOnly(got, e.want):
			c.Undecidedf("R3.wiring", key, ro.Decl.Pos(), "besides the expected path there are others under conditions that cannot be evaluated: `%s`", gl)
		case !same && !eventArgsInVocabulary(gl):
			// an argument is computed in a way these rules do not model: not "located and wrong"
			c.Undecidedf("R3.wiring", key, ro.Decl.Pos(), "an event argument is outside the modelled forms (item read, key, expiry, constant, parsed float): `%s`", gl)
		case stripEvents(gl) != stripEvents(e.want):
			// the reads themselves differ: that is R2's finding, not a wiring fact
			c.Undecidedf("R3.wiring", key, ro.Decl.Pos(), "the reads of this type are not the expected ones (see R2.grammar): `%s`", gl)
		default:
			c.Check("R3.wiring", key, ro.Decl.Pos(), same, e.why+"; found `"+gl+"`, expected `"+e.want+"`")
		}
	}
}

var eventArgRe = regexp.MustCompile(`^(#[0-9]+|key|expiry|typ|=.*|nil|strconv\.(ParseFloat|ParseInt|ParseUint|Atoi)\(#[0-9]+(,=-?[0-9]+)*\))$`)

// eventArgsInVocabulary: every argument of every payload event of the term is
// one of the forms the wiring rule knows how to judge.
func eventArgsInVocabulary(term string) bool {
	for _, m := range eventRe.FindAllString(term, -1) {
		open := strings.IndexByte(m, '(')
		for _, a := range splitArgs(m[open+1 : len(m)-1]) {
			for _, alt := range splitTop(a) {
				if !eventArgRe.MatchString(alt) {
					return false
				}
			}
		}
	}
	return true
}

func splitArgs(s string) []string {
	var out []string
	depth, st := 0, 0
	for i := 0; i < len(s); i++ {
		switch s[i] {
		case '(', '[', '{':
			depth++
		case ')', ']', '}':
			depth--
		case ',':
			if depth == 0 {
				out = append(out, s[st:i])
				st = i + 1
			}
		}
	}
	return append(out, s[st:])
}

var endianRe = regexp.MustCompile(`\b(Fix[0-9]+)(LE|BE)\b`)

var eventRe = regexp.MustCompile(` ?\b(Set|Rpush|Sadd|Hset|Zadd)\([^ ]*\)`)

var readArgRe = regexp.MustCompile(`\[[^\]]*\]|\([^)]*\)|#[0-9]+`)

// stripEvents keeps only which kinds of items are read, in which structure
// (events, read numbers and read annotations removed).
func stripEvents(s string) string {
	return readArgRe.ReplaceAllString(eventRe.ReplaceAllString(s, ""), "")
}

// ---- file level: the opcode loop of decode()

func decodeLoopRules(c *core.Ctx, dec *core.Fn) {
	spec := func() *grammar.Spec {
		sp := decodeSpec()
		sp.StrictLits = true
		sp.ImplicitDefault = true
		return sp
	}
	rows, und := grammar.ByFirstByte(c, spec, dec)
	termOf := map[int]string{}
	for t, vs := range rows {
		for _, v := range vs {
			termOf[v] = t
		}
	}
	// what follows the dispatching byte, up to the end of the loop body
	after := func(t string) (string, bool) {
		i := strings.Index(t, "U8")
		if i < 0 {
			return "", false
		}
		rest := strings.TrimSpace(t[i+2:])
		if strings.HasPrefix(rest, "@") {
			if j := strings.IndexAny(rest, " }"); j >= 0 {
				rest = strings.TrimSpace(rest[j:])
			} else {
				rest = ""
			}
		}
		// cut at the brace that closes the loop the byte was read in
		depth := 0
		for k := 0; k < len(rest); k++ {
			switch rest[k] {
			case '{':
				depth++
			case '}':
				depth--
				if depth < 0 {
					return strings.TrimSpace(rest[:k]), true
				}
			}
		}
		return rest, true
	}
	ref := map[int]string{0xfa: "Str Str", 0xfb: "Len Len", 0xfc: "Fix8", 0xfd: "Fix4", 0xfe: "Len", 0xff: ""}
	for v, want := range ref {
		key := fmt.Sprintf("decode/op-%#x", v)
		body, ok := after(termOf[v])
		// which byte order the fixed-width reads use is the expiry rule's business
		body = endianRe.ReplaceAllString(body, "$1")
		same, lok, gl := sameLang(body, want)
		switch {
		case len(und) > 0:
			c.Undecidedf("R2.grammar", key, dec.Decl.Pos(), "%s", strings.Join(und, "; "))
		case !ok || !lok:
			c.Undecidedf("R2.grammar", key, dec.Decl.Pos(), "no dispatch on a first byte found in `%s`", termOf[v])
		case termOf[v] == termOf[0] && want != "Str Value":
			c.Failf("R2.grammar", key, dec.Decl.Pos(), "the file decoder has no case for opcode %#x (it is read as a value type: `%s`)", v, gl)
		default:
			c.Check("R2.grammar", key, dec.Decl.Pos(), same, fmt.Sprintf("opcode %#x consumes `%s`, the format has `%s`", v, gl, want))
		}
	}
	{
		body, ok := after(termOf[0])
		same, lok, gl := sameLang(body, "Str Value")
		switch {
		case len(und) > 0:
			c.Undecidedf("R2.grammar", "decode/key-record", dec.Decl.Pos(), "%s", strings.Join(und, "; "))
		case !ok || !lok:
			c.Undecidedf("R2.grammar", "decode/key-record", dec.Decl.Pos(), "no dispatch on a first byte found in `%s`", termOf[0])
		default:
			c.Check("R2.grammar", "decode/key-record", dec.Decl.Pos(), same, "a key record is read as key string then value; got `"+gl+"`")
		}
	}
	expiryRules(c, dec)
}

// expiryRules: the expiry handed to readObject is, per opcode that sets it,
// the little-endian integer just read - seconds scaled to milliseconds,
// milliseconds unscaled.
func expiryRules(c *core.Ctx, dec *core.Fn) {
	r := newRoler(c, dec, outsideCup)
	r.nameParams("d")
	g := r.g
	calls := r.e.Calls(g, dec.Decl.Body, func(f *types.Func) bool {
		return f.Name() == "readObject" && !outsideCup(f)
	})
	keys := map[int64]string{0xfd: "decode/expiry-seconds", 0xfc: "decode/expiry-ms"}
	whys := map[int64]string{0xfd: "EXPIRETIME (seconds) is scaled to milliseconds", 0xfc: "EXPIRETIME_MS is taken unscaled"}
	if len(calls) != 1 || len(calls[0].Call.Args) != 3 {
		for _, k := range keys {
			c.Undecidedf("R3.wiring", k, dec.Decl.Pos(), "expected one readObject(key, type, expiry) call reachable from decode, found %d", len(calls))
		}
		return
	}
	rc := calls[0]
	// origins of the expiry argument, each with the opcode under which it is computed
	type origin struct {
		role string
		op   int64 // 0: not under an opcode fact
	}
	var origins []origin
	var walk func(s flow.Site, x ast.Expr, d int)
	opAt := func(s flow.Site) int64 {
		for _, op := range []int64{0xfd, 0xfc} {
			op := op
			if r.e.Under(s, func(f cfgq.Fact) bool {
				be, ok := ast.Unparen(flow.Positive(f)).(*ast.BinaryExpr)
				if !ok || be.Op != token.EQL {
					return false
				}
				for _, y := range []ast.Expr{be.X, be.Y} {
					if v, isC := core.IntConst(s.G.Info, y); isC && v == op {
						return true
					}
				}
				return false
			}) {
				return op
			}
		}
		return 0
	}
	walk = func(s flow.Site, x ast.Expr, d int) {
		x = ast.Unparen(x)
		if id, ok := x.(*ast.Ident); ok && d < 8 {
			st := r.e.Step(s, id)
			if st.Local && !st.Unsafe {
				if st.Entry {
					if st.Bound {
						walk(st.ArgSite, st.Arg, d+1)
					} else {
						origins = append(origins, origin{r.role(s, id), 0})
					}
				}
				for _, def := range st.Defs {
					switch {
					case def.Zero:
						origins = append(origins, origin{"=0", 0})
					case def.RHS != nil:
						if _, isId := ast.Unparen(def.RHS).(*ast.Ident); isId {
							walk(def.Site, def.RHS, d+1)
						} else {
							origins = append(origins, origin{r.role(def.Site, def.RHS), opAt(def.Site)})
						}
					case def.Call != nil:
						origins = append(origins, origin{r.callRole(def.Site, def.Call, def.Idx, 0), opAt(def.Site)})
					default:
						origins = append(origins, origin{"?" + id.Name, 0})
					}
				}
				return
			}
		}
		origins = append(origins, origin{r.role(s, x), opAt(s)})
	}
	walk(rc.Site, rc.Call.Args[2], 0)
	le := "encoding/binary.LittleEndian."
	want := map[int64]string{0xfd: "lin(1000*" + le + "Uint32(d.intBuf))", 0xfc: le + "Uint64(d.intBuf)"}
	var stray []string
	byOp := map[int64][]string{}
	for i := range origins {
		// UintN(b[:k]) / UintN(b[0:k]) reads the first N/8 bytes of b like UintN(b) does
		// (k >= N/8, or the call would panic): the prefix slice is transparent
		origins[i].role = prefixSliceRe.ReplaceAllString(origins[i].role, "d.intBuf)")
	}
	for _, o := range origins {
		switch {
		case o.role == "=0":
		case o.op != 0:
			byOp[o.op] = append(byOp[o.op], o.role)
		default:
			stray = append(stray, o.role)
		}
	}
	// exactly one obligation per opcode, whatever the outcome
	for _, op := range []int64{0xfd, 0xfc} {
		roles := byOp[op]
		k := keys[op]
		allGood, anyUnknown := len(roles) > 0, false
		for _, ro := range roles {
			switch {
			case ro == want[op]:
			case unknownRole(ro) || !expiryShapeRe.MatchString(ro):
				anyUnknown = true // not of the form k * <byte order>.UintN(d.intBuf): cannot be judged
			default:
				allGood = false
			}
		}
		switch {
		case len(roles) == 0 && len(stray) > 0:
			c.Undecidedf("R3.wiring", k, dec.Decl.Pos(), "the expiry handed to readObject has origins that are not tied to an opcode: %s", strings.Join(stray, ", "))
		case len(roles) == 0:
			c.Failf("R3.wiring", k, dec.Decl.Pos(), "%s: no value computed under opcode %#x reaches the expiry argument of readObject (every origin of that argument was followed)", whys[op], op)
		case !allGood:
			c.Failf("R3.wiring", k, dec.Decl.Pos(), "%s; under opcode %#x the expiry handed to readObject is `%s`, expected `%s`", whys[op], op, strings.Join(roles, "`, `"), want[op])
		case anyUnknown:
			c.Undecidedf("R3.wiring", k, dec.Decl.Pos(), "cannot tell what the expiry is computed from under opcode %#x: %s", op, strings.Join(roles, ", "))
		default:
			c.Okf("R3.wiring", k, dec.Decl.Pos(), "%s; under opcode %#x the expiry handed to readObject is `%s`", whys[op], op, want[op])
		}
	}
}

var prefixSliceRe = regexp.MustCompile(`d\.intBuf\[(=0)?:(=[0-9]+)?\]\)`)

var expiryShapeRe = regexp.MustCompile(`^(lin\(-?[0-9]+\*)?encoding/binary\.(LittleEndian|BigEndian)\.Uint(16|32|64)\(d\.intBuf(\[[^\]]*\])?\)\)?$`)

// intBufRule: every decode object is built with an 8-byte scratch buffer.
func intBufRule(c *core.Ctx, dec *core.Fn) {
	cup := c.Pkg(cupPkg)
	ci := cup.TypesInfo
	okBuf, bad, unknown := 0, []string{}, []string{}
	e := flow.New(c.Program)
	for _, b := range bodiesOf(c, cupPkg) {
		g := cfgq.Of(c.Program, b)
		r := &roler{c: c, e: e, root: b, g: g, names: map[types.Object]string{}}
		core.Inspect(b.Decl.Body, func(n ast.Node) bool {
			cl, ok := n.(*ast.CompositeLit)
			if !ok || core.NamedTypeName(ci.TypeOf(cl)) != "decode" {
				return true
			}
			st, _ := ci.TypeOf(cl).Underlying().(*types.Struct)
			var val ast.Expr
			for i, el := range cl.Elts {
				if kv, isKV := el.(*ast.KeyValueExpr); isKV {
					if id, isId := kv.Key.(*ast.Ident); isId && id.Name == "intBuf" {
						val = kv.Value
					}
				} else if st != nil && i < st.NumFields() && st.Field(i).Name() == "intBuf" {
					val = el
				}
			}
			pt, found := g.Find(cl)
			switch {
			case val == nil:
				if len(e.Stores(g, b.Decl.Body, func(v *types.Var) bool { return v.Name() == "intBuf" })) > 0 {
					unknown = append(unknown, c.Pos(cl.Pos())+": scratch buffer assigned after construction")
				} else {
					bad = append(bad, c.Pos(cl.Pos())+": no scratch buffer")
				}
			case !found:
				unknown = append(unknown, c.Pos(cl.Pos()))
			default:
				role := r.role(flow.Site{G: g, At: pt}, val)
				switch {
				case role == "make([]byte,=8)" || strings.HasPrefix(role, "make([]byte,=8,"):
					okBuf++
				case unknownRole(role):
					unknown = append(unknown, c.Pos(cl.Pos())+": "+role)
				default:
					bad = append(bad, c.Pos(cl.Pos())+": "+role)
				}
			}
			return true
		})
	}
	const why = "every decode object is built with an 8-byte scratch buffer (the width the fixed-size reads rely on)"
	switch {
	case len(bad) > 0:
		c.Failf("R2.grammar", "decode/intBuf-width", dec.Decl.Pos(), "%s; %s", why, strings.Join(bad, "; "))
	case len(unknown) > 0 || okBuf == 0:
		c.Undecidedf("R2.grammar", "decode/intBuf-width", dec.Decl.Pos(), "cannot tell how the scratch buffer is built: %s", strings.Join(unknown, "; "))
	default:
		c.Okf("R2.grammar", "decode/intBuf-width", dec.Decl.Pos(), "%s (%d constructions)", why, okBuf)
	}
}

// bodiesOf lists the declared functions of a module package.
func bodiesOf(c *core.Ctx, pkgPath string) []*core.Fn {
	pk := c.Pkg(pkgPath)
	var out []*core.Fn
	for _, f := range pk.Syntax {
		if core.IsTestFile(c.Fset, f) {
			continue
		}
		for _, d := range f.Decls {
			fd, ok := d.(*ast.FuncDecl)
			if !ok || fd.Body == nil {
				continue
			}
			if fo, ok := pk.TypesInfo.Defs[fd.Name].(*types.Func); ok {
				if fn := c.FnOf(fo); fn != nil {
					out = append(out, fn)
				}
			}
		}
	}
	return out
}
