// Package c12 decides the structural clauses of property C12 (value and RDB
// file serialisation round-trips through the parser).
//
// How the rules are stated (round 3): no rule matches a statement shape of the
// repository any more. Every rule is one of
//
//   - a LANGUAGE comparison: the wire term of a function (package grammar, same
//     package helpers inlined with their parameters bound, a parameter such as
//     the value type given each value in turn with Assume, a decoder that
//     dispatches on its first byte split with ByFirstByte) is expanded to the
//     set of token sequences of its successful paths (grammar.Language) and
//     compared with the set the format prescribes - if/else, guard clauses,
//     tagless switches, which arm comes first, where the calls live do not
//     matter;
//   - a ROLE comparison (roles.go): what a written value / an event argument /
//     a stored field IS, followed through locals, parameters, helper results,
//     named results, result structs, out-parameters, loop variables, linear
//     arithmetic and byte assembly to a canonical name in the vocabulary of the
//     anchored function (`elem(o).Field`, `len(o)`, `#2` = second item read,
//     `lin(1000*encoding/binary.LittleEndian.Uint32(d.intBuf))`), embedded in
//     the term by grammar's ClassifyCtx so that order, loops and paths come from
//     the term and values from flow;
//   - a FEASIBILITY query (encodeObjectRules): "X is written iff condition"
//     as path queries under assumed atoms, conditions looked through boolean
//     locals and predicate helpers (truthAt).
//
// Verdict policy: a role or term that cannot be resolved (`?...`), a form that
// is not among the modelled ones, additional paths under conditions the term
// does not carry => UNDECIDED. VIOLATION only for a construct that was located
// and is wrong (wrong constant, wrong order, wrong field, wrong count) or that
// is absent from the whole region including helpers. Every rule emits the same
// obligation keys whatever the outcome, so that the two views of the tree (as
// written / new helpers expanded) can be paired by the driver.
//
// Known limit: values carried through array elements inside an unrolled loop
// (`pair[j] = entry` ... `Hset(key, pair[0], pair[1])`) and closures on the
// tree as written are UNDECIDED (the expanded view discharges closures).
package c12

import (
	"fmt"
	"go/ast"
	"go/constant"
	"go/token"
	"go/types"
	"regexp"
	"rscheck/rules/reent"
	"strings"

	"golang.org/x/tools/go/cfg"

	"rscheck/cfgq"
	"rscheck/core"
	"rscheck/driver"
	"rscheck/flow"
	"rscheck/grammar"
	"rscheck/pat"
	"rscheck/rules/arith"
	"rscheck/rules/c01"
	"rscheck/rules/ring"
	"rscheck/rules/xtra"
)

const (
	rdbPkg  = "pkg/rdb"
	cupPkg  = "pkg/libs/cupcake/rdb"
	cupMod  = "github.com/cupcake/rdb"
	cupName = "pkg/libs/cupcake/rdb"
)

var Def = driver.PropDef{
	ID: "C12",
	Explanation: "Writer/reader agreement for the tool's own serialisers (pkg/rdb encoder.go, decoder.go; the in-repo cupcake decoder; the linked cupcake encoder from the module cache): " +
		"R1 value-type ids agree in all three copies and each encodeType emits the id of its own Go type; " +
		"R2 wire grammar: the write term of every encodeValue, the read term of every readObject case and of the file-level opcodes of the decoder equal the reference RDB grammar (and therefore each other); EncodeObject/EncodeDump call the parts in file order (select-db, expiry, type, key, value / type, value, footer); the linked encoder's header, footer, select-db and expiry emit the opcodes the reader dispatches on; " +
		"R3 event wiring: in every decoder case the k-th item read is the k-th payload argument of the event (Hset(key, field, value), Zadd(key, score, member) with the member read first), the adaptor stores each callback parameter in the field of the same meaning and appends in call order, Start* initialises the matching Go type; " +
		"R5 the BinEntry/ObjEntry converters copy every field other than Value one-to-one; " +
		"R8 (imported from C01, rules prefixed C01:) the Loader that reads the file back: per-type and per-opcode reader grammar, binding of database/expiry/key to the entry returned, chunk protocol of hashes above 16MB; " +
		"R6 the two copies of every compact-encoding decoder (ziplist entry/length, zipmap item/length/count, LZF: pkg/rdb/reader.go and the in-repo cupcake decoder) apply the same masks, shifts, widths, sign conversions and case constants (multiset fingerprint, invariant under renaming and reordering), and both RDB length decoders use tag >> 6, value & 0x3f, 14-bit high part << 8.",
	NotDecided: "float text round-trip ('g',17, NaN, -0), integer-string canonicalisation at numeric boundaries, LZF, ziplist/intset/zipmap integer decoding: all value-level. What is claimed is 'both sides speak the same grammar with the same numbers and wire each element to the right slot'.",
	Trusted:    []string{"go/parser, go/types (x/tools v0.29.0)", "reference RDB grammar (shared with C01)", "module-cache copy of github.com/cupcake/rdb is the one linked (go.mod)"},
	Run:        Run,
}

var typeIDs = map[string]int64{"TypeString": 0, "TypeList": 1, "TypeSet": 2, "TypeZSet": 3, "TypeHash": 4, "TypeZSet2": 5,
	"TypeHashZipmap": 9, "TypeListZiplist": 10, "TypeSetIntset": 11, "TypeZSetZiplist": 12, "TypeHashZiplist": 13, "TypeListQuicklist": 14}

var opIDs = map[string]int64{"rdbFlagAux": 0xfa, "rdbFlagResizeDB": 0xfb, "rdbFlagExpiryMS": 0xfc, "rdbFlagExpiry": 0xfd, "rdbFlagSelectDB": 0xfe, "rdbFlagEOF": 0xff,
	"rdb6bitLen": 0, "rdb14bitLen": 1, "rdbEncVal": 3, "rdbEncInt8": 0, "rdbEncInt16": 1, "rdbEncInt32": 2, "rdbEncLZF": 3}

// reference read grammar of the value types the decoder handles
var readRef = map[int64]string{
	0: "Str", 1: "Len@a Loop@a{Str}", 2: "Len@a Loop@a{Str}", 3: "Len@a Loop@a{Str FloatStr}", 4: "Len@a Loop@a{Str Str}", 5: "Len@a Loop@a{Str Fix8}",
	9: "Str", 10: "Str", 11: "Str", 12: "Str", 13: "Str", 14: "Len@a Loop@a{Str}",
}

var typeNames = map[int64]string{0: "string", 1: "list", 2: "set", 3: "zset", 4: "hash", 5: "zset2", 9: "hash-zipmap", 10: "list-ziplist",
	11: "set-intset", 12: "zset-ziplist", 13: "hash-ziplist", 14: "quicklist"}

func constVal(c *core.Ctx, pkgPath, name string) (int64, token.Pos, bool) {
	pk := c.Pkg(pkgPath)
	if pk == nil || pk.Types == nil {
		return 0, token.NoPos, false
	}
	cn, ok := pk.Types.Scope().Lookup(name).(*types.Const)
	if !ok {
		return 0, token.NoPos, false
	}
	var n int64
	if _, err := fmt.Sscan(cn.Val().ExactString(), &n); err != nil {
		return 0, cn.Pos(), false
	}
	return n, cn.Pos(), true
}

func decodeSpec() *grammar.Spec {
	d := "(*" + cupName + ".decode)."
	return &grammar.Spec{
		Prims: map[string]string{
			d + "readString": "Str", d + "readLength": "Len", d + "readFloat64": "FloatStr", d + "readDouble64": "Fix8",
			d + "readUint8": "U8", d + "readUint16": "Fix2LE", d + "readUint32": "Fix4LE", d + "readUint64": "Fix8LE",
			d + "readUint64Big": "Fix8BE", d + "readUint32Big": "Fix4BE", d + "readObject": "Value",
			"(io.ByteReader).ReadByte": "U8",
		},
		BufPrims:    map[string]string{"io.ReadFull": "Fix%d"},
		FieldBufLen: map[string]int64{"intBuf": 8},
		IfacePrims:  map[string]string{"ReadByte": "U8"},
		Inline: func(f *types.Func) bool {
			return f.Pkg() != nil && f.Pkg().Path() == core.Module+"/"+cupPkg
		},
		Carrier: func(t types.Type) bool {
			n := core.NamedTypeName(t)
			return n == "decode" || n == "byteReader"
		},
		MaxDepth: 8,
	}
}

func encodeSpec() *grammar.Spec {
	e := "(*" + cupMod + ".Encoder)."
	return &grammar.Spec{
		Prims: map[string]string{
			e + "EncodeString": "Str", e + "EncodeLength": "Len", e + "EncodeFloat": "FloatStr", e + "EncodeType": "U8",
			e + "EncodeDatabase": "SELECTDB", e + "EncodeExpiry": "EXPIRETIME_MS", e + "EncodeHeader": "HEADER", e + "EncodeFooter": "FOOTER", e + "EncodeDumpFooter": "DUMPFOOTER",
		},
		Inline: func(f *types.Func) bool {
			return f.Pkg() != nil && f.Pkg().Path() == core.Module+"/"+rdbPkg
		},
		Carrier:  func(t types.Type) bool { return core.NamedTypeName(t) == "Encoder" },
		MaxDepth: 8,
	}
}

func trimRet(s string) string {
	return strings.TrimSpace(strings.TrimSuffix(strings.TrimSpace(s), "Ret"))
}

func reentrant(c *core.Ctx) {
	var roots []*core.Fn
	for _, n := range []string{"DecodeDump", "EncodeDump"} {
		if f := c.FuncOpt(rdbPkg, "", n); f != nil {
			roots = append(roots, f)
		}
	}
	if f := c.FuncOpt(cupPkg, "", "DecodeDump"); f != nil {
		roots = append(roots, f)
	}
	reent.Check(c, "R7.reentrant", roots, []string{rdbPkg, cupPkg, "pkg/libs/cupcake/rdb/crc64", "pkg/rdb/digest"}, "parallel decode / restore workers")
}

func Run(c *core.Ctx) {
	defer reentrant(c)
	pk := c.Pkg(rdbPkg)
	cup := c.Pkg(cupPkg)
	mod := c.Pkg(cupMod)
	if pk == nil || cup == nil || mod == nil {
		c.Undecidedf("anchor", "packages", token.NoPos, "pkg/rdb, in-repo cupcake/rdb or module-cache cupcake/rdb not loaded")
		return
	}

	// ---- R1 ids
	for name, want := range typeIDs {
		got, pos, ok := constVal(c, cupPkg, name)
		if !ok {
			c.Undecidedf("R1.ids", "decoder/"+name, pos, "constant %s not found in the in-repo cupcake decoder", name)
		} else {
			c.Check("R1.ids", "decoder/"+name, pos, got == want, fmt.Sprintf("decoder %s must be %d, it is %d: payloads of that type are decoded as another type", name, want, got))
		}
		if name == "TypeZSet2" {
			continue // the linked encoder predates zset2 and never emits it
		}
		if got, pos, ok := constVal(c, cupMod, name); ok {
			c.Check("R1.ids", "linked-encoder/"+name, pos, got == want, fmt.Sprintf("linked cupcake %s must be %d, it is %d", name, want, got))
		}
	}
	for name, want := range opIDs {
		got, pos, ok := constVal(c, cupPkg, name)
		if !ok {
			c.Undecidedf("R1.ids", "decoder/"+name, pos, "constant %s not found in the in-repo cupcake decoder", name)
			continue
		}
		c.Check("R1.ids", "decoder/"+name, pos, got == want, fmt.Sprintf("decoder %s must be %#x, it is %#x", name, want, got))
		if g2, p2, ok2 := constVal(c, cupMod, name); ok2 {
			c.Check("R1.ids", "linked-encoder/"+name, p2, g2 == want, fmt.Sprintf("linked cupcake %s must be %#x, it is %#x", name, want, g2))
		}
	}
	encoderRules(c)
	linkedEncoder(c)

	decoderRules(c)

	adaptorRules(c)
	converterRules(c)

	// ---- R6 the duplicated value decoders agree (value-level arithmetic by sibling comparison)
	arith.CheckSiblings(c, "R6.siblings")
	arith.LengthFingerprint(c, "R6.length", c.Func(cupPkg, "decode", "readLength"))
	arith.LengthFingerprint(c, "R6.length", c.Func(rdbPkg, "rdbReader", "readEncodedLength"))

	// ---- the file written by Encoder is loaded back by Loader: its reader grammar,
	// the binding of database/expiry/key to the entry and the chunk protocol of
	// large hashes are C01's rules; they are necessary conditions of the RDB-file
	// round trip claimed here as well (obligations C01 cannot decide stay C01's).
	xtra.Import(c, "C01", c01.Run, xtra.HasPrefix("R2.grammar/", "R4.bind/", "R5.chunk/"))
}

// infeasibleAt is ring.Infeasible with the atoms evaluated where the branch is
// taken (so that locals defined on the way - a copy of a parameter, a value
// computed before the test - are resolved at that point, not at the entry),
// and with conditions held in boolean locals or computed by predicate helpers
// evaluated through their definitions (truthAt).
func infeasibleAt(e *flow.Engine, g *cfgq.Graph, up []flow.Frame, atom func(flow.Site, ast.Expr) (bool, bool)) func(b *cfg.Block, s int) bool {
	return infeasibleD(e, g, up, atom, 0)
}

func infeasibleD(e *flow.Engine, g *cfgq.Graph, up []flow.Frame, atom func(flow.Site, ast.Expr) (bool, bool), depth int) func(b *cfg.Block, s int) bool {
	memo := map[*cfg.Block][2]bool{}
	return func(b *cfg.Block, s int) bool {
		cnd := cfgq.CondOf(b)
		if cnd == nil || len(b.Succs) != 2 {
			return false
		}
		if b.Succs[0].Kind == cfg.KindSwitchCaseBody {
			if t := g.Info.TypeOf(cnd); t == nil || !isBoolType(t) {
				return false
			}
		}
		r, ok := memo[b]
		if !ok {
			at := flow.Site{G: g, At: cfgq.Point{B: b, I: len(b.Nodes)}, Up: up}
			v, known := truthAt(e, at, cnd, atom, depth)
			r = [2]bool{v, known}
			memo[b] = r
		}
		return r[1] && ((s == 0) != r[0])
	}
}

func isBoolType(t types.Type) bool {
	b, ok := t.Underlying().(*types.Basic)
	return ok && b.Info()&types.IsBoolean != 0
}

// truthAt evaluates a condition at a site under assumed atoms. An atom the
// rule does not know is looked through: a boolean constant; a boolean local is
// what its definitions say (all definitions that are reachable under the same
// assumptions must agree); a call of a module predicate helper is what its
// reachable return statements say.
// unknownAtomHook, when set, is told every atom that could not be evaluated
// (the rule decides whether it matters).
var unknownAtomHook func(at flow.Site, x ast.Expr)

func truthAt(e *flow.Engine, at flow.Site, cond ast.Expr, atom func(flow.Site, ast.Expr) (bool, bool), depth int) (bool, bool) {
	return ring.EvalUnder(cond, func(x ast.Expr) (bool, bool) {
		return truthAtom(e, at, x, atom, depth)
	})
}

func truthAtom(e *flow.Engine, at flow.Site, x ast.Expr, atom func(flow.Site, ast.Expr) (bool, bool), depth int) (bool, bool) {
	return func(x ast.Expr) (bool, bool) {
		if v, k := atom(at, x); k {
			return v, true
		}
		x = ast.Unparen(x)
		if tv, ok := at.G.Info.Types[x]; ok && tv.Value != nil && tv.Value.Kind() == constant.Bool {
			return constant.BoolVal(tv.Value), true
		}
		if depth > 3 {
			return false, false
		}
		// giving up on a leaf (nothing behind it was looked at) is reported; a value
		// whose definitions were looked at and stayed open is as open as they are
		giveUp := func() (bool, bool) {
			if unknownAtomHook != nil {
				unknownAtomHook(at, x)
			}
			return false, false
		}
		agree := func(vals []bool, n int) (bool, bool) {
			if len(vals) == 0 || len(vals) != n {
				return false, false
			}
			for _, v := range vals[1:] {
				if v != vals[0] {
					return false, false
				}
			}
			return vals[0], true
		}
		switch y := x.(type) {
		case *ast.Ident:
			if t := at.G.Info.TypeOf(y); t == nil || !isBoolType(t) {
				return false, false
			}
			st := e.Step(at, y)
			if !st.Local || st.Unsafe {
				return giveUp()
			}
			if st.Entry {
				if st.Bound && len(st.Defs) == 0 {
					return truthAt(e, st.ArgSite, st.Arg, atom, depth+1)
				}
				return giveUp()
			}
			cut := infeasibleD(e, at.G, at.Up, atom, depth+1)
			var vals []bool
			n := 0
			for _, def := range st.Defs {
				dn := def.At.Node()
				if dn == nil {
					return false, false
				}
				if w := at.G.Path(cfgq.Query{From: at.G.Entry(), Target: func(n ast.Node) bool { return n == dn }, AvoidEdge: cut}); w == nil {
					continue // not reachable under the assumptions
				}
				n++
				switch {
				case def.Zero:
					vals = append(vals, false)
				case def.RHS != nil:
					if v, k := truthAt(e, def.Site, def.RHS, atom, depth+1); k {
						vals = append(vals, v)
					}
				}
			}
			return agree(vals, n)
		case *ast.CallExpr:
			rets, ok := e.Follow(at, y, 0)
			if !ok || len(rets) == 0 {
				return giveUp()
			}
			hg := rets[0].G
			cut := infeasibleD(e, hg, rets[0].Up, atom, depth+1)
			var vals []bool
			n := 0
			for _, rt := range rets {
				rn := rt.At.Node()
				if rt.Expr == nil || rn == nil {
					return false, false
				}
				if w := hg.Path(cfgq.Query{From: hg.Entry(), Target: func(n ast.Node) bool { return n == rn }, AvoidEdge: cut}); w == nil {
					continue
				}
				n++
				if v, k := truthAt(e, rt.Site, rt.Expr, atom, depth+1); k {
					vals = append(vals, v)
				}
			}
			return agree(vals, n)
		}
		return giveUp()
	}(x)
}

// typeBytePoint: the point of the root function through which the type byte
// (the call of objectEncoder.encodeType) is written - the call itself or the
// call of the helper that holds it.
func typeBytePoint(e *flow.Engine, g *cfgq.Graph, fn *core.Fn) *cfgq.Point {
	var typePt *cfgq.Point
	e.Walk(g, fn.Decl.Body, func(s flow.Site, n ast.Node) {
		x, ok := n.(*ast.CallExpr)
		if !ok || typePt != nil {
			return
		}
		f := core.CalleeFunc(s.G.Info, x)
		if f == nil || f.Name() != "encodeType" {
			return
		}
		sig, _ := f.Type().(*types.Signature)
		if sig == nil || sig.Recv() == nil {
			return
		}
		if _, isIface := sig.Recv().Type().Underlying().(*types.Interface); !isIface {
			return
		}
		p := s.At
		if len(s.Up) > 0 {
			p = s.Up[len(s.Up)-1].At
		}
		typePt = &p
	})
	return typePt
}

// evalRole evaluates a boolean role (the canonical rendering of package roles:
// `(a||b)`, `(a&&b)`, `!a`, atoms) under a table of atom values.
func evalRole(role string, table map[string]bool) (bool, bool) {
	role = strings.TrimSpace(role)
	if v, ok := table[role]; ok {
		return v, true
	}
	switch role {
	case "=true":
		return true, true
	case "=false":
		return false, true
	}
	if strings.HasPrefix(role, "!") {
		v, k := evalRole(role[1:], table)
		return !v, k
	}
	if strings.Contains(role, "|") && !strings.HasPrefix(role, "(") {
		return false, false // several origins
	}
	if !strings.HasPrefix(role, "(") || !strings.HasSuffix(role, ")") {
		return false, false
	}
	inner := role[1 : len(role)-1]
	depth := 0
	for i := 0; i+1 < len(inner); i++ {
		switch inner[i] {
		case '(', '[', '{':
			depth++
		case ')', ']', '}':
			depth--
		}
		if depth == 0 && (inner[i:i+2] == "||" || inner[i:i+2] == "&&") {
			l, kl := evalRole(inner[:i], table)
			r, kr := evalRole(inner[i+2:], table)
			if inner[i:i+2] == "||" {
				if kl && l || kr && r {
					return true, true
				}
				return false, kl && kr
			}
			if kl && !l || kr && !r {
				return false, true
			}
			return true, kl && kr
		}
	}
	return false, false
}

// encodeObjectRules: when the database selector and the expiry are written.
func encodeObjectRules(c *core.Ctx, fn *core.Fn) {
	info := fn.Pkg.TypesInfo
	var ps []*ast.Ident
	for _, f := range fn.Decl.Type.Params.List {
		ps = append(ps, f.Names...)
	}
	if len(ps) != 4 {
		c.Undecidedf("R2.grammar", "EncodeObject/params", fn.Decl.Pos(), "expected (db, key, expireat, obj)")
		return
	}
	g := cfgq.Of(c.Program, fn)
	e := flow.New(c.Program)
	e.Opaque = func(f *types.Func) bool { return f.Pkg() == nil || !strings.HasSuffix(f.Pkg().Path(), rdbPkg) }
	// what a value is, in the vocabulary of EncodeObject's parameters (package roles:
	// through locals, helper parameters and results, result structs, conversions)
	rr := newRoler(c, fn, e.Opaque)
	rr.nameParams("e", "db", "key", "expireat", "obj")
	pname := map[*ast.Ident]string{ps[0]: "db", ps[1]: "key", ps[2]: "expireat", ps[3]: "obj"}
	var unknownValues []string
	isParam := func(s flow.Site, x ast.Expr, p *ast.Ident) bool {
		ro := rr.role(s, x)
		if unknownRole(ro) || strings.Contains(ro, "var@") {
			// (var@: a variable whose address escapes - its value is not followed)
			unknownValues = append(unknownValues, ro)
		}
		return ro == pname[p]
	}
	callsOf := func(name string) []flow.CallSite {
		return e.Calls(g, fn.Decl.Body, func(f *types.Func) bool {
			return f.Name() == name && f.Pkg() != nil && !strings.HasSuffix(f.Pkg().Path(), rdbPkg)
		})
	}
	errorExit := func(gg *cfgq.Graph) func(b *cfg.Block, k cfgq.ExitKind) bool {
		return func(b *cfg.Block, k cfgq.ExitKind) bool {
			if k == cfgq.ExitFall {
				return true
			}
			if k != cfgq.ExitRet {
				return false
			}
			ret := b.Nodes[len(b.Nodes)-1].(*ast.ReturnStmt)
			return cfgq.ClassifyReturn(gg.Info, gg.Body, ret) != cfgq.RetErr
		}
	}
	// atoms that could not be evaluated although they speak about the database
	// state, the db or the expiry: a path verdict that depends on them is UNDECIDED
	var relevantUnknown []string
	mentionRe := regexp.MustCompile(`\be\.db\b`)
	unknownAtomHook = func(at flow.Site, x ast.Expr) {
		// only an OPAQUE boolean (a variable, a field, a call result) computed from the
		// tracked state counts: a comparison that is simply not one of the assumed
		// atoms is independent of them, both of its edges are really possible
		if _, isCmp := ast.Unparen(x).(*ast.BinaryExpr); isCmp {
			return
		}
		ro := rr.role(at, x)
		if mentionRe.MatchString(ro) {
			for _, have := range relevantUnknown {
				if have == ro {
					return
				}
			}
			relevantUnknown = append(relevantUnknown, ro)
		}
	}
	defer func() { unknownAtomHook = nil }()
	// ---- SELECTDB
	dbCalls := callsOf("EncodeDatabase")
	sameFrame := len(dbCalls) > 0
	for _, x := range dbCalls {
		// several selector writes (one per arm of an if/else, say) are handled as one
		// event when they live in the same function instance
		if x.G != dbCalls[0].G || len(x.Up) != len(dbCalls[0].Up) || len(x.Up) > 0 && x.Up[0].Call != dbCalls[0].Up[0].Call {
			sameFrame = false
		}
	}
	if !sameFrame {
		c.Undecidedf("R2.grammar", "EncodeObject/select-db", fn.Decl.Pos(), "expected the EncodeDatabase call(s) reachable from EncodeObject in one function, found %d", len(dbCalls))
	} else {
		dc := dbCalls[0]
		gg := dc.G
		gi := gg.Info
		okDB := true
		for _, x := range dbCalls {
			okDB = okDB && len(x.Call.Args) == 1 && isParam(x.Site, x.Call.Args[0], ps[0])
		}
		var why []string
		if !okDB {
			why = append(why, "the selector does not carry the db parameter")
		}
		// atoms: A = `e.db == -1` (nothing written yet), B = `uint32(e.db) == db` (same database)
		atomFor := func(a, b bool) func(flow.Site, ast.Expr) (bool, bool) {
			table := map[string]bool{"(=-1==e.db)": a, "(=-1!=e.db)": !a, "(db==e.db)": b, "(db!=e.db)": !b}
			return func(at flow.Site, x ast.Expr) (bool, bool) {
				be, ok := ast.Unparen(x).(*ast.BinaryExpr)
				if !ok || be.Op != token.EQL && be.Op != token.NEQ {
					// an opaque boolean (a flag in a struct, a result handed around): what it was
					// computed from, as a role, evaluated under the same assumptions
					if !ok {
						return evalRole(rr.role(at, x), table)
					}
					return false, false
				}
				eq := be.Op == token.EQL
				mentionsDB := func(y ast.Expr) bool {
					hit := false
					ast.Inspect(y, func(n ast.Node) bool {
						if sel, ok := n.(*ast.SelectorExpr); ok && core.IsFieldNamed(gi, sel, "Encoder", "db") {
							hit = true
						}
						return !hit
					})
					return hit
				}
				for _, pr := range [][2]ast.Expr{{be.X, be.Y}, {be.Y, be.X}} {
					if !mentionsDB(pr[0]) {
						continue
					}
					if v, isC := core.IntConst(gi, pr[1]); isC && v == -1 {
						return a == eq, true
					}
					if isParam(at, pr[1], ps[0]) {
						return b == eq, true
					}
				}
				return false, false
			}
		}
		isDB := func(n ast.Node) bool {
			for _, cl := range cfgq.ExecCalls(n) {
				for _, x := range dbCalls {
					if cl == x.Call {
						return true
					}
				}
			}
			return false
		}
		// same database as before: no selector
		w := gg.Path(cfgq.Query{From: gg.Entry(), Target: isDB, AvoidEdge: infeasibleAt(e, gg, dc.Up, atomFor(false, true))})
		if w != nil {
			okDB = false
			why = append(why, "the selector is written although the database is the one written last")
		}
		// first object, or another database: the selector is written on every successful path
		for _, ab := range [][2]bool{{true, false}, {true, true}, {false, false}} {
			w := gg.Path(cfgq.Query{From: gg.Entry(), Avoid: isDB, AvoidEdge: infeasibleAt(e, gg, dc.Up, atomFor(ab[0], ab[1])), TargetExit: errorExit(gg)})
			if w != nil {
				okDB = false // a successful exit without the selector
				why = append(why, fmt.Sprintf("with (nothing written yet=%v, same database=%v) a path succeeds without writing the selector: %s", ab[0], ab[1], strings.Join(w, " -> ")))
			}
		}
		// the new database is remembered on the way
		// (every selector write is preceded, or on every successful path followed, by a
		// store of the db parameter into e.db)
		var remember []ast.Node
		for _, st := range e.Stores(gg, gg.Body, func(v *types.Var) bool { return v.Name() == "db" && v.Pkg() == fn.Obj.Pkg() }) {
			if st.G == gg && st.Plain() && isParam(flow.Site{G: gg, At: st.At, Up: dc.Up}, st.RHS, ps[0]) {
				remember = append(remember, st.Stmt)
			}
		}
		isRemember := func(n ast.Node) bool {
			for _, sn := range remember {
				if n == sn {
					return true
				}
			}
			return false
		}
		remembered := len(remember) > 0
		for _, x := range dbCalls {
			xc := x.Call
			isX := func(n ast.Node) bool {
				for _, cl := range cfgq.ExecCalls(n) {
					if cl == xc {
						return true
					}
				}
				return false
			}
			if w1 := gg.Path(cfgq.Query{From: gg.Entry(), Avoid: isRemember, Target: isX}); w1 == nil {
				continue // stored before this write on every path
			}
			dp, ok := gg.Find(xc)
			if !ok {
				remembered = false
				continue
			}
			if w2 := gg.Path(cfgq.Query{From: dp, After: true, Avoid: isRemember, TargetExit: errorExit(gg)}); w2 != nil {
				remembered = false
			}
		}
		// a helper must be called unconditionally before the type byte
		if len(dc.Up) > 0 {
			top := dc.Up[len(dc.Up)-1]
			typePt := typeBytePoint(e, g, fn)
			if typePt == nil {
				okDB = false
				why = append(why, "cannot find the type byte write")
			} else {
				hn := top.At.Node()
				dom, _ := g.Dominated(*typePt, func(n ast.Node) bool { return n == hn })
				if !dom {
					why = append(why, "the helper that writes the selector is not called on every path before the type byte")
				}
				okDB = okDB && dom
			}
		}
		if !remembered {
			why = append(why, "the database written is not stored in e.db together with the selector")
		}
		relevantUnknown = append(relevantUnknown, unknownValues...)
		if !(okDB && remembered) && len(relevantUnknown) > 0 {
			c.Undecidedf("R2.grammar", "EncodeObject/select-db", fn.Decl.Pos(), "a condition over the database state cannot be evaluated: %s", strings.Join(relevantUnknown, "; "))
		} else {
			c.Check("R2.grammar", "EncodeObject/select-db", fn.Decl.Pos(), okDB && remembered, "a SELECTDB opcode is written whenever the database differs from the last one written (and for the first object), and the new database is remembered; "+strings.Join(why, "; "))
		}
	}
	// ---- expiry
	relevantUnknown, unknownValues = nil, nil
	mentionRe = regexp.MustCompile(`\bexpireat\b`)
	exCalls := callsOf("EncodeExpiry")
	exSame := len(exCalls) > 0
	for _, x := range exCalls {
		// several writes (one per arm of a chain, say) in one function instance are one event
		if x.G != exCalls[0].G || len(x.Up) != len(exCalls[0].Up) || len(x.Up) > 0 && x.Up[0].Call != exCalls[0].Up[0].Call {
			exSame = false
		}
	}
	if !exSame {
		c.Undecidedf("R2.grammar", "EncodeObject/expiry", fn.Decl.Pos(), "expected the EncodeExpiry call(s) reachable from EncodeObject in one function, found %d", len(exCalls))
	} else {
		ec := exCalls[0]
		okE := true
		for _, x := range exCalls {
			okE = okE && len(x.Call.Args) == 1 && isParam(x.Site, x.Call.Args[0], ps[2])
		}
		nonZero := func(f cfgq.Fact) bool {
			be, ok := ast.Unparen(flow.Positive(f)).(*ast.BinaryExpr)
			if !ok || be.Op != token.NEQ && be.Op != token.GTR {
				return false
			}
			v, isC := core.IntConst(info, be.Y)
			if !isC || v != 0 {
				return false
			}
			id, isId := ast.Unparen(be.X).(*ast.Ident)
			return isId && core.ObjOf(info, id) == info.Defs[ps[2]]
		}
		_ = nonZero
		// not written when the expiry is zero: under `expireat == 0` the call is
		// unreachable - in the function that holds it, or already in a caller
		zeroAtom := func(at flow.Site, x ast.Expr) (bool, bool) {
			be, ok := ast.Unparen(x).(*ast.BinaryExpr)
			if !ok {
				return evalRole(rr.role(at, x), map[string]bool{"(=0==expireat)": true, "(=0!=expireat)": false, "(=0<expireat)": false})
			}
			for _, pr := range [][2]ast.Expr{{be.X, be.Y}, {be.Y, be.X}} {
				if v, isC := core.IntConst(at.G.Info, pr[1]); isC && v == 0 && isParam(at, pr[0], ps[2]) {
					switch be.Op {
					case token.NEQ, token.GTR, token.LSS:
						return false, true
					case token.EQL, token.LEQ, token.GEQ:
						if be.Op == token.EQL || pr[0] == be.X && be.Op == token.LEQ || pr[0] == be.Y && be.Op == token.GEQ {
							return true, true
						}
					}
				}
			}
			return false, false
		}
		reachableWhenZero := true
		{
			targets := []ast.Node{}
			for _, x := range exCalls {
				targets = append(targets, x.Call)
			}
			lg, lup := ec.G, ec.Up
			for {
				tns := targets
				hit := func(n ast.Node) bool {
					for _, cl := range cfgq.ExecCalls(n) {
						for _, tn := range tns {
							if ast.Node(cl) == tn {
								return true
							}
						}
					}
					return false
				}
				if w := lg.Path(cfgq.Query{From: lg.Entry(), Target: hit, AvoidEdge: infeasibleAt(e, lg, lup, zeroAtom)}); w == nil {
					reachableWhenZero = false
					break
				}
				if len(lup) == 0 {
					break
				}
				targets, lg, lup = []ast.Node{lup[0].Call}, lup[0].G, lup[1:]
			}
		}
		okE = okE && !reachableWhenZero
		// a helper that holds the write must be called on every path before the type byte
		if len(ec.Up) > 0 {
			if typePt := typeBytePoint(e, g, fn); typePt == nil {
				okE = false
			} else {
				hn := ec.Up[len(ec.Up)-1].At.Node()
				dom, _ := g.Dominated(*typePt, func(n ast.Node) bool { return n == hn })
				okE = okE && dom
			}
		}
		// and it is written whenever the expiry is non-zero: under `expireat != 0` no
		// successful exit of the function holding the call avoids it
		gg := ec.G
		atom := func(at flow.Site, x ast.Expr) (bool, bool) {
			be, ok := ast.Unparen(x).(*ast.BinaryExpr)
			if !ok {
				return evalRole(rr.role(at, x), map[string]bool{"(=0==expireat)": false, "(=0!=expireat)": true, "(=0<expireat)": true, "(expireat<==0)": false})
			}
			if v, isC := core.IntConst(gg.Info, be.Y); isC && v == 0 && isParam(at, be.X, ps[2]) {
				switch be.Op {
				case token.NEQ, token.GTR:
					return true, true
				case token.EQL:
					return false, true
				}
			}
			return false, false
		}
		isEx := func(n ast.Node) bool {
			for _, cl := range cfgq.ExecCalls(n) {
				for _, x := range exCalls {
					if cl == x.Call {
						return true
					}
				}
			}
			return false
		}
		if w := gg.Path(cfgq.Query{From: gg.Entry(), Avoid: isEx, AvoidEdge: infeasibleAt(e, gg, ec.Up, atom), TargetExit: errorExit(gg)}); w != nil {
			okE = false
		}
		relevantUnknown = append(relevantUnknown, unknownValues...)
		if !okE && len(relevantUnknown) > 0 {
			c.Undecidedf("R2.grammar", "EncodeObject/expiry", fn.Decl.Pos(), "a condition over the expiry cannot be evaluated: %s", strings.Join(relevantUnknown, "; "))
		} else {
			c.Check("R2.grammar", "EncodeObject/expiry", fn.Decl.Pos(), okE, "the expiry opcode carries the object's absolute expiry and is written exactly when it is non-zero")
		}
	}
	// ---- key
	okK := false
	unknownValues = nil
	for _, kc := range e.Calls(g, fn.Decl.Body, func(f *types.Func) bool { return f.Name() == "EncodeString" }) {
		if len(kc.Call.Args) == 1 && isParam(kc.Site, kc.Call.Args[0], ps[1]) {
			okK = true
		}
	}
	if !okK && len(unknownValues) > 0 {
		c.Undecidedf("R2.grammar", "EncodeObject/key", fn.Decl.Pos(), "cannot tell what is written as the key: %s", strings.Join(unknownValues, "; "))
	} else {
		c.Check("R2.grammar", "EncodeObject/key", fn.Decl.Pos(), okK, "the key written is the key passed in")
	}
}

// linkedEncoder checks the opcodes emitted by the module-cache encoder.
func linkedEncoder(c *core.Ctx) {
	mod := c.Pkg(cupMod)
	info := mod.TypesInfo
	// The linked encoder lives in the module cache (pinned by go.sum), no edit of
	// the tree can change it. Its source is matched by shape: the shape found
	// discharges the obligation, a shape that is not found (another module
	// version, say) is not recognised - UNDECIDED, not a violation. The opcode and
	// type numbers it uses are checked by value under R1.ids.
	shape := func(key string, pos token.Pos, found bool, why string) {
		if found {
			c.Okf("R2.grammar", key, pos, "%s", why)
		} else {
			c.Undecidedf("R2.grammar", key, pos, "the linked encoder is not written in the recognised form: %s", why)
		}
	}
	get := func(name string) *core.Fn {
		f := c.LookupFunc(cupMod, "Encoder", name)
		if f == nil || f.Decl == nil {
			c.Undecidedf("R2.grammar", "linked-encoder/"+name, token.NoPos, "linked encoder method %s not found", name)
			return nil
		}
		return f
	}
	if f := get("EncodeHeader"); f != nil {
		n, _ := pat.Expr(`fmt.Fprintf(_e.w, "REDIS%04d", Version)`).Find(info, f.Decl.Body, nil)
		shape("linked-encoder/header", f.Decl.Pos(), n != nil, "the header is REDIS followed by the 4-digit version (9 bytes, what Loader.Header and checkHeader read)")
	}
	if f := get("EncodeFooter"); f != nil {
		n1, _ := pat.Expr("_e.w.Write([]byte{rdbFlagEOF})").Find(info, f.Decl.Body, nil)
		n2, _ := pat.Expr("_e.w.Write(_e.crc.Sum(nil))").Find(info, f.Decl.Body, nil)
		shape("linked-encoder/footer", f.Decl.Pos(), n1 != nil && n2 != nil && n1.Pos() < n2.Pos(), "the footer is the EOF opcode followed by the 8 digest bytes")
	}
	if f := get("EncodeDumpFooter"); f != nil {
		n1, _ := pat.Expr("binary.Write(_e.w, binary.LittleEndian, uint16(Version))").Find(info, f.Decl.Body, nil)
		n2, _ := pat.Expr("_e.w.Write(_e.crc.Sum(nil))").Find(info, f.Decl.Body, nil)
		shape("linked-encoder/dump-footer", f.Decl.Pos(), n1 != nil && n2 != nil && n1.Pos() < n2.Pos(), "the DUMP footer is version LE16 then the digest")
	}
	if f := get("EncodeDatabase"); f != nil {
		n1, _ := pat.Expr("_e.w.Write([]byte{rdbFlagSelectDB})").Find(info, f.Decl.Body, nil)
		n2, _ := pat.Expr("_e.EncodeLength(uint32(_n))").Find(info, f.Decl.Body, nil)
		shape("linked-encoder/select-db", f.Decl.Pos(), n1 != nil && n2 != nil && n1.Pos() < n2.Pos(), "SELECTDB is the opcode followed by a length-encoded database number")
	}
	if f := get("EncodeExpiry"); f != nil {
		n1, b := pat.Stmt("_b = make([]byte, 9)").Find(info, f.Decl.Body, nil)
		ok := false
		if n1 != nil {
			n2, _ := pat.Stmt("_b[0] = rdbFlagExpiryMS").Find(info, f.Decl.Body, b)
			n3, _ := pat.Expr("binary.LittleEndian.PutUint64(_b[1:], _x)").Find(info, f.Decl.Body, b)
			n4, _ := pat.Expr("_e.w.Write(_b)").Find(info, f.Decl.Body, b)
			ok = n2 != nil && n3 != nil && n4 != nil
		}
		shape("linked-encoder/expiry", f.Decl.Pos(), ok, "the expiry is the EXPIRETIME_MS opcode followed by 8 little-endian bytes")
	}
	if v, pos, ok := constVal(c, cupMod, "Version"); ok {
		pk := c.Pkg(rdbPkg)
		tv, _ := pk.Types.Scope().Lookup("ToVersion").(*types.Var)
		_ = tv
		// ToVersion is a variable initialised with a constant; read its initialiser
		init := int64(-1)
		for _, f := range pk.Syntax {
			for _, d := range f.Decls {
				gd, ok := d.(*ast.GenDecl)
				if !ok || gd.Tok != token.VAR {
					continue
				}
				for _, sp := range gd.Specs {
					vs := sp.(*ast.ValueSpec)
					for i, n := range vs.Names {
						if n.Name == "ToVersion" && i < len(vs.Values) {
							if x, ok := core.IntConst(pk.TypesInfo, vs.Values[i]); ok {
								init = x
							}
						}
					}
				}
			}
		}
		c.Check("R1.ids", "dump-version", pos, init == v, fmt.Sprintf("pkg/rdb.ToVersion (%d) must equal the linked cupcake Version (%d): the parser's DUMP payloads are verified by cupcake's verifyDump", init, v))
	}
}
