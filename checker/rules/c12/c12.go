// Package c12 decides the structural clauses of property C12 (value and RDB
// file serialisation round-trips through the parser).
package c12

import (
	"fmt"
	"go/ast"
	"go/token"
	"go/types"
	"rscheck/rules/reent"
	"strings"

	"golang.org/x/tools/go/cfg"

	"rscheck/cfgq"
	"rscheck/core"
	"rscheck/driver"
	"rscheck/flow"
	"rscheck/grammar"
	"rscheck/pat"
	"rscheck/rules/arith"
	"rscheck/rules/ring"
)

const (
	rdbPkg  = "pkg/rdb"
	cupPkg  = "pkg/libs/cupcake/rdb"
	cupMod  = "github.com/cupcake/rdb"
	cupName = "pkg/libs/cupcake/rdb"
)

var Def = driver.PropDef{
	ID: "C12",
	Explanation: "Writer/reader agreement for the tool's own serialisers (pkg/rdb encoder.go, decoder.go; the in-repo cupcake decoder; the linked cupcake encoder from the module cache): " +
		"R1 value-type ids agree in all three copies and each encodeType emits the id of its own Go type; " +
		"R2 wire grammar: the write term of every encodeValue, the read term of every readObject case and of the file-level opcodes of the decoder equal the reference RDB grammar (and therefore each other); EncodeObject/EncodeDump call the parts in file order (select-db, expiry, type, key, value / type, value, footer); the linked encoder's header, footer, select-db and expiry emit the opcodes the reader dispatches on; " +
		"R3 event wiring: in every decoder case the k-th item read is the k-th payload argument of the event (Hset(key, field, value), Zadd(key, score, member) with the member read first), the adaptor stores each callback parameter in the field of the same meaning and appends in call order, Start* initialises the matching Go type; " +
		"R5 the BinEntry/ObjEntry converters copy every field other than Value one-to-one; " +
		"R6 the two copies of every compact-encoding decoder (ziplist entry/length, zipmap item/length/count, LZF: pkg/rdb/reader.go and the in-repo cupcake decoder) apply the same masks, shifts, widths, sign conversions and case constants (multiset fingerprint, invariant under renaming and reordering), and both RDB length decoders use tag >> 6, value & 0x3f, 14-bit high part << 8.",
	NotDecided: "float text round-trip ('g',17, NaN, -0), integer-string canonicalisation at numeric boundaries, LZF, ziplist/intset/zipmap integer decoding: all value-level. What is claimed is 'both sides speak the same grammar with the same numbers and wire each element to the right slot'.",
	Trusted:    []string{"go/parser, go/types (x/tools v0.29.0)", "reference RDB grammar (shared with C01)", "module-cache copy of github.com/cupcake/rdb is the one linked (go.mod)"},
	Run:        Run,
}

var typeIDs = map[string]int64{"TypeString": 0, "TypeList": 1, "TypeSet": 2, "TypeZSet": 3, "TypeHash": 4, "TypeZSet2": 5,
	"TypeHashZipmap": 9, "TypeListZiplist": 10, "TypeSetIntset": 11, "TypeZSetZiplist": 12, "TypeHashZiplist": 13, "TypeListQuicklist": 14}

var opIDs = map[string]int64{"rdbFlagAux": 0xfa, "rdbFlagResizeDB": 0xfb, "rdbFlagExpiryMS": 0xfc, "rdbFlagExpiry": 0xfd, "rdbFlagSelectDB": 0xfe, "rdbFlagEOF": 0xff,
	"rdb6bitLen": 0, "rdb14bitLen": 1, "rdbEncVal": 3, "rdbEncInt8": 0, "rdbEncInt16": 1, "rdbEncInt32": 2, "rdbEncLZF": 3}

// reference read grammar of the value types the decoder handles
var readRef = map[int64]string{
	0: "Str", 1: "Len@a Loop@a{Str}", 2: "Len@a Loop@a{Str}", 3: "Len@a Loop@a{Str FloatStr}", 4: "Len@a Loop@a{Str Str}", 5: "Len@a Loop@a{Str Fix8}",
	9: "Str", 10: "Str", 11: "Str", 12: "Str", 13: "Str", 14: "Len@a Loop@a{Str}",
}

var typeNames = map[int64]string{0: "string", 1: "list", 2: "set", 3: "zset", 4: "hash", 5: "zset2", 9: "hash-zipmap", 10: "list-ziplist",
	11: "set-intset", 12: "zset-ziplist", 13: "hash-ziplist", 14: "quicklist"}

func constVal(c *core.Ctx, pkgPath, name string) (int64, token.Pos, bool) {
	pk := c.Pkg(pkgPath)
	if pk == nil || pk.Types == nil {
		return 0, token.NoPos, false
	}
	cn, ok := pk.Types.Scope().Lookup(name).(*types.Const)
	if !ok {
		return 0, token.NoPos, false
	}
	var n int64
	if _, err := fmt.Sscan(cn.Val().ExactString(), &n); err != nil {
		return 0, cn.Pos(), false
	}
	return n, cn.Pos(), true
}

func decodeSpec() *grammar.Spec {
	d := "(*" + cupName + ".decode)."
	return &grammar.Spec{
		Prims: map[string]string{
			d + "readString": "Str", d + "readLength": "Len", d + "readFloat64": "FloatStr", d + "readDouble64": "Fix8",
			d + "readUint8": "U8", d + "readUint16": "Fix2LE", d + "readUint32": "Fix4LE", d + "readUint64": "Fix8LE",
			d + "readUint64Big": "Fix8BE", d + "readUint32Big": "Fix4BE", d + "readObject": "Value",
			"(io.ByteReader).ReadByte": "U8",
		},
		BufPrims:    map[string]string{"io.ReadFull": "Fix%d"},
		FieldBufLen: map[string]int64{"intBuf": 8},
		Inline: func(f *types.Func) bool {
			return f.Pkg() != nil && f.Pkg().Path() == core.Module+"/"+cupPkg
		},
		Carrier: func(t types.Type) bool {
			n := core.NamedTypeName(t)
			return n == "decode" || n == "byteReader"
		},
	}
}

func encodeSpec() *grammar.Spec {
	e := "(*" + cupMod + ".Encoder)."
	return &grammar.Spec{
		Prims: map[string]string{
			e + "EncodeString": "Str", e + "EncodeLength": "Len", e + "EncodeFloat": "FloatStr", e + "EncodeType": "U8",
			e + "EncodeDatabase": "SELECTDB", e + "EncodeExpiry": "EXPIRETIME_MS", e + "EncodeHeader": "HEADER", e + "EncodeFooter": "FOOTER", e + "EncodeDumpFooter": "DUMPFOOTER",
		},
		Inline: func(f *types.Func) bool {
			return f.Pkg() != nil && f.Pkg().Path() == core.Module+"/"+rdbPkg
		},
		Carrier: func(t types.Type) bool { return core.NamedTypeName(t) == "Encoder" },
	}
}

func trimRet(s string) string {
	return strings.TrimSpace(strings.TrimSuffix(strings.TrimSpace(s), "Ret"))
}

func reentrant(c *core.Ctx) {
	var roots []*core.Fn
	for _, n := range []string{"DecodeDump", "EncodeDump"} {
		if f := c.FuncOpt(rdbPkg, "", n); f != nil {
			roots = append(roots, f)
		}
	}
	if f := c.FuncOpt(cupPkg, "", "DecodeDump"); f != nil {
		roots = append(roots, f)
	}
	reent.Check(c, "R7.reentrant", roots, []string{rdbPkg, cupPkg, "pkg/libs/cupcake/rdb/crc64", "pkg/rdb/digest"}, "parallel decode / restore workers")
}

func Run(c *core.Ctx) {
	defer reentrant(c)
	pk := c.Pkg(rdbPkg)
	cup := c.Pkg(cupPkg)
	mod := c.Pkg(cupMod)
	if pk == nil || cup == nil || mod == nil {
		c.Undecidedf("anchor", "packages", token.NoPos, "pkg/rdb, in-repo cupcake/rdb or module-cache cupcake/rdb not loaded")
		return
	}

	// ---- R1 ids
	for name, want := range typeIDs {
		got, pos, ok := constVal(c, cupPkg, name)
		if !ok {
			c.Undecidedf("R1.ids", "decoder/"+name, pos, "constant %s not found in the in-repo cupcake decoder", name)
		} else {
			c.Check("R1.ids", "decoder/"+name, pos, got == want, fmt.Sprintf("decoder %s must be %d, it is %d: payloads of that type are decoded as another type", name, want, got))
		}
		if name == "TypeZSet2" {
			continue // the linked encoder predates zset2 and never emits it
		}
		if got, pos, ok := constVal(c, cupMod, name); ok {
			c.Check("R1.ids", "linked-encoder/"+name, pos, got == want, fmt.Sprintf("linked cupcake %s must be %d, it is %d", name, want, got))
		}
	}
	for name, want := range opIDs {
		got, pos, ok := constVal(c, cupPkg, name)
		if !ok {
			c.Undecidedf("R1.ids", "decoder/"+name, pos, "constant %s not found in the in-repo cupcake decoder", name)
			continue
		}
		c.Check("R1.ids", "decoder/"+name, pos, got == want, fmt.Sprintf("decoder %s must be %#x, it is %#x", name, want, got))
		if g2, p2, ok2 := constVal(c, cupMod, name); ok2 {
			c.Check("R1.ids", "linked-encoder/"+name, p2, g2 == want, fmt.Sprintf("linked cupcake %s must be %#x, it is %#x", name, want, g2))
		}
	}
	goType := map[string]string{"String": "RdbTypeString", "Hash": "RdbTypeHash", "List": "RdbTypeList", "ZSet": "RdbTypeZSet", "Set": "RdbTypeSet"}
	writeRef := map[string]string{"String": "Str", "Hash": "Len@a Loop@a{Str Str}", "List": "Len@a Loop@a{Str}", "ZSet": "Len@a Loop@a{Str FloatStr}", "Set": "Len@a Loop@a{Str}"}
	info := pk.TypesInfo
	for tn, cn := range goType {
		if fn := c.Func(rdbPkg, tn, "encodeType"); fn != nil {
			n1, b := pat.Stmt("_t = rdb.ValueType("+cn+")").Find(info, fn.Decl.Body, nil)
			ok := false
			if n1 != nil {
				n2, _ := pat.Expr("_enc.EncodeType(_t)").Find(info, fn.Decl.Body, b)
				ok = n2 != nil
			} else {
				n2, _ := pat.Expr("_enc.EncodeType(rdb.ValueType("+cn+"))").Find(info, fn.Decl.Body, nil)
				ok = n2 != nil
			}
			c.Check("R1.ids", "encodeType/"+tn, fn.Decl.Pos(), ok, fmt.Sprintf("%s.encodeType must emit %s: a payload tagged with another type is decoded as that type", tn, cn))
		}
		// ---- R2 writer grammar
		if fn := c.Func(rdbPkg, tn, "encodeValue"); fn != nil {
			ex := grammar.New(c, encodeSpec())
			got := trimRet(ex.FuncTerm(fn))
			// tie the range loop to the length written
			recv := fn.Decl.Recv.List[0].Names[0]
			rb := pat.Binds{"_o": recv}
			lenOK := true
			if strings.Contains(got, "Star{") {
				n, _ := pat.Expr("_enc.EncodeLength(uint32(len(_o)))").Find(info, fn.Decl.Body, rb)
				var rng *ast.RangeStmt
				core.Inspect(fn.Decl.Body, func(m ast.Node) bool {
					if r, ok := m.(*ast.RangeStmt); ok && rng == nil {
						rng = r
					}
					return true
				})
				lenOK = n != nil && rng != nil && pat.Same(info, rng.X, recv) && n.Pos() < rng.Pos()
				if !lenOK && n == nil && rng == nil {
					// the body is delegated to a same-package helper called with the receiver:
					// the count/elements tie must hold inside the helper for its own parameter
					core.Inspect(fn.Decl.Body, func(m ast.Node) bool {
						call, ok := m.(*ast.CallExpr)
						if !ok || lenOK {
							return true
						}
						f := core.CalleeFunc(info, call)
						if f == nil || f.Pkg() == nil || f.Pkg().Path() != fn.Pkg.PkgPath {
							return true
						}
						h := c.FnOf(f)
						if h == nil || h.Decl.Body == nil {
							return true
						}
						var hp []*ast.Ident
						for _, fl := range h.Decl.Type.Params.List {
							hp = append(hp, fl.Names...)
						}
						for i, a := range call.Args {
							if i >= len(hp) {
								break
							}
							inner := ast.Unparen(a)
							if cv, ok := inner.(*ast.CallExpr); ok && len(cv.Args) == 1 { // conversion [][]byte(o)
								inner = ast.Unparen(cv.Args[0])
							}
							if !pat.Same(info, inner, recv) {
								continue
							}
							hn, _ := pat.Expr("_enc.EncodeLength(uint32(len(_o)))").Find(info, h.Decl.Body, pat.Binds{"_o": hp[i]})
							var hr *ast.RangeStmt
							core.Inspect(h.Decl.Body, func(mm ast.Node) bool {
								if r, ok := mm.(*ast.RangeStmt); ok && hr == nil {
									hr = r
								}
								return true
							})
							if hn != nil && hr != nil && pat.Same(info, hr.X, hp[i]) && hn.Pos() < hr.Pos() {
								lenOK = true
							}
						}
						return true
					})
				}
				if lenOK {
					got = strings.Replace(strings.Replace(got, "Len Star{", "Len@a Loop@a{", 1), "Len@a Star{", "Len@a Loop@a{", 1)
				}
			}
			switch {
			case len(ex.Undecided) > 0:
				c.Undecidedf("R2.grammar", "encodeValue/"+tn, fn.Decl.Pos(), "%s", strings.Join(ex.Undecided, "; "))
			case !lenOK:
				c.Failf("R2.grammar", "encodeValue/"+tn, fn.Decl.Pos(), "%s.encodeValue must write the element count len(o) and then exactly the elements of o; the reader loops over the count it reads", tn)
			default:
				c.Check("R2.grammar", "encodeValue/"+tn, fn.Decl.Pos(), got == writeRef[tn],
					fmt.Sprintf("%s.encodeValue writes `%s`, the reader of that type consumes `%s`", tn, got, writeRef[tn]))
			}
			// element fields in reader order
			switch tn {
			case "Hash":
				f1, _ := pat.Expr("_enc.EncodeString(_e.Field)").Find(info, fn.Decl.Body, nil)
				f2, _ := pat.Expr("_enc.EncodeString(_e.Value)").Find(info, fn.Decl.Body, nil)
				c.Check("R3.wiring", "encodeValue/Hash/field-then-value", fn.Decl.Pos(), f1 != nil && f2 != nil && f1.Pos() < f2.Pos(), "a hash pair is written field first, value second (the reader takes the first string as the field)")
			case "ZSet":
				f1, _ := pat.Expr("_enc.EncodeString(_e.Member)").Find(info, fn.Decl.Body, nil)
				f2, _ := pat.Expr("_enc.EncodeFloat(_e.Score)").Find(info, fn.Decl.Body, nil)
				c.Check("R3.wiring", "encodeValue/ZSet/member-then-score", fn.Decl.Pos(), f1 != nil && f2 != nil && f1.Pos() < f2.Pos(), "a sorted-set element is written member first, score second")
			}
		}
	}

	// EncodeDump / EncodeObject order
	if fn := c.Func(rdbPkg, "", "EncodeDump"); fn != nil {
		order(c, fn, "EncodeDump", []string{"_o.encodeType(_enc)", "_o.encodeValue(_enc)", "_enc.EncodeDumpFooter()"}, "a DUMP payload is type byte, value, then the version+CRC footer")
		n, _ := pat.Stmt("_enc = rdb.NewEncoder(&_b)").Find(info, fn.Decl.Body, nil)
		r, _ := pat.Stmt("return _b.Bytes(), nil").Find(info, fn.Decl.Body, nil)
		c.Check("R2.grammar", "EncodeDump/buffer", fn.Decl.Pos(), n != nil && r != nil, "EncodeDump returns the buffer its encoder wrote to")
	}
	if fn := c.Func(rdbPkg, "Encoder", "EncodeObject"); fn != nil {
		order(c, fn, "EncodeObject", []string{"_e.enc.EncodeDatabase(int(_db))", "_e.enc.EncodeExpiry(_exp)", "_o.encodeType(_e.enc)", "_e.enc.EncodeString(_key)", "_o.encodeValue(_e.enc)"},
			"a key record is [SELECTDB db] [EXPIRETIME_MS ms] type key value, in this order")
		encodeObjectRules(c, fn)
	}
	for _, m := range []struct{ name, call string }{{"EncodeHeader", "EncodeHeader"}, {"EncodeFooter", "EncodeFooter"}} {
		if fn := c.Func(rdbPkg, "Encoder", m.name); fn != nil {
			n, _ := pat.Expr("_e.enc."+m.call+"()").Find(info, fn.Decl.Body, nil)
			c.Check("R2.grammar", "Encoder."+m.name, fn.Decl.Pos(), n != nil, m.name+" delegates to the linked encoder's "+m.call)
		}
	}
	linkedEncoder(c)

	// ---- R2 reader grammar (in-repo cupcake decoder)
	ci := cup.TypesInfo
	ro := c.Func(cupPkg, "decode", "readObject")
	if ro != nil {
		var typParam types.Object
		if ps := ro.Decl.Type.Params.List; len(ps) >= 2 && len(ps[1].Names) == 1 {
			typParam = ci.Defs[ps[1].Names[0]]
		}
		sw := findSwitchOn(ci, ro.Decl.Body, typParam)
		if sw == nil {
			c.Undecidedf("R2.grammar", "readObject/switch", ro.Decl.Pos(), "no switch over the type parameter")
		} else {
			for v, want := range readRef {
				spec := decodeSpec()
				delete(spec.Prims, "(*"+cupName+".decode).readObject")
				ex := grammar.New(c, spec)
				got, ok := ex.CaseTerm(ci, sw, v, false)
				got = trimRet(got)
				key := fmt.Sprintf("readObject/%d-%s", v, typeNames[v])
				switch {
				case !ok:
					c.Failf("R2.grammar", key, sw.Pos(), "the decoder has no case for value type %d (%s): payloads the tool's own parser produces cannot be decoded", v, typeNames[v])
				case len(ex.Undecided) > 0:
					c.Undecidedf("R2.grammar", key, sw.Pos(), "%s", strings.Join(ex.Undecided, "; "))
				default:
					c.Check("R2.grammar", key, sw.Pos(), got == want, fmt.Sprintf("readObject(%s) consumes `%s`, the format (and the tool's writer) has `%s`", typeNames[v], got, want))
				}
			}
			wiring(c, ro, sw)
		}
	}
	if dec := c.Func(cupPkg, "decode", "decode"); dec != nil {
		var sw *ast.SwitchStmt
		core.Inspect(dec.Decl.Body, func(n ast.Node) bool {
			if s, ok := n.(*ast.SwitchStmt); ok && sw == nil && s.Tag != nil {
				sw = s
			}
			return sw == nil
		})
		if sw != nil {
			ref := map[int64]string{0xfa: "Str Str", 0xfb: "Len Len", 0xfc: "Fix8", 0xfd: "Fix4", 0xfe: "Len", 0xff: ""}
			for v, want := range ref {
				ex := grammar.New(c, decodeSpec())
				got, ok := ex.CaseTerm(ci, sw, v, false)
				got = trimRet(got)
				key := fmt.Sprintf("decode/op-%#x", v)
				switch {
				case !ok:
					c.Failf("R2.grammar", key, sw.Pos(), "the file decoder has no case for opcode %#x", v)
				case len(ex.Undecided) > 0:
					c.Undecidedf("R2.grammar", key, sw.Pos(), "%s", strings.Join(ex.Undecided, "; "))
				default:
					c.Check("R2.grammar", key, sw.Pos(), got == want, fmt.Sprintf("opcode %#x consumes `%s`, the format has `%s`", v, got, want))
				}
			}
			ex := grammar.New(c, decodeSpec())
			got, _ := ex.CaseTerm(ci, sw, 0, true)
			c.Check("R2.grammar", "decode/key-record", sw.Pos(), trimRet(got) == "Str Value" && len(ex.Undecided) == 0, "a key record is read as key string then value; got `"+trimRet(got)+"`")
			// expiry binding
			if cc := clause(ci, sw, 0xfd); cc != nil {
				n, _ := pat.Stmt("_x = int64(binary.LittleEndian.Uint32(_d.intBuf)) * 1000").Find(ci, &ast.BlockStmt{List: cc.Body}, nil)
				c.Check("R3.wiring", "decode/expiry-seconds", cc.Pos(), n != nil, "EXPIRETIME (seconds) is scaled to milliseconds")
			}
			if cc := clause(ci, sw, 0xfc); cc != nil {
				n, _ := pat.Stmt("_x = int64(binary.LittleEndian.Uint64(_d.intBuf))").Find(ci, &ast.BlockStmt{List: cc.Body}, nil)
				c.Check("R3.wiring", "decode/expiry-ms", cc.Pos(), n != nil, "EXPIRETIME_MS is taken unscaled")
			}
		}
		// scratch buffer width
		okBuf := 0
		for _, f := range cup.Syntax {
			ast.Inspect(f, func(n ast.Node) bool {
				cl, ok := n.(*ast.CompositeLit)
				if !ok || core.NamedTypeName(ci.TypeOf(cl)) != "decode" {
					return true
				}
				if len(cl.Elts) == 3 && pat.Expr("make([]byte, 8)").Match(ci, cl.Elts[1], nil) != nil {
					okBuf++
				} else {
					okBuf = -100
				}
				return true
			})
		}
		c.Check("R2.grammar", "decode/intBuf-width", dec.Decl.Pos(), okBuf >= 2, "every decode object is built with an 8-byte scratch buffer (the width the fixed-size reads rely on)")
	}

	adaptor(c)
	converters(c)

	// ---- R6 the duplicated value decoders agree (value-level arithmetic by sibling comparison)
	arith.CheckSiblings(c, "R6.siblings")
	arith.LengthFingerprint(c, "R6.length", c.Func(cupPkg, "decode", "readLength"))
	arith.LengthFingerprint(c, "R6.length", c.Func(rdbPkg, "rdbReader", "readEncodedLength"))
}

// rootPos is the position, in the root function, of the statement through
// which site s is reached.
func rootPos(s flow.Site, n ast.Node) token.Pos {
	if len(s.Up) > 0 {
		if nd := s.Up[len(s.Up)-1].At.Node(); nd != nil {
			return nd.Pos()
		}
	}
	return n.Pos()
}

// order: the calls matching the patterns happen in this order (each pattern is
// looked for in fn and in the same-module helpers it calls; what counts is the
// position in fn of the statement through which the call is reached).
func order(c *core.Ctx, fn *core.Fn, name string, calls []string, why string) {
	g := cfgq.Of(c.Program, fn)
	e := flow.New(c.Program)
	e.Opaque = func(f *types.Func) bool { return f.Pkg() == nil || !strings.HasSuffix(f.Pkg().Path(), rdbPkg) }
	first := map[int]token.Pos{}
	e.Walk(g, fn.Decl.Body, func(s flow.Site, n ast.Node) {
		x, ok := n.(*ast.CallExpr)
		if !ok {
			return
		}
		for i, p := range calls {
			if _, seen := first[i]; seen {
				continue
			}
			if pat.Expr(p).Match(s.G.Info, x, nil) != nil {
				first[i] = rootPos(s, x)
			}
		}
	})
	last := token.NoPos
	ok := true
	missing := ""
	for i, p := range calls {
		pos, found := first[i]
		if !found || pos < last {
			ok = false
			missing = strings.ReplaceAll(p, "_", "")
			break
		}
		last = pos
	}
	c.Check("R2.grammar", name+"/order", fn.Decl.Pos(), ok, why+" (offending part: "+missing+")")
}

// encodeObjectRules: when the database selector and the expiry are written.
func encodeObjectRules(c *core.Ctx, fn *core.Fn) {
	info := fn.Pkg.TypesInfo
	var ps []*ast.Ident
	for _, f := range fn.Decl.Type.Params.List {
		ps = append(ps, f.Names...)
	}
	if len(ps) != 4 {
		c.Undecidedf("R2.grammar", "EncodeObject/params", fn.Decl.Pos(), "expected (db, key, expireat, obj)")
		return
	}
	g := cfgq.Of(c.Program, fn)
	e := flow.New(c.Program)
	e.Opaque = func(f *types.Func) bool { return f.Pkg() == nil || !strings.HasSuffix(f.Pkg().Path(), rdbPkg) }
	isParam := func(s flow.Site, x ast.Expr, p *ast.Ident) bool {
		r := ast.Unparen(e.Resolve(s, x))
		for {
			call, ok := r.(*ast.CallExpr)
			if ok && len(call.Args) == 1 {
				if tv, has := s.G.Info.Types[call.Fun]; has && tv.IsType() {
					r = ast.Unparen(call.Args[0])
					continue
				}
			}
			break
		}
		id, ok := r.(*ast.Ident)
		return ok && core.ObjOf(info, id) == info.Defs[p]
	}
	callsOf := func(name string) []flow.CallSite {
		return e.Calls(g, fn.Decl.Body, func(f *types.Func) bool {
			return f.Name() == name && f.Pkg() != nil && !strings.HasSuffix(f.Pkg().Path(), rdbPkg)
		})
	}
	errorExit := func(gg *cfgq.Graph) func(b *cfg.Block, k cfgq.ExitKind) bool {
		return func(b *cfg.Block, k cfgq.ExitKind) bool {
			if k == cfgq.ExitFall {
				return true
			}
			if k != cfgq.ExitRet {
				return false
			}
			ret := b.Nodes[len(b.Nodes)-1].(*ast.ReturnStmt)
			return cfgq.ClassifyReturn(gg.Info, gg.Body, ret) != cfgq.RetErr
		}
	}
	// ---- SELECTDB
	dbCalls := callsOf("EncodeDatabase")
	if len(dbCalls) != 1 {
		c.Undecidedf("R2.grammar", "EncodeObject/select-db", fn.Decl.Pos(), "expected one EncodeDatabase call reachable from EncodeObject, found %d", len(dbCalls))
	} else {
		dc := dbCalls[0]
		gg := dc.G
		gi := gg.Info
		okDB := len(dc.Call.Args) == 1 && isParam(dc.Site, dc.Call.Args[0], ps[0])
		var why []string
		if !okDB {
			why = append(why, "the selector does not carry the db parameter")
		}
		// atoms: A = `e.db == -1` (nothing written yet), B = `uint32(e.db) == db` (same database)
		atomFor := func(a, b bool) func(ast.Expr) (bool, bool) {
			return func(x ast.Expr) (bool, bool) {
				be, ok := ast.Unparen(x).(*ast.BinaryExpr)
				if !ok || be.Op != token.EQL && be.Op != token.NEQ {
					return false, false
				}
				eq := be.Op == token.EQL
				mentionsDB := func(y ast.Expr) bool {
					hit := false
					ast.Inspect(y, func(n ast.Node) bool {
						if sel, ok := n.(*ast.SelectorExpr); ok && core.IsFieldNamed(gi, sel, "Encoder", "db") {
							hit = true
						}
						return !hit
					})
					return hit
				}
				for _, pr := range [][2]ast.Expr{{be.X, be.Y}, {be.Y, be.X}} {
					if !mentionsDB(pr[0]) {
						continue
					}
					if v, isC := core.IntConst(gi, pr[1]); isC && v == -1 {
						return a == eq, true
					}
					if isParam(flow.Site{G: gg, At: gg.Entry(), Up: dc.Up}, pr[1], ps[0]) {
						return b == eq, true
					}
				}
				return false, false
			}
		}
		isDB := func(n ast.Node) bool {
			for _, cl := range cfgq.ExecCalls(n) {
				if cl == dc.Call {
					return true
				}
			}
			return false
		}
		// same database as before: no selector
		w := gg.Path(cfgq.Query{From: gg.Entry(), Target: isDB, AvoidEdge: ring.Infeasible(gi, atomFor(false, true))})
		if w != nil {
			okDB = false
			why = append(why, "the selector is written although the database is the one written last")
		}
		// first object, or another database: the selector is written on every successful path
		for _, ab := range [][2]bool{{true, false}, {true, true}, {false, false}} {
			w := gg.Path(cfgq.Query{From: gg.Entry(), Avoid: isDB, AvoidEdge: ring.Infeasible(gi, atomFor(ab[0], ab[1])), TargetExit: errorExit(gg)})
			if w != nil {
				okDB = false // a successful exit without the selector
				why = append(why, fmt.Sprintf("with (nothing written yet=%v, same database=%v) a path succeeds without writing the selector: %s", ab[0], ab[1], strings.Join(w, " -> ")))
			}
		}
		// the new database is remembered on the way
		remembered := false
		for _, st := range e.Stores(gg, gg.Body, func(v *types.Var) bool { return v.Name() == "db" && v.Pkg() == fn.Obj.Pkg() }) {
			if st.G == gg && st.Plain() && isParam(flow.Site{G: gg, At: st.At, Up: dc.Up}, st.RHS, ps[0]) {
				sn := st.Stmt
				w1 := gg.Path(cfgq.Query{From: gg.Entry(), Avoid: func(n ast.Node) bool { return n == sn }, Target: isDB})
				if w1 == nil {
					remembered = true
				} else if dp, ok := gg.Find(dc.Call); ok {
					w2 := gg.Path(cfgq.Query{From: dp, After: true, Avoid: func(n ast.Node) bool { return n == sn }, TargetExit: errorExit(gg)})
					remembered = w2 == nil
				}
			}
		}
		// a helper must be called unconditionally before the type byte
		if len(dc.Up) > 0 {
			top := dc.Up[len(dc.Up)-1]
			var typePt *cfgq.Point
			e.Walk(g, fn.Decl.Body, func(s flow.Site, n ast.Node) {
				if x, ok := n.(*ast.CallExpr); ok && len(s.Up) == 0 && pat.Expr("_o.encodeType(_enc)").Match(info, x, nil) != nil {
					p := s.At
					typePt = &p
				}
			})
			if typePt == nil {
				okDB = false
				why = append(why, "cannot find the type byte write")
			} else {
				hn := top.At.Node()
				dom, _ := g.Dominated(*typePt, func(n ast.Node) bool { return n == hn })
				if !dom {
					why = append(why, "the helper that writes the selector is not called on every path before the type byte")
				}
				okDB = okDB && dom
			}
		}
		if !remembered {
			why = append(why, "the database written is not stored in e.db together with the selector")
		}
		c.Check("R2.grammar", "EncodeObject/select-db", fn.Decl.Pos(), okDB && remembered, "a SELECTDB opcode is written whenever the database differs from the last one written (and for the first object), and the new database is remembered; "+strings.Join(why, "; "))
	}
	// ---- expiry
	exCalls := callsOf("EncodeExpiry")
	if len(exCalls) != 1 {
		c.Undecidedf("R2.grammar", "EncodeObject/expiry", fn.Decl.Pos(), "expected one EncodeExpiry call reachable from EncodeObject, found %d", len(exCalls))
	} else {
		ec := exCalls[0]
		okE := len(ec.Call.Args) == 1 && isParam(ec.Site, ec.Call.Args[0], ps[2])
		nonZero := func(f cfgq.Fact) bool {
			be, ok := ast.Unparen(flow.Positive(f)).(*ast.BinaryExpr)
			if !ok || be.Op != token.NEQ && be.Op != token.GTR {
				return false
			}
			v, isC := core.IntConst(info, be.Y)
			if !isC || v != 0 {
				return false
			}
			id, isId := ast.Unparen(be.X).(*ast.Ident)
			return isId && core.ObjOf(info, id) == info.Defs[ps[2]]
		}
		okE = okE && e.Under(ec.Site, nonZero)
		// and it is written whenever the expiry is non-zero: under `expireat != 0` no
		// successful exit of the function holding the call avoids it
		gg := ec.G
		atom := func(x ast.Expr) (bool, bool) {
			be, ok := ast.Unparen(x).(*ast.BinaryExpr)
			if !ok {
				return false, false
			}
			if v, isC := core.IntConst(gg.Info, be.Y); isC && v == 0 && isParam(flow.Site{G: gg, At: gg.Entry(), Up: ec.Up}, be.X, ps[2]) {
				switch be.Op {
				case token.NEQ, token.GTR:
					return true, true
				case token.EQL:
					return false, true
				}
			}
			return false, false
		}
		isEx := func(n ast.Node) bool {
			for _, cl := range cfgq.ExecCalls(n) {
				if cl == ec.Call {
					return true
				}
			}
			return false
		}
		if w := gg.Path(cfgq.Query{From: gg.Entry(), Avoid: isEx, AvoidEdge: ring.Infeasible(gg.Info, atom), TargetExit: errorExit(gg)}); w != nil {
			okE = false
		}
		c.Check("R2.grammar", "EncodeObject/expiry", fn.Decl.Pos(), okE, "the expiry opcode carries the object's absolute expiry and is written exactly when it is non-zero")
	}
	// ---- key
	okK := false
	for _, kc := range e.Calls(g, fn.Decl.Body, func(f *types.Func) bool { return f.Name() == "EncodeString" }) {
		if len(kc.Call.Args) == 1 && isParam(kc.Site, kc.Call.Args[0], ps[1]) {
			okK = true
		}
	}
	c.Check("R2.grammar", "EncodeObject/key", fn.Decl.Pos(), okK, "the key written is the key passed in")
}

func findIf(info *types.Info, root ast.Node, match func(cond ast.Expr) bool) *ast.IfStmt {
	var hit *ast.IfStmt
	core.Inspect(root, func(n ast.Node) bool {
		if ifs, ok := n.(*ast.IfStmt); ok && hit == nil && match(ifs.Cond) {
			hit = ifs
		}
		return hit == nil
	})
	return hit
}

func findSwitchOn(info *types.Info, body ast.Node, obj types.Object) *ast.SwitchStmt {
	var sw *ast.SwitchStmt
	core.Inspect(body, func(n ast.Node) bool {
		if s, ok := n.(*ast.SwitchStmt); ok && sw == nil && s.Tag != nil {
			if id, ok := ast.Unparen(s.Tag).(*ast.Ident); ok && info.Uses[id] == obj {
				sw = s
			}
		}
		return sw == nil
	})
	return sw
}

func clause(info *types.Info, sw *ast.SwitchStmt, val int64) *ast.CaseClause {
	for _, cl := range sw.Body.List {
		cc := cl.(*ast.CaseClause)
		for _, l := range cc.List {
			if v, ok := core.IntConst(info, l); ok && v == val {
				return cc
			}
		}
	}
	return nil
}

// linkedEncoder checks the opcodes emitted by the module-cache encoder.
func linkedEncoder(c *core.Ctx) {
	mod := c.Pkg(cupMod)
	info := mod.TypesInfo
	get := func(name string) *core.Fn {
		f := c.LookupFunc(cupMod, "Encoder", name)
		if f == nil || f.Decl == nil {
			c.Undecidedf("R2.grammar", "linked-encoder/"+name, token.NoPos, "linked encoder method %s not found", name)
			return nil
		}
		return f
	}
	if f := get("EncodeHeader"); f != nil {
		n, _ := pat.Expr(`fmt.Fprintf(_e.w, "REDIS%04d", Version)`).Find(info, f.Decl.Body, nil)
		c.Check("R2.grammar", "linked-encoder/header", f.Decl.Pos(), n != nil, "the header is REDIS followed by the 4-digit version (9 bytes, what Loader.Header and checkHeader read)")
	}
	if f := get("EncodeFooter"); f != nil {
		n1, _ := pat.Expr("_e.w.Write([]byte{rdbFlagEOF})").Find(info, f.Decl.Body, nil)
		n2, _ := pat.Expr("_e.w.Write(_e.crc.Sum(nil))").Find(info, f.Decl.Body, nil)
		c.Check("R2.grammar", "linked-encoder/footer", f.Decl.Pos(), n1 != nil && n2 != nil && n1.Pos() < n2.Pos(), "the footer is the EOF opcode followed by the 8 digest bytes")
	}
	if f := get("EncodeDumpFooter"); f != nil {
		n1, _ := pat.Expr("binary.Write(_e.w, binary.LittleEndian, uint16(Version))").Find(info, f.Decl.Body, nil)
		n2, _ := pat.Expr("_e.w.Write(_e.crc.Sum(nil))").Find(info, f.Decl.Body, nil)
		c.Check("R2.grammar", "linked-encoder/dump-footer", f.Decl.Pos(), n1 != nil && n2 != nil && n1.Pos() < n2.Pos(), "the DUMP footer is version LE16 then the digest")
	}
	if f := get("EncodeDatabase"); f != nil {
		n1, _ := pat.Expr("_e.w.Write([]byte{rdbFlagSelectDB})").Find(info, f.Decl.Body, nil)
		n2, _ := pat.Expr("_e.EncodeLength(uint32(_n))").Find(info, f.Decl.Body, nil)
		c.Check("R2.grammar", "linked-encoder/select-db", f.Decl.Pos(), n1 != nil && n2 != nil && n1.Pos() < n2.Pos(), "SELECTDB is the opcode followed by a length-encoded database number")
	}
	if f := get("EncodeExpiry"); f != nil {
		n1, b := pat.Stmt("_b = make([]byte, 9)").Find(info, f.Decl.Body, nil)
		ok := false
		if n1 != nil {
			n2, _ := pat.Stmt("_b[0] = rdbFlagExpiryMS").Find(info, f.Decl.Body, b)
			n3, _ := pat.Expr("binary.LittleEndian.PutUint64(_b[1:], _x)").Find(info, f.Decl.Body, b)
			n4, _ := pat.Expr("_e.w.Write(_b)").Find(info, f.Decl.Body, b)
			ok = n2 != nil && n3 != nil && n4 != nil
		}
		c.Check("R2.grammar", "linked-encoder/expiry", f.Decl.Pos(), ok, "the expiry is the EXPIRETIME_MS opcode followed by 8 little-endian bytes")
	}
	if v, pos, ok := constVal(c, cupMod, "Version"); ok {
		pk := c.Pkg(rdbPkg)
		tv, _ := pk.Types.Scope().Lookup("ToVersion").(*types.Var)
		_ = tv
		// ToVersion is a variable initialised with a constant; read its initialiser
		init := int64(-1)
		for _, f := range pk.Syntax {
			for _, d := range f.Decls {
				gd, ok := d.(*ast.GenDecl)
				if !ok || gd.Tok != token.VAR {
					continue
				}
				for _, sp := range gd.Specs {
					vs := sp.(*ast.ValueSpec)
					for i, n := range vs.Names {
						if n.Name == "ToVersion" && i < len(vs.Values) {
							if x, ok := core.IntConst(pk.TypesInfo, vs.Values[i]); ok {
								init = x
							}
						}
					}
				}
			}
		}
		c.Check("R1.ids", "dump-version", pos, init == v, fmt.Sprintf("pkg/rdb.ToVersion (%d) must equal the linked cupcake Version (%d): the parser's DUMP payloads are verified by cupcake's verifyDump", init, v))
	}
}

// wiring checks R3 inside the decoder cases.
func wiring(c *core.Ctx, ro *core.Fn, sw *ast.SwitchStmt) {
	info := ro.Pkg.TypesInfo
	keyParam := ro.Decl.Type.Params.List[0].Names[0]
	type ev struct {
		typ    int64
		fn     string // function holding the loop ("" = the clause itself)
		reads  []string
		event  string
		why    string
		derive bool
	}
	evs := []ev{
		{0, "", []string{"_v, _err = _d.readString()"}, "_d.event.Set(_key, _v, _exp)", "Set(key, value, expiry) carries the string read", false},
		{1, "", []string{"_v, _err = _d.readString()"}, "_d.event.Rpush(_key, _v)", "Rpush(key, value) carries each element in read order", false},
		{2, "", []string{"_v, _err = _d.readString()"}, "_d.event.Sadd(_key, _v)", "Sadd(key, member) carries each member", false},
		{4, "", []string{"_f, _err = _d.readString()", "_v, _err2 = _d.readString()"}, "_d.event.Hset(_key, _f, _v)", "Hset(key, field, value): the first string read is the field", false},
		{13, "readZiplistHash", []string{"_f, _err = readZiplistEntry(_buf)", "_v, _err2 = readZiplistEntry(_buf)"}, "_d.event.Hset(_key, _f, _v)", "Hset(key, field, value): the first ziplist entry is the field", false},
		{9, "readZipmap", []string{"_f, _err = readZipmapItem(_buf, false)", "_v, _err2 = readZipmapItem(_buf, true)"}, "_d.event.Hset(_key, _f, _v)", "Hset(key, field, value): the zipmap key item (no free byte) is the field, the value item carries the free byte", false},
		{10, "readZiplist", []string{"_v, _err = readZiplistEntry(_buf)"}, "_d.event.Rpush(_key, _v)", "Rpush(key, value) carries each ziplist entry in order", false},
	}
	for _, e := range evs {
		var root ast.Node
		b := pat.Binds{}
		if e.fn == "" {
			cc := clause(info, sw, e.typ)
			if cc == nil {
				continue
			}
			root = &ast.BlockStmt{List: cc.Body}
			b["_key"] = keyParam
		} else {
			fn := c.Func(cupPkg, "decode", e.fn)
			if fn == nil {
				continue
			}
			root = fn.Decl.Body
			b["_key"] = fn.Decl.Type.Params.List[0].Names[0]
		}
		ok := true
		last := token.NoPos
		for _, r := range e.reads {
			// the reads must appear in order; bind their result variables
			found := false
			for _, n := range pat.Stmt(r).FindAll(info, root, b) {
				if n.Pos() > last {
					nb := pat.Stmt(r).Match(info, n, b)
					for k, v := range nb {
						b[k] = v
					}
					last = n.Pos()
					found = true
					break
				}
			}
			ok = ok && found
		}
		if ok {
			n, _ := pat.Expr(e.event).Find(info, root, b)
			ok = n != nil && n.Pos() > last
		}
		c.Check("R3.wiring", fmt.Sprintf("decoder/%d-%s", e.typ, typeNames[e.typ]), root.Pos(), ok, e.why)
	}
	// zset: member read first, score second, Zadd(key, score, member)
	for _, z := range []struct {
		typ int64
		fn  string
	}{{3, ""}, {12, "readZiplistZset"}} {
		var root ast.Node
		b := pat.Binds{}
		if z.fn == "" {
			cc := clause(info, sw, z.typ)
			if cc == nil {
				continue
			}
			root = &ast.BlockStmt{List: cc.Body}
			b["_key"] = keyParam
		} else {
			fn := c.Func(cupPkg, "decode", z.fn)
			if fn == nil {
				continue
			}
			root = fn.Decl.Body
			b["_key"] = fn.Decl.Type.Params.List[0].Names[0]
		}
		ok := false
		if z.fn == "" {
			m, mb := pat.Stmt("_m, _err = _d.readString()").Find(info, root, b)
			if m != nil {
				s1, _ := pat.Stmt("_s, _err = _d.readDouble64()").Find(info, root, mb)
				s2, sb := pat.Stmt("_s, _err = _d.readFloat64()").Find(info, root, mb)
				if s1 != nil && s2 != nil && s1.Pos() > m.Pos() && s2.Pos() > m.Pos() {
					n, _ := pat.Expr("_d.event.Zadd(_key, _s, _m)").Find(info, root, sb)
					ok = n != nil
				}
			}
		} else {
			m, mb := pat.Stmt("_m, _err = readZiplistEntry(_buf)").Find(info, root, b)
			if m != nil {
				var sb pat.Binds
				for _, n := range pat.Stmt("_sb, _err2 = readZiplistEntry(_buf)").FindAll(info, root, mb) {
					if n.Pos() > m.Pos() {
						sb = pat.Stmt("_sb, _err2 = readZiplistEntry(_buf)").Match(info, n, mb)
						break
					}
				}
				if sb != nil {
					p, pb := pat.Stmt("_s, _err3 = strconv.ParseFloat(string(_sb), 64)").Find(info, root, sb)
					if p != nil {
						n, _ := pat.Expr("_d.event.Zadd(_key, _s, _m)").Find(info, root, pb)
						ok = n != nil
					}
				}
			}
		}
		c.Check("R3.wiring", fmt.Sprintf("decoder/%d-%s", z.typ, typeNames[z.typ]), root.Pos(), ok, "the member is read first, the score second, and the event is Zadd(key, score, member)")
	}
}

// adaptor checks pkg/rdb/decoder.go: each callback stores its parameters in
// the fields of the same meaning.
func adaptor(c *core.Ctx) {
	pk := c.Pkg(rdbPkg)
	info := pk.TypesInfo
	params := func(fn *core.Fn) []*ast.Ident {
		var ps []*ast.Ident
		for _, f := range fn.Decl.Type.Params.List {
			ps = append(ps, f.Names...)
		}
		return ps
	}
	if fn := c.Func(rdbPkg, "decoder", "Hset"); fn != nil {
		ps := params(fn)
		ok := false
		if len(ps) == 3 {
			b := pat.Binds{"_f": ps[1], "_v": ps[2]}
			a, _ := pat.Stmt("_d.obj = append(_h, &HashElement{Field: _f, Value: _v})").Find(info, fn.Decl.Body, b)
			ok = a != nil
		}
		c.Check("R3.wiring", "adaptor/Hset", fn.Decl.Pos(), ok, "Hset(key, field, value) appends HashElement{Field: field, Value: value} (order preserved)")
	}
	if fn := c.Func(rdbPkg, "decoder", "Zadd"); fn != nil {
		ps := params(fn)
		ok := false
		if len(ps) == 3 {
			b := pat.Binds{"_s": ps[1], "_m": ps[2]}
			a, _ := pat.Stmt("_d.obj = append(_z, &ZSetElement{Member: _m, Score: _s})").Find(info, fn.Decl.Body, b)
			ok = a != nil
		}
		c.Check("R3.wiring", "adaptor/Zadd", fn.Decl.Pos(), ok, "Zadd(key, score, member) appends ZSetElement{Member: member, Score: score}")
	}
	for _, m := range []struct{ name, typ string }{{"Rpush", "List"}, {"Sadd", "Set"}} {
		if fn := c.Func(rdbPkg, "decoder", m.name); fn != nil {
			ps := params(fn)
			ok := false
			if len(ps) == 2 {
				a, _ := pat.Stmt("_d.obj = append(_l, _v)").Find(info, fn.Decl.Body, pat.Binds{"_v": ps[1]})
				ok = a != nil
			}
			c.Check("R3.wiring", "adaptor/"+m.name, fn.Decl.Pos(), ok, m.name+"(key, x) appends x to the "+m.typ+" in call order")
		}
	}
	if fn := c.Func(rdbPkg, "decoder", "Set"); fn != nil {
		ps := params(fn)
		ok := false
		if len(ps) == 3 {
			n, _ := pat.Expr("_d.initObject(String(_v))").Find(info, fn.Decl.Body, pat.Binds{"_v": ps[1]})
			ok = n != nil
		}
		c.Check("R3.wiring", "adaptor/Set", fn.Decl.Pos(), ok, "Set(key, value, expiry) yields String(value)")
	}
	for _, m := range []struct{ name, typ string }{{"StartHash", "Hash"}, {"StartSet", "Set"}, {"StartList", "List"}, {"StartZSet", "ZSet"}} {
		if fn := c.Func(rdbPkg, "decoder", m.name); fn != nil {
			n, _ := pat.Expr("_d.initObject("+m.typ+"(nil))").Find(info, fn.Decl.Body, nil)
			c.Check("R3.wiring", "adaptor/"+m.name, fn.Decl.Pos(), n != nil, m.name+" initialises an empty "+m.typ)
		}
	}
	if fn := c.Func(rdbPkg, "", "DecodeDump"); fn != nil {
		n, b := pat.Stmt("_d = &decoder{}").Find(info, fn.Decl.Body, nil)
		ok := false
		if n != nil {
			ps := params(fn)
			b["_p"] = ps[0]
			n1, _ := pat.Expr("rdb.DecodeDump(_p, 0, nil, 0, _d)").Find(info, fn.Decl.Body, b)
			n2, _ := pat.Stmt("return _d.obj, _d.err").Find(info, fn.Decl.Body, b)
			ok = n1 != nil && n2 != nil
		}
		c.Check("R3.wiring", "adaptor/DecodeDump", fn.Decl.Pos(), ok, "DecodeDump decodes the payload it was given into a fresh adaptor and returns that adaptor's object")
	}
}

// converters checks R5.
func converters(c *core.Ctx) {
	pk := c.Pkg(rdbPkg)
	info := pk.TypesInfo
	for _, m := range []struct{ recv, name, target string }{{"BinEntry", "ObjEntry", "ObjEntry"}, {"ObjEntry", "BinEntry", "BinEntry"}} {
		fn := c.Func(rdbPkg, m.recv, m.name)
		if fn == nil {
			continue
		}
		recv := fn.Decl.Recv.List[0].Names[0]
		var lit *ast.CompositeLit
		core.Inspect(fn.Decl.Body, func(n ast.Node) bool {
			if cl, ok := n.(*ast.CompositeLit); ok && core.NamedTypeName(info.TypeOf(cl)) == m.target {
				lit = cl
			}
			return true
		})
		if lit == nil {
			c.Undecidedf("R5.convert", m.recv+"."+m.name, fn.Decl.Pos(), "no %s literal found", m.target)
			continue
		}
		srcT, _ := pk.Types.Scope().Lookup(m.recv).Type().Underlying().(*types.Struct)
		dstT, _ := pk.Types.Scope().Lookup(m.target).Type().Underlying().(*types.Struct)
		set := map[string]ast.Expr{}
		for _, el := range lit.Elts {
			if kv, ok := el.(*ast.KeyValueExpr); ok {
				if id, ok := kv.Key.(*ast.Ident); ok {
					set[id.Name] = kv.Value
				}
			}
		}
		for i := 0; i < dstT.NumFields(); i++ {
			f := dstT.Field(i).Name()
			if f == "Value" {
				continue
			}
			hasSrc := false
			for j := 0; j < srcT.NumFields(); j++ {
				hasSrc = hasSrc || srcT.Field(j).Name() == f
			}
			if !hasSrc {
				continue
			}
			v, ok := set[f]
			okCopy := ok && pat.Expr("_e."+f).Match(info, v, pat.Binds{"_e": recv}) != nil
			c.Check("R5.convert", m.recv+"."+m.name+"/"+f, lit.Pos(), okCopy, fmt.Sprintf("%s() copies %s unchanged (database, key, type, expiry and chunk bookkeeping survive the conversion)", m.name, f))
		}
	}
}
