package c12

import (
	"fmt"
	"go/ast"
	"go/token"
	"go/types"
	"regexp"
	"strings"

	"rscheck/cfgq"
	"rscheck/core"
	"rscheck/flow"
	"rscheck/grammar"
	"rscheck/pat"
)

func outsideRdb(f *types.Func) bool {
	return f.Pkg() == nil || f.Pkg().Path() != core.Module+"/"+rdbPkg
}

// writeSpec is encodeSpec plus the calls through the objectEncoder interface.
func writeSpec() *grammar.Spec {
	sp := encodeSpec()
	sp.IfacePrims = map[string]string{"encodeType": "TYPE", "encodeValue": "VALUE"}
	sp.StrictLits = true
	sp.ImplicitDefault = true
	return sp
}

// annotatedWrites extracts the write term of fn with every one-argument write
// followed by the role of what is written: `Len(len(o)) Star{Str(elem(o).Field) ...}`.
func annotatedWrites(c *core.Ctx, fn *core.Fn, r *roler) (string, []string) {
	sp := writeSpec()
	sp.ClassifyCtx = func(info *types.Info, call *ast.CallExpr, f *types.Func, stack []*ast.CallExpr) (string, bool) {
		tok, ok := sp.Prims[core.FuncName(f)]
		if !ok || len(call.Args) != 1 {
			return "", false
		}
		s, ok := r.siteFor(call, stack)
		if !ok {
			return tok + "(?no-site)", true
		}
		return tok + "(" + r.role(s, call.Args[0]) + ")", true
	}
	ex := grammar.New(c, sp)
	term := ex.FuncTerm(fn)
	return term, ex.Undecided
}

func plainWrites(c *core.Ctx, fn *core.Fn) (string, []string) {
	ex := grammar.New(c, writeSpec())
	term := ex.FuncTerm(fn)
	return term, ex.Undecided
}

func sameLang(got string, want ...string) (bool, bool, string) {
	l, ok := grammar.Language(got)
	if !ok {
		return false, false, got
	}
	var w []string
	for _, x := range want {
		wl, _ := grammar.Language(x)
		w = append(w, wl...)
	}
	sortStrings(w)
	return strings.Join(l, " || ") == strings.Join(w, " || "), true, strings.Join(l, " || ")
}

// extraPathsOnly: every expected path is among the paths found, and there are
// more. The additional paths run under conditions the term does not carry (a
// fast path for an empty value, a mode flag ...): whether they agree with the
// format depends on those conditions, which is not "located and wrong".
func extraPathsOnly(got string, want ...string) bool {
	l, ok := grammar.Language(got)
	if !ok {
		return false
	}
	have := map[string]bool{}
	for _, p := range l {
		have[p] = true
	}
	n := 0
	for _, x := range want {
		wl, _ := grammar.Language(x)
		for _, p := range wl {
			if !have[p] {
				return false
			}
			n++
		}
	}
	return len(l) > n
}

func sortStrings(s []string) {
	for i := 1; i < len(s); i++ {
		for j := i; j > 0 && s[j] < s[j-1]; j-- {
			s[j], s[j-1] = s[j-1], s[j]
		}
	}
}

func encoderRules(c *core.Ctx) {
	goType := map[string]string{"String": "RdbTypeString", "Hash": "RdbTypeHash", "List": "RdbTypeList", "ZSet": "RdbTypeZSet", "Set": "RdbTypeSet"}
	for tn, cn := range goType {
		if fn := c.Func(rdbPkg, tn, "encodeType"); fn != nil {
			encodeTypeRule(c, fn, tn, cn)
		}
		if fn := c.Func(rdbPkg, tn, "encodeValue"); fn != nil {
			encodeValueRule(c, fn, tn)
		}
	}
	if fn := c.Func(rdbPkg, "", "EncodeDump"); fn != nil {
		term, und := plainWrites(c, fn)
		langRule(c, "R2.grammar", "EncodeDump/order", fn, term, und, "a DUMP payload is type byte, value, then the version+CRC footer", "TYPE VALUE DUMPFOOTER")
		encodeDumpBuffer(c, fn)
	}
	if fn := c.Func(rdbPkg, "Encoder", "EncodeObject"); fn != nil {
		term, und := plainWrites(c, fn)
		langRule(c, "R2.grammar", "EncodeObject/order", fn, term, und, "a key record is [SELECTDB db] [EXPIRETIME_MS ms] type key value, in this order",
			"TYPE Str VALUE", "SELECTDB TYPE Str VALUE", "EXPIRETIME_MS TYPE Str VALUE", "SELECTDB EXPIRETIME_MS TYPE Str VALUE")
		encodeObjectRules(c, fn)
	}
	for _, m := range []struct{ name, tok string }{{"EncodeHeader", "HEADER"}, {"EncodeFooter", "FOOTER"}} {
		if fn := c.Func(rdbPkg, "Encoder", m.name); fn != nil {
			term, und := plainWrites(c, fn)
			langRule(c, "R2.grammar", "Encoder."+m.name, fn, term, und, m.name+" delegates to the linked encoder's "+m.name+" on every successful path and writes nothing else", m.tok)
		}
	}
}

// langRule: the set of successful write sequences of fn is exactly `want`
// (whatever the spelling of the branches, wherever the calls live).
func langRule(c *core.Ctx, rule, key string, fn *core.Fn, term string, und []string, why string, want ...string) {
	same, ok, got := sameLang(term, want...)
	switch {
	case len(und) > 0:
		c.Undecidedf(rule, key, fn.Decl.Pos(), "%s", strings.Join(und, "; "))
	case !ok:
		c.Undecidedf(rule, key, fn.Decl.Pos(), "the write term `%s` is outside what can be expanded to paths", term)
	case !same && extraPathsOnly(term, want...):
		c.Undecidedf(rule, key, fn.Decl.Pos(), "%s; besides the expected paths there are others under conditions that cannot be evaluated: `%s`", why, got)
	default:
		c.Check(rule, key, fn.Decl.Pos(), same, fmt.Sprintf("%s; the successful paths write `%s`, expected `%s` (offending part: see the first difference)", why, got, strings.Join(want, " || ")))
	}
}

// what encodeType writes, when it can be judged: paths made of constant bytes only
var typeByteRe = regexp.MustCompile(`^((U8\(=-?[0-9]+\))?( U8\(=-?[0-9]+\))*( \|\| )?)*$`)

func encodeTypeRule(c *core.Ctx, fn *core.Fn, tn, cn string) {
	key := "encodeType/" + tn
	want, _, ok := constVal(c, rdbPkg, cn)
	if !ok {
		c.Undecidedf("R1.ids", key, fn.Decl.Pos(), "constant %s not found", cn)
		return
	}
	r := newRoler(c, fn, outsideRdb)
	r.nameParams("o", "enc")
	term, und := annotatedWrites(c, fn, r)
	same, ok, got := sameLang(term, fmt.Sprintf("U8(=%d)", want))
	switch {
	case len(und) > 0:
		c.Undecidedf("R1.ids", key, fn.Decl.Pos(), "%s", strings.Join(und, "; "))
	case !ok || unknownRole(got) || !typeByteRe.MatchString(got) || !same && extraPathsOnly(term, fmt.Sprintf("U8(=%d)", want)):
		c.Undecidedf("R1.ids", key, fn.Decl.Pos(), "cannot tell which type byte is written: `%s`", term)
	default:
		c.Check("R1.ids", key, fn.Decl.Pos(), same, fmt.Sprintf("%s.encodeType must emit exactly one type byte %s (=%d) on every successful path, it emits `%s`: a payload tagged with another type is decoded as that type", tn, cn, want, got))
	}
}

var lenShapeRe = regexp.MustCompile(`^(len\([^?]*\)|lin\([^?]*len\([^?]*\)|=-?[0-9]+)$`)

func encodeValueRule(c *core.Ctx, fn *core.Fn, tn string) {
	plainRef := map[string]string{"String": "Str", "Hash": "Len Star{Str Str}", "List": "Len Star{Str}", "ZSet": "Len Star{Str FloatStr}", "Set": "Len Star{Str}"}
	fullRef := map[string]string{"String": "Str(o)", "Hash": "Len(len(o)) Star{Str(elem(o).Field) Str(elem(o).Value)}", "List": "Len(len(o)) Star{Str(elem(o))}",
		"ZSet": "Len(len(o)) Star{Str(elem(o).Member) FloatStr(elem(o).Score)}", "Set": "Len(len(o)) Star{Str(elem(o))}"}
	key := "encodeValue/" + tn
	// the element-order obligation exists for Hash and ZSet whatever the outcome of
	// the grammar obligation (a key that is sometimes missing cannot be paired
	// across the two views of the tree)
	r3key, r3why := "", ""
	switch tn {
	case "Hash":
		r3key, r3why = "encodeValue/Hash/field-then-value", "a hash pair is written field first, value second (the reader takes the first string as the field)"
	case "ZSet":
		r3key, r3why = "encodeValue/ZSet/member-then-score", "a sorted-set element is written member first, score second"
	}
	r3open := func(why string) {
		if r3key != "" {
			c.Undecidedf("R3.wiring", r3key, fn.Decl.Pos(), "%s", why)
		}
	}
	r := newRoler(c, fn, outsideRdb)
	r.nameParams("o", "enc")
	term, und := annotatedWrites(c, fn, r)
	term = looseLoops(term)
	if len(und) > 0 {
		c.Undecidedf("R2.grammar", key, fn.Decl.Pos(), "%s", strings.Join(und, "; "))
		r3open("the write term is undecided")
		return
	}
	plainSame, ok, plainGot := sameLang(stripRoles(term), plainRef[tn])
	if !ok {
		c.Undecidedf("R2.grammar", key, fn.Decl.Pos(), "the write term `%s` is outside what can be expanded to paths", term)
		r3open("the write term is undecided")
		return
	}
	if !plainSame && extraPathsOnly(stripRoles(term), plainRef[tn]) {
		c.Undecidedf("R2.grammar", key, fn.Decl.Pos(), "%s.encodeValue writes `%s`: besides the expected path there are others under conditions that cannot be evaluated", tn, plainGot)
		r3open("additional write paths")
		return
	}
	if !plainSame {
		c.Failf("R2.grammar", key, fn.Decl.Pos(), "%s.encodeValue writes `%s`, the reader of that type consumes `%s`", tn, plainGot, plainRef[tn])
		r3open("the writes are not those of the format (see R2.grammar)")
		return
	}
	// the count written is len(o) and the loop writes exactly the elements of o, in order
	tieOK, tieUnknown := true, false
	for _, a := range annotations(term) {
		switch {
		case unknownRole(a[1]):
			tieUnknown = true
		case a[0] == "Len" && a[1] != "len(o)" && !lenShapeRe.MatchString(a[1]):
			tieUnknown = true // a count that is not an expression over len(...)/constants: cannot be judged
		case a[0] != "Len" && !strings.Contains(a[1], "(o)") && a[1] != "o" && !strings.HasPrefix(a[1], "o[") && !strings.HasPrefix(a[1], "o."):
			tieUnknown = true // not derived from the receiver in a modelled way
		case a[0] == "Len":
			tieOK = tieOK && a[1] == "len(o)"
		case tn == "String":
			tieOK = tieOK && a[1] == "o"
		case tn == "List" || tn == "Set":
			tieOK = tieOK && a[1] == "elem(o)"
		default:
			tieOK = tieOK && strings.HasPrefix(a[1], "elem(o).")
		}
	}
	switch {
	case !tieOK:
		c.Failf("R2.grammar", key, fn.Decl.Pos(), "%s.encodeValue must write the element count len(o) and then exactly the elements of o, in order; it writes `%s` (the reader loops over the count it reads)", tn, term)
		r3open("count and elements are not those of the receiver (see R2.grammar)")
		return
	case tieUnknown:
		c.Undecidedf("R2.grammar", key, fn.Decl.Pos(), "cannot tell what %s.encodeValue writes: `%s`", tn, term)
		r3open("cannot tell what is written")
		return
	}
	c.Okf("R2.grammar", key, fn.Decl.Pos(), "%s.encodeValue writes `%s`, the reader of that type consumes `%s`", tn, term, plainRef[tn])
	// element fields in reader order
	if r3key != "" {
		fullSame, _, fullGot := sameLang(term, fullRef[tn])
		c.Check("R3.wiring", r3key, fn.Decl.Pos(), fullSame, r3why+"; written: `"+fullGot+"`")
	}
}

// encodeDumpBuffer: the bytes returned are the bytes of the buffer the encoder
// (the one every part is written to) was created on.
func encodeDumpBuffer(c *core.Ctx, fn *core.Fn) {
	const rule, key = "R2.grammar", "EncodeDump/buffer"
	r := newRoler(c, fn, outsideRdb)
	r.allocID = true
	r.nameParams("", "obj")
	news := r.e.Calls(r.g, fn.Decl.Body, func(f *types.Func) bool {
		return f.Name() == "NewEncoder" && f.Pkg() != nil && f.Pkg().Path() == cupMod
	})
	if len(news) != 1 || len(news[0].Call.Args) != 1 {
		c.Undecidedf(rule, key, fn.Decl.Pos(), "expected one rdb.NewEncoder call reachable from EncodeDump, found %d", len(news))
		return
	}
	ne := news[0]
	encRole := r.role(ne.Site, ne.Call)
	buf := strings.TrimPrefix(r.role(ne.Site, ne.Call.Args[0]), "&")
	if unknownRole(buf) || unknownRole(encRole) {
		c.Undecidedf(rule, key, fn.Decl.Pos(), "cannot identify the buffer the encoder writes to: %s", buf)
		return
	}
	var why []string
	unknown := false
	// every part goes to that encoder
	parts := r.e.Calls(r.g, fn.Decl.Body, func(f *types.Func) bool {
		switch f.Name() {
		case "encodeType", "encodeValue":
			sig, _ := f.Type().(*types.Signature)
			if sig == nil || sig.Recv() == nil {
				return false
			}
			_, isIface := sig.Recv().Type().Underlying().(*types.Interface)
			return isIface
		case "EncodeDumpFooter":
			return f.Pkg() != nil && f.Pkg().Path() == cupMod
		}
		return false
	})
	for _, p := range parts {
		var x ast.Expr
		if p.Fn.Name() == "EncodeDumpFooter" {
			switch fun := ast.Unparen(p.Call.Fun).(type) {
			case *ast.SelectorExpr:
				x = fun.X
			case *ast.Ident:
				// the method value `enc.EncodeDumpFooter` held in a local
				if cands, ok := r.funcCands(p.Site, fun, 0); ok && len(cands) == 1 {
					x = cands[0].recv
				}
			}
		} else if len(p.Call.Args) == 1 {
			x = p.Call.Args[0]
		}
		got := r.role(p.Site, x)
		switch {
		case unknownRole(got):
			unknown = true
		case got != encRole:
			why = append(why, fmt.Sprintf("%s is written to another encoder (%s)", p.Fn.Name(), got))
		}
	}
	if len(parts) < 3 {
		unknown = true
	}
	// every successful return yields the bytes of that buffer
	rets := 0
	for _, rp := range r.g.Points(func(n ast.Node) bool { _, ok := n.(*ast.ReturnStmt); return ok }) {
		ret := rp.Node().(*ast.ReturnStmt)
		if cfgq.ClassifyReturn(r.g.Info, r.g.Body, ret) == cfgq.RetErr {
			continue
		}
		s := flow.Site{G: r.g, At: rp}
		var got string
		switch {
		case len(ret.Results) == 2:
			got = r.role(s, ret.Results[0])
		case len(ret.Results) == 0 && fn.Decl.Type.Results != nil && len(fn.Decl.Type.Results.List) > 0 && len(fn.Decl.Type.Results.List[0].Names) > 0:
			got = r.role(s, fn.Decl.Type.Results.List[0].Names[0])
		default:
			got = "?return-form"
		}
		if got == "nil" {
			// `return nil, err` with err possibly nil is not a successful payload; ClassifyReturn says "maybe"
			if cfgq.ClassifyReturn(r.g.Info, r.g.Body, ret) != cfgq.RetNilErr {
				continue
			}
		}
		rets++
		switch {
		case unknownRole(got):
			unknown = true
		case got != buf+".Bytes()" && !strings.HasSuffix(got, ".Bytes()") && got != "nil" && !strings.HasPrefix(got, "="):
			unknown = true // produced in a way that is not modelled
		case got != buf+".Bytes()":
			why = append(why, fmt.Sprintf("a successful return yields %s, not the bytes of the encoder's buffer %s", got, buf))
		}
	}
	if rets == 0 {
		unknown = true
	}
	switch {
	case len(why) > 0:
		c.Failf(rule, key, fn.Decl.Pos(), "EncodeDump returns the buffer its encoder wrote to; %s", strings.Join(why, "; "))
	case unknown:
		c.Undecidedf(rule, key, fn.Decl.Pos(), "cannot follow the encoder or the returned bytes of EncodeDump")
	default:
		c.Okf(rule, key, fn.Decl.Pos(), "EncodeDump returns the buffer its encoder wrote to")
	}
}

var _ = pat.Same
var _ token.Pos
