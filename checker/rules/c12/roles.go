package c12

import (
	"fmt"
	"go/ast"
	"go/constant"
	"go/token"
	"go/types"
	"regexp"
	"sort"
	"strconv"
	"strings"

	"rscheck/cfgq"
	"rscheck/core"
	"rscheck/flow"
	"rscheck/lin"
	"rscheck/pat"
)

// A roler names what a value IS, in the vocabulary of one anchored (root)
// function, independently of how the code spells it: the origins of an
// expression are followed one reaching-definition / parameter / helper-return
// step at a time (flow.Step, flow.Follow), every intermediate expression is
// looked at where it is evaluated, and the result is a canonical string:
//
//	o, key, field ...        a parameter/receiver of the root (names chosen by the rule)
//	=5, ="x", nil, zero      a constant, nil, the zero value of a declared variable
//	X.f                      field f of X
//	len(X), append(X,Y)      builtins
//	key(X)                   the index of an in-order traversal of slice X
//	                         (`for i := range X`, `for i := 0; i < len(X); i++` in every lin spelling)
//	elem(X)                  the element of that traversal (`for _, e := range X`, `X[i]`)
//	T(X)                     conversion to a named composite type (others are transparent)
//	T{f:X,...}, &T{...}      composite literals by field
//	X.(T)                    type assertion / type-switch binding / comma-ok form
//	lin(2*a+b+1), (a/=2)     integer arithmetic in linear normal form / other operators
//	recv.M(args)#k           result k of a call that is a leaf (not a followable module helper)
//	var@pos                  the identity of a variable whose address is taken
//	a|b                      several origins
//	?...                     not resolvable: the rule must answer UNDECIDED, never VIOLATION
//
// Temporaries, helper extraction (parameters bound to arguments, results
// followed through return statements, named results), guard clauses, tuple
// assignment, `x op= y` versus a fresh local and the form of a loop therefore
// do not change a role.
type roler struct {
	c     *core.Ctx
	e     *flow.Engine
	root  *core.Fn
	g     *cfgq.Graph
	names map[types.Object]string
	sites map[*ast.CallExpr][]flow.Site
	// leafCall lets a rule name a call result itself ("", false: default).
	leafCall func(s flow.Site, call *ast.CallExpr, f *types.Func, idx int, d int) (string, bool)
	allocID  bool // allocations (&T{}, new(T)) carry their position: identity matters
	// role strings that were produced by a conversion to a named type (to tell
	// `T(x)` from a call rendered the same way)
	convRoles map[string]bool
	// roles of structs that are built once and afterwards only read (also through
	// pointers lent to read-only helpers): a field may be selected through `&`
	frozen map[string]bool
}

func newRoler(c *core.Ctx, root *core.Fn, opaque func(*types.Func) bool) *roler {
	e := flow.New(c.Program)
	e.MaxDepth = 5
	e.Opaque = opaque
	r := &roler{c: c, e: e, root: root, g: cfgq.Of(c.Program, root), names: map[types.Object]string{}, sites: map[*ast.CallExpr][]flow.Site{}}
	// every call reachable from the root with the frames through which it is
	// reached; calls through function values (a method value in a local, an entry
	// of a package-level table of functions) are entered for each possible target
	var visit func(s flow.Site, n ast.Node)
	entered := map[string]bool{}
	visit = func(s flow.Site, n ast.Node) {
		call, ok := n.(*ast.CallExpr)
		if !ok {
			return
		}
		r.sites[call] = append(r.sites[call], s)
		if core.CalleeFunc(s.G.Info, call) != nil {
			return
		}
		id, ok := ast.Unparen(call.Fun).(*ast.Ident)
		if !ok {
			return
		}
		cands, ok := r.funcCands(s, id, 0)
		if !ok {
			return
		}
		for _, cd := range cands {
			fn := c.FnOf(cd.f)
			if fn == nil || fn.Decl == nil || fn.Decl.Body == nil {
				continue
			}
			key := siteKey(call, s.Up) + "->" + cd.f.FullName()
			if entered[key] {
				continue
			}
			entered[key] = true
			if hs, ok := e.EnterFunc(s, call, fn, cd.methodExpr, cd.recv); ok {
				e.WalkFrom(hs, fn.Decl.Body, visit)
			}
		}
	}
	e.Walk(r.g, root.Decl.Body, visit)
	return r
}

// nameParams names the receiver and the parameters of the root function.
func (r *roler) nameParams(recv string, params ...string) {
	info := r.root.Pkg.TypesInfo
	if r.root.Decl.Recv != nil && len(r.root.Decl.Recv.List) == 1 && len(r.root.Decl.Recv.List[0].Names) == 1 && recv != "" {
		if o := info.Defs[r.root.Decl.Recv.List[0].Names[0]]; o != nil {
			r.names[o] = recv
		}
	}
	i := 0
	for _, fl := range r.root.Decl.Type.Params.List {
		for _, nm := range fl.Names {
			if i < len(params) && params[i] != "" {
				if o := info.Defs[nm]; o != nil {
					r.names[o] = params[i]
				}
			}
			i++
		}
	}
}

// stackKey identifies one dynamic instance of a call expression: the call and
// the chain of helper calls through which it was reached (innermost first).
func siteKey(call *ast.CallExpr, up []flow.Frame) string {
	var b strings.Builder
	fmt.Fprintf(&b, "%d", call.Lparen)
	for _, f := range up {
		fmt.Fprintf(&b, "<%d", f.Call.Lparen)
	}
	return b.String()
}

func stackKey(call *ast.CallExpr, stack []*ast.CallExpr) string {
	var b strings.Builder
	fmt.Fprintf(&b, "%d", call.Lparen)
	for i := len(stack) - 1; i >= 0; i-- {
		fmt.Fprintf(&b, "<%d", stack[i].Lparen)
	}
	return b.String()
}

// siteFor finds the flow site of a call reached through the given stack of
// inlined helper calls (outermost first, as package grammar reports it).
func (r *roler) siteFor(call *ast.CallExpr, stack []*ast.CallExpr) (flow.Site, bool) {
	want := stackKey(call, stack)
	for _, s := range r.sites[call] {
		if siteKey(call, s.Up) == want {
			return s, true
		}
	}
	return flow.Site{}, false
}

func unknownRole(s string) bool { return strings.Contains(s, "?") }

func (r *roler) role(s flow.Site, x ast.Expr) string { return r.roleD(s, x, 0) }

func union(parts []string) string {
	set := map[string]bool{}
	for _, p := range parts {
		for _, q := range splitTop(p) {
			set[q] = true
		}
	}
	var out []string
	for p := range set {
		out = append(out, p)
	}
	sort.Strings(out)
	return strings.Join(out, "|")
}

// splitTop splits a role at the `|` that are not nested in brackets.
func splitTop(s string) []string {
	var out []string
	depth, st := 0, 0
	for i := 0; i < len(s); i++ {
		switch s[i] {
		case '(', '[', '{':
			depth++
		case ')', ']', '}':
			depth--
		case '|':
			if depth == 0 {
				out = append(out, s[st:i])
				st = i + 1
			}
		}
	}
	return append(out, s[st:])
}

func typeName(t types.Type) string {
	return types.TypeString(t, func(p *types.Package) string { return "" })
}

func (r *roler) roleD(s flow.Site, x ast.Expr, d int) string {
	if x == nil {
		return "?nil-expr"
	}
	if d > 24 {
		return "?deep"
	}
	info := s.G.Info
	x = ast.Unparen(x)
	if tv, ok := info.Types[x]; ok && tv.Value != nil {
		return "=" + tv.Value.ExactString()
	}
	if core.IsNil(info, x) {
		return "nil"
	}
	switch v := x.(type) {
	case *ast.Ident:
		return r.identRole(s, v, d)
	case *ast.SelectorExpr:
		if id, ok := ast.Unparen(v.X).(*ast.Ident); ok {
			if pn, isPkg := info.Uses[id].(*types.PkgName); isPkg {
				return pn.Imported().Path() + "." + v.Sel.Name
			}
		}
		if sel, ok := info.Selections[v]; ok && sel.Kind() == types.FieldVal {
			base := r.roleD(s, v.X, d+1)
			if r.frozen[base] {
				if val, ok := projectField(strings.TrimPrefix(base, "&"), v.Sel.Name, sel.Obj().Type()); ok {
					return val
				}
			}
			if val, ok := projectField(base, v.Sel.Name, sel.Obj().Type()); ok {
				return val
			}
			return base + "." + v.Sel.Name
		}
		return "?method-value"
	case *ast.StarExpr:
		return "*" + r.roleD(s, v.X, d+1)
	case *ast.UnaryExpr:
		if v.Op == token.AND {
			if lit, ok := ast.Unparen(v.X).(*ast.CompositeLit); ok {
				return "&" + r.litRole(s, lit, d, true)
			}
			if id, ok := ast.Unparen(v.X).(*ast.Ident); ok {
				if m, ok := r.addressedStruct(s, id, d); ok {
					return m
				}
			}
			return "&" + r.roleD(s, v.X, d+1)
		}
		if v.Op == token.SUB || v.Op == token.ADD {
			return r.arith(s, v, d)
		}
		return v.Op.String() + r.roleD(s, v.X, d+1)
	case *ast.IndexExpr:
		if er, ok := r.slotRole(s, v, d); ok {
			return er
		}
		rx, ri := r.roleD(s, v.X, d+1), r.roleD(s, v.Index, d+1)
		if ri == "key("+rx+")" {
			return "elem(" + rx + ")"
		}
		if strings.HasPrefix(ri, "=") {
			// a constant key into a package-level table that is never written: the entry
			if lit := r.tableLiteral(info, v.X); lit != nil {
				_, isMap := info.TypeOf(lit).Underlying().(*types.Map)
				pos := 0
				for _, el := range lit.Elts {
					if kv, ok := el.(*ast.KeyValueExpr); ok {
						if r.roleD(s, kv.Key, d+1) == ri {
							return r.roleD(s, kv.Value, d+1)
						}
						continue
					}
					if !isMap && ri == "="+strconv.Itoa(pos) {
						return r.roleD(s, el, d+1)
					}
					pos++
				}
				if isMap {
					return zeroRole(info.TypeOf(v))
				}
			}
		}
		return rx + "[" + ri + "]"
	case *ast.SliceExpr:
		out := r.roleD(s, v.X, d+1) + "["
		if v.Low != nil {
			out += r.roleD(s, v.Low, d+1)
		}
		out += ":"
		if v.High != nil {
			out += r.roleD(s, v.High, d+1)
		}
		return out + "]"
	case *ast.TypeAssertExpr:
		if v.Type == nil {
			return "?type-switch-guard"
		}
		return r.roleD(s, v.X, d+1) + ".(" + typeName(info.TypeOf(v.Type)) + ")"
	case *ast.CompositeLit:
		return r.litRole(s, v, d, false)
	case *ast.BinaryExpr:
		return r.arith(s, v, d)
	case *ast.CallExpr:
		if tv, ok := info.Types[v.Fun]; ok && tv.IsType() && len(v.Args) == 1 {
			inner := r.roleD(s, v.Args[0], d+1)
			// a conversion does not change the value, only the static type: an inner
			// conversion under another one is irrelevant (`[]byte(listElement(v))` is v)
			if r.convRoles[inner] {
				inner = inner[strings.IndexByte(inner, '(')+1 : len(inner)-1]
			}
			// a struct (pointer) converted between types with the same fields is that
			// struct under the target's name: (*HashElement)(&hashElement{...})
			tt := tv.Type
			ptr := false
			if pt, ok := tt.Underlying().(*types.Pointer); ok {
				if _, named := tt.(*types.Named); !named {
					tt, ptr = pt.Elem(), true
				}
			}
			if _, isStruct := tt.Underlying().(*types.Struct); isStruct {
				body := inner
				if ptr {
					body = strings.TrimPrefix(inner, "&")
				}
				if open := strings.IndexByte(body, '{'); open > 0 && (ptr == strings.HasPrefix(inner, "&")) && !strings.ContainsAny(body[:open], "(|?[ .") {
					out := typeName(tt) + body[open:]
					if ptr {
						out = "&" + out
					}
					return out
				}
			}
			if n, ok := tv.Type.(*types.Named); ok {
				if _, basic := n.Underlying().(*types.Basic); !basic {
					out := n.Obj().Name() + "(" + inner + ")"
					if r.convRoles == nil {
						r.convRoles = map[string]bool{}
					}
					r.convRoles[out] = true
					return out
				}
			}
			return inner
		}
		if b, ok := core.Callee(info, v).(*types.Builtin); ok {
			var as []string
			for i, a := range v.Args {
				if i == 0 && (b.Name() == "make" || b.Name() == "new") {
					as = append(as, typeName(info.TypeOf(a)))
					continue
				}
				as = append(as, r.roleD(s, a, d+1))
			}
			out := b.Name() + "(" + strings.Join(as, ",") + ")"
			if b.Name() == "new" && r.allocID {
				out += "@" + strconv.Itoa(int(v.Pos()))
			}
			return out
		}
		return r.callRole(s, v, 0, d)
	case *ast.FuncLit:
		return "?func-literal"
	}
	return fmt.Sprintf("?%T", x)
}

func (r *roler) litRole(s flow.Site, lit *ast.CompositeLit, d int, addr bool) string {
	info := s.G.Info
	t := info.TypeOf(lit)
	if st, ok := t.Underlying().(*types.Struct); ok {
		out := renderStruct(t, r.litFields(s, lit, st, d))
		if addr && r.allocID {
			out += "@" + strconv.Itoa(int(lit.Pos()))
		}
		return out
	}
	var parts []string
	for _, el := range lit.Elts {
		if kv, ok := el.(*ast.KeyValueExpr); ok {
			parts = append(parts, r.roleD(s, kv.Key, d+1)+":"+r.roleD(s, kv.Value, d+1))
		} else {
			parts = append(parts, r.roleD(s, el, d+1))
		}
	}
	out := typeName(t) + "{" + strings.Join(parts, ",") + "}"
	if addr && r.allocID {
		out += "@" + strconv.Itoa(int(lit.Pos()))
	}
	return out
}

func (r *roler) litFields(s flow.Site, lit *ast.CompositeLit, st *types.Struct, d int) map[string]string {
	vals := map[string]string{}
	for i, el := range lit.Elts {
		if kv, ok := el.(*ast.KeyValueExpr); ok {
			if id, ok := kv.Key.(*ast.Ident); ok {
				vals[id.Name] = r.roleD(s, kv.Value, d+1)
			}
			continue
		}
		if i < st.NumFields() {
			vals[st.Field(i).Name()] = r.roleD(s, el, d+1)
		}
	}
	return vals
}

// renderStruct renders a struct value by field, in declaration order.
func renderStruct(t types.Type, vals map[string]string) string {
	st := t.Underlying().(*types.Struct)
	var parts []string
	for i := 0; i < st.NumFields(); i++ {
		if v, ok := vals[st.Field(i).Name()]; ok {
			parts = append(parts, st.Field(i).Name()+":"+v)
		}
	}
	return typeName(t) + "{" + strings.Join(parts, ",") + "}"
}

// mutated: a variable holding a composite value that is also written through
// (`v.f = x`, `v[i] = x`). For a struct (or pointer to struct) with exactly one
// definition that is a literal / new(T) / the zero value, the field stores are
// merged into the value: `e := new(T); e.A = a` is `&T{A:a}`. Element stores
// into arrays, slices and maps are not modelled: unknown.
func (r *roler) mutated(s flow.Site, id *ast.Ident, st flow.StepResult, d int) (string, bool) {
	info := s.G.Info
	obj := st.Obj
	if st.Entry {
		return "", false // a parameter/receiver written through is still that parameter
	}
	var fieldStores []*ast.AssignStmt
	var fieldIdx []int
	other := false
	core.Inspect(s.G.Body, func(n ast.Node) bool {
		switch x := n.(type) {
		case *ast.AssignStmt:
			for i, l := range x.Lhs {
				switch lv := ast.Unparen(l).(type) {
				case *ast.SelectorExpr:
					if b, ok := ast.Unparen(lv.X).(*ast.Ident); ok && core.ObjOf(info, b) == obj {
						_, tupleCall := ast.Unparen(x.Rhs[0]).(*ast.CallExpr)
						if x.Tok == token.ASSIGN && (len(x.Lhs) == len(x.Rhs) || len(x.Rhs) == 1 && tupleCall) {
							fieldStores = append(fieldStores, x)
							fieldIdx = append(fieldIdx, i)
						} else {
							other = true
						}
					}
				case *ast.IndexExpr:
					if b, ok := ast.Unparen(lv.X).(*ast.Ident); ok && core.ObjOf(info, b) == obj {
						other = true
					}
				case *ast.StarExpr:
					if b, ok := ast.Unparen(lv.X).(*ast.Ident); ok && core.ObjOf(info, b) == obj {
						other = true
					}
				}
			}
		case *ast.IncDecStmt:
			switch lv := ast.Unparen(x.X).(type) {
			case *ast.SelectorExpr:
				if b, ok := ast.Unparen(lv.X).(*ast.Ident); ok && core.ObjOf(info, b) == obj {
					other = true
				}
			case *ast.IndexExpr:
				if b, ok := ast.Unparen(lv.X).(*ast.Ident); ok && core.ObjOf(info, b) == obj {
					other = true
				}
			}
		}
		return true
	})
	if other {
		return "?written-through:" + id.Name, true
	}
	if len(fieldStores) == 0 {
		return "", false
	}
	if st.Entry || len(st.Defs) != 1 {
		return "?field-stores-on-a-merged-value:" + id.Name, true
	}
	return r.mergeFields(s, id, obj, st.Defs[0].Zero, st.Defs[0].RHS, st.Defs[0].Site, fieldStores, fieldIdx, false, d), true
}

// mergeFields renders the struct value a variable holds: its single
// definition (zero value, literal, &literal, new(T)) with the plain field
// stores `v.f = x` merged in.
func (r *roler) mergeFields(s flow.Site, id *ast.Ident, obj types.Object, zero bool, rhs ast.Expr, defSite flow.Site, fieldStores []*ast.AssignStmt, fieldIdx []int, addrOfVar bool, d int) string {
	info := s.G.Info
	var t types.Type
	addr := addrOfVar
	vals := map[string]string{}
	pos := token.NoPos
	switch {
	case zero:
		t = obj.Type()
		pos = obj.Pos()
	case rhs != nil:
		x := ast.Unparen(rhs)
		if u, ok := x.(*ast.UnaryExpr); ok && u.Op == token.AND {
			addr = true
			x = ast.Unparen(u.X)
		}
		switch v := x.(type) {
		case *ast.CompositeLit:
			t = info.TypeOf(v)
			pos = v.Pos()
			if stt, ok := t.Underlying().(*types.Struct); ok {
				vals = r.litFields(defSite, v, stt, d)
			}
		case *ast.CallExpr:
			if b, ok := core.Callee(info, v).(*types.Builtin); ok && b.Name() == "new" && len(v.Args) == 1 {
				t = info.TypeOf(v.Args[0])
				addr = true
				pos = v.Pos()
			}
		}
	}
	if t == nil {
		return "?field-stores:" + id.Name
	}
	if _, ok := t.Underlying().(*types.Struct); !ok {
		return "?field-stores:" + id.Name
	}
	for k, as := range fieldStores {
		sel := ast.Unparen(as.Lhs[fieldIdx[k]]).(*ast.SelectorExpr)
		pt, ok := s.G.Find(as)
		if !ok {
			return "?field-stores:" + id.Name
		}
		if _, had := vals[sel.Sel.Name]; had {
			vals[sel.Sel.Name] = "?set-more-than-once"
			continue
		}
		at := flow.Site{G: s.G, At: pt, Up: s.Up}
		if len(as.Lhs) != len(as.Rhs) {
			vals[sel.Sel.Name] = r.callRole(at, ast.Unparen(as.Rhs[0]).(*ast.CallExpr), fieldIdx[k], d+1)
			continue
		}
		vals[sel.Sel.Name] = r.roleD(at, as.Rhs[fieldIdx[k]], d+1)
	}
	out := renderStruct(t, vals)
	if addr {
		out = "&" + out
		if r.allocID {
			out += "@" + strconv.Itoa(int(pos))
		}
	}
	return out
}

// addressedStruct: `&v` where v is a struct variable declared once (zero value
// or literal), filled by plain field stores only, and whose address is taken
// only here: the pointer to that struct value.
func (r *roler) addressedStruct(s flow.Site, id *ast.Ident, d int) (string, bool) {
	info := s.G.Info
	obj := core.ObjOf(info, id)
	v, ok := obj.(*types.Var)
	if !ok || v.IsField() || v.Parent() == nil || v.Pkg() == nil || v.Parent() == v.Pkg().Scope() {
		return "", false
	}
	if _, isStruct := v.Type().Underlying().(*types.Struct); !isStruct {
		return "", false
	}
	var fieldStores []*ast.AssignStmt
	var fieldIdx []int
	var declRHS ast.Expr
	var declNode ast.Node
	decls, addrs, bad := 0, 0, false
	lent := 0
	isV := func(x ast.Expr) bool {
		b, ok := ast.Unparen(x).(*ast.Ident)
		return ok && core.ObjOf(info, b) == obj
	}
	ast.Inspect(s.G.Body, func(n ast.Node) bool {
		switch x := n.(type) {
		case *ast.FuncLit:
			if core.Mentions(info, x, obj) {
				bad = true
			}
			return false
		case *ast.ValueSpec:
			for i, nm := range x.Names {
				if info.Defs[nm] == obj {
					decls++
					declNode = x
					if len(x.Values) == len(x.Names) {
						declRHS = x.Values[i]
					} else if len(x.Values) != 0 {
						bad = true
					}
				}
			}
		case *ast.AssignStmt:
			for i, l := range x.Lhs {
				if isV(l) {
					decls++
					declNode = x
					if x.Tok == token.DEFINE && len(x.Lhs) == len(x.Rhs) {
						declRHS = x.Rhs[i]
					} else {
						bad = true
					}
				}
				switch lv := ast.Unparen(l).(type) {
				case *ast.SelectorExpr:
					if isV(lv.X) {
						if x.Tok == token.ASSIGN && len(x.Lhs) == len(x.Rhs) {
							fieldStores = append(fieldStores, x)
							fieldIdx = append(fieldIdx, i)
						} else {
							bad = true
						}
					}
				case *ast.IndexExpr, *ast.StarExpr:
				}
			}
		case *ast.IncDecStmt:
			if sel, ok := ast.Unparen(x.X).(*ast.SelectorExpr); ok && isV(sel.X) {
				bad = true
			}
		case *ast.UnaryExpr:
			if x.Op == token.AND && isV(x.X) {
				addrs++
			}
		case *ast.CallExpr:
			// a method with pointer receiver called on v takes its address too
			if sel, ok := ast.Unparen(x.Fun).(*ast.SelectorExpr); ok && isV(sel.X) {
				if sl, ok := info.Selections[sel]; ok && sl.Kind() == types.MethodVal {
					bad = true
				}
			}
			// `&v` handed to a module function that (transitively) writes no field of
			// v's type only lends the value for reading
			for _, a := range x.Args {
				if u, ok := ast.Unparen(a).(*ast.UnaryExpr); ok && u.Op == token.AND && isV(u.X) {
					if f := core.CalleeFunc(info, x); f != nil && f.Pkg() != nil && strings.HasPrefix(f.Pkg().Path(), core.Module) && !r.writesFieldsOf(f, v.Type()) {
						lent++
					}
				}
			}
		}
		return true
	})
	frozen := false
	if !bad && decls == 1 && declNode != nil && addrs > 1 && lent == addrs {
		// only ever lent for reading: the value is what it was built as, wherever it is looked at
		frozen = true
		addrs = 1
	}
	if bad || decls != 1 || addrs != 1 || declNode == nil {
		return "", false
	}
	if declRHS != nil {
		if _, isLit := ast.Unparen(declRHS).(*ast.CompositeLit); !isLit {
			return "", false
		}
	}
	pt, ok := s.G.Find(declNode)
	if !ok {
		return "", false
	}
	ds := flow.Site{G: s.G, At: pt, Up: s.Up}
	out := r.mergeFields(s, id, obj, declRHS == nil, declRHS, ds, fieldStores, fieldIdx, true, d)
	if frozen || lent == 1 && len(fieldStores) == 0 {
		if r.frozen == nil {
			r.frozen = map[string]bool{}
		}
		r.frozen[out] = true
	}
	return out, true
}

// writesFieldsOf: f may (transitively) assign a field of struct type t.
func (r *roler) writesFieldsOf(f *types.Func, t types.Type) bool {
	st, ok := t.Underlying().(*types.Struct)
	if !ok {
		return true
	}
	w := r.e.Writes(f)
	for i := 0; i < st.NumFields(); i++ {
		if w[st.Field(i)] {
			return true
		}
	}
	return false
}

// slotRole: `a[k]` with a constant k, where a is a local array (or slice made
// with a constant length) that is only ever written slot by slot at constant
// indices (`a[0] = x`, `a[1], err = f()`) and never handed out: the slot is what
// was stored there. The store must not sit in a loop that the read is outside
// of... both simply have to be straight-line slots: any non-constant index
// store, slicing, address or passing of a makes it unknown.
func (r *roler) slotRole(s flow.Site, ix *ast.IndexExpr, d int) (string, bool) {
	info := s.G.Info
	base, ok := ast.Unparen(ix.X).(*ast.Ident)
	if !ok {
		return "", false
	}
	k, ok := core.IntConst(info, ix.Index)
	if !ok {
		return "", false
	}
	obj, ok := core.ObjOf(info, base).(*types.Var)
	if !ok || obj.IsField() || obj.Pkg() == nil || obj.Parent() == nil || obj.Parent() == obj.Pkg().Scope() {
		return "", false
	}
	if _, isArr := obj.Type().Underlying().(*types.Array); !isArr {
		return "", false
	}
	isV := func(x ast.Expr) bool {
		b, ok := ast.Unparen(x).(*ast.Ident)
		return ok && core.ObjOf(info, b) == obj
	}
	type slotStore struct {
		as  *ast.AssignStmt
		idx int
	}
	var stores []slotStore
	bad := false
	reads := map[*ast.IndexExpr]bool{}
	ast.Inspect(s.G.Body, func(n ast.Node) bool {
		switch x := n.(type) {
		case *ast.FuncLit:
			if core.Mentions(info, x, obj) {
				bad = true
			}
			return false
		case *ast.AssignStmt:
			for i, l := range x.Lhs {
				if isV(l) && x.Tok != token.DEFINE {
					bad = true
				}
				if li, ok := ast.Unparen(l).(*ast.IndexExpr); ok && isV(li.X) {
					reads[li] = true // not a read
					kk, isC := core.IntConst(info, li.Index)
					if !isC || x.Tok != token.ASSIGN {
						bad = true
						continue
					}
					if kk == k {
						stores = append(stores, slotStore{x, i})
					}
				}
			}
		case *ast.IndexExpr:
			if isV(x.X) {
				if _, isC := core.IntConst(info, x.Index); !isC {
					bad = true
				}
				reads[x] = true
			}
		case *ast.Ident:
			// any other mention (passing a, slicing it, taking its address, ranging over it)
		}
		return !bad
	})
	if bad {
		return "", false
	}
	// every mention of a must be one of the index expressions seen
	mentions, indexed := 0, 0
	ast.Inspect(s.G.Body, func(n ast.Node) bool {
		switch x := n.(type) {
		case *ast.IndexExpr:
			if isV(x.X) {
				indexed++
			}
		case *ast.Ident:
			if info.Uses[x] == obj {
				mentions++
			}
		}
		return true
	})
	if mentions != indexed || len(stores) != 1 {
		return "", false
	}
	st := stores[0]
	pt, ok := s.G.Find(st.as)
	if !ok {
		return "", false
	}
	at := flow.Site{G: s.G, At: pt, Up: s.Up}
	// the store must come before the read on every path (same iteration)
	if use := s.At.Node(); use != nil {
		target := st.as
		if dom, _ := s.G.Dominated(s.At, func(n ast.Node) bool { return n == ast.Node(target) }); !dom {
			return "", false
		}
	}
	if len(st.as.Lhs) == len(st.as.Rhs) {
		return r.roleD(at, st.as.Rhs[st.idx], d+1), true
	}
	if call, ok := ast.Unparen(st.as.Rhs[0]).(*ast.CallExpr); ok && len(st.as.Rhs) == 1 {
		return r.callRole(at, call, st.idx, d+1), true
	}
	return "", false
}

// projectField selects field f from a struct role `T{a:X,b:Y}` / `&T{...}`
// (a field that was not set is the zero value of its type).
func projectField(base, f string, ft types.Type) (string, bool) {
	if strings.HasPrefix(base, "&") {
		return "", false // a pointer: the pointee may be written elsewhere
	}
	b := base
	open := strings.IndexByte(b, '{')
	if open <= 0 || strings.ContainsAny(b[:open], "(|?[ ") {
		return "", false
	}
	// the matching close brace must end the role (an optional @pos may follow)
	depth, end := 0, -1
	for i := open; i < len(b); i++ {
		switch b[i] {
		case '{', '(', '[':
			depth++
		case '}', ')', ']':
			depth--
			if depth == 0 && end < 0 {
				end = i
			}
		}
	}
	if end < 0 {
		return "", false
	}
	if b[end+1:] != "" {
		return "", false // `@pos`: an object with identity (its address escapes)
	}
	inner := b[open+1 : end]
	depth = 0
	st := 0
	var parts []string
	for i := 0; i < len(inner); i++ {
		switch inner[i] {
		case '{', '(', '[':
			depth++
		case '}', ')', ']':
			depth--
		case ',':
			if depth == 0 {
				parts = append(parts, inner[st:i])
				st = i + 1
			}
		}
	}
	if st < len(inner) {
		parts = append(parts, inner[st:])
	}
	for _, p := range parts {
		if strings.HasPrefix(p, f+":") {
			return p[len(f)+1:], true
		}
	}
	return zeroRole(ft), true
}

// outParam: a variable declared without a value whose address is only ever
// passed to module helpers that can be followed (`var x T; if err := f(&x);
// err != nil {...}; use(x)`) holds what those helpers store through the
// pointer (`*p = v`). By the usual convention the caller looks at x only after
// the helper reported success, so the zero value it was declared with is not
// an origin.
func (r *roler) outParam(s flow.Site, id *ast.Ident, obj types.Object, d int) (string, bool) {
	info := s.G.Info
	isV := func(x ast.Expr) bool {
		b, ok := ast.Unparen(x).(*ast.Ident)
		return ok && core.ObjOf(info, b) == obj
	}
	var calls []*ast.CallExpr
	var argIdx []int
	bad := false
	addrs := 0
	ast.Inspect(s.G.Body, func(n ast.Node) bool {
		switch x := n.(type) {
		case *ast.FuncLit:
			if core.Mentions(info, x, obj) {
				bad = true
			}
			return false
		case *ast.CallExpr:
			for i, a := range x.Args {
				if u, ok := ast.Unparen(a).(*ast.UnaryExpr); ok && u.Op == token.AND && isV(u.X) {
					calls = append(calls, x)
					argIdx = append(argIdx, i)
				}
			}
		case *ast.UnaryExpr:
			if x.Op == token.AND && isV(x.X) {
				addrs++
			}
		case *ast.AssignStmt:
			for _, l := range x.Lhs {
				if isV(l) && x.Tok != token.DEFINE {
					bad = true // also assigned directly
				}
			}
		case *ast.IncDecStmt:
			if isV(x.X) {
				bad = true
			}
		}
		return !bad
	})
	if bad || len(calls) == 0 || addrs != len(calls) {
		return "", false
	}
	var parts []string
	for k, call := range calls {
		pt, ok := s.G.Find(call)
		if !ok {
			return "", false
		}
		hs, ok := r.e.Enter(flow.Site{G: s.G, At: pt, Up: s.Up}, call)
		if !ok || len(hs.Up) == 0 {
			return "", false
		}
		// the parameter bound to &v
		var pobj types.Object
		for po, arg := range hs.Up[0].Bind {
			if arg == call.Args[argIdx[k]] {
				pobj = po
			}
		}
		if pobj == nil {
			return "", false
		}
		hi := hs.G.Info
		isP := func(x ast.Expr) bool {
			b, ok := ast.Unparen(x).(*ast.Ident)
			return ok && core.ObjOf(hi, b) == pobj
		}
		stores, uses := 0, 0
		ast.Inspect(hs.G.Body, func(n ast.Node) bool {
			switch x := n.(type) {
			case *ast.FuncLit:
				if core.Mentions(hi, x, pobj) {
					bad = true
				}
				return false
			case *ast.Ident:
				if core.ObjOf(hi, x) == pobj && hi.Defs[x] == nil {
					uses++
				}
			case *ast.AssignStmt:
				for i, l := range x.Lhs {
					st, ok := ast.Unparen(l).(*ast.StarExpr)
					if !ok || !isP(st.X) {
						if isP(l) {
							bad = true
						}
						continue
					}
					hp, ok := hs.G.Find(x)
					if !ok || x.Tok != token.ASSIGN {
						bad = true
						continue
					}
					at := flow.Site{G: hs.G, At: hp, Up: hs.Up}
					stores++
					switch {
					case len(x.Lhs) == len(x.Rhs):
						parts = append(parts, r.roleD(at, x.Rhs[i], d+1))
					case len(x.Rhs) == 1:
						if c2, ok := ast.Unparen(x.Rhs[0]).(*ast.CallExpr); ok {
							parts = append(parts, r.callRole(at, c2, i, d+1))
						} else {
							bad = true
						}
					}
				}
			}
			return !bad
		})
		if bad || stores == 0 || uses != stores {
			return "", false // the pointer is also read, passed on or compared: not modelled
		}
	}
	if len(parts) == 0 {
		return "", false
	}
	return union(parts), true
}

// zeroRole is the role of the zero value of type t.
func zeroRole(t types.Type) string {
	switch u := t.Underlying().(type) {
	case *types.Basic:
		switch {
		case u.Info()&types.IsBoolean != 0:
			return "=false"
		case u.Info()&types.IsNumeric != 0:
			return "=0"
		case u.Info()&types.IsString != 0:
			return `=""`
		}
	case *types.Slice, *types.Map, *types.Pointer, *types.Chan, *types.Signature:
		if n, ok := t.(*types.Named); ok {
			return n.Obj().Name() + "(nil)"
		}
		return "nil"
	case *types.Interface:
		return "nil"
	case *types.Struct:
		return typeName(t) + "{}"
	}
	return "zero"
}

func isIncByOne(info *types.Info, n ast.Node, obj types.Object) bool {
	is := func(x ast.Expr) bool {
		id, ok := ast.Unparen(x).(*ast.Ident)
		return ok && core.ObjOf(info, id) == obj
	}
	one := func(x ast.Expr) bool {
		v, ok := core.IntConst(info, x)
		return ok && v == 1
	}
	switch st := n.(type) {
	case *ast.IncDecStmt:
		return st.Tok == token.INC && is(st.X)
	case *ast.AssignStmt:
		if len(st.Lhs) != 1 || len(st.Rhs) != 1 || !is(st.Lhs[0]) {
			return false
		}
		if st.Tok == token.ADD_ASSIGN {
			return one(st.Rhs[0])
		}
		if st.Tok == token.ASSIGN {
			if be, ok := ast.Unparen(st.Rhs[0]).(*ast.BinaryExpr); ok && be.Op == token.ADD {
				return is(be.X) && one(be.Y) || is(be.Y) && one(be.X)
			}
		}
	}
	return false
}

// induction recognises the variable of `for i := 0; i < len(C); i++` (the
// bound in any linear spelling, possibly held in a local): it is the key of an
// in-order traversal of C.
func (r *roler) induction(s flow.Site, id *ast.Ident, st flow.StepResult, d int) (string, bool) {
	info := s.G.Info
	var post ast.Node
	zero := 0
	start := int64(0)
	for _, def := range st.Defs {
		switch {
		case isIncByOne(info, def.Node, st.Obj):
			if post != nil && post != def.Node {
				return "", false
			}
			post = def.Node
		case def.Zero:
			zero++
		case def.RHS != nil:
			v, ok := core.IntConst(info, def.RHS)
			if !ok || zero > 0 {
				return "", false
			}
			start = v
			zero++
		default:
			return "", false
		}
	}
	if post == nil || zero == 0 || st.Entry {
		return "", false
	}
	var loop *ast.ForStmt
	core.Inspect(s.G.Body, func(n ast.Node) bool {
		if f, ok := n.(*ast.ForStmt); ok && f.Post != nil && ast.Node(f.Post) == post {
			loop = f
		}
		return loop == nil
	})
	if loop == nil || loop.Cond == nil {
		return "", false
	}
	if nd := s.At.Node(); nd == nil || nd.Pos() < loop.Body.Pos() || nd.End() > loop.Body.End() {
		return "", false
	}
	// the bound: some len(C) mentioned by the condition (through single-assignment locals)
	var lens []*ast.CallExpr
	var scan func(x ast.Expr, depth int)
	scan = func(x ast.Expr, depth int) {
		if depth > 4 {
			return
		}
		ast.Inspect(x, func(n ast.Node) bool {
			switch v := n.(type) {
			case *ast.CallExpr:
				if b, ok := core.Callee(info, v).(*types.Builtin); ok && b.Name() == "len" && len(v.Args) == 1 {
					lens = append(lens, v)
					return false
				}
			case *ast.Ident:
				if df := pat.DefOf(info, v); df != nil {
					scan(df, depth+1)
				}
			}
			return true
		})
	}
	scan(loop.Cond, 0)
	// the bound test, possibly in conjunction with "no error so far" tests (a loop
	// that also stops at the first error still visits the elements in order)
	boundCond := loop.Cond
	if facts := cfgq.Facts(loop.Cond, true); len(facts) > 1 {
		boundCond = nil
		for _, f := range facts {
			pos := flow.Positive(f)
			if r.noErrorTest(info, pos, 0) {
				continue
			}
			if boundCond != nil {
				return "", false
			}
			boundCond = pos
		}
		if boundCond == nil {
			return "", false
		}
	}
	cmp, ok := lin.CmpOf(info, boundCond, true)
	if !ok {
		return "", false
	}
	for _, l := range lens {
		want := lin.Combo(info, 0, 1, ast.Expr(id), -1, ast.Expr(l))
		if cmp.Is(want, token.LSS) || cmp.Is(want, token.NEQ) {
			if !sliceLike(info.TypeOf(l.Args[0])) {
				return "", false
			}
			if start != 0 {
				// a traversal that does not begin at the first element: known, and not key(X)
				return "key(" + r.roleD(s, l.Args[0], d+1) + ")from" + strconv.FormatInt(start, 10), true
			}
			return "key(" + r.roleD(s, l.Args[0], d+1) + ")", true
		}
	}
	return "", false
}

// isNoErrorTest: `err == nil` (in any spelling cfgq.Facts/flow.Positive leave:
// `err == nil`, `nil == err`) for an error-typed variable or field.
func (r *roler) noErrorTest(info *types.Info, x ast.Expr, depth int) bool {
	x = ast.Unparen(x)
	if isNoErrorTest(info, x) {
		return true
	}
	if depth > 2 {
		return false
	}
	// `!w.failed()` with `func (w *T) failed() bool { return w.err != nil }`
	neg := false
	if u, ok := x.(*ast.UnaryExpr); ok && u.Op == token.NOT {
		neg, x = true, ast.Unparen(u.X)
	}
	call, ok := x.(*ast.CallExpr)
	if !ok || len(call.Args) != 0 {
		return false
	}
	f := core.CalleeFunc(info, call)
	if f == nil {
		return false
	}
	fn := r.c.FnOf(f)
	if fn == nil || fn.Decl == nil || fn.Decl.Body == nil || len(fn.Decl.Body.List) != 1 {
		return false
	}
	ret, ok := fn.Decl.Body.List[0].(*ast.ReturnStmt)
	if !ok || len(ret.Results) != 1 {
		return false
	}
	inner := ast.Unparen(ret.Results[0])
	hi := fn.Pkg.TypesInfo
	if neg {
		// !(err != nil)
		if be, ok := inner.(*ast.BinaryExpr); ok && be.Op == token.NEQ {
			return isNoErrorTest(hi, &ast.BinaryExpr{X: be.X, Op: token.EQL, Y: be.Y})
		}
		return false
	}
	return r.noErrorTest(hi, inner, depth+1)
}

func isNoErrorTest(info *types.Info, x ast.Expr) bool {
	be, ok := ast.Unparen(x).(*ast.BinaryExpr)
	if !ok || be.Op != token.EQL {
		return false
	}
	for _, p := range [][2]ast.Expr{{be.X, be.Y}, {be.Y, be.X}} {
		if core.IsNil(info, p[1]) {
			if t := info.TypeOf(p[0]); t != nil && cfgq.IsErrorType(t) {
				return true
			}
		}
	}
	return false
}

func sliceLike(t types.Type) bool {
	if t == nil {
		return false
	}
	switch u := t.Underlying().(type) {
	case *types.Slice, *types.Array:
		return true
	case *types.Pointer:
		_, ok := u.Elem().Underlying().(*types.Array)
		return ok
	}
	return false
}

func (r *roler) rangeRole(s flow.Site, id *ast.Ident, d int) string {
	var rs *ast.RangeStmt
	isKey := false
	core.Inspect(s.G.Body, func(n ast.Node) bool {
		if x, ok := n.(*ast.RangeStmt); ok {
			if x.Key == ast.Expr(id) {
				rs, isKey = x, true
			}
			if x.Value == ast.Expr(id) {
				rs = x
			}
		}
		return rs == nil
	})
	if rs == nil {
		return "?range-variable"
	}
	if !sliceLike(s.G.Info.TypeOf(rs.X)) {
		return "?range-over-" + typeName(s.G.Info.TypeOf(rs.X))
	}
	if isKey {
		return "key(" + r.roleD(s, rs.X, d+1) + ")"
	}
	return "elem(" + r.roleD(s, rs.X, d+1) + ")"
}

// methodValueRecv: obj is the receiver of the helper the site is in, and the
// helper was entered through a method value held in a local (`f := x.M; f()`):
// the receiver is the x of that method value.
func (r *roler) methodValueRecv(s flow.Site, obj types.Object, d int) (string, bool) {
	if len(s.Up) == 0 {
		return "", false
	}
	fr := s.Up[0]
	id, ok := ast.Unparen(fr.Call.Fun).(*ast.Ident)
	if !ok {
		return "", false
	}
	v, ok := obj.(*types.Var)
	if !ok {
		return "", false
	}
	// is obj a receiver? (declared in a function scope, and some method's Recv())
	isRecv := false
	if named := core.NamedTypeName(v.Type()); named != "" {
		if tn, ok := v.Pkg().Scope().Lookup(named).(*types.TypeName); ok {
			if nt, ok := tn.Type().(*types.Named); ok {
				for i := 0; i < nt.NumMethods(); i++ {
					if sig, ok := nt.Method(i).Type().(*types.Signature); ok && sig.Recv() == v {
						isRecv = true
					}
				}
			}
		}
	}
	if !isRecv {
		return "", false
	}
	at := flow.Site{G: fr.G, At: fr.At, Up: s.Up[1:]}
	var parts []string
	var of func(s flow.Site, id *ast.Ident, depth int) bool
	of = func(s flow.Site, id *ast.Ident, depth int) bool {
		if depth > 6 {
			return false
		}
		st := r.e.Step(s, id)
		if !st.Local || st.Unsafe {
			return false
		}
		visit := func(s flow.Site, x ast.Expr) bool {
			switch e := ast.Unparen(x).(type) {
			case *ast.SelectorExpr:
				if sel, ok := s.G.Info.Selections[e]; ok && sel.Kind() == types.MethodVal {
					parts = append(parts, r.roleD(s, e.X, d+1))
					return true
				}
			case *ast.Ident:
				return of(s, e, depth+1)
			}
			return false
		}
		if st.Entry && (!st.Bound || !visit(st.ArgSite, st.Arg)) {
			return false
		}
		for _, def := range st.Defs {
			if def.RHS == nil || !visit(def.Site, def.RHS) {
				return false
			}
		}
		return len(parts) > 0
	}
	if !of(at, id, 0) {
		return "", false
	}
	return union(parts), true
}

// implicitRole: the variable bound by a type switch `switch h := X.(type)`.
func (r *roler) implicitRole(s flow.Site, obj types.Object, d int) (string, bool) {
	info := s.G.Info
	out, found := "", false
	core.Inspect(s.G.Body, func(n ast.Node) bool {
		ts, ok := n.(*ast.TypeSwitchStmt)
		if !ok || found {
			return !found
		}
		as, ok := ts.Assign.(*ast.AssignStmt)
		if !ok || len(as.Rhs) != 1 {
			return true
		}
		ta, ok := ast.Unparen(as.Rhs[0]).(*ast.TypeAssertExpr)
		if !ok {
			return true
		}
		for _, cl := range ts.Body.List {
			cc := cl.(*ast.CaseClause)
			if info.Implicits[cc] != obj {
				continue
			}
			var ts []string
			for _, t := range cc.List {
				ts = append(ts, typeName(info.TypeOf(t)))
			}
			if len(ts) == 0 {
				ts = []string{"default"}
			}
			out, found = r.roleD(s, ta.X, d+1)+".("+strings.Join(ts, ",")+")", true
		}
		return !found
	})
	return out, found
}

func (r *roler) identRole(s flow.Site, id *ast.Ident, d int) string {
	info := s.G.Info
	st := r.e.Step(s, id)
	if n, ok := r.names[st.Obj]; ok && !st.Local {
		return n
	}
	if !st.Local {
		switch o := st.Obj.(type) {
		case *types.Var, *types.Func:
			if o.Pkg() != nil {
				return o.Pkg().Path() + "." + o.Name()
			}
		case *types.Nil:
			return "nil"
		}
		return "?" + id.Name
	}
	if st.Unsafe {
		// a struct variable whose address is taken once and that is only filled
		// field by field is that struct value (same rendering as under `&`)
		if m, ok := r.addressedStruct(s, id, d); ok {
			m = strings.TrimPrefix(m, "&")
			if !r.allocID {
				m += "@" + strconv.Itoa(int(st.Obj.Pos())) // its address escapes: an identity, not just a value
			}
			return m
		}
		if m, ok := r.outParam(s, id, st.Obj, d); ok {
			return m
		}
		return "var@" + strconv.Itoa(int(st.Obj.Pos()))
	}
	if k, ok := r.induction(s, id, st, d); ok {
		return k
	}
	if m, ok := r.mutated(s, id, st, d); ok {
		return m
	}
	var parts []string
	skipped := 0
	if st.Entry {
		switch {
		case st.Bound:
			parts = append(parts, r.roleD(st.ArgSite, st.Arg, d+1))
		case r.names[st.Obj] != "":
			parts = append(parts, r.names[st.Obj])
		default:
			if rr, ok := r.methodValueRecv(s, st.Obj, d); ok {
				parts = append(parts, rr)
			} else if ir, ok := r.implicitRole(s, st.Obj, d); ok {
				parts = append(parts, ir)
			} else if isNamedResult(s.G, st.Obj) {
				parts = append(parts, zeroRole(st.Obj.Type()))
			} else {
				parts = append(parts, "?"+id.Name)
			}
		}
	}
	for _, def := range st.Defs {
		if as, ok := def.Node.(*ast.AssignStmt); ok && def.RHS != nil && len(as.Rhs) > 1 && def.Idx < len(as.Rhs)-1 {
			// `a, b, err = x, y, e` where e is known to be an error: by convention the
			// other values are meaningless there and the reader of a, b tests err first
			last := as.Rhs[len(as.Rhs)-1]
			if cfgq.IsErrorType(def.Site.G.Info.TypeOf(last)) && r.knownError(def.Site, last, 0) {
				skipped++
				continue
			}
		}
		switch n := def.Node.(type) {
		case *ast.Ident:
			parts = append(parts, r.rangeRole(def.Site, n, d))
			continue
		case *ast.AssignStmt:
			if def.RHS == nil && def.Call == nil {
				if len(n.Rhs) == 1 && len(n.Lhs) == 2 && (n.Tok == token.ASSIGN || n.Tok == token.DEFINE) {
					// comma-ok forms
					if def.Idx == 0 {
						switch rx := ast.Unparen(n.Rhs[0]).(type) {
						case *ast.TypeAssertExpr:
							parts = append(parts, r.roleD(def.Site, rx, d+1))
							continue
						case *ast.IndexExpr:
							parts = append(parts, r.roleD(def.Site, rx, d+1))
							continue
						}
					}
					parts = append(parts, "?comma-ok")
					continue
				}
				if op, ok := opOfAssign[n.Tok]; ok && len(n.Lhs) == 1 && len(n.Rhs) == 1 {
					// x op= y is x = x op y, the old x as seen just before the statement
					lid, _ := ast.Unparen(n.Lhs[0]).(*ast.Ident)
					if lid != nil {
						be := &ast.BinaryExpr{X: lid, Op: op, Y: n.Rhs[0]}
						parts = append(parts, r.arithAt(def.Site, be, d+1))
						continue
					}
				}
				parts = append(parts, "?modified-in-place")
				continue
			}
		case *ast.IncDecStmt:
			parts = append(parts, "?modified-in-place")
			continue
		}
		switch {
		case def.Zero:
			parts = append(parts, zeroRole(st.Obj.Type()))
		case def.RHS != nil:
			parts = append(parts, r.roleD(def.Site, def.RHS, d+1))
		case def.Call != nil:
			parts = append(parts, r.callRole(def.Site, def.Call, def.Idx, d+1))
		default:
			parts = append(parts, "?definition")
		}
	}
	if len(parts) == 0 {
		if skipped > 0 {
			return "?only-error-paths:" + id.Name
		}
		return "?" + id.Name
	}
	_ = info
	return union(parts)
}

var resultVars = map[*types.Var]bool{}

// isNamedResult reports whether obj is a named result of the function whose
// scope declares it (it starts as the zero value).
func isNamedResult(g *cfgq.Graph, obj types.Object) bool {
	v, ok := obj.(*types.Var)
	if !ok || v.Pkg() == nil || v.Parent() == nil {
		return false
	}
	if hit, ok := resultVars[v]; ok {
		return hit
	}
	sc := v.Parent()
	hit := false
	check := func(f *types.Func) {
		sig, ok := f.Type().(*types.Signature)
		if !ok || hit || f.Scope() != sc {
			return
		}
		for i := 0; i < sig.Results().Len(); i++ {
			if sig.Results().At(i) == v {
				hit = true
			}
		}
	}
	pk := v.Pkg().Scope()
	for _, n := range pk.Names() {
		switch o := pk.Lookup(n).(type) {
		case *types.Func:
			check(o)
		case *types.TypeName:
			if named, ok := o.Type().(*types.Named); ok {
				for i := 0; i < named.NumMethods(); i++ {
					check(named.Method(i))
				}
			}
		}
	}
	resultVars[v] = hit
	return hit
}

var opOfAssign = map[token.Token]token.Token{token.ADD_ASSIGN: token.ADD, token.SUB_ASSIGN: token.SUB, token.MUL_ASSIGN: token.MUL,
	token.QUO_ASSIGN: token.QUO, token.REM_ASSIGN: token.REM, token.AND_ASSIGN: token.AND, token.OR_ASSIGN: token.OR,
	token.XOR_ASSIGN: token.XOR, token.SHL_ASSIGN: token.SHL, token.SHR_ASSIGN: token.SHR, token.AND_NOT_ASSIGN: token.AND_NOT}

func (r *roler) callRole(s flow.Site, call *ast.CallExpr, idx int, d int) string {
	info := s.G.Info
	if d > 24 {
		return "?deep"
	}
	f := core.CalleeFunc(info, call)
	if f == nil {
		// a call through a function or method value held in a local (or handed down
		// as a parameter): the result is what each possible target yields at this call
		if id, ok := ast.Unparen(call.Fun).(*ast.Ident); ok {
			if cands, ok := r.funcValues(s, id, 0); ok && len(cands) > 0 {
				var parts []string
				for _, cf := range cands {
					parts = append(parts, r.callRoleOf(s, call, cf, idx, d))
				}
				return union(parts)
			}
		}
		return "?dynamic-call"
	}
	return r.callRoleOf(s, call, f, idx, d)
}

// fnCand is one possible target of a call through a function value.
type fnCand struct {
	f          *types.Func
	methodExpr bool     // `(*T).M`: the receiver is the first argument of the call
	recv       ast.Expr // `x.M`: the receiver expression of the method value
}

// funcValues lists the functions a function-typed local can hold at s.
func (r *roler) funcValues(s flow.Site, id *ast.Ident, depth int) ([]*types.Func, bool) {
	cands, ok := r.funcCands(s, id, depth)
	var out []*types.Func
	for _, c := range cands {
		out = append(out, c.f)
	}
	return out, ok
}

// funcCands lists the possible targets of a function-typed local at s: method
// values `x.M`, method expressions `(*T).M`, declared functions, the entries of
// a package-level table that is never written (`f := table[k]`, `f, ok :=
// table[k]`: any entry), followed through definitions and parameter binding.
// ok is false when some origin is not of that kind.
func (r *roler) funcCands(s flow.Site, id *ast.Ident, depth int) ([]fnCand, bool) {
	if depth > 6 {
		return nil, false
	}
	var out []fnCand
	var of func(s flow.Site, x ast.Expr) bool
	of = func(s flow.Site, x ast.Expr) bool {
		info := s.G.Info
		switch v := ast.Unparen(x).(type) {
		case *ast.SelectorExpr:
			if sel, ok := info.Selections[v]; ok {
				if f, isF := sel.Obj().(*types.Func); isF {
					switch sel.Kind() {
					case types.MethodVal:
						out = append(out, fnCand{f: f, recv: v.X})
						return true
					case types.MethodExpr:
						out = append(out, fnCand{f: f, methodExpr: true})
						return true
					}
				}
			}
			if f, ok := info.Uses[v.Sel].(*types.Func); ok {
				out = append(out, fnCand{f: f})
				return true
			}
		case *ast.Ident:
			if f, ok := info.Uses[v].(*types.Func); ok {
				out = append(out, fnCand{f: f})
				return true
			}
			more, ok := r.funcCands(s, v, depth+1)
			out = append(out, more...)
			return ok
		case *ast.IndexExpr:
			lit := r.tableLiteral(info, v.X)
			if lit == nil || len(lit.Elts) == 0 {
				return false
			}
			for _, el := range lit.Elts {
				val := el
				if kv, ok := el.(*ast.KeyValueExpr); ok {
					val = kv.Value
				}
				if !of(s, val) {
					return false
				}
			}
			return true
		}
		return false
	}
	st := r.e.Step(s, id)
	if !st.Local || st.Unsafe {
		return nil, false
	}
	if st.Entry {
		if !st.Bound || !of(st.ArgSite, st.Arg) {
			return nil, false
		}
	}
	for _, def := range st.Defs {
		switch {
		case def.RHS != nil:
			if !of(def.Site, def.RHS) {
				return nil, false
			}
		default:
			// comma-ok lookup `f, ok := table[k]`
			as, ok := def.Node.(*ast.AssignStmt)
			if !ok || def.Idx != 0 || len(as.Rhs) != 1 || !of(def.Site, as.Rhs[0]) {
				return nil, false
			}
		}
	}
	return out, true
}

// funcCandsExpr is funcCands for the function expression of a call: a local, or
// a function-typed field of a struct value whose construction can be found
// (`ev.item` with ev built by a literal, possibly returned by a helper or
// handed down as a parameter).
func (r *roler) funcCandsExpr(s flow.Site, fun ast.Expr) ([]fnCand, bool) {
	switch v := ast.Unparen(fun).(type) {
	case *ast.Ident:
		return r.funcCands(s, v, 0)
	case *ast.SelectorExpr:
		sel, ok := s.G.Info.Selections[v]
		if !ok || sel.Kind() != types.FieldVal {
			return nil, false
		}
		fs, fx, ok := r.fieldOrigin(s, v.X, v.Sel.Name, 0)
		if !ok {
			return nil, false
		}
		// the field's value: a method value, a function, or a local holding one
		switch e := ast.Unparen(fx).(type) {
		case *ast.Ident:
			if f, ok := fs.G.Info.Uses[e].(*types.Func); ok {
				return []fnCand{{f: f}}, true
			}
			return r.funcCands(fs, e, 0)
		case *ast.SelectorExpr:
			if sl, ok := fs.G.Info.Selections[e]; ok {
				if f, isF := sl.Obj().(*types.Func); isF {
					switch sl.Kind() {
					case types.MethodVal:
						return []fnCand{{f: f, recv: e.X}}, true
					case types.MethodExpr:
						return []fnCand{{f: f, methodExpr: true}}, true
					}
				}
			}
			if f, ok := fs.G.Info.Uses[e.Sel].(*types.Func); ok {
				return []fnCand{{f: f}}, true
			}
		}
	}
	return nil, false
}

// fieldOrigin finds the expression field `name` of the struct value x was
// given when the value was built: x is followed through locals with one
// definition, parameters and helper results to a composite literal.
func (r *roler) fieldOrigin(s flow.Site, x ast.Expr, name string, depth int) (flow.Site, ast.Expr, bool) {
	if depth > 8 {
		return flow.Site{}, nil, false
	}
	x = ast.Unparen(x)
	if u, ok := x.(*ast.UnaryExpr); ok && u.Op == token.AND {
		x = ast.Unparen(u.X)
	}
	switch v := x.(type) {
	case *ast.CompositeLit:
		st, ok := s.G.Info.TypeOf(v).Underlying().(*types.Struct)
		if !ok {
			return flow.Site{}, nil, false
		}
		for i, el := range v.Elts {
			if kv, ok := el.(*ast.KeyValueExpr); ok {
				if id, ok := kv.Key.(*ast.Ident); ok && id.Name == name {
					return s, kv.Value, true
				}
				continue
			}
			if i < st.NumFields() && st.Field(i).Name() == name {
				return s, el, true
			}
		}
		return flow.Site{}, nil, false
	case *ast.Ident:
		st := r.e.Step(s, v)
		if !st.Local || st.Unsafe {
			return flow.Site{}, nil, false
		}
		// no field store on the variable
		written := false
		core.Inspect(s.G.Body, func(n ast.Node) bool {
			if as, ok := n.(*ast.AssignStmt); ok {
				for _, l := range as.Lhs {
					if sel, ok := ast.Unparen(l).(*ast.SelectorExpr); ok {
						if b, ok := ast.Unparen(sel.X).(*ast.Ident); ok && core.ObjOf(s.G.Info, b) == st.Obj {
							written = true
						}
					}
				}
			}
			return !written
		})
		if written {
			return flow.Site{}, nil, false
		}
		switch {
		case st.Entry && st.Bound && len(st.Defs) == 0:
			return r.fieldOrigin(st.ArgSite, st.Arg, name, depth+1)
		case !st.Entry && len(st.Defs) == 1 && st.Defs[0].RHS != nil:
			return r.fieldOrigin(st.Defs[0].Site, st.Defs[0].RHS, name, depth+1)
		}
	case *ast.CallExpr:
		if rets, ok := r.e.Follow(s, v, 0); ok && len(rets) == 1 && rets[0].Expr != nil {
			return r.fieldOrigin(rets[0].Site, rets[0].Expr, name, depth+1)
		}
	}
	return flow.Site{}, nil, false
}

// tableLiteral: x names a package-level map/slice/array variable that is
// initialised with a composite literal and never written in its package.
func (r *roler) tableLiteral(info *types.Info, x ast.Expr) *ast.CompositeLit {
	id, ok := ast.Unparen(x).(*ast.Ident)
	if !ok {
		return nil
	}
	table, ok := info.Uses[id].(*types.Var)
	if !ok || table.Pkg() == nil || table.Parent() != table.Pkg().Scope() {
		return nil
	}
	var files []*ast.File
	for _, pk := range r.c.Program.Pkgs {
		if pk.TypesInfo == info {
			files = pk.Syntax
		}
	}
	var lit *ast.CompositeLit
	written := false
	for _, f := range files {
		ast.Inspect(f, func(n ast.Node) bool {
			switch v := n.(type) {
			case *ast.ValueSpec:
				for i, nm := range v.Names {
					if info.Defs[nm] == table && len(v.Values) == len(v.Names) {
						lit, _ = ast.Unparen(v.Values[i]).(*ast.CompositeLit)
					}
				}
			case *ast.AssignStmt:
				for _, l := range v.Lhs {
					base := ast.Unparen(l)
					if ix, ok := base.(*ast.IndexExpr); ok {
						base = ast.Unparen(ix.X)
					}
					if b, ok := base.(*ast.Ident); ok && info.Uses[b] == table {
						written = true
					}
				}
			case *ast.UnaryExpr:
				if b, ok := ast.Unparen(v.X).(*ast.Ident); ok && v.Op == token.AND && info.Uses[b] == table {
					written = true
				}
			case *ast.CallExpr:
				if bi, ok := core.Callee(info, v).(*types.Builtin); ok && bi.Name() == "delete" && len(v.Args) > 0 {
					if b, ok := ast.Unparen(v.Args[0]).(*ast.Ident); ok && info.Uses[b] == table {
						written = true
					}
				}
			}
			return !written
		})
	}
	if written {
		return nil
	}
	return lit
}

// callRoleOf is callRole for a known callee (the static one, or one candidate of
// a call through a function value).
func (r *roler) callRoleOf(s flow.Site, call *ast.CallExpr, f *types.Func, idx int, d int) string {
	if r.leafCall != nil {
		if out, ok := r.leafCall(s, call, f, idx, d); ok {
			return out
		}
	}
	rets, ok := r.e.Follow(s, call, idx)
	if !ok {
		// a method called through an interface on a value whose concrete type is known
		// from where the value comes from (a small type behind an unexported interface)
		if fn, recv, found := r.devirtualise(s, call, f); found {
			rets, ok = r.e.FollowFunc(s, call, fn, false, recv, idx)
		}
	}
	if ok {
		if len(rets) == 0 {
			return "?no-successful-return"
		}
		var parts []string
		for _, rt := range rets {
			if idx == 0 && r.returnsNotOK(rt) {
				continue // `return x, false`: by convention x is meaningless and the caller tests ok first
			}
			if rt.Call != nil {
				parts = append(parts, r.callRole(rt.Site, rt.Call, idx, d+1))
			} else {
				parts = append(parts, r.roleD(rt.Site, rt.Expr, d+1))
			}
		}
		if len(parts) == 0 {
			return "?no-successful-return"
		}
		return union(parts)
	}
	return r.leafRender(s, call, f, idx, d)
}

// returnsNotOK: the return statement's last result is the constant false of a
// trailing boolean result (the `value, ok` convention).
func (r *roler) returnsNotOK(rt flow.Ret) bool {
	ret, ok := rt.At.Node().(*ast.ReturnStmt)
	if !ok || len(ret.Results) < 2 {
		return false
	}
	last := ret.Results[len(ret.Results)-1]
	tv, ok := rt.G.Info.Types[last]
	if !ok || tv.Value == nil || tv.Value.Kind() != constant.Bool {
		return false
	}
	return !constant.BoolVal(tv.Value)
}

// devirtualise: call is `x.M(...)` with M a method of an interface and every
// origin of x is an expression of one concrete (non-interface) type declared in
// the module: the method M of that type, and the receiver expression.
func (r *roler) devirtualise(s flow.Site, call *ast.CallExpr, f *types.Func) (*core.Fn, ast.Expr, bool) {
	sig, _ := f.Type().(*types.Signature)
	if sig == nil || sig.Recv() == nil {
		return nil, nil, false
	}
	if _, isIface := sig.Recv().Type().Underlying().(*types.Interface); !isIface {
		return nil, nil, false
	}
	sel, ok := ast.Unparen(call.Fun).(*ast.SelectorExpr)
	if !ok {
		return nil, nil, false
	}
	var concrete types.Type
	bad := false
	var visit func(s flow.Site, x ast.Expr, depth int)
	visit = func(s flow.Site, x ast.Expr, depth int) {
		if bad || depth > 8 {
			bad = true
			return
		}
		x = ast.Unparen(x)
		t := s.G.Info.TypeOf(x)
		if t == nil {
			bad = true
			return
		}
		if _, isIface := t.Underlying().(*types.Interface); !isIface {
			if concrete != nil && !types.Identical(concrete, t) {
				bad = true
			}
			concrete = t
			return
		}
		id, ok := x.(*ast.Ident)
		if !ok {
			bad = true
			return
		}
		st := r.e.Step(s, id)
		if !st.Local || st.Unsafe {
			bad = true
			return
		}
		if st.Entry {
			if !st.Bound {
				bad = true
				return
			}
			visit(st.ArgSite, st.Arg, depth+1)
		}
		for _, def := range st.Defs {
			if def.RHS == nil {
				bad = true
				return
			}
			visit(def.Site, def.RHS, depth+1)
		}
	}
	visit(s, sel.X, 0)
	if bad || concrete == nil {
		return nil, nil, false
	}
	obj, _, _ := types.LookupFieldOrMethod(concrete, true, f.Pkg(), f.Name())
	m, ok := obj.(*types.Func)
	if !ok {
		return nil, nil, false
	}
	fn := r.c.FnOf(m)
	if fn == nil || fn.Decl == nil || fn.Decl.Body == nil {
		return nil, nil, false
	}
	return fn, sel.X, true
}

// leafRender names the result of a leaf call by callee and argument roles.
func (r *roler) leafRender(s flow.Site, call *ast.CallExpr, f *types.Func, idx int, d int) string {
	info := s.G.Info
	var as []string
	for _, a := range call.Args {
		as = append(as, r.roleD(s, a, d+1))
	}
	head := core.FuncName(f)
	if sel, ok := ast.Unparen(call.Fun).(*ast.SelectorExpr); ok {
		if sl, ok := info.Selections[sel]; ok && sl.Kind() == types.MethodVal {
			head = r.roleD(s, sel.X, d+1) + "." + f.Name()
		}
	}
	if id, ok := ast.Unparen(call.Fun).(*ast.Ident); ok {
		// a method value `x.M` held in a local and called: x.M(args), as if called directly
		if cands, ok := r.funcCands(s, id, 0); ok {
			for _, cd := range cands {
				if cd.f == f && cd.recv != nil && len(cands) == 1 {
					head = r.roleD(s, cd.recv, d+1) + "." + f.Name()
				}
			}
		}
	}
	out := head + "(" + strings.Join(as, ",") + ")"
	if idx > 0 {
		out += "#r" + strconv.Itoa(idx)
	}
	if r.allocID {
		// a call that hands out a pointer makes a new object each time: identity matters
		if sig, ok := f.Type().(*types.Signature); ok && idx < sig.Results().Len() {
			if _, isPtr := sig.Results().At(idx).Type().Underlying().(*types.Pointer); isPtr {
				out += "@" + strconv.Itoa(int(call.Lparen))
			}
		}
	}
	return out
}

// knownError: x is certainly a non-nil error where it is evaluated (an error
// constructor, or a variable under `x != nil`).
func (r *roler) knownError(s flow.Site, x ast.Expr, depth int) bool {
	info := s.G.Info
	x = ast.Unparen(x)
	if depth > 4 {
		return false
	}
	switch v := x.(type) {
	case *ast.Ident:
		obj := core.ObjOf(info, v)
		return r.e.Under(s, func(f cfgq.Fact) bool {
			be, ok := ast.Unparen(flow.Positive(f)).(*ast.BinaryExpr)
			if !ok || be.Op != token.NEQ {
				return false
			}
			for _, p := range [][2]ast.Expr{{be.X, be.Y}, {be.Y, be.X}} {
				if y, ok := ast.Unparen(p[0]).(*ast.Ident); ok && core.ObjOf(info, y) == obj && core.IsNil(info, p[1]) {
					return true
				}
			}
			return false
		})
	case *ast.CallExpr:
		f := core.CalleeFunc(info, v)
		if f == nil || f.Pkg() == nil {
			return false
		}
		switch f.Pkg().Path() {
		case "fmt", "errors", core.Module + "/pkg/libs/errors":
			switch f.Name() {
			case "Errorf", "New", "Static":
				return true
			case "Trace":
				return len(v.Args) == 1 && r.knownError(s, v.Args[0], depth+1)
			}
		}
	}
	return false
}

// ---- arithmetic in linear normal form over role atoms

type lform struct {
	coef map[string]int64
	k    int64
}

func (r *roler) arith(s flow.Site, x ast.Expr, d int) string { return r.arithAt(s, x, d) }

func (r *roler) arithAt(s flow.Site, x ast.Expr, d int) string {
	f := r.linOf(s, x, d)
	return renderLin(f)
}

func renderLin(f lform) string {
	var ks []string
	for k, v := range f.coef {
		if v != 0 {
			ks = append(ks, k)
		}
	}
	sort.Strings(ks)
	if len(ks) == 0 {
		return "=" + strconv.FormatInt(f.k, 10)
	}
	if len(ks) == 1 && f.coef[ks[0]] == 1 && f.k == 0 {
		return ks[0]
	}
	var parts []string
	for _, k := range ks {
		if f.coef[k] == 1 {
			parts = append(parts, k)
		} else {
			parts = append(parts, strconv.FormatInt(f.coef[k], 10)+"*"+k)
		}
	}
	if f.k != 0 {
		parts = append(parts, strconv.FormatInt(f.k, 10))
	}
	return "lin(" + strings.Join(parts, "+") + ")"
}

func isIntegral(t types.Type) bool {
	if t == nil {
		return false
	}
	b, ok := t.Underlying().(*types.Basic)
	return ok && b.Info()&types.IsInteger != 0
}

func (r *roler) linOf(s flow.Site, x ast.Expr, d int) lform {
	info := s.G.Info
	x = ast.Unparen(x)
	atom := func(a string) lform { return lform{coef: map[string]int64{a: 1}} }
	if d > 24 {
		return atom("?deep")
	}
	if v, ok := core.IntConst(info, x); ok {
		return lform{coef: map[string]int64{}, k: v}
	}
	scale := func(f lform, c int64) lform {
		out := lform{coef: map[string]int64{}, k: f.k * c}
		for k, v := range f.coef {
			out.coef[k] = v * c
		}
		return out
	}
	add := func(a, b lform) lform {
		out := lform{coef: map[string]int64{}, k: a.k + b.k}
		for k, v := range a.coef {
			out.coef[k] += v
		}
		for k, v := range b.coef {
			out.coef[k] += v
		}
		return out
	}
	constOf := func(f lform) (int64, bool) {
		for _, v := range f.coef {
			if v != 0 {
				return 0, false
			}
		}
		return f.k, true
	}
	switch v := x.(type) {
	case *ast.CallExpr:
		if tv, ok := info.Types[v.Fun]; ok && tv.IsType() && len(v.Args) == 1 && isIntegral(tv.Type) && isIntegral(info.TypeOf(v.Args[0])) {
			return r.linOf(s, v.Args[0], d+1)
		}
	case *ast.UnaryExpr:
		switch v.Op {
		case token.SUB:
			return scale(r.linOf(s, v.X, d+1), -1)
		case token.ADD:
			return r.linOf(s, v.X, d+1)
		}
	case *ast.BinaryExpr:
		if !isIntegral(info.TypeOf(v)) {
			break
		}
		if v.Op == token.OR || v.Op == token.ADD || v.Op == token.SHL {
			if name, ok := r.byteAssembly(s, v, d); ok {
				return atom(name)
			}
		}
		a, b := r.linOf(s, v.X, d+1), r.linOf(s, v.Y, d+1)
		switch v.Op {
		case token.ADD:
			return add(a, b)
		case token.SUB:
			return add(a, scale(b, -1))
		case token.MUL:
			if c, ok := constOf(a); ok {
				return scale(b, c)
			}
			if c, ok := constOf(b); ok {
				return scale(a, c)
			}
		case token.SHL:
			if c, ok := constOf(b); ok && c >= 0 && c < 62 {
				return scale(a, 1<<uint(c))
			}
		}
		ra, rb := renderLin(a), renderLin(b)
		switch v.Op {
		case token.MUL, token.AND, token.OR, token.XOR:
			if rb < ra {
				ra, rb = rb, ra
			}
		}
		return atom("(" + ra + v.Op.String() + rb + ")")
	}
	if be, ok := x.(*ast.BinaryExpr); ok {
		ra, rb := r.roleD(s, be.X, d+1), r.roleD(s, be.Y, d+1)
		op := be.Op
		switch op {
		case token.GTR:
			ra, rb, op = rb, ra, token.LSS
		case token.GEQ:
			ra, rb, op = rb, ra, token.LEQ
		case token.EQL, token.NEQ, token.LAND, token.LOR, token.ADD, token.MUL:
			if rb < ra {
				ra, rb = rb, ra
			}
		}
		return atom("(" + ra + op.String() + rb + ")")
	}
	if _, ok := x.(*ast.UnaryExpr); ok {
		u := x.(*ast.UnaryExpr)
		return atom(u.Op.String() + r.roleD(s, u.X, d+1))
	}
	// an identifier with exactly one plain definition is its definition (flattened)
	if id, ok := x.(*ast.Ident); ok && isIntegral(info.TypeOf(id)) {
		st := r.e.Step(s, id)
		if st.Local && !st.Unsafe && !st.Entry && len(st.Defs) == 1 && st.Defs[0].RHS != nil && isIntegral(info.TypeOf(st.Defs[0].RHS)) {
			if _, isInd := r.induction(s, id, st, d); !isInd {
				return r.linOf(st.Defs[0].Site, st.Defs[0].RHS, d+1)
			}
		}
		if st.Local && !st.Unsafe && st.Entry && st.Bound && len(st.Defs) == 0 && isIntegral(st.ArgSite.G.Info.TypeOf(st.Arg)) {
			return r.linOf(st.ArgSite, st.Arg, d+1)
		}
	}
	return atom(r.roleD(s, x, d+1))
}

// byteAssembly recognises an integer put together from the bytes of one slice,
// `uint32(b[0]) | uint32(b[1])<<8 | ...` (also with +), and names it like the
// library call that does the same: encoding/binary.LittleEndian.Uint32(b)
// (BigEndian when the first byte is the most significant one).
func (r *roler) byteAssembly(s flow.Site, x ast.Expr, d int) (string, bool) {
	lanes := map[int]string{}
	if !r.byteLanes(s, x, 0, lanes, d) {
		return "", false
	}
	n := len(lanes)
	if n != 2 && n != 4 && n != 8 {
		return "", false
	}
	base := ""
	le, be := true, true
	for lane := 0; lane < n; lane++ {
		a, ok := lanes[lane]
		if !ok {
			return "", false
		}
		open := strings.LastIndex(a, "[=")
		if open < 0 || !strings.HasSuffix(a, "]") {
			return "", false
		}
		k, err := strconv.Atoi(a[open+2 : len(a)-1])
		if err != nil {
			return "", false
		}
		if base == "" {
			base = a[:open]
		} else if base != a[:open] {
			return "", false
		}
		le = le && k == lane
		be = be && k == n-1-lane
	}
	switch {
	case le:
		return fmt.Sprintf("encoding/binary.LittleEndian.Uint%d(%s)", 8*n, base), true
	case be:
		return fmt.Sprintf("encoding/binary.BigEndian.Uint%d(%s)", 8*n, base), true
	}
	return "", false
}

// byteLanes fills lane -> role of the byte that occupies bits [8*lane, 8*lane+8).
func (r *roler) byteLanes(s flow.Site, x ast.Expr, shift int, lanes map[int]string, d int) bool {
	info := s.G.Info
	x = ast.Unparen(x)
	if d > 24 {
		return false
	}
	switch v := x.(type) {
	case *ast.CallExpr:
		if tv, ok := info.Types[v.Fun]; ok && tv.IsType() && len(v.Args) == 1 && isIntegral(tv.Type) {
			return r.byteLanes(s, v.Args[0], shift, lanes, d+1)
		}
	case *ast.BinaryExpr:
		switch v.Op {
		case token.OR, token.ADD:
			return r.byteLanes(s, v.X, shift, lanes, d+1) && r.byteLanes(s, v.Y, shift, lanes, d+1)
		case token.SHL:
			c, ok := core.IntConst(info, v.Y)
			if !ok || c < 0 || c%8 != 0 || c > 56 {
				return false
			}
			return r.byteLanes(s, v.X, shift+int(c/8), lanes, d+1)
		}
	case *ast.IndexExpr:
		if b, ok := info.TypeOf(v).Underlying().(*types.Basic); !ok || b.Kind() != types.Uint8 {
			return false
		}
		if _, taken := lanes[shift]; taken {
			return false
		}
		lanes[shift] = r.roleD(s, v, d+1)
		return true
	case *ast.Ident:
		// a local holding one of the pieces
		st := r.e.Step(s, v)
		if st.Local && !st.Unsafe && !st.Entry && len(st.Defs) == 1 && st.Defs[0].RHS != nil {
			return r.byteLanes(st.Defs[0].Site, st.Defs[0].RHS, shift, lanes, d+1)
		}
	}
	return false
}

// ---- helpers on rendered terms

// stripRoles removes every parenthesised annotation from a rendered term.
func stripRoles(term string) string {
	var b strings.Builder
	depth := 0
	for i := 0; i < len(term); i++ {
		switch term[i] {
		case '(':
			depth++
			continue
		case ')':
			depth--
			continue
		}
		if depth == 0 {
			b.WriteByte(term[i])
		}
	}
	return b.String()
}

var bindRe = regexp.MustCompile(`@\[[^\]]*\]|@[a-z][0-9]*`)

// looseLoops forgets which read bounds a loop: `Len@a Loop@a{..}` and
// `Len Star{..}` both become `Len Star{..}` (used where the tie between count
// and elements is established by roles instead).
func looseLoops(term string) string {
	term = bindRe.ReplaceAllString(term, "")
	return strings.ReplaceAll(term, "Loop{", "Star{")
}

// annotations returns, for every token `Name(role)` of the term, name and role.
func annotations(term string) [][2]string {
	var out [][2]string
	i := 0
	for i < len(term) {
		j := i
		for j < len(term) && (term[j] == '_' || term[j] >= 'A' && term[j] <= 'Z' || term[j] >= 'a' && term[j] <= 'z' || term[j] >= '0' && term[j] <= '9') {
			j++
		}
		if j > i && j < len(term) && term[j] == '(' {
			depth := 0
			k := j
			for ; k < len(term); k++ {
				if term[k] == '(' {
					depth++
				}
				if term[k] == ')' {
					depth--
					if depth == 0 {
						break
					}
				}
			}
			out = append(out, [2]string{term[i:j], term[j+1 : k]})
			i = k + 1
			continue
		}
		if j == i {
			j++
		}
		i = j
	}
	return out
}
