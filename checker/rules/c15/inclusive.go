package c15

import (
	"fmt"
	"go/ast"
	"go/token"
	"go/types"
	"rscheck/cfgq"
	"rscheck/core"
	"rscheck/pat"
)

// inclusive checks that every node accepted by `accept` is reached only with
// lo <= x and x <= hi established, x/lo/hi being identifiers.
func inclusive(c *core.Ctx, rule, key string, g *cfgq.Graph, body ast.Node, x, lo, hi ast.Expr, accept func(ast.Node) bool) {
	info := g.Info
	b := pat.Binds{"_x": x, "_lo": lo, "_hi": hi}
	type side struct {
		name           string
		bound          ast.Expr
		okT, okF       *pat.Pattern
		wrongT, wrongF *pat.Pattern
	}
	sides := []side{
		{"lower", lo, pat.Expr("_x >= _lo"), pat.Expr("_x < _lo"), pat.Expr("_x > _lo"), pat.Expr("_x <= _lo")},
		{"upper", hi, pat.Expr("_x <= _hi"), pat.Expr("_x > _hi"), pat.Expr("_x < _hi"), pat.Expr("_x >= _hi")},
	}
	pts := g.Points(accept)
	if len(pts) == 0 {
		c.Undecidedf(rule, key, body.Pos(), "no accepting exit found")
		return
	}
	for _, sd := range sides {
		sd := sd
		direct := func(f cfgq.Fact, bd pat.Binds) bool {
			e := widened(info, f.Expr)
			return f.Val && sd.okT.Match(info, e, bd) != nil || !f.Val && sd.okF.Match(info, e, bd) != nil
		}
		// helper: inRange(x, lo, hi) with `func inRange(s, l, r int) bool { return l <= s && s <= r }`
		// returns the helper's condition and the bindings in the helper's terms
		helper := func(e ast.Expr) (ast.Expr, pat.Binds) {
			call, ok := ast.Unparen(e).(*ast.CallExpr)
			hfn := core.CalleeFunc(info, orCallExpr(call))
			if !ok || hfn == nil {
				return nil, nil
			}
			hf := c.FnOf(hfn)
			if hf == nil || hf.Decl.Body == nil || len(hf.Decl.Body.List) != 1 || hf.Pkg.TypesInfo != info {
				return nil, nil
			}
			ret, isRet := hf.Decl.Body.List[0].(*ast.ReturnStmt)
			var hps []*ast.Ident
			for _, fl := range hf.Decl.Type.Params.List {
				hps = append(hps, fl.Names...)
			}
			if !isRet || len(ret.Results) != 1 || len(hps) != len(call.Args) {
				return nil, nil
			}
			b2 := pat.Binds{}
			for i, a := range call.Args {
				for name, want := range b {
					if pat.Same(info, strip(info, a), want) {
						b2[name] = hps[i]
					}
				}
			}
			// a method of a small struct value that carries the two bounds
			// (`slotSpan{lo: min, hi: max}.has(x)`, possibly bound to a local first)
			if rl := hf.Decl.Recv; rl != nil && len(rl.List) == 1 && len(rl.List[0].Names) == 1 {
				fun := ast.Unparen(call.Fun)
				if o := objOf(info, fun); o != nil {
					if rhs, other := defsOf(info, body, o); len(rhs) == 1 && other == 0 && rhs[0] != nil {
						fun = ast.Unparen(rhs[0])
					}
				}
				if sel, isSel := fun.(*ast.SelectorExpr); isSel {
					ro := info.Defs[rl.List[0].Names[0]]
					if fl, fr := boundFields(info, body, sel.X, objOf(info, lo), objOf(info, hi)); fl != nil && fr != nil && ro != nil {
						if rhs, other := defsOf(info, hf.Decl.Body, ro); len(rhs) == 0 && other == 0 {
							if l, r := fieldUse(info, hf.Decl.Body, ro, fl), fieldUse(info, hf.Decl.Body, ro, fr); l != nil && r != nil {
								b2["_lo"], b2["_hi"] = l, r
							}
						}
					}
				}
			}
			if len(b2) != len(b) {
				return nil, nil
			}
			return ret.Results[0], b2
		}
		holdsWhen := func(e ast.Expr, val bool) bool { // e == val establishes this bound
			if direct(cfgq.Fact{Expr: e, Val: val}, b) {
				return true
			}
			if cond, b2 := helper(e); cond != nil {
				for _, at := range cfgq.Facts(cond, val) {
					if direct(at, b2) {
						return true
					}
				}
			}
			return false
		}
		fact := func(f cfgq.Fact) bool { return holdsWhen(f.Expr, f.Val) }
		inverted := func(f cfgq.Fact) bool { return holdsWhen(f.Expr, !f.Val) } // accepted exactly when the bound test failed
		ok := true
		var wit []string
		for _, p := range pts {
			// `return x >= lo && x <= hi`
			if r, isRet := p.Node().(*ast.ReturnStmt); isRet && len(r.Results) > 0 {
				direct := false
				for _, f := range cfgq.Facts(r.Results[0], true) {
					if fact(f) {
						direct = true
					}
				}
				if direct {
					continue
				}
			}
			if o, w := onlyVia(g, p, fact); !o {
				ok, wit = false, w
			}
		}
		k := key + "/" + sd.name
		if ok {
			c.Okf(rule, k, body.Pos(), "candidates are accepted only with the %s bound tested inclusively", sd.name)
			continue
		}
		allInv := true
		for _, p := range pts {
			if o, _ := onlyVia(g, p, inverted); !o {
				allInv = false
			}
		}
		if allInv {
			c.Check(rule, k, body.Pos(), false, fmt.Sprintf("a candidate is accepted exactly when the %s bound test FAILED: the key chosen hashes outside the slot range", sd.name), wit...)
			continue
		}
		// exactly one comparison with this bound (here or in a one-line predicate
		// helper applied to x and the bounds), and it is the strict one => definite
		var cmps []*ast.BinaryExpr
		cb := b
		collect := func(root ast.Node, bd pat.Binds) {
			ast.Inspect(root, func(n ast.Node) bool {
				if orig, ok := n.(*ast.BinaryExpr); ok {
					be, _ := ast.Unparen(widened(info, orig)).(*ast.BinaryExpr) // int(slot) <= r compares slot
					if be != nil && pat.Expr("_x + _b").Match(info, &ast.BinaryExpr{X: be.X, Op: token.ADD, Y: be.Y}, pat.Binds{"_x": bd["_x"], "_b": bd[map[string]string{"lower": "_lo", "upper": "_hi"}[sd.name]]}) != nil {
						cmps = append(cmps, be)
						cb = bd
					}
				}
				return true
			})
		}
		collect(body, b)
		ast.Inspect(body, func(n ast.Node) bool {
			if call, ok := n.(*ast.CallExpr); ok {
				if cond, b2 := helper(call); cond != nil {
					collect(cond, b2)
				}
			}
			return true
		})
		if len(cmps) == 1 && (sd.wrongT.Match(info, cmps[0], cb) != nil || sd.wrongF.Match(info, cmps[0], cb) != nil) {
			c.Check(rule, k, cmps[0].Pos(), false, fmt.Sprintf("the %s slot bound is tested exclusively (%s): a range [l,r] is inclusive, so a shard owning the single slot l (or a key hashing exactly to the boundary) is never matched / a key outside is accepted", sd.name, c.Src(cmps[0])), wit...)
		} else {
			c.Undecidedf(rule, k, body.Pos(), "cannot establish that the %s bound is tested as an inclusive bound", sd.name)
		}
	}
}

// widened: a comparison whose operands are value-preserving integer
// conversions (uint16 -> int) is the comparison of the operands themselves.
func widened(info *types.Info, e ast.Expr) ast.Expr {
	be, ok := ast.Unparen(e).(*ast.BinaryExpr)
	if !ok {
		return e
	}
	switch be.Op {
	case token.LSS, token.LEQ, token.GTR, token.GEQ, token.EQL, token.NEQ:
	default:
		return e
	}
	un := func(x ast.Expr) ast.Expr {
		for {
			x = ast.Unparen(x)
			call, ok := x.(*ast.CallExpr)
			if !ok || len(call.Args) != 1 {
				return x
			}
			tv, isT := info.Types[call.Fun]
			if !isT || !tv.IsType() {
				return x
			}
			to, ok1 := tv.Type.Underlying().(*types.Basic)
			from, ok2 := info.TypeOf(call.Args[0]).Underlying().(*types.Basic)
			if !ok1 || !ok2 || to.Info()&types.IsInteger == 0 || from.Info()&types.IsInteger == 0 || from.Info()&types.IsUntyped != 0 {
				return x
			}
			sz := types.SizesFor("gc", "amd64")
			ts, fs := sz.Sizeof(to), sz.Sizeof(from)
			tu, fu := to.Info()&types.IsUnsigned != 0, from.Info()&types.IsUnsigned != 0
			if !(ts > fs && (fu || !tu) || ts == fs && tu == fu) {
				return x
			}
			x = call.Args[0]
		}
	}
	x, y := un(be.X), un(be.Y)
	if x == ast.Unparen(be.X) && y == ast.Unparen(be.Y) {
		return e
	}
	return &ast.BinaryExpr{X: x, OpPos: be.OpPos, Op: be.Op, Y: y}
}

// boundFields: e is a composite literal of a struct type (or a local holding
// one, assigned once) in which one field receives `left` and another `right`.
func boundFields(info *types.Info, body ast.Node, e ast.Expr, left, right types.Object) (fl, fr *types.Var) {
	e = ast.Unparen(e)
	if o := objOf(info, e); o != nil {
		if rhs, other := defsOf(info, body, o); len(rhs) == 1 && other == 0 && rhs[0] != nil {
			e = ast.Unparen(rhs[0])
		}
	}
	lit, ok := e.(*ast.CompositeLit)
	if !ok || info.TypeOf(lit) == nil {
		return nil, nil
	}
	st, ok := info.TypeOf(lit).Underlying().(*types.Struct)
	if !ok {
		return nil, nil
	}
	for i, el := range lit.Elts {
		var f *types.Var
		v := el
		if kv, isKV := el.(*ast.KeyValueExpr); isKV {
			if id, isId := kv.Key.(*ast.Ident); isId {
				f, _ = info.Uses[id].(*types.Var)
			}
			v = kv.Value
		} else if i < st.NumFields() {
			f = st.Field(i)
		}
		switch o := objOf(info, v); {
		case o == nil || f == nil:
		case o == left:
			fl = f
		case o == right:
			fr = f
		}
	}
	return fl, fr
}

// fieldUse returns one occurrence of <o>.<f> under root.
func fieldUse(info *types.Info, root ast.Node, o types.Object, f *types.Var) ast.Expr {
	var out ast.Expr
	ast.Inspect(root, func(n ast.Node) bool {
		if sel, ok := n.(*ast.SelectorExpr); ok && out == nil && objOf(info, sel.X) == o && o != nil && core.FieldOf(info, sel) == f {
			out = sel
		}
		return true
	})
	return out
}

func isTrue(info *types.Info, e ast.Expr) bool {
	tv, ok := info.Types[e]
	return ok && tv.Value != nil && tv.Value.String() == "true"
}
