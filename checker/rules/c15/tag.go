package c15

import (
	"fmt"
	"go/ast"
	"go/token"
	"go/types"

	"golang.org/x/tools/go/cfg"

	"rscheck/cfgq"
	"rscheck/core"
	"rscheck/lin"
	"rscheck/pat"
)

// ---------------------------------------------------------------------------
// R3 hash-tag scan

type scan struct {
	c     *core.Ctx
	fn    *core.Fn
	info  *types.Info
	g     *cfgq.Graph
	key   types.Object
	name  string
	scanV map[types.Object]bool // index/range variables of the scan
}

// braceTest: atom compares an element of key with the constant ch; returns the
// index variable and whether the atom is the == form.
func (s *scan) braceTest(e ast.Expr, ch int64) (idx types.Object, eq, ok bool) {
	be, isBin := ast.Unparen(e).(*ast.BinaryExpr)
	if !isBin || be.Op != token.EQL && be.Op != token.NEQ {
		return nil, false, false
	}
	x, k := be.X, be.Y
	if v, isC := core.IntConst(s.info, x); isC && v == ch {
		x, k = be.Y, be.X
	}
	if v, isC := core.IntConst(s.info, k); !isC || v != ch {
		return nil, false, false
	}
	x = strip(s.info, x)
	if ie, isIdx := x.(*ast.IndexExpr); isIdx && objOf(s.info, ie.X) == s.key {
		return objOf(s.info, strip(s.info, ie.Index)), be.Op == token.EQL, objOf(s.info, strip(s.info, ie.Index)) != nil
	}
	// range value of `for i, ch := range key`
	if o := objOf(s.info, x); o != nil {
		var found types.Object
		ast.Inspect(s.fn.Decl.Body, func(n ast.Node) bool {
			if r, isR := n.(*ast.RangeStmt); isR && keyBytes(s.info, r.X, s.key) && r.Value != nil && objOf(s.info, r.Value) == o && r.Key != nil {
				found = objOf(s.info, r.Key)
			}
			return true
		})
		return found, be.Op == token.EQL, found != nil
	}
	return nil, false, false
}

// matchEdges lists (block, successor) pairs on which a brace test for ch has just succeeded.
func (s *scan) matchEdges(ch int64) (edges [][2]interface{}, idx []types.Object) {
	for _, b := range s.g.CFG.Blocks {
		cond := cfgq.CondOf(b)
		if !b.Live || cond == nil {
			continue
		}
		for si := range []bool{true, false} {
			if si >= len(b.Succs) {
				continue
			}
			for _, f := range edgeFacts(s.g, b, si) { // conditions carried in boolean locals included
				if o, eq, ok := s.braceTest(f.Expr, ch); ok && eq == f.Val {
					edges = append(edges, [2]interface{}{b, si})
					idx = append(idx, o)
				}
			}
		}
	}
	return
}

func (s *scan) isTest(ch int64) func(ast.Node) bool {
	return func(n ast.Node) bool {
		e, ok := n.(ast.Expr)
		if !ok {
			return false
		}
		for _, f := range expandLocals(s.g, append(cfgq.Facts(e, true), cfgq.Facts(e, false)...), e, 0) {
			if _, _, ok := s.braceTest(f.Expr, ch); ok {
				return true
			}
		}
		return false
	}
}

// flagEdge: the branch depends on something other than the key and the scan positions.
func (s *scan) flagEdge(b *cfg.Block, _ int) bool {
	cond := cfgq.CondOf(b)
	if cond == nil {
		return false
	}
	flag := false
	ast.Inspect(cond, func(n ast.Node) bool {
		if id, ok := n.(*ast.Ident); ok {
			switch o := s.info.Uses[id].(type) {
			case *types.Var:
				if o != s.key && !s.scanV[o] && !s.tagVar(o) {
					flag = true
				}
			case *types.Func:
				flag = true
			}
		}
		return true
	})
	return flag
}

// tagVar: o only ever holds a slice of the key (or the empty string): a
// condition on it is a condition on key content, not a control flag.
func (s *scan) tagVar(o types.Object) bool {
	found, other := false, false
	ast.Inspect(s.fn.Decl.Body, func(n ast.Node) bool {
		check := func(lhs, rhs ast.Expr) {
			if objOf(s.info, lhs) != o || rhs == nil {
				return
			}
			r := strip(s.info, rhs)
			if se, ok := r.(*ast.SliceExpr); ok && objOf(s.info, se.X) == s.key {
				found = true
				return
			}
			if v, ok := core.StringConst(s.info, r); ok && v == "" {
				return
			}
			other = true
		}
		switch st := n.(type) {
		case *ast.AssignStmt:
			if len(st.Lhs) == len(st.Rhs) {
				for i := range st.Lhs {
					check(st.Lhs[i], st.Rhs[i])
				}
			}
		case *ast.ValueSpec:
			for i, nm := range st.Names {
				if i < len(st.Values) {
					check(nm, st.Values[i])
				}
			}
		}
		return true
	})
	return found && !other
}

// tagDef: the node fixes the tag: it assigns a slice of key, or moves the
// position variable idx of the brace that was just matched.
func (s *scan) tagDef(idx types.Object) func(ast.Node) bool {
	return func(n ast.Node) bool {
		switch st := n.(type) {
		case *ast.AssignStmt:
			for _, r := range st.Rhs {
				if se, ok := strip(s.info, r).(*ast.SliceExpr); ok && objOf(s.info, se.X) == s.key {
					return true
				}
			}
			for _, l := range st.Lhs {
				if idx != nil && objOf(s.info, l) == idx {
					return true
				}
			}
		case *ast.IncDecStmt:
			return idx != nil && objOf(s.info, st.X) == idx
		}
		return false
	}
}

func tagScan(c *core.Ctx, fn *core.Fn, name string, crcFn *types.Func) {
	info := fn.Pkg.TypesInfo
	sig := fn.Obj.Type().(*types.Signature)
	if sig.Params().Len() != 1 {
		c.Undecidedf("R3.tag", name+"/skeleton", fn.Decl.Pos(), "%s must take the key as its only parameter", name)
		return
	}
	key := types.Object(sig.Params().At(0))
	// the scan may live in a same-package helper h(key) whose result is what gets hashed
	scanFn, scanKey := fn, key
	for _, hv := range hashedVals(info, fn, crcFn, key) {
		o := objOf(info, hv.expr)
		if hv.whole || o == nil {
			continue
		}
		if rhs, other := defsOf(info, fn.Decl.Body, o); len(rhs) == 1 && other == 0 && rhs[0] != nil {
			if hc, ok := ast.Unparen(rhs[0]).(*ast.CallExpr); ok && len(hc.Args) == 1 && objOf(info, hc.Args[0]) == key {
				if hf := c.FnOf(core.CalleeFunc(info, hc)); hf != nil && hf.Decl.Body != nil && hf.Obj.Pkg() == fn.Obj.Pkg() && hf.Obj != crcFn {
					scanFn, scanKey = hf, hf.Obj.Type().(*types.Signature).Params().At(0)
				}
			}
		}
	}
	if runeOffsets(c, scanFn, name, scanKey) {
		return
	}
	if !scanLoops(c, scanFn, name, scanKey) && !scanLib(c, scanFn, name, scanKey) {
		c.Undecidedf("R3.tag", name+"/skeleton", scanFn.Decl.Pos(), "%s locates the hash tag neither with one test for '{' and one for '}' nor with strings.Index* calls", scanFn.Decl.Name.Name)
		return
	}
	hashPart(c, fn, name, crcFn, key)
}

// keyBytes: e is the key itself or []byte(key): ranging over either yields byte
// offsets into the key ('{' and '}' are single bytes that no multi-byte
// sequence contains, so the rune decoded at a brace is the brace).
func keyBytes(info *types.Info, e ast.Expr, key types.Object) bool {
	e = ast.Unparen(e)
	if objOf(info, e) == key && key != nil {
		return true
	}
	call, ok := e.(*ast.CallExpr)
	if !ok || len(call.Args) != 1 || objOf(info, call.Args[0]) != key {
		return false
	}
	tv, isT := info.Types[call.Fun]
	if !isT || !tv.IsType() {
		return false
	}
	sl, isSl := tv.Type.Underlying().(*types.Slice)
	if !isSl {
		return false
	}
	b, isB := sl.Elem().Underlying().(*types.Basic)
	return isB && b.Kind() == types.Uint8
}

// runeOffsets: a position counted in RUNES (the index of a range over
// []rune(key)) is used as a BYTE offset into the key (key[i], key[i+1:k]). The
// two agree only while every character in front of the position is one byte
// long; the specification is about byte strings. Located and wrong whatever
// the rest of the scan looks like; reports true when it fired.
func runeOffsets(c *core.Ctx, fn *core.Fn, name string, keyObj types.Object) bool {
	info := fn.Pkg.TypesInfo
	body := fn.Decl.Body
	isRunesOfKey := func(e ast.Expr) bool {
		e = ast.Unparen(e)
		if o := objOf(info, e); o != nil && o != keyObj { // runes := []rune(key)
			if rhs, other := defsOf(info, body, o); len(rhs) == 1 && other == 0 && rhs[0] != nil {
				e = ast.Unparen(rhs[0])
			}
		}
		call, ok := e.(*ast.CallExpr)
		if !ok || len(call.Args) != 1 || objOf(info, call.Args[0]) != keyObj {
			return false
		}
		tv, isT := info.Types[call.Fun]
		if !isT || !tv.IsType() {
			return false
		}
		sl, isSl := tv.Type.Underlying().(*types.Slice)
		if !isSl {
			return false
		}
		b, isB := sl.Elem().Underlying().(*types.Basic)
		return isB && (b.Kind() == types.Int32 || b.Kind() == types.Rune)
	}
	runeIdx := map[types.Object]bool{}
	var loop *ast.RangeStmt
	ast.Inspect(body, func(n ast.Node) bool {
		if r, ok := n.(*ast.RangeStmt); ok && r.Key != nil && isRunesOfKey(r.X) {
			if o := objOf(info, r.Key); o != nil {
				runeIdx[o] = true
				loop = r
			}
		}
		return true
	})
	if len(runeIdx) == 0 {
		return false
	}
	mentions := func(e ast.Expr) bool {
		hit := false
		ast.Inspect(e, func(n ast.Node) bool {
			if id, ok := n.(*ast.Ident); ok && runeIdx[info.Uses[id]] {
				hit = true
			}
			return true
		})
		return hit
	}
	// positions computed from the rune index by plain arithmetic (k := i, start := i + 1)
	for changed := true; changed; {
		changed = false
		ast.Inspect(body, func(n ast.Node) bool {
			if as, ok := n.(*ast.AssignStmt); ok && len(as.Lhs) == len(as.Rhs) {
				for i, l := range as.Lhs {
					o := objOf(info, l)
					if o == nil || runeIdx[o] || !mentions(as.Rhs[i]) {
						continue
					}
					pure := true
					ast.Inspect(as.Rhs[i], func(m ast.Node) bool {
						switch m.(type) {
						case *ast.CallExpr, *ast.IndexExpr, *ast.SliceExpr:
							pure = false
						}
						return true
					})
					if b, isB := o.Type().Underlying().(*types.Basic); pure && isB && b.Info()&types.IsInteger != 0 {
						runeIdx[o], changed = true, true
					}
				}
			}
			return true
		})
	}
	var bad ast.Expr
	ast.Inspect(body, func(n ast.Node) bool {
		if bad != nil {
			return false
		}
		switch x := n.(type) {
		case *ast.IndexExpr:
			if objOf(info, x.X) == keyObj && mentions(x.Index) {
				bad = x
			}
		case *ast.SliceExpr:
			if objOf(info, x.X) == keyObj && (x.Low != nil && mentions(x.Low) || x.High != nil && mentions(x.High)) {
				bad = x
			}
		}
		return true
	})
	if bad == nil {
		return false
	}
	c.Check("R3.tag", name+"/byte-offsets", bad.Pos(), false,
		fmt.Sprintf("%s takes a position counted in runes (the index of `%s`) as a byte offset into the key: for a key with a multi-byte UTF-8 character in front of the '{' (\"caf\xc3\xa9:{user1000}:profile\") the tag is cut at the wrong offset (\"{user1000\" instead of \"user1000\") or the slice bounds are inverted and the function panics; Redis Cluster hashes byte strings", c.Src(bad), c.Src(loop.X)))
	return true
}

// scanLoops checks the hand-written scan; false when fn has no such scan.
func scanLoops(c *core.Ctx, fn *core.Fn, name string, keyObj types.Object) bool {
	info := fn.Pkg.TypesInfo
	s := &scan{c: c, fn: fn, info: info, g: cfgq.Of(c.Program, fn), key: keyObj, name: name, scanV: map[types.Object]bool{}}
	// scan variables: indices into key, range variables over key
	ast.Inspect(fn.Decl.Body, func(n ast.Node) bool {
		switch x := n.(type) {
		case *ast.IndexExpr:
			if objOf(info, x.X) == s.key {
				if o := objOf(info, strip(info, x.Index)); o != nil {
					s.scanV[o] = true
				}
			}
		case *ast.RangeStmt:
			if keyBytes(info, x.X, s.key) {
				for _, e := range []ast.Expr{x.Key, x.Value} {
					if e != nil && objOf(info, e) != nil {
						s.scanV[objOf(info, e)] = true
					}
				}
			}
		}
		return true
	})
	var slices []*ast.SliceExpr
	ast.Inspect(fn.Decl.Body, func(n ast.Node) bool {
		if se, ok := n.(*ast.SliceExpr); ok && objOf(info, se.X) == s.key {
			slices = append(slices, se)
		}
		return true
	})
	openE, openIdx := s.matchEdges('{')
	closeE, closeIdx := s.matchEdges('}')
	if len(openE) == 0 && len(closeE) == 0 {
		return false
	}
	if len(openE) == 1 && len(closeE) == 0 && len(slices) > 0 {
		// mixed form: '{' found by a hand-written test, '}' by a library search
		if mixedClose(c, s, fn, name, openE[0], openIdx[0], slices) {
			return true
		}
	}
	if len(openE) != 1 || len(closeE) != 1 || len(slices) == 0 {
		c.Undecidedf("R3.tag", name+"/skeleton", fn.Decl.Pos(), "expected one test for '{', one for '}' and a slice of the key in %s; found %d, %d, %d", name, len(openE), len(closeE), len(slices))
		return true
	}
	isOpen := s.isTest('{')
	s.again("first-open", openE[0], openIdx[0], '{', nil, `"{a}{b}" hashes "b", "{}{x}" hashes "x" instead of the whole key`,
		"after a '{' was found the scan goes on looking for further '{' and overwrites the tag: the last {...} wins, the specification takes the first '{' only")
	s.again("first-close", closeE[0], closeIdx[0], '}', isOpen, `"{a}b}" hashes "a}b"`,
		"after a '}' was found the scan for '}' continues and moves the end of the tag: the specification ends the tag at the first '}' after the first '{'")

	// (D) tag = key[open+1 : close]
	for _, se := range slices {
		key := name + "/bounds"
		if se.Low == nil || se.High == nil {
			c.Undecidedf("R3.tag", key, se.Pos(), "unrecognised tag slice %s", c.Src(se))
			continue
		}
		lo, lok := offsetFrom(info, se.Low, openIdx[0])
		hi, hok := offsetFrom(info, se.High, closeIdx[0])
		if !lok { // the position carried out of the scan in a variable
			lo, lok = s.carried(se, se.Low, openIdx[0], openE[0])
		}
		if !hok {
			hi, hok = s.carried(se, se.High, closeIdx[0], closeE[0])
		}
		if !lok || !hok {
			c.Undecidedf("R3.tag", key, se.Pos(), "tag slice %s is not expressed through the positions of the matched braces", c.Src(se))
			continue
		}
		c.Check("R3.tag", key, se.Pos(), lo == 1 && hi == 0,
			fmt.Sprintf("the tag must be key[open+1 : close] (found %s): otherwise a brace is hashed with the tag and {user}:a / {user}:b stop sharing a slot with the specification's result", c.Src(se)))
	}
	// (E) the search for '}' starts at or right after the '{'
	cb := closeE[0][0].(*cfg.Block)
	var inner *ast.ForStmt
	for _, n := range core.PathTo(fn.Decl.Body, cfgq.CondOf(cb)) {
		if f, ok := n.(*ast.ForStmt); ok {
			inner = f
		}
	}
	if as, ok := initOf(inner); ok && objOf(info, as.Lhs[0]) == closeIdx[0] {
		off, ok := offsetFrom(info, as.Rhs[0], openIdx[0])
		if _, isConst := core.IntConst(info, as.Rhs[0]); isConst {
			c.Check("R3.tag", name+"/scan-start", as.Pos(), false,
				fmt.Sprintf("the search for '}' starts at a fixed position (%s) instead of at the '{' found: a '}' before the '{' ends the tag (key \"}{a}\" gives an inverted slice / the wrong tag)", c.Src(as)))
		} else if !ok {
			c.Undecidedf("R3.tag", name+"/scan-start", as.Pos(), "start of the '}' search %s is not relative to the '{' position", c.Src(as))
		} else {
			c.Check("R3.tag", name+"/scan-start", as.Pos(), off == 0 || off == 1,
				fmt.Sprintf("the search for '}' must start at the '{' found (found %s): a '}' before the '{' must be ignored (key \"}{a}\")", c.Src(as)))
		}
	} else {
		c.Undecidedf("R3.tag", name+"/scan-start", fn.Decl.Pos(), "cannot find where the search for '}' starts")
	}
	return true
}

// hashPart: (C) the tag is hashed only when non-empty, otherwise the whole key.
// hashedVal is one value that reaches the CRC: the whole key or a candidate tag,
// together with the program point where it is committed (the call itself, or
// the assignment to a local that carries the value to the call).
type hashedVal struct {
	expr  ast.Expr
	at    ast.Node
	whole bool
}

// hashedVals lists what is handed to crcFn in fn. A local one of whose
// definitions is the key itself is a carrier (`hashed := key; if ... { hashed = tag }`):
// each of its definitions is a value of its own.
func hashedVals(info *types.Info, fn *core.Fn, crcFn *types.Func, keyObj types.Object) []hashedVal {
	var out []hashedVal
	for _, call := range core.Calls(fn.Decl.Body, info, func(_ *ast.CallExpr, o types.Object) bool { return o == types.Object(crcFn) }) {
		if len(call.Args) != 1 {
			continue
		}
		arg := strip(info, call.Args[0])
		o := objOf(info, arg)
		if o == keyObj && o != nil {
			out = append(out, hashedVal{expr: arg, at: call, whole: true})
			continue
		}
		carrier := false
		type def struct {
			rhs ast.Expr
			at  ast.Node
		}
		var defs []def
		if o != nil {
			ast.Inspect(fn.Decl.Body, func(n ast.Node) bool {
				if as, ok := n.(*ast.AssignStmt); ok && len(as.Lhs) == len(as.Rhs) && (as.Tok == token.ASSIGN || as.Tok == token.DEFINE) {
					for i, l := range as.Lhs {
						if objOf(info, l) == o {
							defs = append(defs, def{as.Rhs[i], as})
							if objOf(info, strip(info, as.Rhs[i])) == keyObj {
								carrier = true
							}
						}
					}
				}
				return true
			})
			if _, other := defsOf(info, fn.Decl.Body, o); other != 0 {
				carrier = false
			}
		}
		if !carrier {
			out = append(out, hashedVal{expr: arg, at: call})
			continue
		}
		for _, d := range defs {
			r := strip(info, d.rhs)
			out = append(out, hashedVal{expr: r, at: d.at, whole: objOf(info, r) == keyObj})
		}
	}
	return out
}

// hashPart: (C) the tag is hashed only when non-empty, otherwise the whole key.
func hashPart(c *core.Ctx, fn *core.Fn, name string, crcFn *types.Func, keyObj types.Object) {
	info := fn.Pkg.TypesInfo
	g := cfgq.Of(c.Program, fn)
	whole, tagged := 0, 0
	for _, hv := range hashedVals(info, fn, crcFn, keyObj) {
		if hv.whole {
			whole++
			continue
		}
		tagged++
		arg := hv.expr
		key := name + "/nonempty"
		p, found := g.Find(hv.at)
		if !found {
			c.Undecidedf("R3.tag", key, hv.at.Pos(), "the place where %s is chosen for hashing is not in the control-flow graph", c.Src(arg))
			continue
		}
		ok, w := onlyVia(g, p, nonEmpty(info, arg))
		if ok {
			c.Okf("R3.tag", key, hv.at.Pos(), "%s is hashed only when it is known to be non-empty", c.Src(arg))
			continue
		}
		// positive evidence only: nothing in the function relates the tag's two ends / its length
		definite := emptinessTests(info, fn.Decl.Body, arg, crcFn) == 0
		if o := objOf(info, arg); definite && o != nil {
			rhs, other := defsOf(info, fn.Decl.Body, o)
			definite = other == 0
			for _, r := range rhs {
				if r == nil {
					continue
				}
				sv, isStr := core.StringConst(info, r)
				_, isSl := strip(info, r).(*ast.SliceExpr)
				if !(isStr && sv == "") && !isSl {
					definite = false
				}
			}
		}
		if definite {
			c.Check("R3.tag", key, hv.at.Pos(), false, "an empty hash tag is hashed instead of falling back to the whole key (key \"{}x\" must hash \"{}x\", not \"\")", w...)
		} else {
			c.Undecidedf("R3.tag", key, hv.at.Pos(), "cannot tell whether %s may be empty when hashed", c.Src(arg))
		}
	}
	if tagged == 0 {
		c.Undecidedf("R3.tag", name+"/nonempty", fn.Decl.Pos(), "no call hashing the tag found")
	}
	if whole == 0 {
		c.Undecidedf("R3.tag", name+"/fallback", fn.Decl.Pos(), "no call hashing the whole key found")
	} else {
		c.Okf("R3.tag", name+"/fallback", fn.Decl.Pos(), "%d path(s) hash the whole key", whole)
	}
}

func orNil(f func(ast.Node) bool) func(ast.Node) bool {
	if f == nil {
		return func(ast.Node) bool { return false }
	}
	return f
}

func initOf(f *ast.ForStmt) (*ast.AssignStmt, bool) {
	if f == nil || f.Init == nil {
		return nil, false
	}
	as, ok := f.Init.(*ast.AssignStmt)
	return as, ok && len(as.Lhs) == 1 && len(as.Rhs) == 1
}

// offsetFrom: e == base + k for a variable base and constant k.
func offsetFrom(info *types.Info, e ast.Expr, base types.Object) (int64, bool) {
	e = strip(info, e)
	if objOf(info, e) == base && base != nil {
		return 0, true
	}
	be, ok := e.(*ast.BinaryExpr)
	if !ok || be.Op != token.ADD && be.Op != token.SUB {
		return 0, false
	}
	if k, ok := core.IntConst(info, be.Y); ok && objOf(info, strip(info, be.X)) == base {
		if be.Op == token.SUB {
			k = -k
		}
		return k, true
	}
	if k, ok := core.IntConst(info, be.X); ok && be.Op == token.ADD && objOf(info, strip(info, be.Y)) == base {
		return k, true
	}
	return 0, false
}

// carried: e is C or C+k for a local C that carries a brace position out of the
// scan: its only non-zero assignment is `C = base+j`, made where the brace test
// (edge) has just succeeded, and the use is reached only after that assignment
// with no reset in between. Returns j+k.
func (s *scan) carried(use ast.Node, e ast.Expr, base types.Object, edge [2]interface{}) (int64, bool) {
	info := s.info
	e = strip(info, e)
	k := int64(0)
	co := objOf(info, e)
	if be, ok := e.(*ast.BinaryExpr); ok && (be.Op == token.ADD || be.Op == token.SUB) {
		if v, isC := core.IntConst(info, be.Y); isC {
			co, k = objOf(info, strip(info, be.X)), v
			if be.Op == token.SUB {
				k = -k
			}
		} else if v, isC := core.IntConst(info, be.X); isC && be.Op == token.ADD {
			co, k = objOf(info, strip(info, be.Y)), v
		}
	}
	if co == nil || co == base {
		return 0, false
	}
	isZero := func(r ast.Expr) bool {
		if r == nil {
			return true
		}
		if v, isC := core.IntConst(info, r); isC {
			return v == 0
		}
		if st, ok := ast.Unparen(r).(*ast.StarExpr); ok { // *new(int)
			if call, ok := ast.Unparen(st.X).(*ast.CallExpr); ok && len(call.Args) == 1 {
				if b, isB := core.Callee(info, call).(*types.Builtin); isB && b.Name() == "new" {
					return true
				}
			}
		}
		return false
	}
	var real ast.Expr
	var realStmt ast.Node
	var zeros []ast.Node
	bad := false
	ast.Inspect(s.fn.Decl.Body, func(n ast.Node) bool {
		switch x := n.(type) {
		case *ast.AssignStmt:
			for i, l := range x.Lhs {
				if objOf(info, l) != co {
					continue
				}
				r := core.AssignedTo(x, i)
				switch {
				case r == nil || x.Tok != token.ASSIGN && x.Tok != token.DEFINE:
					bad = true
				case isZero(r):
					zeros = append(zeros, x)
				case real != nil:
					bad = true
				default:
					real, realStmt = r, x
				}
			}
		case *ast.IncDecStmt:
			if objOf(info, x.X) == co {
				bad = true
			}
		case *ast.ValueSpec:
			for i, nm := range x.Names {
				if info.Defs[nm] == co && i < len(x.Values) && !isZero(x.Values[i]) {
					bad = true
				}
			}
		case *ast.UnaryExpr:
			if x.Op == token.AND && objOf(info, x.X) == co {
				bad = true
			}
		}
		return true
	})
	if bad || real == nil {
		return 0, false
	}
	j, ok := offsetFrom(info, real, base)
	if !ok {
		return 0, false
	}
	dp, ok1 := s.g.Find(realStmt)
	up, ok2 := s.g.Find(use)
	if !ok1 || !ok2 {
		return 0, false
	}
	// recorded only where the brace was found
	eb, es := edge[0].(*cfg.Block), edge[1].(int)
	if w := s.g.Path(cfgq.Query{From: s.g.Entry(), Target: func(n ast.Node) bool { return n == dp.Node() }, AvoidEdge: func(b *cfg.Block, si int) bool { return b == eb && si == es }}); w != nil {
		return 0, false
	}
	// used only with the recorded value
	isReal := func(n ast.Node) bool { return n == dp.Node() }
	isUse := func(n ast.Node) bool { return n == up.Node() }
	if w := s.g.Path(cfgq.Query{From: s.g.Entry(), Avoid: isReal, Target: isUse}); w != nil {
		return 0, false
	}
	for _, z := range zeros {
		zp, ok := s.g.Find(z)
		if !ok {
			return 0, false
		}
		if w := s.g.Path(cfgq.Query{From: zp, After: true, Avoid: isReal, Target: isUse}); w != nil {
			return 0, false
		}
	}
	return j + k, true
}

// nonEmpty recognises the facts that make the hashed tag expression non-empty.
func nonEmpty(info *types.Info, arg ast.Expr) func(cfgq.Fact) bool {
	type pv struct {
		p   *pat.Pattern
		val bool
	}
	var ps []pv
	b := pat.Binds{}
	if se, ok := arg.(*ast.SliceExpr); ok && se.Low != nil && se.High != nil {
		b["_lo"], b["_hi"] = se.Low, se.High
		ps = []pv{{pat.Expr("_hi == _lo"), false}, {pat.Expr("_hi != _lo"), true}, {pat.Expr("_hi > _lo"), true}, {pat.Expr("_hi <= _lo"), false}}
	} else {
		b["_t"] = arg
		ps = []pv{{pat.Expr("len(_t) > 0"), true}, {pat.Expr("len(_t) != 0"), true}, {pat.Expr("len(_t) == 0"), false}, {pat.Expr("len(_t) >= 1"), true},
			{pat.Expr("len(_t) < 1"), false}, {pat.Expr(`_t != ""`), true}, {pat.Expr(`_t == ""`), false}}
	}
	return func(f cfgq.Fact) bool {
		for _, x := range ps {
			if x.val == f.Val && x.p.Match(info, f.Expr, b) != nil {
				return true
			}
		}
		// any spelling of hi - lo > 0 (e.g. `end > 0` for key[open+1 : open+1+end])
		if se, ok := arg.(*ast.SliceExpr); ok && se.Low != nil && se.High != nil {
			if cmp, ok := lin.CmpOf(info, f.Expr, f.Val); ok {
				lo, hi := lin.Of(info, se.Low), lin.Of(info, se.High)
				diff := lin.Form{Coef: map[string]int64{}, Const: lo.Const - hi.Const} // lo - hi
				for k, v := range lo.Coef {
					diff.Coef[k] += v
				}
				for k, v := range hi.Coef {
					diff.Coef[k] -= v
				}
				for k, v := range diff.Coef {
					if v == 0 {
						delete(diff.Coef, k)
					}
				}
				if cmp.Is(diff, token.LSS) { // lo - hi < 0
					return true
				}
			}
		}
		return false
	}
}

// emptinessTests counts the expressions that could decide whether the hashed
// tag is empty: comparisons involving the tag variable (or both bounds of the
// tag slice) and calls, other than the CRC and len, that receive it.
func emptinessTests(info *types.Info, body ast.Node, arg ast.Expr, crcFn *types.Func) int {
	mentions := func(e ast.Expr, o types.Object) bool {
		hit := false
		ast.Inspect(e, func(n ast.Node) bool {
			if id, ok := n.(*ast.Ident); ok && o != nil && info.Uses[id] == o {
				hit = true
			}
			return true
		})
		return hit
	}
	var lo, hi, tag types.Object
	boundVars := map[types.Object]bool{}
	if se, ok := arg.(*ast.SliceExpr); ok && se.Low != nil && se.High != nil {
		for _, b := range []ast.Expr{se.Low, se.High} {
			ast.Inspect(b, func(n ast.Node) bool {
				if id, ok := n.(*ast.Ident); ok {
					if v, ok := info.Uses[id].(*types.Var); ok {
						boundVars[v] = true
					}
				}
				return true
			})
		}
	} else {
		tag = objOf(info, arg)
	}
	n := 0
	for v := range boundVars { // a comparison involving any variable of the bounds may be what guarantees hi > lo
		ast.Inspect(body, func(m ast.Node) bool {
			if x, ok := m.(*ast.BinaryExpr); ok {
				switch x.Op {
				case token.EQL, token.NEQ, token.LSS, token.GTR, token.LEQ, token.GEQ:
					if mentions(x.X, v) || mentions(x.Y, v) {
						n++
					}
				}
			}
			return true
		})
	}
	ast.Inspect(body, func(m ast.Node) bool {
		switch x := m.(type) {
		case *ast.BinaryExpr:
			switch x.Op {
			case token.EQL, token.NEQ, token.LSS, token.GTR, token.LEQ, token.GEQ:
				if tag != nil && (mentions(x.X, tag) || mentions(x.Y, tag)) {
					n++
				}
				if lo != nil && hi != nil && (mentions(x.X, lo) && mentions(x.Y, hi) || mentions(x.X, hi) && mentions(x.Y, lo)) {
					n++
				}
			}
		case *ast.CallExpr:
			if f := core.CalleeFunc(info, x); f != nil && f != crcFn {
				for _, a := range x.Args {
					if tag != nil && mentions(a, tag) {
						n++
					}
				}
			}
		}
		return true
	})
	return n
}

// again checks (A)/(B): after a match the same search is never resumed.
func (s *scan) again(what string, edge [2]interface{}, idx types.Object, ch int64, avoid func(ast.Node) bool, wit, consequence string) {
	c, name := s.c, s.name
	def := s.tagDef(idx)
	b, si := edge[0].(*cfg.Block), edge[1].(int)
	from := cfgq.Point{B: b.Succs[si], I: 0}
	test := s.isTest(ch)
	key := name + "/" + what
	pos := cfgq.CondOf(b).Pos()
	anyPath := s.g.Path(cfgq.Query{From: from, Target: test, Avoid: avoid})
	if anyPath == nil {
		c.Okf("R3.tag", key, pos, "once %q has been found the search for it is never resumed", rune(ch))
		return
	}
	// a path that fixes the tag and comes back without consulting any flag
	for _, p := range s.g.Points(def) {
		dn := p.Node()
		w1 := s.g.Path(cfgq.Query{From: from, Target: func(n ast.Node) bool { return n == dn }, Avoid: cfgq.Or(test, orNil(avoid)), AvoidEdge: s.flagEdge})
		w2 := s.g.Path(cfgq.Query{From: p, After: true, Target: test, Avoid: avoid, AvoidEdge: s.flagEdge})
		if w1 != nil && w2 != nil {
			c.Check("R3.tag", key, pos, false, consequence+" (e.g. key "+wit+")", append(w1, w2...)...)
			return
		}
	}
	c.Undecidedf("R3.tag", key, pos, "the search for %q can be resumed after a match, but only under conditions this rule does not interpret", rune(ch))
}
