package c15

import (
	"fmt"
	"go/ast"
	"go/token"
	"go/types"

	"rscheck/cfgq"
	"rscheck/core"
)

// scanLib checks a hash-tag extractor written with the strings library:
//
//	open := strings.IndexByte(key, '{')          first '{' by library contract
//	rest := key[open+1:]
//	end  := strings.IndexByte(rest, '}')         first '}' after it
//	tag  := rest[:end]            (or key[open+1 : open+1+end])
//
// false when fn contains no such search.
func scanLib(c *core.Ctx, fn *core.Fn, name string, keyObj types.Object) bool {
	info := fn.Pkg.TypesInfo
	body := fn.Decl.Body
	type search struct {
		call   *ast.CallExpr
		in     ast.Expr
		ch     int64
		last   bool
		result types.Object
	}
	var found []search
	ast.Inspect(body, func(n ast.Node) bool {
		call, ok := n.(*ast.CallExpr)
		f := core.CalleeFunc(info, orCallExpr(call))
		if !ok || f == nil || f.Pkg() == nil || f.Pkg().Path() != "strings" && f.Pkg().Path() != "bytes" || len(call.Args) != 2 {
			return true
		}
		var last bool
		switch f.Name() {
		case "IndexByte", "IndexRune", "Index":
		case "LastIndexByte", "LastIndex":
			last = true
		default:
			return true
		}
		ch := int64(-1)
		if v, ok := core.IntConst(info, call.Args[1]); ok {
			ch = v
		} else if sv, ok := core.StringConst(info, call.Args[1]); ok && len(sv) == 1 {
			ch = int64(sv[0])
		}
		if ch != '{' && ch != '}' {
			return true
		}
		found = append(found, search{call: call, in: call.Args[0], ch: ch, last: last})
		return true
	})
	if len(found) == 0 {
		return false
	}
	und := func(what, f string, a ...interface{}) { c.Undecidedf("R3.tag", name+"/"+what, fn.Decl.Pos(), f, a...) }
	var op, cl *search
	for i := range found {
		// the variable receiving the result
		ast.Inspect(body, func(n ast.Node) bool {
			if as, ok := n.(*ast.AssignStmt); ok && len(as.Lhs) == 1 && len(as.Rhs) == 1 && ast.Unparen(as.Rhs[0]) == ast.Expr(found[i].call) {
				found[i].result = objOf(info, as.Lhs[0])
			}
			return true
		})
		if found[i].ch == '{' && op == nil {
			op = &found[i]
		} else if found[i].ch == '}' && cl == nil {
			cl = &found[i]
		} else {
			und("skeleton", "more than one library search for %q", rune(found[i].ch))
			return true
		}
	}
	tds := &defs{info: info, body: fn.Decl.Body, g: cfgq.Of(c.Program, fn)}
	single := func(o types.Object) bool {
		// one real assignment (a zero initialiser before it does not count when the
		// assignment comes before every read)
		return o != nil && tds.defOf(o) != nil
	}
	if op == nil || cl == nil || !single(op.result) || !single(cl.result) {
		und("skeleton", "expected `open := strings.IndexByte(key, '{')` and `end := strings.IndexByte(rest, '}')` bound to single-assignment variables")
		return true
	}
	// first-open
	if o := objOf(info, tds.chase(op.in)); o != keyObj {
		und("first-open", "the search for '{' is not over the whole key")
	} else {
		c.Check("R3.tag", name+"/first-open", op.call.Pos(), !op.last,
			fmt.Sprintf("%s finds the LAST '{': the last {...} wins, the specification takes the first '{' only (key \"{a}{b}\" hashes \"b\")", c.Src(op.call.Fun)))
	}
	// lin2: e = co*open + ce*end + k
	var lin2 func(e ast.Expr, depth int) (co, ce, k int64, ok bool)
	lin2 = func(e ast.Expr, depth int) (int64, int64, int64, bool) {
		e = strip(info, e)
		if v, isC := core.IntConst(info, e); isC {
			return 0, 0, v, true
		}
		switch x := e.(type) {
		case *ast.Ident:
			o := objOf(info, x)
			if o == op.result {
				return 1, 0, 0, true
			}
			if o == cl.result {
				return 0, 1, 0, true
			}
			if d := tds.defOf(o); depth < 4 && d != nil {
				return lin2(d, depth+1)
			}
		case *ast.BinaryExpr:
			a1, b1, k1, ok1 := lin2(x.X, depth+1)
			a2, b2, k2, ok2 := lin2(x.Y, depth+1)
			if ok1 && ok2 && x.Op == token.ADD {
				return a1 + a2, b1 + b2, k1 + k2, true
			}
			if ok1 && ok2 && x.Op == token.SUB {
				return a1 - a2, b1 - b2, k1 - k2, true
			}
		}
		return 0, 0, 0, false
	}
	// base of an expression in key coordinates: key itself, or a suffix key[open+off:] possibly named
	var baseOf func(e ast.Expr, depth int) (co, k int64, ok bool)
	baseOf = func(e ast.Expr, depth int) (int64, int64, bool) {
		e = ast.Unparen(e)
		if o := objOf(info, e); o != nil {
			if o == keyObj {
				return 0, 0, true
			}
			if d := tds.defOf(o); depth < 4 && d != nil {
				return baseOf(d, depth+1)
			}
			return 0, 0, false
		}
		if se, ok := e.(*ast.SliceExpr); ok && se.High == nil && se.Low != nil {
			bo, bk, ok := baseOf(se.X, depth+1)
			co, ce, k, ok2 := lin2(se.Low, 0)
			if ok && ok2 && ce == 0 {
				return bo + co, bk + k, true
			}
		}
		return 0, 0, false
	}
	// scan-start / first-close: '}' is searched in key[open+off:], off in {0,1}
	so, soff, okS := baseOf(cl.in, 0)
	switch {
	case !okS:
		und("scan-start", "cannot relate the text searched for '}' (%s) to the position of '{'", c.Src(cl.in))
	case so == 0:
		c.Check("R3.tag", name+"/scan-start", cl.call.Pos(), false, fmt.Sprintf("the search for '}' runs over %s, not over the text after the '{' found: a '}' before the '{' ends the tag (key \"}{a}\")", c.Src(cl.in)))
	default:
		c.Check("R3.tag", name+"/scan-start", cl.call.Pos(), so == 1 && (soff == 0 || soff == 1),
			fmt.Sprintf("the search for '}' must start at the '{' found (found %s)", c.Src(cl.in)))
	}
	c.Check("R3.tag", name+"/first-close", cl.call.Pos(), !cl.last,
		fmt.Sprintf("%s finds the LAST '}': the specification ends the tag at the first '}' after the first '{' (key \"{a}b}\" hashes \"a}b\")", c.Src(cl.call.Fun)))
	// bounds: every slice with an upper bound is the tag: [open+1, position of '}')
	g := cfgq.Of(c.Program, fn)
	nb := 0
	ast.Inspect(body, func(n ast.Node) bool {
		se, ok := n.(*ast.SliceExpr)
		if !ok || se.High == nil {
			return true
		}
		bo, bk, okB := baseOf(se.X, 0)
		if !okB {
			return true
		}
		nb++
		lo, le, lk := int64(0), int64(0), int64(0)
		okL := true
		if se.Low != nil {
			lo, le, lk, okL = lin2(se.Low, 0)
		}
		ho, he, hk, okH := lin2(se.High, 0)
		if !okL || !okH || !okS {
			c.Undecidedf("R3.tag", name+"/bounds", se.Pos(), "tag slice %s is not expressed through the results of the two searches", c.Src(se))
			return true
		}
		// absolute positions in key: base + bound; '}' sits at so*open + soff + end
		good := bo+lo == 1 && le == 0 && bk+lk == 1 && bo+ho == so && he == 1 && bk+hk == soff
		c.Check("R3.tag", name+"/bounds", se.Pos(), good,
			fmt.Sprintf("the tag must be key[open+1 : close] (found %s): otherwise a brace is hashed with the tag, or the tag is cut at the wrong place", c.Src(se)))
		// not-found results (-1) must not reach the slice
		if p, ok := g.Find(se); ok {
			for _, v := range []struct {
				o    types.Object
				what string
			}{{op.result, "'{'"}, {cl.result, "'}'"}} {
				v := v
				okF, _ := onlyVia(g, p, func(f cfgq.Fact) bool { return nonNegative(info, f, v.o) })
				tests := 0
				ast.Inspect(body, func(m ast.Node) bool {
					if be, ok := m.(*ast.BinaryExpr); ok && (objOf(info, strip(info, be.X)) == v.o || objOf(info, strip(info, be.Y)) == v.o) {
						switch be.Op {
						case token.LSS, token.LEQ, token.GTR, token.GEQ, token.EQL, token.NEQ:
							tests++
						}
					}
					return true
				})
				k := name + "/not-found"
				switch {
				case okF:
					c.Okf("R3.tag", k, se.Pos(), "the tag is cut only when %s was found", v.what)
				case tests == 0:
					c.Check("R3.tag", k, se.Pos(), false, fmt.Sprintf("the result of the search for %s is never tested: for a key without it the index is -1 and a wrong piece of the key is hashed instead of the whole key", v.what))
				default:
					c.Undecidedf("R3.tag", k, se.Pos(), "cannot see that the tag is cut only when %s was found", v.what)
				}
			}
		}
		return true
	})
	if nb == 0 {
		und("bounds", "no slice producing the tag found")
	}
	return true
}

func orCallExpr(c *ast.CallExpr) *ast.CallExpr {
	if c == nil {
		return &ast.CallExpr{Fun: &ast.Ident{Name: "_"}}
	}
	return c
}

// nonNegative: the fact establishes o >= 0 (the library search succeeded).
func nonNegative(info *types.Info, f cfgq.Fact, o types.Object) bool {
	be, ok := ast.Unparen(f.Expr).(*ast.BinaryExpr)
	if !ok {
		return false
	}
	x, y, op := be.X, be.Y, be.Op
	if objOf(info, strip(info, y)) == o {
		x, y = y, x
		if m, has := map[token.Token]token.Token{token.LSS: token.GTR, token.GTR: token.LSS, token.LEQ: token.GEQ, token.GEQ: token.LEQ}[op]; has {
			op = m
		}
	}
	k, isC := core.IntConst(info, y)
	if objOf(info, strip(info, x)) != o || !isC {
		return false
	}
	if !f.Val {
		neg, has := map[token.Token]token.Token{token.EQL: token.NEQ, token.NEQ: token.EQL, token.LSS: token.GEQ, token.GEQ: token.LSS, token.GTR: token.LEQ, token.LEQ: token.GTR}[op]
		if !has {
			return false
		}
		op = neg
	}
	switch op { // o op k
	case token.GEQ:
		return k >= 0
	case token.GTR:
		return k >= -1
	case token.NEQ:
		return k == -1
	}
	return false
}

// libSearchFor lists the library searches (strings/bytes Index*, LastIndex*)
// for the byte ch in body: the call, the text searched, whether it finds the
// last occurrence, and the single-assignment variable receiving the result.
type libHit struct {
	call   *ast.CallExpr
	in     ast.Expr
	last   bool
	result types.Object
}

func libSearchFor(info *types.Info, body ast.Node, ch int64) []libHit {
	var out []libHit
	ast.Inspect(body, func(n ast.Node) bool {
		call, ok := n.(*ast.CallExpr)
		f := core.CalleeFunc(info, orCallExpr(call))
		if !ok || f == nil || f.Pkg() == nil || f.Pkg().Path() != "strings" && f.Pkg().Path() != "bytes" || len(call.Args) != 2 {
			return true
		}
		last := false
		switch f.Name() {
		case "IndexByte", "IndexRune", "Index":
		case "LastIndexByte", "LastIndex":
			last = true
		default:
			return true
		}
		got := int64(-1)
		if v, ok := core.IntConst(info, call.Args[1]); ok {
			got = v
		} else if sv, ok := core.StringConst(info, call.Args[1]); ok && len(sv) == 1 {
			got = int64(sv[0])
		}
		if got == ch {
			out = append(out, libHit{call: call, in: call.Args[0], last: last})
		}
		return true
	})
	for i := range out {
		ast.Inspect(body, func(n ast.Node) bool {
			if as, ok := n.(*ast.AssignStmt); ok && len(as.Lhs) == 1 && len(as.Rhs) == 1 && ast.Unparen(as.Rhs[0]) == ast.Expr(out[i].call) {
				out[i].result = objOf(info, as.Lhs[0])
			}
			return true
		})
	}
	return out
}

// mixedClose: the '{' is found by a hand-written test (position variable
// open), the '}' by one library search. The search must run over the text that
// starts at the '{' found (key[open:] or key[open+1:]); a search over the whole
// key is wrong: a '}' in front of the '{' shadows the real one (key "a}b{tag}c").
func mixedClose(c *core.Ctx, s *scan, fn *core.Fn, name string, openEdge [2]interface{}, open types.Object, slices []*ast.SliceExpr) bool {
	info := s.info
	hits := libSearchFor(info, fn.Decl.Body, '}')
	if len(hits) != 1 || hits[0].result == nil || open == nil {
		return false
	}
	h := hits[0]
	if rhs, other := defsOf(info, fn.Decl.Body, h.result); len(rhs) != 1 || other != 0 {
		return false
	}
	s.again("first-open", openEdge, open, '{', nil, `"{a}{b}" hashes "b", "{}{x}" hashes "x" instead of the whole key`,
		"after a '{' was found the scan goes on looking for further '{' and overwrites the tag: the last {...} wins, the specification takes the first '{' only")
	c.Check("R3.tag", name+"/first-close", h.call.Pos(), !h.last,
		fmt.Sprintf("%s finds the LAST '}': the specification ends the tag at the first '}' after the first '{' (key \"{a}b}\" hashes \"a}b\")", c.Src(h.call.Fun)))
	// where does the search start, relative to the '{' ?
	whole := objOf(info, strip(info, h.in)) == s.key
	off, rel := int64(0), false
	if se, ok := ast.Unparen(h.in).(*ast.SliceExpr); ok && objOf(info, se.X) == s.key && se.High == nil && se.Low != nil {
		off, rel = offsetFrom(info, se.Low, open)
	}
	switch {
	case whole:
		c.Check("R3.tag", name+"/scan-start", h.call.Pos(), false,
			fmt.Sprintf("the search for '}' runs over the whole key (%s), not over the text after the '{' found: a '}' in front of the '{' is found first, so for \"a}b{tag}c\" no tag is recognised and the whole key is hashed instead of \"tag\"", c.Src(h.call)))
	case rel:
		c.Check("R3.tag", name+"/scan-start", h.call.Pos(), off == 0 || off == 1,
			fmt.Sprintf("the search for '}' must start at the '{' found (found %s): a '}' before the '{' must be ignored, an empty tag {} must be seen", c.Src(h.in)))
	default:
		c.Undecidedf("R3.tag", name+"/scan-start", h.call.Pos(), "cannot relate the text searched for '}' (%s) to the position of '{'", c.Src(h.in))
	}
	// tag = key[open+1 : position of '}'] with the position being off+result (relative search) or result (whole key)
	for _, se := range slices {
		if se.High == nil || se.Low == nil {
			continue // key[open+1:] handed to the search
		}
		lo, lok := offsetFrom(info, se.Low, open)
		// High = co*open + cr*result + k
		var lin2 func(e ast.Expr, depth int) (co, cr, k int64, ok bool)
		lin2 = func(e ast.Expr, depth int) (int64, int64, int64, bool) {
			e = strip(info, e)
			if v, isC := core.IntConst(info, e); isC {
				return 0, 0, v, true
			}
			switch x := e.(type) {
			case *ast.Ident:
				switch objOf(info, x) {
				case open:
					return 1, 0, 0, true
				case h.result:
					return 0, 1, 0, true
				}
				if rhs, other := defsOf(info, fn.Decl.Body, objOf(info, x)); depth < 4 && len(rhs) == 1 && other == 0 && rhs[0] != nil {
					return lin2(rhs[0], depth+1)
				}
			case *ast.BinaryExpr:
				a1, b1, k1, ok1 := lin2(x.X, depth+1)
				a2, b2, k2, ok2 := lin2(x.Y, depth+1)
				if ok1 && ok2 && x.Op == token.ADD {
					return a1 + a2, b1 + b2, k1 + k2, true
				}
				if ok1 && ok2 && x.Op == token.SUB {
					return a1 - a2, b1 - b2, k1 - k2, true
				}
			}
			return 0, 0, 0, false
		}
		co, cr, k, hok := lin2(se.High, 0)
		switch {
		case !lok || !hok || !(whole || rel):
			c.Undecidedf("R3.tag", name+"/bounds", se.Pos(), "tag slice %s is not expressed through the positions of the two braces", c.Src(se))
		case whole:
			c.Check("R3.tag", name+"/bounds", se.Pos(), lo == 1 && co == 0 && cr == 1 && k == 0,
				fmt.Sprintf("the tag must be key[open+1 : close] (found %s)", c.Src(se)))
		default:
			c.Check("R3.tag", name+"/bounds", se.Pos(), lo == 1 && co == 1 && cr == 1 && k == off,
				fmt.Sprintf("the tag must be key[open+1 : close], the '}' sitting at open+%d+result of the search (found %s): otherwise a brace is hashed with the tag or the tag is cut at the wrong place", off, c.Src(se)))
		}
	}
	// the tag is cut only when '}' was found
	g := s.g
	for _, se := range slices {
		if se.High == nil {
			continue
		}
		if p, ok := g.Find(se); ok {
			okF, _ := onlyVia(g, p, func(f cfgq.Fact) bool {
				if nonNegative(info, f, h.result) {
					return true
				}
				// `k > open` for a search over the whole key also implies k >= 0
				be, isBin := ast.Unparen(f.Expr).(*ast.BinaryExpr)
				if !isBin {
					return false
				}
				x, y, op := be.X, be.Y, be.Op
				if objOf(info, strip(info, y)) == h.result {
					x, y = y, x
					op = map[token.Token]token.Token{token.LSS: token.GTR, token.GTR: token.LSS, token.LEQ: token.GEQ, token.GEQ: token.LEQ}[op]
				}
				return objOf(info, strip(info, x)) == h.result && objOf(info, strip(info, y)) == open && f.Val && (op == token.GTR || op == token.GEQ)
			})
			if okF {
				c.Okf("R3.tag", name+"/not-found", se.Pos(), "the tag is cut only when '}' was found")
			} else {
				c.Undecidedf("R3.tag", name+"/not-found", se.Pos(), "cannot see that the tag is cut only when '}' was found")
			}
		}
	}
	return true
}
