package c15

import (
	"fmt"
	"go/ast"
	"go/token"
	"go/types"
	"strings"

	"golang.org/x/tools/go/cfg"

	"rscheck/cfgq"
	"rscheck/core"
	"rscheck/pat"
	"rscheck/rules/ring"
)

// ---------------------------------------------------------------------------
// R4 / R5 inclusive ranges

func checkpointKey(c *core.Ctx) {
	chose := c.Func(pkgCommon, "", "ChoseSlotInRange")
	dfs := c.FuncOpt(pkgCommon, "", "pickSuffixDfs") // the search may live in ChoseSlotInRange itself
	getSlot := c.Func(pkgCluster, "", "GetSlot")
	hash := c.Func(pkgCluster, "", "hash")
	filterKey := c.Func(pkgFilter, "", "FilterKey")
	cpk, _ := c.Pkg(pkgCommon).Types.Scope().Lookup("CheckpointKey").(*types.Const)
	if chose == nil || getSlot == nil || hash == nil || filterKey == nil || cpk == nil {
		if cpk == nil {
			c.Undecidedf("anchor", "utils.CheckpointKey", token.NoPos, "constant CheckpointKey not found")
		}
		return
	}
	ps := chose.Decl.Type.Params.List
	var params []*ast.Ident
	for _, f := range ps {
		params = append(params, f.Names...)
	}
	if len(params) != 3 {
		c.Undecidedf("R4.range", "ChoseSlotInRange/signature", chose.Decl.Pos(), "expected (prefix, left, right)")
		return
	}
	if dfs != nil {
		searchWithHelper(c, chose, dfs, getSlot, params)
	} else {
		searchFlat(c, chose, getSlot, params)
	}
	choseCallers(c, chose, cpk)
	// GetSlot is the verified extractor
	viaHash := len(core.Calls(getSlot.Decl.Body, getSlot.Pkg.TypesInfo, func(_ *ast.CallExpr, o types.Object) bool { return o == hash.Obj })) > 0
	if viaHash {
		c.Okf("R4.range", "cluster.GetSlot/uses-hash", getSlot.Decl.Pos(), "GetSlot computes the slot with the extractor checked under R3")
	} else {
		c.Undecidedf("R4.range", "cluster.GetSlot/uses-hash", getSlot.Decl.Pos(), "GetSlot does not call hash")
	}

	filterKeyPrefix(c, filterKey, cpk)
}

// searchWithHelper: ChoseSlotInRange hands the search to pickSuffixDfs.
func searchWithHelper(c *core.Ctx, chose, dfs, getSlot *core.Fn, params []*ast.Ident) {
	info := chose.Pkg.TypesInfo
	// the search function's parameters by role: the range predicate (a func), the
	// candidate bytes, or the two bounds passed as integers
	dsig := dfs.Obj.Type().(*types.Signature)
	judgeIdx, seedIdx, strRes := -1, -1, -1
	for i := 0; i < dsig.Params().Len(); i++ {
		switch t := dsig.Params().At(i).Type().Underlying().(type) {
		case *types.Signature:
			judgeIdx = i
		case *types.Slice:
			if b, ok := t.Elem().Underlying().(*types.Basic); ok && b.Kind() == types.Byte {
				seedIdx = i
			}
		}
	}
	for i := 0; i < dsig.Results().Len(); i++ {
		if b, ok := dsig.Results().At(i).Type().Underlying().(*types.Basic); ok && b.Kind() == types.String {
			strRes = i
		}
	}
	var dparams []*ast.Ident
	for _, f := range dfs.Decl.Type.Params.List {
		dparams = append(dparams, f.Names...)
	}
	var lit *ast.FuncLit
	var dfsCall *ast.CallExpr
	cds := &defs{info: info, body: chose.Decl.Body, g: cfgq.Of(c.Program, chose)}
	for _, call := range core.Calls(chose.Decl.Body, info, func(_ *ast.CallExpr, o types.Object) bool { return o == dfs.Obj }) {
		dfsCall = call
		if judgeIdx >= 0 && len(call.Args) == dsig.Params().Len() {
			e := ast.Unparen(call.Args[judgeIdx])
			if o := objOf(info, e); o != nil {
				if rhs, other := defsOf(info, chose.Decl.Body, o); len(rhs) == 1 && other == 0 && rhs[0] != nil {
					e = ast.Unparen(rhs[0])
				}
			}
			lit, _ = e.(*ast.FuncLit)
			if lit == nil { // declared first, assigned once before the call
				lit, _ = ast.Unparen(cds.chase(call.Args[judgeIdx])).(*ast.FuncLit)
			}
		}
	}
	// bounds handed down as plain integers: which parameters of the search are left and right?
	var dLeft, dRight ast.Expr
	outIdx, outField := -1, (*types.Var)(nil) // a pointer out-parameter of the search and the string field of it that ChoseSlotInRange returns
	if dfsCall != nil && len(dfsCall.Args) == len(dparams) {
		for i, a := range dfsCall.Args {
			switch objOf(info, a) {
			case info.Defs[params[1]]:
				dLeft = dparams[i]
			case info.Defs[params[2]]:
				dRight = dparams[i]
			}
			// the two bounds carried in a small struct value: they are <param>.<field> in the search
			if fl, fr := boundFields(info, chose.Decl.Body, a, info.Defs[params[1]], info.Defs[params[2]]); fl != nil && fr != nil && judgeIdx < 0 {
				po := dfs.Pkg.TypesInfo.Defs[dparams[i]]
				if rhs, other := defsOf(dfs.Pkg.TypesInfo, dfs.Decl.Body, po); len(rhs) == 0 && other == 0 {
					l, r := fieldUse(dfs.Pkg.TypesInfo, dfs.Decl.Body, po, fl), fieldUse(dfs.Pkg.TypesInfo, dfs.Decl.Body, po, fr)
					if l != nil && r != nil {
						dLeft, dRight = l, r
					}
				}
			}
			// &local handed down as the place for the result
			if u, ok := ast.Unparen(a).(*ast.UnaryExpr); ok && u.Op == token.AND && objOf(info, u.X) != nil {
				core.Inspect(chose.Decl.Body, func(n ast.Node) bool {
					if r, ok := n.(*ast.ReturnStmt); ok && len(r.Results) == 1 {
						if sel, ok := ast.Unparen(r.Results[0]).(*ast.SelectorExpr); ok && objOf(info, sel.X) == objOf(info, u.X) {
							if b, isB := info.TypeOf(sel).Underlying().(*types.Basic); isB && b.Kind() == types.String {
								outIdx, outField = i, core.FieldOf(info, sel)
							}
						}
					}
					return true
				})
			}
		}
	}
	switch {
	case lit != nil && len(lit.Type.Params.List) == 1 && len(lit.Type.Params.List[0].Names) == 1:
		g := cfgq.OfLit(c.Program, info, lit)
		inclusive(c, "R4.range", "ChoseSlotInRange/judge", g, lit.Body, lit.Type.Params.List[0].Names[0], params[1], params[2], func(n ast.Node) bool {
			r, ok := n.(*ast.ReturnStmt)
			if !ok || len(r.Results) != 1 {
				return false
			}
			tv := info.Types[r.Results[0]]
			return tv.Value == nil || isTrue(info, r.Results[0]) // `return true` or `return <condition>`
		})
	case judgeIdx < 0 && dLeft != nil && dRight != nil:
		// decided below, on the search function itself
	case judgeIdx >= 0 && dfsCall != nil && methodJudge(c, info, chose, dfsCall.Args[judgeIdx], params[1], params[2]):
		// the predicate is a method value of a struct holding the two bounds: judged inside methodJudge
	default:
		c.Undecidedf("R4.range", "ChoseSlotInRange/judge", chose.Decl.Pos(), "cannot find the range predicate passed to pickSuffixDfs")
	}
	// prefix: "<prefix>-" (Sprintf or concatenation) handed to the search, result returned
	okPrefix := false
	seedOK := func(e ast.Expr, depth int) bool {
		return seedExpr(info, chose.Decl.Body, info.Defs[params[0]], e, depth)
	}
	if dfsCall != nil && seedIdx >= 0 && len(dfsCall.Args) == dsig.Params().Len() {
		okPrefix = seedOK(dfsCall.Args[seedIdx], 0)
	}
	retOK := false
	core.Inspect(chose.Decl.Body, func(n ast.Node) bool {
		if r, ok := n.(*ast.ReturnStmt); ok && len(r.Results) == 1 && strRes >= 0 {
			ast.Inspect(chose.Decl.Body, func(m ast.Node) bool {
				if as, ok := m.(*ast.AssignStmt); ok && len(as.Rhs) == 1 && ast.Unparen(as.Rhs[0]) == ast.Expr(dfsCall) && len(as.Lhs) == dsig.Results().Len() {
					retOK = pat.Same(info, as.Lhs[strRes], r.Results[0]) || cds.sameValue(as.Lhs[strRes], r.Results[0])
				}
				return true
			})
		}
		return true
	})
	if !retOK && outIdx >= 0 && outField != nil && strRes < 0 {
		// the result comes back through the out-parameter: every return of ChoseSlotInRange
		// hands back that field, which nothing but the search writes
		retOK = true
		core.Inspect(chose.Decl.Body, func(n ast.Node) bool {
			switch x := n.(type) {
			case *ast.ReturnStmt:
				if len(x.Results) != 1 || core.FieldOf(info, x.Results[0]) != outField {
					retOK = false
				}
			case *ast.AssignStmt:
				for _, l := range x.Lhs {
					if core.FieldOf(info, l) == outField {
						retOK = false
					}
				}
			}
			return true
		})
	}
	if okPrefix && retOK {
		c.Okf("R4.prefix", "ChoseSlotInRange/seed", chose.Decl.Pos(), "the search is seeded with <prefix>- and its result is returned")
	} else {
		c.Undecidedf("R4.prefix", "ChoseSlotInRange/seed", chose.Decl.Pos(), "cannot see that the candidate is built as <prefix>-<suffix> and returned")
	}
	// pickSuffixDfs: slot of exactly the string that is returned, accepted only if judge says so
	dinfo := dfs.Pkg.TypesInfo
	g := cfgq.Of(c.Program, dfs)
	funcParam := func(fn *core.Fn, o types.Object) bool { // o is a func-typed parameter of fn
		ps := fn.Obj.Type().(*types.Signature).Params()
		for i := 0; i < ps.Len(); i++ {
			if _, isF := ps.At(i).Type().Underlying().(*types.Signature); isF && types.Object(ps.At(i)) == o {
				return true
			}
		}
		return false
	}
	// judged: fact f of function `in` tells that the range predicate handed to
	// `in`, applied to the slot GetSlot computed for cand, returned `sense`;
	// one level of same-package predicate helper is followed.
	var judged func(in *core.Fn, f cfgq.Fact, depth int) (cand ast.Expr, sense, ok bool)
	judged = func(in *core.Fn, f cfgq.Fact, depth int) (ast.Expr, bool, bool) {
		call, isCall := ast.Unparen(f.Expr).(*ast.CallExpr)
		if !isCall {
			return nil, false, false
		}
		if o := objOf(dinfo, call.Fun); o != nil && funcParam(in, o) && len(call.Args) == 1 {
			slot := objOf(dinfo, strip(dinfo, call.Args[0]))
			var cand ast.Expr
			writes := 0
			ast.Inspect(in.Decl.Body, func(n ast.Node) bool {
				switch as := n.(type) {
				case *ast.AssignStmt:
					for _, l := range as.Lhs {
						if slot != nil && objOf(dinfo, l) == slot {
							writes++
						}
					}
					if len(as.Rhs) == 1 && len(as.Lhs) >= 1 && slot != nil && objOf(dinfo, as.Lhs[0]) == slot {
						if gc, ok := ast.Unparen(as.Rhs[0]).(*ast.CallExpr); ok && core.CalleeFunc(dinfo, gc) == getSlot.Obj && len(gc.Args) == 1 {
							cand = gc.Args[0]
						}
					}
				case *ast.IncDecStmt:
					if slot != nil && objOf(dinfo, as.X) == slot {
						writes++
					}
				}
				return true
			})
			if cand == nil || writes != 1 {
				return nil, false, false
			}
			return cand, f.Val, true
		}
		hfn := core.CalleeFunc(dinfo, call)
		if depth > 0 || hfn == nil || hfn.Pkg() != in.Obj.Pkg() || hfn == in.Obj {
			return nil, false, false
		}
		hf := c.FnOf(hfn)
		ps := hfn.Type().(*types.Signature).Params()
		if hf == nil || hf.Decl.Body == nil || ps.Len() != len(call.Args) {
			return nil, false, false
		}
		hg := cfgq.Of(c.Program, hf)
		var hc ast.Expr
		var hs, have bool
		agree := func(cd ast.Expr, sn bool) bool {
			if have && (sn != hs || !pat.Same(dinfo, strip(dinfo, cd), strip(dinfo, hc))) {
				return false
			}
			hc, hs, have = cd, sn, true
			return true
		}
		for _, p := range hg.Points(func(n ast.Node) bool { _, ok := n.(*ast.ReturnStmt); return ok }) {
			r := p.Node().(*ast.ReturnStmt)
			if len(r.Results) != 1 {
				return nil, false, false
			}
			if tv := dinfo.Types[r.Results[0]]; tv.Value != nil {
				if isTrue(dinfo, r.Results[0]) != f.Val {
					continue
				}
				// a constant verdict: every way to it must have asked the predicate
				var cd ast.Expr
				var sn bool
				ok, _ := onlyVia(hg, p, func(x cfgq.Fact) bool {
					c1, s1, k := judged(hf, x, depth+1)
					if k {
						cd, sn = c1, s1
					}
					return k
				})
				if !ok || cd == nil || !agree(cd, sn) {
					return nil, false, false
				}
				continue
			}
			found := false
			for _, x := range cfgq.Facts(r.Results[0], f.Val) {
				if c1, s1, k := judged(hf, x, depth+1); k {
					if !agree(c1, s1) {
						return nil, false, false
					}
					found = true
				}
			}
			if !found {
				return nil, false, false
			}
		}
		if !have {
			return nil, false, false
		}
		// back to the caller's terms: the helper's candidate and predicate are parameters
		var cand ast.Expr
		judgeOK := false
		for i := 0; i < ps.Len(); i++ {
			if objOf(dinfo, strip(dinfo, hc)) == types.Object(ps.At(i)) {
				cand = call.Args[i]
			}
			if _, isF := ps.At(i).Type().Underlying().(*types.Signature); isF {
				judgeOK = funcParam(in, objOf(dinfo, call.Args[i]))
			}
		}
		if cand == nil || !judgeOK {
			return nil, false, false
		}
		return cand, hs, true
	}
	var cands []ast.Expr
	for _, b := range g.CFG.Blocks {
		for si := range b.Succs {
			if b.Live && len(b.Succs) == 2 {
				for _, f := range edgeFacts(g, b, si) {
					if cd, _, ok := judged(dfs, f, 0); ok {
						cands = append(cands, cd)
					}
				}
			}
		}
	}
	// an accepting exit hands back string(<candidate bytes>): as a result of a
	// return statement, or stored into the out-parameter's result field
	asString := func(res ast.Expr) ast.Expr {
		if o := objOf(dinfo, res); o != nil { // candidate := string(prefix); return true, candidate
			if rhs, other := defsOf(dinfo, dfs.Decl.Body, o); len(rhs) == 1 && other == 0 && rhs[0] != nil {
				res = rhs[0]
			}
		}
		if call, ok := ast.Unparen(res).(*ast.CallExpr); ok && len(call.Args) == 1 {
			if tv, isT := dinfo.Types[call.Fun]; isT && tv.IsType() {
				if b, ok := tv.Type.Underlying().(*types.Basic); ok && b.Kind() == types.String {
					return call.Args[0]
				}
			}
		}
		return nil
	}
	candOf := func(n ast.Node) ast.Expr {
		switch x := n.(type) {
		case *ast.ReturnStmt:
			for _, res := range x.Results {
				if cd := asString(res); cd != nil {
					return cd
				}
			}
		case *ast.AssignStmt:
			if outIdx < 0 || outField == nil || len(x.Lhs) != len(x.Rhs) {
				return nil
			}
			for i, l := range x.Lhs {
				if sel, ok := ast.Unparen(l).(*ast.SelectorExpr); ok && core.FieldOf(dinfo, sel) == outField && objOf(dinfo, sel.X) == dinfo.Defs[dparams[outIdx]] {
					return asString(x.Rhs[i])
				}
			}
		}
		return nil
	}
	accepting := func(n ast.Node) bool { return candOf(n) != nil }
	if judgeIdx < 0 && dLeft != nil && dRight != nil {
		// no predicate value: the bounds are compared in the search function itself
		// (directly or through a one-line predicate helper)
		var slotVar *ast.Ident
		var slotCand ast.Expr
		ast.Inspect(dfs.Decl.Body, func(n ast.Node) bool {
			if as, ok := n.(*ast.AssignStmt); ok && len(as.Rhs) == 1 && len(as.Lhs) >= 1 {
				if gc, ok := ast.Unparen(as.Rhs[0]).(*ast.CallExpr); ok && core.CalleeFunc(dinfo, gc) == getSlot.Obj && len(gc.Args) == 1 {
					slotVar, _ = as.Lhs[0].(*ast.Ident)
					slotCand = gc.Args[0]
				}
			}
			return true
		})
		pts := g.Points(accepting)
		if slotVar == nil || len(pts) == 0 {
			c.Undecidedf("R4.range", "pickSuffixDfs/slot-of-candidate", dfs.Decl.Pos(), "cannot find `slot, err := redis.GetSlot(candidate)` and a return of string(candidate)")
		} else {
			for _, p := range pts {
				r := p.Node()
				ret, cand := strip(dinfo, candOf(r)), strip(dinfo, slotCand)
				switch {
				case pat.Same(dinfo, ret, cand):
					c.Okf("R4.range", "pickSuffixDfs/slot-of-candidate", r.Pos(), "the string returned is the one whose slot was computed (%s)", c.Src(ret))
				case objOf(dinfo, ret) == nil && objOf(dinfo, cand) != nil && mentions(dinfo, ret, objOf(dinfo, cand)):
					c.Check("R4.range", "pickSuffixDfs/slot-of-candidate", r.Pos(), false,
						fmt.Sprintf("the string returned as checkpoint key (%s) is a different function of the candidate than the one whose slot was computed (%s): the checkpoint may live on another shard than the data it describes", c.Src(candOf(r)), c.Src(cand)))
				default:
					c.Undecidedf("R4.range", "pickSuffixDfs/slot-of-candidate", r.Pos(), "cannot relate the returned string %s to the candidate %s", c.Src(ret), c.Src(cand))
				}
			}
			inclusive(c, "R4.range", "ChoseSlotInRange/judge", g, dfs.Decl.Body, slotVar, dLeft, dRight, accepting)
			c.Okf("R4.range", "pickSuffixDfs/accept-iff-judge", dfs.Decl.Pos(), "the bounds are tested in the search function itself (see ChoseSlotInRange/judge/lower and /upper)")
		}
	} else if len(cands) == 0 {
		c.Undecidedf("R4.range", "pickSuffixDfs/slot-of-candidate", dfs.Decl.Pos(), "cannot find the range predicate being asked about redis.GetSlot(candidate)")
	} else {
		n := 0
		for _, p := range g.Points(accepting) {
			n++
			r := p.Node()
			ret := strip(dinfo, candOf(r))
			same, differs := false, false
			var cand ast.Expr
			for _, cd := range cands {
				cand = strip(dinfo, cd)
				if pat.Same(dinfo, ret, cand) {
					same = true
				} else if objOf(dinfo, ret) == nil && objOf(dinfo, cand) != nil && mentions(dinfo, ret, objOf(dinfo, cand)) {
					differs = true
				}
			}
			switch {
			case same:
				c.Okf("R4.range", "pickSuffixDfs/slot-of-candidate", r.Pos(), "the string returned is the one whose slot was computed (%s)", c.Src(ret))
			case differs:
				c.Check("R4.range", "pickSuffixDfs/slot-of-candidate", r.Pos(), false,
					fmt.Sprintf("the string returned as checkpoint key (%s) is a different function of the candidate than the one whose slot was computed (%s): the checkpoint may live on another shard than the data it describes", c.Src(candOf(r)), c.Src(cand)))
			default:
				c.Undecidedf("R4.range", "pickSuffixDfs/slot-of-candidate", r.Pos(), "cannot relate the returned string %s to the candidate %s", c.Src(ret), c.Src(cand))
			}
			okJ, _ := onlyVia(g, p, func(f cfgq.Fact) bool { _, sn, ok := judged(dfs, f, 0); return ok && sn })
			inverted := false
			if !okJ {
				inverted, _ = onlyVia(g, p, func(f cfgq.Fact) bool { _, sn, ok := judged(dfs, f, 0); return ok && !sn })
			}
			if inverted {
				c.Check("R4.range", "pickSuffixDfs/accept-iff-judge", r.Pos(), false, "a candidate is returned exactly when the range predicate REJECTED its slot: the checkpoint key hashes outside the shard's slot range")
			} else if okJ {
				c.Okf("R4.range", "pickSuffixDfs/accept-iff-judge", r.Pos(), "a candidate is returned only when the range predicate accepted its slot")
			} else {
				c.Undecidedf("R4.range", "pickSuffixDfs/accept-iff-judge", r.Pos(), "cannot see that the candidate is returned only when the range predicate holds for its slot")
			}
		}
		if n == 0 {
			c.Undecidedf("R4.range", "pickSuffixDfs/slot-of-candidate", dfs.Decl.Pos(), "no accepting return found")
		}
	}
}

// choseCallers: ChoseSlotInRange is called with CheckpointKey as prefix.
func choseCallers(c *core.Ctx, chose *core.Fn, cpk *types.Const) {
	callers := 0
	for _, pk := range c.Pkgs {
		if pk.ID != pk.PkgPath || pk.TypesInfo == nil {
			continue
		}
		for _, f := range pk.Syntax {
			if strings.HasSuffix(c.Fset.Position(f.Pos()).Filename, "_test.go") {
				continue
			}
			for _, call := range core.CallsAll(f, pk.TypesInfo, func(_ *ast.CallExpr, o types.Object) bool { return o == chose.Obj }) {
				callers++
				arg0 := call.Args[0]
				if o := objOf(pk.TypesInfo, arg0); o != nil { // base := utils.CheckpointKey
					if _, isConst := o.(*types.Const); !isConst {
						var def ast.Expr
						nd := 0
						ast.Inspect(f, func(m ast.Node) bool {
							if as, ok := m.(*ast.AssignStmt); ok && len(as.Lhs) == len(as.Rhs) {
								for i, l := range as.Lhs {
									if objOf(pk.TypesInfo, l) == o {
										def = as.Rhs[i]
										nd++
									}
								}
							}
							return true
						})
						if nd == 1 {
							arg0 = def
						}
					}
				}
				if core.ObjOf(pk.TypesInfo, arg0) == cpk {
					c.Okf("R4.prefix", "caller/"+short(pk.PkgPath), call.Pos(), "ChoseSlotInRange is called with CheckpointKey as prefix")
				} else {
					c.Undecidedf("R4.prefix", "caller/"+short(pk.PkgPath), call.Pos(), "ChoseSlotInRange is called with a prefix other than CheckpointKey: %s", c.Src(call.Args[0]))
				}
			}
		}
	}
	if callers == 0 {
		c.Undecidedf("R4.prefix", "caller", chose.Decl.Pos(), "no caller of ChoseSlotInRange found")
	}
}

// filterKeyPrefix: FilterKey rejects the CheckpointKey prefix before any list is consulted.
func filterKeyPrefix(c *core.Ctx, filterKey *core.Fn, cpk *types.Const) {
	finfo := filterKey.Pkg.TypesInfo
	fg := cfgq.Of(c.Program, filterKey)
	prefixTestOn := func(e ast.Expr, key types.Object) bool {
		if call, ok := ast.Unparen(e).(*ast.CallExpr); ok {
			return core.IsFunc(core.CalleeFunc(finfo, call), "strings", "", "HasPrefix") && len(call.Args) == 2 &&
				objOf(finfo, call.Args[0]) == key && core.ObjOf(finfo, call.Args[1]) == cpk
		}
		// strings.Index(key, CheckpointKey) == 0: found at the very start
		if be, ok := ast.Unparen(e).(*ast.BinaryExpr); ok && be.Op == token.EQL {
			for _, pr := range [][2]ast.Expr{{be.X, be.Y}, {be.Y, be.X}} {
				call, isCall := ast.Unparen(pr[0]).(*ast.CallExpr)
				if z, isC := core.IntConst(finfo, pr[1]); isCall && isC && z == 0 && core.IsFunc(core.CalleeFunc(finfo, call), "strings", "", "Index") && len(call.Args) == 2 &&
					objOf(finfo, call.Args[0]) == key && core.ObjOf(finfo, call.Args[1]) == cpk {
					return true
				}
			}
		}
		// strings.TrimPrefix(key, CheckpointKey) != key: something was cut off, i.e. the (non-empty) prefix is there
		if be, ok := ast.Unparen(e).(*ast.BinaryExpr); ok && be.Op == token.NEQ && cpk.Val().ExactString() != `""` {
			for _, pr := range [][2]ast.Expr{{be.X, be.Y}, {be.Y, be.X}} {
				if call, isCall := ast.Unparen(pr[0]).(*ast.CallExpr); isCall && core.IsFunc(core.CalleeFunc(finfo, call), "strings", "", "TrimPrefix") && len(call.Args) == 2 &&
					objOf(finfo, call.Args[0]) == key && core.ObjOf(finfo, call.Args[1]) == cpk && objOf(finfo, pr[1]) == key {
					return true
				}
			}
		}
		// key[:len(CheckpointKey)] == CheckpointKey (the length test that goes with it is a separate conjunct)
		if be, ok := ast.Unparen(e).(*ast.BinaryExpr); ok && be.Op == token.EQL {
			for _, pr := range [][2]ast.Expr{{be.X, be.Y}, {be.Y, be.X}} {
				se, isSl := ast.Unparen(pr[0]).(*ast.SliceExpr)
				if !isSl || se.Low != nil || se.High == nil || objOf(finfo, se.X) != key || core.ObjOf(finfo, pr[1]) != cpk {
					continue
				}
				if lc, ok := ast.Unparen(se.High).(*ast.CallExpr); ok && len(lc.Args) == 1 && core.ObjOf(finfo, lc.Args[0]) == cpk {
					if b, isB := core.Callee(finfo, lc).(*types.Builtin); isB && b.Name() == "len" {
						return true
					}
				}
			}
		}
		return false
	}
	keyParam := types.Object(filterKey.Obj.Type().(*types.Signature).Params().At(0))
	isPrefixTest := func(e ast.Expr) bool { return prefixTestOn(e, keyParam) }
	// prefixFalse: the fact implies that key does NOT start with CheckpointKey,
	// directly or because a same-package boolean helper applied to the key
	// returns that value only when its own HasPrefix(key, CheckpointKey) is false.
	shorter := func(e ast.Expr, key types.Object, val bool) bool { // e == val says len(key) < len(CheckpointKey)
		be, ok := ast.Unparen(e).(*ast.BinaryExpr)
		if !ok {
			return false
		}
		isLen := func(x ast.Expr, what types.Object) bool {
			lc, ok := strip(finfo, x).(*ast.CallExpr)
			if !ok || len(lc.Args) != 1 {
				return false
			}
			b, isB := core.Callee(finfo, lc).(*types.Builtin)
			return isB && b.Name() == "len" && core.ObjOf(finfo, lc.Args[0]) == what
		}
		op := be.Op
		switch {
		case isLen(be.X, key) && isLen(be.Y, cpk):
		case isLen(be.Y, key) && isLen(be.X, cpk):
			op = map[token.Token]token.Token{token.LSS: token.GTR, token.GTR: token.LSS, token.LEQ: token.GEQ, token.GEQ: token.LEQ}[op]
		default:
			return false
		}
		return op == token.LSS && val || op == token.GEQ && !val
	}
	prefixFalse := func(f cfgq.Fact) bool {
		if !f.Val && isPrefixTest(f.Expr) || shorter(f.Expr, keyParam, f.Val) {
			return true
		}
		call, ok := ast.Unparen(f.Expr).(*ast.CallExpr)
		if !ok {
			return false
		}
		hfn := core.CalleeFunc(finfo, call)
		if hfn == nil || hfn.Pkg() != filterKey.Obj.Pkg() || hfn == filterKey.Obj {
			return false
		}
		hf := c.FnOf(hfn)
		sig := hfn.Type().(*types.Signature)
		if hf == nil || hf.Decl.Body == nil || sig.Results().Len() != 1 || sig.Params().Len() != len(call.Args) {
			return false
		}
		var hkey types.Object
		for i, a := range call.Args {
			if objOf(finfo, a) == keyParam {
				hkey = sig.Params().At(i)
			}
		}
		if hkey == nil {
			return false
		}
		hg := cfgq.Of(c.Program, hf)
		direct := func(g cfgq.Fact) bool { return !g.Val && prefixTestOn(g.Expr, hkey) }
		rets := hg.Points(func(n ast.Node) bool { _, ok := n.(*ast.ReturnStmt); return ok })
		for _, p := range rets {
			r := p.Node().(*ast.ReturnStmt)
			if len(r.Results) != 1 {
				return false
			}
			if tv := finfo.Types[r.Results[0]]; tv.Value != nil {
				if isTrue(finfo, r.Results[0]) != f.Val {
					continue // this return yields the other value
				}
			} else {
				implied := false
				for _, g := range cfgq.Facts(r.Results[0], f.Val) {
					if direct(g) {
						implied = true
					}
				}
				if implied {
					continue
				}
			}
			if ok, _ := onlyVia(hg, p, direct); !ok {
				return false
			}
		}
		return len(rets) > 0
	}
	found := false
	for _, b := range fg.CFG.Blocks {
		cond := cfgq.CondOf(b)
		if !b.Live || cond == nil || !edgeHas(fg, b, 0, func(f cfgq.Fact) bool { return f.Val && isPrefixTest(f.Expr) }) {
			continue
		}
		found = true
		w := fg.Path(cfgq.Query{From: cfgq.Point{B: b.Succs[0], I: 0}, Target: func(n ast.Node) bool {
			r, ok := n.(*ast.ReturnStmt)
			return ok && !(len(r.Results) == 1 && isTrue(finfo, r.Results[0]))
		}})
		w2 := fg.Path(cfgq.Query{From: cfgq.Point{B: b.Succs[0], I: 0}, TargetExit: func(_ *cfg.Block, k cfgq.ExitKind) bool { return k == cfgq.ExitFall }})
		c.Check("R4.filter", "FilterKey/checkpoint-prefix-rejected", cond.Pos(), w == nil && w2 == nil,
			"a key with prefix CheckpointKey must be rejected (FilterKey returns true): the per-shard checkpoint keys redis-shake-checkpoint-xxxx would otherwise be synced as user data", w...)
	}
	passRets := fg.Points(func(n ast.Node) bool {
		r, ok := n.(*ast.ReturnStmt)
		return ok && !(len(r.Results) == 1 && isTrue(finfo, r.Results[0]))
	})
	if !found {
		allGuarded := len(passRets) > 0
		for _, p := range passRets {
			if ok, _ := onlyVia(fg, p, prefixFalse); !ok {
				allGuarded = false
			}
		}
		// positive evidence only: nothing in the package tests a key against the CheckpointKey prefix
		anyTest := false // CheckpointKey is used by some function body of the package at all (whatever the spelling of the test)
		for _, f := range filterKey.Pkg.Syntax {
			for _, d := range f.Decls {
				if fd, ok := d.(*ast.FuncDecl); ok && fd.Body != nil {
					ast.Inspect(fd.Body, func(n ast.Node) bool {
						if e, ok := n.(ast.Expr); ok && core.ObjOf(finfo, e) == cpk {
							anyTest = true
						}
						return true
					})
				}
			}
		}
		switch {
		case allGuarded:
			c.Okf("R4.filter", "FilterKey/checkpoint-prefix-rejected", filterKey.Decl.Pos(), "every verdict other than 'rejected' is reached only when a helper established that the key does not start with CheckpointKey")
		case anyTest:
			c.Undecidedf("R4.filter", "FilterKey/checkpoint-prefix-rejected", filterKey.Decl.Pos(), "cannot see FilterKey rejecting keys with prefix CheckpointKey")
		default:
			c.Check("R4.filter", "FilterKey/checkpoint-prefix-rejected", filterKey.Decl.Pos(), false,
				"no function of the filter package refers to CheckpointKey, so nothing can reject keys by that prefix: the per-shard checkpoint keys (CheckpointKey-xxxx chosen by ChoseSlotInRange) pass the key filter and are synced as user data")
		}
	}
	// every verdict other than "rejected" is reached only after the prefix test failed
	k := 0
	for _, p := range passRets {
		k++
		ok, w := onlyVia(fg, p, prefixFalse)
		if !ok && found {
			// a violation needs a path to this verdict on which the key HAS the prefix: assume
			// the prefix test true (and the key long enough); every branch that mentions
			// CheckpointKey must then be decided, otherwise the path proves nothing
			atom := func(e ast.Expr) (bool, bool) {
				if isPrefixTest(e) {
					return true, true
				}
				if shorter(e, keyParam, true) {
					return false, true
				}
				if shorter(e, keyParam, false) {
					return true, true
				}
				return false, false
			}
			mentionsCK := func(e ast.Expr) bool {
				hit := false
				ast.Inspect(e, func(n ast.Node) bool {
					switch x := n.(type) {
					case ast.Expr:
						if core.ObjOf(finfo, x) == cpk {
							hit = true
						}
						if call, ok := x.(*ast.CallExpr); ok {
							if hf := c.FnOf(core.CalleeFunc(finfo, call)); hf != nil && hf.Decl.Body != nil && hf.Obj.Pkg() == filterKey.Obj.Pkg() {
								ast.Inspect(hf.Decl.Body, func(m ast.Node) bool {
									if y, ok := m.(ast.Expr); ok && core.ObjOf(finfo, y) == cpk {
										hit = true
									}
									return true
								})
							}
						}
					}
					return true
				})
				return hit
			}
			tn := p.Node()
			w = fg.Path(cfgq.Query{From: fg.Entry(), Target: func(n ast.Node) bool { return n == tn }, AvoidEdge: func(b *cfg.Block, s int) bool {
				cnd := cfgq.CondOf(b)
				if cnd == nil || len(b.Succs) != 2 {
					return false
				}
				v, known := ring.EvalUnder(cnd, atom)
				if known {
					return (s == 0) != v
				}
				// what remains of the condition once the assumed atoms are filled in
				var residual func(e ast.Expr) ast.Expr
				residual = func(e ast.Expr) ast.Expr {
					e = ast.Unparen(e)
					if be, ok := e.(*ast.BinaryExpr); ok && (be.Op == token.LAND || be.Op == token.LOR) {
						for _, pr := range [][2]ast.Expr{{be.X, be.Y}, {be.Y, be.X}} {
							if pv, pk := ring.EvalUnder(pr[0], atom); pk && pv == (be.Op == token.LAND) {
								return residual(pr[1]) // true && Y == Y, false || Y == Y
							}
						}
					}
					return e
				}
				return mentionsCK(residual(cnd)) // undecided and about the checkpoint key: cannot be used as evidence
			}})
			if w == nil {
				c.Undecidedf("R4.filter", "FilterKey/prefix-before-pass", p.Node().Pos(), "cannot see that this verdict is reached only for keys without the CheckpointKey prefix")
				continue
			}
		}
		if ok || found {
			c.Check("R4.filter", "FilterKey/prefix-before-pass", p.Node().Pos(), ok,
				"FilterKey can let a key pass without first having rejected the CheckpointKey prefix: with a whitelist (or no blacklist entry) matching it, the per-shard checkpoint key is synced as user data", w...)
		} else {
			c.Undecidedf("R4.filter", "FilterKey/prefix-before-pass", p.Node().Pos(), "no CheckpointKey-prefix test seen before this verdict")
		}
	}
	if k == 0 {
		c.Undecidedf("R4.filter", "FilterKey/prefix-before-pass", filterKey.Decl.Pos(), "FilterKey never lets a key pass")
	}
}
