package c15

import (
	"fmt"
	"go/ast"
	"go/token"
	"go/types"
	"strings"

	"golang.org/x/tools/go/cfg"

	"rscheck/cfgq"
	"rscheck/core"
	"rscheck/pat"
)

// ---------------------------------------------------------------------------
// R4 / R5 inclusive ranges

// inclusive checks that every node accepted by `accept` is reached only with
// lo <= x and x <= hi established, x/lo/hi being identifiers.
func inclusive(c *core.Ctx, rule, key string, g *cfgq.Graph, body ast.Node, x, lo, hi *ast.Ident, accept func(ast.Node) bool) {
	info := g.Info
	b := pat.Binds{"_x": x, "_lo": lo, "_hi": hi}
	type side struct {
		name           string
		bound          *ast.Ident
		okT, okF       *pat.Pattern
		wrongT, wrongF *pat.Pattern
	}
	sides := []side{
		{"lower", lo, pat.Expr("_x >= _lo"), pat.Expr("_x < _lo"), pat.Expr("_x > _lo"), pat.Expr("_x <= _lo")},
		{"upper", hi, pat.Expr("_x <= _hi"), pat.Expr("_x > _hi"), pat.Expr("_x < _hi"), pat.Expr("_x >= _hi")},
	}
	pts := g.Points(accept)
	if len(pts) == 0 {
		c.Undecidedf(rule, key, body.Pos(), "no accepting exit found")
		return
	}
	for _, sd := range sides {
		sd := sd
		fact := func(f cfgq.Fact) bool {
			return f.Val && sd.okT.Match(info, f.Expr, b) != nil || !f.Val && sd.okF.Match(info, f.Expr, b) != nil
		}
		ok := true
		var wit []string
		for _, p := range pts {
			// `return x >= lo && x <= hi`
			if r, isRet := p.Node().(*ast.ReturnStmt); isRet && len(r.Results) > 0 {
				direct := false
				for _, f := range cfgq.Facts(r.Results[0], true) {
					if fact(f) {
						direct = true
					}
				}
				if direct {
					continue
				}
			}
			if o, w := onlyVia(g, p, fact); !o {
				ok, wit = false, w
			}
		}
		k := key + "/" + sd.name
		if ok {
			c.Okf(rule, k, body.Pos(), "candidates are accepted only with the %s bound tested inclusively", sd.name)
			continue
		}
		// exactly one comparison with this bound, and it is the strict one => definite
		var cmps []*ast.BinaryExpr
		ast.Inspect(body, func(n ast.Node) bool {
			if be, ok := n.(*ast.BinaryExpr); ok && pat.Expr("_x + _b").Match(info, &ast.BinaryExpr{X: be.X, Op: token.ADD, Y: be.Y}, pat.Binds{"_x": x, "_b": sd.bound}) != nil {
				cmps = append(cmps, be)
			}
			return true
		})
		if len(cmps) == 1 && (sd.wrongT.Match(info, cmps[0], b) != nil || sd.wrongF.Match(info, cmps[0], b) != nil) {
			c.Check(rule, k, cmps[0].Pos(), false, fmt.Sprintf("the %s slot bound is tested exclusively (%s): a range [l,r] is inclusive, so a shard owning the single slot l (or a key hashing exactly to the boundary) is never matched / a key outside is accepted", sd.name, c.Src(cmps[0])), wit...)
		} else {
			c.Undecidedf(rule, k, body.Pos(), "cannot establish that the %s bound is tested as an inclusive bound", sd.name)
		}
	}
}

func isTrue(info *types.Info, e ast.Expr) bool {
	tv, ok := info.Types[e]
	return ok && tv.Value != nil && tv.Value.String() == "true"
}

func checkpointKey(c *core.Ctx) {
	chose := c.Func(pkgCommon, "", "ChoseSlotInRange")
	dfs := c.Func(pkgCommon, "", "pickSuffixDfs")
	getSlot := c.Func(pkgCluster, "", "GetSlot")
	hash := c.Func(pkgCluster, "", "hash")
	filterKey := c.Func(pkgFilter, "", "FilterKey")
	cpk, _ := c.Pkg(pkgCommon).Types.Scope().Lookup("CheckpointKey").(*types.Const)
	if chose == nil || dfs == nil || getSlot == nil || hash == nil || filterKey == nil || cpk == nil {
		if cpk == nil {
			c.Undecidedf("anchor", "utils.CheckpointKey", token.NoPos, "constant CheckpointKey not found")
		}
		return
	}
	info := chose.Pkg.TypesInfo
	ps := chose.Decl.Type.Params.List
	var params []*ast.Ident
	for _, f := range ps {
		params = append(params, f.Names...)
	}
	if len(params) != 3 {
		c.Undecidedf("R4.range", "ChoseSlotInRange/signature", chose.Decl.Pos(), "expected (prefix, left, right)")
		return
	}
	// the judge closure handed to pickSuffixDfs
	var lit *ast.FuncLit
	var dfsCall *ast.CallExpr
	for _, call := range core.Calls(chose.Decl.Body, info, func(_ *ast.CallExpr, o types.Object) bool { return o == dfs.Obj }) {
		dfsCall = call
		if len(call.Args) == 3 {
			e := ast.Unparen(call.Args[1])
			if o := objOf(info, e); o != nil {
				if rhs, other := defsOf(info, chose.Decl.Body, o); len(rhs) == 1 && other == 0 && rhs[0] != nil {
					e = ast.Unparen(rhs[0])
				}
			}
			lit, _ = e.(*ast.FuncLit)
		}
	}
	if lit == nil || len(lit.Type.Params.List) != 1 || len(lit.Type.Params.List[0].Names) != 1 {
		c.Undecidedf("R4.range", "ChoseSlotInRange/judge", chose.Decl.Pos(), "cannot find the range predicate passed to pickSuffixDfs")
	} else {
		g := cfgq.OfLit(c.Program, info, lit)
		inclusive(c, "R4.range", "ChoseSlotInRange/judge", g, lit.Body, lit.Type.Params.List[0].Names[0], params[1], params[2], func(n ast.Node) bool {
			r, ok := n.(*ast.ReturnStmt)
			if !ok || len(r.Results) != 1 {
				return false
			}
			tv := info.Types[r.Results[0]]
			return tv.Value == nil || isTrue(info, r.Results[0]) // `return true` or `return <condition>`
		})
	}
	// prefix: "<prefix>-" (Sprintf or concatenation) handed to the search, result returned
	okPrefix := false
	var seedOK func(e ast.Expr, depth int) bool
	seedOK = func(e ast.Expr, depth int) bool {
		e = strip(info, e)
		if depth > 3 {
			return false
		}
		switch x := e.(type) {
		case *ast.CallExpr:
			if core.IsFunc(core.CalleeFunc(info, x), "fmt", "", "Sprintf") && len(x.Args) == 2 {
				f, _ := core.StringConst(info, x.Args[0])
				return f == "%s-" && objOf(info, x.Args[1]) == info.Defs[params[0]]
			}
		case *ast.BinaryExpr:
			sep, isC := core.StringConst(info, x.Y)
			return x.Op == token.ADD && isC && sep == "-" && objOf(info, strip(info, x.X)) == info.Defs[params[0]]
		case *ast.Ident:
			rhs, other := defsOf(info, chose.Decl.Body, objOf(info, x))
			n := 0
			for _, r := range rhs {
				if r != nil {
					n++
					if !seedOK(r, depth+1) {
						return false
					}
				}
			}
			return n == 1 && other == 0
		}
		return false
	}
	if dfsCall != nil && len(dfsCall.Args) == 3 {
		okPrefix = seedOK(dfsCall.Args[2], 0)
	}
	retOK := false
	core.Inspect(chose.Decl.Body, func(n ast.Node) bool {
		if r, ok := n.(*ast.ReturnStmt); ok && len(r.Results) == 1 {
			if b := pat.Stmt("_ok, _s = _f(_a, _b, _c)"); true {
				if as, bd := b.Find(info, chose.Decl.Body, nil); as != nil && ast.Unparen(as.(*ast.AssignStmt).Rhs[0]) == ast.Expr(dfsCall) {
					retOK = pat.Same(info, bd["_s"], r.Results[0])
				}
			}
		}
		return true
	})
	if okPrefix && retOK {
		c.Okf("R4.prefix", "ChoseSlotInRange/seed", chose.Decl.Pos(), "the search is seeded with <prefix>- and its result is returned")
	} else {
		c.Undecidedf("R4.prefix", "ChoseSlotInRange/seed", chose.Decl.Pos(), "cannot see that the candidate is built as <prefix>-<suffix> and returned")
	}
	callers := 0
	for _, pk := range c.Pkgs {
		if pk.ID != pk.PkgPath || pk.TypesInfo == nil {
			continue
		}
		for _, f := range pk.Syntax {
			if strings.HasSuffix(c.Fset.Position(f.Pos()).Filename, "_test.go") {
				continue
			}
			for _, call := range core.CallsAll(f, pk.TypesInfo, func(_ *ast.CallExpr, o types.Object) bool { return o == chose.Obj }) {
				callers++
				if core.ObjOf(pk.TypesInfo, call.Args[0]) == cpk {
					c.Okf("R4.prefix", "caller/"+short(pk.PkgPath), call.Pos(), "ChoseSlotInRange is called with CheckpointKey as prefix")
				} else {
					c.Undecidedf("R4.prefix", "caller/"+short(pk.PkgPath), call.Pos(), "ChoseSlotInRange is called with a prefix other than CheckpointKey: %s", c.Src(call.Args[0]))
				}
			}
		}
	}
	if callers == 0 {
		c.Undecidedf("R4.prefix", "caller", chose.Decl.Pos(), "no caller of ChoseSlotInRange found")
	}

	// pickSuffixDfs: slot of exactly the string that is returned, accepted only if judge says so
	dinfo := dfs.Pkg.TypesInfo
	g := cfgq.Of(c.Program, dfs)
	funcParam := func(fn *core.Fn, o types.Object) bool { // o is a func-typed parameter of fn
		ps := fn.Obj.Type().(*types.Signature).Params()
		for i := 0; i < ps.Len(); i++ {
			if _, isF := ps.At(i).Type().Underlying().(*types.Signature); isF && types.Object(ps.At(i)) == o {
				return true
			}
		}
		return false
	}
	// judged: fact f of function `in` tells that the range predicate handed to
	// `in`, applied to the slot GetSlot computed for cand, returned `sense`;
	// one level of same-package predicate helper is followed.
	var judged func(in *core.Fn, f cfgq.Fact, depth int) (cand ast.Expr, sense, ok bool)
	judged = func(in *core.Fn, f cfgq.Fact, depth int) (ast.Expr, bool, bool) {
		call, isCall := ast.Unparen(f.Expr).(*ast.CallExpr)
		if !isCall {
			return nil, false, false
		}
		if o := objOf(dinfo, call.Fun); o != nil && funcParam(in, o) && len(call.Args) == 1 {
			slot := objOf(dinfo, strip(dinfo, call.Args[0]))
			var cand ast.Expr
			writes := 0
			ast.Inspect(in.Decl.Body, func(n ast.Node) bool {
				switch as := n.(type) {
				case *ast.AssignStmt:
					for _, l := range as.Lhs {
						if slot != nil && objOf(dinfo, l) == slot {
							writes++
						}
					}
					if len(as.Rhs) == 1 && len(as.Lhs) >= 1 && slot != nil && objOf(dinfo, as.Lhs[0]) == slot {
						if gc, ok := ast.Unparen(as.Rhs[0]).(*ast.CallExpr); ok && core.CalleeFunc(dinfo, gc) == getSlot.Obj && len(gc.Args) == 1 {
							cand = gc.Args[0]
						}
					}
				case *ast.IncDecStmt:
					if slot != nil && objOf(dinfo, as.X) == slot {
						writes++
					}
				}
				return true
			})
			if cand == nil || writes != 1 {
				return nil, false, false
			}
			return cand, f.Val, true
		}
		hfn := core.CalleeFunc(dinfo, call)
		if depth > 0 || hfn == nil || hfn.Pkg() != in.Obj.Pkg() || hfn == in.Obj {
			return nil, false, false
		}
		hf := c.FnOf(hfn)
		ps := hfn.Type().(*types.Signature).Params()
		if hf == nil || hf.Decl.Body == nil || ps.Len() != len(call.Args) {
			return nil, false, false
		}
		hg := cfgq.Of(c.Program, hf)
		var hc ast.Expr
		var hs, have bool
		agree := func(cd ast.Expr, sn bool) bool {
			if have && (sn != hs || !pat.Same(dinfo, strip(dinfo, cd), strip(dinfo, hc))) {
				return false
			}
			hc, hs, have = cd, sn, true
			return true
		}
		for _, p := range hg.Points(func(n ast.Node) bool { _, ok := n.(*ast.ReturnStmt); return ok }) {
			r := p.Node().(*ast.ReturnStmt)
			if len(r.Results) != 1 {
				return nil, false, false
			}
			if tv := dinfo.Types[r.Results[0]]; tv.Value != nil {
				if isTrue(dinfo, r.Results[0]) != f.Val {
					continue
				}
				// a constant verdict: every way to it must have asked the predicate
				var cd ast.Expr
				var sn bool
				ok, _ := onlyVia(hg, p, func(x cfgq.Fact) bool {
					c1, s1, k := judged(hf, x, depth+1)
					if k {
						cd, sn = c1, s1
					}
					return k
				})
				if !ok || cd == nil || !agree(cd, sn) {
					return nil, false, false
				}
				continue
			}
			found := false
			for _, x := range cfgq.Facts(r.Results[0], f.Val) {
				if c1, s1, k := judged(hf, x, depth+1); k {
					if !agree(c1, s1) {
						return nil, false, false
					}
					found = true
				}
			}
			if !found {
				return nil, false, false
			}
		}
		if !have {
			return nil, false, false
		}
		// back to the caller's terms: the helper's candidate and predicate are parameters
		var cand ast.Expr
		judgeOK := false
		for i := 0; i < ps.Len(); i++ {
			if objOf(dinfo, strip(dinfo, hc)) == types.Object(ps.At(i)) {
				cand = call.Args[i]
			}
			if _, isF := ps.At(i).Type().Underlying().(*types.Signature); isF {
				judgeOK = funcParam(in, objOf(dinfo, call.Args[i]))
			}
		}
		if cand == nil || !judgeOK {
			return nil, false, false
		}
		return cand, hs, true
	}
	var cands []ast.Expr
	for _, b := range g.CFG.Blocks {
		for si := range b.Succs {
			if b.Live && len(b.Succs) == 2 {
				for _, f := range edgeFacts(g, b, si) {
					if cd, _, ok := judged(dfs, f, 0); ok {
						cands = append(cands, cd)
					}
				}
			}
		}
	}
	if len(cands) == 0 {
		c.Undecidedf("R4.range", "pickSuffixDfs/slot-of-candidate", dfs.Decl.Pos(), "cannot find the range predicate being asked about redis.GetSlot(candidate)")
	} else {
		n := 0
		for _, p := range g.Points(func(n ast.Node) bool {
			r, ok := n.(*ast.ReturnStmt)
			return ok && len(r.Results) == 2 && isTrue(dinfo, r.Results[0])
		}) {
			n++
			r := p.Node().(*ast.ReturnStmt)
			ret := strip(dinfo, r.Results[1])
			same, differs := false, false
			var cand ast.Expr
			for _, cd := range cands {
				cand = strip(dinfo, cd)
				if pat.Same(dinfo, ret, cand) {
					same = true
				} else if objOf(dinfo, ret) == nil && objOf(dinfo, cand) != nil && mentions(dinfo, ret, objOf(dinfo, cand)) {
					differs = true
				}
			}
			switch {
			case same:
				c.Okf("R4.range", "pickSuffixDfs/slot-of-candidate", r.Pos(), "the string returned is the one whose slot was computed (%s)", c.Src(ret))
			case differs:
				c.Check("R4.range", "pickSuffixDfs/slot-of-candidate", r.Pos(), false,
					fmt.Sprintf("the string returned as checkpoint key (%s) is a different function of the candidate than the one whose slot was computed (%s): the checkpoint may live on another shard than the data it describes", c.Src(r.Results[1]), c.Src(cand)))
			default:
				c.Undecidedf("R4.range", "pickSuffixDfs/slot-of-candidate", r.Pos(), "cannot relate the returned string %s to the candidate %s", c.Src(ret), c.Src(cand))
			}
			okJ, _ := onlyVia(g, p, func(f cfgq.Fact) bool { _, sn, ok := judged(dfs, f, 0); return ok && sn })
			inverted := false
			if !okJ {
				inverted, _ = onlyVia(g, p, func(f cfgq.Fact) bool { _, sn, ok := judged(dfs, f, 0); return ok && !sn })
			}
			if inverted {
				c.Check("R4.range", "pickSuffixDfs/accept-iff-judge", r.Pos(), false, "a candidate is returned exactly when the range predicate REJECTED its slot: the checkpoint key hashes outside the shard's slot range")
			} else if okJ {
				c.Okf("R4.range", "pickSuffixDfs/accept-iff-judge", r.Pos(), "a candidate is returned only when the range predicate accepted its slot")
			} else {
				c.Undecidedf("R4.range", "pickSuffixDfs/accept-iff-judge", r.Pos(), "cannot see that the candidate is returned only when the range predicate holds for its slot")
			}
		}
		if n == 0 {
			c.Undecidedf("R4.range", "pickSuffixDfs/slot-of-candidate", dfs.Decl.Pos(), "no accepting return found")
		}
	}
	// GetSlot is the verified extractor
	viaHash := len(core.Calls(getSlot.Decl.Body, getSlot.Pkg.TypesInfo, func(_ *ast.CallExpr, o types.Object) bool { return o == hash.Obj })) > 0
	if viaHash {
		c.Okf("R4.range", "cluster.GetSlot/uses-hash", getSlot.Decl.Pos(), "GetSlot computes the slot with the extractor checked under R3")
	} else {
		c.Undecidedf("R4.range", "cluster.GetSlot/uses-hash", getSlot.Decl.Pos(), "GetSlot does not call hash")
	}

	// FilterKey: CheckpointKey prefix rejected before any list is consulted
	finfo := filterKey.Pkg.TypesInfo
	fg := cfgq.Of(c.Program, filterKey)
	prefixTestOn := func(e ast.Expr, key types.Object) bool {
		call, ok := ast.Unparen(e).(*ast.CallExpr)
		return ok && core.IsFunc(core.CalleeFunc(finfo, call), "strings", "", "HasPrefix") && len(call.Args) == 2 &&
			objOf(finfo, call.Args[0]) == key && core.ObjOf(finfo, call.Args[1]) == cpk
	}
	keyParam := types.Object(filterKey.Obj.Type().(*types.Signature).Params().At(0))
	isPrefixTest := func(e ast.Expr) bool { return prefixTestOn(e, keyParam) }
	// prefixFalse: the fact implies that key does NOT start with CheckpointKey,
	// directly or because a same-package boolean helper applied to the key
	// returns that value only when its own HasPrefix(key, CheckpointKey) is false.
	prefixFalse := func(f cfgq.Fact) bool {
		if !f.Val && isPrefixTest(f.Expr) {
			return true
		}
		call, ok := ast.Unparen(f.Expr).(*ast.CallExpr)
		if !ok {
			return false
		}
		hfn := core.CalleeFunc(finfo, call)
		if hfn == nil || hfn.Pkg() != filterKey.Obj.Pkg() || hfn == filterKey.Obj {
			return false
		}
		hf := c.FnOf(hfn)
		sig := hfn.Type().(*types.Signature)
		if hf == nil || hf.Decl.Body == nil || sig.Results().Len() != 1 || sig.Params().Len() != len(call.Args) {
			return false
		}
		var hkey types.Object
		for i, a := range call.Args {
			if objOf(finfo, a) == keyParam {
				hkey = sig.Params().At(i)
			}
		}
		if hkey == nil {
			return false
		}
		hg := cfgq.Of(c.Program, hf)
		direct := func(g cfgq.Fact) bool { return !g.Val && prefixTestOn(g.Expr, hkey) }
		rets := hg.Points(func(n ast.Node) bool { _, ok := n.(*ast.ReturnStmt); return ok })
		for _, p := range rets {
			r := p.Node().(*ast.ReturnStmt)
			if len(r.Results) != 1 {
				return false
			}
			if tv := finfo.Types[r.Results[0]]; tv.Value != nil {
				if isTrue(finfo, r.Results[0]) != f.Val {
					continue // this return yields the other value
				}
			} else {
				implied := false
				for _, g := range cfgq.Facts(r.Results[0], f.Val) {
					if direct(g) {
						implied = true
					}
				}
				if implied {
					continue
				}
			}
			if ok, _ := onlyVia(hg, p, direct); !ok {
				return false
			}
		}
		return len(rets) > 0
	}
	found := false
	for _, b := range fg.CFG.Blocks {
		cond := cfgq.CondOf(b)
		if !b.Live || cond == nil || !edgeHas(fg, b, 0, func(f cfgq.Fact) bool { return f.Val && isPrefixTest(f.Expr) }) {
			continue
		}
		found = true
		w := fg.Path(cfgq.Query{From: cfgq.Point{B: b.Succs[0], I: 0}, Target: func(n ast.Node) bool {
			r, ok := n.(*ast.ReturnStmt)
			return ok && !(len(r.Results) == 1 && isTrue(finfo, r.Results[0]))
		}})
		w2 := fg.Path(cfgq.Query{From: cfgq.Point{B: b.Succs[0], I: 0}, TargetExit: func(_ *cfg.Block, k cfgq.ExitKind) bool { return k == cfgq.ExitFall }})
		c.Check("R4.filter", "FilterKey/checkpoint-prefix-rejected", cond.Pos(), w == nil && w2 == nil,
			"a key with prefix CheckpointKey must be rejected (FilterKey returns true): the per-shard checkpoint keys redis-shake-checkpoint-xxxx would otherwise be synced as user data", w...)
	}
	passRets := fg.Points(func(n ast.Node) bool {
		r, ok := n.(*ast.ReturnStmt)
		return ok && !(len(r.Results) == 1 && isTrue(finfo, r.Results[0]))
	})
	if !found {
		allGuarded := len(passRets) > 0
		for _, p := range passRets {
			if ok, _ := onlyVia(fg, p, prefixFalse); !ok {
				allGuarded = false
			}
		}
		// positive evidence only: nothing in the package tests a key against the CheckpointKey prefix
		anyTest := false
		for _, f := range filterKey.Pkg.Syntax {
			ast.Inspect(f, func(n ast.Node) bool {
				if call, ok := n.(*ast.CallExpr); ok && core.IsFunc(core.CalleeFunc(finfo, call), "strings", "", "HasPrefix") {
					for _, a := range call.Args {
						if core.ObjOf(finfo, a) == cpk {
							anyTest = true
						}
					}
				}
				return true
			})
		}
		switch {
		case allGuarded:
			c.Okf("R4.filter", "FilterKey/checkpoint-prefix-rejected", filterKey.Decl.Pos(), "every verdict other than 'rejected' is reached only when a helper established that the key does not start with CheckpointKey")
		case anyTest:
			c.Undecidedf("R4.filter", "FilterKey/checkpoint-prefix-rejected", filterKey.Decl.Pos(), "cannot see FilterKey rejecting keys with prefix CheckpointKey")
		default:
			c.Check("R4.filter", "FilterKey/checkpoint-prefix-rejected", filterKey.Decl.Pos(), false,
				"nothing in the filter package tests strings.HasPrefix(key, CheckpointKey): the per-shard checkpoint keys (CheckpointKey-xxxx chosen by ChoseSlotInRange) pass the key filter and are synced as user data")
		}
	}
	// every verdict other than "rejected" is reached only after the prefix test failed
	k := 0
	for _, p := range passRets {
		k++
		ok, w := onlyVia(fg, p, prefixFalse)
		if ok || found {
			c.Check("R4.filter", "FilterKey/prefix-before-pass", p.Node().Pos(), ok,
				"FilterKey can let a key pass without first having rejected the CheckpointKey prefix: with a whitelist (or no blacklist entry) matching it, the per-shard checkpoint key is synced as user data", w...)
		} else {
			c.Undecidedf("R4.filter", "FilterKey/prefix-before-pass", p.Node().Pos(), "no CheckpointKey-prefix test seen before this verdict")
		}
	}
	if k == 0 {
		c.Undecidedf("R4.filter", "FilterKey/prefix-before-pass", filterKey.Decl.Pos(), "FilterKey never lets a key pass")
	}
}

func latencyKey(c *core.Ctx, crcFn *core.Fn) {
	fn := c.Func(pkgLat, "", "findKeyInRange")
	if fn == nil || crcFn == nil {
		return
	}
	info := fn.Pkg.TypesInfo
	var params []*ast.Ident
	for _, f := range fn.Decl.Type.Params.List {
		params = append(params, f.Names...)
	}
	// slotOf: e is `crc16(cand) <reduced>` or a same-package helper h(cand) returning that
	var slotOf func(e ast.Expr, depth int) ast.Expr
	slotOf = func(e ast.Expr, depth int) ast.Expr {
		e = strip(info, e)
		if be, ok := e.(*ast.BinaryExpr); ok {
			for _, side := range []ast.Expr{be.X, be.Y} {
				if call, ok := ast.Unparen(side).(*ast.CallExpr); ok && core.CalleeFunc(info, call) == crcFn.Obj && len(call.Args) == 1 {
					return call.Args[0]
				}
			}
			return nil
		}
		call, ok := e.(*ast.CallExpr)
		hfn := core.CalleeFunc(info, orCallExpr(call))
		if !ok || depth > 0 || hfn == nil || hfn.Pkg() != fn.Obj.Pkg() || len(call.Args) != 1 {
			return nil
		}
		hf := c.FnOf(hfn)
		if hf == nil || hf.Decl.Body == nil || len(hf.Decl.Body.List) != 1 {
			return nil
		}
		r, isRet := hf.Decl.Body.List[0].(*ast.ReturnStmt)
		if !isRet || len(r.Results) != 1 {
			return nil
		}
		if inner := slotOf(r.Results[0], depth+1); inner != nil && objOf(info, strip(info, inner)) == types.Object(hfn.Type().(*types.Signature).Params().At(0)) {
			return call.Args[0]
		}
		return nil
	}
	if len(params) != 2 {
		c.Undecidedf("R5.latency", "findKeyInRange/skeleton", fn.Decl.Pos(), "expected (min, max)")
		return
	}
	var cand ast.Expr
	var slotVar *ast.Ident
	nslot := 0
	ast.Inspect(fn.Decl.Body, func(n ast.Node) bool {
		if as, ok := n.(*ast.AssignStmt); ok && len(as.Lhs) == 1 && len(as.Rhs) == 1 {
			if cd := slotOf(as.Rhs[0], 0); cd != nil {
				if id, ok := as.Lhs[0].(*ast.Ident); ok {
					slotVar, cand = id, cd
					nslot++
				}
			}
		}
		return true
	})
	if slotVar == nil || nslot != 1 {
		c.Undecidedf("R5.latency", "findKeyInRange/skeleton", fn.Decl.Pos(), "cannot find the variable holding the candidate's slot (crc16 of the candidate, reduced, here or in a one-line helper)")
		return
	}
	g := cfgq.Of(c.Program, fn)
	isRet := func(n ast.Node) bool { _, ok := n.(*ast.ReturnStmt); return ok }
	for _, p := range g.Points(isRet) {
		r := p.Node().(*ast.ReturnStmt)
		if len(r.Results) == 1 && pat.Same(info, r.Results[0], cand) {
			c.Okf("R5.latency", "findKeyInRange/slot-of-returned-key", r.Pos(), "the key returned is the one whose slot was tested (%s)", c.Src(cand))
		} else {
			c.Undecidedf("R5.latency", "findKeyInRange/slot-of-returned-key", r.Pos(), "cannot relate the returned key %s to the tested one %s", c.Src(r), c.Src(cand))
		}
	}
	inclusive(c, "R5.latency", "findKeyInRange", g, fn.Decl.Body, slotVar, params[0], params[1], isRet)
	// the synthetic key has no hash tag, so hashing the whole key is the specification's slot
	if v, ok := fn.Pkg.Types.Scope().Lookup("keyPrefix").(*types.Var); ok {
		for _, f := range fn.Pkg.Syntax {
			ast.Inspect(f, func(n ast.Node) bool {
				if vs, ok := n.(*ast.ValueSpec); ok {
					for i, nm := range vs.Names {
						if info.Defs[nm] == v && i < len(vs.Values) {
							s, isC := core.StringConst(info, vs.Values[i])
							if isC {
								c.Check("R5.latency", "keyPrefix/no-hash-tag", vs.Pos(), !strings.ContainsAny(s, "{}"),
									"findKeyInRange hashes the whole key; with a brace in the prefix the cluster would hash only the tag and the probe key lands on another shard")
							}
						}
					}
				}
				return true
			})
		}
	}
}

func mentions(info *types.Info, n ast.Node, o types.Object) bool {
	hit := false
	ast.Inspect(n, func(m ast.Node) bool {
		if id, ok := m.(*ast.Ident); ok && info.Uses[id] == o {
			hit = true
		}
		return true
	})
	return hit
}
