package c15

import (
	"go/ast"
	"go/types"
	"rscheck/cfgq"
	"rscheck/core"
	"rscheck/pat"
	"strings"
)

func latencyKey(c *core.Ctx, crcFn *core.Fn) {
	fn := c.Func(pkgLat, "", "findKeyInRange")
	if fn == nil || crcFn == nil {
		return
	}
	info := fn.Pkg.TypesInfo
	var params []*ast.Ident
	for _, f := range fn.Decl.Type.Params.List {
		params = append(params, f.Names...)
	}
	// slotOf: e is `crc16(cand) <reduced>` or a same-package helper h(cand) returning that
	var slotOf func(e ast.Expr, depth int) ast.Expr
	slotOf = func(e ast.Expr, depth int) ast.Expr {
		e = strip(info, e)
		if be, ok := e.(*ast.BinaryExpr); ok {
			for _, side := range []ast.Expr{be.X, be.Y} {
				if call, ok := ast.Unparen(side).(*ast.CallExpr); ok && core.CalleeFunc(info, call) == crcFn.Obj && len(call.Args) == 1 {
					return call.Args[0]
				}
			}
			return nil
		}
		call, ok := e.(*ast.CallExpr)
		hfn := core.CalleeFunc(info, orCallExpr(call))
		if !ok || depth > 0 || hfn == nil || hfn.Pkg() != fn.Obj.Pkg() || len(call.Args) != 1 {
			return nil
		}
		hf := c.FnOf(hfn)
		if hf == nil || hf.Decl.Body == nil || len(hf.Decl.Body.List) != 1 {
			return nil
		}
		r, isRet := hf.Decl.Body.List[0].(*ast.ReturnStmt)
		if !isRet || len(r.Results) != 1 {
			return nil
		}
		if inner := slotOf(r.Results[0], depth+1); inner != nil && objOf(info, strip(info, inner)) == types.Object(hfn.Type().(*types.Signature).Params().At(0)) {
			return call.Args[0]
		}
		return nil
	}
	if len(params) != 2 {
		c.Undecidedf("R5.latency", "findKeyInRange/skeleton", fn.Decl.Pos(), "expected (min, max)")
		return
	}
	var cand ast.Expr
	var slotVar *ast.Ident
	nslot := 0
	ast.Inspect(fn.Decl.Body, func(n ast.Node) bool {
		switch as := n.(type) {
		case *ast.AssignStmt:
			for i, l := range as.Lhs {
				if r := core.AssignedTo(as, i); r != nil {
					if cd := slotOf(r, 0); cd != nil {
						if id, ok := l.(*ast.Ident); ok {
							slotVar, cand = id, cd
							nslot++
						}
					}
				}
			}
		case *ast.ValueSpec:
			for i, nm := range as.Names {
				if len(as.Values) == len(as.Names) {
					if cd := slotOf(as.Values[i], 0); cd != nil {
						slotVar, cand = nm, cd
						nslot++
					}
				}
			}
		}
		return true
	})
	if slotVar == nil && latencyByClosure(c, fn, params, slotOf) {
		return
	}
	if slotVar == nil || nslot != 1 {
		c.Undecidedf("R5.latency", "findKeyInRange/skeleton", fn.Decl.Pos(), "cannot find the variable holding the candidate's slot (crc16 of the candidate, reduced, here or in a one-line helper)")
		return
	}
	g := cfgq.Of(c.Program, fn)
	ds := &defs{info: info, body: fn.Decl.Body, g: g}
	isRet := func(n ast.Node) bool { _, ok := n.(*ast.ReturnStmt); return ok }
	for _, p := range g.Points(isRet) {
		r := p.Node().(*ast.ReturnStmt)
		var res ast.Expr
		if len(r.Results) == 1 {
			res = r.Results[0]
		} else if fr := fn.Decl.Type.Results; len(r.Results) == 0 && fr != nil && len(fr.List) == 1 && len(fr.List[0].Names) == 1 {
			// bare return of the named result: its value is what the name holds here
			if d := ds.defOfAt(info.Defs[fr.List[0].Names[0]], r); d != nil {
				res = d
			}
		}
		if res != nil && (pat.Same(info, res, cand) || ds.sameValue(res, cand)) {
			c.Okf("R5.latency", "findKeyInRange/slot-of-returned-key", r.Pos(), "the key returned is the one whose slot was tested (%s)", c.Src(cand))
		} else {
			c.Undecidedf("R5.latency", "findKeyInRange/slot-of-returned-key", r.Pos(), "cannot relate the returned key %s to the tested one %s", c.Src(r), c.Src(cand))
		}
	}
	inclusive(c, "R5.latency", "findKeyInRange", g, fn.Decl.Body, slotVar, params[0], params[1], isRet)
	keyPrefixTag(c, fn)
}

// keyPrefixTag: the synthetic key has no hash tag, so hashing the whole key is the specification's slot.
func keyPrefixTag(c *core.Ctx, fn *core.Fn) {
	info := fn.Pkg.TypesInfo
	if v, ok := fn.Pkg.Types.Scope().Lookup("keyPrefix").(*types.Var); ok {
		for _, f := range fn.Pkg.Syntax {
			ast.Inspect(f, func(n ast.Node) bool {
				if vs, ok := n.(*ast.ValueSpec); ok {
					for i, nm := range vs.Names {
						if info.Defs[nm] == v && i < len(vs.Values) {
							s, isC := core.StringConst(info, vs.Values[i])
							if isC {
								c.Check("R5.latency", "keyPrefix/no-hash-tag", vs.Pos(), !strings.ContainsAny(s, "{}"),
									"findKeyInRange hashes the whole key; with a brace in the prefix the cluster would hash only the tag and the probe key lands on another shard")
							}
						}
					}
				}
				return true
			})
		}
	}
}

// latencyByClosure handles the range test held in a function literal bound once
// to a local (what is left when a higher-order search helper is expanded in
// place): `accept := func(slot int) bool { return min <= slot && slot <= max }`
// ... `if accept(<slot of key>) { return key }`. The bounds are judged inside
// the literal, the search on the facts about the literal's verdict.
func latencyByClosure(c *core.Ctx, fn *core.Fn, params []*ast.Ident, slotOf func(ast.Expr, int) ast.Expr) bool {
	info := fn.Pkg.TypesInfo
	var call *ast.CallExpr
	var lit *ast.FuncLit
	var cand ast.Expr
	n := 0
	ast.Inspect(fn.Decl.Body, func(m ast.Node) bool {
		cl, ok := m.(*ast.CallExpr)
		if !ok || len(cl.Args) != 1 {
			return true
		}
		o := objOf(info, cl.Fun)
		if _, isVar := o.(*types.Var); !isVar {
			return true
		}
		rhs, other := defsOf(info, fn.Decl.Body, o)
		if len(rhs) != 1 || other != 0 || rhs[0] == nil {
			return true
		}
		fl, isLit := ast.Unparen(rhs[0]).(*ast.FuncLit)
		if !isLit || len(fl.Type.Params.List) != 1 || len(fl.Type.Params.List[0].Names) != 1 {
			return true
		}
		if cd := slotOf(cl.Args[0], 0); cd != nil {
			call, lit, cand = cl, fl, cd
			n++
		}
		return true
	})
	if n != 1 {
		return false
	}
	for _, p := range params { // the literal reads the bounds when it runs: they must still be the parameters' values
		if rhs, other := defsOf(info, fn.Decl.Body, info.Defs[p]); len(rhs) != 0 || other != 0 {
			return false
		}
	}
	g := cfgq.Of(c.Program, fn)
	isRet := func(n ast.Node) bool { _, ok := n.(*ast.ReturnStmt); return ok }
	said := func(val bool) func(cfgq.Fact) bool {
		return func(f cfgq.Fact) bool { return ast.Unparen(f.Expr) == ast.Expr(call) && f.Val == val }
	}
	for _, p := range g.Points(isRet) {
		r := p.Node().(*ast.ReturnStmt)
		if len(r.Results) == 1 && pat.Same(info, r.Results[0], cand) {
			c.Okf("R5.latency", "findKeyInRange/slot-of-returned-key", r.Pos(), "the key returned is the one whose slot was tested (%s)", c.Src(cand))
		} else {
			c.Undecidedf("R5.latency", "findKeyInRange/slot-of-returned-key", r.Pos(), "cannot relate the returned key %s to the tested one %s", c.Src(r), c.Src(cand))
		}
		yes, _ := onlyVia(g, p, said(true))
		no, w := onlyVia(g, p, said(false))
		switch {
		case yes:
			c.Okf("R5.latency", "findKeyInRange/accept-iff-predicate", r.Pos(), "a key is returned only when the range predicate accepted its slot")
		case no:
			c.Check("R5.latency", "findKeyInRange/accept-iff-predicate", r.Pos(), false, "a key is returned exactly when the range predicate REJECTED its slot: the probe key lands on another shard than the one it is meant to measure", w...)
		default:
			c.Undecidedf("R5.latency", "findKeyInRange/accept-iff-predicate", r.Pos(), "cannot see that the key is returned only when the range predicate holds for its slot")
		}
	}
	gl := cfgq.OfLit(c.Program, info, lit)
	inclusive(c, "R5.latency", "findKeyInRange", gl, lit.Body, lit.Type.Params.List[0].Names[0], params[0], params[1], func(n ast.Node) bool {
		r, ok := n.(*ast.ReturnStmt)
		if !ok || len(r.Results) != 1 {
			return false
		}
		tv := info.Types[r.Results[0]]
		return tv.Value == nil || isTrue(info, r.Results[0])
	})
	keyPrefixTag(c, fn)
	return true
}

// methodJudge handles a range predicate given as a method value, e.g.
// `slotRange{left, right}.has` with `func (r slotRange) has(s int) bool { return
// s >= r.left && s <= r.right }`: the bounds are the fields the composite literal
// binds to left and right. It records the judge/lower and judge/upper
// obligations and reports whether the form was recognised.
func methodJudge(c *core.Ctx, info *types.Info, chose *core.Fn, e ast.Expr, left, right *ast.Ident) bool {
	e = ast.Unparen(e)
	if o := objOf(info, e); o != nil {
		if rhs, other := defsOf(info, chose.Decl.Body, o); len(rhs) == 1 && other == 0 && rhs[0] != nil {
			e = ast.Unparen(rhs[0])
		}
	}
	sel, ok := e.(*ast.SelectorExpr)
	if !ok {
		return false
	}
	s := info.Selections[sel]
	if s == nil || s.Kind() != types.MethodVal {
		return false
	}
	recv := ast.Unparen(sel.X)
	if o := objOf(info, recv); o != nil {
		if rhs, other := defsOf(info, chose.Decl.Body, o); len(rhs) == 1 && other == 0 && rhs[0] != nil {
			recv = ast.Unparen(rhs[0])
		}
	}
	lit, ok := recv.(*ast.CompositeLit)
	mf := c.FnOf(s.Obj().(*types.Func))
	st, isStruct := info.TypeOf(lit).Underlying().(*types.Struct)
	if !ok || mf == nil || mf.Decl.Body == nil || !isStruct || mf.Decl.Recv == nil || len(mf.Decl.Recv.List) != 1 || len(mf.Decl.Recv.List[0].Names) != 1 {
		return false
	}
	var fl, fr *types.Var
	for i, el := range lit.Elts {
		val, fld := el, (*types.Var)(nil)
		if kv, isKV := el.(*ast.KeyValueExpr); isKV {
			val = kv.Value
			if id, ok := kv.Key.(*ast.Ident); ok {
				fld, _ = info.Uses[id].(*types.Var)
			}
		} else if i < st.NumFields() {
			fld = st.Field(i)
		}
		switch objOf(info, val) {
		case info.Defs[left]:
			fl = fld
		case info.Defs[right]:
			fr = fld
		}
	}
	var ps []*ast.Ident
	for _, f := range mf.Decl.Type.Params.List {
		ps = append(ps, f.Names...)
	}
	if fl == nil || fr == nil || len(ps) != 1 {
		return false
	}
	minfo := mf.Pkg.TypesInfo
	var lo, hi ast.Expr
	ast.Inspect(mf.Decl.Body, func(n ast.Node) bool {
		if se, ok := n.(*ast.SelectorExpr); ok && objOf(minfo, se.X) == minfo.Defs[mf.Decl.Recv.List[0].Names[0]] {
			switch core.FieldOf(minfo, se) {
			case fl:
				lo = se
			case fr:
				hi = se
			}
		}
		return true
	})
	if lo == nil || hi == nil {
		return false
	}
	inclusive(c, "R4.range", "ChoseSlotInRange/judge", cfgq.Of(c.Program, mf), mf.Decl.Body, ps[0], lo, hi, func(n ast.Node) bool {
		r, ok := n.(*ast.ReturnStmt)
		if !ok || len(r.Results) != 1 {
			return false
		}
		tv := minfo.Types[r.Results[0]]
		return tv.Value == nil || isTrue(minfo, r.Results[0])
	})
	return true
}

func mentions(info *types.Info, n ast.Node, o types.Object) bool {
	hit := false
	ast.Inspect(n, func(m ast.Node) bool {
		if id, ok := m.(*ast.Ident); ok && info.Uses[id] == o {
			hit = true
		}
		return true
	})
	return hit
}
