package c15

import (
	"fmt"
	"go/ast"
	"go/token"
	"go/types"

	"rscheck/cfgq"
	"rscheck/core"
	"rscheck/pat"
)

// searchFlat judges ChoseSlotInRange when the search for a suffix runs in the
// function itself (a loop over candidates instead of the recursive helper):
// the slot is that of the very bytes that are returned, a candidate is returned
// only with left <= slot <= right established, and the candidate bytes start
// with "<prefix>-".
func searchFlat(c *core.Ctx, chose, getSlot *core.Fn, params []*ast.Ident) {
	info := chose.Pkg.TypesInfo
	body := chose.Decl.Body
	g := cfgq.Of(c.Program, chose)
	var slotVar *ast.Ident
	var slotCand ast.Expr
	var slotAs ast.Node
	nslot := 0
	ast.Inspect(body, func(n ast.Node) bool {
		if as, ok := n.(*ast.AssignStmt); ok && len(as.Rhs) == 1 && len(as.Lhs) >= 1 {
			if gc, ok := ast.Unparen(as.Rhs[0]).(*ast.CallExpr); ok && core.CalleeFunc(info, gc) == getSlot.Obj && len(gc.Args) == 1 {
				slotVar, _ = as.Lhs[0].(*ast.Ident)
				slotCand, slotAs = gc.Args[0], as
				nslot++
			}
		}
		return true
	})
	asString := func(res ast.Expr) ast.Expr {
		if o := objOf(info, res); o != nil {
			if rhs, other := defsOf(info, body, o); len(rhs) == 1 && other == 0 && rhs[0] != nil {
				res = rhs[0]
			}
		}
		if call, ok := ast.Unparen(res).(*ast.CallExpr); ok && len(call.Args) == 1 {
			if tv, isT := info.Types[call.Fun]; isT && tv.IsType() {
				if b, ok := tv.Type.Underlying().(*types.Basic); ok && b.Kind() == types.String {
					return call.Args[0]
				}
			}
		}
		return nil
	}
	accepting := func(n ast.Node) bool {
		r, ok := n.(*ast.ReturnStmt)
		return ok && len(r.Results) == 1 && asString(r.Results[0]) != nil
	}
	pts := g.Points(accepting)
	if slotVar == nil || nslot != 1 || len(pts) == 0 {
		c.Undecidedf("R4.range", "ChoseSlotInRange/judge", chose.Decl.Pos(), "cannot find the range predicate passed to pickSuffixDfs, nor a search in ChoseSlotInRange itself (`slot, err := redis.GetSlot(candidate)` and a return of string(candidate))")
		c.Undecidedf("R4.prefix", "ChoseSlotInRange/seed", chose.Decl.Pos(), "cannot see that the candidate is built as <prefix>-<suffix> and returned")
		return
	}
	sp, _ := g.Find(slotAs)
	for _, p := range pts {
		r := p.Node().(*ast.ReturnStmt)
		ret, cand := strip(info, asString(r.Results[0])), strip(info, slotCand)
		// the bytes are not touched between the slot computation and the return
		touched := false
		ast.Inspect(body, func(n ast.Node) bool {
			if touched {
				return false
			}
			w := writesBytes(info, n, cand)
			if w == nil {
				return true
			}
			wp, ok := g.Find(w)
			if !ok {
				touched = true
				return true
			}
			isSlot := func(m ast.Node) bool { return m == sp.Node() }
			if g.Path(cfgq.Query{From: sp, After: true, Avoid: isSlot, Target: func(m ast.Node) bool { return m == wp.Node() }}) != nil &&
				g.Path(cfgq.Query{From: wp, After: true, Avoid: isSlot, Target: func(m ast.Node) bool { return m == ast.Node(r) }}) != nil {
				touched = true
			}
			return true
		})
		switch {
		case pat.Same(info, ret, cand) && !touched:
			c.Okf("R4.range", "pickSuffixDfs/slot-of-candidate", r.Pos(), "the string returned is the one whose slot was computed (%s)", c.Src(ret))
		case !pat.Same(info, ret, cand) && objOf(info, ret) == nil && objOf(info, cand) != nil && mentions(info, ret, objOf(info, cand)):
			c.Check("R4.range", "pickSuffixDfs/slot-of-candidate", r.Pos(), false,
				fmt.Sprintf("the string returned as checkpoint key (%s) is a different function of the candidate than the one whose slot was computed (%s): the checkpoint may live on another shard than the data it describes", c.Src(ret), c.Src(cand)))
		default:
			c.Undecidedf("R4.range", "pickSuffixDfs/slot-of-candidate", r.Pos(), "cannot relate the returned string %s to the candidate %s", c.Src(ret), c.Src(cand))
		}
	}
	inclusive(c, "R4.range", "ChoseSlotInRange/judge", g, body, slotVar, params[1], params[2], accepting)
	c.Okf("R4.range", "pickSuffixDfs/accept-iff-judge", chose.Decl.Pos(), "the bounds are tested in the search itself (see ChoseSlotInRange/judge/lower and /upper)")

	// the candidate bytes: created empty, "<prefix>-" appended first, then only
	// suffix letters appended or rewritten behind it
	co := objOf(info, strip(info, slotCand))
	okSeed, why := false, "the candidate is not a local byte slice"
	if co != nil {
		okSeed, why = seedThenSuffix(info, body, g, co, info.Defs[params[0]])
	}
	if okSeed {
		c.Okf("R4.prefix", "ChoseSlotInRange/seed", chose.Decl.Pos(), "the candidate starts with <prefix>- (appended first), only suffix bytes follow, and it is what is returned")
	} else {
		c.Undecidedf("R4.prefix", "ChoseSlotInRange/seed", chose.Decl.Pos(), "cannot see that the candidate is built as <prefix>-<suffix> and returned: %s", why)
	}
}

// writesBytes: statement n stores into the bytes of e (e[i] = .., e[i]++, e = ..).
func writesBytes(info *types.Info, n ast.Node, e ast.Expr) ast.Node {
	same := func(x ast.Expr) bool {
		x = ast.Unparen(x)
		if ie, ok := x.(*ast.IndexExpr); ok {
			x = ie.X
		}
		return pat.Same(info, strip(info, x), e)
	}
	switch s := n.(type) {
	case *ast.AssignStmt:
		for _, l := range s.Lhs {
			if same(l) {
				return s
			}
		}
	case *ast.IncDecStmt:
		if same(s.X) {
			return s
		}
	}
	return nil
}

// seedThenSuffix: the local byte slice co is created empty, receives
// "<prefix>-" with its first append (outside any loop) and afterwards only
// single bytes are appended, or bytes at index >= len("<prefix>-") rewritten.
func seedThenSuffix(info *types.Info, body *ast.BlockStmt, g *cfgq.Graph, co, prefix types.Object) (bool, string) {
	var seedAt ast.Node
	var seedArg ast.Expr
	var later []ast.Node
	why := ""
	// the bytes may be built under one name and handed over to another by a plain
	// copy of the slice (`state_candidate = candidate`): both names are the same bytes
	names := map[types.Object]bool{co: true}
	for changed := true; changed; {
		changed = false
		ast.Inspect(body, func(n ast.Node) bool {
			if as, ok := n.(*ast.AssignStmt); ok && len(as.Lhs) == len(as.Rhs) {
				for i, l := range as.Lhs {
					if lo, ro := objOf(info, l), objOf(info, strip(info, as.Rhs[i])); lo != nil && ro != nil && names[lo] && !names[ro] {
						if _, isSl := ro.Type().Underlying().(*types.Slice); isSl {
							names[ro], changed = true, true
						}
					}
				}
			}
			return true
		})
	}
	isName := func(e ast.Expr) bool { o := objOf(info, e); return o != nil && names[o] }
	inLoop := func(n ast.Node) bool {
		for _, a := range core.PathTo(body, n) {
			switch a.(type) {
			case *ast.ForStmt, *ast.RangeStmt:
				return true
			}
		}
		return false
	}
	ast.Inspect(body, func(n ast.Node) bool {
		switch s := n.(type) {
		case *ast.AssignStmt:
			for i, l := range s.Lhs {
				if ie, isIdx := ast.Unparen(l).(*ast.IndexExpr); isIdx && isName(ie.X) {
					later = append(later, s)
					if !suffixIndex(info, body, g, s, ie.Index, seedArg) {
						why = "a byte of the candidate is rewritten at a position that is not visibly behind <prefix>-: " + types.ExprString(l)
					}
					continue
				}
				if !isName(l) {
					continue
				}
				r := core.AssignedTo(s, i)
				call, isCall := ast.Unparen(orNilExpr15(r)).(*ast.CallExpr)
				b, isB := core.Callee(info, orCallExpr(call)).(*types.Builtin)
				switch {
				case r == nil:
					why = "the candidate is assigned from a multi-valued call"
				case core.IsNil(info, r):
				case isName(strip(info, r)): // the hand-over copy
				case isCall && isB && b.Name() == "make":
					if len(call.Args) < 2 {
						why = "make without a length"
					} else if k, isC := core.IntConst(info, call.Args[1]); !isC || k != 0 {
						why = "the candidate is created with pre-filled bytes"
					}
				case isCall && isB && b.Name() == "append" && len(call.Args) == 2 && objOf(info, call.Args[0]) == objOf(info, l):
					if call.Ellipsis.IsValid() {
						if seedAt != nil {
							why = "more than one chunk is appended to the candidate"
						}
						seedAt, seedArg = s, call.Args[1]
					} else {
						later = append(later, s)
					}
				default:
					why = "the candidate is assigned " + types.ExprString(r)
				}
			}
		case *ast.IncDecStmt:
			if ie, isIdx := ast.Unparen(s.X).(*ast.IndexExpr); isIdx && isName(ie.X) {
				later = append(later, s)
				if !suffixIndex(info, body, g, s, ie.Index, seedArg) {
					why = "a byte of the candidate is changed at a position that is not visibly behind <prefix>-"
				}
			}
		case *ast.UnaryExpr:
			if s.Op == token.AND && isName(s.X) {
				why = "the address of the candidate is taken"
			}
		}
		return true
	})
	switch {
	case why != "":
		return false, why
	case seedAt == nil:
		return false, "no append of <prefix>- to the candidate found"
	case inLoop(seedAt):
		return false, "<prefix>- is appended inside a loop"
	case !seedExpr(info, body, prefix, seedArg, 0):
		return false, "the chunk appended first is not <prefix>-: " + types.ExprString(seedArg)
	}
	sp, ok := g.Find(seedAt)
	if !ok {
		return false, "seed append not in the control-flow graph"
	}
	for _, l := range later { // every other change comes after the seed
		lp, ok := g.Find(l)
		if !ok {
			return false, "a change of the candidate is outside the control-flow graph"
		}
		if dom, _ := g.Dominated(lp, func(n ast.Node) bool { return n == sp.Node() }); !dom {
			return false, "a byte is appended or rewritten before <prefix>- is in place"
		}
	}
	return true, ""
}

// suffixIndex: the index of a byte store is kept at or behind len(seed) by the
// conditions on the way to the store (`for pos := len(c)-1; pos >= head; pos--`
// with head == len(<seed>)).
func suffixIndex(info *types.Info, body *ast.BlockStmt, g *cfgq.Graph, at ast.Node, idx, seed ast.Expr) bool {
	io := objOf(info, strip(info, idx))
	if io == nil || seed == nil {
		return false
	}
	p, ok := g.Find(at)
	if !ok {
		return false
	}
	isLenSeed := func(e ast.Expr) bool {
		for i := 0; i < 4; i++ {
			e = strip(info, e)
			if call, ok := e.(*ast.CallExpr); ok && len(call.Args) == 1 {
				if b, isB := core.Callee(info, call).(*types.Builtin); isB && b.Name() == "len" {
					return pat.Same(info, strip(info, call.Args[0]), strip(info, seed))
				}
			}
			o := objOf(info, e)
			if o == nil {
				return false
			}
			rhs, other := defsOf(info, body, o)
			var real []ast.Expr
			for _, r := range rhs {
				if r != nil {
					real = append(real, r)
				}
			}
			if len(real) != 1 || other != 0 {
				return false
			}
			e = real[0]
		}
		return false
	}
	ok2, _ := onlyVia(g, p, func(f cfgq.Fact) bool {
		be, isBin := ast.Unparen(f.Expr).(*ast.BinaryExpr)
		if !isBin {
			return false
		}
		x, y, op := be.X, be.Y, be.Op
		if objOf(info, strip(info, y)) == io {
			x, y = y, x
			op = map[token.Token]token.Token{token.LSS: token.GTR, token.GTR: token.LSS, token.LEQ: token.GEQ, token.GEQ: token.LEQ}[op]
		}
		if objOf(info, strip(info, x)) != io || !isLenSeed(y) {
			return false
		}
		return f.Val && op == token.GEQ || !f.Val && op == token.LSS
	})
	return ok2
}

func orNilExpr15(e ast.Expr) ast.Expr {
	if e == nil {
		return &ast.Ident{Name: "_"}
	}
	return e
}

// seedExpr: e is "<prefix>-": fmt.Sprintf("%s-", prefix), prefix + "-",
// append([]byte(prefix), '-'), or a local holding one of these.
func seedExpr(info *types.Info, body ast.Node, prefix types.Object, e ast.Expr, depth int) bool {
	e = strip(info, e)
	if depth > 3 {
		return false
	}
	switch x := e.(type) {
	case *ast.CallExpr:
		if core.IsFunc(core.CalleeFunc(info, x), "fmt", "", "Sprintf") && len(x.Args) == 2 {
			f, _ := core.StringConst(info, x.Args[0])
			return f == "%s-" && objOf(info, x.Args[1]) == prefix
		}
		// append([]byte(prefix), '-')
		if b, isB := core.Callee(info, x).(*types.Builtin); isB && b.Name() == "append" && len(x.Args) == 2 && !x.Ellipsis.IsValid() {
			sep, isC := core.IntConst(info, x.Args[1])
			return isC && sep == '-' && objOf(info, strip(info, x.Args[0])) == prefix
		}
	case *ast.BinaryExpr:
		sep, isC := core.StringConst(info, x.Y)
		return x.Op == token.ADD && isC && sep == "-" && objOf(info, strip(info, x.X)) == prefix
	case *ast.Ident:
		rhs, other := defsOf(info, body, objOf(info, x))
		n := 0
		for _, r := range rhs {
			if r != nil {
				n++
				if !seedExpr(info, body, prefix, r, depth+1) {
					return false
				}
			}
		}
		return n == 1 && other == 0
	}
	return false
}
