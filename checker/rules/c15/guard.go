package c15

import (
	"fmt"
	"go/ast"
	"go/token"
	"go/types"
	"sort"
	"strings"

	"golang.org/x/tools/go/cfg"

	"rscheck/cfgq"
	"rscheck/core"
)

// ---------------------------------------------------------------------------
// R4.guard: the per-shard checkpoint key is chosen for EVERY legal shard range
//
// "The checkpoint key chosen for a cluster shard hashes inside that shard's
// slot range" needs more than a correct ChoseSlotInRange: the function that
// calls it with the boundaries (left, right) of its shard must get to that call
// whenever the two values are a legal slot range, 0 <= left <= right <= 16383.
// Whatever stands in front of the call is read as a predicate over the two
// boundary values: the branch conditions on the way are evaluated for concrete
// ranges, and a legal range for which no way to the call remains is a shard
// that keeps the default key (which hashes wherever it hashes). The only values
// for which the call may be skipped are those outside that domain, such as the
// "not a shard" sentinel -1.
//
// The decision is exact for conditions built with !, &&, || from comparisons of
// a boundary with a constant or with the other boundary (also carried by a
// boolean local, a tagged switch on a boundary, or a same-package predicate
// helper): such a predicate is constant on every cell cut out by the constants
// that occur, and the ranges tried contain a member of every cell. A condition
// about the boundaries that is not of this shape is UNDECIDED, never a pass.

const (
	minSlot = 0
	maxSlot = 16383
)

// apath is an access path: a variable followed by field selections
// (pointer indirections are transparent).
type apath struct {
	root   types.Object
	fields []*types.Var
}

func (p *apath) eq(q *apath) bool {
	if p == nil || q == nil || p.root != q.root || len(p.fields) != len(q.fields) {
		return false
	}
	for i := range p.fields {
		if p.fields[i] != q.fields[i] {
			return false
		}
	}
	return true
}

// prefixOf: p names q or something q is stored in.
func (p *apath) prefixOf(q *apath) bool {
	if p == nil || q == nil || p.root != q.root || len(p.fields) > len(q.fields) {
		return false
	}
	for i := range p.fields {
		if p.fields[i] != q.fields[i] {
			return false
		}
	}
	return true
}

// pathOf names the storage an expression reads; a local that only ever holds a
// copy of such a place stands for it. Synthesised nodes (a helper's condition
// with the arguments filled in) are read through the identifiers they keep.
func (v *defs) pathOf(e ast.Expr, depth int) *apath {
	if e == nil || depth > 8 {
		return nil
	}
	switch x := strip(v.info, e).(type) {
	case *ast.Ident:
		o, ok := objOf(v.info, x).(*types.Var)
		if !ok || o.IsField() {
			return nil
		}
		local := o.Pkg() != nil && o.Parent() != o.Pkg().Scope()
		if local && !v.tupleDefined(o) {
			if d := v.defOf(o); d != nil {
				if p := v.pathOf(d, depth+1); p != nil {
					return p
				}
			}
		}
		return &apath{root: o}
	case *ast.SelectorExpr:
		f, ok := v.info.Uses[x.Sel].(*types.Var)
		if !ok {
			return nil
		}
		if !f.IsField() { // pkg.Var
			return &apath{root: f}
		}
		base := v.pathOf(x.X, depth+1)
		if base == nil {
			return nil
		}
		return &apath{root: base.root, fields: append(append([]*types.Var{}, base.fields...), f)}
	case *ast.StarExpr:
		return v.pathOf(x.X, depth+1)
	case *ast.UnaryExpr:
		if x.Op == token.AND {
			return v.pathOf(x.X, depth+1)
		}
	}
	return nil
}

// constInt: the integer constant an expression denotes (also below the
// parentheses and sign a substitution may have rebuilt).
func constInt(info *types.Info, e ast.Expr) (int64, bool) {
	e = strip(info, e)
	if v, ok := core.IntConst(info, e); ok {
		return v, true
	}
	if u, ok := e.(*ast.UnaryExpr); ok && (u.Op == token.SUB || u.Op == token.ADD) {
		if v, ok := constInt(info, u.X); ok {
			if u.Op == token.SUB {
				v = -v
			}
			return v, true
		}
	}
	return 0, false
}

// shardGuard is the analysis of one function that calls ChoseSlotInRange.
type shardGuard struct {
	c      *core.Ctx
	fn     *core.Fn
	info   *types.Info
	g      *cfgq.Graph
	ds     *defs
	lp, rp *apath
	l, r   int64 // the range under which conditions are currently evaluated
	memo   map[edgeKey]bool
	mcache map[ast.Node]bool
}

type edgeKey struct {
	b    *cfg.Block
	succ int
	pess bool
}

func (s *shardGuard) setRange(l, r int64) {
	s.l, s.r = l, r
	s.memo = map[edgeKey]bool{}
}

func (s *shardGuard) isBoundary(e ast.Expr) (left, ok bool) {
	p := s.ds.pathOf(e, 0)
	switch {
	case p.eq(s.lp):
		return true, true
	case p.eq(s.rp):
		return false, true
	}
	return false, false
}

func (s *shardGuard) term(e ast.Expr) (val int64, ok bool) {
	if v, isC := constInt(s.info, e); isC {
		return v, true
	}
	if left, isB := s.isBoundary(e); isB {
		if left {
			return s.l, true
		}
		return s.r, true
	}
	return 0, false
}

// tv: the values a condition can take for the current range.
type tv struct{ t, f bool }

func (v tv) can(want bool) bool {
	if want {
		return v.t
	}
	return v.f
}

var comparisons = map[token.Token]bool{token.EQL: true, token.NEQ: true, token.LSS: true, token.LEQ: true, token.GTR: true, token.GEQ: true}

// eval: which values can the condition take for the current range? An atom
// that does not depend on the boundaries can be either. An atom that depends on
// them in a way this rule cannot evaluate can be either when the question is
// "is this way closed?" (pess == false) and is no support for either when the
// question is "is this way open?" (pess == true).
func (s *shardGuard) eval(e ast.Expr, pess bool, depth int) tv {
	e = ast.Unparen(e)
	if cv, ok := s.info.Types[e]; ok && cv.Value != nil {
		switch cv.Value.ExactString() {
		case "true":
			return tv{t: true}
		case "false":
			return tv{f: true}
		}
	}
	switch x := e.(type) {
	case *ast.UnaryExpr:
		if x.Op == token.NOT {
			v := s.eval(x.X, pess, depth)
			return tv{t: v.f, f: v.t}
		}
	case *ast.BinaryExpr:
		switch {
		case x.Op == token.LAND:
			a, b := s.eval(x.X, pess, depth), s.eval(x.Y, pess, depth)
			return tv{t: a.t && b.t, f: a.f || b.f}
		case x.Op == token.LOR:
			a, b := s.eval(x.X, pess, depth), s.eval(x.Y, pess, depth)
			return tv{t: a.t || b.t, f: a.f && b.f}
		case comparisons[x.Op]:
			a, oka := s.term(x.X)
			b, okb := s.term(x.Y)
			if !oka || !okb {
				break
			}
			var r bool
			switch x.Op {
			case token.EQL:
				r = a == b
			case token.NEQ:
				r = a != b
			case token.LSS:
				r = a < b
			case token.LEQ:
				r = a <= b
			case token.GTR:
				r = a > b
			case token.GEQ:
				r = a >= b
			}
			return tv{t: r, f: !r}
		}
	case *ast.Ident:
		// a boolean local holding a condition
		if o, ok := objOf(s.info, x).(*types.Var); ok && depth < 4 && !o.IsField() && o.Pkg() != nil && o.Parent() != o.Pkg().Scope() && !s.ds.tupleDefined(o) {
			if d := s.ds.defOf(o); d != nil {
				return s.eval(d, pess, depth+1)
			}
		}
	case *ast.CallExpr:
		if v, ok := s.callVal(x, pess, depth); ok {
			return v
		}
	}
	if s.mentions(e, 0) && pess {
		return tv{}
	}
	return tv{t: true, f: true}
}

// pureHelper: a same-package predicate whose body only branches and returns
// (no assignment, loop or call statement), so that its answer is a condition
// over its arguments.
func (s *shardGuard) pureHelper(call *ast.CallExpr) *core.Fn {
	callee := core.CalleeFunc(s.info, call)
	if callee == nil {
		return nil
	}
	hf := s.c.FnOf(callee)
	if hf == nil || hf.Decl.Body == nil || hf.Pkg.TypesInfo != s.info {
		return nil
	}
	sig := callee.Type().(*types.Signature)
	if sig.Results().Len() != 1 || sig.Variadic() {
		return nil
	}
	if b, ok := sig.Results().At(0).Type().Underlying().(*types.Basic); !ok || b.Info()&types.IsBoolean == 0 {
		return nil
	}
	pure := true
	ast.Inspect(hf.Decl.Body, func(n ast.Node) bool {
		switch x := n.(type) {
		case *ast.IfStmt:
			if x.Init != nil {
				pure = false
			}
		case *ast.SwitchStmt:
			if x.Init != nil {
				pure = false
			}
		case *ast.BlockStmt, *ast.ReturnStmt, *ast.CaseClause, ast.Expr, nil:
		case ast.Stmt:
			pure = false
		}
		if _, isLit := n.(*ast.FuncLit); isLit {
			pure = false
		}
		return pure
	})
	if !pure {
		return nil
	}
	return hf
}

func bindArgs(info *types.Info, hf *core.Fn, call *ast.CallExpr) map[types.Object]ast.Expr {
	m := map[types.Object]ast.Expr{}
	i := 0
	for _, fl := range hf.Decl.Type.Params.List {
		for _, nm := range fl.Names {
			if i < len(call.Args) {
				m[info.Defs[nm]] = call.Args[i]
			}
			i++
		}
	}
	if hf.Decl.Recv != nil && len(hf.Decl.Recv.List) == 1 && len(hf.Decl.Recv.List[0].Names) == 1 {
		if sel, ok := ast.Unparen(call.Fun).(*ast.SelectorExpr); ok {
			m[info.Defs[hf.Decl.Recv.List[0].Names[0]]] = sel.X
		}
	}
	return m
}

// callVal: the answers a pure predicate helper can give for the current range.
func (s *shardGuard) callVal(call *ast.CallExpr, pess bool, depth int) (tv, bool) {
	if depth >= 3 {
		return tv{}, false
	}
	hf := s.pureHelper(call)
	if hf == nil {
		return tv{}, false
	}
	m := bindArgs(s.info, hf, call)
	hg := cfgq.Of(s.c.Program, hf)
	var out tv
	ok := true
	seen := map[*cfg.Block]bool{}
	var walk func(b *cfg.Block)
	walk = func(b *cfg.Block) {
		if seen[b] || !ok {
			return
		}
		seen[b] = true
		defer delete(seen, b)
		switch len(b.Succs) {
		case 0:
			if len(b.Nodes) == 0 {
				return
			}
			ret, isRet := b.Nodes[len(b.Nodes)-1].(*ast.ReturnStmt)
			if !isRet {
				return // does not come back (panic)
			}
			if len(ret.Results) != 1 {
				ok = false
				return
			}
			v := s.eval(cfgq.Substitute(s.info, ret.Results[0], m), pess, depth+1)
			out.t, out.f = out.t || v.t, out.f || v.f
		case 1:
			walk(b.Succs[0])
		case 2:
			cond := condIn(s.info, hg.Body, b)
			if cond == nil {
				ok = false
				return
			}
			v := s.eval(cfgq.Substitute(s.info, cond, m), pess, depth+1)
			if v.t {
				walk(b.Succs[0])
			}
			if v.f {
				walk(b.Succs[1])
			}
		default:
			ok = false
		}
	}
	walk(hg.CFG.Blocks[0])
	return out, ok
}

// condIn: the boolean condition block b branches on (for a switch with a tag, `tag == label`).
func condIn(info *types.Info, body *ast.BlockStmt, b *cfg.Block) ast.Expr {
	cond := cfgq.CondOf(b)
	if cond == nil {
		return nil
	}
	if b.Succs[0].Kind == cfg.KindSwitchCaseBody {
		clause, _ := b.Succs[0].Stmt.(*ast.CaseClause)
		var tag ast.Expr
		ast.Inspect(body, func(n ast.Node) bool {
			if sw, ok := n.(*ast.SwitchStmt); ok && clause != nil {
				for _, cl := range sw.Body.List {
					if cl == ast.Stmt(clause) {
						tag = sw.Tag
					}
				}
			}
			return true
		})
		if tag != nil {
			return &ast.BinaryExpr{X: tag, Op: token.EQL, OpPos: cond.Pos(), Y: cond}
		}
	}
	if t := info.TypeOf(cond); t != nil {
		if bt, ok := t.Underlying().(*types.Basic); !ok || bt.Info()&types.IsBoolean == 0 {
			return nil
		}
	}
	return cond
}

func (s *shardGuard) condOf(b *cfg.Block) ast.Expr {
	if len(b.Succs) != 2 {
		return nil
	}
	return condIn(s.info, s.g.Body, b)
}

// facts: what leaving b through succ establishes (conjuncts, boolean locals,
// the conditions under which a helper returns that answer).
func (s *shardGuard) facts(b *cfg.Block, succ int) []cfgq.Fact {
	out := append([]cfgq.Fact{}, s.g.EdgeFacts(b, succ)...)
	return append(out, edgeFacts(s.g, b, succ)...)
}

// closed: for the current range the branch cannot be left this way.
func (s *shardGuard) closed(b *cfg.Block, succ int) bool {
	k := edgeKey{b, succ, false}
	if v, done := s.memo[k]; done {
		return v
	}
	v := false
	if cond := s.condOf(b); cond != nil {
		v = !s.eval(cond, false, 0).can(succ == 0)
		for _, f := range s.facts(b, succ) {
			if v {
				break
			}
			v = !s.eval(f.Expr, false, 0).can(f.Val)
		}
	}
	s.memo[k] = v
	return v
}

// unsupported: nothing this rule can evaluate says that the branch can be left
// this way for the current range (it is closed, or it hangs on a condition
// about the boundaries the rule cannot read).
func (s *shardGuard) unsupported(b *cfg.Block, succ int) bool {
	if len(b.Succs) != 2 {
		return false
	}
	k := edgeKey{b, succ, true}
	if v, done := s.memo[k]; done {
		return v
	}
	v := false
	if cond := s.condOf(b); cond != nil {
		v = s.closed(b, succ) || !s.eval(cond, true, 0).can(succ == 0) && !s.closed(b, 1-succ)
	} else if raw := cfgq.CondOf(b); raw != nil {
		v = s.mentions(raw, 0) // a branch on the boundaries this rule cannot read at all
	}
	s.memo[k] = v
	return v
}

func (s *shardGuard) boundaryField(f *types.Var) bool {
	for _, p := range []*apath{s.lp, s.rp} {
		if n := len(p.fields); n > 0 && p.fields[n-1] == f {
			return true
		}
	}
	return false
}

// moduleFn: the declaration of a called function of the analysed module.
func (s *shardGuard) moduleFn(call *ast.CallExpr) *core.Fn {
	callee := core.CalleeFunc(s.info, call)
	if callee == nil || callee.Pkg() == nil || !strings.HasPrefix(callee.Pkg().Path(), core.Module) {
		return nil
	}
	hf := s.c.FnOf(callee)
	if hf == nil || hf.Decl.Body == nil || hf.Pkg.TypesInfo == nil {
		return nil
	}
	return hf
}

// mentions: the value of n depends on the boundaries (read here, through a
// boolean local, or inside a function called with them or reading their fields).
func (s *shardGuard) mentions(n ast.Node, depth int) bool {
	if depth == 0 {
		if v, done := s.mcache[n]; done {
			return v
		}
	}
	hit := false
	ast.Inspect(n, func(m ast.Node) bool {
		if hit || m == nil {
			return false
		}
		switch x := m.(type) {
		case *ast.SelectorExpr:
			if f, ok := s.info.Uses[x.Sel].(*types.Var); ok && f.IsField() && s.boundaryField(f) {
				hit = true
			} else if _, isB := s.isBoundary(x); isB {
				hit = true
			}
		case *ast.Ident:
			if _, isB := s.isBoundary(x); isB {
				hit = true
				break
			}
			if o, ok := objOf(s.info, x).(*types.Var); ok && depth < 3 && !o.IsField() && o.Pkg() != nil && o.Parent() != o.Pkg().Scope() {
				if t, isBasic := o.Type().Underlying().(*types.Basic); isBasic && t.Info()&types.IsBoolean != 0 {
					rhs, _ := defsOf(s.info, s.g.Body, o)
					for _, r := range rhs {
						if r != nil && s.mentions(r, depth+1) {
							hit = true
						}
					}
				}
			}
		case *ast.CallExpr:
			if hf := s.moduleFn(x); hf != nil && depth < 2 {
				hi := hf.Pkg.TypesInfo
				ast.Inspect(hf.Decl.Body, func(k ast.Node) bool {
					if sel, ok := k.(*ast.SelectorExpr); ok {
						if f, ok := hi.Uses[sel.Sel].(*types.Var); ok && f.IsField() && s.boundaryField(f) {
							hit = true
						}
					}
					return !hit
				})
			}
		}
		return !hit
	})
	if depth == 0 {
		s.mcache[n] = hit
	}
	return hit
}

// cuts: the constants the boundaries are compared with anywhere in the function
// and in the module functions it calls (two levels).
func (s *shardGuard) cuts() map[int64]bool {
	out := map[int64]bool{}
	var scan func(info *types.Info, body ast.Node, all bool, depth int)
	scan = func(info *types.Info, body ast.Node, all bool, depth int) {
		ast.Inspect(body, func(n ast.Node) bool {
			switch x := n.(type) {
			case *ast.BinaryExpr:
				if !comparisons[x.Op] {
					break
				}
				for _, pr := range [][2]ast.Expr{{x.X, x.Y}, {x.Y, x.X}} {
					if v, ok := constInt(info, pr[0]); ok && (all || s.mentions(pr[1], 0)) {
						out[v] = true
					}
				}
			case *ast.SwitchStmt:
				if x.Tag == nil || !all && !s.mentions(x.Tag, 0) {
					break
				}
				for _, cl := range x.Body.List {
					for _, e := range cl.(*ast.CaseClause).List {
						if v, ok := constInt(info, e); ok {
							out[v] = true
						}
					}
				}
			case *ast.CallExpr:
				if info != s.info || depth >= 2 {
					break
				}
				if hf := s.moduleFn(x); hf != nil && hf.Pkg.TypesInfo == s.info && s.mentions(x, 0) {
					scan(s.info, hf.Decl.Body, true, depth+1)
				}
			}
			return true
		})
	}
	scan(s.info, s.g.Body, false, 0)
	return out
}

// ranges: the legal ranges to try, a member of every cell the constants cut out.
func (s *shardGuard) ranges() [][2]int64 {
	vals := map[int64]bool{minSlot: true, minSlot + 1: true, maxSlot - 1: true, maxSlot: true}
	for k := range s.cuts() {
		for _, v := range []int64{k - 1, k, k + 1} {
			if v >= minSlot && v <= maxSlot {
				vals[v] = true
			}
		}
	}
	var vs []int64
	for v := range vals {
		vs = append(vs, v)
	}
	sort.Slice(vs, func(i, j int) bool { return vs[i] < vs[j] })
	var out [][2]int64
	for _, l := range vs {
		for _, r := range vs {
			if l <= r {
				out = append(out, [2]int64{l, r})
			}
		}
	}
	return out
}

func shardGuards(c *core.Ctx, chose *core.Fn) {
	for _, pk := range c.Pkgs {
		if pk.ID != pk.PkgPath || pk.TypesInfo == nil {
			continue
		}
		for _, fn := range c.FuncsOf(pk) {
			isChose := func(_ *ast.CallExpr, o types.Object) bool { return o == chose.Obj }
			all := core.CallsAll(fn.Decl.Body, pk.TypesInfo, isChose)
			if len(all) == 0 {
				continue
			}
			name := short(strings.TrimPrefix(pk.PkgPath, core.Module+"/")) + "." + fn.Decl.Name.Name
			if sig, ok := fn.Obj.Type().(*types.Signature); ok && sig.Recv() != nil {
				name = short(strings.TrimPrefix(pk.PkgPath, core.Module+"/")) + "." + core.NamedTypeName(sig.Recv().Type()) + "." + fn.Decl.Name.Name
			}
			direct := core.Calls(fn.Decl.Body, pk.TypesInfo, isChose)
			if len(direct) != len(all) {
				c.Undecidedf("R4.guard", name+"/every-shard-range", fn.Decl.Pos(), "ChoseSlotInRange is called inside a function literal of %s: what decides whether it runs is not read", name)
				continue
			}
			shardGuardIn(c, fn, name, direct)
		}
	}
}

func shardGuardIn(c *core.Ctx, fn *core.Fn, name string, calls []*ast.CallExpr) {
	info := fn.Pkg.TypesInfo
	g := cfgq.Of(c.Program, fn)
	s := &shardGuard{c: c, fn: fn, info: info, g: g, ds: &defs{info: info, body: fn.Decl.Body, g: g}, mcache: map[ast.Node]bool{}}
	key := name + "/every-shard-range"
	und := func(pos token.Pos, f string, a ...interface{}) { c.Undecidedf("R4.guard", key, pos, f, a...) }

	// the two boundaries, named by the places they are read from
	first := calls[0]
	if len(first.Args) != 3 {
		und(first.Pos(), "unexpected argument list %s", c.Src(first))
		return
	}
	s.lp, s.rp = s.ds.pathOf(first.Args[1], 0), s.ds.pathOf(first.Args[2], 0)
	if s.lp == nil || s.rp == nil || s.lp.eq(s.rp) {
		und(first.Pos(), "cannot name the two boundaries handed to ChoseSlotInRange: %s", c.Src(first))
		return
	}
	var targets []ast.Node
	for _, call := range calls {
		ok := len(call.Args) == 3
		if ok {
			l, r := s.ds.pathOf(call.Args[1], 0), s.ds.pathOf(call.Args[2], 0)
			ok = l.eq(s.lp) && r.eq(s.rp)
		}
		p, found := g.Find(call)
		if !ok || !found {
			und(call.Pos(), "a second call of ChoseSlotInRange in %s is not about the same range: %s", name, c.Src(call))
			return
		}
		targets = append(targets, p.Node())
	}
	isTarget := func(n ast.Node) bool {
		for _, t := range targets {
			if n == t {
				return true
			}
		}
		return false
	}

	// the boundaries keep their value between a test and the call: nothing they
	// are stored in is written after it was read and before the call
	if w := s.unstable(isTarget, calls); w != nil {
		und(w.Pos(), "%s is written between a test of the boundaries and the call of ChoseSlotInRange: the values tested are not the values handed over", c.Src(w))
		return
	}

	ranges := s.ranges()

	open, openAt := false, token.NoPos
	for _, lr := range ranges {
		s.setRange(lr[0], lr[1])
		// is there any way to the call for this range?
		w := g.Path(cfgq.Query{From: g.Entry(), Target: isTarget, AvoidEdge: s.closed})
		if w == nil {
			pos, why := s.blocker(isTarget)
			c.Check("R4.guard", key, pos, false,
				fmt.Sprintf("%s does not reach ChoseSlotInRange(%s) for the legal shard range [%d,%d]%s: that shard keeps the default checkpoint key, which is not chosen inside its slot range (the call may only be skipped for values that are no slot range, such as the sentinel -1)",
					name, argList(c, first), lr[0], lr[1], why))
			return
		}
		// ... and one that does not lean on a condition about the boundaries this rule cannot evaluate?
		if g.Path(cfgq.Query{From: g.Entry(), Target: isTarget, AvoidEdge: s.unsupported}) == nil && openAt == token.NoPos {
			open = true
			openAt = first.Pos()
			for _, b := range g.CFG.Blocks {
				if b.Live && len(b.Succs) == 2 && cfgq.CondOf(b) != nil && (s.unsupported(b, 0) && !s.closed(b, 0) || s.unsupported(b, 1) && !s.closed(b, 1)) {
					openAt = cfgq.CondOf(b).Pos()
					break
				}
			}
		}
	}
	if open {
		pos := openAt
		und(pos, "a condition over the shard boundaries on the way to ChoseSlotInRange is not a comparison of a boundary with a constant or with the other boundary: cannot tell for which ranges the call is reached")
		return
	}
	c.Okf("R4.guard", key, first.Pos(), "the call ChoseSlotInRange(%s) is reached for every legal shard range 0 <= left <= right <= %d (%d ranges tried, one in every cell of the conditions on the way)", argList(c, first), maxSlot, len(ranges))
}

func argList(c *core.Ctx, call *ast.CallExpr) string {
	var parts []string
	for _, a := range call.Args {
		parts = append(parts, c.Src(a))
	}
	return strings.Join(parts, ", ")
}

// blocker names the condition that keeps the current range away from the call:
// a branch whose way towards the call is closed for this range.
func (s *shardGuard) blocker(isTarget func(ast.Node) bool) (token.Pos, string) {
	var best ast.Expr
	var bestPos token.Pos
	for _, b := range s.g.CFG.Blocks {
		if !b.Live || len(b.Succs) != 2 || s.condOf(b) == nil {
			continue
		}
		for si := range b.Succs {
			if !s.closed(b, si) {
				continue
			}
			if s.g.Path(cfgq.Query{From: cfgq.Point{B: b.Succs[si], I: 0}, Target: isTarget}) == nil {
				continue
			}
			if best == nil || cfgq.CondOf(b).Pos() < bestPos {
				best, bestPos = s.condOf(b), cfgq.CondOf(b).Pos()
			}
		}
	}
	if best == nil {
		return s.fn.Decl.Pos(), ""
	}
	return bestPos, fmt.Sprintf(" (the test `%s` decides against it)", s.c.Src(best))
}

// unstable returns a write to (something holding) a boundary that can happen
// after the boundary was read and before the call.
func (s *shardGuard) unstable(isTarget func(ast.Node) bool, calls []*ast.CallExpr) ast.Node {
	var writes, reads []ast.Node
	inCall := func(n ast.Node) bool {
		for _, call := range calls {
			if call.Pos() <= n.Pos() && n.End() <= call.End() {
				return true
			}
		}
		return false
	}
	touches := func(e ast.Expr) bool {
		p := s.ds.pathOf(e, 0)
		return p != nil && (p.prefixOf(s.lp) || p.prefixOf(s.rp))
	}
	ast.Inspect(s.g.Body, func(n ast.Node) bool {
		switch x := n.(type) {
		case *ast.AssignStmt:
			for _, l := range x.Lhs {
				if id, isId := ast.Unparen(l).(*ast.Ident); isId {
					// a local standing for the place is defined, not written; its root being reassigned is a write
					if o := objOf(s.info, id); o == nil || o != s.lp.root && o != s.rp.root {
						continue
					}
				}
				if touches(l) {
					writes = append(writes, x)
				}
			}
		case *ast.IncDecStmt:
			if touches(x.X) {
				writes = append(writes, x)
			}
		case *ast.SelectorExpr:
			if _, isB := s.isBoundary(x); isB && !inCall(x) {
				reads = append(reads, x)
			}
		case *ast.Ident:
			if _, isB := s.isBoundary(x); isB && !inCall(x) {
				reads = append(reads, x)
			}
		}
		return true
	})
	for _, w := range writes {
		wp, ok := s.g.Find(w)
		if !ok {
			return w // written where the graph does not see it (a function literal)
		}
		if s.g.Path(cfgq.Query{From: wp, After: true, Target: isTarget}) == nil {
			continue
		}
		wn := wp.Node()
		for _, r := range reads {
			rp, ok := s.g.Find(r)
			if !ok {
				continue
			}
			if rp.Node() == wn {
				continue // the write itself (left-hand side)
			}
			if s.g.Path(cfgq.Query{From: rp, After: true, Target: func(n ast.Node) bool { return n == wn }}) != nil {
				return w
			}
		}
	}
	return nil
}
