package c15

import (
	"go/ast"
	"go/token"
	"go/types"

	"rscheck/cfgq"
)

// defs resolves the locals of one function body to the expression they hold.
type defs struct {
	info  *types.Info
	body  *ast.BlockStmt
	g     *cfgq.Graph
	cache map[types.Object]ast.Expr
}

// defOf: the one expression a local holds wherever it is read. A local that
// is declared with its zero value and assigned exactly once counts when that
// assignment comes before every read on every feasible path (the shape left by
// expanding a helper with named results, or by splitting a result struct).
func (v *defs) defOf(o types.Object) ast.Expr {
	if o == nil {
		return nil
	}
	if d, done := v.cache[o]; done {
		return d
	}
	if v.cache == nil {
		v.cache = map[types.Object]ast.Expr{}
	}
	v.cache[o] = nil
	rhs, other := defsOf(v.info, v.body, o)
	var real []ast.Expr
	for _, r := range rhs {
		if r != nil && !zeroConst(v.info, r) { // `x := 0` / `int(0)` / "" / false / nil initialisers are the zero value
			real = append(real, r)
		}
	}
	if other != 0 || len(real) != 1 || len(rhs) > 3 {
		return nil
	}
	if len(rhs) >= 2 || o.Pos() < v.body.Pos() { // declared with its zero value, or a parameter / named result: the assignment must come first
		var def ast.Node
		ast.Inspect(v.body, func(n ast.Node) bool {
			if as, ok := n.(*ast.AssignStmt); ok {
				for _, r := range as.Rhs {
					if r == real[0] {
						def = as
					}
				}
			}
			return true
		})
		if def == nil {
			return nil
		}
		isDef := func(n ast.Node) bool { return n == def }
		ok := true
		var stack []ast.Node
		ast.Inspect(v.body, func(n ast.Node) bool {
			if n == nil {
				stack = stack[:len(stack)-1]
				return true
			}
			stack = append(stack, n)
			id, isId := n.(*ast.Ident)
			if !isId || v.info.Uses[id] != o || !ok {
				return true
			}
			for _, anc := range stack {
				if anc == def {
					return true // the assignment itself
				}
				if as, isAs := anc.(*ast.AssignStmt); isAs && len(as.Lhs) == 1 && len(as.Rhs) == 1 && as.Rhs[0] == ast.Expr(id) {
					if b, isB := as.Lhs[0].(*ast.Ident); isB && b.Name == "_" {
						return true // `_ = x` keeps the compiler quiet, reads nothing
					}
				}
			}
			p, found := v.g.Find(id)
			if !found {
				ok = false
				return true
			}
			if dom, _ := v.g.Dominated(p, isDef); !dom {
				ok = false
			}
			return true
		})
		if !ok {
			return nil
		}
	}
	v.cache[o] = real[0]
	return real[0]
}

// origin follows locals with one definition (defOf) back to the defining expression.
func (v *defs) origin(e ast.Expr) ast.Expr {
	for i := 0; i < 4; i++ {
		e = strip(v.info, e)
		o := objOf(v.info, e)
		if o == nil {
			return e
		}
		def := v.defOf(o)
		if def == nil {
			return e
		}
		e = def
	}
	return e
}

// tupleDefined: o receives one of several results of a single call (`v, err := f()`).
func (v *defs) tupleDefined(o types.Object) bool {
	hit := false
	ast.Inspect(v.body, func(n ast.Node) bool {
		switch s := n.(type) {
		case *ast.AssignStmt:
			if len(s.Lhs) > 1 && len(s.Rhs) == 1 {
				for _, l := range s.Lhs {
					if objOf(v.info, l) == o {
						hit = true
					}
				}
			}
		case *ast.ValueSpec:
			if len(s.Names) > 1 && len(s.Values) == 1 {
				for _, nm := range s.Names {
					if v.info.Defs[nm] == o {
						hit = true
					}
				}
			}
		}
		return true
	})
	return hit
}

// chase follows plain copies (`a := b`, `a = b` as the only value a ever gets)
// back to the first name or expression of the value; a variable receiving one
// result of a multi-valued call is where the chase ends.
func (v *defs) chase(e ast.Expr) ast.Expr {
	for i := 0; i < 8; i++ {
		e = strip(v.info, e)
		o := objOf(v.info, e)
		if o == nil || v.tupleDefined(o) {
			return e
		}
		d := v.defOf(o)
		if d == nil {
			return e
		}
		e = d
	}
	return e
}

// sameValue: the two expressions are the same name or resolve to the very same evaluation.
func (v *defs) sameValue(x, y ast.Expr) bool {
	x, y = v.chase(x), v.chase(y)
	if x == y {
		return true
	}
	ox, oy := objOf(v.info, x), objOf(v.info, y)
	return ox != nil && ox == oy
}

// derived returns the locals whose value comes (through any chain of
// assignments) from an expression mentioning one of the given variables.
func (v *defs) derived(from ...types.Object) map[types.Object]bool {
	set := map[types.Object]bool{}
	for _, o := range from {
		if o != nil {
			set[o] = true
		}
	}
	mentions := func(e ast.Expr) bool {
		hit := false
		ast.Inspect(e, func(n ast.Node) bool {
			if id, ok := n.(*ast.Ident); ok && set[v.info.Uses[id]] {
				hit = true
			}
			return true
		})
		return hit
	}
	for changed := true; changed; {
		changed = false
		ast.Inspect(v.body, func(n ast.Node) bool {
			switch s := n.(type) {
			case *ast.AssignStmt:
				for i, l := range s.Lhs {
					o := rootObj(v.info, l) // x, x.f, x[i], *x: what is stored into taints x
					r := s.Rhs[0]
					if len(s.Lhs) == len(s.Rhs) {
						r = s.Rhs[i]
					}
					if o != nil && !set[o] && mentions(r) {
						set[o], changed = true, true
					}
					// a copy of a pointer / slice / map shares what it points to: both names see later stores
					if ro := objOf(v.info, strip(v.info, r)); ro != nil && o != nil && set[o] && !set[ro] && sharing(ro.Type()) {
						set[ro], changed = true, true
					}
				}
			case *ast.ValueSpec:
				for i, nm := range s.Names {
					o := v.info.Defs[nm]
					if o == nil || set[o] || len(s.Values) == 0 {
						continue
					}
					r := s.Values[0]
					if len(s.Names) == len(s.Values) {
						r = s.Values[i]
					}
					if mentions(r) {
						set[o], changed = true, true
					}
				}
			}
			return true
		})
	}
	return set
}

// rootObj: the variable an assignable expression is rooted at (x, x.f, x[i], *x).
func rootObj(info *types.Info, e ast.Expr) types.Object {
	for i := 0; i < 8; i++ {
		switch x := ast.Unparen(e).(type) {
		case *ast.Ident:
			return objOf(info, x)
		case *ast.SelectorExpr:
			e = x.X
		case *ast.IndexExpr:
			e = x.X
		case *ast.StarExpr:
			e = x.X
		default:
			return nil
		}
	}
	return nil
}

// sharing: values of this type refer to storage that a copy shares.
func sharing(t types.Type) bool {
	switch t.Underlying().(type) {
	case *types.Pointer, *types.Slice, *types.Map:
		return true
	}
	return false
}

// defOfAt: the expression o holds at node `at`: its only assignment, which every
// path to `at` has passed (o may be a named result read by a bare return).
func (v *defs) defOfAt(o types.Object, at ast.Node) ast.Expr {
	if o == nil {
		return nil
	}
	rhs, other := defsOf(v.info, v.body, o)
	var real []ast.Expr
	for _, r := range rhs {
		if r != nil {
			real = append(real, r)
		}
	}
	if other != 0 || len(real) != 1 {
		return nil
	}
	dp, ok1 := v.g.Find(real[0])
	ap, ok2 := v.g.Find(at)
	if !ok1 || !ok2 {
		return nil
	}
	if dom, _ := v.g.Dominated(ap, func(n ast.Node) bool { return n == dp.Node() }); !dom {
		return nil
	}
	return real[0]
}

// zeroConst: e is a constant with the zero value of its type (0, "", false, nil), possibly converted.
func zeroConst(info *types.Info, e ast.Expr) bool {
	tv, ok := info.Types[ast.Unparen(e)]
	if !ok {
		return false
	}
	if tv.IsNil() {
		return true
	}
	if tv.Value == nil {
		return false
	}
	switch tv.Value.ExactString() {
	case "0", `""`, "false":
		return true
	}
	return false
}

// deadLits: function literals bound to a local that is never used again except
// in `_ = f` (what is left of a closure argument once the calls through it were
// expanded in place).
func deadLits(info *types.Info, body ast.Node) map[*ast.FuncLit]bool {
	out := map[*ast.FuncLit]bool{}
	bind := func(o types.Object, v ast.Expr) {
		lit, ok := ast.Unparen(v).(*ast.FuncLit)
		if !ok || o == nil {
			return
		}
		live := false
		var stack []ast.Node
		ast.Inspect(body, func(n ast.Node) bool {
			if n == nil {
				stack = stack[:len(stack)-1]
				return true
			}
			stack = append(stack, n)
			if id, isId := n.(*ast.Ident); isId && info.Uses[id] == o {
				blank := false
				if len(stack) >= 2 {
					if as, isAs := stack[len(stack)-2].(*ast.AssignStmt); isAs && len(as.Lhs) == 1 && len(as.Rhs) == 1 && as.Rhs[0] == ast.Expr(id) {
						if b, isB := as.Lhs[0].(*ast.Ident); isB && b.Name == "_" {
							blank = true
						}
					}
				}
				if !blank {
					live = true
				}
			}
			return true
		})
		if !live {
			out[lit] = true
		}
	}
	ast.Inspect(body, func(n ast.Node) bool {
		switch s := n.(type) {
		case *ast.AssignStmt:
			if len(s.Lhs) == len(s.Rhs) && s.Tok == token.DEFINE {
				for i, l := range s.Lhs {
					if id, ok := l.(*ast.Ident); ok {
						bind(info.Defs[id], s.Rhs[i])
					}
				}
			}
		case *ast.ValueSpec:
			if len(s.Names) == len(s.Values) {
				for i, nm := range s.Names {
					bind(info.Defs[nm], s.Values[i])
				}
			}
		}
		return true
	})
	return out
}
