// Package c15 decides the structural clauses of property C15 (key-to-slot).
package c15

import (
	"fmt"
	"go/ast"
	"go/token"
	"go/types"
	"strings"

	"golang.org/x/tools/go/packages"

	"rscheck/core"
	"rscheck/driver"
	"rscheck/pat"
)

const (
	pkgCommon  = "redis-shake/common"
	pkgLat     = "redis-shake/dbSync/latencymonitor"
	pkgCluster = "github.com/vinllen/redis-go-cluster"
	pkgFilter  = "redis-shake/filter"
)

var Def = driver.PropDef{
	ID: "C15",
	Explanation: "Structural necessary conditions of the Redis Cluster key-to-slot mapping: " +
		"R1 the three CRC16 tables (common, latencymonitor, linked redis-go-cluster) equal the CRC-16/XMODEM table generated from 0x1021 and every crc16 result is reduced with & 16383 (or % 16384); " +
		"R2 the per-byte step is crc = (crc<<8) ^ tab[((crc>>8) ^ b) & 0xff] from initial value 0 over every byte in order; " +
		"R3 both hash-tag extractors (common.KeyToSlot, redis-go-cluster hash) stop at the first '{' and the first following '}', take key[open+1:close], and hash the tag only when it is non-empty, otherwise the whole key; " +
		"R4 ChoseSlotInRange accepts exactly left <= slot <= right for the slot of the whole returned string, which starts with CheckpointKey-; FilterKey rejects every CheckpointKey-prefixed string before consulting any list; " +
		"R4.guard the function that hands the boundaries of its shard to ChoseSlotInRange reaches that call for every legal slot range 0 <= left <= right <= 16383 (the conditions on the way are evaluated as a predicate over the two boundaries; only values that are no slot range, such as the sentinel -1, may skip it); " +
		"R5 findKeyInRange tests the slot of the key it returns with inclusive bounds.",
	NotDecided: "termination of the suffix search for very narrow slot ranges; equality of the computed value with the specification beyond table/step/scan agreement.",
	Trusted:    []string{"go/parser, go/types, go/cfg (x/tools v0.29.0)", "strings.HasPrefix, fmt.Sprintf semantics"},
	Run:        Run,
}

func Run(c *core.Ctx) {
	withViews(c, run)
}

func run(c *core.Ctx) {
	ref := xmodemTable()
	crcFns := map[string]*core.Fn{}
	for _, p := range []string{pkgCommon, pkgLat, pkgCluster} {
		fn := c.Func(p, "", "crc16")
		if fn == nil {
			continue
		}
		crcFns[p] = fn
		name := short(p) + ".crc16"
		if tab := step(c, fn, name); tab != nil {
			table(c, fn.Pkg, tab, short(p)+"."+tab.Name(), ref)
		}
		masks(c, fn, name)
	}
	c.Expect("R1.table", 3)
	c.Expect("R1.mask", 3) // at least one reduction per CRC16 copy; how often it is spelled depends on the layout of the callers
	c.Expect("R2.step", 15)

	if fn := c.Func(pkgCommon, "", "KeyToSlot"); fn != nil && crcFns[pkgCommon] != nil {
		tagScan(c, fn, "utils.KeyToSlot", crcFns[pkgCommon].Obj)
	}
	if fn := c.Func(pkgCluster, "", "hash"); fn != nil && crcFns[pkgCluster] != nil {
		tagScan(c, fn, "cluster.hash", crcFns[pkgCluster].Obj)
	}
	c.Expect("R3.tag", 10)

	checkpointKey(c)
	latencyKey(c, crcFns[pkgLat])
	// (checkpointKey and latencyKey stop at the first construct they cannot read:
	// what they did not reach must be shown on another view of the tree)
	c.Expect("R4.range", 4)
	c.Expect("R4.prefix", 2)
	c.Expect("R4.filter", 2)
	if chose := c.FuncOpt(pkgCommon, "", "ChoseSlotInRange"); chose != nil { // (its absence is reported by checkpointKey)
		shardGuards(c, chose)
	}
	c.Expect("R4.guard", 1)
	c.Expect("R5.latency", 3)
}

func short(p string) string {
	switch p {
	case pkgCommon:
		return "utils"
	case pkgCluster:
		return "cluster"
	}
	return p[strings.LastIndex(p, "/")+1:]
}

func xmodemTable() [256]uint64 {
	var t [256]uint64
	for i := 0; i < 256; i++ {
		crc := uint16(i) << 8
		for k := 0; k < 8; k++ {
			if crc&0x8000 != 0 {
				crc = crc<<1 ^ 0x1021
			} else {
				crc <<= 1
			}
		}
		t[i] = uint64(crc)
	}
	return t
}

// ---------------------------------------------------------------------------
// small AST helpers

// strip removes parentheses and type conversions.
func strip(info *types.Info, e ast.Expr) ast.Expr {
	for {
		e = ast.Unparen(e)
		call, ok := e.(*ast.CallExpr)
		if !ok || len(call.Args) != 1 {
			return e
		}
		if tv, ok := info.Types[call.Fun]; !ok || !tv.IsType() {
			return e
		}
		e = call.Args[0]
	}
}

func objOf(info *types.Info, e ast.Expr) types.Object {
	if id, ok := ast.Unparen(e).(*ast.Ident); ok {
		return core.ObjOf(info, id)
	}
	return nil
}

// shiftOf decomposes (conv)(x <<|>> k) with constant k.
func shiftOf(info *types.Info, e ast.Expr) (x ast.Expr, op token.Token, k int64, ok bool) {
	be, isBin := strip(info, e).(*ast.BinaryExpr)
	if !isBin || be.Op != token.SHL && be.Op != token.SHR {
		return nil, 0, 0, false
	}
	k, ok = core.IntConst(info, be.Y)
	return strip(info, be.X), be.Op, k, ok
}

var bitOps = map[token.Token]bool{token.OR: true, token.AND: true, token.ADD: true, token.SUB: true, token.AND_NOT: true, token.XOR: true}

// defsOf returns every statement that assigns to obj inside root (declarations included).
func defsOf(info *types.Info, root ast.Node, obj types.Object) (rhs []ast.Expr, other int) {
	ast.Inspect(root, func(n ast.Node) bool {
		switch s := n.(type) {
		case *ast.AssignStmt:
			for i, l := range s.Lhs {
				if objOf(info, l) != obj {
					continue
				}
				if r := core.AssignedTo(s, i); r != nil && (s.Tok == token.ASSIGN || s.Tok == token.DEFINE) {
					rhs = append(rhs, r)
				} else {
					other++
				}
			}
		case *ast.IncDecStmt:
			if objOf(info, s.X) == obj {
				other++
			}
		case *ast.ValueSpec:
			for i, nm := range s.Names {
				if info.Defs[nm] == obj {
					if i < len(s.Values) {
						rhs = append(rhs, s.Values[i])
					} else {
						rhs = append(rhs, nil) // zero value
					}
				}
			}
		case *ast.RangeStmt:
			if s.Key != nil && objOf(info, s.Key) == obj || s.Value != nil && objOf(info, s.Value) == obj {
				other++
			}
		}
		return true
	})
	return
}

// ---------------------------------------------------------------------------
// R2 update step, R1 table and masks

func step(c *core.Ctx, fn *core.Fn, name string) *types.Var {
	info := fn.Pkg.TypesInfo
	var as *ast.AssignStmt
	var idx *ast.IndexExpr
	count := 0
	dead := deadLits(info, fn.Decl.Body)
	ast.Inspect(fn.Decl.Body, func(n ast.Node) bool {
		if lit, isLit := n.(*ast.FuncLit); isLit && dead[lit] {
			return false // never called: what it contains is not executed
		}
		s, ok := n.(*ast.AssignStmt)
		if !ok {
			return true
		}
		ast.Inspect(s, func(m ast.Node) bool {
			if ie, ok := m.(*ast.IndexExpr); ok {
				if v, ok := objOf(info, ie.X).(*types.Var); ok && v.Parent() == v.Pkg().Scope() {
					if at, ok := v.Type().Underlying().(*types.Array); ok && at.Len() == 256 {
						as, idx = s, ie
						count++
					}
				}
			}
			return true
		})
		return true
	})
	und := func(what, f string, a ...interface{}) {
		c.Undecidedf("R2.step", name+"/"+what, fn.Decl.Pos(), f, a...)
	}
	if count != 1 || len(as.Lhs) != 1 || len(as.Rhs) != 1 || as.Tok != token.ASSIGN {
		und("skeleton", "expected exactly one plain assignment indexing a 256-entry package-level table in %s, found %d", name, count)
		return nil
	}
	tab := objOf(info, idx.X).(*types.Var)
	lhs := as.Lhs[0]
	crcObj := objOf(info, lhs)
	top, ok := ast.Unparen(as.Rhs[0]).(*ast.BinaryExpr)
	if !ok || crcObj == nil {
		und("skeleton", "right-hand side of the table step is not a binary expression over a local accumulator: %s", c.Src(as))
		return tab
	}
	var shiftSide ast.Expr
	switch {
	case ast.Unparen(top.X) == ast.Expr(idx):
		shiftSide = top.Y
	case ast.Unparen(top.Y) == ast.Expr(idx):
		shiftSide = top.X
	default:
		und("skeleton", "table lookup is not a direct operand of the step: %s", c.Src(as))
		return tab
	}
	// combine
	if top.Op == token.XOR {
		c.Okf("R2.step", name+"/combine", as.Pos(), "shifted accumulator and table entry are combined with ^")
	} else if bitOps[top.Op] {
		c.Failf("R2.step", name+"/combine", as.Pos(), "table entry is combined with %q instead of ^: every CRC16 (hence every slot) differs from CRC-16/XMODEM; %s", top.Op, c.Src(as))
	} else {
		und("combine", "unrecognised combination %s", c.Src(as))
	}
	// shifted accumulator: crc << 8
	if x, op, k, ok := shiftOf(info, shiftSide); !ok {
		und("shift", "unrecognised accumulator operand %s", c.Src(shiftSide))
	} else if objOf(info, x) == nil {
		und("shift", "shifted operand is not a variable: %s", c.Src(shiftSide))
	} else {
		c.Check("R2.step", name+"/shift", as.Pos(), op == token.SHL && k == 8 && objOf(info, x) == crcObj,
			fmt.Sprintf("the accumulator term must be %s << 8 (found %s): otherwise the CRC is not CRC-16/XMODEM and keys map to foreign slots", crcObj.Name(), c.Src(shiftSide)))
	}
	// index: ((crc >> 8) ^ b) & 0xff
	bexpr := stepIndex(c, fn, name, as, idx.Index, crcObj)
	// loop over every byte, in order
	if bexpr != nil {
		stepLoop(c, fn, name, as, bexpr)
	}
	// initial value 0, result is the accumulator
	rhs, other := defsOf(info, fn.Decl.Body, crcObj)
	initOK, initBad := true, false
	for _, r := range rhs {
		if r == nil || r == as.Rhs[0] {
			continue
		}
		if v, ok := core.IntConst(info, r); ok {
			if v != 0 {
				initBad = true
			}
		} else {
			initOK = false
		}
	}
	switch {
	case initBad:
		c.Failf("R2.step", name+"/init", fn.Decl.Pos(), "the CRC accumulator starts from a non-zero constant; CRC-16/XMODEM (Redis Cluster) starts from 0000")
	case !initOK || other > 0:
		und("init", "the accumulator of %s is assigned outside the step; cannot tell its initial value", name)
	default:
		c.Okf("R2.step", name+"/init", fn.Decl.Pos(), "accumulator starts at 0 and is only updated by the step")
	}
	retOK, nret := true, 0
	core.Inspect(fn.Decl.Body, func(n ast.Node) bool {
		if r, ok := n.(*ast.ReturnStmt); ok {
			nret++
			if len(r.Results) != 1 || objOf(info, strip(info, r.Results[0])) != crcObj {
				retOK = false
			}
		}
		return true
	})
	if retOK && nret > 0 {
		c.Okf("R2.step", name+"/result", fn.Decl.Pos(), "returns the accumulator")
	} else {
		und("result", "%s does not simply return its accumulator", name)
	}
	return tab
}

func stepIndex(c *core.Ctx, fn *core.Fn, name string, as *ast.AssignStmt, index ast.Expr, crcObj types.Object) ast.Expr {
	info := fn.Pkg.TypesInfo
	if o := objOf(info, ast.Unparen(index)); o != nil { // idx := ..., named before the lookup
		if rhs, other := defsOf(info, fn.Decl.Body, o); len(rhs) == 1 && other == 0 && rhs[0] != nil {
			index = rhs[0]
		}
	}
	e := strip(info, index)
	if be, ok := e.(*ast.BinaryExpr); ok && (be.Op == token.AND || be.Op == token.REM) {
		m, okY := core.IntConst(info, be.Y)
		inner := be.X
		if !okY {
			m, okY = core.IntConst(info, be.X)
			inner = be.Y
		}
		if okY {
			if !(be.Op == token.AND && m == 0xff || be.Op == token.REM && m == 256) {
				c.Failf("R2.step", name+"/index", as.Pos(), "table index is reduced with %s %d instead of & 0xff: wrong table entries are selected; %s", be.Op, m, c.Src(index))
				return nil
			}
			e = strip(info, inner)
		}
	}
	be, ok := e.(*ast.BinaryExpr)
	if !ok {
		c.Undecidedf("R2.step", name+"/index", as.Pos(), "unrecognised table index %s", c.Src(index))
		return nil
	}
	// an operand named first in the same block (`high := byte(crc >> 8)` right before the
	// step, the accumulator not written in between) stands for its definition
	named := func(e ast.Expr) ast.Expr {
		o := objOf(info, strip(info, e))
		if o == nil || o == crcObj {
			return e
		}
		rhs, other := defsOf(info, fn.Decl.Body, o)
		if len(rhs) != 1 || other != 0 || rhs[0] == nil {
			return e
		}
		for _, n := range core.PathTo(fn.Decl.Body, as) {
			blk, isBlk := n.(*ast.BlockStmt)
			if !isBlk {
				continue
			}
			di, si := -1, -1
			for i, st := range blk.List {
				if st == ast.Stmt(as) {
					si = i
				}
				ast.Inspect(st, func(m ast.Node) bool {
					if m == ast.Node(rhs[0]) && (st != ast.Stmt(as)) {
						if _, direct := st.(*ast.AssignStmt); direct {
							di = i
						} else if _, decl := st.(*ast.DeclStmt); decl {
							di = i
						}
					}
					return true
				})
			}
			if di < 0 || si < 0 || di >= si {
				continue
			}
			for _, st := range blk.List[di+1 : si] {
				if r, oth := defsOf(info, st, crcObj); len(r) > 0 || oth > 0 {
					return e
				}
			}
			return rhs[0]
		}
		return e
	}
	be = &ast.BinaryExpr{X: named(be.X), OpPos: be.OpPos, Op: be.Op, Y: named(be.Y)}
	var hi, b ast.Expr
	if x, _, _, ok := shiftOf(info, be.X); ok && objOf(info, x) == crcObj {
		hi, b = be.X, be.Y
	} else if x, _, _, ok := shiftOf(info, be.Y); ok && objOf(info, x) == crcObj {
		hi, b = be.Y, be.X
	} else {
		c.Undecidedf("R2.step", name+"/index", as.Pos(), "unrecognised table index %s", c.Src(index))
		return nil
	}
	_, op, k, _ := shiftOf(info, hi)
	if !bitOps[be.Op] {
		c.Undecidedf("R2.step", name+"/index", as.Pos(), "unrecognised table index %s", c.Src(index))
		return nil
	}
	c.Check("R2.step", name+"/index", as.Pos(), be.Op == token.XOR && op == token.SHR && k == 8,
		fmt.Sprintf("the table index must be ((%s >> 8) ^ byte) & 0xff (found %s): otherwise the CRC is not CRC-16/XMODEM", crcObj.Name(), c.Src(index)))
	return strip(info, b)
}

func stepLoop(c *core.Ctx, fn *core.Fn, name string, as *ast.AssignStmt, b ast.Expr) {
	info := fn.Pkg.TypesInfo
	und := func(f string, a ...interface{}) { c.Undecidedf("R2.step", name+"/loop", as.Pos(), f, a...) }
	var loop ast.Stmt
	for _, n := range core.PathTo(fn.Decl.Body, as) {
		switch s := n.(type) {
		case *ast.ForStmt, *ast.RangeStmt:
			loop = s.(ast.Stmt)
		}
	}
	isParam := func(e ast.Expr) bool {
		v, ok := objOf(info, e).(*types.Var)
		if !ok {
			return false
		}
		sig := fn.Obj.Type().(*types.Signature)
		for i := 0; i < sig.Params().Len(); i++ {
			if sig.Params().At(i) == v {
				return true
			}
		}
		return false
	}
	// the byte may be named first inside the loop (`b := buf[i]`), as left by expanding a step(crc, b) helper
	if o := objOf(info, b); o != nil && loop != nil {
		if rhs, other := defsOf(info, loop, o); len(rhs) == 1 && other == 0 && rhs[0] != nil {
			if r2, _ := defsOf(info, fn.Decl.Body, o); len(r2) == 1 {
				b = strip(info, rhs[0])
			}
		}
	}
	switch l := loop.(type) {
	case *ast.ForStmt:
		ie, ok := b.(*ast.IndexExpr)
		if !ok || !isParam(ie.X) || l.Cond == nil {
			und("byte operand %s is not an element of the input indexed by a counting loop", c.Src(b))
			return
		}
		start, stride, toLen, okH := countLoop(info, fn.Decl.Body, l, objOf(info, strip(info, ie.Index)), ie.X)
		switch {
		case !okH:
			und("unrecognised loop header around the step")
		case start != 0 || stride > 1:
			c.Check("R2.step", name+"/loop", l.Pos(), false, fmt.Sprintf("the step must be applied to every byte buf[0..len) once, in order (loop starts at %d, stride %d): a skipped byte changes the CRC of every key containing it", start, stride))
		case stride == 1 && toLen:
			c.Okf("R2.step", name+"/loop", l.Pos(), "the step is applied to every byte buf[0..len) once, in order")
		default:
			und("unrecognised loop header around the step")
		}
	case *ast.RangeStmt:
		// `range buf` or `range []byte(buf)` over the input parameter
		ranged := ast.Expr(l.X)
		if o := objOf(info, ranged); o != nil && !isParam(ranged) { // data := []byte(buf); for _, c := range data
			if rhs, other := defsOf(info, fn.Decl.Body, o); len(rhs) == 1 && other == 0 && rhs[0] != nil {
				ranged = rhs[0]
			}
		}
		if ie, isIdx := b.(*ast.IndexExpr); isIdx && l.Key != nil && objOf(info, l.Key) != nil && objOf(info, strip(info, ie.Index)) == objOf(info, l.Key) {
			// `for i := range X { ... in[i] ... }`: the step sees exactly the positions the
			// range statement enumerates, so these must be ALL of 0..len(input)-1
			rangeIndexed(c, fn, name, l, ie, ranged, isParam)
			return
		}
		if !isParam(strip(info, ranged)) || l.Value == nil || objOf(info, b) == nil || objOf(info, b) != objOf(info, l.Value) {
			und("byte operand %s is not the range value of the input", c.Src(b))
			return
		}
		_, isStr := info.TypeOf(l.X).Underlying().(*types.Basic) // type of the ranged expression itself: []byte(buf) yields bytes
		c.Check("R2.step", name+"/loop", l.Pos(), !isStr,
			"ranging over a string yields runes, not bytes: keys with non-ASCII bytes get a CRC different from CRC-16/XMODEM of their bytes")
	default:
		und("the step is not inside a loop over the input")
	}
}

func table(c *core.Ctx, pk *packages.Package, tab *types.Var, name string, ref [256]uint64) {
	info := pk.TypesInfo
	var lit *ast.CompositeLit
	for _, f := range pk.Syntax {
		for _, d := range f.Decls {
			gd, ok := d.(*ast.GenDecl)
			if !ok {
				continue
			}
			for _, sp := range gd.Specs {
				vs, ok := sp.(*ast.ValueSpec)
				if !ok {
					continue
				}
				for i, nm := range vs.Names {
					if info.Defs[nm] == tab && i < len(vs.Values) {
						lit, _ = ast.Unparen(vs.Values[i]).(*ast.CompositeLit)
					}
				}
			}
		}
	}
	if lit == nil {
		c.Undecidedf("R1.table", name, tab.Pos(), "table %s is not initialised by a composite literal", name)
		return
	}
	var bad []string
	next := int64(0)
	seen := 0
	for _, el := range lit.Elts {
		val := el
		if kv, ok := el.(*ast.KeyValueExpr); ok {
			k, ok := core.IntConst(info, kv.Key)
			if !ok {
				c.Undecidedf("R1.table", name, el.Pos(), "non-constant key in table literal")
				return
			}
			next, val = k, kv.Value
		}
		v, ok := core.IntConst(info, val)
		if !ok || next < 0 || next > 255 {
			c.Undecidedf("R1.table", name, el.Pos(), "table element %d is not a constant in range", next)
			return
		}
		if uint64(v) != ref[next] {
			bad = append(bad, fmt.Sprintf("[%d]=%#04x want %#04x", next, v, ref[next]))
		}
		next++
		seen++
	}
	if seen != 256 {
		bad = append(bad, fmt.Sprintf("%d of 256 entries given", seen))
	}
	// written anywhere?
	for _, f := range pk.Syntax {
		ast.Inspect(f, func(n ast.Node) bool {
			if as, ok := n.(*ast.AssignStmt); ok {
				for _, l := range as.Lhs {
					if ie, ok := ast.Unparen(l).(*ast.IndexExpr); ok && objOf(info, ie.X) == tab || objOf(info, l) == tab {
						bad = append(bad, "table is assigned at run time at "+c.Pos(as.Pos()))
					}
				}
			}
			return true
		})
	}
	d := "all 256 entries equal the CRC-16/XMODEM table generated from polynomial 0x1021"
	if len(bad) > 0 {
		if len(bad) > 4 {
			bad = append(bad[:4], fmt.Sprintf("... %d more", len(bad)-4))
		}
		d = "table differs from CRC-16/XMODEM (poly 0x1021): " + strings.Join(bad, "; ") + " - keys whose bytes select these entries are mapped to a wrong slot"
	}
	c.Check("R1.table", name, lit.Pos(), len(bad) == 0, d)
}

// masks: every use of the crc16 function in its package is reduced modulo 16384.
func masks(c *core.Ctx, fn *core.Fn, name string) {
	info := fn.Pkg.TypesInfo
	sites := 0
	defer func() {
		if sites == 0 {
			c.Undecidedf("R1.mask", name, fn.Decl.Pos(), "no use of %s found in its package", name)
		}
	}()
	for _, f := range fn.Pkg.Syntax {
		var stack []ast.Node
		ast.Inspect(f, func(n ast.Node) bool {
			if n == nil {
				stack = stack[:len(stack)-1]
				return false
			}
			stack = append(stack, n)
			call, ok := n.(*ast.CallExpr)
			if !ok || core.CalleeFunc(info, call) != fn.Obj {
				return true
			}
			owner := "?"
			var parent ast.Node
			for i := len(stack) - 2; i >= 0; i-- {
				if parent == nil {
					if _, isParen := stack[i].(*ast.ParenExpr); !isParen {
						parent = stack[i]
					}
				}
				if fd, ok := stack[i].(*ast.FuncDecl); ok {
					owner = fd.Name.Name
				}
			}
			key := name + "/" + owner
			sites++
			be, ok := parent.(*ast.BinaryExpr)
			var operand ast.Expr = call
			if as, isAs := parent.(*ast.AssignStmt); isAs && len(as.Lhs) == 1 && len(as.Rhs) == 1 && objOf(info, as.Lhs[0]) != nil {
				// h := crc16(x) ... h & mask: the value is carried by a single-assignment local
				v := objOf(info, as.Lhs[0])
				if rhs, other := defsOf(info, f, v); len(rhs) == 1 && other == 0 {
					var uses []*ast.BinaryExpr
					ast.Inspect(f, func(m ast.Node) bool {
						if b2, isB := m.(*ast.BinaryExpr); isB && (b2.Op == token.AND || b2.Op == token.REM) && (objOf(info, strip(info, b2.X)) == v || objOf(info, strip(info, b2.Y)) == v) {
							uses = append(uses, b2)
						}
						return true
					})
					if len(uses) == 1 {
						be, ok = uses[0], true
						operand = uses[0].X
						if objOf(info, strip(info, uses[0].Y)) == v {
							operand = uses[0].Y
						}
					}
				}
			}
			if !ok || be.Op != token.AND && be.Op != token.REM {
				c.Undecidedf("R1.mask", key, call.Pos(), "result of %s is not directly reduced to a slot number", name)
				return true
			}
			other := be.Y
			if ast.Unparen(be.Y) == ast.Unparen(operand) {
				other = be.X
			}
			m, ok := core.IntConst(info, other)
			if !ok {
				c.Undecidedf("R1.mask", key, call.Pos(), "slot mask %s is not a constant", c.Src(other))
				return true
			}
			c.Check("R1.mask", key, call.Pos(), be.Op == token.AND && m == 16383 || be.Op == token.REM && m == 16384,
				fmt.Sprintf("slot = crc16 %s %d; the specification is crc16 mod 16384 (& 16383): other reductions put keys into slots the cluster does not use for them", be.Op, m))
			return true
		})
	}
}

// countLoop reads a counting loop over buf with index variable idx: the
// constant it starts from, its stride, and whether it runs while idx < len(buf)
// (the bound may be hoisted into a local, also in the loop's own init:
// `for i, n := 0, len(buf); i < n; i++`).
func countLoop(info *types.Info, body ast.Node, l *ast.ForStmt, idx types.Object, buf ast.Expr) (start, stride int64, toLen, ok bool) {
	if l.Cond == nil || idx == nil {
		return 0, 0, false, false
	}
	if l.Init == nil && l.Post == nil {
		// `i := 0; for i < len(buf) { ...; i++ }`: the index starts at its only
		// other assignment and is advanced by the last statement of the body
		var start0 ast.Expr
		nInit := 0
		ast.Inspect(body, func(n ast.Node) bool {
			if as, ok := n.(*ast.AssignStmt); ok && len(as.Lhs) == len(as.Rhs) && (as.Tok == token.DEFINE || as.Tok == token.ASSIGN) {
				for i, lh := range as.Lhs {
					if objOf(info, lh) == idx {
						start0 = as.Rhs[i]
						nInit++
					}
				}
			}
			return true
		})
		list := l.Body.List
		if nInit != 1 || len(list) == 0 || start0 == nil || start0.Pos() > l.Pos() {
			return 0, 0, false, false
		}
		incs := 0
		ast.Inspect(l.Body, func(n ast.Node) bool {
			switch st := n.(type) {
			case *ast.IncDecStmt:
				if objOf(info, st.X) == idx {
					incs++
				}
			case *ast.AssignStmt:
				for _, lh := range st.Lhs {
					if objOf(info, lh) == idx {
						incs++
					}
				}
			case *ast.BranchStmt:
				if st.Tok == token.CONTINUE {
					incs += 2 // a continue may skip the increment
				}
			}
			return true
		})
		if incs != 1 {
			return 0, 0, false, false
		}
		l = &ast.ForStmt{For: l.For, Init: &ast.AssignStmt{Lhs: []ast.Expr{identFor(info, l.Cond, idx)}, Tok: token.DEFINE, Rhs: []ast.Expr{start0}}, Cond: l.Cond, Post: list[len(list)-1], Body: l.Body}
		if l.Init.(*ast.AssignStmt).Lhs[0] == nil {
			return 0, 0, false, false
		}
	}
	if l.Init == nil || l.Post == nil {
		return 0, 0, false, false
	}
	init, isAs := l.Init.(*ast.AssignStmt)
	cond, isBin := ast.Unparen(l.Cond).(*ast.BinaryExpr)
	if !isAs || !isBin || len(init.Lhs) != len(init.Rhs) {
		return 0, 0, false, false
	}
	pos := -1
	for i, lh := range init.Lhs {
		if objOf(info, lh) == idx {
			pos = i
		}
	}
	if pos < 0 {
		return 0, 0, false, false
	}
	start, ok = core.IntConst(info, init.Rhs[pos])
	if !ok {
		return 0, 0, false, false
	}
	bd := pat.Binds{"_i": init.Lhs[pos]}
	switch {
	case pat.Stmt("_i++").Match(info, l.Post, bd) != nil:
		stride = 1
	default:
		b := pat.Stmt("_i += _k").Match(info, l.Post, bd)
		if b == nil {
			b = pat.Stmt("_i = _i + _k").Match(info, l.Post, bd)
		}
		if b == nil {
			return 0, 0, false, false
		}
		if stride, ok = core.IntConst(info, b["_k"].(ast.Expr)); !ok {
			return 0, 0, false, false
		}
	}
	bound, op := cond.Y, cond.Op
	if objOf(info, strip(info, cond.Y)) == idx {
		bound = cond.X
		op = map[token.Token]token.Token{token.GTR: token.LSS, token.NEQ: token.NEQ}[op]
	} else if objOf(info, strip(info, cond.X)) != idx {
		return 0, 0, false, false
	}
	bound = strip(info, bound)
	if o := objOf(info, bound); o != nil { // hoisted bound
		for i, lh := range init.Lhs {
			if objOf(info, lh) == o {
				bound = strip(info, init.Rhs[i])
			}
		}
		if objOf(info, bound) == o {
			if rhs, other := defsOf(info, body, o); len(rhs) == 1 && other == 0 && rhs[0] != nil {
				bound = strip(info, rhs[0])
			}
		}
	}
	toLen = (op == token.LSS || op == token.NEQ) && pat.Expr("len(_buf)").Match(info, bound, pat.Binds{"_buf": buf}) != nil
	return start, stride, toLen, true
}

// identFor returns an identifier inside e that denotes o.
func identFor(info *types.Info, e ast.Expr, o types.Object) ast.Expr {
	var out ast.Expr
	ast.Inspect(e, func(n ast.Node) bool {
		if id, ok := n.(*ast.Ident); ok && info.Uses[id] == o && out == nil {
			out = id
		}
		return true
	})
	return out
}

// rangeIndexed decides `for i := range X { ... in[i] ... }`: the step is applied
// at exactly the positions the range statement enumerates. These are all of
// 0..len(in)-1 when X is a byte slice (or array) of the input's length or the
// integer len(in); over a STRING the range statement enumerates only the offsets
// at which a UTF-8 sequence starts, whatever is done with the index afterwards.
func rangeIndexed(c *core.Ctx, fn *core.Fn, name string, l *ast.RangeStmt, ie *ast.IndexExpr, ranged ast.Expr, isParam func(ast.Expr) bool) {
	info := fn.Pkg.TypesInfo
	und := func(f string, a ...interface{}) { c.Undecidedf("R2.step", name+"/loop", l.Pos(), f, a...) }
	// input: the parameter an expression stands for (itself, a conversion of it, or a local holding one of these)
	input := func(e ast.Expr) types.Object {
		e = strip(info, e)
		if o := objOf(info, e); o != nil && !isParam(e) {
			if rhs, other := defsOf(info, fn.Decl.Body, o); len(rhs) == 1 && other == 0 && rhs[0] != nil {
				e = strip(info, rhs[0])
			}
		}
		if isParam(e) {
			return objOf(info, e)
		}
		return nil
	}
	in := input(ie.X)
	if in == nil {
		und("indexed operand %s is not the input", c.Src(ie.X))
		return
	}
	if rhs, other := defsOf(info, l.Body, objOf(info, l.Key)); len(rhs) > 0 || other > 0 {
		und("the range index %s is written inside the loop", c.Src(l.Key))
		return
	}
	isByte := func(t types.Type) bool {
		b, ok := t.Underlying().(*types.Basic)
		return ok && b.Kind() == types.Uint8
	}
	t := info.TypeOf(l.X)
	if t == nil {
		und("untyped range expression %s", c.Src(l.X))
		return
	}
	switch u := t.Underlying().(type) {
	case *types.Basic:
		switch {
		case u.Info()&types.IsString != 0:
			if input(ranged) != in {
				und("the loop ranges over the string %s, the step reads %s", c.Src(l.X), c.Src(ie))
				return
			}
			c.Check("R2.step", name+"/loop", l.Pos(), false,
				fmt.Sprintf("the step must be applied to every byte of the input; `range %s` over a string enumerates only the offsets where a UTF-8 sequence starts, so %s is never read at the continuation bytes: every key with a multi-byte sequence gets a CRC different from CRC-16/XMODEM of its bytes (and from the other CRC16 copies)", c.Src(l.X), c.Src(ie)))
		case u.Info()&types.IsInteger != 0: // range over an integer: 0..n-1
			if call, ok := strip(info, ranged).(*ast.CallExpr); ok && len(call.Args) == 1 {
				if b, isB := core.Callee(info, call).(*types.Builtin); isB && b.Name() == "len" && input(call.Args[0]) == in {
					c.Okf("R2.step", name+"/loop", l.Pos(), "the step is applied at every position 0..len(input)-1, in order")
					return
				}
			}
			und("the loop counts to %s, which is not the length of the input", c.Src(l.X))
		default:
			und("unrecognised range expression %s", c.Src(l.X))
		}
	case *types.Slice:
		if !isByte(u.Elem()) || input(ranged) != in {
			und("the loop ranges over %s, which is not the bytes of the input", c.Src(l.X))
			return
		}
		c.Okf("R2.step", name+"/loop", l.Pos(), "the step is applied at every position 0..len(input)-1, in order")
	default:
		und("unrecognised range expression %s", c.Src(l.X))
	}
}
