package c18

// R7.capacity: a store that keeps its bytes in memory (the backing field of a
// `buffer` implementation is a slice) indexes that slice with
// [offset, offset+maxlen) where offset+maxlen <= size (R6). The bytes written
// at an offset can only be stored and returned if the slice is at least `size`
// long: on every path of every function that builds such a store,
// size <= cap(backing) holds for the object built. The condition is decided on
// the traces of the path engine (helpers inlined, locals replaced by what they
// hold), with the facts of the path: it does not depend on how the constructor
// spells the two fields.

import (
	"go/ast"
	"go/token"
	"go/types"
	"sort"

	"rscheck/core"
	"rscheck/rules/ring"
)

const capRule = "R7.capacity"

const capMsg = "a memory store is built with size <= cap(backing slice): the ring arithmetic places bytes at [offset, offset+maxlen) with offset+maxlen <= size, so a shorter slice cannot hold the announced capacity (Write/ReadAt slice out of range instead of storing / returning the bytes)"

// capStatus of one built object on one trace.
type capStatus int

const (
	capOK capStatus = iota
	capBad
	capUnknown
)

type capFinding struct {
	st      capStatus
	pos     token.Pos
	why     string
	trace   *ring.Trace
	onParam bool // the undecided comparison mentions a parameter of the analysed function
}

func capacity(c *core.Ctx, impls []*types.Named) {
	for _, t := range impls {
		backing := ring.BackingField(t)
		if backing == nil {
			continue
		}
		if _, isSlice := backing.Type().Underlying().(*types.Slice); !isSlice {
			continue // storage outside the process (file): no in-memory capacity to compare with
		}
		capacityOf(c, t, backing)
	}
}

func structField(t *types.Named, name string) *types.Var {
	st, _ := t.Underlying().(*types.Struct)
	if st == nil {
		return nil
	}
	for i := 0; i < st.NumFields(); i++ {
		if st.Field(i).Name() == name {
			return st.Field(i)
		}
	}
	return nil
}

func isNamed(t types.Type, want *types.Named) bool {
	if p, ok := t.(*types.Pointer); ok {
		t = p.Elem()
	}
	n, ok := t.(*types.Named)
	return ok && n.Obj() == want.Obj()
}

// allocates: the body of fn (literals included) creates a value of type t.
func allocates(info *types.Info, body ast.Node, t *types.Named) bool {
	found := false
	ast.Inspect(body, func(n ast.Node) bool {
		switch x := n.(type) {
		case *ast.CompositeLit:
			if tt := info.TypeOf(x); tt != nil && isNamed(tt, t) {
				if _, ptr := tt.(*types.Pointer); !ptr {
					found = true
				}
			}
		case *ast.CallExpr:
			if b, ok := core.Callee(info, x).(*types.Builtin); ok && b.Name() == "new" && len(x.Args) == 1 {
				if tt := info.TypeOf(x.Args[0]); tt != nil && isNamed(tt, t) {
					found = true
				}
			}
		case *ast.ValueSpec:
			if x.Type != nil {
				if tt := info.TypeOf(x.Type); tt != nil && isNamed(tt, t) {
					if _, ptr := tt.(*types.Pointer); !ptr {
						found = true
					}
				}
			}
		}
		return !found
	})
	return found
}

func capacityOf(c *core.Ctx, t *types.Named, backing *types.Var) {
	tn := t.Obj().Name()
	pk := c.Pkg(pkg)
	info := pk.TypesInfo
	sizeVar := structField(t, "size")
	if sizeVar == nil {
		c.Undecidedf(capRule, tn+"/size-within-backing", t.Obj().Pos(), "%s has no field size: the capacity the ring arithmetic uses cannot be identified", tn)
		return
	}
	pc := ring.CallsIn(c, pkg)
	var roots []*types.Func
	for fo, fn := range pc.Decl {
		if allocates(info, fn.Decl.Body, t) && pc.Referenced(fo) {
			roots = append(roots, fo)
		}
	}
	sort.Slice(roots, func(i, j int) bool { return roots[i].Pos() < roots[j].Pos() })

	covered := map[token.Pos]bool{} // field stores that hit an object built on an analysed path
	visited := map[*types.Func]bool{}
	checked := 0
	var eval func(fo *types.Func, depth int)
	eval = func(fo *types.Func, depth int) {
		fo = fo.Origin()
		if visited[fo] {
			return
		}
		visited[fo] = true
		fn := pc.Decl[fo]
		if fn == nil {
			return
		}
		key := tn + "/size-within-backing/" + ring.BodyName(fo)
		res := ring.RunSym(c, fn, &ring.Sym{})
		if ok, why := res.Usable(); !ok {
			c.Undecidedf(capRule, key, fn.Decl.Pos(), "%s: %s", capMsg, why)
			return
		}
		var bad, unknown *capFinding
		n := 0
		for _, tr := range res.Traces {
			for _, e := range tr.Events {
				if e.Kind == ring.EvStore && (e.Field == sizeVar || e.Field == backing) && ring.Pointee(e.Base) != nil {
					covered[e.Pos] = true
				}
			}
			if !tr.Normal() {
				continue
			}
			for _, obj := range builtObjects(tr, t) {
				f := capOfObject(tr, res, obj, backing, sizeVar)
				if f == nil {
					continue
				}
				n++
				switch {
				case f.st == capBad && bad == nil:
					bad = f
				case f.st == capUnknown && (unknown == nil || unknown.onParam && !f.onParam):
					unknown = f
				}
			}
		}
		switch {
		case bad != nil:
			checked++
			c.Check(capRule, key, bad.pos, false, capMsg+"; "+bad.why, bad.trace.Witness(c)...)
		case unknown != nil:
			// a helper that receives the slice or the capacity from its callers is judged where the values are made
			if unknown.onParam && depth < 3 && pc.Internal(fo) {
				for _, caller := range pc.Callers[fo] {
					if pc.Referenced(caller) {
						eval(caller, depth+1)
					}
				}
				return
			}
			checked++
			c.Undecidedf(capRule, key, unknown.pos, "%s: %s", capMsg, unknown.why)
		case n > 0:
			checked++
			c.Okf(capRule, key, fn.Decl.Pos(), "%s", capMsg)
		}
	}
	for _, fo := range roots {
		eval(fo, 0)
	}
	if checked == 0 {
		c.Undecidedf(capRule, tn+"/size-within-backing", t.Obj().Pos(), "no function that builds a %s with a backing slice was found: the capacity invariant is not established anywhere the rule can see", tn)
	}

	// the invariant is established where the store is built; afterwards the
	// capacity stays and the slice is only dropped (close)
	for _, b := range ring.Bodies(c, pkg) {
		if b.Lit != nil {
			continue // literals are part of the declaration's body
		}
		if fo, _ := info.Defs[b.Decl.Name].(*types.Func); fo != nil && !pc.Referenced(fo) {
			continue
		}
		b := b
		which := func(e ast.Expr) *types.Var {
			sel, ok := ast.Unparen(e).(*ast.SelectorExpr)
			if !ok {
				return nil
			}
			s, ok := info.Selections[sel]
			if !ok || s.Kind() != types.FieldVal {
				return nil
			}
			if v, _ := s.Obj().(*types.Var); v == sizeVar || v == backing {
				return v
			}
			return nil
		}
		late := func(e ast.Expr, v *types.Var, what string) {
			c.Undecidedf(capRule, tn+"/"+v.Name()+"-changes-after-construction/"+b.Name, e.Pos(),
				"%s.%s is %s outside the construction of the store: the rule establishes size <= cap(backing) where the store is built and does not follow later changes", tn, v.Name(), what)
		}
		core.Inspect(b.Decl.Body, func(n ast.Node) bool {
			switch x := n.(type) {
			case *ast.AssignStmt:
				for i, l := range x.Lhs {
					v := which(l)
					if v == nil || covered[ast.Unparen(l).Pos()] {
						continue
					}
					if v == backing && x.Tok == token.ASSIGN && len(x.Rhs) == len(x.Lhs) {
						if tv, ok := info.Types[x.Rhs[i]]; ok && tv.IsNil() {
							continue // dropping the storage: judged by R5.sibling/close
						}
					}
					late(l, v, "assigned")
				}
			case *ast.IncDecStmt:
				if v := which(x.X); v != nil && !covered[ast.Unparen(x.X).Pos()] {
					late(x.X, v, "changed")
				}
			case *ast.UnaryExpr:
				if x.Op == token.AND {
					if v := which(x.X); v != nil {
						late(x.X, v, "made addressable")
					}
				}
			}
			return true
		})
	}
}

// builtObjects lists the values of type t allocated on the trace that are
// visible at its end: returned, stored into a field, or handed to a call.
func builtObjects(tr *ring.Trace, t *types.Named) []*ring.Val {
	seen := map[string]bool{}
	var out []*ring.Val
	var walk func(v *ring.Val, depth int)
	walk = func(v *ring.Val, depth int) {
		if v == nil || depth > 8 {
			return
		}
		if v.K == ring.VObj && v.T != nil && isNamed(v.T, t) {
			if !seen[v.Key()] {
				seen[v.Key()] = true
				out = append(out, v)
			}
			return
		}
		walk(v.X, depth+1)
		walk(v.Y, depth+1)
		walk(v.Z, depth+1)
		for _, a := range v.Args {
			walk(a, depth+1)
		}
	}
	for _, r := range tr.Results {
		walk(r, 0)
	}
	keys := make([]string, 0, len(tr.Fields))
	for k := range tr.Fields {
		keys = append(keys, k)
	}
	sort.Strings(keys)
	for _, k := range keys {
		walk(tr.Fields[k], 0)
	}
	for _, e := range tr.Events {
		walk(e.Recv, 0)
		walk(e.Base, 0)
		walk(e.Val, 0)
		for _, a := range e.Args {
			walk(a, 0)
		}
	}
	return out
}

// fieldAtEnd: the value field fv of the object holds at the end of the trace;
// zero reports a field that was never written (the zero value of a fresh object).
func fieldAtEnd(tr *ring.Trace, obj *ring.Val, fv *types.Var) (v *ring.Val, zero bool) {
	if v, ok := tr.Fields[obj.Key()+"."+fv.Name()]; ok && v != nil {
		return v, false
	}
	wrote := false
	for _, e := range tr.Events {
		if e.Kind == ring.EvStore && e.Field == fv && e.Base != nil && ring.Pointee(e.Base) != nil && ring.Pointee(e.Base).Key() == obj.Key() {
			wrote = true
		}
	}
	if !wrote {
		return nil, true
	}
	return tr.End.FieldNow(obj, fv), false
}

// capOfObject decides size <= cap(backing) for one object; nil when the object
// has no storage (nil / unset backing: a closed store never indexes).
func capOfObject(tr *ring.Trace, res *ring.SymResult, obj *ring.Val, backing, sizeVar *types.Var) *capFinding {
	pos := token.NoPos
	if obj.Leaf != nil {
		pos = obj.Leaf.Pos
	}
	b, bzero := fieldAtEnd(tr, obj, backing)
	if bzero || b == nil || b.K == ring.VNil || tr.Facts.IsNil(b) {
		return nil
	}
	size, szero := fieldAtEnd(tr, obj, sizeVar)
	if szero {
		size = ring.VInt(0)
	}
	if size == nil {
		return &capFinding{st: capUnknown, pos: pos, trace: tr, why: "the value of size is not visible"}
	}
	lenv, capv, why := capTerm(tr, b)
	if capv != nil {
		// size may be spelled len(buf) / cap(buf) of the slice just made
		size = substLen(size, b, lenv, capv, 0)
	}
	if capv == nil {
		return &capFinding{st: capUnknown, pos: pos, trace: tr, why: why, onParam: mentionsParam(b, res)}
	}
	switch {
	case ring.LinEqual(size, capv) || tr.Facts.Holds(ring.VCmp(token.LEQ, size, capv)):
		return &capFinding{st: capOK, pos: pos, trace: tr}
	case tr.Facts.Holds(ring.VCmp(token.GTR, size, capv)):
		return &capFinding{st: capBad, pos: pos, trace: tr,
			why: "on this path size = " + size.Key() + " exceeds the capacity of the slice allocated for the backing, " + capv.Key()}
	}
	return &capFinding{st: capUnknown, pos: pos, trace: tr,
		why:     "size = " + size.Key() + " and the capacity of the backing slice = " + capv.Key() + " are different terms and the facts of the path do not order them",
		onParam: mentionsParam(size, res) || mentionsParam(capv, res)}
}

// capTerm returns cap(b) for a slice value the engine saw being allocated:
// make([]T, n) / make([]T, n, m), or a literal with known elements.
func capTerm(tr *ring.Trace, b *ring.Val) (lenv, capv *ring.Val, why string) {
	if b.K == ring.VList {
		n := ring.VInt(int64(len(b.Args)))
		return n, n, ""
	}
	if b.IsLeafKind(ring.LResult) {
		for _, e := range tr.Events {
			if e.Kind != ring.EvCall || e.Builtin != "make" || len(e.Results) != 1 || e.Results[0].Key() != b.Key() || e.Call == nil {
				continue
			}
			// the arguments after the type: length and optional capacity
			n := len(e.Call.Args)
			if (n == 2 || n == 3) && len(e.Args) == n && e.Args[1] != nil && e.Args[n-1] != nil {
				return e.Args[1], e.Args[n-1], ""
			}
			return nil, nil, "the backing slice is made without a length the rule can read"
		}
	}
	return nil, nil, "the backing slice is not allocated where the store is built (" + b.Key() + "): its capacity is not visible"
}

// substLen rewrites len(b) / cap(b) inside v to the terms the allocation of b fixed.
func substLen(v, b, lenv, capv *ring.Val, depth int) *ring.Val {
	if v == nil || depth > 8 {
		return v
	}
	switch v.K {
	case ring.VLen:
		if v.X != nil && v.X.Key() == b.Key() {
			if v.Str == "cap" {
				return capv
			}
			return lenv
		}
	case ring.VBin:
		x, y := substLen(v.X, b, lenv, capv, depth+1), substLen(v.Y, b, lenv, capv, depth+1)
		if x != v.X || y != v.Y {
			return &ring.Val{K: ring.VBin, Op: v.Op, X: x, Y: y, T: v.T}
		}
	}
	return v
}

func mentionsParam(v *ring.Val, res *ring.SymResult) bool {
	if v == nil {
		return false
	}
	return v.Mentions(func(x *ring.Val) bool { return x.IsLeafKind(ring.LParam) })
}
