// Package c18 decides the structural clauses of property C18 (backlog ring).
package c18

import (
	"fmt"
	"go/ast"
	"go/token"
	"go/types"

	"rscheck/core"
	"rscheck/driver"
	"rscheck/rules/ring"
)

const pkg = "pkg/libs/io/backlog"

var Def = driver.PropDef{
	ID: "C18",
	Explanation: "Structural necessary conditions of the backlog ring, checked on every path of pkg/libs/io/backlog: " +
		"R1 lock guard table (err, store, rwait only under Backlog.mu; cond built over &mu; writeSome only under wl); " +
		"R2 wake-ups (writeSome broadcasts on every path with progress or error; CloseWithError broadcasts on every path and closes the store; the only Wait is the no-progress tail of readSomeAt, followed by return (0,nil), and ReadAt loops); " +
		"R3 validity before data (both stores reject rpos > wpos and rpos+size < wpos with ErrInvalidOffset before any storage read; a closed store yields ErrClosedBacklog); " +
		"R4 range table (dataRange = (wpos-size, wpos) once wpos >= size else (0, wpos); Reader.IsValid is rpos <= seek <= wpos; Reader.Read advances seek by the count returned; NewReader starts at wpos); " +
		"R5 mem/file sibling skeleton (roffset/woffset arguments in parameter order, transfer window, wpos += n on write, no position change on read); " +
		"R6 ring index clamp form (offset = position % size, maxlen only lowered to the ring bounds); " +
		"R7 capacity (every function that builds a store with an in-memory backing slice leaves size <= cap(backing) on every path; size and the slice are not changed afterwards, the slice is only dropped).",
	NotDecided: "byte equality at an offset across wrap-arounds (value-level), arithmetic correctness of the bounds beyond the clamp-term comparison, all interleavings.",
	Trusted:    []string{"go/parser, go/types, go/cfg (x/tools v0.29.0)", "sync.Mutex / sync.Cond semantics", "copy, os.File.ReadAt/WriteAt semantics", "io count contract: an operation handed a byte slice first and returning (int, error) reports 0 <= n <= len(slice) (used to decide `n > 0` / `n != 0` alike)", "package-level error values (io.EOF, io.ErrClosedPipe, Err*) are never nil"},
	Run:        Run,
}

func recvType(f *types.Func) types.Type {
	sig, _ := f.Type().(*types.Signature)
	if sig == nil || sig.Recv() == nil {
		return nil
	}
	return sig.Recv().Type()
}

func fieldVar(c *core.Ctx, typ, name string) *types.Var { return ring.FieldVar(c, pkg, typ, name) }

// verdict collects the first failing trace of one obligation.
type verdict struct {
	seen bool
	bad  *ring.Trace
	pos  token.Pos
}

func (v *verdict) add(t *ring.Trace, pos token.Pos, ok bool) {
	if !v.seen {
		v.pos = pos
	}
	v.seen = true
	if !ok && v.bad == nil {
		v.bad = t
		v.pos = pos
	}
}

func (v *verdict) report(c *core.Ctx, rule, key string, def token.Pos, msg string) {
	pos := v.pos
	if !pos.IsValid() {
		pos = def
	}
	var w []string
	if v.bad != nil {
		w = v.bad.Witness(c)
	}
	c.Check(rule, key, pos, v.bad == nil, msg, w...)
}

// isSyncField: the read only fetches a mutex / condition variable (to unlock or signal).
func isSyncField(e *ring.Event) bool {
	if e.Field == nil {
		return false
	}
	tp := core.NamedTypePath(e.Field.Type())
	return tp == "sync.Mutex" || tp == "sync.RWMutex" || tp == "sync.Cond"
}

func isUnlock(e *ring.Event) bool {
	return e.Kind == ring.EvCall && e.Callee != nil && e.Callee.Pkg() != nil && e.Callee.Pkg().Path() == "sync" && (e.Callee.Name() == "Unlock" || e.Callee.Name() == "RUnlock")
}

func Run(c *core.Ctx) {
	pk := c.Pkg(pkg)
	if pk == nil {
		c.Undecidedf("anchor", pkg, token.NoPos, "package not loaded")
		return
	}

	// ---- R1
	guarded := []string{"err", "store", "rwait"}
	n, perField, immutable := ring.GuardTable(c, "R1.guard", pkg, "Backlog", "mu", guarded)
	ring.GuardOnTraces(c, "R1.trace", pkg, "Backlog", "mu", guarded, immutable)
	for _, f := range guarded {
		if perField[f] < 2 {
			c.Undecidedf("instances", "R1.guard", token.NoPos, "only %d guarded accesses to Backlog.%s found (%d in total)", perField[f], f, n)
		}
	}
	ring.CondOver(c, "R1.cond", pkg, "Backlog", "rwait", "mu")
	writeLock(c)

	// ---- R2
	readSomeAt := c.Func(pkg, "Backlog", "readSomeAt")
	writeSome := c.Func(pkg, "Backlog", "writeSome")
	closeFn := c.Func(pkg, "Backlog", "CloseWithError")
	if readSomeAt == nil || writeSome == nil || closeFn == nil {
		return
	}
	r2write(c, writeSome)
	rr := r2read(c, readSomeAt)
	r2close(c, closeFn)
	extraWaits(c, rr)

	// ---- R3, R4, R5
	impls := ring.ImplementersOf(c, pkg, "buffer")
	if len(impls) < 2 {
		c.Undecidedf("R5.sibling", "implementations", token.NoPos, "expected the memory and file implementations of buffer, found %d", len(impls))
	}
	for _, t := range impls {
		stores(c, t)
	}
	reader(c)
	capacity(c, impls)

	// ---- R6
	ring.ClampFlow(c, "R6.ring", c.Func(pkg, "", "roffset"), ring.ClampSpec{
		Params: []string{"blen", "size", "rpos", "wpos"}, Offset: "rpos",
		Clamps: []string{"_wpos - _rpos", "_size - _offset"},
	})
	ring.ClampFlow(c, "R6.ring", c.Func(pkg, "", "woffset"), ring.ClampSpec{
		Params: []string{"blen", "size", "wpos"}, Offset: "wpos",
		Clamps: []string{"_size", "_size - _offset"},
	})
}

// extraWaits: a sync.Cond.Wait that is not one of the events of readSomeAt
// (helpers it calls are inlined there).
func extraWaits(c *core.Ctx, results ...*ring.SymResult) {
	covered := map[token.Pos]bool{}
	for _, r := range results {
		if r == nil {
			continue
		}
		for _, t := range r.Traces {
			for _, e := range t.Events {
				if _, m, _ := ring.CondOp(e); m == "Wait" && e.Call != nil {
					covered[e.Call.Pos()] = true
				}
			}
		}
	}
	info := c.Pkg(pkg).TypesInfo
	pc := ring.CallsIn(c, pkg)
	const waitRule = "R2.wake"
	anchors := map[*types.Func]bool{}
	for _, r := range results {
		if r != nil {
			anchors[r.Fn.Obj.Origin()] = true
		}
	}
	for _, b := range ring.Bodies(c, pkg) {
		var root ast.Node = b.Decl.Body
		if b.Lit != nil {
			root = b.Lit
		}
		b := b
		core.Inspect(root, func(m ast.Node) bool {
			call, ok := m.(*ast.CallExpr)
			if !ok {
				return true
			}
			f := core.CalleeFunc(info, call)
			if f == nil || f.Name() != "Wait" || core.NamedTypePath(recvType(f)) != "sync.Cond" {
				return true
			}
			if covered[call.Pos()] {
				// the site is part of an anchored operation; it must not be reachable around it
				if encl, _ := info.Defs[b.Decl.Name].(*types.Func); encl != nil {
					if ok, entry := pc.OnlyVia(encl, anchors); !ok {
						c.Failf(waitRule, "extra-wait/"+ring.BodyName(entry), call.Pos(), "%s reaches a sync.Cond.Wait without going through the anchored wait operation: a sleeper the wake-ups are not designed for", ring.BodyName(entry))
					}
				}
				return true
			}
			fo, _ := info.Defs[b.Decl.Name].(*types.Func)
			if fo != nil && !pc.Referenced(fo) {
				return true // dead code
			}
			c.Failf("R2.wake", "extra-wait/"+b.Name, call.Pos(), "sync.Cond.Wait outside readSomeAt: a sleeper the write/close broadcasts are not designed for")
			return true
		})
	}
}

// writeLock: every call of writeSome happens with wl held (in Write itself or
// in a helper / closure only ever invoked with wl held).
func writeLock(c *core.Ctx) {
	fn := c.Func(pkg, "Backlog", "Write")
	in := c.Func(pkg, "Backlog", "writeSome")
	if fn == nil || in == nil {
		return
	}
	info := fn.Pkg.TypesInfo
	ls := ring.LockHeld(c, pkg, "Backlog", "wl")
	pc := ring.CallsIn(c, pkg)
	total := 0
	for i, b := range ls.Bodies {
		var root ast.Node = b.Decl.Body
		if b.Lit != nil {
			root = b.Lit.Body
		}
		i, b := i, b
		if fo, _ := info.Defs[b.Decl.Name].(*types.Func); fo != nil && !pc.Referenced(fo) {
			continue // dead code
		}
		core.Inspect(root, func(m ast.Node) bool {
			call, ok := m.(*ast.CallExpr)
			if !ok || core.CalleeFunc(info, call) != in.Obj {
				return true
			}
			total++
			held := ls.HeldAt(i, call)
			msg := "writeSome must be called with wl held for the whole transfer (concurrent writers would interleave their chunks)"
			switch {
			case b.Decl == fn.Decl:
				c.Check("R1.side", "Write/wl", call.Pos(), held, msg)
			case held:
				c.Okf("R1.side", "writeSome/caller/"+b.Name, call.Pos(), "%s", msg)
			default:
				c.Failf("R1.side", "writeSome/foreign-caller/"+b.Name, call.Pos(), "writeSome is called outside Write without wl")
			}
			return true
		})
	}
	if total == 0 {
		c.Undecidedf("R1.side", "Write/wl", fn.Decl.Pos(), "no call of writeSome found")
	}
}

func r2write(c *core.Ctx, fn *core.Fn) {
	res := ring.RunSym(c, fn, &ring.Sym{})
	if ok, why := res.Usable(); !ok {
		c.Undecidedf("R2.wake", "writeSome/store-call", fn.Decl.Pos(), "%s", why)
		return
	}
	storeVar, errVar := fieldVar(c, "Backlog", "store"), fieldVar(c, "Backlog", "err")
	var bcast, open, noErr verdict
	for _, t := range res.Traces {
		s := t.First(func(e *ring.Event) bool { return ring.IsFieldCall(e, "store", "writeSome") })
		if s == nil {
			continue
		}
		if t.Normal() && ring.MayProgress(t.Facts, s) {
			bcast.add(t, s.Pos, t.First(func(e *ring.Event) bool { return e.Index > s.Index && ring.IsCondOp(e, "rwait", "Broadcast") }) != nil)
		} else {
			bcast.add(t, s.Pos, true)
		}
		open.add(t, s.Pos, t.FactsAt(s).NonNil(s.FieldNow(res.Recv, storeVar)))
		noErr.add(t, s.Pos, t.FactsAt(s).IsNil(s.FieldNow(res.Recv, errVar)))
	}
	if !bcast.seen {
		c.Undecidedf("R2.wake", "writeSome/store-call", fn.Decl.Pos(), "no path of writeSome calls bl.store.writeSome")
		return
	}
	bcast.report(c, "R2.wake", "writeSome/broadcast-on-progress", fn.Decl.Pos(),
		"every path on which the store accepted bytes or failed must call rwait.Broadcast() before returning: every reader waiting at the write position has to be woken (Signal would wake only one)")
	open.report(c, "R2.wake", "writeSome/store-open-before-store", fn.Decl.Pos(), "the store write is reachable only after the closed/error state was tested")
	noErr.report(c, "R2.wake", "writeSome/no-error-before-store", fn.Decl.Pos(), "the store write is reachable only after the closed/error state was tested")
}

func r2read(c *core.Ctx, fn *core.Fn) *ring.SymResult {
	res := ring.RunSym(c, fn, &ring.Sym{AllowCuts: true})
	if ok, why := res.Usable(); !ok {
		c.Undecidedf("R2.wake", "readSomeAt/store-call", fn.Decl.Pos(), "%s", why)
		return res
	}
	storeVar := fieldVar(c, "Backlog", "store")
	var args, noProg, after, retZero, open verdict
	sites := map[token.Pos]bool{}
	for _, t := range res.Traces {
		stores := t.Find(func(e *ring.Event) bool { return ring.IsFieldCall(e, "store", "readSomeAt") })
		for _, s := range stores {
			okArgs := len(res.Params) == 2 && len(s.Args) == 2 && s.Args[0].Key() == res.Params[0].Key() && s.Args[1].Key() == res.Params[1].Key()
			args.add(t, s.Pos, okArgs)
			open.add(t, s.Pos, t.FactsAt(s).NonNil(s.FieldNow(res.Recv, storeVar)))
		}
		// every Wait on the path: the store was tried since the previous wake-up and returned nothing
		ws := t.Find(func(e *ring.Event) bool { return ring.IsCondOp(e, "rwait", "Wait") })
		prev := -1
		for _, w := range ws {
			sites[w.Pos] = true
			var s *ring.Event
			for _, x := range stores {
				if x.Index < w.Index {
					s = x
				}
			}
			before := s != nil && s.Index > prev
			after.add(t, w.Pos, before)
			noProg.add(t, w.Pos, before && ring.NoProgress(t.FactsAt(w), s))
			prev = w.Index
		}
		if len(ws) == 0 {
			continue
		}
		// after the last Wait: the state is examined again, or (0, nil) goes back to ReadAt
		w := ws[len(ws)-1]
		again := false
		for _, x := range stores {
			if x.Index > w.Index {
				again = true
			}
		}
		if again || t.Exit == ring.ExitCut {
			continue
		}
		// nothing but the return of (0, nil) - or the shared state is read again
		// (then the other rules, which look at the field versions current at each
		// step, judge what follows: nothing read before the Wait counts any more)
		okRet := t.Normal() && len(t.Results) == 2 && t.Facts.IsZero(t.Results[0]) && t.Facts.IsNil(t.Results[1])
		reexamined := false
		for _, e := range t.Events[w.Index+1:] {
			switch e.Kind {
			case ring.EvRead:
				if e.Base != nil && res.Recv != nil && e.Base.Key() == res.Recv.Key() && !isSyncField(e) {
					reexamined = true
				}
			case ring.EvStore:
				okRet = false
			case ring.EvCall:
				if !e.Deferred && !isUnlock(e) {
					okRet = false
				}
			}
		}
		retZero.add(t, w.Pos, okRet || reexamined)
	}
	if !args.seen {
		c.Undecidedf("R2.wake", "readSomeAt/store-call", fn.Decl.Pos(), "no path of readSomeAt calls bl.store.readSomeAt")
		return res
	}
	args.report(c, "R2.wake", "readSomeAt/args", fn.Decl.Pos(), "readSomeAt hands its own buffer and offset to the store unchanged")
	c.Check("R2.wake", "readSomeAt/one-wait", fn.Decl.Pos(), len(sites) == 1,
		fmt.Sprintf("readSomeAt must contain exactly one rwait.Wait() (found %d): a read at the write position has to sleep until the writer broadcasts", len(sites)))
	if noProg.seen {
		noProg.report(c, "R2.wake", "readSomeAt/wait-only-without-progress", fn.Decl.Pos(), "Wait must be reachable only when the store returned no bytes and no error (o equals the write position)")
		after.report(c, "R2.wake", "readSomeAt/wait-after-store-attempt", fn.Decl.Pos(), "the store read must be attempted before sleeping")
		retZero.report(c, "R2.wake", "readSomeAt/return-after-wait", fn.Decl.Pos(), "after Wait the function returns (0, nil) so that ReadAt re-examines the state (including a close) under the lock")
	}
	open.report(c, "R2.wake", "readSomeAt/store-open-before-read", fn.Decl.Pos(), "the store is consulted only after it was found non-nil")
	// callers retry after a wake-up (needed only if readSomeAt can come back
	// empty-handed for a non-empty buffer, i.e. does not re-examine the state itself)
	if !ring.MayReturnIdle(res) {
		for _, f := range ring.CallsIn(c, pkg).Callers[fn.Obj.Origin()] {
			c.Okf("R2.wake", f.Name()+"/loops", f.Pos(), "readSomeAt never returns (0, nil) for a non-empty buffer: it re-examines the state itself after a wake-up")
		}
		return res
	}
	vs := ring.RetriesOnWake(c, pkg, fn.Obj)
	for _, v := range vs {
		key := v.Fn.Decl.Name.Name + "/loops"
		msg := "ReadAt must call readSomeAt again after a wake-up (which returns (0,nil)) unless the buffer is empty; otherwise a reader parked at the write position sees a spurious (0,nil)"
		switch v.Status {
		case 1:
			c.Okf("R2.wake", key, v.Fn.Decl.Pos(), "%s", msg)
		case 0:
			c.Check("R2.wake", key, v.Fn.Decl.Pos(), false, msg, v.Witness...)
		default:
			c.Undecidedf("R2.wake", key, v.Fn.Decl.Pos(), "%s: %s", msg, v.Why)
		}
	}
	if len(vs) == 0 {
		c.Undecidedf("R2.wake", "ReadAt/loops", fn.Decl.Pos(), "no caller of readSomeAt found")
	}
	return res
}

func r2close(c *core.Ctx, fn *core.Fn) {
	res := ring.RunSym(c, fn, &ring.Sym{})
	if ok, why := res.Usable(); !ok {
		c.Undecidedf("R2.wake", "CloseWithError/broadcast", fn.Decl.Pos(), "%s", why)
		return
	}
	storeVar := fieldVar(c, "Backlog", "store")
	var bcast, closes, published verdict
	for _, t := range res.Traces {
		if !t.Normal() {
			continue
		}
		// closing the store is what a woken reader's re-check depends on: it happens with
		// mu held, and the Broadcast sits in the same critical section or comes later
		if v := ring.PublishedUnderLock(t, res.Recv, "mu",
			func(e *ring.Event) bool { return ring.IsFieldCall(e, "store", "close") },
			func(e *ring.Event) bool { return ring.IsCondOp(e, "rwait", "Broadcast") }); v >= 0 {
			published.add(t, fn.Decl.Pos(), v == 1)
		}
		bcast.add(t, fn.Decl.Pos(), t.First(func(e *ring.Event) bool { return ring.IsCondOp(e, "rwait", "Broadcast") }) != nil)
		closed := t.First(func(e *ring.Event) bool { return ring.IsFieldCall(e, "store", "close") }) != nil
		closes.add(t, fn.Decl.Pos(), closed || t.Facts.IsNil(ring.FieldAtEntry(res.Recv, storeVar)))
	}
	bcast.report(c, "R2.wake", "CloseWithError/broadcast", fn.Decl.Pos(), "CloseWithError must Broadcast on rwait on every path: closing wakes every waiting reader")
	closes.report(c, "R2.wake", "CloseWithError/closes-store", fn.Decl.Pos(),
		"CloseWithError closes the store on every path where one exists: woken readers then fail with ErrClosedBacklog instead of sleeping again")
	published.report(c, "R2.wake", "CloseWithError/published-under-lock", fn.Decl.Pos(),
		"the store is closed with mu held, in the critical section of the Broadcast or before it: a reader woken before the store is closed re-checks, finds it open and sleeps for ever (lost wake-up)")
	// Close() must delegate here
	if cl := c.FuncOpt(pkg, "Backlog", "Close"); cl != nil {
		cres := ring.RunSym(c, cl, &ring.Sym{Opaque: func(f *types.Func) bool { return f.Origin() == fn.Obj.Origin() }})
		if ok, why := cres.Usable(); !ok {
			c.Undecidedf("R2.wake", "Close/delegates", cl.Decl.Pos(), "%s", why)
		} else {
			var del verdict
			for _, t := range cres.Traces {
				if !t.Normal() {
					continue
				}
				ev := t.First(func(e *ring.Event) bool { return ring.IsCallOf(e, fn.Obj) })
				del.add(t, cl.Decl.Pos(), ev != nil && len(ev.Args) == 1 && t.FactsAt(ev).IsNil(ev.Args[0]) && len(t.Results) == 1 && t.Results[0].IsResultOf(ev, 0))
			}
			del.report(c, "R2.wake", "Close/delegates", cl.Decl.Pos(), "Close() is CloseWithError(nil)")
		}
	}
}

func stores(c *core.Ctx, named *types.Named) {
	tn := named.Obj().Name()
	backing := ring.BackingField(named)
	tri := func(rule, key string, pos token.Pos, v int, why, msg string) {
		switch v {
		case 1:
			c.Okf(rule, key, pos, "%s", msg)
		case 0:
			c.Failf(rule, key, pos, "%s; %s", msg, why)
		default:
			c.Undecidedf(rule, key, pos, "%s: %s", msg, why)
		}
	}
	// readSomeAt
	if fn := c.Func(pkg, tn, "readSomeAt"); fn != nil {
		sres := ring.RunSym(c, fn, &ring.Sym{Opaque: ring.OpaqueOffsets})
		av, awhy, wv, wwhy := ring.TransferOnTraces(sres, ring.XferSpec{OffsetFn: "roffset", Read: true, Args: []string{"len:0", "field:size", "param:1", "field:wpos"}}, backing)
		tri("R5.sibling", tn+".readSomeAt/roffset-args", fn.Decl.Pos(), av, awhy, "calls roffset(len(b), p.size, rpos, p.wpos) with the arguments in parameter order")
		tri("R5.sibling", tn+".readSomeAt/transfer-window", fn.Decl.Pos(), wv, wwhy, "the bytes returned are exactly [offset, offset+maxlen) of the backing store, i.e. the bytes written at rpos onward")
		// no position write
		nv, nwhy := ring.NeverStores(sres, "wpos")
		tri("R5.sibling", tn+".readSomeAt/no-position-write", fn.Decl.Pos(), nv, nwhy, "a read never moves the write position")
		// R3 validity before data: wherever roffset is called or bytes are read, the
		// facts of the path imply rpos <= wpos and wpos <= rpos + size
		wpos := ring.FieldAtEntry(sres.Recv, ring.FieldOf(sres.Recv, "wpos"))
		size := ring.FieldAtEntry(sres.Recv, ring.FieldOf(sres.Recv, "size"))
		if wpos == nil || size == nil || len(sres.Params) != 2 {
			c.Undecidedf("R3.valid", tn+".readSomeAt/fields", fn.Decl.Pos(), "readSomeAt does not have fields wpos and size")
		} else {
			rpos := sres.Params[1]
			for _, fact := range []struct {
				key  string
				want *ring.Val
			}{{"beyond-write-position", ring.VCmp(token.LEQ, rpos, wpos)}, {"overwritten", ring.VCmp(token.LEQ, wpos, ring.VAdd(rpos, size))}} {
				offV, xferV := ring.HoldsBefore(sres, "roffset", fact.want)
				for _, p := range []struct {
					what string
					v    int
				}{{"storage read", xferV}, {"roffset call", offV}} {
					msg := "an offset that is " + fact.key + " must be rejected before any byte is read: otherwise other bytes than those written at that offset are returned"
					tri("R3.valid", tn+".readSomeAt/"+fact.key+"/"+p.what, fn.Decl.Pos(), p.v, "the facts established on a path to the "+p.what+" do not imply it", msg)
				}
			}
		}
		// the rejection reports ErrInvalidOffset
		if ok, why := sres.Usable(); !ok {
			c.Undecidedf("R3.valid", tn+".readSomeAt/invalid-offset-error", fn.Decl.Pos(), "%s", why)
		} else {
			inv := false
			for _, t := range sres.Traces {
				if t.Normal() && len(t.Results) == 2 && t.Results[1].Unwrap().IsGlobal("backlog", "ErrInvalidOffset") && t.Facts.IsZero(t.Results[0]) {
					inv = true
				}
			}
			c.Check("R3.valid", tn+".readSomeAt/invalid-offset-error", fn.Decl.Pos(), inv, "the rejection reports ErrInvalidOffset")
		}
		v, why := ring.ClosedGuard(sres, backing, "backlog", "ErrClosedBacklog")
		tri("R3.valid", tn+".readSomeAt/closed-store", fn.Decl.Pos(), v, why, "a nil backing store yields ErrClosedBacklog first")
		switch v, why := ring.ZeroWindow(sres, "roffset"); v {
		case 1:
			c.Okf("R5.sibling", tn+".readSomeAt/empty-returns-zero", fn.Decl.Pos(), "nothing to read yields (0, nil)")
		case 0:
			c.Failf("R5.sibling", tn+".readSomeAt/empty-returns-zero", fn.Decl.Pos(), "nothing to read at the write position yields (0, nil) so that the caller waits; %s", why)
		default:
			c.Undecidedf("R5.sibling", tn+".readSomeAt/empty-returns-zero", fn.Decl.Pos(), "nothing to read at the write position yields (0, nil) so that the caller waits: %s", why)
		}
	}
	if fn := c.Func(pkg, tn, "writeSome"); fn != nil {
		sres := ring.RunSym(c, fn, &ring.Sym{Opaque: ring.OpaqueOffsets})
		xav, xawhy, wv, wwhy := ring.TransferOnTraces(sres, ring.XferSpec{OffsetFn: "woffset", Read: false, Args: []string{"len:0", "field:size", "field:wpos"}}, backing)
		tri("R5.sibling", tn+".writeSome/woffset-args", fn.Decl.Pos(), xav, xawhy, "calls woffset(len(b), p.size, p.wpos) with the arguments in parameter order")
		tri("R5.sibling", tn+".writeSome/transfer-window", fn.Decl.Pos(), wv, wwhy, "the bytes go to exactly [offset, offset+maxlen) of the backing store from the front of the caller's buffer")
		av, awhy := ring.WriteEndState(sres, "wpos")
		tri("R5.sibling", tn+".writeSome/advance-wpos", fn.Decl.Pos(), av, awhy, "wpos advances by exactly the number of bytes stored (absolute offsets stay aligned with ring positions)")
		v, why := ring.ClosedGuard(sres, backing, "backlog", "ErrClosedBacklog")
		tri("R5.sibling", tn+".writeSome/closed-store", fn.Decl.Pos(), v, why, "a nil backing store yields ErrClosedBacklog")
	}
	if fn := c.Func(pkg, tn, "dataRange"); fn != nil {
		dataRange(c, tn, fn, backing)
	}
	if fn := c.Func(pkg, tn, "close"); fn != nil {
		sres := ring.RunSym(c, fn, &ring.Sym{})
		v, why := ring.DropsBacking(sres, backing)
		tri("R5.sibling", tn+".close/drops-store", fn.Decl.Pos(), v, why, "close drops the backing store so that readers woken by the close fail with ErrClosedBacklog")
	}
}

// dataRange checks R4 for one store on the traces of the method (helpers
// inlined): every path returns (0, 0) for a closed store, (wpos-size, wpos)
// where wpos >= size has been established, or (0, wpos) where wpos < size has.
func dataRange(c *core.Ctx, tn string, fn *core.Fn, backing *types.Var) {
	key := tn + ".dataRange"
	res := ring.RunSym(c, fn, &ring.Sym{})
	if ok, why := res.Usable(); !ok {
		c.Undecidedf("R4.range", key+"/returns", fn.Decl.Pos(), "%s", why)
		return
	}
	wpos := ring.FieldAtEntry(res.Recv, ring.FieldOf(res.Recv, "wpos"))
	size := ring.FieldAtEntry(res.Recv, ring.FieldOf(res.Recv, "size"))
	if wpos == nil || size == nil {
		c.Undecidedf("R4.range", key+"/returns", fn.Decl.Pos(), "fields wpos/size not found")
		return
	}
	var b0 *ring.Val
	if backing != nil {
		b0 = ring.FieldAtEntry(res.Recv, backing)
	}
	nFull, nPart := 0, 0
	other, wrong := "", ""
	var guards verdict
	for _, t := range res.Traces {
		if !t.Normal() {
			continue
		}
		if len(t.Results) != 2 {
			other = "unexpected result count"
			continue
		}
		a, b := t.Results[0], t.Results[1]
		switch {
		case b0 != nil && t.Facts.IsNil(b0) && t.Facts.IsZero(a) && t.Facts.IsZero(b):
			// closed store
		case ring.LinEqual(a, ring.VSub(wpos, size)) && ring.LinEqual(b, wpos):
			nFull++
			guards.add(t, t.RetPos, t.Facts.Holds(ring.VCmp(token.GEQ, wpos, size)))
		case t.Facts.IsZero(a) && ring.LinEqual(b, wpos):
			nPart++
			// at wpos == size both forms agree (wpos-size == 0)
			guards.add(t, t.RetPos, t.Facts.Holds(ring.VCmp(token.LEQ, wpos, size)))
		default:
			d := "(" + a.Key() + ", " + b.Key() + ")"
			if ring.OnlyFields(a) && ring.OnlyFields(b) {
				wrong = d
			} else {
				other = d
			}
		}
	}
	switch {
	case wrong != "":
		c.Failf("R4.range", key+"/returns", fn.Decl.Pos(), "dataRange must yield (wpos-size, wpos) once wpos >= size and (0, wpos) before: the most recent min(total, capacity) bytes; a path returns %s", wrong)
	case other != "":
		c.Undecidedf("R4.range", key+"/returns", fn.Decl.Pos(), "dataRange has a return this rule does not recognise: %s", other)
	case nFull == 0 || nPart == 0:
		c.Check("R4.range", key+"/returns", fn.Decl.Pos(), false, "dataRange must yield (wpos-size, wpos) once wpos >= size and (0, wpos) before: the most recent min(total, capacity) bytes")
	default:
		c.Okf("R4.range", key+"/returns", fn.Decl.Pos(), "dataRange yields (wpos-size, wpos) and (0, wpos)")
		guards.report(c, "R4.range", key+"/guards", fn.Decl.Pos(), "(wpos-size, wpos) only when wpos >= size (otherwise the subtraction wraps around), (0, wpos) only while wpos <= size (afterwards the oldest bytes are gone)")
	}
}

func reader(c *core.Ctx) {
	dr := c.Func(pkg, "Backlog", "DataRange")
	if fn := c.Func(pkg, "Reader", "IsValid"); fn != nil && dr != nil {
		isValid(c, fn, dr)
	}
	if fn := c.Func(pkg, "Reader", "Read"); fn != nil {
		readerRead(c, fn)
	}
	if fn := c.Func(pkg, "Backlog", "NewReader"); fn != nil {
		newReader(c, fn)
	}
	if dr != nil {
		forwards(c, dr)
	}
}

// isValid: the truth table of Reader.IsValid over the order of the reader's
// position relative to the two ends of the data range (each of <, ==, >) and
// err == nil / != nil: 18 cases, each decided by the path engine with the case
// injected as facts after the DataRange call. Valid exactly when err == nil
// and rpos <= seek <= wpos.
func isValid(c *core.Ctx, fn, dr *core.Fn) {
	seekVar := fieldVar(c, "Reader", "seek")
	rel := []token.Token{token.LSS, token.EQL, token.GTR}
	okFormula, okClosed := true, true
	undec, wrongCase := "", ""
	for _, errNil := range []bool{true, false} {
		for _, lo := range rel { // rpos <lo> seek
			for _, hi := range rel { // seek <hi> wpos
				errNil, lo, hi := errNil, lo, hi
				found := false
				res := ring.RunSym(c, fn, &ring.Sym{
					Opaque: func(f *types.Func) bool { return f.Origin() == dr.Obj.Origin() },
					OnCall: func(st *ring.State, ev *ring.Event) {
						if !ring.IsCallOf(ev, dr.Obj) || len(ev.Results) != 3 {
							return
						}
						found = true
						seek := ev.FieldNow(ringRecv(st), seekVar)
						st.Assume(ring.VCmp(token.EQL, ev.Results[2], ring.VNilV()), errNil)
						st.Assume(ring.VCmp(lo, ev.Results[0], seek), true)
						st.Assume(ring.VCmp(hi, seek, ev.Results[1]), true)
					},
				})
				if ok, why := res.Usable(); !ok {
					undec = why
					continue
				}
				if !found {
					undec = "IsValid does not obtain (rpos, wpos, err) from Backlog.DataRange()"
					continue
				}
				want := errNil && lo != token.GTR && hi != token.GTR
				for _, t := range res.Traces {
					if !t.Normal() || len(t.Results) != 1 {
						continue
					}
					v, known := t.Facts.Decide(t.Results[0])
					if !known {
						undec = "IsValid depends on something else than err == nil, rpos <= seek and seek <= wpos: " + t.Results[0].Key()
						continue
					}
					if v != want {
						if !errNil {
							okClosed = false
						} else {
							okFormula = false
							wrongCase = fmt.Sprintf("rpos %s seek, seek %s wpos -> %v", lo, hi, v)
						}
					}
				}
			}
		}
	}
	if (!okFormula || !okClosed) && unsignedSub(fn) {
		// the engine's integer reasoning ignores wrap-around; with an unsigned
		// subtraction in the predicate (`seek-rpos <= wpos-rpos`) its answer is not reliable
		c.Undecidedf("R4.range", "Reader.IsValid/formula", fn.Decl.Pos(), "IsValid subtracts unsigned values; the comparison may rely on wrap-around, which the path engine does not model")
		return
	}
	switch {
	case !okFormula:
		c.Failf("R4.range", "Reader.IsValid/formula", fn.Decl.Pos(), "a reader is valid exactly while rpos <= seek <= wpos of the current data range; IsValid answers differently for %s (a reader exactly at a bound is judged wrongly)", wrongCase)
	case undec != "" && okClosed:
		c.Undecidedf("R4.range", "Reader.IsValid/formula", fn.Decl.Pos(), "%s", undec)
	default:
		c.Check("R4.range", "Reader.IsValid/formula", fn.Decl.Pos(), okFormula, "a reader is valid exactly while rpos <= seek <= wpos of the current data range")
		c.Check("R4.range", "Reader.IsValid/closed-is-invalid", fn.Decl.Pos(), okClosed, "a closed backlog makes every reader invalid")
	}
}

// unsignedSub: the body (helpers not followed) subtracts unsigned operands.
func unsignedSub(fn *core.Fn) bool {
	info := fn.Pkg.TypesInfo
	found := false
	ast.Inspect(fn.Decl.Body, func(n ast.Node) bool {
		if be, ok := n.(*ast.BinaryExpr); ok && be.Op == token.SUB {
			if t := info.TypeOf(be); t != nil {
				if b, ok := t.Underlying().(*types.Basic); ok && b.Info()&types.IsUnsigned != 0 {
					found = true
				}
			}
		}
		return true
	})
	return found
}

// ringRecv returns the receiver leaf of the function being walked.
func ringRecv(st *ring.State) *ring.Val { return st.Recv() }

// readerRead: Reader.Read reads at its own position, advances it by exactly
// the count returned and returns that count and error.
func readerRead(c *core.Ctx, fn *core.Fn) {
	ra := c.Func(pkg, "Backlog", "ReadAt")
	if ra == nil {
		return
	}
	res := ring.RunSym(c, fn, &ring.Sym{Opaque: func(f *types.Func) bool { return f.Origin() == ra.Obj.Origin() }})
	if ok, why := res.Usable(); !ok {
		c.Undecidedf("R4.range", "Reader.Read/advance", fn.Decl.Pos(), "%s", why)
		return
	}
	seekVar := fieldVar(c, "Reader", "seek")
	seek0 := ring.FieldAtEntry(res.Recv, seekVar)
	var adv verdict
	unknown := ""
	for _, t := range res.Traces {
		if !t.Normal() {
			continue
		}
		calls := t.Find(func(e *ring.Event) bool { return ring.IsCallOf(e, ra.Obj) })
		if len(calls) != 1 || len(calls[0].Results) != 2 || len(calls[0].Args) != 2 || len(t.Results) != 2 || len(res.Params) != 1 {
			unknown = "a path of Reader.Read does not call Backlog.ReadAt exactly once"
			continue
		}
		ev := calls[0]
		end := t.End.FieldNow(res.Recv, seekVar)
		ok := ev.Args[0].Key() == res.Params[0].Key() && ring.LinEqual(ev.Args[1], seek0) &&
			ring.LinEqual(end, ring.VAdd(seek0, ev.Results[0])) &&
			t.Results[0].IsResultOf(ev, 0) && t.Results[1].Unwrap().IsResultOf(ev, 1)
		adv.add(t, fn.Decl.Pos(), ok)
	}
	if adv.bad == nil && unknown != "" {
		c.Undecidedf("R4.range", "Reader.Read/advance", fn.Decl.Pos(), "%s", unknown)
		return
	}
	adv.report(c, "R4.range", "Reader.Read/advance", fn.Decl.Pos(), "Reader.Read reads at its own position, advances it by exactly the count returned and returns that count")
}

// newReader: the Reader handed out belongs to this backlog and starts at the
// write position (result #1 of the store's dataRange).
func newReader(c *core.Ctx, fn *core.Fn) {
	res := ring.RunSym(c, fn, &ring.Sym{})
	if ok, why := res.Usable(); !ok {
		c.Undecidedf("R4.range", "NewReader/starts-at-wpos", fn.Decl.Pos(), "%s", why)
		return
	}
	blVar, seekVar := fieldVar(c, "Reader", "bl"), fieldVar(c, "Reader", "seek")
	var start verdict
	unknown := ""
	for _, t := range res.Traces {
		if !t.Normal() || len(t.Results) != 2 {
			continue
		}
		r := t.Results[0]
		if t.Facts.IsNil(r) {
			continue // an error path
		}
		obj := ring.Pointee(r)
		if obj == nil {
			unknown = "cannot see the Reader that is returned: " + r.Key()
			continue
		}
		seek := t.End.FieldNow(obj, seekVar)
		bl := t.End.FieldNow(obj, blVar)
		dr := t.Last(func(e *ring.Event) bool { return ring.IsFieldCall(e, "store", "dataRange") })
		switch {
		case dr == nil:
			unknown = "the store's dataRange is not consulted"
		case seek.IsResultOf(dr, 1) && bl.Key() == res.Recv.Key() && t.Facts.IsNil(t.Results[1]):
			start.add(t, fn.Decl.Pos(), true)
		case seek.IsResultOf(dr, 0) || bl.Key() != res.Recv.Key() || !t.Facts.IsNil(t.Results[1]):
			start.add(t, fn.Decl.Pos(), false)
		default:
			unknown = "the new reader starts at " + seek.Key()
		}
	}
	if start.bad == nil && (unknown != "" || !start.seen) {
		if unknown == "" {
			unknown = "no path returns a Reader"
		}
		c.Undecidedf("R4.range", "NewReader/starts-at-wpos", fn.Decl.Pos(), "%s", unknown)
		return
	}
	start.report(c, "R4.range", "NewReader/starts-at-wpos", fn.Decl.Pos(), "a new reader starts at the current write position of this backlog")
}

// forwards: Backlog.DataRange reports the store's range in (rpos, wpos) order.
func forwards(c *core.Ctx, fn *core.Fn) {
	res := ring.RunSym(c, fn, &ring.Sym{})
	if ok, why := res.Usable(); !ok {
		c.Undecidedf("R4.range", "Backlog.DataRange/forwards", fn.Decl.Pos(), "%s", why)
		return
	}
	var fw verdict
	unknown := ""
	for _, t := range res.Traces {
		if !t.Normal() || len(t.Results) != 3 || !t.Facts.IsNil(t.Results[2]) {
			continue
		}
		dr := t.Last(func(e *ring.Event) bool { return ring.IsFieldCall(e, "store", "dataRange") })
		switch {
		case dr == nil:
			unknown = "a successful path does not consult the store's dataRange"
		case t.Results[0].IsResultOf(dr, 0) && t.Results[1].IsResultOf(dr, 1):
			fw.add(t, fn.Decl.Pos(), true)
		case t.Results[0].IsResultOf(dr, 1) || t.Results[1].IsResultOf(dr, 0):
			fw.add(t, fn.Decl.Pos(), false)
		default:
			unknown = "returns (" + t.Results[0].Key() + ", " + t.Results[1].Key() + ")"
		}
	}
	if fw.bad == nil && (unknown != "" || !fw.seen) {
		if unknown == "" {
			unknown = "no successful path"
		}
		c.Undecidedf("R4.range", "Backlog.DataRange/forwards", fn.Decl.Pos(), "%s", unknown)
		return
	}
	fw.report(c, "R4.range", "Backlog.DataRange/forwards", fn.Decl.Pos(), "DataRange reports the store's range in (rpos, wpos) order")
}
