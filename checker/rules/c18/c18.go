// Package c18 decides the structural clauses of property C18 (backlog ring).
package c18

import (
	"fmt"
	"go/ast"
	"go/token"
	"go/types"

	"golang.org/x/tools/go/cfg"

	"rscheck/cfgq"
	"rscheck/core"
	"rscheck/driver"
	"rscheck/flow"
	"rscheck/lin"
	"rscheck/pat"
	"rscheck/rules/ring"
)

const pkg = "pkg/libs/io/backlog"

var Def = driver.PropDef{
	ID: "C18",
	Explanation: "Structural necessary conditions of the backlog ring, checked on every path of pkg/libs/io/backlog: " +
		"R1 lock guard table (err, store, rwait only under Backlog.mu; cond built over &mu; writeSome only under wl); " +
		"R2 wake-ups (writeSome broadcasts on every path with progress or error; CloseWithError broadcasts on every path and closes the store; the only Wait is the no-progress tail of readSomeAt, followed by return (0,nil), and ReadAt loops); " +
		"R3 validity before data (both stores reject rpos > wpos and rpos+size < wpos with ErrInvalidOffset before any storage read; a closed store yields ErrClosedBacklog); " +
		"R4 range table (dataRange = (wpos-size, wpos) once wpos >= size else (0, wpos); Reader.IsValid is rpos <= seek <= wpos; Reader.Read advances seek by the count returned; NewReader starts at wpos); " +
		"R5 mem/file sibling skeleton (roffset/woffset arguments in parameter order, transfer window, wpos += n on write, no position change on read); " +
		"R6 ring index clamp form (offset = position % size, maxlen only lowered to the ring bounds).",
	NotDecided: "byte equality at an offset across wrap-arounds (value-level), arithmetic correctness of the bounds beyond the clamp-term comparison, all interleavings.",
	Trusted:    []string{"go/parser, go/types, go/cfg (x/tools v0.29.0)", "sync.Mutex / sync.Cond semantics", "copy, os.File.ReadAt/WriteAt semantics"},
	Run:        Run,
}

func recvType(f *types.Func) types.Type {
	sig, _ := f.Type().(*types.Signature)
	if sig == nil || sig.Recv() == nil {
		return nil
	}
	return sig.Recv().Type()
}

// condCalls lists the sync.Cond fields on which node n executes one of methods.
func condCalls(info *types.Info, n ast.Node, methods ...string) []string {
	return ring.CondOps(theCtx, info, n, methods...)
}

func has(l []string, s string) bool {
	for _, x := range l {
		if x == s {
			return true
		}
	}
	return false
}

func noProgressEdge(g *cfgq.Graph, info *types.Info, b *cfg.Block, succ int, binds pat.Binds) bool {
	gotN, gotErr := false, false
	for _, f := range g.EdgeFacts(b, succ) {
		if pat.Expr("_n != 0").Match(info, f.Expr, binds) != nil && !f.Val || pat.Expr("_n == 0").Match(info, f.Expr, binds) != nil && f.Val {
			gotN = true
		}
		if pat.Expr("_err != nil").Match(info, f.Expr, binds) != nil && !f.Val || pat.Expr("_err == nil").Match(info, f.Expr, binds) != nil && f.Val {
			gotErr = true
		}
	}
	return gotN && gotErr
}

var theCtx *core.Ctx

func Run(c *core.Ctx) {
	theCtx = c
	pk := c.Pkg(pkg)
	if pk == nil {
		c.Undecidedf("anchor", pkg, token.NoPos, "package not loaded")
		return
	}
	info := pk.TypesInfo

	// ---- R1
	n := ring.GuardTable(c, "R1.guard", pkg, "Backlog", "mu", []string{"err", "store", "rwait"})
	if n < 10 {
		c.Undecidedf("instances", "R1.guard", token.NoPos, "only %d guarded accesses found, 20+ confirmed by hand", n)
	}
	ring.CondOver(c, "R1.cond", pkg, "Backlog", "rwait", "mu")
	writeLock(c)

	// ---- R2
	readSomeAt := c.Func(pkg, "Backlog", "readSomeAt")
	writeSome := c.Func(pkg, "Backlog", "writeSome")
	closeFn := c.Func(pkg, "Backlog", "CloseWithError")
	if readSomeAt == nil || writeSome == nil || closeFn == nil {
		return
	}
	r2write(c, writeSome)
	r2read(c, readSomeAt)
	r2close(c, closeFn)
	// no other Wait in the package
	for _, b := range ring.Bodies(c, pkg) {
		if b.Lit == nil && b.Decl == readSomeAt.Decl {
			continue
		}
		var root ast.Node = b.Decl.Body
		if b.Lit != nil {
			root = b.Lit
		}
		core.Inspect(root, func(m ast.Node) bool {
			if call, ok := m.(*ast.CallExpr); ok {
				if f := core.CalleeFunc(info, call); f != nil && f.Name() == "Wait" && core.NamedTypePath(recvType(f)) == "sync.Cond" {
					c.Failf("R2.wake", "extra-wait/"+b.Name, call.Pos(), "sync.Cond.Wait outside readSomeAt: a sleeper the write/close broadcasts are not designed for")
				}
			}
			return true
		})
	}

	// ---- R3, R4, R5
	impls := ring.ImplementersOf(c, pkg, "buffer")
	if len(impls) < 2 {
		c.Undecidedf("R5.sibling", "implementations", token.NoPos, "expected the memory and file implementations of buffer, found %d", len(impls))
	}
	for _, t := range impls {
		stores(c, t.Obj().Name())
	}
	reader(c)

	// ---- R6
	ring.ClampFlow(c, "R6.ring", c.Func(pkg, "", "roffset"), ring.ClampSpec{
		Params: []string{"blen", "size", "rpos", "wpos"}, Offset: "rpos",
		Clamps: []string{"_wpos - _rpos", "_size - _offset"},
	})
	ring.ClampFlow(c, "R6.ring", c.Func(pkg, "", "woffset"), ring.ClampSpec{
		Params: []string{"blen", "size", "wpos"}, Offset: "wpos",
		Clamps: []string{"_size", "_size - _offset"},
	})
}

func writeLock(c *core.Ctx) {
	fn := c.Func(pkg, "Backlog", "Write")
	in := c.Func(pkg, "Backlog", "writeSome")
	if fn == nil || in == nil {
		return
	}
	info := fn.Pkg.TypesInfo
	g := cfgq.Of(c.Program, fn)
	isCall := func(method string) func(ast.Node) bool {
		return func(n ast.Node) bool {
			if _, ok := n.(*ast.DeferStmt); ok {
				return false
			}
			for _, call := range cfgq.ExecCalls(n) {
				if sel, ok := ast.Unparen(call.Fun).(*ast.SelectorExpr); ok && sel.Sel.Name == method && core.IsFieldNamed(info, sel.X, "Backlog", "wl") {
					return true
				}
			}
			return false
		}
	}
	held := g.Held(isCall("Lock"), isCall("Unlock"))
	k := 0
	for _, p := range g.Points(g.HasCall(func(call *ast.CallExpr, callee types.Object) bool { return callee == in.Obj })) {
		k++
		c.Check("R1.side", "Write/wl", p.Node().Pos(), held[p.Node()], "Write must call writeSome with wl held for the whole transfer (concurrent writers would interleave their chunks)")
	}
	if k == 0 {
		c.Undecidedf("R1.side", "Write/wl", fn.Decl.Pos(), "Write does not call writeSome")
	}
	for _, b := range ring.Bodies(c, pkg) {
		if b.Decl == fn.Decl {
			continue
		}
		var root ast.Node = b.Decl.Body
		if b.Lit != nil {
			root = b.Lit
		}
		core.Inspect(root, func(m ast.Node) bool {
			if call, ok := m.(*ast.CallExpr); ok && core.CalleeFunc(info, call) == in.Obj {
				c.Failf("R1.side", "writeSome/foreign-caller/"+b.Name, call.Pos(), "writeSome is called outside Write, i.e. without wl")
			}
			return true
		})
	}
}

func storeCall(fn *core.Fn, src string) (*ast.AssignStmt, pat.Binds) {
	n, b := pat.Stmt(src).Find(fn.Pkg.TypesInfo, fn.Decl.Body, nil)
	if n == nil {
		return nil, nil
	}
	return n.(*ast.AssignStmt), b
}

func r2write(c *core.Ctx, fn *core.Fn) {
	info := fn.Pkg.TypesInfo
	g := cfgq.Of(c.Program, fn)
	as, binds := storeCall(fn, "_n, _err = _p.store.writeSome(_b)")
	if as == nil {
		c.Undecidedf("R2.wake", "writeSome/store-call", fn.Decl.Pos(), "cannot find `n, err := bl.store.writeSome(b)`")
		return
	}
	sp, _ := g.Find(as)
	bcast := func(n ast.Node) bool { return has(condCalls(info, n, "Broadcast"), "rwait") }
	w := g.Path(cfgq.Query{From: sp, After: true, Avoid: bcast, TargetExit: cfgq.NormalExit,
		AvoidEdge: func(b *cfg.Block, s int) bool { return noProgressEdge(g, info, b, s, binds) }})
	c.Check("R2.wake", "writeSome/broadcast-on-progress", as.Pos(), w == nil,
		"every path on which the store accepted bytes or failed must call rwait.Broadcast() before returning: every reader waiting at the write position has to be woken (Signal would wake only one)", w...)
	// closed / error tests before the store write
	for _, fact := range []struct{ key, yes, no string }{
		{"store-open", "_p.store != nil", "_p.store == nil"},
		{"no-error", "_p.err == nil", "_p.err != nil"},
	} {
		fact := fact
		ok, w := g.OnlyViaFact(sp, func(f cfgq.Fact) bool {
			return pat.Expr(fact.yes).Match(info, f.Expr, nil) != nil && f.Val || pat.Expr(fact.no).Match(info, f.Expr, nil) != nil && !f.Val
		})
		c.Check("R2.wake", "writeSome/"+fact.key+"-before-store", as.Pos(), ok, "the store write is reachable only after the closed/error state was tested", w...)
	}
}

func r2read(c *core.Ctx, fn *core.Fn) {
	info := fn.Pkg.TypesInfo
	g := cfgq.Of(c.Program, fn)
	as, binds := storeCall(fn, "_n, _err = _p.store.readSomeAt(_b, _rpos)")
	if as == nil {
		c.Undecidedf("R2.wake", "readSomeAt/store-call", fn.Decl.Pos(), "cannot find `n, err := bl.store.readSomeAt(b, rpos)`")
		return
	}
	// the offset passed down is the caller's offset parameter
	var params []*ast.Ident
	for _, f := range fn.Decl.Type.Params.List {
		params = append(params, f.Names...)
	}
	if len(params) == 2 {
		c.Check("R2.wake", "readSomeAt/args", as.Pos(), pat.Same(info, binds["_b"], params[0]) && pat.Same(info, binds["_rpos"], params[1]),
			"readSomeAt hands its own buffer and offset to the store unchanged")
	}
	waits := g.Points(func(n ast.Node) bool { return has(condCalls(info, n, "Wait"), "rwait") })
	c.Check("R2.wake", "readSomeAt/one-wait", fn.Decl.Pos(), len(waits) == 1,
		fmt.Sprintf("readSomeAt must contain exactly one rwait.Wait() (found %d): a read at the write position has to sleep until the writer broadcasts", len(waits)))
	for _, wp := range waits {
		wn := wp.Node()
		w1 := g.Path(cfgq.Query{From: g.Entry(), Target: func(n ast.Node) bool { return n == wn },
			AvoidEdge: func(b *cfg.Block, s int) bool { return noProgressEdge(g, info, b, s, binds) }})
		c.Check("R2.wake", "readSomeAt/wait-only-without-progress", wn.Pos(), w1 == nil,
			"Wait must be reachable only when the store returned no bytes and no error (o equals the write position)", w1...)
		dom, w2 := g.Dominated(wp, func(n ast.Node) bool { return n == ast.Node(as) })
		c.Check("R2.wake", "readSomeAt/wait-after-store-attempt", wn.Pos(), dom, "the store read must be attempted before sleeping", w2...)
		c.Check("R2.wake", "readSomeAt/return-after-wait", wn.Pos(), ring.AfterWaitReturnsZero(info, wp, binds),
			"after Wait the function returns (0, nil) so that ReadAt re-examines the state (including a close) under the lock")
	}
	// closed backlog: store == nil => ErrClosedBacklog before anything else
	sp, _ := g.Find(as)
	ok, w := g.OnlyViaFact(sp, func(f cfgq.Fact) bool {
		return pat.Expr("_p.store != nil").Match(info, f.Expr, nil) != nil && f.Val || pat.Expr("_p.store == nil").Match(info, f.Expr, nil) != nil && !f.Val
	})
	c.Check("R2.wake", "readSomeAt/store-open-before-read", as.Pos(), ok, "the store is consulted only after it was found non-nil", w...)
	// ReadAt retries after a wake-up
	if ra := c.Func(pkg, "Backlog", "ReadAt"); ra != nil {
		var bufObj types.Object
		if ps := ra.Decl.Type.Params; ps != nil && len(ps.List) > 0 && len(ps.List[0].Names) > 0 {
			bufObj = info.Defs[ps.List[0].Names[0]]
		}
		n, w := ring.RetriesOnWake(cfgq.Of(c.Program, ra), fn.Obj, bufObj)
		if n == 0 {
			c.Undecidedf("R2.wake", "ReadAt/loops", ra.Decl.Pos(), "ReadAt does not call readSomeAt")
		} else {
			c.Check("R2.wake", "ReadAt/loops", ra.Decl.Pos(), w == nil, "ReadAt must call readSomeAt again after a wake-up (which returns (0,nil)) unless the buffer is empty; otherwise a reader parked at the write position sees a spurious (0,nil)", w...)
		}
	}
}

func r2close(c *core.Ctx, fn *core.Fn) {
	info := fn.Pkg.TypesInfo
	g := cfgq.Of(c.Program, fn)
	ok, w := g.MustPassToExit(g.Entry(), false, func(n ast.Node) bool { return has(condCalls(info, n, "Broadcast"), "rwait") })
	c.Check("R2.wake", "CloseWithError/broadcast", fn.Decl.Pos(), ok, "CloseWithError must Broadcast on rwait on every path: closing wakes every waiting reader", w...)
	// the store is closed whenever it is non-nil
	closeCall := g.HasCall(func(call *ast.CallExpr, _ types.Object) bool {
		return pat.Expr("_p.store.close()").Match(info, call, nil) != nil
	})
	w2 := g.Path(cfgq.Query{From: g.Entry(), Avoid: closeCall, TargetExit: cfgq.NormalExit,
		AvoidEdge: func(b *cfg.Block, s int) bool {
			return g.Establishes(b, s, func(f cfgq.Fact) bool {
				return pat.Expr("_p.store == nil").Match(info, f.Expr, nil) != nil && f.Val || pat.Expr("_p.store != nil").Match(info, f.Expr, nil) != nil && !f.Val
			})
		}})
	c.Check("R2.wake", "CloseWithError/closes-store", fn.Decl.Pos(), w2 == nil,
		"CloseWithError closes the store on every path where one exists: woken readers then fail with ErrClosedBacklog instead of sleeping again", w2...)
	// broadcast happens with the close already decided: Broadcast precedes or follows is irrelevant under the lock; but
	// Close() must delegate here
	if cl := c.FuncOpt(pkg, "Backlog", "Close"); cl != nil {
		n, _ := pat.Stmt("return _p.CloseWithError(nil)").Find(info, cl.Decl.Body, nil)
		c.Check("R2.wake", "Close/delegates", cl.Decl.Pos(), n != nil, "Close() is CloseWithError(nil)")
	}
}

func stores(c *core.Ctx, tn string) {
	// readSomeAt
	if fn := c.Func(pkg, tn, "readSomeAt"); fn != nil {
		info := fn.Pkg.TypesInfo
		body := fn.Decl.Body
		var params []*ast.Ident
		for _, f := range fn.Decl.Type.Params.List {
			params = append(params, f.Names...)
		}
		if len(params) != 2 {
			c.Undecidedf("R5.sibling", tn+".readSomeAt/params", fn.Decl.Pos(), "expected (b, rpos)")
			return
		}
		res := ring.Transfer(c, fn, ring.TransferSpec{Rule: "R5.sibling", Key: tn + ".readSomeAt", OffsetFn: "roffset",
			Args: []string{"len(_b)", "_p.size", "_" + params[1].Name, "_p.wpos"}, ArgsDesc: "roffset(len(b), p.size, rpos, p.wpos)", Read: true,
			ArgsKey: "roffset-args", WindowKey: "transfer-window",
			WindowMsg: "the bytes returned are exactly [offset, offset+maxlen) of the backing store, i.e. the bytes written at rpos onward"})
		// no position write
		c.Check("R5.sibling", tn+".readSomeAt/no-position-write", fn.Decl.Pos(), len(ring.FrozenField(c, fn, "wpos")) == 0, "a read never moves the write position")
		// R3 validity before data
		if res != nil && res.Transfer != nil && res.Offset != nil {
			recv := res.Binds["_p"]
			rpos := ast.Expr(params[1])
			sel := func(field string) ast.Expr {
				var hit ast.Expr
				core.Inspect(body, func(n ast.Node) bool {
					if s, ok := n.(*ast.SelectorExpr); ok && hit == nil && s.Sel.Name == field && pat.Same(info, s.X, recv) {
						hit = s
					}
					return true
				})
				return hit
			}
			wpos, size := sel("wpos"), sel("size")
			if wpos == nil || size == nil {
				c.Undecidedf("R3.valid", tn+".readSomeAt/fields", fn.Decl.Pos(), "readSomeAt does not mention p.wpos and p.size")
			} else {
				notBeyond := lin.Combo(info, 0, 1, rpos, -1, wpos)                // rpos - wpos <= 0
				notOverwritten := lin.Combo(info, 0, 1, wpos, -1, rpos, -1, size) // wpos - rpos - size <= 0
				for _, p := range []struct {
					what string
					site flow.Site
				}{{"storage read", *res.Transfer}, {"roffset call", res.Offset.Site}} {
					for _, fact := range []struct {
						key  string
						form lin.Form
					}{{"beyond-write-position", notBeyond}, {"overwritten", notOverwritten}} {
						fact := fact
						okv := res.E.Under(p.site, func(f cfgq.Fact) bool {
							cmp, ok := lin.CmpOf(info, f.Expr, f.Val)
							return ok && cmp.Is(fact.form, token.LEQ)
						})
						c.Check("R3.valid", tn+".readSomeAt/"+fact.key+"/"+p.what, p.site.At.Node().Pos(), okv,
							"an offset that is "+fact.key+" must be rejected before any byte is read: otherwise other bytes than those written at that offset are returned")
					}
				}
			}
		}
		inv := false
		core.Inspect(body, func(n ast.Node) bool {
			if ret, ok := n.(*ast.ReturnStmt); ok && len(ret.Results) == 2 {
				core.Inspect(ret.Results[1], func(m ast.Node) bool {
					if id, ok := m.(*ast.Ident); ok && id.Name == "ErrInvalidOffset" {
						inv = true
					}
					return true
				})
			}
			return true
		})
		if !inv {
			// the rejection may live in a helper
			for _, h := range helpersOf(c, fn) {
				core.Inspect(h.Decl.Body, func(m ast.Node) bool {
					if id, ok := m.(*ast.Ident); ok && id.Name == "ErrInvalidOffset" {
						inv = true
					}
					return true
				})
			}
		}
		c.Check("R3.valid", tn+".readSomeAt/invalid-offset-error", fn.Decl.Pos(), inv, "the rejection reports ErrInvalidOffset")
		c.Check("R3.valid", tn+".readSomeAt/closed-store", fn.Decl.Pos(), closedGuard(info, body), "a nil backing store yields ErrClosedBacklog first")
		switch v, why := ring.ZeroGuard(c, res); v {
		case 1:
			c.Okf("R5.sibling", tn+".readSomeAt/empty-returns-zero", fn.Decl.Pos(), "nothing to read yields (0, nil)")
		case 0:
			c.Failf("R5.sibling", tn+".readSomeAt/empty-returns-zero", fn.Decl.Pos(), "nothing to read at the write position yields (0, nil) so that the caller waits; %s", why)
		default:
			c.Undecidedf("R5.sibling", tn+".readSomeAt/empty-returns-zero", fn.Decl.Pos(), "nothing to read at the write position yields (0, nil) so that the caller waits: %s", why)
		}
	}
	if fn := c.Func(pkg, tn, "writeSome"); fn != nil {
		info := fn.Pkg.TypesInfo
		body := fn.Decl.Body
		ring.Transfer(c, fn, ring.TransferSpec{Rule: "R5.sibling", Key: tn + ".writeSome", OffsetFn: "woffset",
			Args: []string{"len(_b)", "_p.size", "_p.wpos"}, ArgsDesc: "woffset(len(b), p.size, p.wpos)", Read: false, Advance: "wpos",
			ArgsKey: "woffset-args", WindowKey: "transfer-window", AdvKey: "advance-wpos",
			WindowMsg: "the bytes go to exactly [offset, offset+maxlen) of the backing store from the front of the caller's buffer",
			AdvMsg:    "wpos advances by exactly the number of bytes stored (absolute offsets stay aligned with ring positions)"})
		c.Check("R5.sibling", tn+".writeSome/closed-store", fn.Decl.Pos(), closedGuard(info, body), "a nil backing store yields ErrClosedBacklog")
	}
	if fn := c.Func(pkg, tn, "dataRange"); fn != nil {
		dataRange(c, tn, fn)
	}
	if fn := c.Func(pkg, tn, "close"); fn != nil {
		n, _ := pat.Stmt("_p._store = nil").Find(fn.Pkg.TypesInfo, fn.Decl.Body, nil)
		c.Check("R5.sibling", tn+".close/drops-store", fn.Decl.Pos(), n != nil, "close drops the backing store so that readers woken by the close fail with ErrClosedBacklog")
	}
}

// dataRange checks R4 for one store. Accepted shapes (in the method itself or
// in a same-package helper it returns through, with the helper's parameters
// bound to the arguments):
//
//	two returns:   if wpos >= size { return wpos - size, wpos }; return 0, wpos
//	one return:    r := 0; if wpos >= size { r = wpos - size }; return r, wpos
func dataRange(c *core.Ctx, tn string, fn *core.Fn) {
	info := fn.Pkg.TypesInfo
	key := tn + ".dataRange"
	type target struct {
		fn   *core.Fn
		g    *cfgq.Graph
		sub  map[types.Object]ast.Expr
		name string
	}
	tg := target{fn: fn, g: cfgq.Of(c.Program, fn), name: "dataRange"}
	// follow `return helper(args...)`
	for _, p := range tg.g.Points(func(n ast.Node) bool { _, ok := n.(*ast.ReturnStmt); return ok }) {
		ret := p.Node().(*ast.ReturnStmt)
		if len(ret.Results) != 1 {
			continue
		}
		call, ok := ast.Unparen(ret.Results[0]).(*ast.CallExpr)
		if !ok {
			continue
		}
		f := core.CalleeFunc(info, call)
		if f == nil || f.Pkg() == nil || f.Pkg().Path() != fn.Pkg.PkgPath {
			continue
		}
		h := c.FnOf(f)
		if h == nil || h.Decl.Body == nil {
			continue
		}
		sub := map[types.Object]ast.Expr{}
		i := 0
		for _, fl := range h.Decl.Type.Params.List {
			for _, nm := range fl.Names {
				if i < len(call.Args) {
					sub[info.Defs[nm]] = call.Args[i]
				}
				i++
			}
		}
		tg = target{fn: h, g: cfgq.Of(c.Program, h), sub: sub, name: h.Decl.Name.Name}
	}
	S := func(e ast.Expr) ast.Expr { return cfgq.Substitute(info, e, tg.sub) }
	ge := func(val bool) func(cfgq.Fact) bool {
		return func(f cfgq.Fact) bool {
			e := S(f.Expr)
			return pat.Expr("_p.wpos >= _p.size").Match(info, e, nil) != nil && f.Val == val || pat.Expr("_p.wpos < _p.size").Match(info, e, nil) != nil && f.Val != val
		}
	}
	isFull := func(e ast.Expr) bool { return pat.Expr("_p.wpos - _p.size").Match(info, S(e), nil) != nil }
	isW := func(e ast.Expr) bool { return pat.Expr("_p.wpos").Match(info, S(e), nil) != nil }
	isZero := func(e ast.Expr) bool { v, ok := core.IntConst(info, e); return ok && v == 0 }
	g := tg.g
	nFull, nPart, nOther := 0, 0, 0
	okGuards := true
	var witness []string
	for _, p := range g.Points(func(n ast.Node) bool { _, ok := n.(*ast.ReturnStmt); return ok }) {
		ret := p.Node().(*ast.ReturnStmt)
		if len(ret.Results) != 2 {
			if len(ret.Results) == 1 && tg.fn == fn {
				continue // the delegating return itself
			}
			nOther++
			continue
		}
		a, b := ret.Results[0], ret.Results[1]
		switch {
		case isZero(a) && isZero(b):
			// closed store
		case isFull(a) && isW(b):
			nFull++
			ok, w := g.OnlyViaFact(p, ge(true))
			if !ok {
				okGuards, witness = false, w
			}
		case isZero(a) && isW(b):
			nPart++
			ok, w := g.OnlyViaFact(p, ge(false))
			if !ok {
				okGuards, witness = false, w
			}
		case isW(b):
			// one-return shape: a is a local r with `r := 0` and `r = wpos - size` under wpos >= size
			id, ok := ast.Unparen(a).(*ast.Ident)
			if !ok {
				nOther++
				continue
			}
			obj := core.ObjOf(info, id)
			okInit, okSet := false, false
			ast.Inspect(tg.fn.Decl.Body, func(n ast.Node) bool {
				switch x := n.(type) {
				case *ast.AssignStmt:
					for i, l := range x.Lhs {
						lid, ok := l.(*ast.Ident)
						if !ok || core.ObjOf(info, lid) != obj || i >= len(x.Rhs) {
							continue
						}
						r := ast.Unparen(x.Rhs[i])
						if cv, ok := r.(*ast.CallExpr); ok && len(cv.Args) == 1 { // uint64(0)
							r = ast.Unparen(cv.Args[0])
						}
						if isZero(r) {
							okInit = true
						} else if isFull(r) {
							if pt, ok := g.Find(x); ok {
								if okv, _ := g.OnlyViaFact(pt, ge(true)); okv {
									okSet = true
								}
							}
						} else {
							okSet = false
							nOther++
						}
					}
				case *ast.ValueSpec:
					for _, nm := range x.Names {
						if info.Defs[nm] == obj && len(x.Values) == 0 {
							okInit = true // var r uint64
						}
					}
				}
				return true
			})
			if okInit && okSet {
				nFull++
				nPart++
			} else {
				nOther++
			}
		default:
			nOther++
		}
	}
	switch {
	case nOther > 0:
		c.Undecidedf("R4.range", key+"/returns", fn.Decl.Pos(), "%s has a return this rule does not recognise", tg.name)
	case nFull == 0 || nPart == 0:
		c.Check("R4.range", key+"/returns", fn.Decl.Pos(), false, "dataRange must yield (wpos-size, wpos) once wpos >= size and (0, wpos) before: the most recent min(total, capacity) bytes")
	default:
		c.Okf("R4.range", key+"/returns", fn.Decl.Pos(), "dataRange yields (wpos-size, wpos) and (0, wpos)")
		c.Check("R4.range", key+"/guards", fn.Decl.Pos(), okGuards, "(wpos-size, wpos) only when wpos >= size (otherwise the subtraction wraps around), (0, wpos) only while wpos < size (afterwards the oldest bytes are gone)", witness...)
	}
}

func reader(c *core.Ctx) {
	if fn := c.Func(pkg, "Reader", "IsValid"); fn != nil {
		info := fn.Pkg.TypesInfo
		body := fn.Decl.Body
		// the data range in use: `lo, hi, err := <reader or backlog>.DataRange()`
		var lo, hi, errID *ast.Ident
		core.Inspect(body, func(n ast.Node) bool {
			as, ok := n.(*ast.AssignStmt)
			if !ok || len(as.Lhs) != 3 || len(as.Rhs) != 1 || lo != nil {
				return true
			}
			call, ok := ast.Unparen(as.Rhs[0]).(*ast.CallExpr)
			if !ok {
				return true
			}
			if f := core.CalleeFunc(info, call); f != nil && f.Name() == "DataRange" && f.Pkg() == fn.Obj.Pkg() {
				a, ok1 := as.Lhs[0].(*ast.Ident)
				b, ok2 := as.Lhs[1].(*ast.Ident)
				e, ok3 := as.Lhs[2].(*ast.Ident)
				if ok1 && ok2 && ok3 {
					lo, hi, errID = a, b, e
				}
			}
			return true
		})
		var seek ast.Expr
		core.Inspect(body, func(n ast.Node) bool {
			if sel, ok := n.(*ast.SelectorExpr); ok && seek == nil && core.IsFieldNamed(info, sel, "Reader", "seek") {
				seek = sel
			}
			return true
		})
		if lo == nil || seek == nil {
			c.Undecidedf("R4.range", "Reader.IsValid/formula", fn.Decl.Pos(), "IsValid does not obtain (rpos, wpos, err) from DataRange() and compare the reader's seek with it in a recognisable way")
		} else {
			errObj := core.ObjOf(info, errID)
			loLeq := lin.Combo(info, 0, 1, lo, -1, seek) // rpos - seek <= 0
			hiGeq := lin.Combo(info, 0, 1, seek, -1, hi) // seek - wpos <= 0
			otherRelation := ""
			sameVars := func(a, b lin.Form) bool {
				if len(a.Coef) != len(b.Coef) {
					return false
				}
				for k, v := range a.Coef {
					if w, ok := b.Coef[k]; !ok || (w != v && w != -v) {
						return false
					}
				}
				return true
			}
			atom := func(x ast.Expr) (int, bool, bool) {
				if isNil, ok := ring.ErrNilAtom(info, x, errObj); ok {
					return 0, !isNil, true
				}
				defer func() {
					if cmp, ok := lin.CmpOf(info, x, true); ok && otherRelation == "" {
						for _, f := range []lin.Form{loLeq, hiGeq} {
							if sameVars(cmp.F, f) && !cmp.Is(f, token.LEQ) {
								if neg, ok2 := lin.CmpOf(info, x, false); !ok2 || !neg.Is(f, token.LEQ) {
									otherRelation = c.Src(x)
								}
							}
						}
					}
				}()
				for i, f := range []lin.Form{loLeq, hiGeq} {
					if cmp, ok := lin.CmpOf(info, x, true); ok && cmp.Is(f, token.LEQ) {
						return i + 1, false, true
					}
					if cmp, ok := lin.CmpOf(info, x, false); ok && cmp.Is(f, token.LEQ) {
						return i + 1, true, true
					}
				}
				return 0, false, false
			}
			table := ring.TruthTable(cfgq.Of(c.Program, fn), 3, atom)
			okFormula, okClosed, undec := true, true, false
			for m, v := range table {
				errNil, ge, le := m&1 != 0, m&2 != 0, m&4 != 0
				if v < 0 {
					// with a non-nil error the range values are meaningless: the comparison atoms need not be decided
					undec = true
					continue
				}
				want := errNil && ge && le
				if (v == 1) != want {
					if !errNil {
						okClosed = false
					} else {
						okFormula = false
					}
				}
			}
			if otherRelation != "" {
				c.Failf("R4.range", "Reader.IsValid/formula", fn.Decl.Pos(), "a reader is valid exactly while rpos <= seek <= wpos of the current data range; IsValid tests `%s`, which is neither of these bounds (a reader exactly at a bound is judged wrongly)", otherRelation)
			} else if undec {
				c.Undecidedf("R4.range", "Reader.IsValid/formula", fn.Decl.Pos(), "IsValid depends on something else than err == nil, rpos <= seek and seek <= wpos")
			} else {
				c.Check("R4.range", "Reader.IsValid/formula", fn.Decl.Pos(), okFormula, "a reader is valid exactly while rpos <= seek <= wpos of the current data range")
				c.Check("R4.range", "Reader.IsValid/closed-is-invalid", fn.Decl.Pos(), okClosed, "a closed backlog makes every reader invalid")
			}
		}
	}
	if fn := c.Func(pkg, "Reader", "Read"); fn != nil {
		info := fn.Pkg.TypesInfo
		as, b := pat.Stmt("_n, _err = _r.bl.ReadAt(_b, _r.seek)").Find(info, fn.Decl.Body, nil)
		ok := false
		if as != nil {
			adv, _ := pat.Stmt("_r.seek += uint64(_n)").Find(info, fn.Decl.Body, b)
			ret, _ := pat.Stmt("return _n, _err").Find(info, fn.Decl.Body, b)
			ok = adv != nil && ret != nil
		}
		c.Check("R4.range", "Reader.Read/advance", fn.Decl.Pos(), ok, "Reader.Read reads at its own position, advances it by exactly the count returned and returns that count")
	}
	if fn := c.Func(pkg, "Backlog", "NewReader"); fn != nil {
		info := fn.Pkg.TypesInfo
		as, b := pat.Stmt("_, _wpos = _p.store.dataRange()").Find(info, fn.Decl.Body, nil)
		ok := false
		if as != nil {
			n, _ := pat.Stmt("return &Reader{bl: _p, seek: _wpos}, nil").Find(info, fn.Decl.Body, b)
			ok = n != nil
		}
		c.Check("R4.range", "NewReader/starts-at-wpos", fn.Decl.Pos(), ok, "a new reader starts at the current write position of this backlog")
	}
	if fn := c.Func(pkg, "Backlog", "DataRange"); fn != nil {
		info := fn.Pkg.TypesInfo
		as, b := pat.Stmt("_rpos, _wpos = _p.store.dataRange()").Find(info, fn.Decl.Body, nil)
		ok := false
		if as != nil {
			n, _ := pat.Stmt("return _rpos, _wpos, nil").Find(info, fn.Decl.Body, b)
			ok = n != nil
		}
		c.Check("R4.range", "Backlog.DataRange/forwards", fn.Decl.Pos(), ok, "DataRange reports the store's range in (rpos, wpos) order")
	}
}

func findIf(info *types.Info, root ast.Node, cond *pat.Pattern, b pat.Binds) (*ast.IfStmt, bool) {
	var hit *ast.IfStmt
	core.Inspect(root, func(n ast.Node) bool {
		if ifs, ok := n.(*ast.IfStmt); ok && hit == nil && cond.Match(info, ifs.Cond, b) != nil {
			hit = ifs
		}
		return hit == nil
	})
	return hit, hit != nil
}

func closedGuard(info *types.Info, body *ast.BlockStmt) bool {
	if len(body.List) == 0 {
		return false
	}
	ifs, ok := body.List[0].(*ast.IfStmt)
	if !ok || pat.Expr("_p._s == nil").Match(info, ifs.Cond, nil) == nil {
		return false
	}
	r, _ := pat.Stmt("return 0, _f(ErrClosedBacklog)").Find(info, ifs.Body, nil)
	return r != nil
}

// helpersOf lists the same-package functions called from fn (one level).
func helpersOf(c *core.Ctx, fn *core.Fn) []*core.Fn {
	info := fn.Pkg.TypesInfo
	var out []*core.Fn
	seen := map[*types.Func]bool{}
	core.Inspect(fn.Decl.Body, func(n ast.Node) bool {
		if call, ok := n.(*ast.CallExpr); ok {
			if f := core.CalleeFunc(info, call); f != nil && f.Pkg() == fn.Obj.Pkg() && !seen[f] {
				seen[f] = true
				if h := c.FnOf(f); h != nil && h.Decl.Body != nil {
					out = append(out, h)
				}
			}
		}
		return true
	})
	return out
}
