// Package all assembles the rule sets of the 20 properties, including the
// rules added after seeded changes (package xtra) and the cross-imports: a
// property whose behaviour depends on a neighbour's mechanism re-runs the
// neighbour's relevant rules under its own id (prefixed "Cxx:").
package all

import (
	"strings"

	"rscheck/core"
	"rscheck/driver"
	"rscheck/rules/arith"
	"rscheck/rules/c01"
	"rscheck/rules/c02"
	"rscheck/rules/c03"
	"rscheck/rules/c04"
	"rscheck/rules/c05"
	"rscheck/rules/c06"
	"rscheck/rules/c07"
	"rscheck/rules/c08"
	"rscheck/rules/c09"
	"rscheck/rules/c10"
	"rscheck/rules/c11"
	"rscheck/rules/c12"
	"rscheck/rules/c13"
	"rscheck/rules/c14"
	"rscheck/rules/c15"
	"rscheck/rules/c16"
	"rscheck/rules/c17"
	"rscheck/rules/c18"
	"rscheck/rules/c19"
	"rscheck/rules/c20"
	"rscheck/rules/gen"
	"rscheck/rules/reent"
	"rscheck/rules/xtra"
)

const (
	dbSync = "redis-shake/dbSync"
	run    = "redis-shake"
)

func wrap(d driver.PropDef, note string, extra func(c *core.Ctx)) driver.PropDef {
	inner := d.Run
	d.Run = func(c *core.Ctx) {
		inner(c)
		extra(c)
	}
	d.Explanation += " ADDED AFTER SEEDED CHANGES: " + note
	return d
}

func notKey(sub string, keep func(*core.Obligation) bool) func(*core.Obligation) bool {
	return func(o *core.Obligation) bool { return keep(o) && !strings.Contains(o.FullKey(), sub) }
}

// genScope lists, per property, the packages its mechanism lives in: the class-level rules of package gen
// (added after the fifth seeded sample) are run over them.
var genScope = map[string][]string{
	"C01": {"pkg/rdb", "pkg/rdb/digest"},
	"C02": {"pkg/rdb", "redis-shake/common", "redis-shake"},
	"C03": {"pkg/redis", "redis-shake/dbSync", "redis-shake/filter"},
	"C04": {"pkg/redis", "redis-shake/dbSync", "redis-shake/checkpoint"},
	"C05": {"redis-shake/common", "redis-shake/dbSync", "redis-shake"},
	"C06": {"redis-shake/filter", "redis-shake/dbSync", "redis-shake"},
	"C07": {"pkg/rdb", "redis-shake", "redis-shake/dbSync", "redis-shake/common"},
	"C08": {"pkg/redis", "redis-shake/dbSync", "redis-shake/common"},
	"C09": {"pkg/libs/io/pipe"},
	"C10": {"pkg/redis"},
	"C11": {"pkg/rdb", "pkg/rdb/digest", "pkg/libs/cupcake/rdb", "redis-shake/common"},
	"C12": {"pkg/rdb", "pkg/libs/cupcake/rdb"},
	"C13": {"pkg/redis", "redis-shake/filter", "redis-shake/dbSync"},
	"C14": {"redis-shake/checkpoint", "redis-shake/dbSync"},
	"C15": {"redis-shake/common", "redis-shake/dbSync/latencymonitor", "redis-shake/dbSync"},
	"C16": {"redis-shake", "redis-shake/scanner", "redis-shake/common", "pkg/rdb"},
	"C17": {"redis-shake", "pkg/rdb", "pkg/libs/cupcake/rdb"},
	"C18": {"pkg/libs/io/backlog"},
	"C19": {"redis-shake/configure", "redis-shake/common"},
	"C20": {"redis-shake/dbSync", "redis-shake/dbSync/slotsupervisor", "redis-shake/common"},
}

// usesTrace: properties whose error reporting (malformed input, closed pipe, invalid offset) goes through errors.Trace.
var usesTrace = map[string]bool{"C01": true, "C09": true, "C10": true, "C11": true, "C12": true, "C18": true}

func withGen(d driver.PropDef) driver.PropDef {
	inner := d.Run
	scope := genScope[d.ID]
	d.Run = func(c *core.Ctx) {
		inner(c)
		gen.LostUpdate(c, "G1.by-value", scope...)
		gen.ScratchAlias(c, "G2.scratch-alias", scope...)
		gen.LoopCounterClobber(c, "G3.loop-counter", scope...)
		if usesTrace[d.ID] {
			gen.TracePreservesError(c, "G4.trace")
		}
	}
	d.Explanation += " CLASS-LEVEL RULES over the packages of the mechanism (" + strings.Join(scope, ", ") + "): G1 no method with a by-value receiver updates state of its receiver copy that is then dropped (a lost cursor, offset, topology); G2 no reader hands out a slice that shares storage with the scratch buffer it fills again on its next read; G3 no nested loop re-initialises the counter of a loop around it"
	if usesTrace[d.ID] {
		d.Explanation += "; G4 errors.Trace returns an error whenever it is given one"
	}
	d.Explanation += "."
	return d
}

// Defs returns the final rule sets.
func Defs() []driver.PropDef {
	ds := defs()
	for i := range ds {
		ds[i] = withGen(ds[i])
	}
	return ds
}

func defs() []driver.PropDef {
	return []driver.PropDef{
		wrap(c01.Def, "X1 the end-of-file check returns success only after the two CRC values were found equal; X2 LZF back references (compressed key names, scripts) are copied in ascending byte order, never by an overlapping block copy; X3 integer-encoded strings are the sign-extended little-endian value of all bytes of one read.", func(c *core.Ctx) {
			xtra.FooterRejectsEveryMismatch(c, "X1.footer")
			arith.OverlapSafeCopy(c, "X2.lzf", c.Func("pkg/rdb", "", "lzfDecompress"))
			intStringsReader(c, "X3.ints")
		}),
		wrap(c02.Def, "X1 SCRIPT LOAD is executed with Do and its error returned; X2 float64 scores are formatted with bitSize 64.", func(c *core.Ctx) {
			xtra.ScriptLoadByDo(c, "X1.script")
			xtra.FormatFloatFullPrecision(c, "X2.score", "redis-shake/common")
			intsetRestore(c, "X3.ints")
		}),
		wrap(c03.Def, "X1 every test of the fixed-target-database option uses the sentinel -1 (db 0 is a legal fixed target); X2 no blocking channel send on the sender's path; X3 the key-filter verdict tested for a command was computed for that command; C10's rules that decoded arguments never alias the reader's buffer (they are queued until the next flush) and that the decoder's offset counts every byte it consumes (the offset stamps the commands), and C06's matcher rules (which list is consulted with which matcher) are re-run here.", func(c *core.Ctx) {
			xtra.TargetDBSentinel(c, "X1.sentinel", dbSync)
			xtra.SenderNeverBlocks(c, "X2.nonblocking")
			xtra.VerdictFresh(c, "X3.verdict")
			xtra.Import(c, "C10", c10.Run, xtra.HasPrefix("R8.alias/", "R1.account/"))
			xtra.Import(c, "C06", c06.Run, xtra.HasPrefix("R2.matcher/"))
			parserReentrant(c, "X4.reentrant")
		}),
		wrap(c04.Def, "X1 the MULTI/EXEC+checkpoint envelope is skipped only for a batch that is a lone PING; X2 all checkpoint HSETs go to ds.checkpointName, the hash the loader reads; C14's field-name agreement rules (reader/writer) and C10's byte-accounting rule of the decoder (the stored offset is the decoder's) are re-run here.", func(c *core.Ctx) {
			xtra.EnvelopeOnlyOmittedForLonePing(c, "X1.envelope")
			xtra.CheckpointHsetsSameKey(c, "X2.hash-key")
			xtra.Import(c, "C14", c14.Run, xtra.HasPrefix("R1.reader/", "R1.writer/", "R5.clear/"))
			xtra.Import(c, "C10", c10.Run, xtra.HasPrefix("R1.account/"))
		}),
		c05.Def,
		wrap(c06.Def, "X1 the verdict tested for a command was computed for that command; X2 fixed-target-db sentinel; C15's hash-tag rules (the slot filter of the full phase hashes with KeyToSlot) and C13's caller rules (the incremental path forwards the filtered argument vector) are re-run here.", func(c *core.Ctx) {
			xtra.VerdictFresh(c, "X1.verdict")
			xtra.TargetDBSentinel(c, "X2.sentinel", dbSync, run)
			xtra.Import(c, "C15", c15.Run, xtra.HasPrefix("R3.tag/", "R1.mask/", "R2.step/utils.crc16"))
			xtra.Import(c, "C13", c13.Run, xtra.HasPrefix("R4.caller/", "R5.predicate/"))
		}),
		wrap(c07.Def, "X1 SCRIPT LOAD by Do; X2 CmdRestore.Main's wg.Add counts the input files for which Done is called; X3 fixed-target-db sentinel; C02's route, TTL and key_exists-policy rules (what a worker does with one entry) are re-run here.", func(c *core.Ctx) {
			xtra.ScriptLoadByDo(c, "X1.script")
			xtra.RestoreMainWaitGroup(c, "X2.waitgroup")
			xtra.TargetDBSentinel(c, "X3.sentinel", dbSync, run)
			xtra.FormatFloatFullPrecision(c, "X4.score", "redis-shake/common")
			intsetRestore(c, "X5.ints")
			xtra.Import(c, "C02", c02.Run, notKey("element/consults-policy", xtra.HasPrefix("R1.route/", "R2.ttl/", "R3.policy/", "R5.batch/flushAndCheckReply", "R6.errors/")))
			xtra.Import(c, "C06", c06.Run, xtra.HasPrefix("R2.matcher/"))
		}),
		wrap(c08.Def, "X1 the ACK goroutine ends when its ACK cannot be sent; C04's stored-offset and PSYNC-continue rules and C10's byte-accounting rule of the decoder are re-run here.", func(c *core.Ctx) {
			xtra.AckGoroutineStopsOnError(c, "X1.ack-stops")
			xtra.Import(c, "C04", c04.Run, notKey("base-writer", xtra.HasPrefix("R2.offset/", "R5.resume/SendPSyncContinue")))
			xtra.Import(c, "C10", c10.Run, xtra.HasPrefix("R1.account/"))
		}),
		c09.Def,
		wrap(c10.Def, "X1 the codec is re-entrant: one encoder/decoder per source node and per worker runs concurrently, so no function reachable from Encode*/Decode*/MustDecode* mutates a package-level variable of pkg/redis (the integer table is built once, in init).", func(c *core.Ctx) {
			codecReentrant(c, "X1.reentrant")
		}),
		wrap(c11.Def, "X1 the end-of-file check returns success only after the two CRC values were found equal; C01's rule that a fixed-width read fills exactly the bytes it decodes (the stored checksum is read by readUint64) is re-run here.", func(c *core.Ctx) {
			xtra.FooterRejectsEveryMismatch(c, "X1.footer")
			xtra.Import(c, "C01", c01.Run, xtra.HasPrefix("R8.width/"))
		}),
		wrap(c12.Def, "X1 the integer arms of both ziplist entry decoders are decided directly in a bit-field domain (width, byte order, sign extension).", func(c *core.Ctx) {
			arith.CheckZiplistInts(c, "X1.ziplist")
			arith.CheckLZFCopies(c, "X2.lzf")
			intStringsReader(c, "X3.ints")
			intStringsDecoder(c, "X3.ints")
		}),
		wrap(c13.Def, "X1 the verdict tested for a command was computed for that command.", func(c *core.Ctx) {
			xtra.VerdictFresh(c, "X1.verdict")
		}),
		wrap(c14.Def, "X1 the unknown-run-id gate precedes ClearCheckpoint; X2 all checkpoint HSETs go to ds.checkpointName, the hash the loader is called with.", func(c *core.Ctx) {
			xtra.ClearAfterRunIdGate(c, "X1.clear-order")
			xtra.CheckpointHsetsSameKey(c, "X2.hash-key")
		}),
		wrap(c15.Def, "C06's decision table of FilterKey (checkpoint-prefixed keys are filtered under every list configuration) is re-run here; X1 the test for 'this source is a cluster shard' uses the sentinel -1 (slot 0 is a legal left boundary).", func(c *core.Ctx) {
			xtra.Import(c, "C06", c06.Run, xtra.HasPrefix("R1.table/FilterKey/"))
			xtra.SlotBoundarySentinel(c, "X1.sentinel", dbSync)
		}),
		wrap(c16.Def, "X1 the key-file scanner evaluates Scan() last and stores every line; X2 every iteration of the fetch loop reaches the EndNode test; X3 fixed-target-db sentinel; C02's element-expansion and batch rules (big keys are expanded by restoreBigRdbEntry) are re-run here.", func(c *core.Ctx) {
			xtra.KeyFileScannerLoop(c, "X1.keyfile")
			xtra.FetchLoopReachesEndNode(c, "X2.endnode")
			xtra.TargetDBSentinel(c, "X3.sentinel", run, "redis-shake/common")
			xtra.FormatFloatFullPrecision(c, "X4.score", "redis-shake/common")
			intsetRestore(c, "X5.ints")
			xtra.Import(c, "C02", c02.Run, xtra.HasPrefix("R4.expand/", "R5.batch/", "R8.siblings/"))
		}),
		wrap(c17.Def, "C12's decoder rules (grammar per value type, event wiring, adaptor, sibling arithmetic) are re-run here: decode mode prints what DecodeDump yields; X1 the integer arms of both ziplist entry decoders are decided directly (width, byte order, sign extension).", func(c *core.Ctx) {
			xtra.Import(c, "C12", c12.Run, xtra.HasPrefix("R2.grammar/readObject", "R3.wiring/decoder", "R3.wiring/adaptor", "R6.siblings/", "R6.length/", "R1.ids/decoder"))
			arith.CheckZiplistInts(c, "X1.ziplist")
			arith.CheckLZFCopies(c, "X2.lzf")
			intStringsReader(c, "X3.ints")
			intStringsDecoder(c, "X3.ints")
		}),
		c18.Def,
		c19.Def,
		wrap(c20.Def, "X1 the new topology gets a fresh replica slice (no alias of the supervisor's list); X2 the probe connection is used only after the factory's error was found nil.", func(c *core.Ctx) {
			xtra.FreshSlaves(c, "X1.fresh-slaves")
			xtra.ConnUsedOnlyAfterErrCheck(c, "X2.conn-nil")
		}),
	}
}

// intStrings: the integer encodings of RDB strings (keys and values) and of intset members.
func intStringsReader(c *core.Ctx, rule string) {
	arith.SignedIntsOfReads(c, rule, c.Func("pkg/rdb", "rdbReader", "ReadString"), nil, "int-encodings", 1)
}

func intStringsDecoder(c *core.Ctx, rule string) {
	arith.SignedIntsOfReads(c, rule, c.Func("pkg/libs/cupcake/rdb", "decode", "readString"), nil, "int-encodings", 1)
	arith.SignedIntsOfReads(c, rule, c.Func("pkg/libs/cupcake/rdb", "decode", "readIntset"), nil, "intset-members", 1)
}

func intsetRestore(c *core.Ctx, rule string) {
	arith.SignedIntsOfReads(c, rule, c.Func("redis-shake/common", "", "restoreBigRdbEntry"), nil, "intset-members", 1)
}

// parserReentrant: one command parser and one sender run per source node; what they call in the filter, the
// RESP codec and dbSync must not mutate package-level state.
func parserReentrant(c *core.Ctx, rule string) {
	var roots []*core.Fn
	for _, n := range []string{"parseSourceCommand", "sendTargetCommand"} {
		if f := c.FuncOpt(dbSync, "DbSyncer", n); f != nil {
			roots = append(roots, f)
		}
	}
	if len(roots) == 0 {
		c.Undecidedf(rule, "roots", 0, "parseSourceCommand / sendTargetCommand not found")
		return
	}
	reent.Check(c, rule, roots, []string{"redis-shake/filter", "pkg/redis"}, "one command parser / sender per source node")
}

// codecReentrant: every exported function of pkg/redis is an entry point that several goroutines use at once.
func codecReentrant(c *core.Ctx, rule string) {
	pk := c.Pkg("pkg/redis")
	if pk == nil {
		c.Undecidedf(rule, "roots", 0, "pkg/redis not loaded")
		return
	}
	var roots []*core.Fn
	for _, f := range c.FuncsOf(pk) {
		if f.Obj != nil && f.Obj.Exported() && f.Decl != nil && f.Decl.Name.Name != "init" {
			roots = append(roots, f)
		}
	}
	if len(roots) < 5 {
		c.Undecidedf(rule, "roots", 0, "only %d exported functions found in pkg/redis", len(roots))
		return
	}
	reent.Check(c, rule, roots, []string{"pkg/redis"}, "one codec per source node, worker and connection")
}
