// R7.intset: the element-by-element expansion of a big intset (restoreBigRdbEntry) decodes its members as SIGNED
// integers of the encoded width.
package c16

import (
	"fmt"
	"go/ast"
	"go/types"

	"rscheck/core"
	"rscheck/pat"
	"rscheck/rules/c07"
)

// intset members are stored as little-endian two's complement integers of 2, 4 or 8 bytes. A decode through
// binary.<order>.UintN yields the unsigned reading; only a conversion to the signed type of the SAME width
// (intN) turns it into the member before it is widened or printed. The rule follows the value of every UintN
// call that ends in strconv.FormatInt (through conversions, parentheses and single-assignment locals).
func (x *rx) intset() {
	fn := x.c.FuncOpt(pkgCommon, "", "restoreBigRdbEntry")
	if fn == nil || fn.Decl.Body == nil {
		return
	}
	info := fn.Pkg.TypesInfo
	width := map[string]int{"Uint16": 16, "Uint32": 32, "Uint64": 64}
	signed := map[int]types.BasicKind{16: types.Int16, 32: types.Int32, 64: types.Int64}
	// the expression handed to FormatInt, looked through locals
	seen := map[int]bool{}
	core.InspectAll(fn.Decl.Body, func(n ast.Node) bool {
		call, ok := n.(*ast.CallExpr)
		if !ok || len(call.Args) == 0 {
			return true
		}
		if f := c07.CalleeF(info, call); f == nil || f.Pkg() == nil || f.Pkg().Path() != "strconv" || f.Name() != "FormatInt" && f.Name() != "Itoa" {
			return true
		}
		// peel conversions from the outside; remember the innermost one (the first applied to the decode)
		e := ast.Unparen(call.Args[0])
		var first types.Type
		for i := 0; i < 12; i++ {
			if id, isID := e.(*ast.Ident); isID { // a single-assignment local: go on with its definition as written
				d := pat.DefOf(info, id)
				if d == nil {
					break
				}
				e = ast.Unparen(d)
				continue
			}
			conv, isCall := e.(*ast.CallExpr)
			if !isCall || len(conv.Args) != 1 {
				break
			}
			tv, isT := info.Types[conv.Fun]
			if !isT || !tv.IsType() {
				break
			}
			first = tv.Type
			e = ast.Unparen(conv.Args[0])
		}
		dec, isCall := e.(*ast.CallExpr)
		if !isCall {
			return true
		}
		f := c07.CalleeF(info, dec)
		if f == nil || f.Pkg() == nil || f.Pkg().Path() != "encoding/binary" || width[f.Name()] == 0 {
			return true
		}
		w := width[f.Name()]
		seen[w] = true
		key := fmt.Sprintf("restoreBigRdbEntry/intset/%d-bit", w)
		okSigned := false
		if first != nil {
			if b, isB := first.Underlying().(*types.Basic); isB && b.Kind() == signed[w] {
				okSigned = true
			}
		}
		x.c.Check("R7.intset", key, dec.Pos(), okSigned, fmt.Sprintf("a %d-bit intset member must be read as a signed integer of that width (int%d(%s)) before it is widened: read unsigned, a negative member v is restored as v+2^%d, the set on the target differs from the source", w, w, x.c.Src(dec), w))
		return true
	})
	for _, w := range []int{16, 32, 64} {
		if !seen[w] {
			x.c.Undecidedf("R7.intset", fmt.Sprintf("restoreBigRdbEntry/intset/%d-bit", w), fn.Decl.Pos(), "no decode of %d-bit intset members that ends in strconv.FormatInt / Itoa found", w)
		}
	}
}
