// R4 fetch alignment, R5 pagination/scanners/databases, R6 error discipline and the RestoreBigkey rules of C16.
package c16

import (
	"fmt"
	"go/ast"
	"go/token"
	"go/types"
	"strings"

	"golang.org/x/tools/go/cfg"

	"rscheck/cfgq"
	"rscheck/core"
	"rscheck/lin"
	"rscheck/pat"
	"rscheck/rules/c07"
)

func (x *rx) bigkey() {
	fn := x.c.Func(pkgCommon, "", "RestoreBigkey")
	if fn == nil {
		return
	}
	info := fn.Pkg.TypesInfo
	y := &rx{c: x.c, info: info, fn: map[string]*core.Fn{"RestoreBigkey": fn}}
	g := cfgq.Of(x.c.Program, fn)
	var ps []types.Object
	for _, f := range fn.Decl.Type.Params.List {
		for _, n := range f.Names {
			ps = append(ps, info.Defs[n])
		}
	}
	if len(ps) != 6 {
		x.c.Undecidedf("R3.select", "RestoreBigkey", fn.Decl.Pos(), "expected parameters (client, key, value, pttl, db, preDb)")
		return
	}
	key, value, pttl, db, pre := ps[1], ps[2], ps[3], ps[4], ps[5]
	is := func(o types.Object) func(ast.Expr) bool {
		return func(e ast.Expr) bool { return c07.Obj(info, c07.Strip(info, e)) == o }
	}
	isPre := func(e ast.Expr) bool {
		s, ok := ast.Unparen(e).(*ast.StarExpr)
		return ok && c07.Obj(info, s.X) == pre
	}
	inner := x.c.LookupFunc(pkgCommon, "", "restoreBigRdbEntry")
	if inner == nil {
		x.c.Undecidedf("anchor", pkgCommon+".restoreBigRdbEntry", token.NoPos, "anchor missing")
		return
	}
	uses := g.Points(y.callNode(inner.Obj))
	y.selectRules("RestoreBigkey", g, g.Entry(), nil, pre, isPre, is(db), y.cmdNode("Do", "SELECT"), uses, nil)
	// entry literal carries key and value
	okLit := false
	core.Inspect(fn.Decl.Body, func(n ast.Node) bool {
		cl, ok := n.(*ast.CompositeLit)
		if !ok || core.NamedTypeName(info.TypeOf(cl)) != "BinEntry" {
			return true
		}
		got := map[string]bool{}
		for _, el := range cl.Elts {
			if kv, ok := el.(*ast.KeyValueExpr); ok {
				if call, ok := ast.Unparen(kv.Value).(*ast.CallExpr); ok && len(call.Args) == 1 {
					name := kv.Key.(*ast.Ident).Name
					got[name] = name == "Key" && is(key)(call.Args[0]) || name == "Value" && is(value)(call.Args[0])
				}
			}
		}
		okLit = got["Key"] && got["Value"]
		return true
	})
	x.c.Check("R2.bigkey", "RestoreBigkey/entry", fn.Decl.Pos(), okLit, "the entry handed to restoreBigRdbEntry must carry this key's name as Key and its DUMP payload as Value")
	// ttl re-applied
	isExpire := y.cmdNode("Do", "PEXPIRE")
	for _, up := range uses {
		w := g.Path(cfgq.Query{From: up, After: true, Avoid: isExpire, TargetExit: c07.NormalExit, AvoidEdge: func(b *cfg.Block, s int) bool {
			return c07.EdgeFact(g, b, s, func(f cfgq.Fact) bool {
				be, ok := ast.Unparen(f.Expr).(*ast.BinaryExpr)
				if !ok {
					return false
				}
				v, isC := core.IntConst(info, be.Y)
				return is(pttl)(be.X) && isC && v == 0 && (be.Op == token.GTR && !f.Val || be.Op == token.LEQ && f.Val)
			})
		}})
		x.check("R3.ttl", "RestoreBigkey/pexpire", up.Node().Pos(), w, "a big key with remaining time-to-live (pttl > 0) must get PEXPIRE after the element-wise restore: otherwise it becomes persistent on the target")
	}
	for _, p := range g.Points(isExpire) {
		for _, call := range cfgq.ExecCalls(p.Node()) {
			if _, cm, _ := cmd(info, call); cm == "PEXPIRE" {
				x.c.Check("R3.ttl", "RestoreBigkey/pexpire-args", call.Pos(), len(call.Args) == 3 && is(key)(call.Args[1]) && is(pttl)(call.Args[2]), "PEXPIRE must name this key and its remaining pttl")
			}
		}
	}
	for _, site := range []struct {
		name string
		pred func(ast.Node) bool
	}{{"select", y.cmdNode("Do", "SELECT")}, {"restoreBigRdbEntry", y.callNode(inner.Obj)}, {"pexpire", isExpire}} {
		for _, p := range g.Points(site.pred) {
			for _, call := range cfgq.ExecCalls(p.Node()) {
				if _, cm, _ := cmd(info, call); cm == "SELECT" || cm == "PEXPIRE" || c07.CalleeF(info, call) == inner.Obj {
					c07.ErrCheck(x.c, g, info, fn.Decl.Body, call, c07.ErrSpec{Rule: "R6.error", Key: "RestoreBigkey/" + site.name, Consequence: "a failed step of the big-key restore goes unnoticed and the key is left partial / in the wrong db / without TTL"})
				}
			}
		}
	}
}

// ---- R4/R5 doFetch

func (x *rx) doFetch() {
	fn := x.fn["doFetch"]
	g := x.g("doFetch")
	body := fn.Decl.Body
	scanF := x.scannerMethod("ScanKey")
	endF := x.scannerMethod("EndNode")
	if scanF == nil || endF == nil {
		x.c.Undecidedf("R5.loop", "doFetch", fn.Decl.Pos(), "scanner.Scanner interface methods not resolved")
		return
	}
	isScan, isEnd := x.callNode(scanF), x.callNode(endF)
	scans := g.Points(isScan)
	var loop *ast.ForStmt
	if len(scans) == 1 {
		for _, a := range core.PathTo(body, scans[0].Node()) {
			if f, ok := a.(*ast.ForStmt); ok && loop == nil {
				loop = f
			}
		}
	}
	if loop == nil {
		x.c.Undecidedf("R5.loop", "doFetch", fn.Decl.Pos(), "expected one ScanKey call inside a for loop")
		return
	}
	_, lbody := c07.RangeBlocks(g, loop)
	done := blockOf(g, cfg.KindForDone, loop)
	ended := func(b *cfg.Block, s int) bool {
		return c07.EdgeFact(g, b, s, func(f cfgq.Fact) bool {
			call, ok := ast.Unparen(f.Expr).(*ast.CallExpr)
			return ok && f.Val && c07.CalleeF(x.info, call) == endF
		})
	}
	leak := false
	w := g.Path(cfgq.Query{From: cfgq.Point{B: lbody}, AvoidEdge: func(b *cfg.Block, s int) bool {
		if ended(b, s) {
			return true
		}
		if b.Succs[s] == done {
			leak = true
			return true
		}
		return false
	}, TargetExit: func(b *cfg.Block, k cfgq.ExitKind) bool {
		if !c07.NormalExit(b, k) {
			return false
		}
		ret, _ := b.Nodes[len(b.Nodes)-1].(*ast.ReturnStmt)
		return ret == nil || cfgq.ClassifyReturn(x.info, body, ret) != cfgq.RetErr
	}})
	if leak && w == nil {
		w = []string{"break out of the scan loop without EndNode() being true"}
	}
	x.check("R5.loop", "doFetch/exit-only-on-EndNode", loop.Pos(), w, "the scan loop of a database may end successfully only when the scanner reports its final cursor: leaving earlier silently skips the remaining pages of the keyspace")
	out, seen := false, false
	for _, b := range g.CFG.Blocks {
		for s := range b.Succs {
			seen = seen || b.Live && ended(b, s)
			if b.Live && ended(b, s) && (b.Succs[s] == done || g.Path(cfgq.Query{From: cfgq.Point{B: b.Succs[s]}, Avoid: isScan, TargetExit: c07.NormalExit}) != nil) {
				out = true
			}
		}
	}
	x.verdict3("R5.loop", "doFetch/ends-on-EndNode", loop.Pos(), out, seen || len(g.Points(isEnd)) == 0, "when the scanner reports the final cursor doFetch must leave the loop: otherwise the database is scanned again from cursor 0 forever (duplicates, no termination)")
	w = g.Path(cfgq.Query{From: cfgq.Point{B: lbody}, Avoid: isScan, Target: isEnd})
	if w == nil { // nor before the first round (a loop whose condition or post statement asks the scanner)
		w = g.Path(cfgq.Query{From: g.Entry(), Avoid: isScan, Target: isEnd})
	}
	x.check("R5.loop", "doFetch/scan-each-round", loop.Pos(), w, "every round must call ScanKey before asking EndNode(): EndNode() on the initial cursor 0 is true, so the database would be skipped without a single SCAN")

	// source select tracking
	prev := func(e ast.Expr) bool { return x.field(e) == "previousDb" }
	var dbParam types.Object
	if ps := fn.Decl.Type.Params.List; len(ps) == 1 && len(ps[0].Names) == 1 {
		dbParam = x.info.Defs[ps[0].Names[0]]
	}
	isDB := func(e ast.Expr) bool { return dbParam != nil && c07.Obj(x.info, c07.Through(x.info, e)) == dbParam }
	x.selectRules("doFetch", g, g.Entry(), nil, x.fieldObj("previousDb"), prev, isDB, x.cmdNode("Do", "SELECT"), scans, nil)

	x.pipelines(fn, g, scans, isScan, isDB)
}

func (x *rx) scannerMethod(name string) *types.Func {
	pk := x.c.Pkg(pkgScanner)
	if pk == nil {
		return nil
	}
	tn, _ := pk.Types.Scope().Lookup("Scanner").(*types.TypeName)
	if tn == nil {
		return nil
	}
	it, _ := tn.Type().Underlying().(*types.Interface)
	for i := 0; it != nil && i < it.NumMethods(); i++ {
		if it.Method(i).Name() == name {
			return it.Method(i)
		}
	}
	return nil
}

func (x *rx) scanners() {
	c := x.c
	// NormalScanner
	sk, en := c.Func(pkgScanner, "NormalScanner", "ScanKey"), c.Func(pkgScanner, "NormalScanner", "EndNode")
	if sk != nil && en != nil {
		info := sk.Pkg.TypesInfo
		isCursor := func(e ast.Expr) bool { return core.IsFieldNamed(info, c07.Through(info, e), "NormalScanner", "cursor") }
		n := 0
		for _, call := range core.Calls(sk.Decl.Body, info, func(*ast.CallExpr, types.Object) bool { return true }) {
			if _, cm, _ := cmd(info, call); cm == "SCAN" {
				n++
				c.Check("R5.scanner", "NormalScanner/scan-from-cursor", call.Pos(), len(call.Args) >= 2 && isCursor(call.Args[1]),
					"SCAN must be issued with the cursor returned by the previous reply; found `"+c.Src(call)+"`: the scan restarts or jumps, keys are missed or the loop never ends")
			}
			if f := c07.CalleeF(info, call); f != nil && f.Name() == "Scan" && strings.HasSuffix(f.Pkg().Path(), "redigo/redis") {
				n++
				okCur, okKeys := false, false
				if len(call.Args) == 3 {
					if u, ok := ast.Unparen(call.Args[1]).(*ast.UnaryExpr); ok && u.Op == token.AND && isCursor(u.X) {
						okCur = true
					}
					if u, ok := ast.Unparen(call.Args[2]).(*ast.UnaryExpr); ok && u.Op == token.AND {
						kobj := c07.Obj(info, u.X)
						core.Inspect(sk.Decl.Body, func(m ast.Node) bool {
							if r, ok := m.(*ast.ReturnStmt); ok && len(r.Results) == 2 && core.IsNil(info, r.Results[1]) && c07.Obj(info, r.Results[0]) == kobj {
								okKeys = true
							}
							return true
						})
					}
				}
				c.Check("R5.scanner", "NormalScanner/reply-to-cursor", call.Pos(), okCur, "the first element of the SCAN reply must be stored as the next cursor")
				c.Check("R5.scanner", "NormalScanner/reply-to-keys", call.Pos(), okKeys, "the second element of the SCAN reply (the page of keys) must be what ScanKey returns")
			}
		}
		if n < 2 {
			c.Undecidedf("R5.scanner", "NormalScanner/shape", sk.Decl.Pos(), "SCAN call / redis.Scan not found")
		}
		okEnd := false
		core.Inspect(en.Decl.Body, func(m ast.Node) bool {
			if r, ok := m.(*ast.ReturnStmt); ok && len(r.Results) == 1 {
				eq, is := intCmp(info, cfgq.Fact{Expr: r.Results[0], Val: true}, isCursor, 0)
				okEnd = is && eq
			}
			return true
		})
		c.Check("R5.scanner", "NormalScanner/end-on-zero", en.Decl.Pos(), okEnd, "EndNode must report the end exactly when the returned cursor is 0 (Redis SCAN contract)")
	}
	// KeyFileScanner
	ks, ke := c.Func(pkgScanner, "KeyFileScanner", "ScanKey"), c.Func(pkgScanner, "KeyFileScanner", "EndNode")
	if ks != nil && ke != nil {
		info := ks.Pkg.TypesInfo
		isCnt := func(e ast.Expr) bool { return core.IsFieldNamed(info, c07.Strip(info, e), "KeyFileScanner", "cnt") }
		isPage := func(e ast.Expr) bool {
			return core.IsFieldNamed(info, c07.Strip(info, e), "Configuration", "ScanKeyNumber")
		}
		n1, b := pat.Stmt("_k.cnt = len(_keys)").Find(info, ks.Decl.Body, nil)
		okRet := false
		if n1 != nil {
			core.Inspect(ks.Decl.Body, func(m ast.Node) bool {
				if r, ok := m.(*ast.ReturnStmt); ok && len(r.Results) == 2 && pat.Same(info, r.Results[0], b["_keys"]) {
					okRet = true
				}
				return true
			})
		}
		c.Check("R5.scanner", "KeyFileScanner/count-page", ks.Decl.Pos(), okRet, "ScanKey must record the size of the page it returns (cnt = len(keys)) for EndNode")
		verdict, shape := false, false
		core.Inspect(ke.Decl.Body, func(m ast.Node) bool {
			if r, ok := m.(*ast.ReturnStmt); ok && len(r.Results) == 1 {
				if be, ok := ast.Unparen(r.Results[0]).(*ast.BinaryExpr); ok {
					a, bb, op := be.X, be.Y, be.Op
					if isPage(a) {
						a, bb = bb, a
						op = map[token.Token]token.Token{token.LSS: token.GTR, token.GTR: token.LSS, token.NEQ: token.NEQ, token.EQL: token.EQL, token.LEQ: token.GEQ, token.GEQ: token.LEQ}[op]
					}
					if isCnt(a) && isPage(bb) {
						shape, verdict = true, op == token.NEQ || op == token.LSS
					}
				}
			}
			return true
		})
		if !shape {
			c.Undecidedf("R5.scanner", "KeyFileScanner/end-on-short-page", ke.Decl.Pos(), "EndNode is not a comparison of cnt with scan.key_number")
		} else {
			c.Check("R5.scanner", "KeyFileScanner/end-on-short-page", ke.Decl.Pos(), verdict, "EndNode must be true exactly when the last page was short (cnt != scan.key_number): with the comparison inverted the file scan stops after the first full page or never stops")
		}
	}
}

// dbs: every unfiltered database is fetched (fetcher) and listed (getSourceDbList).
type posOnly token.Pos

func (p posOnly) Pos() token.Pos { return token.Pos(p) }
func (p posOnly) End() token.Pos { return token.Pos(p) }

func posOf(o types.Object) ast.Node {
	if o == nil {
		return posOnly(token.NoPos)
	}
	return posOnly(o.Pos())
}

func (x *rx) dbs() {
	g := x.g("fetcher")
	rs := x.rangeOver("fetcher", func(e ast.Expr) bool { return x.field(e) == "dbList" })
	filterDB := x.c.LookupFunc("redis-shake/filter", "", "FilterDB")
	if rs == nil || filterDB == nil {
		x.c.Undecidedf("R5.dbs", "fetcher", x.fn["fetcher"].Decl.Pos(), "no range over dbList / FilterDB not resolved")
		return
	}
	dbv := c07.Obj(x.info, rs.Value)
	// is: e denotes v, possibly converted or held in a single-assignment local (`logical := int(db)`)
	is := func(e ast.Expr, v types.Object) bool { return v != nil && c07.Obj(x.info, c07.Through(x.info, e)) == v }
	// handsOver: a statement that gives v to something that is not understood here (not a log call): what has
	// to happen with v may happen there
	handsOver := func(v types.Object, known func(ast.Node) bool) func(ast.Node) bool {
		return func(n ast.Node) bool {
			if known(n) {
				return false
			}
			switch st := n.(type) {
			case *ast.AssignStmt:
				for _, r := range st.Rhs {
					if call, isC := ast.Unparen(r).(*ast.CallExpr); isC {
						if tv, isT := x.info.Types[call.Fun]; isT && tv.IsType() || c07.CalleeF(x.info, call) == filterDB.Obj {
							continue // a conversion, the filter itself
						}
						if _, isB := core.Callee(x.info, call).(*types.Builtin); isB {
							continue
						}
						for _, a := range call.Args {
							if is(a, v) {
								return true
							}
						}
					}
				}
				return false
			case *ast.ExprStmt, *ast.GoStmt, *ast.DeferStmt, *ast.SendStmt:
			default:
				return false
			}
			for _, call := range cfgq.ExecCalls(n) {
				f := c07.CalleeF(x.info, call)
				if f != nil && f.Pkg() != nil && strings.HasSuffix(f.Pkg().Path(), "/log") || f == filterDB.Obj {
					continue
				}
				if _, isB := core.Callee(x.info, call).(*types.Builtin); isB {
					continue
				}
				for _, a := range call.Args {
					if is(a, v) {
						return true
					}
				}
			}
			if snd, isS := n.(*ast.SendStmt); isS && is(snd.Value, v) {
				return true
			}
			return false
		}
	}
	head, body := c07.RangeBlocks(g, rs)
	isFetch := x.callNode(x.fn["doFetch"].Obj)
	filtered := func(b *cfg.Block, s int) bool {
		return c07.EdgeFact(g, b, s, func(f cfgq.Fact) bool {
			call, ok := ast.Unparen(f.Expr).(*ast.CallExpr)
			return ok && f.Val && c07.CalleeF(x.info, call) == filterDB.Obj && len(call.Args) == 1 && is(call.Args[0], dbv)
		})
	}
	const everyMsg = "every database of dbList that passes the db filter must be fetched: here an iteration reaches the next database without doFetch, so that database's keys are never copied"
	if miss := c07.ReachBlock2(g, cfgq.Point{B: body}, isFetch, filtered, head); miss && !c07.ReachBlock2(g, cfgq.Point{B: body}, cfgq.Or(isFetch, handsOver(dbv, isFetch)), filtered, head) {
		x.c.Undecidedf("R5.dbs", "fetcher/every-db", rs.Pos(), "an iteration reaches the next database without a direct doFetch, but hands the database to a function that is not followed")
	} else {
		x.c.Check("R5.dbs", "fetcher/every-db", rs.Pos(), !miss, everyMsg)
	}
	// the argument of every doFetch: the database of this iteration (right), something else that is fully known
	// (wrong), or a local that is assigned more than once / computed (not followed)
	nFetch, wrongArg, unknownArg := 0, "", ""
	for _, p := range g.Points(isFetch) {
		for _, call := range cfgq.ExecCalls(p.Node()) {
			if c07.CalleeF(x.info, call) != x.fn["doFetch"].Obj {
				continue
			}
			nFetch++
			if len(call.Args) == 1 && is(call.Args[0], dbv) {
				continue
			}
			t := ast.Expr(nil)
			if len(call.Args) == 1 {
				t = c07.Through(x.info, call.Args[0])
			}
			if id, isID := t.(*ast.Ident); isID {
				if lv, isV := c07.Obj(x.info, id).(*types.Var); isV && !lv.IsField() && lv.Pkg() != nil && lv.Parent() != lv.Pkg().Scope() && types.Object(lv) != dbv {
					unknownArg = x.c.Src(call) // a local with several assignments
					continue
				}
			}
			if _, isCall := t.(*ast.CallExpr); isCall {
				unknownArg = x.c.Src(call) // computed
				continue
			}
			wrongArg = x.c.Src(call)
		}
	}
	switch {
	case nFetch == 0: // absence is judged by fetcher/every-db
		x.c.Undecidedf("R5.dbs", "fetcher/db-arg", rs.Pos(), "no direct doFetch call in fetcher")
	case wrongArg != "":
		x.c.Failf("R5.dbs", "fetcher/db-arg", rs.Pos(), "doFetch must be given the database of this iteration (found `%s`)", wrongArg)
	case unknownArg != "":
		x.c.Undecidedf("R5.dbs", "fetcher/db-arg", rs.Pos(), "the argument of `%s` is a computed value or a local with several assignments: not followed", unknownArg)
	default:
		x.c.Okf("R5.dbs", "fetcher/db-arg", rs.Pos(), "doFetch must be given the database of this iteration")
	}
	// getSourceDbList: for db, number := range mp { if number > 0 && !FilterDB(db) { list = append(list, db) } }
	fn := x.fn["getSourceDbList"]
	gl := x.g("getSourceDbList")
	var lr *ast.RangeStmt
	core.Inspect(fn.Decl.Body, func(n ast.Node) bool {
		if r, ok := n.(*ast.RangeStmt); ok {
			if _, isMap := x.info.TypeOf(r.X).Underlying().(*types.Map); isMap {
				lr = r
			}
		}
		return true
	})
	if lr == nil || lr.Key == nil || lr.Value == nil {
		x.c.Undecidedf("R5.dbs", "getSourceDbList/lists-every-db", fn.Decl.Pos(), "no `for db, number := range keyspace` loop")
		return
	}
	k, v := c07.Obj(x.info, lr.Key), c07.Obj(x.info, lr.Value)
	lh, lb := c07.RangeBlocks(gl, lr)
	// the append of this database to a list: `l = append(l, ..db..)` as one of the (possibly several) assignments
	// of the statement
	isApp := func(n ast.Node) bool {
		as, ok := n.(*ast.AssignStmt)
		if !ok || len(as.Lhs) != len(as.Rhs) {
			return false
		}
		for i, r := range as.Rhs {
			call, isC := ast.Unparen(r).(*ast.CallExpr)
			if !isC || len(call.Args) < 2 {
				continue
			}
			if bi, isB := core.Callee(x.info, call).(*types.Builtin); !isB || bi.Name() != "append" {
				continue
			}
			if l := c07.Obj(x.info, as.Lhs[i]); l == nil || l != c07.Obj(x.info, call.Args[0]) {
				continue
			}
			for _, a := range call.Args[1:] {
				if is(a, k) {
					return true
				}
			}
		}
		return false
	}
	// An edge may skip the append only when it cannot be taken for a non-empty, unfiltered database: the branch
	// condition (any boolean combination, either polarity, guard clause or nested form, parts held in locals of
	// the loop body) is evaluated for FilterDB(db) = false and every relevant key count n >= 1; the atoms are
	// FilterDB(db) and linear comparisons of the count with constants.
	var crit []int64 // counts at which some comparison changes its value
	atom := func(e ast.Expr, n int64, q bool) (val, ok bool) {
		e = ast.Unparen(e)
		if call, isC := e.(*ast.CallExpr); isC && c07.CalleeF(x.info, call) == filterDB.Obj && len(call.Args) == 1 && is(call.Args[0], k) {
			return q, true
		}
		var num ast.Expr
		ast.Inspect(e, func(m ast.Node) bool {
			if y, isE := m.(ast.Expr); isE && num == nil && c07.Obj(x.info, c07.Strip(x.info, y)) == v {
				if _, isID := ast.Unparen(y).(*ast.Ident); isID {
					num = y
				}
			}
			return num == nil
		})
		cmpv, okc := lin.CmpOf(x.info, e, true)
		if num == nil || !okc || len(cmpv.F.Coef) != 1 {
			return false, false
		}
		co := cmpv.F.Coef[lin.Key(x.info, num)]
		if co == 0 {
			return false, false
		}
		crit = append(crit, -cmpv.F.Const/co)
		t := co*n + cmpv.F.Const
		switch cmpv.Op {
		case token.EQL:
			return t == 0, true
		case token.NEQ:
			return t != 0, true
		case token.LSS:
			return t < 0, true
		}
		return t <= 0, true
	}
	var eval func(e ast.Expr, n int64, q bool) (bool, bool)
	eval = func(e ast.Expr, n int64, q bool) (bool, bool) {
		e = ast.Unparen(e)
		if id, isID := e.(*ast.Ident); isID && c07.Within(posOf(c07.Obj(x.info, id)), lr.Body) {
			if d := pat.DefOf(x.info, id); d != nil {
				e = ast.Unparen(d) // a condition held in a single-assignment local of the loop body
			}
		}
		switch t := e.(type) {
		case *ast.CallExpr: // a parameterless predicate closure bound once: `keep := func() bool { return <cond> }`
			if id, isID := ast.Unparen(t.Fun).(*ast.Ident); isID && len(t.Args) == 0 {
				if lit, isLit := ast.Unparen(pat.DefOf(x.info, id)).(*ast.FuncLit); isLit && len(lit.Body.List) == 1 {
					if ret, isRet := lit.Body.List[0].(*ast.ReturnStmt); isRet && len(ret.Results) == 1 {
						return eval(ret.Results[0], n, q)
					}
				}
			}
		case *ast.UnaryExpr:
			if t.Op == token.NOT {
				r, ok := eval(t.X, n, q)
				return !r, ok
			}
		case *ast.BinaryExpr:
			if t.Op == token.LAND || t.Op == token.LOR {
				a, ok1 := eval(t.X, n, q)
				bb, ok2 := eval(t.Y, n, q)
				if t.Op == token.LAND {
					return a && bb, ok1 && ok2
				}
				return a || bb, ok1 && ok2
			}
		}
		return atom(e, n, q)
	}
	// A condition that mentions the database or its key count but cannot be evaluated over the two atoms leaves
	// what is decided here: its edges are followed for a definite verdict and cut for the optimistic one.
	optimistic, unevaluable := false, false
	mentions := func(e ast.Expr) bool {
		found := false
		ast.Inspect(e, func(n ast.Node) bool {
			if id, isID := n.(*ast.Ident); isID {
				o := c07.Obj(x.info, id)
				found = found || o == k || o == v || o != nil && c07.Within(posOf(o), lr.Body)
			}
			return !found
		})
		return found
	}
	skipOK := func(b *cfg.Block, s int) bool {
		cond := cfgq.CondOf(b)
		if cond == nil || len(b.Succs) != 2 {
			return false
		}
		want := s == 0
		crit = crit[:0]
		if _, ok := eval(cond, 1, false); !ok {
			if mentions(cond) {
				unevaluable = true
				return optimistic
			}
			return false
		}
		samples := []int64{1, 2, 1 << 40}
		for _, t := range crit {
			samples = append(samples, t-1, t, t+1)
		}
		for _, n := range samples {
			if n < 1 {
				continue
			}
			if r, _ := eval(cond, n, false); r == want { // the edge can be taken for a non-empty, unfiltered database
				return false
			}
		}
		return true
	}
	if miss := c07.ReachBlock2(gl, cfgq.Point{B: lb}, isApp, skipOK, lh); miss && unevaluable {
		optimistic = true
		if !c07.ReachBlock2(gl, cfgq.Point{B: lb}, isApp, skipOK, lh) {
			x.c.Undecidedf("R5.dbs", "getSourceDbList/lists-every-db", lr.Pos(), "a condition on the database or its key count is not a combination of `count > 0` and FilterDB(db): not evaluated")
			return
		}
		optimistic = false
	}
	if miss := c07.ReachBlock2(gl, cfgq.Point{B: lb}, isApp, skipOK, lh); miss && !c07.ReachBlock2(gl, cfgq.Point{B: lb}, cfgq.Or(isApp, handsOver(k, isApp)), skipOK, lh) {
		x.c.Undecidedf("R5.dbs", "getSourceDbList/lists-every-db", lr.Pos(), "an iteration ends without a direct append of the database, but hands it to a function that is not followed")
		return
	}
	x.c.Check("R5.dbs", "getSourceDbList/lists-every-db", lr.Pos(), !c07.ReachBlock2(gl, cfgq.Point{B: lb}, isApp, skipOK, lh),
		"every non-empty, unfiltered database reported by `info keyspace` must be put into the db list: a database left out is never scanned")
}

// ---- R6

func (x *rx) errors() {
	type site struct {
		m     string
		pred  func(*ast.CallExpr) bool
		name  string
		retOK bool
	}
	scanF := x.scannerMethod("ScanKey")
	redigo := func(method string) func(*ast.CallExpr) bool {
		return func(call *ast.CallExpr) bool {
			f := c07.CalleeF(x.info, call)
			return f != nil && f.Name() == method && f.Pkg() != nil && strings.HasSuffix(f.Pkg().Path(), "redigo/redis") && f.Type().(*types.Signature).Recv() != nil
		}
	}
	callee := func(f *types.Func) func(*ast.CallExpr) bool {
		return func(call *ast.CallExpr) bool { return c07.CalleeF(x.info, call) == f }
	}
	sites := []site{
		{"doFetch", callee(scanF), "ScanKey", true}, {"doFetch", redigo("Do"), "Do", true},
		{"fetcher", callee(x.fn["doFetch"].Obj), "doFetch", false},
		{"writeSend", redigo("Flush"), "Flush", false}, {"receiver", redigo("Receive"), "Receive", false},
		{"exec", callee(x.fn["getSourceDbList"].Obj), "getSourceDbList", false},
		{"getSourceDbList", redigo("Do"), "Do", true},
	}
	for _, s := range sites {
		fn := x.fn[s.m]
		calls := x.calls(fn.Decl.Body, s.pred)
		if len(calls) == 0 {
			x.c.Undecidedf("R6.error", s.m+"/"+s.name, fn.Decl.Pos(), "no %s call found in %s", s.name, s.m)
		}
		regs := map[*ast.CallExpr]*region{}
		if s.m == "doFetch" && s.name == "Do" && x.pipeReg != nil && x.pipeReg.call != nil {
			for _, call := range x.calls(x.pipeReg.fn.Decl.Body, s.pred) {
				calls = append(calls, call)
				regs[call] = x.pipeReg
			}
			c07.ErrCheck(x.c, x.g(s.m), x.info, fn.Decl.Body, x.pipeReg.call, c07.ErrSpec{Rule: "R6.error", Key: "doFetch/pipeline-helper", RetOK: true,
				Consequence: "a failed DUMP/PTTL pipeline goes unnoticed: the page is silently not copied while the run reports success"})
		}
		for _, call := range calls {
			if r := regs[call]; r != nil {
				c07.ErrCheck(x.c, r.g, x.info, r.fn.Decl.Body, call, c07.ErrSpec{Rule: "R6.error", Key: "doFetch/Do:pipeline", RetOK: true,
					Consequence: "the failed Do goes unnoticed: the page it concerns is silently not copied while the run reports success"})
				continue
			}
			key := s.m + "/" + s.name
			if _, cm, _ := cmd(x.info, call); cm != "" && s.name == "Do" {
				key += ":" + cm
			} else if s.name == "Do" {
				key += ":pipeline"
			}
			c07.ErrCheck(x.c, x.g(s.m), x.info, fn.Decl.Body, call, c07.ErrSpec{Rule: "R6.error", Key: key, RetOK: s.retOK,
				Consequence: "the failed " + s.name + " goes unnoticed: the page / batch / database it concerns is silently not copied while the run reports success"})
		}
	}
	if sk := x.c.FuncOpt(pkgScanner, "NormalScanner", "ScanKey"); sk != nil {
		info := sk.Pkg.TypesInfo
		g := cfgq.Of(x.c.Program, sk)
		for _, call := range core.Calls(sk.Decl.Body, info, func(call *ast.CallExpr, _ types.Object) bool {
			_, cm, _ := cmd(info, call)
			f := c07.CalleeF(info, call)
			return cm == "SCAN" || f != nil && f.Name() == "Scan" && strings.HasSuffix(f.Pkg().Path(), "redigo/redis")
		}) {
			c07.ErrCheck(x.c, g, info, sk.Decl.Body, call, c07.ErrSpec{Rule: "R6.error", Key: "NormalScanner.ScanKey/" + c07.CalleeF(info, call).Name(), RetOK: true,
				Consequence: "a failed SCAN is taken for an empty last page: the rest of the keyspace is silently not copied"})
		}
	}
}

// isRewrite: e is `KeyExists == "rewrite"` (eq=true) or `KeyExists != "rewrite"` (eq=false).
func isRewrite(info *types.Info, e ast.Expr, eq bool) bool {
	be, ok := ast.Unparen(e).(*ast.BinaryExpr)
	if !ok || be.Op != token.EQL && be.Op != token.NEQ || (be.Op == token.EQL) != eq {
		return false
	}
	for _, pr := range [][2]ast.Expr{{be.X, be.Y}, {be.Y, be.X}} {
		if s, ok := core.StringConst(info, pr[1]); ok && s == "rewrite" && core.IsFieldNamed(info, pr[0], "Configuration", "KeyExists") {
			return true
		}
	}
	return false
}

// selectRules: uses (restore sends) are reached only after a select or an equality with the tracker; every select records; the tracker starts at 0 outside the loop.
func (x *rx) selectRules(where string, g *cfgq.Graph, start cfgq.Point, head *cfg.Block, tracker types.Object, isTr, isDB func(ast.Expr) bool, isSelect func(ast.Node) bool, uses []cfgq.Point, loop *ast.BlockStmt) {
	isAssign := func(n ast.Node) bool {
		as, ok := n.(*ast.AssignStmt)
		return ok && len(as.Lhs) == 1 && len(as.Rhs) == 1 && isTr(as.Lhs[0]) && isDB(as.Rhs[0])
	}
	equal := func(b *cfg.Block, s int) bool {
		return c07.EdgeFact(g, b, s, func(f cfgq.Fact) bool {
			be, ok := ast.Unparen(f.Expr).(*ast.BinaryExpr)
			if !ok || be.Op != token.EQL && be.Op != token.NEQ {
				return false
			}
			return (isTr(be.X) && isDB(be.Y) || isTr(be.Y) && isDB(be.X)) && (be.Op == token.EQL) == f.Val
		})
	}
	// a call that hands the wanted database or the tracker to a function of this module: the select may be sent
	// (and recorded) there
	handsDB := func(n ast.Node) bool {
		for _, call := range cfgq.ExecCalls(n) {
			if h := x.c.FnOf(c07.CalleeF(x.info, call)); h == nil || h.Decl.Body == nil || !strings.Contains(h.Pkg.PkgPath, "redis-shake") || strings.HasSuffix(h.Pkg.PkgPath, "/log") {
				continue // only the program's own helpers can send commands on its connections
			}
			for _, a := range call.Args {
				if isDB(a) || isTr(a) {
					return true
				}
				if u, isAddr := ast.Unparen(a).(*ast.UnaryExpr); isAddr && u.Op == token.AND && isTr(u.X) {
					return true
				}
			}
		}
		return false
	}
	for i, up := range uses {
		w := g.Path(cfgq.Query{From: start, Avoid: isSelect, AvoidEdge: equal, Target: c07.IsNode(up.Node())})
		if w != nil && g.Path(cfgq.Query{From: start, Avoid: cfgq.Or(isSelect, handsDB), AvoidEdge: equal, Target: c07.IsNode(up.Node())}) == nil {
			x.c.Undecidedf("R3.select", fmt.Sprintf("%s/reach#%d", where, i+1), up.Node().Pos(), "the wanted database is handed to a helper before the key is written: whether it sends `select` is not followed")
			continue
		}
		x.check("R3.select", fmt.Sprintf("%s/reach#%d", where, i+1), up.Node().Pos(), w, "the key is written without `select` having been sent and without the tracker having been found equal to the wanted db: it lands in whatever database the connection was left on")
	}
	sels := g.Points(isSelect)
	for i, sp := range sels {
		okArg := false
		for _, call := range cfgq.ExecCalls(sp.Node()) {
			if _, cm, _ := cmd(x.info, call); cm == "SELECT" && len(call.Args) == 2 && isDB(call.Args[1]) {
				okArg = true
			}
		}
		x.c.Check("R3.select", fmt.Sprintf("%s/select-arg#%d", where, i+1), sp.Node().Pos(), okArg, "`select` must be sent with the wanted database of this key")
		before := g.Path(cfgq.Query{From: start, Avoid: isAssign, Target: c07.IsNode(sp.Node())})
		after := false
		if head != nil {
			after = c07.ReachBlock(g, sp, true, isAssign, head)
		} else {
			after = g.Path(cfgq.Query{From: sp, After: true, Avoid: isAssign, TargetExit: c07.NormalExit}) != nil
		}
		x.c.Check("R3.select", fmt.Sprintf("%s/select-records#%d", where, i+1), sp.Node().Pos(), !(before != nil && after),
			"`select` is sent without recording the database in the tracker: after keys of db 1 a key of db 0 finds tracker == 0, sends no select and lands in db 1", before...)
	}
	if len(sels) == 0 && len(g.Points(handsDB)) > 0 {
		x.c.Undecidedf("R3.select", where+"/select-arg#1", start.B.Stmt.Pos(), "no `select` is sent here, but the wanted database is handed to a helper that may send it")
	} else if len(sels) == 0 {
		x.c.Failf("R3.select", where+"/select-arg", start.B.Stmt.Pos(), "no `select` is ever sent: every key lands in database 0")
	}
	if loop != nil {
		v, isC := initOf(x.info, x.fn[where].Decl.Body, tracker)
		outside := !(loop.Pos() <= tracker.Pos() && tracker.Pos() < loop.End())
		x.c.Check("R3.select", where+"/tracker-init", tracker.Pos(), isC && v == 0 && outside, "the tracker must start at 0 (database of a fresh connection) and live across iterations")
	}
}

func initOf(info *types.Info, body ast.Node, v types.Object) (int64, bool) {
	var val int64
	found := false
	core.InspectAll(body, func(n ast.Node) bool {
		switch s := n.(type) {
		case *ast.ValueSpec:
			for i, id := range s.Names {
				if info.Defs[id] == v {
					if len(s.Values) == 0 {
						val, found = 0, true
					} else if i < len(s.Values) {
						val, found = core.IntConst(info, s.Values[i])
					}
				}
			}
		case *ast.AssignStmt:
			for i, l := range s.Lhs {
				if id, ok := l.(*ast.Ident); ok && info.Defs[id] == v && len(s.Lhs) == len(s.Rhs) {
					val, found = core.IntConst(info, s.Rhs[i])
				}
			}
		}
		return true
	})
	return val, found
}
