// Consumer loops of a channel (range or receive loop), element fields carried in locals, integer comparisons.
package c16

import (
	"go/ast"
	"go/token"
	"go/types"

	"golang.org/x/tools/go/cfg"

	"rscheck/cfgq"
	"rscheck/core"
	"rscheck/lin"
	"rscheck/pat"
	"rscheck/rules/c07"
)

func (l *chanLoop) Pos() token.Pos { return l.stmt.Pos() }

// blocks returns the head of the loop, the point at which the work on one element starts and the block after the loop.
func (l *chanLoop) blocks(g *cfgq.Graph) (head *cfg.Block, start cfgq.Point, done *cfg.Block) {
	head, body := c07.RangeBlocks(g, l.stmt)
	start = cfgq.Point{B: body}
	done = blockOf(g, cfg.KindRangeDone, l.stmt)
	if l.recv != nil {
		done = blockOf(g, cfg.KindForDone, l.stmt)
		if p, ok := g.Find(l.recv); ok {
			start = cfgq.Point{B: p.B, I: p.I + 1}
		}
	}
	return
}

// closed: the edge on which the receive reported a closed channel (`ok` false): the loop ends there legitimately.
func (l *chanLoop) closed(x *rx, g *cfgq.Graph) func(*cfg.Block, int) bool {
	return func(b *cfg.Block, s int) bool {
		if l.okVar == nil {
			return false
		}
		return c07.EdgeFact(g, b, s, func(f cfgq.Fact) bool { return !f.Val && c07.Obj(x.info, f.Expr) == l.okVar })
	}
}

func (x *rx) chanLoopOf(m, field string) *chanLoop {
	var out *chanLoop
	body := x.fn[m].Decl.Body
	core.Inspect(body, func(n ast.Node) bool {
		switch st := n.(type) {
		case *ast.RangeStmt:
			if x.field(st.X) == field && out == nil {
				out = &chanLoop{stmt: st, Body: st.Body}
				if st.Key != nil {
					out.elem = c07.Obj(x.info, st.Key)
				}
			}
		case *ast.AssignStmt:
			if len(st.Lhs) != 2 || len(st.Rhs) != 1 || out != nil {
				return true
			}
			u, ok := ast.Unparen(st.Rhs[0]).(*ast.UnaryExpr)
			if !ok || u.Op != token.ARROW || x.field(u.X) != field {
				return true
			}
			var f *ast.ForStmt
			for _, a := range core.PathTo(body, st) {
				switch l := a.(type) {
				case *ast.ForStmt:
					if !c07.OnceLoop(l) {
						f = l
					}
				case *ast.RangeStmt:
					f = nil
				}
			}
			if f != nil && f.Cond == nil {
				out = &chanLoop{stmt: f, Body: f.Body, recv: st, elem: c07.Obj(x.info, st.Lhs[0]), okVar: c07.Obj(x.info, st.Lhs[1])}
			}
		}
		return true
	})
	return out
}

func blockOf(g *cfgq.Graph, kind cfg.BlockKind, s ast.Stmt) *cfg.Block {
	for _, b := range g.CFG.Blocks {
		if b.Kind == kind && b.Stmt == s {
			return b
		}
	}
	return nil
}

// eleField: e is <ele>.<name> for the element variable ele of type *KeyNode.
func (x *rx) eleField(e ast.Expr, ele types.Object, name string) bool {
	sel, ok := c07.Strip(x.info, e).(*ast.SelectorExpr)
	return ok && core.IsFieldNamed(x.info, sel, "KeyNode", name) && c07.Obj(x.info, sel.X) == ele
}

// eleFieldAt is eleField for an argument evaluated at point `at` of graph g, looking through a local that was
// defined once from the field (`ttl := ele.pttl`) provided the field is not assigned between that definition and
// the use (otherwise the local would hold a stale value).
func (x *rx) eleFieldAt(g *cfgq.Graph, at cfgq.Point, e ast.Expr, ele types.Object, name string) bool {
	if x.eleField(e, ele, name) {
		return true
	}
	id, ok := c07.Strip(x.info, e).(*ast.Ident)
	if !ok {
		return false
	}
	d := pat.DefOf(x.info, id)
	if d == nil || !x.eleField(d, ele, name) {
		return false
	}
	dp, ok := g.Find(d)
	if !ok {
		return false
	}
	writes := func(n ast.Node) bool {
		as, ok := n.(*ast.AssignStmt)
		if !ok {
			return false
		}
		for _, l := range as.Lhs {
			if x.eleField(l, ele, name) {
				return true
			}
		}
		return false
	}
	use := at.Node()
	for _, wp := range g.Points(writes) {
		redef := c07.IsNode(dp.Node()) // executing the definition again refreshes the local
		if g.Path(cfgq.Query{From: dp, After: true, Target: c07.IsNode(wp.Node()), Avoid: cfgq.Or(c07.IsNode(use), redef)}) != nil &&
			g.Path(cfgq.Query{From: wp, After: true, Target: c07.IsNode(use), Avoid: redef}) != nil {
			return false
		}
	}
	return true
}

// intCmp decides what the fact f says about `<lhs> == k`: (true, true) it is established, (false, true) its
// negation is established, (_, false) nothing. The comparison is read in linear normal form (package lin), so
// `x == k`, `k == x`, `x+2 == 0`, `!(x != k)`, a case arm over another constant, `x >= 0` (for negative k) ... are
// all understood; named constants are folded by go/types.
func intCmp(info *types.Info, f cfgq.Fact, isLHS func(ast.Expr) bool, k int64) (eq, ok bool) {
	var atom ast.Expr
	ast.Inspect(f.Expr, func(n ast.Node) bool {
		if e, isE := n.(ast.Expr); isE && atom == nil && isLHS(e) {
			atom = e
		}
		return atom == nil
	})
	if atom == nil {
		return false, false
	}
	cmp, isCmp := lin.CmpOf(info, f.Expr, f.Val)
	if !isCmp || len(cmp.F.Coef) != 1 {
		return false, false
	}
	a := cmp.F.Coef[lin.Key(info, atom)]
	if a != 1 && a != -1 {
		return false, false
	}
	c := cmp.F.Const // a*x + c op 0
	switch cmp.Op {
	case token.EQL: // x == -c/a
		return -c*a == k, true
	case token.NEQ:
		if -c*a == k {
			return false, true
		}
	case token.LSS, token.LEQ:
		strict := cmp.Op == token.LSS
		if a == 1 { // x < -c  (or <=)
			if k > -c || strict && k == -c {
				return false, true
			}
		} else { // -x + c < 0  <=>  x > c (or >=)
			if k < c || strict && k == c {
				return false, true
			}
		}
	}
	return false, false
}
