// Helper lifting for the writer rules of C16: properties of the element's treatment are followed into
// same-package helpers that are handed the element (predicate helpers by outcome, others by all returns).
package c16

import (
	"go/ast"
	"go/token"
	"go/types"
	"strings"

	"golang.org/x/tools/go/cfg"

	"rscheck/cfgq"
	"rscheck/core"
	"rscheck/pat"
	"rscheck/rules/c07"
)

// wscope is a function body in which the element taken from keyChan is known under the name ele: the writer's
// loop, or a same-package helper that is handed the element (parameter bound to the argument).
type wscope struct {
	g    *cfgq.Graph
	ele  types.Object
	root ast.Node
}

// wprop is a property of the element's treatment that a node establishes when executed ("pttl was set to 0") or
// that an edge establishes when taken ("pttl != -1").
type wprop struct {
	node func(sc *wscope, n ast.Node) bool
	fact func(sc *wscope, f cfgq.Fact) bool
}

// sub follows a call that hands the element to a function of this package.
func (x *rx) sub(sc *wscope, call *ast.CallExpr) *wscope {
	idx := -1
	for i, a := range call.Args {
		if c07.Obj(x.info, a) == sc.ele {
			idx = i
		}
	}
	if idx < 0 {
		return nil
	}
	f := c07.CalleeF(x.info, call)
	if f == nil {
		return nil // builtin (append)
	}
	h := x.c.FnOf(f)
	if h == nil || h.Decl.Body == nil || h.Pkg != x.fn["writer"].Pkg {
		if f.Pkg() != nil && strings.HasPrefix(f.Pkg().Path(), core.Module) && !strings.HasSuffix(f.Pkg().Path(), "/log") {
			x.opaque = true
		}
		return nil
	}
	i := 0
	for _, fl := range h.Decl.Type.Params.List {
		for _, nm := range fl.Names {
			if i == idx {
				x.c.Functions[h.Name()] = true
				return &wscope{g: cfgq.Of(x.c.Program, h), ele: x.info.Defs[nm], root: h.Decl.Body}
			}
			i++
		}
	}
	return nil
}

const maxFollow = 2

// nodeHas: executing n establishes p, directly or because n calls a helper all of whose normal returns do.
func (x *rx) nodeHas(sc *wscope, p wprop, n ast.Node, depth int) bool {
	if p.node != nil && p.node(sc, n) {
		return true
	}
	if depth >= maxFollow {
		return false
	}
	for _, call := range cfgq.ExecCalls(n) {
		if hs := x.sub(sc, call); hs != nil && x.summary(hs, p, nil, depth+1) {
			return true
		}
	}
	return false
}

// edgeHas: leaving b through successor s establishes p: by a fact of the condition, or because the condition is
// the outcome of a predicate helper all of whose returns with that outcome establish p.
func (x *rx) edgeHas(sc *wscope, p wprop, b *cfg.Block, s int, depth int) bool {
	return c07.EdgeFact(sc.g, b, s, func(f cfgq.Fact) bool {
		if p.fact != nil && p.fact(sc, f) {
			return true
		}
		call, ok := ast.Unparen(f.Expr).(*ast.CallExpr)
		if !ok || depth >= maxFollow {
			return false
		}
		hs := x.sub(sc, call)
		val := f.Val
		return hs != nil && x.summary(hs, p, &val, depth+1)
	})
}

// summary: every path of the helper to a normal return (with the given boolean outcome, if any) establishes p.
func (x *rx) summary(hs *wscope, p wprop, outcome *bool, depth int) bool {
	w := hs.g.Path(cfgq.Query{From: hs.g.Entry(),
		Avoid:     func(n ast.Node) bool { return x.nodeHas(hs, p, n, depth) },
		AvoidEdge: func(b *cfg.Block, s int) bool { return x.edgeHas(hs, p, b, s, depth) },
		TargetExit: func(b *cfg.Block, k cfgq.ExitKind) bool {
			if !c07.NormalExit(b, k) {
				return false
			}
			if outcome == nil {
				return true
			}
			if len(b.Nodes) == 0 {
				return false
			}
			ret, ok := b.Nodes[len(b.Nodes)-1].(*ast.ReturnStmt)
			if !ok || len(ret.Results) != 1 {
				return false
			}
			if tv, ok := x.info.Types[ret.Results[0]]; ok && tv.Value != nil {
				return (tv.Value.String() == "true") == *outcome
			}
			x.opaque = true // a computed outcome: not followed
			return true
		}})
	return w == nil
}

// argsAre judges the arguments of a command against the fields of the element they must carry. ok: every
// argument is the right field (directly or through a local that is still fresh at the call). unknown: none is
// definitely wrong, but some argument is a local whose value is not followed (computed, re-assigned or possibly
// stale); a local bound once to another field of the element or to a constant is definitely wrong.
func (x *rx) argsAre(g *cfgq.Graph, at cfgq.Point, ele types.Object, args []ast.Expr, names ...string) (ok, unknown bool) {
	ok = true
	wrong := false
	for i, a := range args {
		if x.eleFieldAt(g, at, a, ele, names[i]) {
			continue
		}
		ok = false
		id, isID := c07.Strip(x.info, a).(*ast.Ident)
		var v *types.Var
		isVar := false
		if isID {
			v, isVar = c07.Obj(x.info, id).(*types.Var)
		}
		if !isVar || v.IsField() || v.Pkg() == nil || v.Parent() == v.Pkg().Scope() {
			wrong = true // not a local: the expression itself is not the field
			continue
		}
		d := pat.DefOf(x.info, id)
		if d == nil {
			unknown = true
			continue
		}
		d = c07.Strip(x.info, d)
		if tv, has := x.info.Types[d]; has && tv.Value != nil {
			wrong = true
		} else if sel, isSel := d.(*ast.SelectorExpr); isSel && c07.Obj(x.info, sel.X) == ele && !x.eleField(d, ele, names[i]) {
			wrong = true
		} else {
			unknown = true
		}
	}
	return ok, unknown && !wrong
}

type wsite struct {
	sc *wscope
	p  cfgq.Point
}

// sites lists the nodes accepted by direct in sc and in the helpers that sc hands the element to.
func (x *rx) sites(sc *wscope, direct func(sc *wscope, n ast.Node) bool, depth int) []wsite {
	var out []wsite
	for _, p := range sc.g.Points(func(n ast.Node) bool { return c07.Within(n, sc.root) }) {
		if direct(sc, p.Node()) {
			out = append(out, wsite{sc, p})
		}
		if depth < maxFollow {
			for _, call := range cfgq.ExecCalls(p.Node()) {
				if hs := x.sub(sc, call); hs != nil {
					out = append(out, x.sites(hs, direct, depth+1)...)
				}
			}
		}
	}
	return out
}

// verdict records a path-query result; a failure while some helper taking the element could not be followed is
// UNDECIDED, not a violation.
func (x *rx) verdict(rule, key string, pos token.Pos, w []string, detail string) {
	if w != nil && x.opaque {
		x.c.Undecidedf(rule, key, pos, "not established, but a helper that is handed the element could not be followed: %s", detail)
		return
	}
	x.c.Check(rule, key, pos, w == nil, detail, w...)
}
