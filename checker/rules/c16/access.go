// R1.access / R1.callers of C16: who may touch the two channels.
package c16

import (
	"fmt"
	"go/ast"
	"go/token"
	"go/types"

	"rscheck/core"
)

// ---- R1

func (x *rx) access() {
	pk := x.fn["exec"].Pkg
	want := map[string]map[string]string{
		"keyChan":    {"send": "doFetch", "range": "writer", "close": "fetcher", "make": "exec"},
		"resultChan": {"send": "writeSend", "range": "receiver", "close": "writer", "make": "exec"},
	}
	for _, ch := range []string{"keyChan", "resultChan"} {
		uses := map[string][]string{}
		for _, file := range pk.Syntax {
			for _, d := range file.Decls {
				fd, ok := d.(*ast.FuncDecl)
				if !ok || fd.Body == nil {
					continue
				}
				var stack []ast.Node
				ast.Inspect(fd.Body, func(n ast.Node) bool {
					if n == nil {
						stack = stack[:len(stack)-1]
						return false
					}
					stack = append(stack, n)
					e, ok := n.(*ast.SelectorExpr)
					if !ok || !core.IsFieldNamed(x.info, e, exe, ch) || len(stack) < 2 {
						return true
					}
					kind := "other"
					switch p := stack[len(stack)-2].(type) {
					case *ast.SendStmt:
						if p.Chan == ast.Expr(e) {
							kind = "send"
						}
					case *ast.RangeStmt:
						if p.X == ast.Expr(e) {
							kind = "range"
						}
					case *ast.UnaryExpr: // `v, ok := <-ch` in the stage's loop: the other spelling of ranging over the channel
						if p.Op == token.ARROW && len(stack) >= 3 {
							if as, ok := stack[len(stack)-3].(*ast.AssignStmt); ok && len(as.Lhs) == 2 {
								kind = "range"
							}
						}
					case *ast.CallExpr:
						if b, ok := core.Callee(x.info, p).(*types.Builtin); ok {
							switch b.Name() {
							case "close":
								kind = "close"
							case "len", "cap":
								kind = "len"
							}
						}
					case *ast.AssignStmt:
						if len(p.Lhs) == 1 && p.Lhs[0] == ast.Expr(e) && len(p.Rhs) == 1 {
							if call, ok := p.Rhs[0].(*ast.CallExpr); ok {
								if b, ok := core.Callee(x.info, call).(*types.Builtin); ok && b.Name() == "make" {
									kind = "make"
								}
							}
						}
					}
					uses[kind] = append(uses[kind], fd.Name.Name)
					return true
				})
			}
		}
		bad := ""
		for kind, where := range want[ch] {
			if len(uses[kind]) != 1 || uses[kind][0] != where {
				bad += fmt.Sprintf(" %s in %v (expected once in %s);", kind, uses[kind], where)
			}
		}
		if len(uses["other"]) > 0 {
			bad += fmt.Sprintf(" unclassified uses in %v;", uses["other"])
		}
		if bad != "" {
			x.c.Undecidedf("R1.access", ch, token.NoPos, "who-may-access table of %s differs from the recognised pipeline:%s", ch, bad)
		} else {
			x.c.Okf("R1.access", ch, token.NoPos, "%s: made in exec, sent only in %s, ranged only in %s, closed only in %s", ch, want[ch]["send"], want[ch]["range"], want[ch]["close"])
		}
	}
	// the sending helpers are called only from the closer of their channel
	for helper, owner := range map[string]string{"doFetch": "fetcher", "writeSend": "writer"} {
		okAll := true
		for _, file := range pk.Syntax {
			for _, d := range file.Decls {
				fd, isF := d.(*ast.FuncDecl)
				if !isF || fd.Body == nil || x.info.Defs[fd.Name] == types.Object(x.fn[owner].Obj) {
					continue
				}
				for range core.CallsAll(fd.Body, x.info, func(_ *ast.CallExpr, o types.Object) bool { return o == types.Object(x.fn[helper].Obj) }) {
					okAll = false
				}
			}
		}
		if okAll {
			x.c.Okf("R1.callers", helper, x.fn[helper].Decl.Pos(), "%s is called only from %s (which closes the channel after its last call)", helper, owner)
		} else {
			x.c.Undecidedf("R1.callers", helper, x.fn[helper].Decl.Pos(), "%s is called outside %s: sends may race with the close", helper, owner)
		}
	}
}
