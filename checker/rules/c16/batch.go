// The writer's batch as a location: a slice variable, or a slice field of a struct that holds the writer's pending
// state; handed to writeSend by value (the fresh slice comes back as a result) or through a pointer (writeSend
// resets it in place).
package c16

import (
	"go/ast"
	"go/types"

	"rscheck/cfgq"
	"rscheck/core"
	"rscheck/pat"
	"rscheck/rules/c07"
)

// loc is a variable or a field path below a variable (through pointers).
type loc struct {
	root types.Object
	path string
}

func (x *rx) locOf(e ast.Expr) (loc, bool) {
	switch t := ast.Unparen(e).(type) {
	case *ast.Ident:
		if o := c07.Obj(x.info, t); o != nil {
			if _, isVar := o.(*types.Var); isVar {
				return loc{o, ""}, true
			}
		}
	case *ast.StarExpr:
		return x.locOf(t.X)
	case *ast.SelectorExpr:
		if sel := x.info.Selections[t]; sel != nil && sel.Kind() == types.FieldVal {
			if in, ok := x.locOf(t.X); ok {
				if in.path != "" {
					return loc{in.root, in.path + "." + t.Sel.Name}, true
				}
				return loc{in.root, t.Sel.Name}, true
			}
		}
	}
	return loc{}, false
}

func isNodeSlice(t types.Type) bool {
	s, ok := t.Underlying().(*types.Slice)
	if !ok {
		return false
	}
	p, ok := s.Elem().Underlying().(*types.Pointer)
	return ok && core.NamedTypeName(p.Elem()) == "KeyNode"
}

// batchParam describes how writeSend receives the batch, from its signature.
type batchParam struct {
	idx   int
	at    loc  // the batch inside writeSend
	byPtr bool // handed through a pointer: reset in place
}

func (x *rx) batchParamOf() (batchParam, bool) {
	fn := x.fn["writeSend"]
	i := 0
	for _, f := range fn.Decl.Type.Params.List {
		for _, nm := range f.Names {
			o := x.info.Defs[nm]
			t := o.Type()
			byPtr := false
			if p, isP := t.Underlying().(*types.Pointer); isP {
				t, byPtr = p.Elem(), true
			}
			if isNodeSlice(t) {
				return batchParam{i, loc{o, ""}, byPtr}, true
			}
			if st, isS := t.Underlying().(*types.Struct); isS && byPtr {
				field, n := "", 0
				for k := 0; k < st.NumFields(); k++ {
					if isNodeSlice(st.Field(k).Type()) {
						field = st.Field(k).Name()
						n++
					}
				}
				if n == 1 {
					return batchParam{i, loc{o, field}, true}, true
				}
			}
			i++
		}
	}
	return batchParam{}, false
}

// givenBatch: the call of writeSend is handed the batch of the writer loop.
func (x *rx) givenBatch(call *ast.CallExpr, bp batchParam, batch loc) bool {
	if bp.idx >= len(call.Args) {
		return false
	}
	arg := ast.Unparen(call.Args[bp.idx])
	if !bp.byPtr {
		l, ok := x.locOf(arg)
		return ok && l == batch
	}
	// the holder: `&h`, or an expression that is itself a pointer to it (a pointer local stands for its pointee:
	// selections through it have the same field path)
	holder := arg
	if u, isAddr := arg.(*ast.UnaryExpr); isAddr && u.Op.String() == "&" {
		holder = u.X
	} else if t := x.info.TypeOf(arg); t == nil {
		return false
	} else if _, isPtr := t.Underlying().(*types.Pointer); !isPtr {
		return false
	}
	l, ok := x.locOf(holder)
	if !ok || l.root != batch.root {
		return false
	}
	want := bp.at.path // field of the pointed-to struct, "" for a pointer to the slice itself
	switch {
	case l.path == "":
		return batch.path == want
	case want == "":
		return batch.path == l.path
	}
	return batch.path == l.path+"."+want
}

// fresh: the expression is an empty slice that shares nothing with the old batch.
func (x *rx) fresh(e ast.Expr) bool {
	e = ast.Unparen(e)
	if core.IsNil(x.info, e) {
		return true
	}
	if cl, ok := e.(*ast.CompositeLit); ok {
		return len(cl.Elts) == 0
	}
	call, ok := e.(*ast.CallExpr)
	if !ok || len(call.Args) < 2 {
		return false
	}
	if bi, isB := core.Callee(x.info, call).(*types.Builtin); !isB || bi.Name() != "make" {
		return false
	}
	n, isC := core.IntConst(x.info, call.Args[1])
	return isC && n == 0
}

// resetsInPlace: writeSend replaces the batch behind its pointer parameter by a fresh slice on every path to a
// normal return. known is false when it assigns the location in a form that is not recognised as fresh.
func (x *rx) resetsInPlace(bp batchParam) (ok, known bool) {
	g := x.g("writeSend")
	known = true
	isReset := func(n ast.Node) bool {
		as, isAs := n.(*ast.AssignStmt)
		if !isAs || len(as.Lhs) != len(as.Rhs) {
			return false
		}
		for i, l := range as.Lhs {
			if ll, isL := x.locOf(l); isL && ll == bp.at {
				if x.fresh(as.Rhs[i]) {
					return true
				}
				known = false
			}
		}
		return false
	}
	ok, _ = c07.MustPass(g, g.Entry(), false, isReset)
	if !ok && len(g.Points(func(n ast.Node) bool { return x.handsHolder(n, bp) })) > 0 {
		known = false // the holder is handed to a function or method that is not followed: it may reset the batch
	}
	return ok, known
}

// handsHolder: executing n calls something that is handed the pointer through which writeSend received the batch
// (as receiver or argument): what happens to the batch there is not followed.
func (x *rx) handsHolder(n ast.Node, bp batchParam) bool {
	for _, call := range cfgq.ExecCalls(n) {
		if sel, ok := ast.Unparen(call.Fun).(*ast.SelectorExpr); ok {
			if s := x.info.Selections[sel]; s != nil && s.Kind() == types.MethodVal {
				if l, isL := x.locOf(sel.X); isL && l.root == bp.at.root && l.path == "" {
					return true
				}
			}
		}
		for _, a := range call.Args {
			if l, isL := x.locOf(a); isL && l.root == bp.at.root && l.path == "" {
				if _, isB := core.Callee(x.info, call).(*types.Builtin); !isB {
					return true
				}
			}
		}
	}
	return false
}

// isBatchIn: inside writeSend, e denotes the batch that was handed in: the parameter location itself, or a local
// bound once to it.
func (x *rx) isBatchIn(e ast.Expr, bp batchParam) bool {
	if l, ok := x.locOf(e); ok && l == bp.at {
		return true
	}
	if id, ok := ast.Unparen(e).(*ast.Ident); ok {
		if d := pat.DefOf(x.info, id); d != nil {
			if l, isL := x.locOf(d); isL && l == bp.at {
				return true
			}
		}
	}
	return false
}

// readAfterReset: inside writeSend the batch is read (copied into its local, or iterated directly) on a path on
// which it was already replaced by the fresh slice: the old elements are lost.
func (x *rx) readAfterReset(bp batchParam, read ast.Node) []string {
	g := x.g("writeSend")
	isReset := func(n ast.Node) bool {
		as, isAs := n.(*ast.AssignStmt)
		if !isAs {
			return false
		}
		for _, l := range as.Lhs {
			if ll, isL := x.locOf(l); isL && ll == bp.at {
				return true
			}
		}
		return false
	}
	for _, p := range g.Points(isReset) {
		if p.Node() == read {
			continue
		}
		if w := g.Path(cfgq.Query{From: p, After: true, Target: func(n ast.Node) bool { return n == read || c07.Within(read, n) && n != p.Node() }}); w != nil {
			return w
		}
	}
	return nil
}
