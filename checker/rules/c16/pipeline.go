// R4 of C16: DUMP/PTTL pipelines, KeyNode alignment and key filtering in doFetch, following one level of
// same-package helpers (parameters bound to the caller's arguments, results to the caller's variables).
package c16

import (
	"fmt"
	"go/ast"
	"go/token"
	"go/types"

	"golang.org/x/tools/go/cfg"

	"rscheck/cfgq"
	"rscheck/core"
	"rscheck/pat"
	"rscheck/rules/c07"
)

// region is the function in which a piece of doFetch's work lives.
type region struct {
	fn   *core.Fn
	g    *cfgq.Graph
	call *ast.CallExpr                 // call site in doFetch; nil when the region is doFetch itself
	as   *ast.AssignStmt               // statement binding the helper's results
	bind map[types.Object]types.Object // helper parameter -> object of the caller's argument (nil: not a plain variable)
}

// arg maps an object of the region to the caller's object.
func (r *region) arg(o types.Object) types.Object {
	if r.call == nil {
		return o
	}
	return r.bind[o]
}

// helperWith finds a call in doFetch to a function of the same package whose body contains a call accepted by pred.
func (x *rx) helperWith(pred func(*ast.CallExpr) bool) *region {
	fn := x.fn["doFetch"]
	var out *region
	for _, call := range x.calls(fn.Decl.Body, func(*ast.CallExpr) bool { return true }) {
		h := x.c.FnOf(c07.CalleeF(x.info, call))
		if h == nil || h.Decl.Body == nil || h.Pkg != fn.Pkg || h.Obj == fn.Obj || len(x.calls(h.Decl.Body, pred)) == 0 {
			continue
		}
		r := &region{fn: h, g: cfgq.Of(x.c.Program, h), call: call, bind: map[types.Object]types.Object{}}
		i := 0
		for _, f := range h.Decl.Type.Params.List {
			for _, nm := range f.Names {
				if i < len(call.Args) {
					r.bind[x.info.Defs[nm]] = c07.Obj(x.info, call.Args[i])
				}
				i++
			}
		}
		path := core.PathTo(fn.Decl.Body, call)
		if len(path) >= 2 {
			if as, ok := path[len(path)-2].(*ast.AssignStmt); ok && len(as.Rhs) == 1 {
				r.as = as
			}
		}
		x.c.Functions[h.Name()] = true
		out = r
	}
	return out
}

func loopOf(body, n ast.Node) *ast.RangeStmt {
	var r *ast.RangeStmt
	for _, a := range core.PathTo(body, n) {
		if rs, ok := a.(*ast.RangeStmt); ok {
			r = rs
		}
	}
	return r
}

// iter is a loop that visits every element of a slice once, in order: `for i, k := range s` or
// `for i := 0; i < len(s); i++` (elements written s[i]).
type iter struct {
	stmt  ast.Stmt
	body  *ast.BlockStmt
	slice ast.Expr     // the slice operand
	idx   types.Object // index variable (nil: none)
	val   types.Object // element variable of a range loop (nil: elements are written slice[idx])
}

func (x *rx) iterOf(body, n ast.Node) *iter {
	var it *iter
	for _, a := range core.PathTo(body, n) {
		switch l := a.(type) {
		case *ast.RangeStmt:
			it = &iter{stmt: l, body: l.Body, slice: l.X}
			if l.Key != nil {
				it.idx = c07.Obj(x.info, l.Key)
			}
			if l.Value != nil {
				it.val = c07.Obj(x.info, l.Value)
			}
		case *ast.ForStmt:
			if c07.OnceLoop(l) {
				continue
			}
			cnt := c07.LoopCount(x.info, l)
			call, ok := cnt.(*ast.CallExpr)
			if cnt == nil || !ok || len(call.Args) != 1 || !c07.ZeroBased(x.info, l) {
				it = nil
				continue
			}
			if id, isID := call.Fun.(*ast.Ident); !isID || id.Name != "len" {
				it = nil
				continue
			}
			b := pat.Expr("_i < _n").Match(x.info, l.Cond, nil)
			it = &iter{stmt: l, body: l.Body, slice: call.Args[0], idx: c07.Obj(x.info, b["_i"].(ast.Expr))}
		}
	}
	return it
}

// elem: e is the element of the iteration (the range value, or slice[idx], possibly through a local).
func (x *rx) elem(it *iter, e ast.Expr) bool {
	e = c07.Through(x.info, e)
	if it.val != nil && c07.Obj(x.info, e) == it.val {
		return true
	}
	ix, ok := e.(*ast.IndexExpr)
	return ok && it.idx != nil && c07.Obj(x.info, ix.Index) == it.idx && c07.Obj(x.info, ix.X) != nil && c07.Obj(x.info, ix.X) == c07.Obj(x.info, it.slice)
}

func (x *rx) isDo(n ast.Node) bool {
	for _, call := range cfgq.ExecCalls(n) {
		if m, _, _ := cmd(x.info, call); m == "Do" {
			return true
		}
	}
	return false
}

func (x *rx) pipelines(fn *core.Fn, g *cfgq.Graph, scans []cfgq.Point, isScan func(ast.Node) bool, isDB func(ast.Expr) bool) {
	body := fn.Decl.Body
	isCmd := func(m, c string) func(*ast.CallExpr) bool {
		return func(call *ast.CallExpr) bool { mm, cm, _ := cmd(x.info, call); return mm == m && cm == c }
	}
	reg := &region{fn: fn, g: g}
	if len(x.calls(body, isCmd("Send", "DUMP"))) == 0 {
		if h := x.helperWith(isCmd("Send", "DUMP")); h != nil {
			reg = h
		}
	}
	x.pipeReg = reg
	rg, rbody := reg.g, reg.fn.Decl.Body
	dumpS, pttlS := rg.Points(x.cmdNode("Send", "DUMP")), rg.Points(x.cmdNode("Send", "PTTL"))
	var keyChanSend *ast.SendStmt
	core.Inspect(body, func(n ast.Node) bool {
		if s, ok := n.(*ast.SendStmt); ok && x.field(s.Chan) == "keyChan" {
			keyChanSend = s
		}
		return true
	})
	// a pipeline that is absent altogether: provable only when no function of this package is called from the
	// region any more (everything that could send it has been expanded in place)
	if len(dumpS) == 0 || len(pttlS) == 0 {
		opaque := len(x.calls(rbody, func(call *ast.CallExpr) bool {
			h := x.c.FnOf(c07.CalleeF(x.info, call))
			return h != nil && h.Decl.Body != nil && h.Pkg == fn.Pkg
		}))
		if opaque == 0 {
			if len(dumpS) == 0 {
				x.c.Failf("R4.pipeline", "doFetch/dump-per-key", fn.Decl.Pos(), "no `DUMP <key>` is pipelined to the source: the keys of the page have no payload to restore")
			}
			if len(pttlS) == 0 {
				x.c.Failf("R4.pipeline", "doFetch/pttl-per-key", fn.Decl.Pos(), "no `PTTL <key>` is pipelined to the source (found %d DUMP pipelines): the keys are restored with the wrong or no time-to-live", len(dumpS))
			}
			return
		}
	}
	if len(dumpS) != 1 || len(pttlS) != 1 || keyChanSend == nil {
		x.c.Undecidedf("R4.pipeline", "doFetch", fn.Decl.Pos(), "expected one Send(\"DUMP\"), one Send(\"PTTL\") (in doFetch or one helper) and one send on keyChan; found %d/%d", len(dumpS), len(pttlS))
		return
	}
	ld, lp, lk := x.iterOf(rbody, dumpS[0].Node()), x.iterOf(rbody, pttlS[0].Node()), x.iterOf(body, keyChanSend)
	if ld == nil || lp == nil || lk == nil {
		x.c.Undecidedf("R4.pipeline", "doFetch", fn.Decl.Pos(), "DUMP/PTTL/keyChan sends are not each inside a range loop")
		return
	}
	// a slice carried in the field of a context struct literal stands for the value the literal was given
	sliceObj := func(e ast.Expr) types.Object {
		if d := c07.LitField(x.info, e); d != nil {
			e = d
		}
		return c07.Obj(x.info, e)
	}
	keys := sliceObj(lk.slice)
	kd, kp := reg.arg(sliceObj(ld.slice)), reg.arg(sliceObj(lp.slice))
	if keys == nil || kd == nil || kp == nil {
		x.c.Undecidedf("R4.align", "doFetch/same-slice", lk.stmt.Pos(), "the slices iterated by the pipelines / the KeyNode loop are not plain variables (or not passed as such to the helper)")
	} else {
		x.c.Check("R4.align", "doFetch/same-slice", lk.stmt.Pos(), kd == keys && kp == keys,
			"the DUMP pipeline, the PTTL pipeline and the loop that builds the KeyNodes must iterate the same key slice: otherwise reply i of one pipeline belongs to another key than keys[i] and keys receive foreign values/TTLs")
	}
	argIsVal := func(p cfgq.Point, it *iter, command string) bool {
		for _, call := range cfgq.ExecCalls(p.Node()) {
			if _, cm, recv := cmd(x.info, call); cm == command {
				return len(call.Args) == 2 && x.elem(it, call.Args[1]) && x.field(recv) == "sourceClient"
			}
		}
		return false
	}
	x.c.Check("R4.pipeline", "doFetch/dump-per-key", dumpS[0].Node().Pos(), argIsVal(dumpS[0], ld, "DUMP"), "exactly `DUMP <key>` is pipelined to the source for every key of the page")
	x.c.Check("R4.pipeline", "doFetch/pttl-per-key", pttlS[0].Node().Pos(), argIsVal(pttlS[0], lp, "PTTL"), "exactly `PTTL <key>` is pipelined to the source for every key of the page")
	w := rg.Path(cfgq.Query{From: dumpS[0], After: true, Avoid: x.isDo, Target: x.cmdNode("Send", "PTTL")})
	if w == nil {
		w = rg.Path(cfgq.Query{From: pttlS[0], After: true, Avoid: x.isDo, Target: x.cmdNode("Send", "DUMP")})
	}
	x.check("R4.pipeline", "doFetch/collect-between", ld.stmt.Pos(), w, "the replies of one pipeline must be collected (Do(\"\")) before the other pipeline is sent: otherwise DUMP and PTTL replies are mixed in one reply array and values/TTLs are attributed to the wrong keys")
	// the KeyNode literal
	// the node is `&KeyNode{...}` written in the send, or a local bound once to such a literal whose fields may
	// be completed by assignments (`node.value = ...`) that every path from the literal to the send executes
	sent := ast.Unparen(keyChanSend.Value)
	var nodeVar types.Object
	if id, isID := sent.(*ast.Ident); isID {
		if d := pat.DefOf(x.info, id); d != nil {
			sent, nodeVar = ast.Unparen(d), c07.Obj(x.info, id)
		}
	}
	cl, _ := sent.(*ast.UnaryExpr)
	var lit *ast.CompositeLit
	if cl != nil {
		lit, _ = ast.Unparen(cl.X).(*ast.CompositeLit)
	}
	if lit == nil || core.NamedTypeName(x.info.TypeOf(lit)) != "KeyNode" {
		x.c.Undecidedf("R4.align", "doFetch/keynode", keyChanSend.Pos(), "the value sent on keyChan is not a &KeyNode{...} literal")
		return
	}
	fields := map[string]ast.Expr{}
	st := x.info.TypeOf(lit).Underlying().(*types.Struct)
	for i, el := range lit.Elts {
		if kv, ok := el.(*ast.KeyValueExpr); ok {
			fields[kv.Key.(*ast.Ident).Name] = kv.Value
		} else if i < st.NumFields() {
			fields[st.Field(i).Name()] = el
		}
	}
	if nodeVar != nil {
		defP, okD := g.Find(core.PathTo(body, lit)[0])
		for _, p := range core.PathTo(body, lit) { // the statement that holds the literal
			if st, isSt := p.(ast.Stmt); isSt {
				if q, found := g.Find(st); found {
					defP, okD = q, true
				}
			}
		}
		sendP, okS := g.Find(keyChanSend)
		undecided := !okD || !okS
		for _, p := range g.Points(func(n ast.Node) bool { return c07.Within(n, lk.body) }) {
			as, isAs := p.Node().(*ast.AssignStmt)
			if !isAs {
				continue
			}
			for i, l := range as.Lhs {
				sel, isSel := ast.Unparen(l).(*ast.SelectorExpr)
				if !isSel || c07.Obj(x.info, sel.X) != nodeVar {
					continue
				}
				r := core.AssignedTo(as, i)
				always := okD && okS && g.Path(cfgq.Query{From: defP, After: true, Avoid: c07.IsNode(as), Target: c07.IsNode(sendP.Node())}) == nil
				if r == nil || !always {
					undecided = true
					continue
				}
				fields[sel.Sel.Name] = r
			}
		}
		if undecided {
			x.c.Undecidedf("R4.align", "doFetch/keynode", keyChanSend.Pos(), "the KeyNode sent on keyChan is completed by field assignments that are not executed on every path (or not single values)")
			return
		}
	}
	idx := lk.idx
	// trace: which pipeline filled the slice variable (of the region)?
	// The slice may have received the replies through copies (a result of an expanded helper, a field of a
	// dissolved result struct): every value it can hold is traced, all of them must come from the same pipeline.
	var trace func(slice types.Object, conv string, depth int) string
	trace = func(slice types.Object, conv string, depth int) string {
		got := map[string]bool{}
		for _, p := range rg.Points(func(n ast.Node) bool { as, _ := assignsLoc(x.info, n, slice); return as != nil }) {
			as, r := assignsLoc(x.info, p.Node(), slice)
			if as != nil && r == nil && len(as.Rhs) == 1 && c07.Obj(x.info, as.Lhs[0]) == slice {
				r = as.Rhs[0] // `slice, err = conv(reply, err)`
			}
			if as == nil || r == nil {
				got["?"] = true
				continue
			}
			if core.IsNil(x.info, c07.Strip(x.info, r)) {
				continue // the zero value it is declared with: `var s []T`, `s := ([]T)(nil)`
			}
			call, ok := ast.Unparen(r).(*ast.CallExpr)
			if !ok {
				if src, isV := c07.Obj(x.info, r).(*types.Var); isV && !src.IsField() && depth < 3 && types.Object(src) != slice {
					got[trace(src, conv, depth+1)] = true
				} else if !core.IsNil(x.info, r) {
					got["?"] = true
				}
				continue
			}
			if f := c07.CalleeF(x.info, call); f == nil || f.Name() != conv || len(call.Args) != 2 {
				got["?"] = true
				continue
			}
			reply := c07.Obj(x.info, call.Args[0])
			// the Do("") that produced the reply, possibly through copies (`reply, err := r.reply, r.err`)
			var doPoints func(v types.Object, depth int) []cfgq.Point
			doPoints = func(v types.Object, depth int) []cfgq.Point {
				var out []cfgq.Point
				for _, q := range rg.Points(func(n ast.Node) bool {
					as, isAs := n.(*ast.AssignStmt)
					if !isAs {
						return false
					}
					for _, l := range as.Lhs {
						if c07.Obj(x.info, l) == v {
							return true
						}
					}
					return false
				}) {
					if x.isDo(q.Node()) {
						out = append(out, q)
						continue
					}
					as := q.Node().(*ast.AssignStmt)
					for i, l := range as.Lhs {
						if c07.Obj(x.info, l) == v && len(as.Lhs) == len(as.Rhs) && depth < 3 {
							if src := c07.Obj(x.info, as.Rhs[i]); src != nil && src != v {
								out = append(out, doPoints(src, depth+1)...)
							}
						}
					}
				}
				return out
			}
			found := "?"
			for _, dp := range doPoints(reply, 0) {
				if rg.Path(cfgq.Query{From: dp, After: true, Avoid: x.isDo, Target: c07.IsNode(p.Node())}) == nil {
					continue
				}
				fromDump := rg.Path(cfgq.Query{From: dumpS[0], After: true, Avoid: x.isDo, Target: c07.IsNode(dp.Node())}) != nil
				fromPttl := rg.Path(cfgq.Query{From: pttlS[0], After: true, Avoid: x.isDo, Target: c07.IsNode(dp.Node())}) != nil
				switch {
				case fromDump && !fromPttl:
					found = "DUMP"
				case fromPttl && !fromDump:
					found = "PTTL"
				}
			}
			got[found] = true
		}
		if len(got) == 1 {
			for k := range got {
				return k
			}
		}
		return "?"
	}
	source := func(e ast.Expr, conv string) (string, bool) {
		ix, ok := c07.Through(x.info, e).(*ast.IndexExpr)
		if !ok || idx == nil || c07.Obj(x.info, ix.Index) != idx {
			return "", false
		}
		slice := c07.Obj(x.info, ix.X)
		if reg.call == nil {
			return trace(slice, conv, 0), true
		}
		// result binding: slice is the j-th result of the helper
		j := -1
		if reg.as != nil {
			for i, l := range reg.as.Lhs {
				if c07.Obj(x.info, l) == slice {
					j = i
				}
			}
		}
		if j < 0 {
			return "?", true
		}
		got := ""
		core.Inspect(rbody, func(n ast.Node) bool {
			ret, ok := n.(*ast.ReturnStmt)
			if !ok || len(ret.Results) != len(reg.as.Lhs) || core.IsNil(x.info, ret.Results[j]) {
				return true
			}
			t := "?"
			if o := c07.Obj(x.info, ret.Results[j]); o != nil {
				t = trace(o, conv, 0)
			}
			if got != "" && got != t {
				t = "?"
			}
			got = t
			return true
		})
		if got == "" {
			got = "?"
		}
		return got, true
	}
	x.c.Check("R4.align", "doFetch/keynode-key", lit.Pos(), fields["key"] != nil && x.elem(lk, fields["key"]), "KeyNode.key must be the key of this iteration")
	for _, f := range []struct{ field, conv, pipe string }{{"value", "Strings", "DUMP"}, {"pttl", "Int64s", "PTTL"}} {
		src, sameIdx := "", false
		if fields[f.field] != nil {
			src, sameIdx = source(fields[f.field], f.conv)
		}
		switch {
		case !sameIdx:
			x.c.Failf("R4.align", "doFetch/keynode-"+f.field, lit.Pos(), "KeyNode.%s must be element [i] of the %s replies with i the index of this key in the key slice; found `%s`: keys receive the value/TTL of another key", f.field, f.pipe, x.c.Src(fields[f.field]))
		case src == "?":
			x.c.Undecidedf("R4.align", "doFetch/keynode-"+f.field, lit.Pos(), "cannot trace `%s` back to the Do(\"\") that collected the %s pipeline", x.c.Src(fields[f.field]), f.pipe)
		default:
			x.c.Check("R4.align", "doFetch/keynode-"+f.field, lit.Pos(), src == f.pipe, fmt.Sprintf("KeyNode.%s is taken from the replies of the %s pipeline, it must come from %s", f.field, src, f.pipe))
		}
	}
	x.c.Check("R3.db", "doFetch/keynode-db", lit.Pos(), fields["db"] != nil && isDB(fields["db"]), "KeyNode.db must be the database being fetched")
	// R4.keys: the slice is not modified between the pipelines (nor, with a helper, before the KeyNodes are built)
	rkeys := sliceObj(ld.slice)
	w = rg.Path(cfgq.Query{From: dumpS[0], After: true, Avoid: isScan, Target: func(n ast.Node) bool { a, _ := c07.AssignsTo(x.info, n, rkeys); return a != nil }})
	if w == nil && reg.call != nil {
		if cp, ok := g.Find(reg.call); ok {
			w = g.Path(cfgq.Query{From: cp, After: true, Avoid: isScan, Target: func(n ast.Node) bool {
				a, _ := c07.AssignsTo(x.info, n, keys)
				return a != nil && n != ast.Node(reg.as)
			}})
		}
	}
	x.check("R4.keys", "doFetch/stable-between-pipelines", ld.stmt.Pos(), w, "the key slice is modified after DUMP was pipelined for it: indexes of dumps/pttls no longer refer to the same keys")
	x.filterRules(fn, g, scans, keys)
}

// filterRules: the scanned page is filtered by FilterKey into the slice the pipelines use.
func (x *rx) filterRules(fn *core.Fn, g *cfgq.Graph, scans []cfgq.Point, keys types.Object) {
	body := fn.Decl.Body
	filterF := x.c.LookupFunc("redis-shake/filter", "", "FilterKey")
	if filterF == nil {
		x.c.Undecidedf("R4.keys", "doFetch/filter", fn.Decl.Pos(), "filter.FilterKey not resolved")
		return
	}
	isFilter := func(call *ast.CallExpr) bool { return c07.CalleeF(x.info, call) == filterF.Obj }
	reg := &region{fn: fn, g: g}
	if len(x.calls(body, isFilter)) == 0 {
		if h := x.helperWith(isFilter); h != nil {
			reg = h
		}
	}
	rg, rbody := reg.g, reg.fn.Decl.Body
	// the loop that visits the scanned page: a range or an index loop over the whole slice
	var fit *iter
	for _, call := range x.calls(rbody, isFilter) {
		fit = x.iterOf(rbody, call)
	}
	var fl ast.Stmt
	if fit != nil {
		fl = fit.stmt
	}
	var raw types.Object
	if as, ok := scans[0].Node().(*ast.AssignStmt); ok {
		raw = c07.Obj(x.info, as.Lhs[0])
	}
	if fit == nil || raw == nil || reg.arg(c07.Obj(x.info, fit.slice)) != raw {
		x.c.Undecidedf("R4.keys", "doFetch/filter", fn.Decl.Pos(), "no loop over the scanned keys applying FilterKey (in doFetch or one helper given the scanned page)")
		return
	}
	kept := keys
	if reg.call != nil { // the helper's result must be what the pipelines iterate; inside, the kept slice is the local that is returned
		if reg.as == nil || len(reg.as.Lhs) != 1 || c07.Obj(x.info, reg.as.Lhs[0]) != keys {
			x.c.Undecidedf("R4.keys", "doFetch/filter", reg.call.Pos(), "the result of the filtering helper is not bound to the slice the pipelines iterate")
			return
		}
		kept = nil
		okRet := true
		param := c07.Obj(x.info, fit.slice)
		core.Inspect(rbody, func(n ast.Node) bool {
			if ret, ok := n.(*ast.ReturnStmt); ok {
				o := types.Object(nil)
				if len(ret.Results) == 1 {
					o = c07.Obj(x.info, ret.Results[0])
				}
				switch {
				case o == nil:
					okRet = false
				case o == param:
				case kept == nil || kept == o:
					kept = o
				default:
					okRet = false
				}
			}
			return true
		})
		if !okRet || kept == nil {
			x.c.Undecidedf("R4.keys", "doFetch/filter", reg.call.Pos(), "the filtering helper does not return one local slice (or its parameter)")
			return
		}
	}
	fh, fb := c07.RangeBlocks(rg, fl)
	isKey := func(e ast.Expr) bool { return x.elem(fit, e) } // the key of this iteration
	// the kept slice: the slice the pipelines iterate, or a local whose value flows into it after the loop and
	// before it is read: through copies (`keys = kept`, a result variable of an expanded helper) and through the
	// field of a struct literal (`page := &scannedPage{keys: r}`), transitively
	keptSet := map[types.Object]bool{kept: true}
	type link struct {
		node ast.Node
		dst  types.Object
		src  *types.Var
	}
	var links []link
	addLink := func(n ast.Node, dst types.Object, r ast.Expr) {
		if src, isV := c07.Obj(x.info, r).(*types.Var); isV && !src.IsField() && types.Object(src) != raw && c07.Within(posOf(src), rbody) {
			links = append(links, link{n, dst, src})
		}
	}
	for _, p := range rg.Points(func(ast.Node) bool { return true }) {
		n := p.Node()
		if as, isAs := n.(*ast.AssignStmt); isAs && len(as.Lhs) == len(as.Rhs) {
			for i, l := range as.Lhs {
				if o := c07.Obj(x.info, l); o != nil {
					addLink(n, o, as.Rhs[i])
				}
			}
		}
		ast.Inspect(n, func(m ast.Node) bool {
			if cl, isCL := m.(*ast.CompositeLit); isCL {
				for _, el := range cl.Elts {
					if kvp, isKV := el.(*ast.KeyValueExpr); isKV {
						if fid, isID := kvp.Key.(*ast.Ident); isID {
							if fo := x.info.Uses[fid]; fo != nil {
								addLink(n, fo, kvp.Value)
							}
						}
					}
				}
			}
			return true
		})
	}
	reads := func(o types.Object, except ast.Node) func(ast.Node) bool {
		return func(n ast.Node) bool {
			if n == except {
				return false
			}
			found := false
			ast.Inspect(n, func(m ast.Node) bool {
				if id, isID := m.(*ast.Ident); isID && x.info.Uses[id] == o {
					found = true
				}
				return !found
			})
			return found
		}
	}
	for changed, round := true, 0; changed && round < 4 && kept != nil; round++ {
		changed = false
		for _, l := range links {
			if !keptSet[l.dst] || keptSet[l.src] {
				continue
			}
			// the copy is executed after the loop on every way to a read of its target
			if rg.Path(cfgq.Query{From: cfgq.Point{B: fh}, Avoid: c07.IsNode(l.node), Target: reads(l.dst, l.node), AvoidEdge: func(b *cfg.Block, s int) bool {
				return b.Succs[s] == fb
			}}) == nil {
				keptSet[l.src] = true
				changed = true
			}
		}
	}
	isKeep := func(n ast.Node) bool {
		b := pat.Stmt("_k = append(_k, _v)").Match(x.info, n, nil)
		return b != nil && keptSet[c07.Obj(x.info, b["_k"].(ast.Expr))] && isKey(b["_v"].(ast.Expr))
	}
	filtered := func(val bool) func(*cfg.Block, int) bool {
		return func(b *cfg.Block, s int) bool {
			return c07.EdgeFact(rg, b, s, func(f cfgq.Fact) bool {
				e := f.Expr
				v := f.Val
				if be, ok := ast.Unparen(e).(*ast.BinaryExpr); ok && (be.Op == token.EQL || be.Op == token.NEQ) {
					if tv := x.info.Types[be.Y]; tv.Value != nil {
						e, v = be.X, ((tv.Value.String() == "true") == (be.Op == token.EQL)) == f.Val
					}
				}
				call, ok := ast.Unparen(e).(*ast.CallExpr)
				return ok && isFilter(call) && len(call.Args) == 1 && isKey(call.Args[0]) && v == val
			})
		}
	}
	anyAppend := func(n ast.Node) bool {
		b := pat.Stmt("_k = append(_k, _v)").Match(x.info, n, nil)
		return b != nil && isKey(b["_v"].(ast.Expr))
	}
	if len(rg.Points(isKeep)) == 0 && len(rg.Points(anyAppend)) > 0 {
		x.c.Undecidedf("R4.keys", "doFetch/kept-keys-appended", fl.Pos(), "the keys that pass the filter are appended to a slice whose way into the slice the pipelines iterate is not followed")
		return
	}
	x.c.Check("R4.keys", "doFetch/kept-keys-appended", fl.Pos(), !c07.ReachBlock2(rg, cfgq.Point{B: fb}, isKeep, filtered(true), fh),
		"a scanned key that passes the key filter must be appended to the key slice: otherwise it is never dumped and never copied")
	var wk []string
	for _, p := range rg.Points(isKeep) {
		if wk == nil {
			wk = rg.Path(cfgq.Query{From: cfgq.Point{B: fb}, AvoidEdge: filtered(false), Target: c07.IsNode(p.Node())})
		}
	}
	x.check("R4.keys", "doFetch/filtered-keys-dropped", fl.Pos(), wk, "a key rejected by the key filter is still appended to the key slice and copied")
}

// assignsLoc is c07.AssignsTo for a variable or a struct field (`v = e`, `p.f = e`).
func assignsLoc(info *types.Info, n ast.Node, v types.Object) (*ast.AssignStmt, ast.Expr) {
	as, ok := n.(*ast.AssignStmt)
	if !ok {
		return nil, nil
	}
	for i, l := range as.Lhs {
		switch ast.Unparen(l).(type) {
		case *ast.Ident, *ast.SelectorExpr:
			if c07.Obj(info, l) == v {
				return as, core.AssignedTo(as, i)
			}
		}
	}
	return nil, nil
}
