// Package c16 decides the structural clauses of property C16 (rump: scan-based migration).
package c16

import (
	"fmt"
	"go/ast"
	"go/token"
	"go/types"
	"strings"

	"golang.org/x/tools/go/cfg"

	"rscheck/cfgq"
	"rscheck/core"
	"rscheck/driver"
	"rscheck/pat"
	"rscheck/rules/c07"
	"rscheck/rules/c07/inl"
)

const (
	pkgRun     = "redis-shake"
	pkgScanner = "redis-shake/scanner"
	pkgCommon  = "redis-shake/common"
	exe        = "dbRumperExecutor"
)

var Def = driver.PropDef{
	ID: "C16",
	Explanation: "Structural necessary conditions of the rump pipeline (fetcher -> keyChan -> writer -> resultChan -> receiver -> close flag -> exec), on every path: " +
		"R1 closure chain and who-may-access of both channels (single closer, after the last send; final partial batch flushed before resultChan is closed; close flag set only after the receiver's loop; exec starts the three goroutines and leaves its loop exactly on the flag); " +
		"R2 one RESTORE send and one batch entry per normal key with (key, pttl, value[, REPLACE under key_exists=rewrite]) of this element; writeSend flushes and forwards every batch element; one Receive per element; big keys bypass the batch on their own connection with their own db tracker; " +
		"R3 pttl -1 -> 0, pttl -2 skipped, TargetDB override, select/tracker pairing in writer, RestoreBigkey and doFetch, big-key TTL re-applied; " +
		"R4 DUMP and PTTL pipelines over the same unmodified key slice, each collected by its own Do(\"\"), one index for key/dump/pttl, filtered keys dropped and kept keys appended; " +
		"R5 doFetch leaves its loop only on EndNode() after a ScanKey per round; NormalScanner feeds the returned cursor into the next SCAN and ends on 0; KeyFileScanner ends on a short page; every unfiltered database of dbList is fetched; " +
		"R6 (E7) the errors of ScanKey/Do/Flush/Receive/doFetch/getSourceDbList/restoreBigRdbEntry are tested and lead to a failure exit.",
	NotDecided: "faithfulness of the DUMP payload itself, races with writers on the source (a key recreated between DUMP and PTTL), QoS timing, the unread reply of the pipelined `select` (it shifts reply attribution by one but loses no key), ignored errors of redigo Send (sticky in the connection: the following Flush/Do reports them).",
	Trusted:    []string{"go/parser, go/types, go/cfg (x/tools v0.29.0)", "redigo: Send buffers, Do(\"\") flushes and collects all pending replies, converters forward a non-nil error, write errors are sticky", "channel close/range semantics"},
	Run:        Run,
}

type rx struct {
	opaque  bool    // a helper that is handed the element could not be followed
	pipeReg *region // where the DUMP/PTTL pipelines live (doFetch or a one-level helper)
	c       *core.Ctx
	info    *types.Info
	fn      map[string]*core.Fn
}

// Specs names the anchored functions of C16 for the helper inliner.
var Specs = []inl.Spec{
	{Pkg: pkgRun, Roots: []string{exe + ".exec", exe + ".fetcher", exe + ".doFetch", exe + ".writer", exe + ".writeSend", exe + ".receiver", exe + ".getSourceDbList"},
		Keep:      []string{"Send", "Do", "Flush", "Receive", "ScanKey", "EndNode", "RestoreBigkey", "FilterKey", "FilterDB", "Strings", "Int64s"},
		KeepTypes: []string{"KeyNode"}, KeepFields: []string{"TargetDB", "KeyExists", "keyChan", "resultChan", "close", "previousDb", "dbList"}},
	{Pkg: pkgScanner, Roots: []string{"NormalScanner.ScanKey", "NormalScanner.EndNode", "KeyFileScanner.ScanKey", "KeyFileScanner.EndNode"},
		Keep: []string{"Do", "Scan", "Values", "Text"}, KeepFields: []string{"cursor", "cnt", "ScanKeyNumber"}},
	{Pkg: pkgCommon, Roots: []string{"RestoreBigkey"}, Exclude: []string{"restoreBigRdbEntry"}, Keep: []string{"Do", "restoreBigRdbEntry"}},
}

func Run(c *core.Ctx) {
	c07.Dual(c, Specs, run)
}

func run(c *core.Ctx) {
	x := &rx{c: c, fn: map[string]*core.Fn{}}
	ok := true
	for _, m := range []string{"exec", "fetcher", "doFetch", "writer", "writeSend", "receiver", "getSourceDbList"} {
		if x.fn[m] = c.Func(pkgRun, exe, m); x.fn[m] == nil {
			ok = false
		}
	}
	if !ok {
		return
	}
	x.info = x.fn["exec"].Pkg.TypesInfo
	x.access()
	x.chain()
	x.exec()
	x.writer()
	x.writeSend()
	x.receiver()
	x.bigkey()
	x.doFetch()
	x.scanners()
	x.dbs()
	x.errors()
	x.intset()
	for rule, n := range map[string]int{"R1.access": 2, "R1.close": 3, "R1.exec-loop": 2, "R1.spawn": 3, "R2.restore-send": 4, "R2.batch": 3, "R2.forward": 2,
		"R2.receive": 2, "R2.bigkey": 4, "R3.ttl": 3, "R3.db": 2, "R3.select": 10, "R4.align": 4, "R4.pipeline": 3, "R4.keys": 3, "R5.loop": 3, "R5.scanner": 5, "R5.dbs": 3, "R6.error": 14, "R7.intset": 3} {
		c.Expect(rule, n)
	}
}

// ---- small recognisers

func (x *rx) g(m string) *cfgq.Graph { return cfgq.Of(x.c.Program, x.fn[m]) }

// field reports the struct field of the executor that e selects ("" if none).
func (x *rx) field(e ast.Expr) string {
	if v := core.FieldOf(x.info, e); v != nil {
		if sel := ast.Unparen(e).(*ast.SelectorExpr); core.IsFieldNamed(x.info, sel, exe, sel.Sel.Name) {
			return sel.Sel.Name
		}
	}
	return ""
}

// cmd recognises a redigo-style call <conn>.<Method>("CMD", args...) and returns method, upper-cased command, receiver expression.
func cmd(info *types.Info, call *ast.CallExpr) (method, command string, recv ast.Expr) {
	fun := ast.Unparen(call.Fun)
	if id, isID := fun.(*ast.Ident); isID { // a method value bound once to a local: `send := conn.Send; send("DUMP", k)`
		if d := pat.DefOf(info, id); d != nil {
			fun = ast.Unparen(d)
		}
	}
	sel, ok := fun.(*ast.SelectorExpr)
	if !ok || len(call.Args) == 0 {
		return "", "", nil
	}
	f := c07.CalleeF(info, call)
	if f == nil || f.Pkg() == nil || !strings.HasSuffix(f.Pkg().Path(), "redigo/redis") {
		return "", "", nil
	}
	s, ok := core.StringConst(info, call.Args[0])
	if !ok {
		return "", "", nil
	}
	return sel.Sel.Name, strings.ToUpper(s), sel.X
}

func (x *rx) cmdNode(method, command string) func(ast.Node) bool {
	return func(n ast.Node) bool {
		for _, call := range cfgq.ExecCalls(n) {
			if m, cm, _ := cmd(x.info, call); m == method && cm == command {
				return true
			}
		}
		return false
	}
}

func (x *rx) callNode(f *types.Func) func(ast.Node) bool {
	return func(n ast.Node) bool {
		for _, call := range cfgq.ExecCalls(n) {
			if c07.CalleeF(x.info, call) == f {
				return true
			}
		}
		return false
	}
}

func (x *rx) calls(root ast.Node, pred func(*ast.CallExpr) bool) []*ast.CallExpr {
	return core.Calls(root, x.info, func(call *ast.CallExpr, _ types.Object) bool { return pred(call) })
}

func (x *rx) fieldObj(name string) types.Object {
	tn, _ := x.fn["exec"].Pkg.Types.Scope().Lookup(exe).(*types.TypeName)
	if tn == nil {
		return nil
	}
	st, _ := tn.Type().Underlying().(*types.Struct)
	for i := 0; st != nil && i < st.NumFields(); i++ {
		if st.Field(i).Name() == name {
			return st.Field(i)
		}
	}
	return nil
}

// rangeOver finds the range statement in method m whose operand is the executor field / variable accepted by pred.
func (x *rx) rangeOver(m string, pred func(ast.Expr) bool) *ast.RangeStmt {
	var out *ast.RangeStmt
	core.Inspect(x.fn[m].Decl.Body, func(n ast.Node) bool {
		if rs, ok := n.(*ast.RangeStmt); ok && out == nil && pred(rs.X) {
			out = rs
		}
		return true
	})
	return out
}

// chanLoop is the loop in which a stage takes the elements off its input channel: `for e := range ch` or
// `for { e, ok := <-ch; if !ok { break }; ... }`.
type chanLoop struct {
	stmt  ast.Stmt
	Body  *ast.BlockStmt
	elem  types.Object
	okVar types.Object
	recv  *ast.AssignStmt
}

func (x *rx) check(rule, key string, pos token.Pos, w []string, detail string) {
	x.c.Check(rule, key, pos, w == nil, detail, w...)
}

// verdict3: pass if ok; fail if the deciding branch was recognised (or is absent altogether); undecided if the
// test exists in a form whose edges establish nothing (e.g. inside a disjunction).
func (x *rx) verdict3(rule, key string, pos token.Pos, ok, recognised bool, detail string) {
	if ok || recognised {
		x.c.Check(rule, key, pos, ok, detail)
	} else {
		x.c.Undecidedf(rule, key, pos, "the deciding test is not in a recognised form; cannot establish: %s", detail)
	}
}

func (x *rx) chain() {
	// fetcher closes keyChan on every exit, after the last doFetch
	g := x.g("fetcher")
	closeKey := func(n ast.Node) bool { return c07.BuiltinCallOn(x.info, n, "close", x.fieldObj("keyChan")) }
	_, w := c07.MustPass(g, g.Entry(), false, closeKey)
	x.check("R1.close", "fetcher/keyChan", x.fn["fetcher"].Decl.Pos(), w, "fetcher must close keyChan on every return: otherwise writer, receiver and exec wait forever and the run never terminates after the last cursor")
	for _, p := range g.Points(closeKey) {
		if _, deferred := p.Node().(*ast.DeferStmt); deferred {
			continue // runs at exit, after the last doFetch
		}
		w := g.Path(cfgq.Query{From: p, After: true, Target: x.callNode(x.fn["doFetch"].Obj)})
		x.check("R1.close-last", "fetcher/keyChan", p.Node().Pos(), w, "keyChan is closed while databases are still to be fetched: the next key is sent on a closed channel (panic) and the remaining databases are not copied")
	}
	// writer: final flush, then close(resultChan)
	g = x.g("writer")
	rs := x.chanLoopOf("writer", "keyChan")
	if rs == nil {
		x.c.Undecidedf("R1.final-flush", "writer", x.fn["writer"].Decl.Pos(), "no loop taking the keys off keyChan in writer")
		return
	}
	_, _, done := rs.blocks(g)
	flush := x.callNode(x.fn["writeSend"].Obj)
	closeRes := func(n ast.Node) bool { return c07.BuiltinCallOn(x.info, n, "close", x.fieldObj("resultChan")) }
	w = g.Path(cfgq.Query{From: cfgq.Point{B: done}, Avoid: flush, TargetExit: c07.NormalExit})
	x.check("R1.final-flush", "writer", rs.Pos(), w, "after keyChan is drained writer must flush the last partial batch (writeSend): otherwise the last (key count mod scan.key_number) RESTORE commands stay in the connection buffer and those keys never reach the target")
	_, w = c07.MustPass(g, g.Entry(), false, closeRes)
	x.check("R1.close", "writer/resultChan", x.fn["writer"].Decl.Pos(), w, "writer must close resultChan on every return: otherwise receiver never sets the close flag and exec never terminates")
	w = g.Path(cfgq.Query{From: cfgq.Point{B: done}, Avoid: flush, Target: func(n ast.Node) bool { _, d := n.(*ast.DeferStmt); return !d && closeRes(n) }})
	if w == nil {
		for _, p := range g.Points(closeRes) {
			if _, deferred := p.Node().(*ast.DeferStmt); deferred {
				continue // runs at exit; R1.final-flush covers the order
			}
			if w == nil {
				w = g.Path(cfgq.Query{From: p, After: true, Target: flush})
			}
			if w == nil && c07.Within(p.Node(), rs.Body) {
				w = []string{"close(resultChan) inside the key loop"}
			}
		}
	}
	x.check("R1.close-last", "writer/resultChan", rs.Pos(), w, "resultChan is closed before the final batch was forwarded: writeSend then sends on a closed channel (panic), or exec is told to finish while keys are still unflushed")
	// receiver sets the flag after its loop
	g = x.g("receiver")
	rr := x.chanLoopOf("receiver", "resultChan")
	setClose := func(n ast.Node) bool {
		as, ok := n.(*ast.AssignStmt)
		if !ok || len(as.Lhs) != 1 || len(as.Rhs) != 1 || x.field(as.Lhs[0]) != "close" {
			return false
		}
		tv := x.info.Types[as.Rhs[0]]
		return tv.Value != nil && tv.Value.String() == "true"
	}
	if rr == nil {
		x.c.Undecidedf("R1.close", "receiver/flag", x.fn["receiver"].Decl.Pos(), "no `range resultChan` in receiver")
		return
	}
	_, w = c07.MustPass(g, g.Entry(), false, setClose)
	x.check("R1.close", "receiver/flag", x.fn["receiver"].Decl.Pos(), w, "receiver must set the close flag when resultChan is drained: otherwise exec never terminates")
	w = nil
	for _, p := range g.Points(setClose) {
		if c07.Within(p.Node(), rr.Body) {
			w = []string{"flag set inside the reply loop at " + x.c.Pos(p.Node().Pos())}
		}
	}
	x.check("R1.close-last", "receiver/flag", rr.Pos(), w, "the close flag is set before all replies were received: exec returns (and the process may exit) while RESTORE commands are still in flight, so the last keys can be lost")
}

func (x *rx) exec() {
	g := x.g("exec")
	fn := x.fn["exec"]
	isFlag := func(f cfgq.Fact) (bool, bool) { // (established value, is a fact about the flag)
		if x.field(f.Expr) == "close" {
			return f.Val, true
		}
		if b, ok := ast.Unparen(f.Expr).(*ast.BinaryExpr); ok && (b.Op == token.EQL || b.Op == token.NEQ) {
			for _, pr := range [][2]ast.Expr{{b.X, b.Y}, {b.Y, b.X}} {
				if tv := x.info.Types[pr[1]]; x.field(pr[0]) == "close" && tv.Value != nil {
					return (tv.Value.String() == "true") == ((b.Op == token.EQL) == f.Val), true
				}
			}
		}
		return false, false
	}
	var loop ast.Stmt
	var condPt cfgq.Point
	for _, p := range g.Points(func(n ast.Node) bool { e, ok := n.(ast.Expr); return ok && core.MentionsField(x.info, e, exe, "close") }) {
		for _, a := range core.PathTo(fn.Decl.Body, p.Node()) {
			switch a.(type) {
			case *ast.ForStmt, *ast.RangeStmt:
				loop, condPt = a.(ast.Stmt), p
			}
		}
	}
	if loop == nil {
		x.c.Undecidedf("R1.exec-loop", "exec", fn.Decl.Pos(), "no loop testing the close flag found in exec")
		return
	}
	head, body := c07.RangeBlocks(g, loop)
	doneK := cfg.KindRangeDone
	if _, isFor := loop.(*ast.ForStmt); isFor {
		doneK = cfg.KindForDone
	}
	done := blockOf(g, doneK, loop)
	flagEdge := func(val bool) func(*cfg.Block, int) bool {
		return func(b *cfg.Block, s int) bool {
			return c07.EdgeFact(g, b, s, func(f cfgq.Fact) bool { v, is := isFlag(f); return is && v == val })
		}
	}
	from, cutHead := cfgq.Point{B: body}, true
	if fs, ok := loop.(*ast.ForStmt); ok && fs.Cond != nil {
		from, cutHead = cfgq.Point{B: head}, false
	}
	toHead := func(b *cfg.Block, s int) bool { return b.Succs[s] == head }
	// (a) no way out of the loop unless the flag was seen true
	leak := false
	w := g.Path(cfgq.Query{From: from, TargetExit: c07.NormalExit, AvoidEdge: func(b *cfg.Block, s int) bool {
		if flagEdge(true)(b, s) {
			return true
		}
		if b.Succs[s] == done {
			leak = true
			return true
		}
		return cutHead && toHead(b, s)
	}})
	if leak && w == nil {
		w = []string{"the loop is left without the flag having been read as true"}
	}
	x.check("R1.exec-loop", "only-on-close", loop.Pos(), w, "exec may leave its progress loop only after reading the close flag as true: leaving earlier ends the executor (and the process) while keys are still being fetched/written, so scanned keys are not copied")
	// (b) the flag does end the loop
	out, seen := false, false
	for _, b := range g.CFG.Blocks {
		for s := range b.Succs {
			if !b.Live || !flagEdge(true)(b, s) {
				continue
			}
			seen = true
			t := cfgq.Point{B: b.Succs[s]}
			if t.B == done || c07.ReachBlock2(g, t, nil, toHead, done) || g.Path(cfgq.Query{From: t, AvoidEdge: toHead, TargetExit: c07.NormalExit}) != nil {
				out = true
			}
		}
	}
	x.verdict3("R1.exec-loop", "exit-on-close", loop.Pos(), out, seen, "once the receiver has set the close flag exec must leave its loop: otherwise the run never terminates after the final cursor of the last database")
	// the three goroutines are started before the loop, after the channels exist
	for _, m := range []string{"fetcher", "writer", "receiver"} {
		isGo := func(n ast.Node) bool {
			gs, ok := n.(*ast.GoStmt)
			return ok && c07.CalleeF(x.info, gs.Call) == x.fn[m].Obj
		}
		ok, w := g.Dominated(condPt, isGo)
		n := len(g.Points(isGo))
		x.c.Check("R1.spawn", m, fn.Decl.Pos(), ok && n == 1, fmt.Sprintf("exec must start %s exactly once (found %d go statement(s)) before waiting for the close flag: a missing stage stalls the pipeline (run never ends), a duplicated one sends/receives every key twice or closes a channel twice", m, n), w...)
		for _, p := range g.Points(isGo) {
			for _, ch := range []string{"keyChan", "resultChan"} {
				okc, w := g.Dominated(p, func(n ast.Node) bool {
					as, ok := n.(*ast.AssignStmt)
					return ok && len(as.Lhs) == 1 && x.field(as.Lhs[0]) == ch
				})
				x.c.Check("R1.spawn", m+"/after-make-"+ch, p.Node().Pos(), okc, "the channels must be created before the stages start: a nil channel blocks its sender and receiver forever", w...)
			}
		}
	}
}

// ---- R2/R3 writer

func (x *rx) writer() {
	fn := x.fn["writer"]
	g := x.g("writer")
	rs := x.chanLoopOf("writer", "keyChan")
	if rs == nil {
		return
	}
	ele := rs.elem
	head, start, _ := rs.blocks(g)
	top := &wscope{g: g, ele: ele, root: rs.Body}
	toHead := func(b *cfg.Block, s int) bool { return b.Succs[s] == head }
	hasCmd := func(m, cm string) func(*wscope, ast.Node) bool {
		return func(_ *wscope, n ast.Node) bool { return x.cmdNode(m, cm)(n) }
	}
	restoreP := wprop{node: hasCmd("Send", "RESTORE")}
	isRestore := func(n ast.Node) bool { return x.nodeHas(top, restoreP, n, 0) } // in the loop: a send, or a helper that always sends
	isSelect := x.cmdNode("Send", "SELECT")
	bigF := x.c.LookupFunc(pkgCommon, "", "RestoreBigkey")
	if bigF == nil {
		x.c.Undecidedf("anchor", pkgCommon+".RestoreBigkey", token.NoPos, "anchor missing")
		return
	}
	bigP := wprop{node: func(_ *wscope, n ast.Node) bool { return x.callNode(bigF.Obj)(n) }}
	isBig := func(n ast.Node) bool { return x.nodeHas(top, bigP, n, 0) }
	// batch variable: x = append(x, ele)
	var batch loc
	isAppend := func(n ast.Node) bool {
		b := pat.Stmt("_b = append(_b, _e)").Match(x.info, n, nil)
		if b == nil || c07.Obj(x.info, b["_e"].(ast.Expr)) != ele {
			return false
		}
		l, ok := x.locOf(b["_b"].(ast.Expr))
		if !ok {
			return false
		}
		batch = l
		return true
	}
	inLoop := func(pred func(ast.Node) bool) []cfgq.Point {
		return g.Points(func(n ast.Node) bool { return c07.Within(n, rs.Body) && pred(n) })
	}
	appends := inLoop(isAppend)
	restores := inLoop(isRestore)
	sends := x.sites(top, restoreP.node, 0)
	if len(appends) == 0 || len(sends) == 0 || ele == nil {
		x.c.Undecidedf("R2.batch", "writer", rs.Pos(), "writer loop: found %d `batch = append(batch, ele)` and %d Send(\"RESTORE\") sites (in the loop or in helpers handed the element)", len(appends), len(sends))
		return
	}
	// R2: append only after a send; no two sends / two appends per iteration; final flush uses the batch
	for i, ap := range appends {
		w := g.Path(cfgq.Query{From: start, Avoid: isRestore, Target: c07.IsNode(ap.Node())})
		x.verdict("R2.batch", fmt.Sprintf("writer/append-after-send#%d", i+1), ap.Node().Pos(), w, "a key is put into the batch without a RESTORE having been sent for it: receiver waits for a reply that never comes and the run never terminates")
		w = g.Path(cfgq.Query{From: ap, After: true, Target: isAppend, AvoidEdge: toHead})
		x.check("R2.batch", fmt.Sprintf("writer/one-append#%d", i+1), ap.Node().Pos(), w, "one key is appended to the batch twice: receiver expects two replies for one command and blocks forever on the last one")
	}
	var conns []string
	for i, st := range sends {
		// at most one send per element: inside its function, and among the loop's send nodes
		direct := func(n ast.Node) bool { return restoreP.node(st.sc, n) }
		var w []string
		if st.sc == top {
			w = g.Path(cfgq.Query{From: st.p, After: true, Target: isRestore, AvoidEdge: toHead})
		} else {
			w = st.sc.g.Path(cfgq.Query{From: st.p, After: true, Target: direct})
		}
		x.check("R2.restore-send", fmt.Sprintf("writer/one-send#%d", i+1), st.p.Node().Pos(), w, "two RESTORE commands are sent for one key: without REPLACE the second fails with BUSYKEY and receiver aborts the run although nothing is wrong")
		for _, call := range cfgq.ExecCalls(st.p.Node()) {
			m, cm, recv := cmd(x.info, call)
			if m != "Send" || cm != "RESTORE" {
				continue
			}
			conns = append(conns, x.field(recv))
			if call.Ellipsis.IsValid() { // the argument list is built in a slice
				x.spreadRestore(st, call)
				continue
			}
			e := st.sc.ele
			okArgs, unknown := len(call.Args) >= 4, false
			if okArgs {
				okArgs, unknown = x.argsAre(st.sc.g, st.p, e, call.Args[1:4], "key", "pttl", "value")
			}
			replace := false
			if len(call.Args) == 5 {
				s, _ := core.StringConst(x.info, call.Args[4])
				replace = strings.ToUpper(s) == "REPLACE"
				okArgs = okArgs && replace
			} else if len(call.Args) != 4 {
				okArgs = false
			}
			variant := "plain"
			if replace {
				variant = "replace"
			}
			if unknown {
				x.opaque = true // the rules on ele.pttl below do not see a value carried in a local
				x.c.Undecidedf("R2.restore-send", "writer/args:"+variant, call.Pos(), "an argument of `%s` is carried in a local variable: not followed", x.c.Src(call))
			} else {
				x.c.Check("R2.restore-send", "writer/args:"+variant, call.Pos(), okArgs, "RESTORE must be sent as (key, pttl, value[, REPLACE]) of the element taken from keyChan; found `"+x.c.Src(call)+"`: the key is restored under another name / with another TTL or payload")
			}
			if !replace {
				sg := st.sc.g
				tn := st.p.Node()
				w := sg.Path(cfgq.Query{From: sg.Entry(), Target: c07.IsNode(tn), AvoidEdge: func(b *cfg.Block, s int) bool {
					return c07.EdgeFact(sg, b, s, func(f cfgq.Fact) bool {
						return !f.Val && isRewrite(x.info, f.Expr, true) || f.Val && isRewrite(x.info, f.Expr, false)
					})
				}})
				x.check("R2.restore-send", "writer/replace-on-rewrite", call.Pos(), w, "with key_exists=rewrite the RESTORE must carry REPLACE; this send without REPLACE is reachable under rewrite, so an existing target key answers BUSYKEY and the run aborts instead of overwriting")
			}
		}
	}
	for i := 1; i < len(restores); i++ { // two send nodes in one iteration of the loop
		w := g.Path(cfgq.Query{From: restores[i-1], After: true, Target: c07.IsNode(restores[i].Node()), AvoidEdge: toHead})
		if w != nil {
			x.check("R2.restore-send", "writer/one-send", restores[i].Node().Pos(), w, "two RESTORE commands are sent for one key: without REPLACE the second fails with BUSYKEY and receiver aborts the run although nothing is wrong")
		}
	}
	// final flush is given the batch; inside the loop a flush leaves a fresh batch behind
	bp, okBP := x.batchParamOf()
	for _, call := range x.calls(fn.Decl.Body, func(call *ast.CallExpr) bool { return c07.CalleeF(x.info, call) == x.fn["writeSend"].Obj }) {
		if !okBP {
			x.c.Undecidedf("R2.batch", "writer/final-flush-arg", call.Pos(), "writeSend has no parameter through which a batch of KeyNodes arrives")
			continue
		}
		given := x.givenBatch(call, bp, batch)
		if !c07.Within(call, rs.Body) {
			x.c.Check("R2.batch", "writer/final-flush-arg", call.Pos(), given, "the flush after the loop must be given the batch that the loop filled, otherwise the last partial batch is neither flushed nor confirmed")
			continue
		}
		const resetMsg = "inside the loop the batch must be replaced by a fresh slice when it is flushed (`batch = writeSend(batch, ...)`, or writeSend resetting it through the pointer it is given): otherwise already confirmed keys are forwarded to receiver again, which then waits for replies that never come"
		if bp.byPtr {
			okReset, known := x.resetsInPlace(bp)
			if !okReset && !known {
				x.c.Undecidedf("R2.batch", "writer/flush-resets-batch", call.Pos(), "writeSend assigns the batch behind its pointer parameter in a form that is not recognised as a fresh empty slice")
			} else {
				x.c.Check("R2.batch", "writer/flush-resets-batch", call.Pos(), given && okReset, resetMsg)
			}
			continue
		}
		// the fresh slice that writeSend returns must replace the batch
		as, _ := core.PathTo(rs.Body, call)[len(core.PathTo(rs.Body, call))-2].(*ast.AssignStmt)
		okReset := false
		if as != nil && len(as.Rhs) == 1 && given {
			if sig, isSig := x.fn["writeSend"].Obj.Type().(*types.Signature); isSig && sig.Results().Len() == len(as.Lhs) {
				for i, l := range as.Lhs {
					if ll, isL := x.locOf(l); isL && ll == batch && isNodeSlice(sig.Results().At(i).Type()) {
						okReset = true
					}
				}
			}
		}
		x.c.Check("R2.batch", "writer/flush-resets-batch", call.Pos(), okReset, resetMsg)
	}
	// big keys
	bigs := inLoop(isBig)
	for _, bp := range bigs {
		w := g.Path(cfgq.Query{From: bp, After: true, Target: cfgq.Or(isRestore, isAppend), AvoidEdge: toHead})
		x.check("R2.bigkey", "writer/bypass", bp.Node().Pos(), w, "a big key restored element by element also goes through the RESTORE/batch path: it is written twice (BUSYKEY aborts the run under key_exists=none)")
	}
	var bigArg *ast.CallExpr
	for _, st := range x.sites(top, bigP.node, 0) {
		for _, call := range cfgq.ExecCalls(st.p.Node()) {
			if c07.CalleeF(x.info, call) != bigF.Obj || len(call.Args) != 6 {
				continue
			}
			e := st.sc.ele
			okArgs, unknown := x.argsAre(st.sc.g, st.p, e, call.Args[1:5], "key", "value", "pttl", "db")
			if unknown {
				x.c.Undecidedf("R2.bigkey", "writer/args", call.Pos(), "an argument of `%s` is carried in a local variable: not followed", x.c.Src(call))
			} else {
				x.c.Check("R2.bigkey", "writer/args", call.Pos(), okArgs, "RestoreBigkey must be given (key, value, pttl, db) of this element in parameter order; found `"+x.c.Src(call)+"`")
			}
			sep := x.field(call.Args[0]) != "" && len(conns) > 0 && x.field(call.Args[0]) != conns[0]
			x.c.Check("R2.bigkey", "writer/own-connection", call.Pos(), sep, "big keys must use a connection other than the pipelined one: RestoreBigkey's Do() would consume the pending RESTORE replies that receiver is waiting for, and receiver blocks forever")
			if st.sc == top {
				bigArg = call
			}
		}
	}
	if len(bigs) == 0 {
		x.c.Undecidedf("R2.bigkey", "writer/bypass", rs.Pos(), "no RestoreBigkey call in writer")
	}
	// R3 ttl
	writes := cfgq.Or(isRestore, isBig)
	pttl := func(sc *wscope) func(ast.Expr) bool {
		return func(e ast.Expr) bool { return x.eleField(e, sc.ele, "pttl") }
	}
	notMinus := func(k int64) func(sc *wscope, f cfgq.Fact) bool {
		return func(sc *wscope, f cfgq.Fact) bool { eq, ok := intCmp(x.info, f, pttl(sc), k); return ok && !eq }
	}
	zeroP := wprop{fact: notMinus(-1), node: func(sc *wscope, n ast.Node) bool {
		as, ok := n.(*ast.AssignStmt)
		v, isC := int64(1), false
		if ok && len(as.Lhs) == 1 && len(as.Rhs) == 1 && pttl(sc)(as.Lhs[0]) {
			v, isC = core.IntConst(x.info, as.Rhs[0])
		}
		return isC && v == 0
	}}
	goneP := wprop{fact: notMinus(-2)}
	has := func(p wprop) (func(ast.Node) bool, func(*cfg.Block, int) bool) {
		return func(n ast.Node) bool { return x.nodeHas(top, p, n, 0) }, func(b *cfg.Block, s int) bool { return x.edgeHas(top, p, b, s, 0) }
	}
	zn, ze := has(zeroP)
	for i, rp := range restores {
		w := g.Path(cfgq.Query{From: start, Avoid: zn, AvoidEdge: ze, Target: c07.IsNode(rp.Node())})
		x.verdict("R3.ttl", fmt.Sprintf("writer/no-expiry-to-0#%d", i+1), rp.Node().Pos(), w, "a key without expiry (PTTL -1) must be sent with ttl 0: `RESTORE k -1 ...` is rejected (Invalid TTL value), receiver aborts and the run stops on the first persistent key")
	}
	gn, ge := has(goneP)
	w := g.Path(cfgq.Query{From: start, Avoid: gn, AvoidEdge: ge, Target: writes})
	x.verdict("R3.ttl", "writer/vanished-skipped", rs.Pos(), w, "a key that vanished between SCAN and PTTL (PTTL -2, empty DUMP) must be skipped: restoring its empty payload fails (bad payload / invalid TTL) and aborts the run instead of continuing")
	// R3 db override
	dbOf := func(sc *wscope) func(ast.Expr) bool {
		return func(e ast.Expr) bool { return x.eleField(e, sc.ele, "db") }
	}
	dbF := dbOf(top)
	setDB := func(sc *wscope, n ast.Node) bool {
		as, ok := n.(*ast.AssignStmt)
		return ok && len(as.Lhs) == 1 && len(as.Rhs) == 1 && dbOf(sc)(as.Lhs[0]) && core.IsFieldNamed(x.info, c07.Strip(x.info, as.Rhs[0]), "Configuration", "TargetDB")
	}
	overP := wprop{node: setDB, fact: func(_ *wscope, f cfgq.Fact) bool { return c07.TargetDBSet(x.info, f, false) }}
	usesDB := func(n ast.Node) bool {
		if setDB(top, n) {
			return false
		}
		found := false
		core.Inspect(n, func(m ast.Node) bool {
			if e, ok := m.(ast.Expr); ok && dbF(e) {
				found = true
			}
			return !found
		})
		return found
	}
	on, oe := has(overP)
	w = g.Path(cfgq.Query{From: start, Avoid: on, AvoidEdge: oe, Target: usesDB})
	x.verdict("R3.db", "writer/target-db-override", rs.Pos(), w, "with target.db configured every key must go to that database: here the element's source db is used although TargetDB != -1")
	sets := x.sites(top, setDB, 0)
	okSet := len(sets) > 0
	for _, st := range sets {
		sg, tn := st.sc.g, st.p.Node()
		wp := sg.Path(cfgq.Query{From: sg.Entry(), Target: c07.IsNode(tn), AvoidEdge: func(b *cfg.Block, s int) bool {
			return c07.EdgeFact(sg, b, s, func(f cfgq.Fact) bool { return c07.TargetDBSet(x.info, f, true) })
		}})
		okSet = okSet && wp == nil
	}
	if len(sets) == 0 && x.opaque {
		x.c.Undecidedf("R3.db", "writer/override-only-when-set", rs.Pos(), "no `ele.db = TargetDB` found, but a helper handed the element could not be followed")
	} else {
		x.c.Check("R3.db", "writer/override-only-when-set", rs.Pos(), okSet, "ele.db = TargetDB must happen exactly under TargetDB != -1: unconditionally it selects db -1 (error, run aborts) when no target db is configured")
	}
	// R3 select tracking
	var tracker types.Object
	core.Inspect(rs.Body, func(n ast.Node) bool {
		if be, ok := n.(*ast.BinaryExpr); ok && (be.Op == token.NEQ || be.Op == token.EQL) {
			for _, pr := range [][2]ast.Expr{{be.X, be.Y}, {be.Y, be.X}} {
				if v, ok := c07.Obj(x.info, c07.Strip(x.info, pr[0])).(*types.Var); ok && !v.IsField() && dbF(pr[1]) && fn.Decl.Body.Pos() <= v.Pos() && v.Pos() < fn.Decl.Body.End() {
					tracker = v
				}
			}
		}
		return true
	})
	if tracker == nil {
		x.c.Undecidedf("R3.select", "writer", rs.Pos(), "no local tracker compared with ele.db")
		return
	}
	x.selectRules("writer", g, start, head, tracker, func(e ast.Expr) bool { return c07.Obj(x.info, c07.Strip(x.info, e)) == tracker }, dbF, isSelect, restores, rs.Body)
	if bigArg != nil {
		u, ok := ast.Unparen(bigArg.Args[5]).(*ast.UnaryExpr)
		own := ok && u.Op == token.AND && c07.Obj(x.info, u.X) != tracker && c07.Obj(x.info, u.X) != nil
		okDecl := own && !(rs.Body.Pos() <= c07.Obj(x.info, u.X).Pos() && c07.Obj(x.info, u.X).Pos() < rs.Body.End())
		x.c.Check("R3.select", "writer/bigkey-own-tracker", bigArg.Pos(), okDecl, "the big-key connection needs its own selected-db variable, living across iterations: sharing the pipelined connection's tracker makes later normal keys skip their SELECT and land in the wrong database")
	}
}

func (x *rx) writeSend() {
	fn := x.fn["writeSend"]
	g := x.g("writeSend")
	bp, okBP := x.batchParamOf()
	// the loop that visits the batch: range or index loop
	var it *iter
	core.Inspect(fn.Decl.Body, func(n ast.Node) bool {
		if s, ok := n.(*ast.SendStmt); ok && x.field(s.Chan) == "resultChan" && it == nil {
			if cand := x.iterOf(fn.Decl.Body, s); cand != nil && okBP && x.isBatchIn(cand.slice, bp) {
				it = cand
			}
		}
		return true
	})
	if it == nil {
		x.c.Undecidedf("R2.forward", "writeSend", fn.Decl.Pos(), "no loop over the batch parameter that sends to resultChan")
		return
	}
	isLen := func(e ast.Expr) bool {
		call, isC := c07.Through(x.info, e).(*ast.CallExpr)
		return isC && len(call.Args) == 1 && x.isBatchIn(call.Args[0], bp) && c07.Obj(x.info, call.Fun) != nil && c07.Obj(x.info, call.Fun).Name() == "len"
	}
	empty := func(b *cfg.Block, s int) bool { // the edge establishes len(batch) == 0 (a length is never negative: < 1 and <= 0 say the same)
		return c07.EdgeFact(g, b, s, func(f cfgq.Fact) bool {
			if eq, ok := intCmp(x.info, f, isLen, 0); ok && eq {
				return true
			}
			neg, ok := intCmp(x.info, f, isLen, 1) // len != 1 established by an ordering: len < 1
			_, okAny := intCmp(x.info, f, isLen, 1000000)
			return ok && !neg && okAny // below 1 and below any large value: an upper bound < 1
		})
	}
	isFlush := func(n ast.Node) bool {
		for _, call := range cfgq.ExecCalls(n) {
			if f := c07.CalleeF(x.info, call); f != nil && f.Name() == "Flush" && strings.HasSuffix(f.Pkg().Path(), "redigo/redis") {
				return true
			}
		}
		return false
	}
	w := g.Path(cfgq.Query{From: g.Entry(), Avoid: isFlush, AvoidEdge: empty, TargetExit: c07.NormalExit})
	x.check("R2.forward", "writeSend/flush", fn.Decl.Pos(), w, "a non-empty batch must be flushed to the target: otherwise the buffered RESTORE commands of this batch are never written and receiver waits forever for their replies")
	head, body := c07.RangeBlocks(g, it.stmt)
	entersLoop := func(n ast.Node) bool { // a node of the loop header: the loop is executed (possibly zero times over an empty batch)
		return n.Pos() >= it.stmt.Pos() && n.End() <= it.stmt.End()
	}
	w = g.Path(cfgq.Query{From: g.Entry(), Avoid: entersLoop, AvoidEdge: empty, TargetExit: c07.NormalExit})
	isSend := func(n ast.Node) bool {
		s, ok := n.(*ast.SendStmt)
		return ok && x.field(s.Chan) == "resultChan" && x.elem(it, s.Value)
	}
	post := head
	for _, bl := range g.CFG.Blocks {
		if bl.Kind == cfg.KindForPost && bl.Stmt == it.stmt {
			post = bl
		}
	}
	if w == nil && c07.ReachBlock(g, cfgq.Point{B: body}, false, isSend, post) {
		w = []string{"an iteration over the batch does not send the element to resultChan"}
	}
	if w == nil && bp.byPtr { // the batch must be read (copied or iterated) before it is reset in place
		var read ast.Node = it.stmt
		if id, isID := ast.Unparen(it.slice).(*ast.Ident); isID {
			if d := pat.DefOf(x.info, id); d != nil {
				if path := core.PathTo(fn.Decl.Body, d); len(path) >= 2 {
					for i := len(path) - 1; i >= 0; i-- {
						if st, isSt := path[i].(ast.Stmt); isSt {
							read = st
							break
						}
					}
				}
			}
		}
		if ww := x.readAfterReset(bp, read); ww != nil {
			w = append([]string{"the batch is read after writeSend already replaced it by the fresh slice:"}, ww...)
		} else {
			// the holder handed to something that is not followed before the read: where the reset happens relative
			// to the read is decided on a view in which that call is expanded
			for _, hp := range g.Points(func(n ast.Node) bool { return x.handsHolder(n, bp) }) {
				if g.Path(cfgq.Query{From: hp, After: true, Target: func(n ast.Node) bool { return n == read || c07.Within(read, n) }}) != nil {
					x.c.Undecidedf("R2.forward", "writeSend/every-element", it.stmt.Pos(), "the batch holder is handed to `%s` before the batch is read: whether that resets it is not followed", x.c.Src(hp.Node()))
					return
				}
			}
		}
	}
	x.check("R2.forward", "writeSend/every-element", it.stmt.Pos(), w, "every element of a flushed batch must be forwarded to resultChan exactly once: an element not forwarded is never confirmed, so exec can finish while its RESTORE is still in flight")
	for _, p := range g.Points(isSend) {
		w := g.Path(cfgq.Query{From: p, After: true, Target: isSend, AvoidEdge: func(b *cfg.Block, s int) bool { return b.Succs[s] == post || b.Succs[s] == head }})
		x.check("R2.forward", "writeSend/once", p.Node().Pos(), w, "an element is forwarded twice: receiver waits for a second reply that never comes and the run never terminates")
	}
}

func (x *rx) receiver() {
	g := x.g("receiver")
	rs := x.chanLoopOf("receiver", "resultChan")
	if rs == nil {
		return
	}
	head, start, _ := rs.blocks(g)
	isRecv := func(n ast.Node) bool {
		for _, call := range cfgq.ExecCalls(n) {
			if f := c07.CalleeF(x.info, call); f != nil && f.Name() == "Receive" && strings.HasSuffix(f.Pkg().Path(), "redigo/redis") {
				return true
			}
		}
		return false
	}
	x.c.Check("R2.receive", "receiver/at-least-one", rs.Pos(), !c07.ReachBlock2(g, start, isRecv, rs.closed(x, g), head),
		"every element of resultChan stands for one pipelined RESTORE whose reply must be read: skipping a Receive lets exec finish while commands are in flight and attributes later replies to the wrong key")
	var w []string
	for _, p := range g.Points(isRecv) {
		if w == nil {
			w = g.Path(cfgq.Query{From: p, After: true, Target: isRecv, AvoidEdge: func(b *cfg.Block, s int) bool { return b.Succs[s] == head }})
		}
	}
	x.check("R2.receive", "receiver/at-most-one", rs.Pos(), w, "two Receive calls for one element: the second blocks forever once the replies run out and the run never terminates")
}

// ---- RestoreBigkey
