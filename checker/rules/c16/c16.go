// Package c16 decides the structural clauses of property C16 (rump: scan-based migration).
package c16

import (
	"fmt"
	"go/ast"
	"go/token"
	"go/types"
	"strings"

	"golang.org/x/tools/go/cfg"

	"rscheck/cfgq"
	"rscheck/core"
	"rscheck/driver"
	"rscheck/pat"
	"rscheck/rules/c07"
)

const (
	pkgRun     = "redis-shake"
	pkgScanner = "redis-shake/scanner"
	pkgCommon  = "redis-shake/common"
	exe        = "dbRumperExecutor"
)

var Def = driver.PropDef{
	ID: "C16",
	Explanation: "Structural necessary conditions of the rump pipeline (fetcher -> keyChan -> writer -> resultChan -> receiver -> close flag -> exec), on every path: " +
		"R1 closure chain and who-may-access of both channels (single closer, after the last send; final partial batch flushed before resultChan is closed; close flag set only after the receiver's loop; exec starts the three goroutines and leaves its loop exactly on the flag); " +
		"R2 one RESTORE send and one batch entry per normal key with (key, pttl, value[, REPLACE under key_exists=rewrite]) of this element; writeSend flushes and forwards every batch element; one Receive per element; big keys bypass the batch on their own connection with their own db tracker; " +
		"R3 pttl -1 -> 0, pttl -2 skipped, TargetDB override, select/tracker pairing in writer, RestoreBigkey and doFetch, big-key TTL re-applied; " +
		"R4 DUMP and PTTL pipelines over the same unmodified key slice, each collected by its own Do(\"\"), one index for key/dump/pttl, filtered keys dropped and kept keys appended; " +
		"R5 doFetch leaves its loop only on EndNode() after a ScanKey per round; NormalScanner feeds the returned cursor into the next SCAN and ends on 0; KeyFileScanner ends on a short page; every unfiltered database of dbList is fetched; " +
		"R6 (E7) the errors of ScanKey/Do/Flush/Receive/doFetch/getSourceDbList/restoreBigRdbEntry are tested and lead to a failure exit.",
	NotDecided: "faithfulness of the DUMP payload itself, races with writers on the source (a key recreated between DUMP and PTTL), QoS timing, the unread reply of the pipelined `select` (it shifts reply attribution by one but loses no key), ignored errors of redigo Send (sticky in the connection: the following Flush/Do reports them).",
	Trusted:    []string{"go/parser, go/types, go/cfg (x/tools v0.29.0)", "redigo: Send buffers, Do(\"\") flushes and collects all pending replies, converters forward a non-nil error, write errors are sticky", "channel close/range semantics"},
	Run:        Run,
}

type rx struct {
	c    *core.Ctx
	info *types.Info
	fn   map[string]*core.Fn
}

func Run(c *core.Ctx) {
	x := &rx{c: c, fn: map[string]*core.Fn{}}
	ok := true
	for _, m := range []string{"exec", "fetcher", "doFetch", "writer", "writeSend", "receiver", "getSourceDbList"} {
		if x.fn[m] = c.Func(pkgRun, exe, m); x.fn[m] == nil {
			ok = false
		}
	}
	if !ok {
		return
	}
	x.info = x.fn["exec"].Pkg.TypesInfo
	x.access()
	x.chain()
	x.exec()
	x.writer()
	x.writeSend()
	x.receiver()
	x.bigkey()
	x.doFetch()
	x.scanners()
	x.dbs()
	x.errors()
	for rule, n := range map[string]int{"R1.access": 2, "R1.close": 3, "R1.exec-loop": 2, "R1.spawn": 3, "R2.restore-send": 4, "R2.batch": 3, "R2.forward": 2,
		"R2.receive": 2, "R2.bigkey": 4, "R3.ttl": 3, "R3.db": 2, "R3.select": 12, "R4.align": 4, "R4.pipeline": 3, "R4.keys": 3, "R5.loop": 3, "R5.scanner": 5, "R5.dbs": 3, "R6.error": 14} {
		c.Expect(rule, n)
	}
}

// ---- small recognisers

func (x *rx) g(m string) *cfgq.Graph { return cfgq.Of(x.c.Program, x.fn[m]) }

// field reports the struct field of the executor that e selects ("" if none).
func (x *rx) field(e ast.Expr) string {
	if v := core.FieldOf(x.info, e); v != nil {
		if sel := ast.Unparen(e).(*ast.SelectorExpr); core.IsFieldNamed(x.info, sel, exe, sel.Sel.Name) {
			return sel.Sel.Name
		}
	}
	return ""
}

// cmd recognises a redigo-style call <conn>.<Method>("CMD", args...) and returns method, upper-cased command, receiver expression.
func cmd(info *types.Info, call *ast.CallExpr) (method, command string, recv ast.Expr) {
	sel, ok := ast.Unparen(call.Fun).(*ast.SelectorExpr)
	if !ok || len(call.Args) == 0 {
		return "", "", nil
	}
	f := core.CalleeFunc(info, call)
	if f == nil || f.Pkg() == nil || !strings.HasSuffix(f.Pkg().Path(), "redigo/redis") {
		return "", "", nil
	}
	s, ok := core.StringConst(info, call.Args[0])
	if !ok {
		return "", "", nil
	}
	return sel.Sel.Name, strings.ToUpper(s), sel.X
}

func (x *rx) cmdNode(method, command string) func(ast.Node) bool {
	return func(n ast.Node) bool {
		for _, call := range cfgq.ExecCalls(n) {
			if m, cm, _ := cmd(x.info, call); m == method && cm == command {
				return true
			}
		}
		return false
	}
}

func (x *rx) callNode(f *types.Func) func(ast.Node) bool {
	return func(n ast.Node) bool {
		for _, call := range cfgq.ExecCalls(n) {
			if core.CalleeFunc(x.info, call) == f {
				return true
			}
		}
		return false
	}
}

func (x *rx) calls(root ast.Node, pred func(*ast.CallExpr) bool) []*ast.CallExpr {
	return core.Calls(root, x.info, func(call *ast.CallExpr, _ types.Object) bool { return pred(call) })
}

func (x *rx) fieldObj(name string) types.Object {
	tn, _ := x.fn["exec"].Pkg.Types.Scope().Lookup(exe).(*types.TypeName)
	if tn == nil {
		return nil
	}
	st, _ := tn.Type().Underlying().(*types.Struct)
	for i := 0; st != nil && i < st.NumFields(); i++ {
		if st.Field(i).Name() == name {
			return st.Field(i)
		}
	}
	return nil
}

// rangeOver finds the range statement in method m whose operand is the executor field / variable accepted by pred.
func (x *rx) rangeOver(m string, pred func(ast.Expr) bool) *ast.RangeStmt {
	var out *ast.RangeStmt
	core.Inspect(x.fn[m].Decl.Body, func(n ast.Node) bool {
		if rs, ok := n.(*ast.RangeStmt); ok && out == nil && pred(rs.X) {
			out = rs
		}
		return true
	})
	return out
}

func blockOf(g *cfgq.Graph, kind cfg.BlockKind, s ast.Stmt) *cfg.Block {
	for _, b := range g.CFG.Blocks {
		if b.Kind == kind && b.Stmt == s {
			return b
		}
	}
	return nil
}

func (x *rx) check(rule, key string, pos token.Pos, w []string, detail string) {
	x.c.Check(rule, key, pos, w == nil, detail, w...)
}

// verdict3: pass if ok; fail if the deciding branch was recognised (or is absent altogether); undecided if the
// test exists in a form whose edges establish nothing (e.g. inside a disjunction).
func (x *rx) verdict3(rule, key string, pos token.Pos, ok, recognised bool, detail string) {
	if ok || recognised {
		x.c.Check(rule, key, pos, ok, detail)
	} else {
		x.c.Undecidedf(rule, key, pos, "the deciding test is not in a recognised form; cannot establish: %s", detail)
	}
}

// eleField: e is <ele>.<name> for the element variable ele of type *KeyNode.
func (x *rx) eleField(e ast.Expr, ele types.Object, name string) bool {
	sel, ok := c07.Strip(x.info, e).(*ast.SelectorExpr)
	return ok && core.IsFieldNamed(x.info, sel, "KeyNode", name) && core.ObjOf(x.info, sel.X) == ele
}

// intCmp matches the fact `<lhs> op k` (either orientation for ==/!=) and returns whether it establishes equality (eq) or inequality with k.
func intCmp(info *types.Info, f cfgq.Fact, isLHS func(ast.Expr) bool, k int64) (eq, ok bool) {
	be, isB := ast.Unparen(f.Expr).(*ast.BinaryExpr)
	if !isB || be.Op != token.EQL && be.Op != token.NEQ {
		return false, false
	}
	a, b := be.X, be.Y
	if !isLHS(a) {
		a, b = b, a
	}
	v, isC := core.IntConst(info, b)
	if !isLHS(a) || !isC || v != k {
		return false, false
	}
	return (be.Op == token.EQL) == f.Val, true
}

// ---- R1

func (x *rx) access() {
	pk := x.fn["exec"].Pkg
	want := map[string]map[string]string{
		"keyChan":    {"send": "doFetch", "range": "writer", "close": "fetcher", "make": "exec"},
		"resultChan": {"send": "writeSend", "range": "receiver", "close": "writer", "make": "exec"},
	}
	for _, ch := range []string{"keyChan", "resultChan"} {
		uses := map[string][]string{}
		for _, file := range pk.Syntax {
			for _, d := range file.Decls {
				fd, ok := d.(*ast.FuncDecl)
				if !ok || fd.Body == nil {
					continue
				}
				var stack []ast.Node
				ast.Inspect(fd.Body, func(n ast.Node) bool {
					if n == nil {
						stack = stack[:len(stack)-1]
						return false
					}
					stack = append(stack, n)
					e, ok := n.(*ast.SelectorExpr)
					if !ok || !core.IsFieldNamed(x.info, e, exe, ch) || len(stack) < 2 {
						return true
					}
					kind := "other"
					switch p := stack[len(stack)-2].(type) {
					case *ast.SendStmt:
						if p.Chan == ast.Expr(e) {
							kind = "send"
						}
					case *ast.RangeStmt:
						if p.X == ast.Expr(e) {
							kind = "range"
						}
					case *ast.CallExpr:
						if b, ok := core.Callee(x.info, p).(*types.Builtin); ok {
							switch b.Name() {
							case "close":
								kind = "close"
							case "len", "cap":
								kind = "len"
							}
						}
					case *ast.AssignStmt:
						if len(p.Lhs) == 1 && p.Lhs[0] == ast.Expr(e) && len(p.Rhs) == 1 {
							if call, ok := p.Rhs[0].(*ast.CallExpr); ok {
								if b, ok := core.Callee(x.info, call).(*types.Builtin); ok && b.Name() == "make" {
									kind = "make"
								}
							}
						}
					}
					uses[kind] = append(uses[kind], fd.Name.Name)
					return true
				})
			}
		}
		bad := ""
		for kind, where := range want[ch] {
			if len(uses[kind]) != 1 || uses[kind][0] != where {
				bad += fmt.Sprintf(" %s in %v (expected once in %s);", kind, uses[kind], where)
			}
		}
		if len(uses["other"]) > 0 {
			bad += fmt.Sprintf(" unclassified uses in %v;", uses["other"])
		}
		if bad != "" {
			x.c.Undecidedf("R1.access", ch, token.NoPos, "who-may-access table of %s differs from the recognised pipeline:%s", ch, bad)
		} else {
			x.c.Okf("R1.access", ch, token.NoPos, "%s: made in exec, sent only in %s, ranged only in %s, closed only in %s", ch, want[ch]["send"], want[ch]["range"], want[ch]["close"])
		}
	}
	// the sending helpers are called only from the closer of their channel
	for helper, owner := range map[string]string{"doFetch": "fetcher", "writeSend": "writer"} {
		okAll := true
		for _, file := range pk.Syntax {
			for _, d := range file.Decls {
				fd, isF := d.(*ast.FuncDecl)
				if !isF || fd.Body == nil || x.info.Defs[fd.Name] == types.Object(x.fn[owner].Obj) {
					continue
				}
				for range core.CallsAll(fd.Body, x.info, func(_ *ast.CallExpr, o types.Object) bool { return o == types.Object(x.fn[helper].Obj) }) {
					okAll = false
				}
			}
		}
		if okAll {
			x.c.Okf("R1.callers", helper, x.fn[helper].Decl.Pos(), "%s is called only from %s (which closes the channel after its last call)", helper, owner)
		} else {
			x.c.Undecidedf("R1.callers", helper, x.fn[helper].Decl.Pos(), "%s is called outside %s: sends may race with the close", helper, owner)
		}
	}
}

func (x *rx) chain() {
	// fetcher closes keyChan on every exit, after the last doFetch
	g := x.g("fetcher")
	closeKey := func(n ast.Node) bool { return c07.BuiltinCallOn(x.info, n, "close", x.fieldObj("keyChan")) }
	_, w := c07.MustPass(g, g.Entry(), false, closeKey)
	x.check("R1.close", "fetcher/keyChan", x.fn["fetcher"].Decl.Pos(), w, "fetcher must close keyChan on every return: otherwise writer, receiver and exec wait forever and the run never terminates after the last cursor")
	for _, p := range g.Points(closeKey) {
		if _, deferred := p.Node().(*ast.DeferStmt); deferred {
			continue // runs at exit, after the last doFetch
		}
		w := g.Path(cfgq.Query{From: p, After: true, Target: x.callNode(x.fn["doFetch"].Obj)})
		x.check("R1.close-last", "fetcher/keyChan", p.Node().Pos(), w, "keyChan is closed while databases are still to be fetched: the next key is sent on a closed channel (panic) and the remaining databases are not copied")
	}
	// writer: final flush, then close(resultChan)
	g = x.g("writer")
	rs := x.rangeOver("writer", func(e ast.Expr) bool { return x.field(e) == "keyChan" })
	if rs == nil {
		x.c.Undecidedf("R1.final-flush", "writer", x.fn["writer"].Decl.Pos(), "no `range keyChan` in writer")
		return
	}
	done := blockOf(g, cfg.KindRangeDone, rs)
	flush := x.callNode(x.fn["writeSend"].Obj)
	closeRes := func(n ast.Node) bool { return c07.BuiltinCallOn(x.info, n, "close", x.fieldObj("resultChan")) }
	w = g.Path(cfgq.Query{From: cfgq.Point{B: done}, Avoid: flush, TargetExit: c07.NormalExit})
	x.check("R1.final-flush", "writer", rs.Pos(), w, "after keyChan is drained writer must flush the last partial batch (writeSend): otherwise the last (key count mod scan.key_number) RESTORE commands stay in the connection buffer and those keys never reach the target")
	_, w = c07.MustPass(g, g.Entry(), false, closeRes)
	x.check("R1.close", "writer/resultChan", x.fn["writer"].Decl.Pos(), w, "writer must close resultChan on every return: otherwise receiver never sets the close flag and exec never terminates")
	w = g.Path(cfgq.Query{From: cfgq.Point{B: done}, Avoid: flush, Target: func(n ast.Node) bool { _, d := n.(*ast.DeferStmt); return !d && closeRes(n) }})
	if w == nil {
		for _, p := range g.Points(closeRes) {
			if _, deferred := p.Node().(*ast.DeferStmt); deferred {
				continue // runs at exit; R1.final-flush covers the order
			}
			if w == nil {
				w = g.Path(cfgq.Query{From: p, After: true, Target: flush})
			}
			if w == nil && c07.Within(p.Node(), rs.Body) {
				w = []string{"close(resultChan) inside the key loop"}
			}
		}
	}
	x.check("R1.close-last", "writer/resultChan", rs.Pos(), w, "resultChan is closed before the final batch was forwarded: writeSend then sends on a closed channel (panic), or exec is told to finish while keys are still unflushed")
	// receiver sets the flag after its loop
	g = x.g("receiver")
	rr := x.rangeOver("receiver", func(e ast.Expr) bool { return x.field(e) == "resultChan" })
	setClose := func(n ast.Node) bool {
		as, ok := n.(*ast.AssignStmt)
		if !ok || len(as.Lhs) != 1 || len(as.Rhs) != 1 || x.field(as.Lhs[0]) != "close" {
			return false
		}
		tv := x.info.Types[as.Rhs[0]]
		return tv.Value != nil && tv.Value.String() == "true"
	}
	if rr == nil {
		x.c.Undecidedf("R1.close", "receiver/flag", x.fn["receiver"].Decl.Pos(), "no `range resultChan` in receiver")
		return
	}
	_, w = c07.MustPass(g, g.Entry(), false, setClose)
	x.check("R1.close", "receiver/flag", x.fn["receiver"].Decl.Pos(), w, "receiver must set the close flag when resultChan is drained: otherwise exec never terminates")
	w = nil
	for _, p := range g.Points(setClose) {
		if c07.Within(p.Node(), rr.Body) {
			w = []string{"flag set inside the reply loop at " + x.c.Pos(p.Node().Pos())}
		}
	}
	x.check("R1.close-last", "receiver/flag", rr.Pos(), w, "the close flag is set before all replies were received: exec returns (and the process may exit) while RESTORE commands are still in flight, so the last keys can be lost")
}

func (x *rx) exec() {
	g := x.g("exec")
	fn := x.fn["exec"]
	isFlag := func(f cfgq.Fact) (bool, bool) { // (established value, is a fact about the flag)
		if x.field(f.Expr) == "close" {
			return f.Val, true
		}
		if b, ok := ast.Unparen(f.Expr).(*ast.BinaryExpr); ok && (b.Op == token.EQL || b.Op == token.NEQ) {
			for _, pr := range [][2]ast.Expr{{b.X, b.Y}, {b.Y, b.X}} {
				if tv := x.info.Types[pr[1]]; x.field(pr[0]) == "close" && tv.Value != nil {
					return (tv.Value.String() == "true") == ((b.Op == token.EQL) == f.Val), true
				}
			}
		}
		return false, false
	}
	var loop ast.Stmt
	var condPt cfgq.Point
	for _, p := range g.Points(func(n ast.Node) bool { e, ok := n.(ast.Expr); return ok && core.MentionsField(x.info, e, exe, "close") }) {
		for _, a := range core.PathTo(fn.Decl.Body, p.Node()) {
			switch a.(type) {
			case *ast.ForStmt, *ast.RangeStmt:
				loop, condPt = a.(ast.Stmt), p
			}
		}
	}
	if loop == nil {
		x.c.Undecidedf("R1.exec-loop", "exec", fn.Decl.Pos(), "no loop testing the close flag found in exec")
		return
	}
	head, body := c07.RangeBlocks(g, loop)
	doneK := cfg.KindRangeDone
	if _, isFor := loop.(*ast.ForStmt); isFor {
		doneK = cfg.KindForDone
	}
	done := blockOf(g, doneK, loop)
	flagEdge := func(val bool) func(*cfg.Block, int) bool {
		return func(b *cfg.Block, s int) bool {
			return c07.EdgeFact(g, b, s, func(f cfgq.Fact) bool { v, is := isFlag(f); return is && v == val })
		}
	}
	from, cutHead := cfgq.Point{B: body}, true
	if fs, ok := loop.(*ast.ForStmt); ok && fs.Cond != nil {
		from, cutHead = cfgq.Point{B: head}, false
	}
	toHead := func(b *cfg.Block, s int) bool { return b.Succs[s] == head }
	// (a) no way out of the loop unless the flag was seen true
	leak := false
	w := g.Path(cfgq.Query{From: from, TargetExit: c07.NormalExit, AvoidEdge: func(b *cfg.Block, s int) bool {
		if flagEdge(true)(b, s) {
			return true
		}
		if b.Succs[s] == done {
			leak = true
			return true
		}
		return cutHead && toHead(b, s)
	}})
	if leak && w == nil {
		w = []string{"the loop is left without the flag having been read as true"}
	}
	x.check("R1.exec-loop", "only-on-close", loop.Pos(), w, "exec may leave its progress loop only after reading the close flag as true: leaving earlier ends the executor (and the process) while keys are still being fetched/written, so scanned keys are not copied")
	// (b) the flag does end the loop
	out, seen := false, false
	for _, b := range g.CFG.Blocks {
		for s := range b.Succs {
			if !b.Live || !flagEdge(true)(b, s) {
				continue
			}
			seen = true
			t := cfgq.Point{B: b.Succs[s]}
			if t.B == done || c07.ReachBlock2(g, t, nil, toHead, done) || g.Path(cfgq.Query{From: t, AvoidEdge: toHead, TargetExit: c07.NormalExit}) != nil {
				out = true
			}
		}
	}
	x.verdict3("R1.exec-loop", "exit-on-close", loop.Pos(), out, seen, "once the receiver has set the close flag exec must leave its loop: otherwise the run never terminates after the final cursor of the last database")
	// the three goroutines are started before the loop, after the channels exist
	for _, m := range []string{"fetcher", "writer", "receiver"} {
		isGo := func(n ast.Node) bool {
			gs, ok := n.(*ast.GoStmt)
			return ok && core.CalleeFunc(x.info, gs.Call) == x.fn[m].Obj
		}
		ok, w := g.Dominated(condPt, isGo)
		n := len(g.Points(isGo))
		x.c.Check("R1.spawn", m, fn.Decl.Pos(), ok && n == 1, fmt.Sprintf("exec must start %s exactly once (found %d go statement(s)) before waiting for the close flag: a missing stage stalls the pipeline (run never ends), a duplicated one sends/receives every key twice or closes a channel twice", m, n), w...)
		for _, p := range g.Points(isGo) {
			for _, ch := range []string{"keyChan", "resultChan"} {
				okc, w := g.Dominated(p, func(n ast.Node) bool {
					as, ok := n.(*ast.AssignStmt)
					return ok && len(as.Lhs) == 1 && x.field(as.Lhs[0]) == ch
				})
				x.c.Check("R1.spawn", m+"/after-make-"+ch, p.Node().Pos(), okc, "the channels must be created before the stages start: a nil channel blocks its sender and receiver forever", w...)
			}
		}
	}
}

// ---- R2/R3 writer

func (x *rx) writer() {
	fn := x.fn["writer"]
	g := x.g("writer")
	rs := x.rangeOver("writer", func(e ast.Expr) bool { return x.field(e) == "keyChan" })
	if rs == nil {
		return
	}
	ele := core.ObjOf(x.info, rs.Key)
	head, body := c07.RangeBlocks(g, rs)
	start := cfgq.Point{B: body}
	toHead := func(b *cfg.Block, s int) bool { return b.Succs[s] == head }
	isRestore := x.cmdNode("Send", "RESTORE")
	isSelect := x.cmdNode("Send", "SELECT")
	bigF := x.c.LookupFunc(pkgCommon, "", "RestoreBigkey")
	if bigF == nil {
		x.c.Undecidedf("anchor", pkgCommon+".RestoreBigkey", token.NoPos, "anchor missing")
		return
	}
	isBig := x.callNode(bigF.Obj)
	// batch variable: x = append(x, ele)
	var batch types.Object
	isAppend := func(n ast.Node) bool {
		b := pat.Stmt("_b = append(_b, _e)").Match(x.info, n, nil)
		if b == nil || core.ObjOf(x.info, b["_e"].(ast.Expr)) != ele {
			return false
		}
		batch = core.ObjOf(x.info, b["_b"].(ast.Expr))
		return true
	}
	appends := g.Points(isAppend)
	restores := g.Points(isRestore)
	if len(appends) == 0 || len(restores) == 0 || ele == nil {
		x.c.Undecidedf("R2.batch", "writer", rs.Pos(), "writer loop: found %d `batch = append(batch, ele)` and %d Send(\"RESTORE\") sites", len(appends), len(restores))
		return
	}
	// R2: append only after a send; no two sends / two appends per iteration; final flush uses the batch
	for i, ap := range appends {
		w := g.Path(cfgq.Query{From: start, Avoid: isRestore, Target: c07.IsNode(ap.Node())})
		x.check("R2.batch", fmt.Sprintf("writer/append-after-send#%d", i+1), ap.Node().Pos(), w, "a key is put into the batch without a RESTORE having been sent for it: receiver waits for a reply that never comes and the run never terminates")
		w = g.Path(cfgq.Query{From: ap, After: true, Target: isAppend, AvoidEdge: toHead})
		x.check("R2.batch", fmt.Sprintf("writer/one-append#%d", i+1), ap.Node().Pos(), w, "one key is appended to the batch twice: receiver expects two replies for one command and blocks forever on the last one")
	}
	var conns []string
	for i, rp := range restores {
		w := g.Path(cfgq.Query{From: rp, After: true, Target: isRestore, AvoidEdge: toHead})
		x.check("R2.restore-send", fmt.Sprintf("writer/one-send#%d", i+1), rp.Node().Pos(), w, "two RESTORE commands are sent for one key: without REPLACE the second fails with BUSYKEY and receiver aborts the run although nothing is wrong")
		for _, call := range cfgq.ExecCalls(rp.Node()) {
			m, cm, recv := cmd(x.info, call)
			if m != "Send" || cm != "RESTORE" {
				continue
			}
			conns = append(conns, x.field(recv))
			okArgs := len(call.Args) >= 4 && x.eleField(call.Args[1], ele, "key") && x.eleField(call.Args[2], ele, "pttl") && x.eleField(call.Args[3], ele, "value")
			replace := false
			if len(call.Args) == 5 {
				s, _ := core.StringConst(x.info, call.Args[4])
				replace = strings.ToUpper(s) == "REPLACE"
				okArgs = okArgs && replace
			} else if len(call.Args) != 4 {
				okArgs = false
			}
			variant := "plain"
			if replace {
				variant = "replace"
			}
			x.c.Check("R2.restore-send", "writer/args:"+variant, call.Pos(), okArgs, "RESTORE must be sent as (key, pttl, value[, REPLACE]) of the element taken from keyChan; found `"+x.c.Src(call)+"`: the key is restored under another name / with another TTL or payload")
			if !replace {
				okPol, w := g.OnlyViaFact(rp, func(f cfgq.Fact) bool { return !f.Val && isRewrite(x.info, f.Expr, true) || f.Val && isRewrite(x.info, f.Expr, false) })
				x.c.Check("R2.restore-send", "writer/replace-on-rewrite", call.Pos(), okPol, "with key_exists=rewrite the RESTORE must carry REPLACE; this send without REPLACE is reachable under rewrite, so an existing target key answers BUSYKEY and the run aborts instead of overwriting", w...)
			}
		}
	}
	// final flush is given the batch
	for _, call := range x.calls(fn.Decl.Body, func(call *ast.CallExpr) bool { return core.CalleeFunc(x.info, call) == x.fn["writeSend"].Obj }) {
		if !c07.Within(call, rs.Body) {
			x.c.Check("R2.batch", "writer/final-flush-arg", call.Pos(), len(call.Args) > 0 && core.ObjOf(x.info, call.Args[0]) == batch, "the flush after the loop must be given the batch that the loop filled, otherwise the last partial batch is neither flushed nor confirmed")
		} else if as, ok := core.PathTo(rs.Body, call)[len(core.PathTo(rs.Body, call))-2].(*ast.AssignStmt); !ok || len(as.Lhs) != 1 || core.ObjOf(x.info, as.Lhs[0]) != batch || core.ObjOf(x.info, call.Args[0]) != batch {
			x.c.Failf("R2.batch", "writer/flush-resets-batch", call.Pos(), "inside the loop the batch must be replaced by writeSend's fresh slice (`batch = writeSend(batch, ...)`): otherwise already confirmed keys are forwarded to receiver again, which then waits for replies that never come")
		} else {
			x.c.Okf("R2.batch", "writer/flush-resets-batch", call.Pos(), "batch = writeSend(batch, ...)")
		}
	}
	// big keys
	bigs := g.Points(isBig)
	for _, bp := range bigs {
		w := g.Path(cfgq.Query{From: bp, After: true, Target: cfgq.Or(isRestore, isAppend), AvoidEdge: toHead})
		x.check("R2.bigkey", "writer/bypass", bp.Node().Pos(), w, "a big key restored element by element also goes through the RESTORE/batch path: it is written twice (BUSYKEY aborts the run under key_exists=none)")
		for _, call := range cfgq.ExecCalls(bp.Node()) {
			if core.CalleeFunc(x.info, call) != bigF.Obj || len(call.Args) != 6 {
				continue
			}
			okArgs := x.eleField(call.Args[1], ele, "key") && x.eleField(call.Args[2], ele, "value") && x.eleField(call.Args[3], ele, "pttl") && x.eleField(call.Args[4], ele, "db")
			x.c.Check("R2.bigkey", "writer/args", call.Pos(), okArgs, "RestoreBigkey must be given (key, value, pttl, db) of this element in parameter order; found `"+x.c.Src(call)+"`")
			sep := x.field(call.Args[0]) != "" && len(conns) > 0 && x.field(call.Args[0]) != conns[0]
			x.c.Check("R2.bigkey", "writer/own-connection", call.Pos(), sep, "big keys must use a connection other than the pipelined one: RestoreBigkey's Do() would consume the pending RESTORE replies that receiver is waiting for, and receiver blocks forever")
		}
	}
	if len(bigs) == 0 {
		x.c.Undecidedf("R2.bigkey", "writer/bypass", rs.Pos(), "no RestoreBigkey call in writer")
	}
	// R3 ttl
	writes := cfgq.Or(isRestore, isBig)
	pttl := func(e ast.Expr) bool { return x.eleField(e, ele, "pttl") }
	setZero := func(n ast.Node) bool {
		as, ok := n.(*ast.AssignStmt)
		v, isC := int64(1), false
		if ok && len(as.Lhs) == 1 && len(as.Rhs) == 1 && pttl(as.Lhs[0]) {
			v, isC = core.IntConst(x.info, as.Rhs[0])
		}
		return isC && v == 0
	}
	notMinus := func(k int64) func(*cfg.Block, int) bool {
		return func(b *cfg.Block, s int) bool {
			return c07.EdgeFact(g, b, s, func(f cfgq.Fact) bool { eq, ok := intCmp(x.info, f, pttl, k); return ok && !eq })
		}
	}
	for i, rp := range restores {
		w := g.Path(cfgq.Query{From: start, Avoid: setZero, AvoidEdge: notMinus(-1), Target: c07.IsNode(rp.Node())})
		x.check("R3.ttl", fmt.Sprintf("writer/no-expiry-to-0#%d", i+1), rp.Node().Pos(), w, "a key without expiry (PTTL -1) must be sent with ttl 0: `RESTORE k -1 ...` is rejected (Invalid TTL value), receiver aborts and the run stops on the first persistent key")
	}
	w := g.Path(cfgq.Query{From: start, AvoidEdge: notMinus(-2), Target: writes})
	x.check("R3.ttl", "writer/vanished-skipped", rs.Pos(), w, "a key that vanished between SCAN and PTTL (PTTL -2, empty DUMP) must be skipped: restoring its empty payload fails (bad payload / invalid TTL) and aborts the run instead of continuing")
	// R3 db override
	dbF := func(e ast.Expr) bool { return x.eleField(e, ele, "db") }
	setDB := func(n ast.Node) bool {
		as, ok := n.(*ast.AssignStmt)
		return ok && len(as.Lhs) == 1 && len(as.Rhs) == 1 && dbF(as.Lhs[0]) && core.IsFieldNamed(x.info, c07.Strip(x.info, as.Rhs[0]), "Configuration", "TargetDB")
	}
	usesDB := func(n ast.Node) bool {
		if setDB(n) {
			return false
		}
		found := false
		core.Inspect(n, func(m ast.Node) bool {
			if e, ok := m.(ast.Expr); ok && dbF(e) {
				found = true
			}
			return !found
		})
		return found
	}
	unset := func(b *cfg.Block, s int) bool {
		return c07.EdgeFact(g, b, s, func(f cfgq.Fact) bool { return c07.TargetDBSet(x.info, f, false) })
	}
	w = g.Path(cfgq.Query{From: start, Avoid: setDB, AvoidEdge: unset, Target: usesDB})
	x.check("R3.db", "writer/target-db-override", rs.Pos(), w, "with target.db configured every key must go to that database: here the element's source db is used although TargetDB != -1")
	okSet := len(g.Points(setDB)) > 0
	for _, p := range g.Points(setDB) {
		ok, _ := g.OnlyViaFact(p, func(f cfgq.Fact) bool { return c07.TargetDBSet(x.info, f, true) })
		okSet = okSet && ok
	}
	x.c.Check("R3.db", "writer/override-only-when-set", rs.Pos(), okSet, "ele.db = TargetDB must happen exactly under TargetDB != -1: unconditionally it selects db -1 (error, run aborts) when no target db is configured")
	// R3 select tracking
	var tracker types.Object
	core.Inspect(rs.Body, func(n ast.Node) bool {
		if be, ok := n.(*ast.BinaryExpr); ok && (be.Op == token.NEQ || be.Op == token.EQL) {
			for _, pr := range [][2]ast.Expr{{be.X, be.Y}, {be.Y, be.X}} {
				if v, ok := core.ObjOf(x.info, c07.Strip(x.info, pr[0])).(*types.Var); ok && !v.IsField() && dbF(pr[1]) && fn.Decl.Body.Pos() <= v.Pos() && v.Pos() < fn.Decl.Body.End() {
					tracker = v
				}
			}
		}
		return true
	})
	if tracker == nil {
		x.c.Undecidedf("R3.select", "writer", rs.Pos(), "no local tracker compared with ele.db")
		return
	}
	x.selectRules("writer", g, start, head, tracker, func(e ast.Expr) bool { return core.ObjOf(x.info, c07.Strip(x.info, e)) == tracker }, dbF, isSelect, restores, rs)
	for _, bp := range bigs {
		for _, call := range cfgq.ExecCalls(bp.Node()) {
			if core.CalleeFunc(x.info, call) == bigF.Obj && len(call.Args) == 6 {
				u, ok := ast.Unparen(call.Args[5]).(*ast.UnaryExpr)
				own := ok && u.Op == token.AND && core.ObjOf(x.info, u.X) != tracker && core.ObjOf(x.info, u.X) != nil
				okDecl := own && !(rs.Body.Pos() <= core.ObjOf(x.info, u.X).Pos() && core.ObjOf(x.info, u.X).Pos() < rs.Body.End())
				x.c.Check("R3.select", "writer/bigkey-own-tracker", call.Pos(), okDecl, "the big-key connection needs its own selected-db variable, living across iterations: sharing the pipelined connection's tracker makes later normal keys skip their SELECT and land in the wrong database")
			}
		}
	}
}

// isRewrite: e is `KeyExists == "rewrite"` (eq=true) or `KeyExists != "rewrite"` (eq=false).
func isRewrite(info *types.Info, e ast.Expr, eq bool) bool {
	be, ok := ast.Unparen(e).(*ast.BinaryExpr)
	if !ok || be.Op != token.EQL && be.Op != token.NEQ || (be.Op == token.EQL) != eq {
		return false
	}
	for _, pr := range [][2]ast.Expr{{be.X, be.Y}, {be.Y, be.X}} {
		if s, ok := core.StringConst(info, pr[1]); ok && s == "rewrite" && core.IsFieldNamed(info, pr[0], "Configuration", "KeyExists") {
			return true
		}
	}
	return false
}

// selectRules: uses (restore sends) are reached only after a select or an equality with the tracker; every select records; the tracker starts at 0 outside the loop.
func (x *rx) selectRules(where string, g *cfgq.Graph, start cfgq.Point, head *cfg.Block, tracker types.Object, isTr, isDB func(ast.Expr) bool, isSelect func(ast.Node) bool, uses []cfgq.Point, loop *ast.RangeStmt) {
	isAssign := func(n ast.Node) bool {
		as, ok := n.(*ast.AssignStmt)
		return ok && len(as.Lhs) == 1 && len(as.Rhs) == 1 && isTr(as.Lhs[0]) && isDB(as.Rhs[0])
	}
	equal := func(b *cfg.Block, s int) bool {
		return c07.EdgeFact(g, b, s, func(f cfgq.Fact) bool {
			be, ok := ast.Unparen(f.Expr).(*ast.BinaryExpr)
			if !ok || be.Op != token.EQL && be.Op != token.NEQ {
				return false
			}
			return (isTr(be.X) && isDB(be.Y) || isTr(be.Y) && isDB(be.X)) && (be.Op == token.EQL) == f.Val
		})
	}
	for i, up := range uses {
		w := g.Path(cfgq.Query{From: start, Avoid: isSelect, AvoidEdge: equal, Target: c07.IsNode(up.Node())})
		x.check("R3.select", fmt.Sprintf("%s/reach#%d", where, i+1), up.Node().Pos(), w, "the key is written without `select` having been sent and without the tracker having been found equal to the wanted db: it lands in whatever database the connection was left on")
	}
	sels := g.Points(isSelect)
	for i, sp := range sels {
		okArg := false
		for _, call := range cfgq.ExecCalls(sp.Node()) {
			if _, cm, _ := cmd(x.info, call); cm == "SELECT" && len(call.Args) == 2 && isDB(call.Args[1]) {
				okArg = true
			}
		}
		x.c.Check("R3.select", fmt.Sprintf("%s/select-arg#%d", where, i+1), sp.Node().Pos(), okArg, "`select` must be sent with the wanted database of this key")
		before := g.Path(cfgq.Query{From: start, Avoid: isAssign, Target: c07.IsNode(sp.Node())})
		after := false
		if head != nil {
			after = c07.ReachBlock(g, sp, true, isAssign, head)
		} else {
			after = g.Path(cfgq.Query{From: sp, After: true, Avoid: isAssign, TargetExit: c07.NormalExit}) != nil
		}
		x.c.Check("R3.select", fmt.Sprintf("%s/select-records#%d", where, i+1), sp.Node().Pos(), !(before != nil && after),
			"`select` is sent without recording the database in the tracker: after keys of db 1 a key of db 0 finds tracker == 0, sends no select and lands in db 1", before...)
	}
	if len(sels) == 0 {
		x.c.Failf("R3.select", where+"/select-arg", start.B.Stmt.Pos(), "no `select` is ever sent: every key lands in database 0")
	}
	if loop != nil {
		v, isC := initOf(x.info, x.fn[where].Decl.Body, tracker)
		outside := !(loop.Body.Pos() <= tracker.Pos() && tracker.Pos() < loop.Body.End())
		x.c.Check("R3.select", where+"/tracker-init", tracker.Pos(), isC && v == 0 && outside, "the tracker must start at 0 (database of a fresh connection) and live across iterations")
	}
}

func initOf(info *types.Info, body ast.Node, v types.Object) (int64, bool) {
	var val int64
	found := false
	core.InspectAll(body, func(n ast.Node) bool {
		switch s := n.(type) {
		case *ast.ValueSpec:
			for i, id := range s.Names {
				if info.Defs[id] == v {
					if len(s.Values) == 0 {
						val, found = 0, true
					} else if i < len(s.Values) {
						val, found = core.IntConst(info, s.Values[i])
					}
				}
			}
		case *ast.AssignStmt:
			for i, l := range s.Lhs {
				if id, ok := l.(*ast.Ident); ok && info.Defs[id] == v && len(s.Lhs) == len(s.Rhs) {
					val, found = core.IntConst(info, s.Rhs[i])
				}
			}
		}
		return true
	})
	return val, found
}

func (x *rx) writeSend() {
	fn := x.fn["writeSend"]
	g := x.g("writeSend")
	var batch types.Object
	if ps := fn.Decl.Type.Params.List; len(ps) > 0 && len(ps[0].Names) > 0 {
		batch = x.info.Defs[ps[0].Names[0]]
	}
	rs := x.rangeOver("writeSend", func(e ast.Expr) bool { return batch != nil && core.ObjOf(x.info, e) == batch })
	if rs == nil {
		x.c.Undecidedf("R2.forward", "writeSend", fn.Decl.Pos(), "no range over the batch parameter")
		return
	}
	empty := func(b *cfg.Block, s int) bool {
		return c07.EdgeFact(g, b, s, func(f cfgq.Fact) bool {
			eq, ok := intCmp(x.info, f, func(e ast.Expr) bool {
				call, isC := ast.Unparen(e).(*ast.CallExpr)
				return isC && len(call.Args) == 1 && core.ObjOf(x.info, call.Args[0]) == batch && core.ObjOf(x.info, call.Fun) != nil && core.ObjOf(x.info, call.Fun).Name() == "len"
			}, 0)
			return ok && eq
		})
	}
	isFlush := func(n ast.Node) bool {
		for _, call := range cfgq.ExecCalls(n) {
			if f := core.CalleeFunc(x.info, call); f != nil && f.Name() == "Flush" && strings.HasSuffix(f.Pkg().Path(), "redigo/redis") {
				return true
			}
		}
		return false
	}
	w := g.Path(cfgq.Query{From: g.Entry(), Avoid: isFlush, AvoidEdge: empty, TargetExit: c07.NormalExit})
	x.check("R2.forward", "writeSend/flush", fn.Decl.Pos(), w, "a non-empty batch must be flushed to the target: otherwise the buffered RESTORE commands of this batch are never written and receiver waits forever for their replies")
	w = g.Path(cfgq.Query{From: g.Entry(), Avoid: c07.IsNode(rs.X), AvoidEdge: empty, TargetExit: c07.NormalExit})
	val := core.ObjOf(x.info, rs.Value)
	head, body := c07.RangeBlocks(g, rs)
	isSend := func(n ast.Node) bool {
		s, ok := n.(*ast.SendStmt)
		return ok && x.field(s.Chan) == "resultChan" && val != nil && core.ObjOf(x.info, s.Value) == val
	}
	if w == nil && c07.ReachBlock(g, cfgq.Point{B: body}, false, isSend, head) {
		w = []string{"an iteration over the batch does not send the element to resultChan"}
	}
	x.check("R2.forward", "writeSend/every-element", rs.Pos(), w, "every element of a flushed batch must be forwarded to resultChan exactly once: an element not forwarded is never confirmed, so exec can finish while its RESTORE is still in flight")
	for _, p := range g.Points(isSend) {
		w := g.Path(cfgq.Query{From: p, After: true, Target: isSend, AvoidEdge: func(b *cfg.Block, s int) bool { return b.Succs[s] == head }})
		x.check("R2.forward", "writeSend/once", p.Node().Pos(), w, "an element is forwarded twice: receiver waits for a second reply that never comes and the run never terminates")
	}
}

func (x *rx) receiver() {
	g := x.g("receiver")
	rs := x.rangeOver("receiver", func(e ast.Expr) bool { return x.field(e) == "resultChan" })
	if rs == nil {
		return
	}
	head, body := c07.RangeBlocks(g, rs)
	isRecv := func(n ast.Node) bool {
		for _, call := range cfgq.ExecCalls(n) {
			if f := core.CalleeFunc(x.info, call); f != nil && f.Name() == "Receive" && strings.HasSuffix(f.Pkg().Path(), "redigo/redis") {
				return true
			}
		}
		return false
	}
	x.c.Check("R2.receive", "receiver/at-least-one", rs.Pos(), !c07.ReachBlock(g, cfgq.Point{B: body}, false, isRecv, head),
		"every element of resultChan stands for one pipelined RESTORE whose reply must be read: skipping a Receive lets exec finish while commands are in flight and attributes later replies to the wrong key")
	var w []string
	for _, p := range g.Points(isRecv) {
		if w == nil {
			w = g.Path(cfgq.Query{From: p, After: true, Target: isRecv, AvoidEdge: func(b *cfg.Block, s int) bool { return b.Succs[s] == head }})
		}
	}
	x.check("R2.receive", "receiver/at-most-one", rs.Pos(), w, "two Receive calls for one element: the second blocks forever once the replies run out and the run never terminates")
}

// ---- RestoreBigkey

func (x *rx) bigkey() {
	fn := x.c.Func(pkgCommon, "", "RestoreBigkey")
	if fn == nil {
		return
	}
	info := fn.Pkg.TypesInfo
	y := &rx{c: x.c, info: info, fn: map[string]*core.Fn{"RestoreBigkey": fn}}
	g := cfgq.Of(x.c.Program, fn)
	var ps []types.Object
	for _, f := range fn.Decl.Type.Params.List {
		for _, n := range f.Names {
			ps = append(ps, info.Defs[n])
		}
	}
	if len(ps) != 6 {
		x.c.Undecidedf("R3.select", "RestoreBigkey", fn.Decl.Pos(), "expected parameters (client, key, value, pttl, db, preDb)")
		return
	}
	key, value, pttl, db, pre := ps[1], ps[2], ps[3], ps[4], ps[5]
	is := func(o types.Object) func(ast.Expr) bool {
		return func(e ast.Expr) bool { return core.ObjOf(info, c07.Strip(info, e)) == o }
	}
	isPre := func(e ast.Expr) bool {
		s, ok := ast.Unparen(e).(*ast.StarExpr)
		return ok && core.ObjOf(info, s.X) == pre
	}
	inner := x.c.LookupFunc(pkgCommon, "", "restoreBigRdbEntry")
	if inner == nil {
		x.c.Undecidedf("anchor", pkgCommon+".restoreBigRdbEntry", token.NoPos, "anchor missing")
		return
	}
	uses := g.Points(y.callNode(inner.Obj))
	y.selectRules("RestoreBigkey", g, g.Entry(), nil, pre, isPre, is(db), y.cmdNode("Do", "SELECT"), uses, nil)
	// entry literal carries key and value
	okLit := false
	core.Inspect(fn.Decl.Body, func(n ast.Node) bool {
		cl, ok := n.(*ast.CompositeLit)
		if !ok || core.NamedTypeName(info.TypeOf(cl)) != "BinEntry" {
			return true
		}
		got := map[string]bool{}
		for _, el := range cl.Elts {
			if kv, ok := el.(*ast.KeyValueExpr); ok {
				if call, ok := ast.Unparen(kv.Value).(*ast.CallExpr); ok && len(call.Args) == 1 {
					name := kv.Key.(*ast.Ident).Name
					got[name] = name == "Key" && is(key)(call.Args[0]) || name == "Value" && is(value)(call.Args[0])
				}
			}
		}
		okLit = got["Key"] && got["Value"]
		return true
	})
	x.c.Check("R2.bigkey", "RestoreBigkey/entry", fn.Decl.Pos(), okLit, "the entry handed to restoreBigRdbEntry must carry this key's name as Key and its DUMP payload as Value")
	// ttl re-applied
	isExpire := y.cmdNode("Do", "PEXPIRE")
	for _, up := range uses {
		w := g.Path(cfgq.Query{From: up, After: true, Avoid: isExpire, TargetExit: c07.NormalExit, AvoidEdge: func(b *cfg.Block, s int) bool {
			return c07.EdgeFact(g, b, s, func(f cfgq.Fact) bool {
				be, ok := ast.Unparen(f.Expr).(*ast.BinaryExpr)
				if !ok {
					return false
				}
				v, isC := core.IntConst(info, be.Y)
				return is(pttl)(be.X) && isC && v == 0 && (be.Op == token.GTR && !f.Val || be.Op == token.LEQ && f.Val)
			})
		}})
		x.check("R3.ttl", "RestoreBigkey/pexpire", up.Node().Pos(), w, "a big key with remaining time-to-live (pttl > 0) must get PEXPIRE after the element-wise restore: otherwise it becomes persistent on the target")
	}
	for _, p := range g.Points(isExpire) {
		for _, call := range cfgq.ExecCalls(p.Node()) {
			if _, cm, _ := cmd(info, call); cm == "PEXPIRE" {
				x.c.Check("R3.ttl", "RestoreBigkey/pexpire-args", call.Pos(), len(call.Args) == 3 && is(key)(call.Args[1]) && is(pttl)(call.Args[2]), "PEXPIRE must name this key and its remaining pttl")
			}
		}
	}
	for _, site := range []struct{ name string; pred func(ast.Node) bool }{{"select", y.cmdNode("Do", "SELECT")}, {"restoreBigRdbEntry", y.callNode(inner.Obj)}, {"pexpire", isExpire}} {
		for _, p := range g.Points(site.pred) {
			for _, call := range cfgq.ExecCalls(p.Node()) {
				if _, cm, _ := cmd(info, call); cm == "SELECT" || cm == "PEXPIRE" || core.CalleeFunc(info, call) == inner.Obj {
					c07.ErrCheck(x.c, g, info, fn.Decl.Body, call, c07.ErrSpec{Rule: "R6.error", Key: "RestoreBigkey/" + site.name, Consequence: "a failed step of the big-key restore goes unnoticed and the key is left partial / in the wrong db / without TTL"})
				}
			}
		}
	}
}

// ---- R4/R5 doFetch

func (x *rx) doFetch() {
	fn := x.fn["doFetch"]
	g := x.g("doFetch")
	body := fn.Decl.Body
	scanF := x.scannerMethod("ScanKey")
	endF := x.scannerMethod("EndNode")
	if scanF == nil || endF == nil {
		x.c.Undecidedf("R5.loop", "doFetch", fn.Decl.Pos(), "scanner.Scanner interface methods not resolved")
		return
	}
	isScan, isEnd := x.callNode(scanF), x.callNode(endF)
	scans := g.Points(isScan)
	var loop *ast.ForStmt
	if len(scans) == 1 {
		for _, a := range core.PathTo(body, scans[0].Node()) {
			if f, ok := a.(*ast.ForStmt); ok && loop == nil {
				loop = f
			}
		}
	}
	if loop == nil || loop.Cond != nil {
		x.c.Undecidedf("R5.loop", "doFetch", fn.Decl.Pos(), "expected one ScanKey call inside an unconditional for loop")
		return
	}
	_, lbody := c07.RangeBlocks(g, loop)
	done := blockOf(g, cfg.KindForDone, loop)
	ended := func(b *cfg.Block, s int) bool {
		return c07.EdgeFact(g, b, s, func(f cfgq.Fact) bool {
			call, ok := ast.Unparen(f.Expr).(*ast.CallExpr)
			return ok && f.Val && core.CalleeFunc(x.info, call) == endF
		})
	}
	leak := false
	w := g.Path(cfgq.Query{From: cfgq.Point{B: lbody}, AvoidEdge: func(b *cfg.Block, s int) bool {
		if ended(b, s) {
			return true
		}
		if b.Succs[s] == done {
			leak = true
			return true
		}
		return false
	}, TargetExit: func(b *cfg.Block, k cfgq.ExitKind) bool {
		if !c07.NormalExit(b, k) {
			return false
		}
		ret, _ := b.Nodes[len(b.Nodes)-1].(*ast.ReturnStmt)
		return ret == nil || cfgq.ClassifyReturn(x.info, body, ret) != cfgq.RetErr
	}})
	if leak && w == nil {
		w = []string{"break out of the scan loop without EndNode() being true"}
	}
	x.check("R5.loop", "doFetch/exit-only-on-EndNode", loop.Pos(), w, "the scan loop of a database may end successfully only when the scanner reports its final cursor: leaving earlier silently skips the remaining pages of the keyspace")
	out, seen := false, false
	for _, b := range g.CFG.Blocks {
		for s := range b.Succs {
			seen = seen || b.Live && ended(b, s)
			if b.Live && ended(b, s) && (b.Succs[s] == done || g.Path(cfgq.Query{From: cfgq.Point{B: b.Succs[s]}, Avoid: isScan, TargetExit: c07.NormalExit}) != nil) {
				out = true
			}
		}
	}
	x.verdict3("R5.loop", "doFetch/ends-on-EndNode", loop.Pos(), out, seen || len(g.Points(isEnd)) == 0, "when the scanner reports the final cursor doFetch must leave the loop: otherwise the database is scanned again from cursor 0 forever (duplicates, no termination)")
	w = g.Path(cfgq.Query{From: cfgq.Point{B: lbody}, Avoid: isScan, Target: isEnd})
	x.check("R5.loop", "doFetch/scan-each-round", loop.Pos(), w, "every round must call ScanKey before asking EndNode(): EndNode() on the initial cursor 0 is true, so the database would be skipped without a single SCAN")

	// source select tracking
	prev := func(e ast.Expr) bool { return x.field(e) == "previousDb" }
	var dbParam types.Object
	if ps := fn.Decl.Type.Params.List; len(ps) == 1 && len(ps[0].Names) == 1 {
		dbParam = x.info.Defs[ps[0].Names[0]]
	}
	isDB := func(e ast.Expr) bool { return dbParam != nil && core.ObjOf(x.info, c07.Strip(x.info, e)) == dbParam }
	x.selectRules("doFetch", g, g.Entry(), nil, x.fieldObj("previousDb"), prev, isDB, x.cmdNode("Do", "SELECT"), scans, nil)

	// R4: pipelines
	dumpS, pttlS := g.Points(x.cmdNode("Send", "DUMP")), g.Points(x.cmdNode("Send", "PTTL"))
	var keyChanSend *ast.SendStmt
	core.Inspect(body, func(n ast.Node) bool {
		if s, ok := n.(*ast.SendStmt); ok && x.field(s.Chan) == "keyChan" {
			keyChanSend = s
		}
		return true
	})
	if len(dumpS) != 1 || len(pttlS) != 1 || keyChanSend == nil {
		x.c.Undecidedf("R4.pipeline", "doFetch", fn.Decl.Pos(), "expected one Send(\"DUMP\"), one Send(\"PTTL\") and one send on keyChan; found %d/%d", len(dumpS), len(pttlS))
		return
	}
	loopOf := func(n ast.Node) *ast.RangeStmt {
		var r *ast.RangeStmt
		for _, a := range core.PathTo(body, n) {
			if rs, ok := a.(*ast.RangeStmt); ok {
				r = rs
			}
		}
		return r
	}
	ld, lp, lk := loopOf(dumpS[0].Node()), loopOf(pttlS[0].Node()), loopOf(keyChanSend)
	if ld == nil || lp == nil || lk == nil {
		x.c.Undecidedf("R4.pipeline", "doFetch", fn.Decl.Pos(), "DUMP/PTTL/keyChan sends are not each inside a range loop")
		return
	}
	keys := core.ObjOf(x.info, lk.X)
	x.c.Check("R4.align", "doFetch/same-slice", lk.Pos(), keys != nil && core.ObjOf(x.info, ld.X) == keys && core.ObjOf(x.info, lp.X) == keys,
		"the DUMP pipeline, the PTTL pipeline and the loop that builds the KeyNodes must iterate the same key slice: otherwise reply i of one pipeline belongs to another key than keys[i] and keys receive foreign values/TTLs")
	argIsVal := func(p cfgq.Point, rs *ast.RangeStmt, command string) bool {
		for _, call := range cfgq.ExecCalls(p.Node()) {
			if _, cm, recv := cmd(x.info, call); cm == command {
				return len(call.Args) == 2 && rs.Value != nil && core.ObjOf(x.info, call.Args[1]) == core.ObjOf(x.info, rs.Value) && x.field(recv) == "sourceClient"
			}
		}
		return false
	}
	x.c.Check("R4.pipeline", "doFetch/dump-per-key", dumpS[0].Node().Pos(), argIsVal(dumpS[0], ld, "DUMP"), "exactly `DUMP <key>` is pipelined to the source for every key of the page")
	x.c.Check("R4.pipeline", "doFetch/pttl-per-key", pttlS[0].Node().Pos(), argIsVal(pttlS[0], lp, "PTTL"), "exactly `PTTL <key>` is pipelined to the source for every key of the page")
	isDo := func(n ast.Node) bool {
		for _, call := range cfgq.ExecCalls(n) {
			if m, _, _ := cmd(x.info, call); m == "Do" {
				return true
			}
		}
		return false
	}
	w = g.Path(cfgq.Query{From: dumpS[0], After: true, Avoid: isDo, Target: x.cmdNode("Send", "PTTL")})
	if w == nil {
		w = g.Path(cfgq.Query{From: pttlS[0], After: true, Avoid: isDo, Target: x.cmdNode("Send", "DUMP")})
	}
	x.check("R4.pipeline", "doFetch/collect-between", ld.Pos(), w, "the replies of one pipeline must be collected (Do(\"\")) before the other pipeline is sent: otherwise DUMP and PTTL replies are mixed in one reply array and values/TTLs are attributed to the wrong keys")
	// the KeyNode literal
	cl, _ := ast.Unparen(keyChanSend.Value).(*ast.UnaryExpr)
	var lit *ast.CompositeLit
	if cl != nil {
		lit, _ = ast.Unparen(cl.X).(*ast.CompositeLit)
	}
	if lit == nil || core.NamedTypeName(x.info.TypeOf(lit)) != "KeyNode" {
		x.c.Undecidedf("R4.align", "doFetch/keynode", keyChanSend.Pos(), "the value sent on keyChan is not a &KeyNode{...} literal")
		return
	}
	fields := map[string]ast.Expr{}
	st := x.info.TypeOf(lit).Underlying().(*types.Struct)
	for i, el := range lit.Elts {
		if kv, ok := el.(*ast.KeyValueExpr); ok {
			fields[kv.Key.(*ast.Ident).Name] = kv.Value
		} else if i < st.NumFields() {
			fields[st.Field(i).Name()] = el
		}
	}
	idx := core.ObjOf(x.info, lk.Key)
	// which slice came from which pipeline: reaching Do of the converter's argument
	source := func(e ast.Expr, conv string) (string, bool) {
		ix, ok := ast.Unparen(e).(*ast.IndexExpr)
		if !ok || idx == nil || core.ObjOf(x.info, ix.Index) != idx {
			return "", false
		}
		slice := core.ObjOf(x.info, ix.X)
		for _, p := range g.Points(func(n ast.Node) bool { as, _ := c07.AssignsTo(x.info, n, slice); return as != nil }) {
			_, rhs := c07.AssignsTo(x.info, p.Node(), slice)
			if rhs != nil {
				continue
			}
			as := p.Node().(*ast.AssignStmt)
			call, ok := as.Rhs[0].(*ast.CallExpr)
			if !ok {
				continue
			}
			if f := core.CalleeFunc(x.info, call); f == nil || f.Name() != conv || len(call.Args) != 2 {
				continue
			}
			reply := core.ObjOf(x.info, call.Args[0])
			isDef := func(n ast.Node) bool { a, _ := c07.AssignsTo(x.info, n, reply); return a != nil }
			for _, dp := range g.Points(func(n ast.Node) bool { return isDef(n) && isDo(n) }) {
				if g.Path(cfgq.Query{From: dp, After: true, Avoid: isDef, Target: c07.IsNode(p.Node())}) == nil {
					continue
				}
				fromDump := g.Path(cfgq.Query{From: dumpS[0], After: true, Avoid: isDo, Target: c07.IsNode(dp.Node())}) != nil
				fromPttl := g.Path(cfgq.Query{From: pttlS[0], After: true, Avoid: isDo, Target: c07.IsNode(dp.Node())}) != nil
				switch {
				case fromDump && !fromPttl:
					return "DUMP", true
				case fromPttl && !fromDump:
					return "PTTL", true
				}
			}
		}
		return "?", true
	}
	x.c.Check("R4.align", "doFetch/keynode-key", lit.Pos(), fields["key"] != nil && lk.Value != nil && core.ObjOf(x.info, fields["key"]) == core.ObjOf(x.info, lk.Value), "KeyNode.key must be the key of this iteration")
	for _, f := range []struct{ field, conv, pipe string }{{"value", "Strings", "DUMP"}, {"pttl", "Int64s", "PTTL"}} {
		src, sameIdx := "", false
		if fields[f.field] != nil {
			src, sameIdx = source(fields[f.field], f.conv)
		}
		switch {
		case !sameIdx:
			x.c.Failf("R4.align", "doFetch/keynode-"+f.field, lit.Pos(), "KeyNode.%s must be element [i] of the %s replies with i the index of this key in the key slice; found `%s`: keys receive the value/TTL of another key", f.field, f.pipe, x.c.Src(fields[f.field]))
		case src == "?":
			x.c.Undecidedf("R4.align", "doFetch/keynode-"+f.field, lit.Pos(), "cannot trace `%s` back to the Do(\"\") that collected the %s pipeline", x.c.Src(fields[f.field]), f.pipe)
		default:
			x.c.Check("R4.align", "doFetch/keynode-"+f.field, lit.Pos(), src == f.pipe, fmt.Sprintf("KeyNode.%s is taken from the replies of the %s pipeline, it must come from %s", f.field, src, f.pipe))
		}
	}
	x.c.Check("R3.db", "doFetch/keynode-db", lit.Pos(), fields["db"] != nil && isDB(fields["db"]), "KeyNode.db must be the database being fetched")
	// R4.keys: the slice is not modified between the pipelines; filter
	isKeysAssign := func(n ast.Node) bool { a, _ := c07.AssignsTo(x.info, n, keys); return a != nil }
	w = g.Path(cfgq.Query{From: dumpS[0], After: true, Avoid: isScan, Target: isKeysAssign})
	x.check("R4.keys", "doFetch/stable-between-pipelines", ld.Pos(), w, "the key slice is modified after DUMP was pipelined for it: indexes of dumps/pttls no longer refer to the same keys")
	filterF := x.c.LookupFunc("redis-shake/filter", "", "FilterKey")
	if filterF == nil {
		x.c.Undecidedf("R4.keys", "doFetch/filter", fn.Decl.Pos(), "filter.FilterKey not resolved")
		return
	}
	var fl *ast.RangeStmt
	var raw types.Object
	for _, call := range x.calls(body, func(call *ast.CallExpr) bool { return core.CalleeFunc(x.info, call) == filterF.Obj }) {
		fl = loopOf(call)
	}
	if as, ok := scans[0].Node().(*ast.AssignStmt); ok {
		raw = core.ObjOf(x.info, as.Lhs[0])
	}
	if fl == nil || raw == nil || core.ObjOf(x.info, fl.X) != raw {
		x.c.Undecidedf("R4.keys", "doFetch/filter", fn.Decl.Pos(), "no loop over the scanned keys applying FilterKey")
		return
	}
	fh, fb := c07.RangeBlocks(g, fl)
	kv := core.ObjOf(x.info, fl.Value)
	isKeep := func(n ast.Node) bool {
		b := pat.Stmt("_k = append(_k, _v)").Match(x.info, n, nil)
		return b != nil && core.ObjOf(x.info, b["_k"].(ast.Expr)) == keys && core.ObjOf(x.info, b["_v"].(ast.Expr)) == kv
	}
	filtered := func(val bool) func(*cfg.Block, int) bool {
		return func(b *cfg.Block, s int) bool {
			return c07.EdgeFact(g, b, s, func(f cfgq.Fact) bool {
				e := f.Expr
				v := f.Val
				if be, ok := ast.Unparen(e).(*ast.BinaryExpr); ok && (be.Op == token.EQL || be.Op == token.NEQ) {
					if tv := x.info.Types[be.Y]; tv.Value != nil {
						e, v = be.X, ((tv.Value.String() == "true") == (be.Op == token.EQL)) == f.Val
					}
				}
				call, ok := ast.Unparen(e).(*ast.CallExpr)
				return ok && core.CalleeFunc(x.info, call) == filterF.Obj && len(call.Args) == 1 && core.ObjOf(x.info, call.Args[0]) == kv && v == val
			})
		}
	}
	x.c.Check("R4.keys", "doFetch/kept-keys-appended", fl.Pos(), !c07.ReachBlock2(g, cfgq.Point{B: fb}, isKeep, filtered(true), fh),
		"a scanned key that passes the key filter must be appended to the key slice: otherwise it is never dumped and never copied")
	var wk []string
	for _, p := range g.Points(isKeep) {
		if wk == nil {
			wk = g.Path(cfgq.Query{From: cfgq.Point{B: fb}, AvoidEdge: filtered(false), Target: c07.IsNode(p.Node())})
		}
	}
	x.check("R4.keys", "doFetch/filtered-keys-dropped", fl.Pos(), wk, "a key rejected by the key filter is still appended to the key slice and copied")
}

func (x *rx) scannerMethod(name string) *types.Func {
	pk := x.c.Pkg(pkgScanner)
	if pk == nil {
		return nil
	}
	tn, _ := pk.Types.Scope().Lookup("Scanner").(*types.TypeName)
	if tn == nil {
		return nil
	}
	it, _ := tn.Type().Underlying().(*types.Interface)
	for i := 0; it != nil && i < it.NumMethods(); i++ {
		if it.Method(i).Name() == name {
			return it.Method(i)
		}
	}
	return nil
}

func (x *rx) scanners() {
	c := x.c
	// NormalScanner
	sk, en := c.Func(pkgScanner, "NormalScanner", "ScanKey"), c.Func(pkgScanner, "NormalScanner", "EndNode")
	if sk != nil && en != nil {
		info := sk.Pkg.TypesInfo
		isCursor := func(e ast.Expr) bool { return core.IsFieldNamed(info, c07.Strip(info, e), "NormalScanner", "cursor") }
		n := 0
		for _, call := range core.Calls(sk.Decl.Body, info, func(*ast.CallExpr, types.Object) bool { return true }) {
			if _, cm, _ := cmd(info, call); cm == "SCAN" {
				n++
				c.Check("R5.scanner", "NormalScanner/scan-from-cursor", call.Pos(), len(call.Args) >= 2 && isCursor(call.Args[1]),
					"SCAN must be issued with the cursor returned by the previous reply; found `"+c.Src(call)+"`: the scan restarts or jumps, keys are missed or the loop never ends")
			}
			if f := core.CalleeFunc(info, call); f != nil && f.Name() == "Scan" && strings.HasSuffix(f.Pkg().Path(), "redigo/redis") {
				n++
				okCur, okKeys := false, false
				if len(call.Args) == 3 {
					if u, ok := ast.Unparen(call.Args[1]).(*ast.UnaryExpr); ok && u.Op == token.AND && isCursor(u.X) {
						okCur = true
					}
					if u, ok := ast.Unparen(call.Args[2]).(*ast.UnaryExpr); ok && u.Op == token.AND {
						kobj := core.ObjOf(info, u.X)
						core.Inspect(sk.Decl.Body, func(m ast.Node) bool {
							if r, ok := m.(*ast.ReturnStmt); ok && len(r.Results) == 2 && core.IsNil(info, r.Results[1]) && core.ObjOf(info, r.Results[0]) == kobj {
								okKeys = true
							}
							return true
						})
					}
				}
				c.Check("R5.scanner", "NormalScanner/reply-to-cursor", call.Pos(), okCur, "the first element of the SCAN reply must be stored as the next cursor")
				c.Check("R5.scanner", "NormalScanner/reply-to-keys", call.Pos(), okKeys, "the second element of the SCAN reply (the page of keys) must be what ScanKey returns")
			}
		}
		if n < 2 {
			c.Undecidedf("R5.scanner", "NormalScanner/shape", sk.Decl.Pos(), "SCAN call / redis.Scan not found")
		}
		okEnd := false
		core.Inspect(en.Decl.Body, func(m ast.Node) bool {
			if r, ok := m.(*ast.ReturnStmt); ok && len(r.Results) == 1 {
				eq, is := intCmp(info, cfgq.Fact{Expr: r.Results[0], Val: true}, isCursor, 0)
				okEnd = is && eq
			}
			return true
		})
		c.Check("R5.scanner", "NormalScanner/end-on-zero", en.Decl.Pos(), okEnd, "EndNode must report the end exactly when the returned cursor is 0 (Redis SCAN contract)")
	}
	// KeyFileScanner
	ks, ke := c.Func(pkgScanner, "KeyFileScanner", "ScanKey"), c.Func(pkgScanner, "KeyFileScanner", "EndNode")
	if ks != nil && ke != nil {
		info := ks.Pkg.TypesInfo
		isCnt := func(e ast.Expr) bool { return core.IsFieldNamed(info, c07.Strip(info, e), "KeyFileScanner", "cnt") }
		isPage := func(e ast.Expr) bool { return core.IsFieldNamed(info, c07.Strip(info, e), "Configuration", "ScanKeyNumber") }
		n1, b := pat.Stmt("_k.cnt = len(_keys)").Find(info, ks.Decl.Body, nil)
		okRet := false
		if n1 != nil {
			core.Inspect(ks.Decl.Body, func(m ast.Node) bool {
				if r, ok := m.(*ast.ReturnStmt); ok && len(r.Results) == 2 && pat.Same(info, r.Results[0], b["_keys"]) {
					okRet = true
				}
				return true
			})
		}
		c.Check("R5.scanner", "KeyFileScanner/count-page", ks.Decl.Pos(), okRet, "ScanKey must record the size of the page it returns (cnt = len(keys)) for EndNode")
		verdict, shape := false, false
		core.Inspect(ke.Decl.Body, func(m ast.Node) bool {
			if r, ok := m.(*ast.ReturnStmt); ok && len(r.Results) == 1 {
				if be, ok := ast.Unparen(r.Results[0]).(*ast.BinaryExpr); ok {
					a, bb, op := be.X, be.Y, be.Op
					if isPage(a) {
						a, bb = bb, a
						op = map[token.Token]token.Token{token.LSS: token.GTR, token.GTR: token.LSS, token.NEQ: token.NEQ, token.EQL: token.EQL, token.LEQ: token.GEQ, token.GEQ: token.LEQ}[op]
					}
					if isCnt(a) && isPage(bb) {
						shape, verdict = true, op == token.NEQ || op == token.LSS
					}
				}
			}
			return true
		})
		if !shape {
			c.Undecidedf("R5.scanner", "KeyFileScanner/end-on-short-page", ke.Decl.Pos(), "EndNode is not a comparison of cnt with scan.key_number")
		} else {
			c.Check("R5.scanner", "KeyFileScanner/end-on-short-page", ke.Decl.Pos(), verdict, "EndNode must be true exactly when the last page was short (cnt != scan.key_number): with the comparison inverted the file scan stops after the first full page or never stops")
		}
	}
}

// dbs: every unfiltered database is fetched (fetcher) and listed (getSourceDbList).
func (x *rx) dbs() {
	g := x.g("fetcher")
	rs := x.rangeOver("fetcher", func(e ast.Expr) bool { return x.field(e) == "dbList" })
	filterDB := x.c.LookupFunc("redis-shake/filter", "", "FilterDB")
	if rs == nil || filterDB == nil {
		x.c.Undecidedf("R5.dbs", "fetcher", x.fn["fetcher"].Decl.Pos(), "no range over dbList / FilterDB not resolved")
		return
	}
	dbv := core.ObjOf(x.info, rs.Value)
	head, body := c07.RangeBlocks(g, rs)
	isFetch := x.callNode(x.fn["doFetch"].Obj)
	filtered := func(b *cfg.Block, s int) bool {
		return c07.EdgeFact(g, b, s, func(f cfgq.Fact) bool {
			call, ok := ast.Unparen(f.Expr).(*ast.CallExpr)
			return ok && f.Val && core.CalleeFunc(x.info, call) == filterDB.Obj && len(call.Args) == 1 && core.ObjOf(x.info, c07.Strip(x.info, call.Args[0])) == dbv
		})
	}
	x.c.Check("R5.dbs", "fetcher/every-db", rs.Pos(), !c07.ReachBlock2(g, cfgq.Point{B: body}, isFetch, filtered, head),
		"every database of dbList that passes the db filter must be fetched: here an iteration reaches the next database without doFetch, so that database's keys are never copied")
	okArg := false
	for _, p := range g.Points(isFetch) {
		for _, call := range cfgq.ExecCalls(p.Node()) {
			if core.CalleeFunc(x.info, call) == x.fn["doFetch"].Obj {
				okArg = len(call.Args) == 1 && core.ObjOf(x.info, c07.Strip(x.info, call.Args[0])) == dbv
			}
		}
	}
	x.c.Check("R5.dbs", "fetcher/db-arg", rs.Pos(), okArg, "doFetch must be given the database of this iteration")
	// getSourceDbList: for db, number := range mp { if number > 0 && !FilterDB(db) { list = append(list, db) } }
	fn := x.fn["getSourceDbList"]
	gl := x.g("getSourceDbList")
	var lr *ast.RangeStmt
	core.Inspect(fn.Decl.Body, func(n ast.Node) bool {
		if r, ok := n.(*ast.RangeStmt); ok {
			if _, isMap := x.info.TypeOf(r.X).Underlying().(*types.Map); isMap {
				lr = r
			}
		}
		return true
	})
	if lr == nil || lr.Key == nil || lr.Value == nil {
		x.c.Undecidedf("R5.dbs", "getSourceDbList/lists-every-db", fn.Decl.Pos(), "no `for db, number := range keyspace` loop")
		return
	}
	k, v := core.ObjOf(x.info, lr.Key), core.ObjOf(x.info, lr.Value)
	lh, lb := c07.RangeBlocks(gl, lr)
	isApp := func(n ast.Node) bool {
		b := pat.Stmt("_l = append(_l, _d)").Match(x.info, n, nil)
		return b != nil && core.ObjOf(x.info, b["_d"].(ast.Expr)) == k
	}
	skipOK := func(b *cfg.Block, s int) bool { // false edge of a condition all of whose conjuncts are `number > 0` / `!FilterDB(db)`
		cond := cfgq.CondOf(b)
		if cond == nil || s != 1 {
			return false
		}
		for _, f := range cfgq.Facts(cond, true) {
			okAtom := false
			if call, ok := ast.Unparen(f.Expr).(*ast.CallExpr); ok && !f.Val && core.CalleeFunc(x.info, call) == filterDB.Obj && len(call.Args) == 1 && core.ObjOf(x.info, c07.Strip(x.info, call.Args[0])) == k {
				okAtom = true
			}
			if be, ok := ast.Unparen(f.Expr).(*ast.BinaryExpr); ok && f.Val && be.Op == token.GTR && core.ObjOf(x.info, be.X) == v {
				if z, isC := core.IntConst(x.info, be.Y); isC && z == 0 {
					okAtom = true
				}
			}
			if !okAtom {
				return false
			}
		}
		return true
	}
	x.c.Check("R5.dbs", "getSourceDbList/lists-every-db", lr.Pos(), !c07.ReachBlock2(gl, cfgq.Point{B: lb}, isApp, skipOK, lh),
		"every non-empty, unfiltered database reported by `info keyspace` must be put into the db list: a database left out is never scanned")
}

// ---- R6

func (x *rx) errors() {
	type site struct {
		m     string
		pred  func(*ast.CallExpr) bool
		name  string
		retOK bool
	}
	scanF := x.scannerMethod("ScanKey")
	redigo := func(method string) func(*ast.CallExpr) bool {
		return func(call *ast.CallExpr) bool {
			f := core.CalleeFunc(x.info, call)
			return f != nil && f.Name() == method && f.Pkg() != nil && strings.HasSuffix(f.Pkg().Path(), "redigo/redis") && f.Type().(*types.Signature).Recv() != nil
		}
	}
	callee := func(f *types.Func) func(*ast.CallExpr) bool {
		return func(call *ast.CallExpr) bool { return core.CalleeFunc(x.info, call) == f }
	}
	sites := []site{
		{"doFetch", callee(scanF), "ScanKey", true}, {"doFetch", redigo("Do"), "Do", true},
		{"fetcher", callee(x.fn["doFetch"].Obj), "doFetch", false},
		{"writeSend", redigo("Flush"), "Flush", false}, {"receiver", redigo("Receive"), "Receive", false},
		{"exec", callee(x.fn["getSourceDbList"].Obj), "getSourceDbList", false},
		{"getSourceDbList", redigo("Do"), "Do", true},
	}
	for _, s := range sites {
		fn := x.fn[s.m]
		calls := x.calls(fn.Decl.Body, s.pred)
		if len(calls) == 0 {
			x.c.Undecidedf("R6.error", s.m+"/"+s.name, fn.Decl.Pos(), "no %s call found in %s", s.name, s.m)
		}
		for _, call := range calls {
			key := s.m + "/" + s.name
			if _, cm, _ := cmd(x.info, call); cm != "" && s.name == "Do" {
				key += ":" + cm
			} else if s.name == "Do" {
				key += ":pipeline"
			}
			c07.ErrCheck(x.c, x.g(s.m), x.info, fn.Decl.Body, call, c07.ErrSpec{Rule: "R6.error", Key: key, RetOK: s.retOK,
				Consequence: "the failed " + s.name + " goes unnoticed: the page / batch / database it concerns is silently not copied while the run reports success"})
		}
	}
	if sk := x.c.FuncOpt(pkgScanner, "NormalScanner", "ScanKey"); sk != nil {
		info := sk.Pkg.TypesInfo
		g := cfgq.Of(x.c.Program, sk)
		for _, call := range core.Calls(sk.Decl.Body, info, func(call *ast.CallExpr, _ types.Object) bool {
			_, cm, _ := cmd(info, call)
			f := core.CalleeFunc(info, call)
			return cm == "SCAN" || f != nil && f.Name() == "Scan" && strings.HasSuffix(f.Pkg().Path(), "redigo/redis")
		}) {
			c07.ErrCheck(x.c, g, info, sk.Decl.Body, call, c07.ErrSpec{Rule: "R6.error", Key: "NormalScanner.ScanKey/" + core.CalleeFunc(info, call).Name(), RetOK: true,
				Consequence: "a failed SCAN is taken for an empty last page: the rest of the keyspace is silently not copied"})
		}
	}
}
