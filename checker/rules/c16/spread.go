// Argument vectors: a command whose arguments are collected in a slice and spread into the call
// (`args := []interface{}{k, ttl, v}; if rewrite { args = append(args, "REPLACE") }; c.Send("RESTORE", args...)`).
package c16

import (
	"go/ast"
	"go/token"
	"go/types"
	"strings"

	"golang.org/x/tools/go/cfg"

	"rscheck/cfgq"
	"rscheck/core"
	"rscheck/rules/c07"
)

// argVector describes the slice spread into a call: the literal it starts from and the nodes that append to it.
type argVector struct {
	def     cfgq.Point // the definition `v := []T{...}`
	elems   []ast.Expr
	appends []cfgq.Point
	added   map[ast.Node][]ast.Expr
}

// vectorOf resolves the spread operand e of a call at `use`. ok is false when the slice is not a local that is
// defined once by a composite literal and afterwards only grown by `v = append(v, ...)` (anything else that
// touches it - another assignment, an element store, its address, a call that is handed it - leaves the shape).
func (x *rx) vectorOf(sc *wscope, e ast.Expr) (*argVector, bool) {
	id, ok := ast.Unparen(e).(*ast.Ident)
	if !ok {
		return nil, false
	}
	v, ok := c07.Obj(x.info, id).(*types.Var)
	if !ok || v.IsField() || !c07.Within(posOf(v), sc.root) {
		return nil, false
	}
	vec := &argVector{added: map[ast.Node][]ast.Expr{}}
	good := true
	defs := 0
	for _, p := range sc.g.Points(func(n ast.Node) bool { return c07.Within(n, sc.root) }) {
		n := p.Node()
		as, r := c07.AssignsTo(x.info, n, v)
		switch {
		case as != nil && r != nil:
			if lit, isLit := ast.Unparen(r).(*ast.CompositeLit); isLit {
				defs++
				vec.def, vec.elems = p, lit.Elts
				for _, el := range lit.Elts {
					if _, isKV := el.(*ast.KeyValueExpr); isKV {
						good = false
					}
				}
				continue
			}
			call, isCall := ast.Unparen(r).(*ast.CallExpr)
			if bi, isB := core.Callee(x.info, call).(*types.Builtin); isCall && isB && bi.Name() == "append" && len(call.Args) >= 1 && !call.Ellipsis.IsValid() && c07.Obj(x.info, call.Args[0]) == types.Object(v) {
				vec.appends = append(vec.appends, p)
				vec.added[n] = call.Args[1:]
				continue
			}
			good = false
		case as != nil:
			good = false
		default:
			// any other mention besides reads in the spreading call itself / len / range
			ast.Inspect(n, func(m ast.Node) bool {
				switch t := m.(type) {
				case *ast.UnaryExpr:
					if t.Op == token.AND && c07.Obj(x.info, t.X) == types.Object(v) {
						good = false
					}
				case *ast.AssignStmt:
					for _, l := range t.Lhs {
						if ix, isIx := ast.Unparen(l).(*ast.IndexExpr); isIx && c07.Obj(x.info, ix.X) == types.Object(v) {
							good = false
						}
					}
				case *ast.CallExpr:
					for i, a := range t.Args {
						if c07.Obj(x.info, a) == types.Object(v) && !(t.Ellipsis.IsValid() && i == len(t.Args)-1) {
							if _, isB := core.Callee(x.info, t).(*types.Builtin); !isB {
								good = false
							}
						}
					}
				}
				return true
			})
		}
	}
	return vec, good && defs == 1
}

// spreadRestore judges `Send("RESTORE", v...)`. It reports the obligations of both variants of the command
// (with and without REPLACE) that the one call site stands for.
func (x *rx) spreadRestore(st wsite, call *ast.CallExpr) {
	sc := st.sc
	pos := call.Pos()
	undecided := func(why string) {
		x.opaque = true
		for _, v := range []string{"replace", "plain"} {
			x.c.Undecidedf("R2.restore-send", "writer/args:"+v, pos, "the arguments of `%s` are spread from a slice: %s", x.c.Src(call), why)
		}
		x.c.Undecidedf("R2.restore-send", "writer/replace-on-rewrite", pos, "the arguments of `%s` are spread from a slice: %s", x.c.Src(call), why)
	}
	if len(call.Args) != 2 {
		undecided("unexpected argument count")
		return
	}
	vec, ok := x.vectorOf(sc, call.Args[1])
	if !ok {
		undecided("the slice is not a local defined by one literal and grown only by append")
		return
	}
	use := c07.IsNode(st.p.Node())
	// the literal is evaluated where it is written: the element's fields must not change between there and the send
	writes := func(n ast.Node) bool {
		as, isAs := n.(*ast.AssignStmt)
		if !isAs {
			return false
		}
		for _, l := range as.Lhs {
			if sel, isSel := ast.Unparen(l).(*ast.SelectorExpr); isSel && c07.Obj(x.info, sel.X) == sc.ele {
				return true
			}
		}
		return false
	}
	for _, wp := range sc.g.Points(writes) {
		if sc.g.Path(cfgq.Query{From: vec.def, After: true, Target: c07.IsNode(wp.Node()), Avoid: use}) != nil && sc.g.Path(cfgq.Query{From: wp, After: true, Target: use, Avoid: c07.IsNode(vec.def.Node())}) != nil {
			undecided("a field of the element is assigned between the literal and the send")
			return
		}
	}
	okBase, unknown := len(vec.elems) == 3, false
	if okBase {
		okBase, unknown = x.argsAre(sc.g, vec.def, sc.ele, vec.elems, "key", "pttl", "value")
	}
	// what is appended: exactly the constant REPLACE, at most once on a path
	wrongAdd, unknownAdd := "", ""
	for _, ap := range vec.appends {
		added := vec.added[ap.Node()]
		if len(added) != 1 {
			unknownAdd = x.c.Src(ap.Node())
			continue
		}
		if s, isC := core.StringConst(x.info, added[0]); !isC {
			unknownAdd = x.c.Src(ap.Node())
		} else if strings.ToUpper(s) != "REPLACE" {
			wrongAdd = x.c.Src(ap.Node())
		}
		isOther := func(n ast.Node) bool { return n != ap.Node() && vec.added[n] != nil }
		if sc.g.Path(cfgq.Query{From: ap, After: true, Target: isOther, Avoid: c07.IsNode(vec.def.Node())}) != nil {
			unknownAdd = "several appends on one path"
		}
	}
	isAppend := func(n ast.Node) bool { return vec.added[n] != nil }
	hasPlain := sc.g.Path(cfgq.Query{From: vec.def, After: true, Avoid: isAppend, Target: use}) != nil
	variants := []string{}
	if len(vec.appends) > 0 {
		variants = append(variants, "replace")
	}
	if hasPlain {
		variants = append(variants, "plain")
	}
	for _, v := range variants {
		switch {
		case wrongAdd != "" && v == "replace":
			x.c.Failf("R2.restore-send", "writer/args:"+v, pos, "RESTORE must be sent as (key, pttl, value[, REPLACE]); `%s` appends something else to the argument list", wrongAdd)
		case unknown || unknownAdd != "":
			x.opaque = true
			x.c.Undecidedf("R2.restore-send", "writer/args:"+v, pos, "an argument of `%s` is carried in a local variable or appended in a form that is not followed (%s)", x.c.Src(call), unknownAdd)
		default:
			x.c.Check("R2.restore-send", "writer/args:"+v, pos, okBase, "RESTORE must be sent as (key, pttl, value[, REPLACE]) of the element taken from keyChan; the argument list spread into `"+x.c.Src(call)+"` is built from other values: the key is restored under another name / with another TTL or payload")
		}
	}
	// under key_exists=rewrite the send must not be reachable without the REPLACE having been appended
	if hasPlain {
		w := sc.g.Path(cfgq.Query{From: sc.g.Entry(), Target: use, Avoid: isAppend, AvoidEdge: func(b *cfg.Block, s int) bool {
			return c07.EdgeFact(sc.g, b, s, func(f cfgq.Fact) bool {
				return !f.Val && isRewrite(x.info, f.Expr, true) || f.Val && isRewrite(x.info, f.Expr, false)
			})
		}})
		x.check("R2.restore-send", "writer/replace-on-rewrite", pos, w, "with key_exists=rewrite the RESTORE must carry REPLACE; this send is reachable under rewrite without REPLACE having been appended to its argument list, so an existing target key answers BUSYKEY and the run aborts instead of overwriting")
	} else {
		x.c.Okf("R2.restore-send", "writer/replace-on-rewrite", pos, "every RESTORE carries REPLACE")
	}
}
