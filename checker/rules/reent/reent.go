// Package reent implements the "no shared mutable state on a concurrently
// executed path" rule. Several properties quantify over parallel workers
// (decode workers, full-sync workers, one command parser per source node):
// the functions those workers run must be re-entrant. The rule computes the
// closure of module functions statically reachable from the given roots and
// reports every package-level variable of reference type (slice, map,
// pointer) declared in the watched packages that is used on that path in a way
// that can mutate it or let it be mutated through an alias: assignment,
// element assignment, slicing, passing it as an argument, storing it in a
// composite literal or another variable, taking its address. Read-only uses
// (indexing, map lookup, len, range, method calls) are accepted.
package reent

import (
	"fmt"
	"go/ast"
	"go/token"
	"go/types"
	"sort"
	"strings"

	"rscheck/core"
)

func refType(t types.Type) bool {
	if types.Identical(t, types.Universe.Lookup("error").Type()) {
		return false // sentinel error values are immutable by convention
	}
	switch t.Underlying().(type) {
	case *types.Slice, *types.Map, *types.Pointer, *types.Interface, *types.Chan:
		return true
	}
	return false
}

// Closure returns the module functions statically reachable from roots.
func Closure(c *core.Ctx, roots []*core.Fn) []*core.Fn {
	seen := map[*types.Func]bool{}
	var out []*core.Fn
	var visit func(fn *core.Fn)
	visit = func(fn *core.Fn) {
		if fn == nil || fn.Obj == nil || seen[fn.Obj] || fn.Decl == nil || fn.Decl.Body == nil {
			return
		}
		seen[fn.Obj] = true
		out = append(out, fn)
		info := fn.Pkg.TypesInfo
		ast.Inspect(fn.Decl.Body, func(n ast.Node) bool {
			call, ok := n.(*ast.CallExpr)
			if !ok {
				return true
			}
			f := core.CalleeFunc(info, call)
			if f == nil || f.Pkg() == nil || !strings.HasPrefix(f.Pkg().Path(), core.Module) {
				return true
			}
			// interface methods: every module implementation of that name
			if sig, ok := f.Type().(*types.Signature); ok && sig.Recv() != nil {
				if _, isIface := sig.Recv().Type().Underlying().(*types.Interface); isIface {
					return true
				}
			}
			visit(c.FnOf(f))
			return true
		})
		// a module function used as a value (sync.Once.Do(f), go f, a callback argument) runs on this path too
		ast.Inspect(fn.Decl.Body, func(n ast.Node) bool {
			id, ok := n.(*ast.Ident)
			if !ok {
				return true
			}
			f, ok := info.Uses[id].(*types.Func)
			if !ok || f.Pkg() == nil || !strings.HasPrefix(f.Pkg().Path(), core.Module) {
				return true
			}
			if sig, ok := f.Type().(*types.Signature); ok && sig.Recv() != nil {
				if _, isIface := sig.Recv().Type().Underlying().(*types.Interface); isIface {
					return true
				}
			}
			visit(c.FnOf(f))
			return true
		})
	}
	for _, r := range roots {
		visit(r)
	}
	sort.Slice(out, func(i, j int) bool { return out[i].Name() < out[j].Name() })
	return out
}

// Check records one obligation per (function, package-level variable) pair in
// the closure, under rule. watched lists module-relative package paths whose
// package-level variables are examined.
func Check(c *core.Ctx, rule string, roots []*core.Fn, watched []string, who string) {
	isWatched := map[string]bool{}
	for _, w := range watched {
		isWatched[core.Module+"/"+w] = true
	}
	fns := Closure(c, roots)
	n := 0
	for _, fn := range fns {
		info := fn.Pkg.TypesInfo
		type use struct {
			pos  token.Pos
			what string
		}
		bad := map[*types.Var]use{}
		okUse := map[*types.Var]int{}
		var stack []ast.Node
		ast.Inspect(fn.Decl.Body, func(nd ast.Node) bool {
			if nd == nil {
				stack = stack[:len(stack)-1]
				return false
			}
			stack = append(stack, nd)
			id, ok := nd.(*ast.Ident)
			if !ok {
				return true
			}
			v, ok := info.Uses[id].(*types.Var)
			if !ok || v.Pkg() == nil || !isWatched[v.Pkg().Path()] || v.Parent() != v.Pkg().Scope() {
				return true
			}
			isRef := refType(v.Type())
			// classify by the parent chain (skip a qualifying selector pkg.Var)
			i := len(stack) - 2
			var self ast.Node = id
			if i >= 0 {
				if sel, ok := stack[i].(*ast.SelectorExpr); ok && sel.Sel == id {
					self = sel
					i--
				}
			}
			verdict := "" // "" = read-only
			if i >= 0 {
				switch p := stack[i].(type) {
				case *ast.IndexExpr:
					if p.X == self {
						// element access: mutation only when on the left of an assignment / inc-dec
						if i-1 >= 0 {
							switch pp := stack[i-1].(type) {
							case *ast.AssignStmt:
								for _, l := range pp.Lhs {
									if l == ast.Expr(p) {
										verdict = "an element of it is assigned"
									}
								}
							case *ast.IncDecStmt:
								if pp.X == ast.Expr(p) {
									verdict = "an element of it is modified"
								}
							case *ast.UnaryExpr:
								if pp.Op == token.AND {
									verdict = "the address of an element is taken"
								}
							}
						}
					}
				case *ast.SelectorExpr:
					// field or method of the object the pointer refers to: a method call is
					// accepted (the type is responsible for its own locking); a field write is not
					if p.X == self && i-1 >= 0 {
						if as, ok := stack[i-1].(*ast.AssignStmt); ok {
							for _, l := range as.Lhs {
								if l == ast.Expr(p) {
									verdict = "a field of the shared object is assigned"
								}
							}
						}
					}
				case *ast.RangeStmt:
					if p.X != self {
						verdict = "it is used as a range variable"
					}
				case *ast.CallExpr:
					if b, isB := core.Callee(info, p).(*types.Builtin); isB && (b.Name() == "len" || b.Name() == "cap") {
						break
					}
					for _, a := range p.Args {
						if a == self {
							verdict = "it is passed to " + c.Src(p.Fun) + " (which may write through it or keep it)"
						}
					}
				case *ast.SliceExpr:
					verdict = "it is re-sliced into an alias"
				case *ast.AssignStmt:
					for _, l := range p.Lhs {
						if l == self {
							verdict = "it is assigned"
						}
					}
					for _, r := range p.Rhs {
						if r == self {
							verdict = "it is copied into another variable (alias)"
						}
					}
				case *ast.CompositeLit, *ast.KeyValueExpr:
					verdict = "it is stored in a composite literal (alias)"
				case *ast.UnaryExpr:
					if p.Op == token.AND {
						verdict = "its address is taken"
					}
				case *ast.ReturnStmt:
					verdict = "it is returned (alias)"
				case *ast.BinaryExpr, *ast.ParenExpr, *ast.IfStmt, *ast.SwitchStmt, *ast.StarExpr:
					// comparisons with nil etc.
				}
			}
			if _, isArr := v.Type().Underlying().(*types.Array); isArr && verdict == "it is re-sliced into an alias" {
				// slicing a package-level array yields a slice that shares the array's storage
				isRef = true
			}
			if !isRef && verdict != "" && verdict != "it is assigned" && verdict != "its address is taken" &&
				verdict != "a field of the shared object is assigned" && verdict != "an element of it is assigned" && verdict != "an element of it is modified" {
				verdict = "" // a copy of a value-typed variable is not an alias
			}
			if !isRef && verdict == "" {
				if i >= 0 {
					if inc, ok := stack[i].(*ast.IncDecStmt); ok && inc.X == self {
						verdict = "it is incremented"
					}
				}
			}
			if verdict != "" {
				if _, had := bad[v]; !had {
					bad[v] = use{id.Pos(), verdict}
				}
			} else {
				okUse[v]++
			}
			return true
		})
		for v, u := range bad {
			n++
			c.Check(rule, fn.Name()+"/"+v.Name(), u.pos, false,
				fmt.Sprintf("%s runs concurrently in %s, but it uses the package-level variable %s in a mutable way (%s): two workers share it, so one worker's data is overwritten by another's", fn.Name(), who, v.Name(), u.what))
		}
		for v := range okUse {
			if _, isBad := bad[v]; !isBad {
				n++
				c.Okf(rule, fn.Name()+"/"+v.Name(), fn.Decl.Pos(), "package-level %s is only read", v.Name())
			}
		}
	}
	c.Okf(rule, "closure", token.NoPos, "%d functions reachable from the concurrent entry points examined", len(fns))
}
