package c04

import (
	"fmt"
	"go/ast"
	"go/token"
	"go/types"

	"golang.org/x/tools/go/cfg"

	"rscheck/cfgq"
	"rscheck/core"
	"rscheck/rules/c03"
)

// R7 the database tag never names a database nobody selected.
//
// The Db tag of a queued command is what the sender keys its run-id
// bookkeeping by (R3): a batch tagged k makes the sender believe that run id
// and version of the checkpoint have been (or are now) written into database
// k of the target. The tag variable of the parser is therefore allowed to hold
//   - the number of a SELECT the parser forwards (decided by C03.R6 / C14),
//   - ds.startDbId: the database the start SELECT puts the target into (R5),
//   - a value that is no database number at all (a negative constant: "not
//     known yet"), which only costs one redundant run-id HSET.
// A definition of the tag by a constant k >= 0 (or by the zero value of a
// declaration without initialiser) that can reach an enqueue of the decode
// loop without a later definition in between claims database k although
// nothing put the target there -- unless every such path has established
// ds.startDbId == k. After PSYNC CONTINUE the stream carries no SELECT of its
// own, so this is exactly the resumed run: the target is in ds.startDbId, the
// commands are tagged k, runIdMap[k] is marked, and when the source later
// really selects k the checkpoint written there has an offset but no run id.
//
// Value flow is decided on the CFG of parseSourceCommand (reaching
// definitions by path queries); a tag that is not a local variable, or a
// definition that reaches the enqueue only through a statement that may
// rewrite the variable behind the rule's back (its address handed out, a
// closure that assigns it), is UNDECIDED.
func r7(c *core.Ctx, p *c03.Parser) {
	const rule = "R7.db-tag"
	info := p.Info
	decl := p.Fn.Decl
	isStart := func(x ast.Expr) bool {
		return x != nil && c03.FieldIs(info, c03.ChaseCopy(info, decl, x), c03.Syncer, "startDbId")
	}
	idx := map[string]int{}
	for _, q := range p.Sends {
		if !q.InLoop {
			continue
		}
		idx[q.Name]++
		key := fmt.Sprintf("unselected-db/%s#%d", q.Name, idx[q.Name])
		db := q.Field["Db"]
		if db == nil {
			// the zero value of the field: database 0 for every command
			c.Failf(rule, key, q.Pos(), "the enqueued command carries no Db tag: every batch is booked under database 0, so run id and version are written once, into whatever database the target happens to be in, and a checkpoint in any other database resumes with run id \"?\" (full resync)")
			continue
		}
		db = c03.ChaseCopy(info, decl, db)
		if isStart(db) {
			c.Okf(rule, key, q.Pos(), "tagged with ds.startDbId")
			continue
		}
		id, _ := ast.Unparen(db).(*ast.Ident)
		var v *types.Var
		if id != nil {
			v, _ = core.ObjOf(info, id).(*types.Var)
		}
		if v == nil || v.IsField() || !(decl.Pos() <= v.Pos() && v.Pos() < decl.End()) {
			if k, isConst := core.IntConst(info, db); isConst {
				if k < 0 {
					c.Okf(rule, key, q.Pos(), "tagged with the non-database value %d", k)
				} else {
					c.Failf(rule, key, q.Pos(), "the command is tagged with the constant database %d whatever the source selected: the sender books run id and version under database %d only, so a checkpoint in any other database resumes with run id \"?\" (full resync, data applied again)", k, k)
				}
				continue
			}
			c.Undecidedf(rule, key, q.Pos(), "the Db tag `%s` is not a local variable of the parser", c.Src(db))
			continue
		}
		tagDefs(c, p, rule, key, q, v, isStart)
	}
	c03.Expect(c, rule, 2)
}

// tagDef is one definition of the tag variable.
type tagDef struct {
	at   ast.Node // the cfg node
	k    int64    // the database number it claims
	zero bool     // declared without a value
}

func tagDefs(c *core.Ctx, p *c03.Parser, rule, key string, q *c03.Enq, v *types.Var, isStart func(ast.Expr) bool) {
	info := p.Info
	decl := p.Fn.Decl
	isV := c03.IsObj(info, v)
	constOf := func(e ast.Expr) (int64, bool) {
		if k, ok := core.IntConst(info, e); ok {
			return k, true
		}
		if _, isID := ast.Unparen(e).(*ast.Ident); isID {
			if o, ok := c03.SoleOrigin(info, decl, e); ok && o.Expr != nil && o.Op == 0 && !o.Range && o.Res < 0 && !o.Param {
				return core.IntConst(info, o.Expr)
			}
		}
		return 0, false
	}
	// definitions in the body of the parser itself (closures are handled as "may rewrite" below)
	var claims []tagDef
	kills := map[ast.Node]bool{}  // nodes that assign the variable a new value
	opaque := map[ast.Node]bool{} // nodes that may rewrite it behind the rule's back
	inLit := func(n ast.Node) *ast.FuncLit {
		var lit *ast.FuncLit
		for _, a := range core.PathTo(decl.Body, n) {
			if fl, ok := a.(*ast.FuncLit); ok && ast.Node(fl) != n && lit == nil {
				lit = fl
			}
		}
		return lit
	}
	var writers []*ast.FuncLit // closures of the parser that assign the variable
	note := func(n ast.Node, rhs ast.Expr, whole bool) {
		if lit := inLit(n); lit != nil {
			writers = append(writers, lit)
			return
		}
		if !whole {
			return // `v += e`, `v++`: derived from the old value, neither a claim nor a kill
		}
		pt, ok := p.G.Find(n)
		if !ok {
			return
		}
		kills[pt.Node()] = true
		if rhs == nil {
			return
		}
		if k, isConst := constOf(rhs); isConst && k >= 0 {
			claims = append(claims, tagDef{at: pt.Node(), k: k})
		}
	}
	ast.Inspect(decl.Body, func(n ast.Node) bool {
		switch s := n.(type) {
		case *ast.AssignStmt:
			for i, l := range s.Lhs {
				if !isV(l) {
					continue
				}
				whole := s.Tok == token.ASSIGN || s.Tok == token.DEFINE
				var rhs ast.Expr
				if whole && len(s.Lhs) == len(s.Rhs) {
					rhs = s.Rhs[i]
				}
				note(s, rhs, whole)
			}
		case *ast.IncDecStmt:
			if isV(s.X) {
				note(s, nil, false)
			}
		case *ast.RangeStmt:
			for _, l := range []ast.Expr{s.Key, s.Value} {
				if l != nil && isV(l) {
					if pt, ok := p.G.Find(l); ok && inLit(s) == nil {
						kills[pt.Node()] = true
					}
				}
			}
		case *ast.ValueSpec:
			for i, nm := range s.Names {
				if info.Defs[nm] != types.Object(v) {
					continue
				}
				if inLit(s) != nil {
					continue // declared inside a closure: not the parser's variable on the loop paths
				}
				pt, ok := p.G.Find(s)
				if !ok {
					continue
				}
				kills[pt.Node()] = true
				switch {
				case len(s.Values) == 0:
					claims = append(claims, tagDef{at: pt.Node(), zero: true})
				case len(s.Values) == len(s.Names):
					if k, isConst := constOf(s.Values[i]); isConst && k >= 0 {
						claims = append(claims, tagDef{at: pt.Node(), k: k})
					}
				}
			}
		case *ast.UnaryExpr:
			if s.Op == token.AND && isV(s.X) {
				if pt, ok := p.G.Find(s); ok && inLit(s) == nil {
					opaque[pt.Node()] = true
				} else if lit := inLit(s); lit != nil {
					writers = append(writers, lit)
				}
			}
		}
		return true
	})
	// a node that runs (or hands out) a closure which assigns the variable may rewrite it
	if len(writers) > 0 {
		isWriter := func(fl *ast.FuncLit) bool {
			for _, w := range writers {
				if w == fl || fl.Pos() <= w.Pos() && w.End() <= fl.End() {
					return true
				}
			}
			return false
		}
		for _, b := range p.G.CFG.Blocks {
			for _, n := range b.Nodes {
				for _, call := range cfgq.ExecCalls(n) {
					if fl := c03.LocalClosure(info, decl, call.Fun); fl != nil && isWriter(fl) {
						opaque[n] = true
					}
					for _, a := range call.Args { // handed to a higher-order helper
						if fl := c03.LocalClosure(info, decl, a); fl != nil && isWriter(fl) {
							opaque[n] = true
						}
						if fl, ok := ast.Unparen(a).(*ast.FuncLit); ok && isWriter(fl) {
							opaque[n] = true
						}
					}
					if fl, ok := ast.Unparen(call.Fun).(*ast.FuncLit); ok && isWriter(fl) {
						opaque[n] = true
					}
				}
				// go / defer of such a closure
				ast.Inspect(n, func(m ast.Node) bool {
					switch x := m.(type) {
					case *ast.GoStmt:
						if fl, ok := ast.Unparen(x.Call.Fun).(*ast.FuncLit); ok && isWriter(fl) {
							opaque[n] = true
						}
					case *ast.DeferStmt:
						if fl, ok := ast.Unparen(x.Call.Fun).(*ast.FuncLit); ok && isWriter(fl) {
							opaque[n] = true
						}
					}
					return true
				})
			}
		}
	}
	use := q.Pt.Node()
	isUse := func(n ast.Node) bool { return n == use }
	if len(claims) == 0 {
		c.Okf(rule, key, q.Pos(), "no definition of the tag `%s` is a database number that was not selected (constants are negative: \"no database yet\")", v.Name())
		return
	}
	var fails, opens []string
	var failPos token.Pos
	var witness []string
	for _, d := range claims {
		d := d
		pt, ok := p.G.Find(d.at)
		if !ok {
			opens = append(opens, c.Src(d.at))
			continue
		}
		// paths on which the target is known to be in database k do not count
		known := p.Fl.Edge(func(ft cfgq.Fact) bool {
			eq, ok := c03.EqFact(ft, isStart, func(x ast.Expr) bool { kv, ok := core.IntConst(info, x); return ok && kv == d.k })
			return ok && eq
		})
		killed := func(n ast.Node) bool { return n != d.at && kills[n] }
		w := p.G.Path(cfgq.Query{From: pt, After: true, Target: isUse,
			Avoid:     func(n ast.Node) bool { return killed(n) || opaque[n] },
			AvoidEdge: func(b *cfg.Block, s int) bool { return known(b, s) }})
		if w != nil {
			fails = append(fails, c.Src(d.at))
			if witness == nil {
				witness, failPos = w, d.at.Pos()
			}
			continue
		}
		if len(opaque) > 0 {
			if w := p.G.Path(cfgq.Query{From: pt, After: true, Target: isUse, Avoid: killed,
				AvoidEdge: func(b *cfg.Block, s int) bool { return known(b, s) }}); w != nil {
				opens = append(opens, c.Src(d.at))
			}
		}
	}
	switch {
	case len(fails) > 0:
		c.Check(rule, key, failPos, false, fmt.Sprintf("the database tag `%s` is set by `%s` to a database number that nothing selected, and that value reaches this enqueue: the commands are tagged with a database the target connection need not be in. "+
			"After PSYNC CONTINUE the source sends no SELECT, the target was put into ds.startDbId by the start SELECT, yet the sender books run id and version of the checkpoint under the constant database (runIdMap); "+
			"when the source later really selects that database its batches carry only the offset field, so the newest checkpoint has no run id, the next restart reads run id \"?\" and falls back to a full resync into the non-empty target (nothing is resumed). "+
			"The initial value must be a value that is no database number (e.g. -1) or ds.startDbId", v.Name(), fails[0]), witness...)
	case len(opens) > 0:
		c.Undecidedf(rule, key, q.Pos(), "`%s` sets the database tag `%s` to a database number; whether it reaches this enqueue depends on a statement that may rewrite the variable (address taken / closure)", opens[0], v.Name())
	default:
		c.Okf(rule, key, q.Pos(), "no definition of the tag `%s` by a database number reaches this enqueue without a later definition (or only where ds.startDbId is known to be that number)", v.Name())
	}
}
